(* C06 - proofs about Decimal (model/XsdNum.v): every finite decimal is written without exponent as a
   valid xs:decimal literal that reads back as the same number; every accepted literal is valid. *)
From Coq Require Import List ZArith Bool Ascii String Lia.
From Basyx Require Import model.XsdBase model.XsdRe model.XsdLex model.Xsd model.XsdNum
  proofs.XsdBaseProofs proofs.XsdIntProofs.
Import ListNotations.
Local Open Scope Z_scope.

Lemma forallb_repeat0 k : forallb is_digit (repeat "0"%char k) = true.
Proof. induction k; [reflexivity|]. cbn [repeat forallb]. rewrite IHk. reflexivity. Qed.
Lemma forallb_firstn {A} (p : A -> bool) k l : forallb p l = true -> forallb p (firstn k l) = true.
Proof. intros H. rewrite <- (firstn_skipn k l), forallb_app in H. apply andb_true_iff in H. tauto. Qed.
Lemma forallb_skipn {A} (p : A -> bool) k l : forallb p l = true -> forallb p (skipn k l) = true.
Proof. intros H. rewrite <- (firstn_skipn k l), forallb_app in H. apply andb_true_iff in H. tauto. Qed.
Lemma int_acc_trailing0 k : forall a, int_acc a (repeat "0"%char k) = a * 10 ^ Z.of_nat k.
Proof.
  induction k; intros a; [cbn; lia|]. cbn [repeat int_acc]. rewrite IHk. change (dval "0") with 0.
  rewrite Nat2Z.inj_succ, Z.pow_succ_r by lia. lia.
Qed.

Lemma no_ws_cons c s : no_ws (c :: s) = negb (is_xsd_ws c) && no_ws s.
Proof. reflexivity. Qed.
Definition sign_text (neg : bool) : str := if neg then ["-"%char] else [].
Definition frac_dot (f : str) : str := if is_nil f then [] else "."%char :: f.

Lemma lstrip_digits ip r : ip <> [] -> forallb is_digit ip = true -> lstrip is_xsd_ws (ip ++ r) = ip ++ r.
Proof.
  intros Hne Hd. destruct ip as [|i0 ip0]; [congruence|]. cbn in Hd. apply andb_true_iff in Hd as [Hi _].
  destruct (digit_not i0 Hi) as (Nws & _). cbn [app lstrip]. rewrite Nws. reflexivity.
Qed.
Lemma nosign_digits ip r : ip <> [] -> forallb is_digit ip = true ->
  (match ip ++ r with
   | c :: r' => if ceq c "-" then (true, r') else if ceq c "+" then (false, r') else (false, ip ++ r)
   | [] => (false, ip ++ r)
   end) = (false, ip ++ r).
Proof.
  intros Hne Hd. destruct ip as [|i0 ip0]; [congruence|]. cbn in Hd. apply andb_true_iff in Hd as [Hi _].
  destruct (digit_not i0 Hi) as (_ & _ & _ & Nmi & Npl & _). cbn [app]. rewrite Nmi, Npl. reflexivity.
Qed.

(* the guard on a text of the printed shape *)
Lemma guard_text neg ip f : ip <> [] -> forallb is_digit ip = true -> forallb is_digit f = true ->
  decimal_guard (sign_text neg ++ ip ++ frac_dot f) = Some (neg, ip, f) /\
  matches decimal_re (sign_text neg ++ ip ++ frac_dot f) = true /\
  no_ws (sign_text neg ++ ip ++ frac_dot f) = true.
Proof.
  intros Hne Hip Hf.
  assert (Sp : span is_digit (ip ++ frac_dot f) = (ip, frac_dot f)).
  { apply span_app; [exact Hip|]. unfold frac_dot. destruct (is_nil f); [trivial|reflexivity]. }
  assert (Sf : span is_digit f = (f, [])).
  { rewrite <- (app_nil_r f) at 1. apply span_app; [exact Hf|trivial]. }
  assert (Nn : negb (is_nil ip) = true) by (destruct ip; [congruence|reflexivity]).
  assert (Tail : (let '(ip', r) := span is_digit (ip ++ frac_dot f) in
                  let '(fp, r') := match r with
                                   | c :: r1 => if ceq c "." then (let '(f', r2) := span is_digit r1 in (Some f', r2)) else (None, r)
                                   | [] => (None, r)
                                   end in
                  let ok := match fp with None => negb (is_nil ip') | Some f' => negb (is_nil ip') || negb (is_nil f') end in
                  if ok && forallb is_xsd_ws r' then Some (neg, ip', match fp with Some f' => f' | None => [] end) else None)
                 = Some (neg, ip, f)).
  { rewrite Sp. unfold frac_dot. destruct f as [|f0 f'] eqn:Ef; cbn [is_nil].
    - rewrite Nn. reflexivity.
    - change (ceq "." ".") with true. cbv iota. rewrite <- Ef in *. rewrite Sf. rewrite Nn. reflexivity. }
  split; [|split].
  - unfold decimal_guard. destruct neg; cbn [sign_text app].
    + cbn [lstrip]. change (is_xsd_ws "-") with false. cbv iota. change (ceq "-" "-") with true. cbv iota. exact Tail.
    + rewrite (lstrip_digits ip _ Hne Hip), (nosign_digits ip _ Hne Hip). exact Tail.
  - unfold decimal_re. apply m_cat; [destruct neg; reflexivity|]. unfold unsigned_dec_re. apply m_altl.
    apply m_cat; [apply m_plus_cls; assumption|]. unfold frac_dot. destruct (is_nil f) eqn:En; [reflexivity|].
    apply m_opt_some. apply m_cons_ch. apply m_star_cls. exact Hf.
  - rewrite !no_ws_app, (digits_no_ws _ Hip). replace (no_ws (sign_text neg)) with true by (destruct neg; reflexivity).
    unfold frac_dot. destruct (is_nil f); [reflexivity|]. rewrite no_ws_cons, (digits_no_ws _ Hf). reflexivity.
Qed.

(* what xsd_repr/from_xsd make of a finite decimal: the same number, with a non-positive exponent *)
Definition dec_reread (v : pydec) : pydec :=
  let e := if (dec_coef v =? 0) && (0 <? dec_exp v) then 0 else dec_exp v in
  if 0 <? e then mkDec (dec_neg v) (dec_coef v * 10 ^ e) 0 else mkDec (dec_neg v) (dec_coef v) e.

Lemma decimal_roundtrip v : 0 <= dec_coef v ->
  exists s, print_decimal v = Ok s /\ parse_decimal s = Ok (dec_reread v) /\ valid_xsd_decimal s = true.
Proof.
  destruct v as [neg coef exp]. cbn [dec_coef]. intros Hc.
  unfold print_decimal, dec_reread. cbn [dec_neg dec_coef dec_exp].
  set (e := if (coef =? 0) && (0 <? exp) then 0 else exp).
  destruct (str_nat_spec coef Hc) as (Hne & Hd & Hv). set (ds := str_nat coef) in *.
  set (n := Z.of_nat (List.length ds)).
  assert (Hn : 0 < n) by (unfold n; destruct ds; [congruence|cbn [List.length]; lia]).
  assert (Fin : forall ip f, ip <> [] -> forallb is_digit ip = true -> forallb is_digit f = true ->
     forall c' e', int_dec (ip ++ f) = c' -> - Z.of_nat (List.length f) = e' ->
     exists s, Ok (sign_text neg ++ ip ++ frac_dot f) = Ok s /\
               parse_decimal s = Ok (mkDec neg c' e') /\ valid_xsd_decimal s = true).
  { intros ip f H1 H2 H3 c' e' Hc' He'. destruct (guard_text neg ip f H1 H2 H3) as (G & M & N).
    exists (sign_text neg ++ ip ++ frac_dot f). split; [reflexivity|]. split.
    - unfold parse_decimal. rewrite G, Hc', He'. reflexivity.
    - unfold valid_xsd_decimal. rewrite ws_collapse_id by exact N. exact M. }
  change (if neg then ["-"%char] else []) with (sign_text neg).
  destruct (Z.ltb_spec (e + n) 0) as [L1|L1].
  - (* 0.000ddd *)
    assert (He : e < 0) by lia. destruct (Z.ltb_spec 0 e); [lia|].
    apply (Fin (L "0") (repeat "0"%char (Z.to_nat (- (e + n))) ++ ds)); try reflexivity; try discriminate.
    + rewrite forallb_app, forallb_repeat0, Hd. reflexivity.
    + change (L "0" ++ repeat "0"%char (Z.to_nat (- (e + n))) ++ ds) with (repeat "0"%char (S (Z.to_nat (- (e + n)))) ++ ds).
      unfold int_dec. rewrite int_acc_zeros. exact Hv.
    + rewrite app_length, repeat_length, Nat2Z.inj_add, Z2Nat.id by lia. fold n. lia.
  - destruct (Z.gtb_spec (e + n) n) as [L2|L2].
    + (* ddd000 *)
      assert (He : 0 < e) by lia. destruct (Z.ltb_spec 0 e); [|lia].
      destruct (Fin (ds ++ repeat "0"%char (Z.to_nat (e + n - n))) [] ) with (c' := coef * 10 ^ e) (e' := 0) as (s & E & P & V).
      * destruct ds; [congruence|discriminate].
      * rewrite forallb_app, Hd, forallb_repeat0. reflexivity.
      * reflexivity.
      * rewrite app_nil_r. unfold int_dec. rewrite int_acc_app. fold (int_dec ds). rewrite Hv, int_acc_trailing0.
        rewrite Z2Nat.id by lia. f_equal. f_equal. lia.
      * reflexivity.
      * exists s. split; [exact E|split; assumption].
    + (* dd.dd, 0.dd, dd *)
      assert (He : e <= 0) by lia. destruct (Z.ltb_spec 0 e); [lia|].
      set (k := Z.to_nat (e + n)).
      assert (Hk : (k <= List.length ds)%nat) by (unfold k, n in *; lia).
      assert (Hlen : - Z.of_nat (List.length (skipn k ds)) = e).
      { rewrite skipn_length, Nat2Z.inj_sub by exact Hk. unfold k. rewrite Z2Nat.id by lia. fold n. lia. }
      destruct (firstn k ds) as [|i0 i'] eqn:Ei.
      * cbn [is_nil]. apply (Fin (L "0") (skipn k ds)); try reflexivity; try discriminate; [apply forallb_skipn, Hd| |exact Hlen].
        assert (k = 0%nat) by (destruct k; [reflexivity|]; destruct ds; [congruence|discriminate]).
        replace k with 0%nat in * by lia. cbn [skipn]. cbn [L list_ascii_of_string app].
        unfold int_dec. cbn [int_acc]. change (dval "0") with 0. exact Hv.
      * cbn [is_nil]. rewrite <- Ei. apply (Fin (firstn k ds) (skipn k ds)).
        -- rewrite Ei. discriminate.
        -- apply forallb_firstn, Hd.
        -- apply forallb_skipn, Hd.
        -- rewrite firstn_skipn. exact Hv.
        -- exact Hlen.
Qed.

Lemma dec_reread_value v : 0 <= dec_coef v ->
  dec_neg (dec_reread v) = dec_neg v /\ dec_exp (dec_reread v) <= 0 /\
  (dec_exp v <= 0 -> dec_reread v = v) /\
  (0 < dec_exp v -> dec_coef (dec_reread v) = dec_coef v * 10 ^ dec_exp v /\ dec_exp (dec_reread v) = 0).
Proof.
  destruct v as [neg coef e]. cbn [dec_coef dec_neg dec_exp]. intros Hc. unfold dec_reread. cbn [dec_coef dec_neg dec_exp].
  destruct (Z.eqb_spec coef 0) as [->|Hn]; destruct (Z.ltb_spec 0 e); cbn [andb];
    repeat match goal with |- context [0 <? ?x] => destruct (Z.ltb_spec 0 x) end; cbn [dec_coef dec_neg dec_exp];
    repeat split; intros; try lia; try reflexivity.
Qed.

(* every literal the guard admits is a valid xs:decimal literal *)
Lemma decimal_accept_valid s v : parse_decimal s = Ok v -> valid_xsd_decimal s = true.
Proof.
  unfold parse_decimal. destruct (decimal_guard s) as [[[neg ip] fp]|] eqn:G; [|discriminate]. intros _.
  unfold decimal_guard in G.
  destruct (lstrip_spec is_xsd_ws s) as (w1 & E & H1 & Hh). set (s1 := lstrip is_xsd_ws s) in *.
  assert (K : exists sg s2, s1 = sg ++ s2 /\ (sg = [] \/ sg = ["-"%char] \/ sg = ["+"%char]) /\
     (match s1 with c :: r => if ceq c "-" then (true, r) else if ceq c "+" then (false, r) else (false, s1) | [] => (false, s1) end)
     = (match sg with [c] => ceq c "-" | _ => false end, s2)).
  { destruct s1 as [|c r]; [exists [], []; auto|].
    destruct (ceq c "-") eqn:C1; [apply ceq_eq in C1; subst; exists ["-"%char], r; auto|].
    destruct (ceq c "+") eqn:C2; [apply ceq_eq in C2; subst; exists ["+"%char], r; auto|].
    exists [], (c :: r). auto. }
  destruct K as (sg & s2 & E1 & Hsg & E2). rewrite E2 in G. clear E2.
  destruct (span is_digit s2) as [ip' r] eqn:Sp. destruct (span_spec _ _ _ _ Sp) as (E3 & Hip & _).
  assert (K2 : exists ft fo r', r = ft ++ r' /\
      (match r with c :: r1 => if ceq c "." then (let '(f, r2) := span is_digit r1 in (Some f, r2)) else (None, r) | [] => (None, r) end) = (fo, r') /\
      ((fo = None /\ ft = []) \/ (exists f, fo = Some f /\ ft = "."%char :: f /\ forallb is_digit f = true))).
  { destruct r as [|c r1]; [exists [], None, []; auto|].
    destruct (ceq c ".") eqn:C; [|exists [], None, (c :: r1); auto].
    apply ceq_eq in C. subst c. destruct (span is_digit r1) as [f r2] eqn:Sf. destruct (span_spec _ _ _ _ Sf) as (E4 & Hf & _).
    exists ("."%char :: f), (Some f), r2. split; [rewrite E4; reflexivity|]. split; [reflexivity|]. right. exists f. auto. }
  destruct K2 as (ft & fo & r' & E4 & E5 & Hfo). rewrite E5 in G. clear E5.
  destruct (_ && forallb is_xsd_ws r') eqn:C; [|discriminate]. apply andb_true_iff in C as [Cok Cws].
  assert (Es : s = w1 ++ (sg ++ ip' ++ ft) ++ r') by (rewrite E, E1, E3, E4, <- !app_assoc; reflexivity).
  assert (Msg : matches (opt (oneof "+-")) sg = true) by (destruct Hsg as [->|[->| ->]]; reflexivity).
  assert (Nsg : no_ws sg = true) by (destruct Hsg as [->|[->| ->]]; reflexivity).
  unfold valid_xsd_decimal. rewrite Es.
  destruct Hfo as [[-> ->]|(f & -> & -> & Hf)].
  - rewrite app_nil_r. rewrite ws_collapse_core; auto; [|rewrite no_ws_app, Nsg, (digits_no_ws _ Hip); reflexivity].
    unfold decimal_re. apply m_cat; [exact Msg|]. unfold unsigned_dec_re. apply m_altl.
    rewrite <- (app_nil_r ip'). apply m_cat; [|reflexivity]. apply m_plus_cls; [|exact Hip]. destruct ip'; [discriminate|discriminate].
  - rewrite ws_collapse_core; auto;
      [|rewrite !no_ws_app, Nsg, (digits_no_ws _ Hip), no_ws_cons, (digits_no_ws _ Hf); reflexivity].
    unfold decimal_re. apply m_cat; [exact Msg|]. unfold unsigned_dec_re.
    destruct ip' as [|i0 i'].
    + cbn [app]. apply m_altr. apply m_cons_ch. apply m_plus_cls; [|exact Hf]. destruct f; [discriminate|discriminate].
    + apply m_altl. apply m_cat; [apply m_plus_cls; [discriminate|exact Hip]|]. apply m_opt_some, m_cons_ch, m_star_cls, Hf.
Qed.
Lemma decimal_reject_literal s : valid_xsd_decimal s = false -> parse_decimal s = Err ValueError.
Proof.
  intros H. destruct (parse_decimal s) as [v|e] eqn:E.
  - apply decimal_accept_valid in E. congruence.
  - unfold parse_decimal in E. destruct (decimal_guard s) as [[[? ?] ?]|]; congruence.
Qed.

(* ================================================================ float, double *)
(* Binary floating point is not modelled.  The round trip of finite values rests on two facts about
   CPython that enter as Section hypotheses and stay visible as premises of the exported theorem:
   the shape of repr(f) and float(repr(f)) == f (also with the exponent marker in upper case). *)
Inductive frac_form : str -> Prop :=
| FF0 : frac_form []
| FF1 f : f <> [] -> forallb is_digit f = true -> frac_form ("."%char :: f).
Inductive exp_form (m : ascii) : str -> Prop :=
| EF0 : exp_form m []
| EF1 sg ed : sg = [] \/ sg = ["+"%char] \/ sg = ["-"%char] -> ed <> [] -> forallb is_digit ed = true ->
    exp_form m (m :: sg ++ ed).
(* -?digits[.digits][e[+-]digits] *)
Inductive repr_form (m : ascii) : str -> Prop :=
| RF neg ip fr ex : ip <> [] -> forallb is_digit ip = true -> frac_form fr -> exp_form m ex ->
    repr_form m (sign_text neg ++ ip ++ fr ++ ex).

Lemma translate_digits s : forallb is_digit s = true -> translate_float s = s.
Proof.
  induction s as [|c s IH]; [reflexivity|]. cbn [forallb]. intros H. apply andb_true_iff in H as [Hc H].
  cbn [translate_float map]. fold (translate_float s). rewrite (IH H). f_equal.
  destruct (is_digit_inv c Hc) as [E R]. rewrite E. apply digit_cases in R.
  repeat destruct R as [R|R]; rewrite R; reflexivity.
Qed.
Lemma translate_app a b : translate_float (a ++ b) = translate_float a ++ translate_float b.
Proof. apply map_app. Qed.
Lemma translate_form s : repr_form "e" s -> repr_form "E" (translate_float s).
Proof.
  intros [neg ip fr ex Hne Hip Hfr Hex]. rewrite !translate_app, (translate_digits ip Hip).
  replace (translate_float (sign_text neg)) with (sign_text neg) by (destruct neg; reflexivity).
  constructor; auto.
  - destruct Hfr as [|f Hf1 Hf2]; [constructor|]. cbn [translate_float map]. fold (translate_float f).
    rewrite (translate_digits f Hf2). constructor; assumption.
  - destruct Hex as [|sg ed Hsg He1 He2]; [constructor|]. cbn [translate_float map]. fold (translate_float (sg ++ ed)).
    rewrite translate_app, (translate_digits ed He2).
    replace (translate_float sg) with sg by (destruct Hsg as [->|[->| ->]]; reflexivity).
    constructor; assumption.
Qed.

Lemma digit_not_letters c : is_digit c = true -> ceq c "N" = false /\ ceq c "I" = false /\ ceq c "." = false /\ ceq c "E" = false.
Proof.
  intros H. destruct (is_digit_inv c H) as [E R]. rewrite E. apply digit_cases in R.
  repeat destruct R as [R|R]; rewrite R; repeat split; reflexivity.
Qed.
Lemma opt_sign_digits ip r : ip <> [] -> forallb is_digit ip = true -> opt_sign (ip ++ r) = (false, ip ++ r).
Proof. intros H1 H2. unfold opt_sign. apply nosign_digits; assumption. Qed.
Lemma span_digits_end ed : forallb is_digit ed = true -> span is_digit ed = (ed, []).
Proof. intros H. rewrite <- (app_nil_r ed) at 1. apply span_app; [exact H|trivial]. Qed.

Lemma exp_form_ok ex : exp_form "E" ex -> exp_ok ex = true /\
  matches (opt (cats [oneof "Ee"; opt (oneof "+-"); plus dig])) ex = true /\
  forallb (fun c => negb (is_xsd_ws c)) ex = true /\ match ex with c :: _ => is_digit c = false /\ ceq c "." = false | [] => True end.
Proof.
  intros [|sg ed Hsg He1 He2]; [repeat split|].
  assert (Hn : negb (is_nil ed) = true) by (destruct ed; [congruence|reflexivity]).
  repeat split.
  - unfold exp_ok. change (ceq "E" "E" || ceq "E" "e") with true. cbn [andb].
    destruct Hsg as [->|[->| ->]]; cbn [app].
    + rewrite (opt_sign_digits ed [] He1 He2) || (rewrite <- (app_nil_r ed) at 1; rewrite (opt_sign_digits ed [] He1 He2)).
      rewrite app_nil_r, (span_digits_end ed He2), Hn. reflexivity.
    + unfold opt_sign. change (ceq "+" "-") with false. change (ceq "+" "+") with true. cbv iota.
      rewrite (span_digits_end ed He2), Hn. reflexivity.
    + unfold opt_sign. change (ceq "-" "-") with true. cbv iota. rewrite (span_digits_end ed He2), Hn. reflexivity.
  - apply m_opt_some. cbn [cats]. change ("E"%char :: sg ++ ed) with (["E"%char] ++ sg ++ ed).
    apply m_cat; [reflexivity|]. apply m_cat; [destruct Hsg as [->|[->| ->]]; reflexivity|apply m_plus_cls; assumption].
  - cbn [forallb]. rewrite forallb_app. change (negb (is_xsd_ws "E")) with true. cbn [andb].
    replace (forallb (fun c => negb (is_xsd_ws c)) sg) with true by (destruct Hsg as [->|[->| ->]]; reflexivity).
    apply (digits_no_ws ed He2).
Qed.
Lemma frac_form_ok fr : frac_form fr ->
  matches (opt (Cat (ch ".") (Star dig))) fr = true /\ forallb (fun c => negb (is_xsd_ws c)) fr = true.
Proof.
  intros [|f Hf1 Hf2]; [split; reflexivity|]. split.
  - apply m_opt_some, m_cons_ch, m_star_cls, Hf2.
  - cbn [forallb]. change (negb (is_xsd_ws ".")) with true. apply (digits_no_ws f Hf2).
Qed.
Lemma scan_mantissa_form ip fr ex : ip <> [] -> forallb is_digit ip = true -> frac_form fr ->
  match ex with c :: _ => is_digit c = false /\ ceq c "." = false | [] => True end ->
  exists fp, scan_mantissa (ip ++ fr ++ ex) = (ip, fp, ex).
Proof.
  intros Hne Hip Hfr Hex. unfold scan_mantissa. destruct Hfr as [|f Hf1 Hf2].
  - cbn [app]. rewrite (span_app is_digit ip ex Hip) by (destruct ex; [trivial|apply Hex]).
    exists None. destruct ex as [|c t]; [reflexivity|]. destruct Hex as [_ Hd]. rewrite Hd. reflexivity.
  - cbn [app]. rewrite (span_app is_digit ip ("."%char :: f ++ ex) Hip eq_refl).
    change (ceq "." ".") with true. cbv iota.
    rewrite (span_app is_digit f ex Hf2) by (destruct ex; [trivial|apply Hex]). exists (Some f). reflexivity.
Qed.

Lemma float_form_ok s : repr_form "E" s -> float_guard s = Some 0 /\ valid_xsd_float s = true.
Proof.
  intros [neg ip fr ex Hne Hip Hfr Hex].
  destruct (exp_form_ok ex Hex) as (Eok & Em & Ew & Eh). destruct (frac_form_ok fr Hfr) as (Fm & Fw).
  destruct (scan_mantissa_form ip fr ex Hne Hip Hfr Eh) as (fp & Sm).
  assert (Nw : forallb (fun c => negb (is_xsd_ws c)) (sign_text neg ++ ip ++ fr ++ ex) = true).
  { rewrite !forallb_app, Fw, Ew. fold (no_ws ip). rewrite (digits_no_ws ip Hip). destruct neg; reflexivity. }
  destruct ip as [|i0 ip0] eqn:Eip; [congruence|]. rewrite <- Eip in *.
  assert (Hi0 : is_digit i0 = true) by (rewrite Eip in Hip; cbn in Hip; apply andb_true_iff in Hip; tauto).
  destruct (digit_not_letters i0 Hi0) as (NN & NI & _ & _).
  assert (Mk : mant_ok ip fp = true) by (unfold mant_ok; rewrite Eip; destruct fp; reflexivity).
  split.
  - unfold float_guard. rewrite (strip_none _ _ Nw).
    destruct neg; cbn [sign_text app].
    + change (str_eqb ("-"%char :: ip ++ fr ++ ex) (L "NaN")) with false. cbv iota.
      unfold opt_sign at 1. change (ceq "-" "-") with true. cbv iota.
      replace (str_eqb (ip ++ fr ++ ex) (L "INF")) with false
        by (rewrite Eip; cbn [app L list_ascii_of_string str_eqb]; rewrite NI; reflexivity).
      rewrite Sm, Mk, Eok. reflexivity.
    + replace (str_eqb (ip ++ fr ++ ex) (L "NaN")) with false
        by (rewrite Eip; cbn [app L list_ascii_of_string str_eqb]; rewrite NN; reflexivity).
      rewrite (opt_sign_digits ip _ Hne Hip).
      replace (str_eqb (ip ++ fr ++ ex) (L "INF")) with false
        by (rewrite Eip; cbn [app L list_ascii_of_string str_eqb]; rewrite NI; reflexivity).
      rewrite Sm, Mk, Eok. reflexivity.
  - unfold valid_xsd_float. rewrite ws_collapse_id by exact Nw. unfold float_re. cbn [alts]. apply m_altl. cbn [cats].
    apply m_cat; [destruct neg; reflexivity|]. rewrite app_assoc. apply m_cat; [|exact Em].
    unfold unsigned_dec_re. apply m_altl. apply m_cat; [apply m_plus_cls; assumption|exact Fm].
Qed.

Section FloatRoundTrip.
  Variable F : Type.                        (* the finite binary64 values *)
  Variable py_repr : F -> str.              (* repr(f) *)
  Variable py_float : str -> option F.      (* float(s), when s denotes a finite number *)
  Hypothesis repr_shape : forall f, repr_form "e" (py_repr f).
  Hypothesis float_of_repr : forall f, py_float (translate_float (py_repr f)) = Some f.

  Inductive fval := FNaN | FInf (neg : bool) | FFin (f : F).
  (* xsd_repr: repr(value).translate({e: E, f: F, i: I, n: N}) *)
  Definition print_float (v : fval) : str :=
    translate_float (match v with FNaN => L "nan" | FInf false => L "inf" | FInf true => L "-inf" | FFin f => py_repr f end).
  (* from_xsd: FLOAT_RE, then float(value) *)
  Definition parse_float (s : str) : res fval :=
    match float_guard s with
    | Some 1 => Ok FNaN
    | Some 2 => Ok (FInf false)
    | Some 3 => Ok (FInf true)
    | Some _ => match py_float s with Some f => Ok (FFin f) | None => Err ValueError end
    | None => Err ValueError
    end.
  Lemma float_roundtrip v : parse_float (print_float v) = Ok v /\ valid_xsd_float (print_float v) = true.
  Proof.
    destruct v as [|[]|f]; [split; vm_compute; reflexivity|split; vm_compute; reflexivity|split; vm_compute; reflexivity|].
    unfold print_float, parse_float. destruct (float_form_ok _ (translate_form _ (repr_shape f))) as [G V].
    rewrite G, float_of_repr. auto.
  Qed.
End FloatRoundTrip.


(* ---- literals outside the lexical space of xs:float / xs:double are rejected before float() sees them *)
Lemma opt_sign_shape s neg u : opt_sign s = (neg, u) ->
  exists sg, s = sg ++ u /\ (sg = [] \/ sg = ["-"%char] \/ sg = ["+"%char]).
Proof.
  unfold opt_sign. destruct s as [|c r]; [intros [= <- <-]; exists []; auto|].
  destruct (ceq c "-") eqn:C1; [apply ceq_eq in C1; subst; intros [= <- <-]; exists ["-"%char]; auto|].
  destruct (ceq c "+") eqn:C2; [apply ceq_eq in C2; subst; intros [= <- <-]; exists ["+"%char]; auto|].
  intros [= <- <-]. exists []. auto.
Qed.
Lemma sign_facts sg : sg = [] \/ sg = ["-"%char] \/ sg = ["+"%char] ->
  matches (opt (oneof "+-")) sg = true /\ no_ws sg = true.
Proof. intros [->|[->| ->]]; split; reflexivity. Qed.
Lemma scan_mantissa_shape u ip fp r1 : scan_mantissa u = (ip, fp, r1) -> mant_ok ip fp = true ->
  exists m, u = m ++ r1 /\ matches unsigned_dec_re m = true /\ no_ws m = true.
Proof.
  unfold scan_mantissa. destruct (span is_digit u) as [ip' r] eqn:Sp. destruct (span_spec _ _ _ _ Sp) as (E & Hip & _).
  destruct r as [|c t].
  - intros [= <- <- <-] Hm. cbn in Hm. exists ip'. split; [exact E|]. split; [|apply digits_no_ws, Hip].
    unfold unsigned_dec_re. apply m_altl. rewrite <- (app_nil_r ip'). apply m_cat; [|reflexivity].
    apply m_plus_cls; [destruct ip'; [discriminate|discriminate]|exact Hip].
  - destruct (ceq c ".") eqn:C.
    + apply ceq_eq in C. subst c. destruct (span is_digit t) as [f t'] eqn:Sf. destruct (span_spec _ _ _ _ Sf) as (E2 & Hf & _).
      intros [= <- <- <-] Hm. cbn [mant_ok] in Hm. exists (ip' ++ "."%char :: f).
      split; [rewrite E, E2, <- app_assoc; reflexivity|]. split.
      * unfold unsigned_dec_re. destruct ip' as [|i0 i'].
        -- cbn [app]. apply m_altr, m_cons_ch. apply m_plus_cls; [|exact Hf]. destruct f; [discriminate|discriminate].
        -- apply m_altl. apply m_cat; [apply m_plus_cls; [discriminate|exact Hip]|]. apply m_opt_some, m_cons_ch, m_star_cls, Hf.
      * rewrite no_ws_app, (digits_no_ws _ Hip), no_ws_cons, (digits_no_ws _ Hf). reflexivity.
    + intros [= <- <- <-] Hm. cbn in Hm. exists ip'. split; [exact E|]. split; [|apply digits_no_ws, Hip].
      unfold unsigned_dec_re. apply m_altl. rewrite <- (app_nil_r ip'). apply m_cat; [|reflexivity].
      apply m_plus_cls; [destruct ip'; [discriminate|discriminate]|exact Hip].
Qed.
Lemma exp_ok_shape r1 : exp_ok r1 = true ->
  matches (opt (cats [oneof "Ee"; opt (oneof "+-"); plus dig])) r1 = true /\ no_ws r1 = true.
Proof.
  unfold exp_ok. destruct r1 as [|c t]; [split; reflexivity|].
  intros H. apply andb_true_iff in H as [Hc H].
  destruct (opt_sign t) as [ng t1] eqn:Os. destruct (opt_sign_shape _ _ _ Os) as (sg & Et & Hsg).
  destruct (span is_digit t1) as [ds t2] eqn:Sp. destruct (span_spec _ _ _ _ Sp) as (E1 & Hd & _).
  apply andb_true_iff in H as [Hn Hz]. destruct t2; [|discriminate]. rewrite app_nil_r in E1. subst t1.
  destruct (sign_facts sg Hsg) as [Ms Ns].
  assert (Mc : matches (oneof "Ee") [c] = true /\ is_xsd_ws c = false).
  { apply orb_true_iff in Hc as [Hc|Hc]; apply ceq_eq in Hc; subst c; split; reflexivity. }
  destruct Mc as [Mc Wc]. split.
  - apply m_opt_some. cbn [cats]. rewrite Et. change (c :: sg ++ ds) with ([c] ++ sg ++ ds).
    apply m_cat; [exact Mc|]. apply m_cat; [exact Ms|]. apply m_plus_cls; [destruct ds; [discriminate|discriminate]|exact Hd].
  - rewrite Et, no_ws_cons, Wc, no_ws_app, Ns, (digits_no_ws _ Hd). reflexivity.
Qed.
Lemma float_guard_valid s c : float_guard s = Some c -> valid_xsd_float s = true.
Proof.
  unfold float_guard. destruct (strip_spec is_xsd_ws s) as (w1 & w2 & Es & H1 & H2).
  set (core := strip is_xsd_ws s) in *.
  assert (Fin : no_ws core = true -> matches float_re core = true -> valid_xsd_float s = true).
  { intros N M. unfold valid_xsd_float. rewrite Es, (ws_collapse_core w1 core w2 H1 N H2). exact M. }
  destruct (str_eqb core (L "NaN")) eqn:EN.
  - intros _. apply str_eqb_eq in EN. rewrite EN in *. apply Fin; vm_compute; reflexivity.
  - destruct (opt_sign core) as [neg u] eqn:Os. destruct (opt_sign_shape _ _ _ Os) as (sg & Ec & Hsg).
    destruct (sign_facts sg Hsg) as [Ms Ns].
    destruct (str_eqb u (L "INF")) eqn:EI.
    + intros _. apply str_eqb_eq in EI. subst u. apply Fin; rewrite Ec.
      * rewrite no_ws_app, Ns. reflexivity.
      * unfold float_re. cbn [alts]. apply m_altr, m_altl. apply m_cat; [exact Ms|vm_compute; reflexivity].
    + destruct (scan_mantissa u) as [[ip fp] r1] eqn:Sm.
      destruct (mant_ok ip fp && exp_ok r1) eqn:K; [|discriminate]. intros _.
      apply andb_true_iff in K as [Km Ke].
      destruct (scan_mantissa_shape _ _ _ _ Sm Km) as (m & Eu & Mm & Nm). destruct (exp_ok_shape _ Ke) as [Me Ne].
      apply Fin; rewrite Ec, Eu.
      * rewrite !no_ws_app, Ns, Nm, Ne. reflexivity.
      * unfold float_re. cbn [alts]. apply m_altl. cbn [cats]. apply m_cat; [exact Ms|]. apply m_cat; assumption.
Qed.
Lemma float_reject_literal s : valid_xsd_float s = false -> parse_float_class s = Err ValueError.
Proof.
  intros H. unfold parse_float_class. destruct (float_guard s) as [c|] eqn:G; [|reflexivity].
  apply float_guard_valid in G. congruence.
Qed.
