(* Proofs about the typed-value model (property C02: AASd-020, value / value_type agreement).
   Class-level facts are finite: they are decided by vm_compute over the WHOLE universe all_pcls x all_pcls (resp.
   x spec_xsd_types) of the generated definitions and lifted to universally quantified statements; value-level facts
   (integer payloads, strings: unbounded) are proved on top of them. *)
From Coq Require Import List ZArith Bool Lia.
From Basyx Require Import model.ConstraintsBase model.TypedBase gen.Gen_IntRanges gen.Gen_TypedValues model.TypedValue
  gen.Gen_TypedSetters model.TypedItems.
Import ListNotations.

(* ---------------------------------------------------------------- finite universe *)
Lemma all_pcls_complete : forall c, In c all_pcls.
Proof. intros c; destruct c; unfold all_pcls; simpl; repeat (first [left; reflexivity | right]). Qed.

Lemma forall_cls (P : pcls -> bool) : forallb P all_pcls = true -> forall c, P c = true.
Proof. intros H c. rewrite forallb_forall in H. apply H, all_pcls_complete. Qed.

Lemma forall_cls2 (P : pcls -> pcls -> bool) :
  forallb (fun c => forallb (P c) all_pcls) all_pcls = true -> forall c d, P c d = true.
Proof. intros H c d. apply (forall_cls (P c)). apply (forall_cls (fun c => forallb (P c) all_pcls) H). Qed.

Lemma forall_cls_xsd (P : pcls -> pcls -> bool) :
  forallb (fun c => forallb (P c) spec_xsd_types) all_pcls = true ->
  forall c t, In t spec_xsd_types -> P c t = true.
Proof.
  intros H c t Ht. pose proof (forall_cls (fun c => forallb (P c) spec_xsd_types) H c) as Hc.
  cbv beta in Hc. rewrite forallb_forall in Hc. apply Hc, Ht.
Qed.

Lemma pcls_beq_eq c d : pcls_beq c d = true <-> c = d.
Proof. split; [apply internal_pcls_dec_bl | apply internal_pcls_dec_lb]. Qed.

(* ---------------------------------------------------------------- the generated tables are the specified ones *)
(* XSD_TYPE_NAMES has exactly the 31 data types, each once *)
Lemma xsd_types_as_specified :
  forallb (fun t => existsb (pcls_beq t) xsd_types) spec_xsd_types = true /\
  forallb (fun t => existsb (pcls_beq t) spec_xsd_types) xsd_types = true /\
  length xsd_types = length spec_xsd_types.
Proof. vm_compute. repeat split. Qed.

Lemma hierarchy_as_specified : forall c, direct_base c = spec_base c.
Proof.
  assert (H : forallb (fun c => match direct_base c, spec_base c with
                                | Some a, Some b => pcls_beq a b | None, None => true | _, _ => false end)
                      all_pcls = true) by (vm_compute; reflexivity).
  intros c. pose proof (forall_cls _ H c) as Hc. cbv beta in Hc.
  destruct (direct_base c), (spec_base c); try discriminate; [apply pcls_beq_eq in Hc; subst|]; reflexivity.
Qed.

Lemma subcls_ssub : forall c d, subcls c d = ssub c d.
Proof.
  assert (H : forallb (fun c => forallb (fun d => Bool.eqb (subcls c d) (ssub c d)) all_pcls) all_pcls = true)
    by (vm_compute; reflexivity).
  intros c d. apply eqb_prop. exact (forall_cls2 _ H c d).
Qed.

(* fuel 4 is enough: one more step of the chain never changes the answer *)
Lemma subcls_fuel_enough : forall c d, subcls_fuel direct_base 5 c d = subcls c d.
Proof.
  assert (H : forallb (fun c => forallb (fun d => Bool.eqb (subcls_fuel direct_base 5 c d) (subcls c d)) all_pcls)
                      all_pcls = true) by (vm_compute; reflexivity).
  intros c d. apply eqb_prop. exact (forall_cls2 _ H c d).
Qed.

Lemma ssub_refl : forall c, ssub c c = true.
Proof. intros c. unfold ssub, subcls_with. simpl. replace (pcls_beq c c) with true; [reflexivity|].
  symmetry. apply pcls_beq_eq. reflexivity. Qed.

(* a class below a bounded class is that class (no class derives from a restricted one): an instance of the
   announced type carries exactly the announced restriction *)
Lemma ssub_restricted_exact : forall c t, ssub c t = true ->
  (forall v, ctor_ok t v = true) \/ c = t.
Proof.
  assert (H : forallb (fun c => forallb (fun t => negb (ssub c t) || pcls_beq c t ||
      match t with
      | KLong | KInt | KShort | KByte | KNonPositiveInteger | KNegativeInteger | KNonNegativeInteger
      | KPositiveInteger | KUnsignedLong | KUnsignedInt | KUnsignedShort | KUnsignedByte | KNormalizedString => false
      | _ => true end) all_pcls) all_pcls = true) by (vm_compute; reflexivity).
  intros c t Hs. pose proof (forall_cls2 _ H c t) as Hc. cbv beta in Hc. rewrite Hs in Hc. simpl in Hc.
  destruct (pcls_beq c t) eqn:E; [right; apply pcls_beq_eq; exact E|].
  left. intros v. destruct t; try discriminate; reflexivity.
Qed.

(* ---------------------------------------------------------------- the decision structure of trivial_cast *)
(* written from the docstring: identity when the value already is of the type (booleans only for xs:boolean);
   construction of the target class within one base kind; plain dates into xs:date; TypeError otherwise *)
Definition same_ok (vc t : pcls) : bool := ssub vc t && (negb (is_bool vc) || is_bool t).
Definition kind_ok (vc t : pcls) : bool :=
  negb (kind_beq (kind_of vc) KdNone) && kind_beq (kind_of vc) (kind_of t).
Definition spec_act (vc t : pcls) : tc_act :=
  if same_ok vc t then TcSame
  else if kind_ok vc t then TcConstruct
  else if pcls_beq vc KPyDate && pcls_beq t KDate then TcDate
  else TcTypeError.

Lemma gen_is_spec : forall vc t, In t spec_xsd_types -> trivial_cast_gen vc t = spec_act vc t.
Proof.
  assert (H : forallb (fun vc => forallb (fun t => tc_act_beq (trivial_cast_gen vc t) (spec_act vc t)) spec_xsd_types)
                      all_pcls = true) by (vm_compute; reflexivity).
  intros vc t Ht. apply internal_tc_act_dec_bl. exact (forall_cls_xsd _ H vc t Ht).
Qed.

(* ctor_ok looks at the payload only *)
Lemma ctor_ok_recls t c v : ctor_ok t (recls c v) = ctor_ok t v.
Proof. destruct t; reflexivity. Qed.

Lemma kind_ok_not_bool vc t : kind_ok vc t = true -> is_bool vc = false /\ is_bool t = false.
Proof.
  assert (H : forallb (fun vc => forallb (fun t => negb (kind_ok vc t) || (negb (is_bool vc) && negb (is_bool t)))
                                         all_pcls) all_pcls = true) by (vm_compute; reflexivity).
  intros Hk. pose proof (forall_cls2 _ H vc t) as Hc. cbv beta in Hc. rewrite Hk in Hc. simpl in Hc.
  apply andb_prop in Hc. destruct Hc as [A B]. split; [destruct (is_bool vc)|destruct (is_bool t)]; try reflexivity; discriminate.
Qed.

(* ---------------------------------------------------------------- trivial_cast: sound, complete, documented *)
Definition same_payload (a b : pyval) : Prop := vnum a = vnum b /\ vstr a = vstr b /\ vtok a = vtok b.

(* the conversion keeps the meaning: same class, or within one base kind (never from or to xs:boolean), or a plain
   date into xs:date *)
Definition conv_ok (a b : pcls) : Prop :=
  a = b \/ (kind_of a = kind_of b /\ kind_of a <> KdNone /\ a <> KBoolean /\ b <> KBoolean) \/ (a = KPyDate /\ b = KDate).

Lemma tc_sound : forall v t v', In t spec_xsd_types -> class_inv v = true ->
  trivial_cast v t = inl v' -> has_type v' t = true /\ same_payload v v' /\ conv_ok (vcls v) (vcls v').
Proof.
  intros v t v' Ht Hinv H. unfold trivial_cast in H. rewrite (gen_is_spec _ _ Ht) in H. unfold spec_act in H.
  destruct (same_ok (vcls v) t) eqn:Es.
  - inversion H; subst v'. unfold has_type. unfold same_ok in Es. rewrite Es, Hinv. repeat split. left; reflexivity.
  - destruct (kind_ok (vcls v) t) eqn:Ek.
    + destruct (ctor_ok t v) eqn:Ec; [|discriminate]. inversion H; subst v'. clear H.
      destruct (kind_ok_not_bool _ _ Ek) as [Hb1 Hb2].
      unfold has_type, class_inv. cbn [vcls recls]. rewrite ssub_refl, ctor_ok_recls, Ec.
      replace (negb (is_bool t) || is_bool t) with true by (destruct (is_bool t); reflexivity).
      repeat split. right; left. unfold kind_ok in Ek. apply andb_prop in Ek. destruct Ek as [A B].
      repeat split.
      * apply internal_kind_dec_bl; exact B.
      * intros E. rewrite E in A. discriminate.
      * intros E. rewrite E in Hb1. discriminate.
      * intros E. rewrite E in Hb2. discriminate.
    + destruct (pcls_beq (vcls v) KPyDate && pcls_beq t KDate) eqn:Ed; [|discriminate].
      inversion H; subst v'. clear H. apply andb_prop in Ed. destruct Ed as [A B].
      apply pcls_beq_eq in A. apply pcls_beq_eq in B. subst t.
      unfold has_type, class_inv. cbn [vcls recls]. repeat split. right; right. split; [exact A|reflexivity].
Qed.

Lemma tc_identity : forall v t, In t spec_xsd_types -> has_type v t = true -> trivial_cast v t = inl v.
Proof.
  intros v t Ht H. unfold has_type in H. apply andb_prop in H. destruct H as [H _].
  unfold trivial_cast. rewrite (gen_is_spec _ _ Ht). unfold spec_act, same_ok. rewrite H. reflexivity.
Qed.

Lemma spec_castable_alt v t : In t spec_xsd_types ->
  spec_castable v t = same_ok (vcls v) t || (kind_ok (vcls v) t && ctor_ok t v) || (pcls_beq (vcls v) KPyDate && pcls_beq t KDate).
Proof.
  intros Ht. unfold spec_castable, same_ok, kind_ok.
  assert (Hx : pcls_beq t KPyBytes = false /\ pcls_beq t KPyBytearray = false).
  { unfold spec_xsd_types, all_pcls in Ht. simpl in Ht.
    repeat (destruct Ht as [Ht|Ht]; [subst t; split; reflexivity|]). contradiction. }
  destruct Hx as [-> ->]. simpl. rewrite !andb_true_r. reflexivity.
Qed.

Lemma tc_complete : forall v t, In t spec_xsd_types ->
  (exists v', trivial_cast v t = inl v') <-> spec_castable v t = true.
Proof.
  intros v t Ht. rewrite (spec_castable_alt _ _ Ht). unfold trivial_cast. rewrite (gen_is_spec _ _ Ht). unfold spec_act.
  destruct (same_ok (vcls v) t) eqn:Es; simpl.
  - split; [reflexivity | intros _; eexists; reflexivity].
  - destruct (kind_ok (vcls v) t) eqn:Ek; simpl.
    + destruct (ctor_ok t v) eqn:Ec; simpl.
      * split; [reflexivity | intros _; eexists; reflexivity].
      * assert (Hd : pcls_beq (vcls v) KPyDate && pcls_beq t KDate = false).
        { destruct (pcls_beq (vcls v) KPyDate) eqn:A; [|reflexivity]. destruct (pcls_beq t KDate) eqn:B; [|reflexivity].
          apply pcls_beq_eq in A. apply pcls_beq_eq in B. unfold kind_ok in Ek. rewrite A, B in Ek. discriminate. }
        rewrite Hd. split; [intros [v' H]; discriminate | discriminate].
    + destruct (pcls_beq (vcls v) KPyDate && pcls_beq t KDate); simpl.
      * split; [reflexivity | intros _; eexists; reflexivity].
      * split; [intros [v' H]; discriminate | discriminate].
Qed.

Lemma tc_errors : forall v t e, In t spec_xsd_types -> trivial_cast v t = inr e ->
  (e = EType /\ same_ok (vcls v) t = false /\ kind_ok (vcls v) t = false) \/
  (e = EValue /\ kind_ok (vcls v) t = true /\ ctor_ok t v = false).
Proof.
  intros v t e Ht H. unfold trivial_cast in H. rewrite (gen_is_spec _ _ Ht) in H. unfold spec_act in H.
  destruct (same_ok (vcls v) t) eqn:Es; [discriminate|].
  destruct (kind_ok (vcls v) t) eqn:Ek.
  - destruct (ctor_ok t v) eqn:Ec; [discriminate|]. inversion H. right. repeat split.
  - destruct (pcls_beq (vcls v) KPyDate && pcls_beq t KDate); [discriminate|]. inversion H. left. repeat split.
Qed.

(* what an accepted value of a bounded type satisfies, spelled out with the XSD bounds as literals *)
Lemma has_type_bounds : forall v t, has_type v t = true ->
  match t with
  | KLong => -9223372036854775808 <= vnum v <= 9223372036854775807
  | KInt => -2147483648 <= vnum v <= 2147483647
  | KShort => -32768 <= vnum v <= 32767
  | KByte => -128 <= vnum v <= 127
  | KNonPositiveInteger => vnum v <= 0
  | KNegativeInteger => vnum v < 0
  | KNonNegativeInteger => 0 <= vnum v
  | KPositiveInteger => 0 < vnum v
  | KUnsignedLong => 0 <= vnum v <= 18446744073709551615
  | KUnsignedInt => 0 <= vnum v <= 4294967295
  | KUnsignedShort => 0 <= vnum v <= 65535
  | KUnsignedByte => 0 <= vnum v <= 255
  | KNormalizedString => forall c, In c [13; 10; 9] -> ~ In c (vstr v)
  | KInteger | KDecimal | KDouble | KFloat => vcls v <> KBoolean
  | _ => True
  end%Z.
Proof.
  intros v t H. unfold has_type in H. apply andb_prop in H. destruct H as [H Hinv].
  apply andb_prop in H. destruct H as [Hs Hb].
  assert (Hok : ctor_ok t v = true).
  { destruct (ssub_restricted_exact _ _ Hs) as [A|A]; [apply A | subst t; exact Hinv]. }
  assert (Hnb : t <> KBoolean -> vcls v <> KBoolean).
  { intros Hn E. unfold is_bool in Hb. rewrite E in Hb. simpl in Hb. apply pcls_beq_eq in Hb. exact (Hn Hb). }
  destruct t; try exact I; try (apply Hnb; discriminate); cbn [ctor_ok] in Hok;
    try (unfold in_range_Long, in_range_Int, in_range_Short, in_range_Byte, in_range_NonPositiveInteger,
         in_range_NegativeInteger, in_range_NonNegativeInteger, in_range_PositiveInteger, in_range_UnsignedLong,
         in_range_UnsignedInt, in_range_UnsignedShort, in_range_UnsignedByte in Hok; lia).
  (* NormalizedString *)
  intros c Hc Hin. unfold has_forbidden in Hok. apply negb_true_iff in Hok.
  assert (Hex : existsb (fun c0 => existsb (Z.eqb c0) (vstr v)) normalized_string_forbidden = true).
  { apply existsb_exists. exists c. split.
    - unfold normalized_string_forbidden. simpl in Hc. simpl. tauto.
    - apply existsb_exists. exists c. split; [exact Hin | apply Z.eqb_refl]. }
  rewrite Hex in Hok. discriminate.
Qed.

(* ---------------------------------------------------------------- holders *)
Definition val_ok (v : option pyval) : Prop := match v with None => True | Some x => class_inv x = true end.
Definition hop_ok (p : hop) : Prop :=
  match p with
  | HSetValue v => val_ok v
  | HSetType (Some t) => In t spec_xsd_types
  | HSetType None => True
  end.
Definition htype_ok (h : holder) : Prop := match htype h with Some t => In t spec_xsd_types | None => True end.

Lemma has_type_inv v t : has_type v t = true -> class_inv v = true.
Proof. unfold has_type. intros H. apply andb_prop in H. tauto. Qed.

Lemma hstep_accept : forall h p h', htype_ok h -> hop_ok p -> wf_holder h = true ->
  hstep h p = (h', None) -> wf_holder h' = true /\ htype_ok h' /\ hopt h' = hopt h.
Proof.
  intros h p h' Hty Hop Hwf H. destruct p as [v|t]; cbn [hstep] in H.
  - unfold hset_value in H. destruct v as [x|].
    + destruct (htype h) as [t|] eqn:Et; [|inversion H].
      destruct (trivial_cast x t) as [y|e] eqn:Ec; inversion H; subst h'; clear H.
      unfold htype_ok in *. rewrite Et in Hty. destruct (tc_sound _ _ _ Hty Hop Ec) as [A _].
      unfold wf_holder. cbn. try rewrite Et. repeat split; assumption.
    + inversion H; subst h'. repeat split; try assumption.
  - unfold hset_type in H. destruct (hval h) as [x|] eqn:Ev.
    + destruct t as [t|]; [|inversion H].
      destruct (trivial_cast x t) as [y|e] eqn:Ec; inversion H; subst h'; clear H.
      assert (Hx : class_inv x = true).
      { unfold wf_holder in Hwf. rewrite Ev in Hwf. destruct (htype h); [|discriminate]. eapply has_type_inv; eauto. }
      destruct (tc_sound _ _ _ Hop Hx Ec) as [A _]. unfold wf_holder, htype_ok. cbn. repeat split; assumption.
    + inversion H; subst h'. unfold wf_holder, htype_ok. cbn. repeat split. destruct t; [exact Hop|exact I].
Qed.

Lemma hstep_reject : forall h p h' e, htype_ok h -> hop_ok p -> hstep h p = (h', Some e) ->
  h' = h /\ (e = EValue \/ e = EType).
Proof.
  intros h p h' e Hty Hop H. destruct p as [v|t]; cbn [hstep] in H.
  - unfold hset_value in H. destruct v as [x|]; [|inversion H].
    destruct (htype h) as [t|] eqn:Et.
    + destruct (trivial_cast x t) as [y|e'] eqn:Ec; inversion H; subst. split; [reflexivity|].
      unfold htype_ok in Hty. rewrite Et in Hty. destruct (tc_errors _ _ _ Hty Ec) as [[-> _]|[-> _]]; tauto.
    + inversion H; subst. split; [reflexivity|]. destruct (hopt h'); tauto.
  - unfold hset_type in H. destruct (hval h) as [x|] eqn:Ev; [|inversion H].
    destruct t as [t|].
    + destruct (trivial_cast x t) as [y|e'] eqn:Ec; inversion H; subst. split; [reflexivity|].
      destruct (tc_errors _ _ _ Hop Ec) as [[-> _]|[-> _]]; tauto.
    + inversion H; subst. split; [reflexivity|]. destruct (hopt h'); tauto.
Qed.

Lemma hstep_wf : forall h p, htype_ok h -> hop_ok p -> wf_holder h = true ->
  wf_holder (fst (hstep h p)) = true /\ htype_ok (fst (hstep h p)).
Proof.
  intros h p Hty Hop Hwf. destruct (hstep h p) as [h' [e|]] eqn:E; cbn [fst].
  - destruct (hstep_reject _ _ _ _ Hty Hop E) as [-> _]. split; assumption.
  - destruct (hstep_accept _ _ _ Hty Hop Hwf E) as [A [B _]]. split; assumption.
Qed.

Lemma hrun_wf : forall ops h, htype_ok h -> Forall hop_ok ops -> wf_holder h = true -> wf_holder (hrun h ops) = true.
Proof.
  induction ops as [|p r IH]; intros h Hty Hops Hwf; cbn [hrun]; [exact Hwf|].
  inversion Hops as [|? ? Hp Hr]; subst. destruct (hstep_wf h p Hty Hp Hwf) as [A B]. apply IH; assumption.
Qed.

Lemma hctor_wf : forall opt t v h, (match t with Some c => In c spec_xsd_types | None => True end) -> val_ok v ->
  hctor opt t v = (Some h, None) -> wf_holder h = true /\ htype_ok h.
Proof.
  intros opt t v h Ht Hv H. unfold hctor in H.
  destruct (hset_value {| hopt := opt; htype := t; hval := None |} v) as [h1 [e|]] eqn:E; inversion H; subst h1.
  assert (A := hstep_accept {| hopt := opt; htype := t; hval := None |} (HSetValue v) h Ht Hv eq_refl E). tauto.
Qed.

(* ---------------------------------------------------------------- Range *)
Definition rop_ok (p : rop) : Prop :=
  match p with RSetMin v | RSetMax v => val_ok v | RSetType t => In t spec_xsd_types end.

Lemma cast_opt_sound v t y : In t spec_xsd_types -> val_ok v -> cast_opt v t = inl y ->
  match y with None => v = None | Some z => has_type z t = true end.
Proof.
  intros Ht Hv H. destruct v as [x|]; cbn in H.
  - destruct (trivial_cast x t) as [z|e] eqn:Ec; inversion H; subst. exact (proj1 (tc_sound _ _ _ Ht Hv Ec)).
  - inversion H. reflexivity.
Qed.

Lemma wf_opt y t : match y with None => True | Some z => has_type z t = true end ->
  match y with None => true | Some v => has_type v t end = true.
Proof. destruct y; auto. Qed.

Lemma rstep_accept : forall r p r', In (rtype r) spec_xsd_types -> rop_ok p -> wf_range r = true ->
  rstep r p = (r', None) -> wf_range r' = true /\ In (rtype r') spec_xsd_types.
Proof.
  intros r p r' Hty Hop Hwf H. unfold wf_range in Hwf. apply andb_prop in Hwf. destruct Hwf as [Wmin Wmax].
  destruct p as [v|v|t]; cbn [rstep] in H.
  - destruct (cast_opt v (rtype r)) as [y|e] eqn:Ec; inversion H; subst r'; clear H.
    pose proof (cast_opt_sound _ _ _ Hty Hop Ec) as A. unfold wf_range. cbn. rewrite Wmax, andb_true_r.
    split; [|exact Hty]. destruct y; auto.
  - destruct (cast_opt v (rtype r)) as [y|e] eqn:Ec; inversion H; subst r'; clear H.
    pose proof (cast_opt_sound _ _ _ Hty Hop Ec) as A. unfold wf_range. cbn. rewrite Wmin. simpl.
    split; [|exact Hty]. destruct y; auto.
  - destruct (cast_opt (rmin r) t) as [mn|e] eqn:E1; [|inversion H].
    destruct (cast_opt (rmax r) t) as [mx|e] eqn:E2; inversion H; subst r'; clear H.
    assert (V1 : val_ok (rmin r)) by (destruct (rmin r); [eapply has_type_inv; eauto | exact I]).
    assert (V2 : val_ok (rmax r)) by (destruct (rmax r); [eapply has_type_inv; eauto | exact I]).
    pose proof (cast_opt_sound _ _ _ Hop V1 E1) as A. pose proof (cast_opt_sound _ _ _ Hop V2 E2) as B.
    unfold wf_range. cbn. split; [|exact Hop]. apply andb_true_intro. split; [destruct mn | destruct mx]; auto.
Qed.

Lemma rstep_reject : forall r p r' e, rstep r p = (r', Some e) -> r' = r.
Proof.
  intros r p r' e H. destruct p as [v|v|t]; cbn [rstep] in H.
  - destruct (cast_opt v (rtype r)); inversion H; reflexivity.
  - destruct (cast_opt v (rtype r)); inversion H; reflexivity.
  - destruct (cast_opt (rmin r) t); [|inversion H; reflexivity].
    destruct (cast_opt (rmax r) t); inversion H; reflexivity.
Qed.

Lemma rrun_wf : forall ops r, In (rtype r) spec_xsd_types -> Forall rop_ok ops -> wf_range r = true ->
  wf_range (rrun r ops) = true.
Proof.
  induction ops as [|p q IH]; intros r Hty Hops Hwf; cbn [rrun]; [exact Hwf|].
  inversion Hops as [|? ? Hp Hq]; subst. destruct (rstep r p) as [r' [e|]] eqn:E; cbn [fst].
  - rewrite (rstep_reject _ _ _ _ E). apply IH; assumption.
  - destruct (rstep_accept _ _ _ Hty Hp Hwf E) as [A B]. apply IH; assumption.
Qed.

Lemma rctor_wf : forall t mn mx r, In t spec_xsd_types -> val_ok mn -> val_ok mx ->
  rctor t mn mx = (Some r, None) -> wf_range r = true /\ rtype r = t.
Proof.
  intros t mn mx r Ht H1 H2 H. unfold rctor in H.
  destruct (cast_opt mn t) as [a|e] eqn:E1; [|inversion H].
  destruct (cast_opt mx t) as [b|e] eqn:E2; inversion H; subst r; clear H.
  pose proof (cast_opt_sound _ _ _ Ht H1 E1) as A. pose proof (cast_opt_sound _ _ _ Ht H2 E2) as B.
  unfold wf_range. cbn. split; [|reflexivity]. apply andb_true_intro. split; [destruct a | destruct b]; auto.
Qed.

(* ---------------------------------------------------------------- the translated setters are the model's steps *)
(* gen/Gen_TypedSetters.v is regenerated from submodel.py / base.py on every run; these equalities are what ties the
   holder state machines above to the source: an edit of a setter changes the generated function and breaks them *)
Definition holder_of (h : holder) (r : (option pcls * option pyval * option pyval) + err) : holder * option err :=
  match r with
  | inl (t, a, _) => ({| hopt := hopt h; htype := t; hval := a |}, None)
  | inr e => (h, Some e)
  end.
Definition range_of (r : range) (x : (option pcls * option pyval * option pyval) + err) : option (range * option err) :=
  match x with
  | inl (Some t, a, b) => Some ({| rtype := t; rmin := a; rmax := b |}, None)
  | inl (None, _, _) => None
  | inr e => Some (r, Some e)
  end.

Lemma gen_property_value : forall h v, hopt h = false ->
  hstep h (HSetValue v) = holder_of h (set_Property_value (htype h) (hval h) None v).
Proof.
  intros [o t x] v Ho. cbn in Ho. subst o. unfold set_Property_value, hstep, hset_value, holder_of, tcast, bind_tc. cbn.
  destruct v as [y|]; cbn; [|reflexivity]. destruct t as [t|]; cbn; [|reflexivity].
  destruct (trivial_cast y t); reflexivity.
Qed.
Lemma gen_property_value_type : forall h t, hopt h = false ->
  hstep h (HSetType t) = holder_of h (set_Property_value_type (htype h) (hval h) None false t).
Proof.
  intros [o t0 x] t Ho. cbn in Ho. subst o. unfold set_Property_value_type, hstep, hset_type, holder_of, tcast, bind_tc. cbn.
  destruct x as [y|]; cbn; [|reflexivity]. destruct t as [t|]; cbn; [|reflexivity].
  destruct (trivial_cast y t); reflexivity.
Qed.
Lemma gen_qualifier_as_property : forall t a b v w,
  set_Qualifier_value t a b v = set_Property_value t a b v /\
  set_Qualifier_value_type t a b false w = set_Property_value_type t a b false w.
Proof. intros; split; reflexivity. Qed.
Lemma gen_extension_value : forall h v, hopt h = true ->
  hstep h (HSetValue v) = holder_of h (set_Extension_value (htype h) (hval h) None v).
Proof.
  intros [o t x] v Ho. cbn in Ho. subst o. unfold set_Extension_value, hstep, hset_value, holder_of, tcast, bind_tc. cbn.
  destruct v as [y|]; cbn; [|reflexivity]. destruct t as [t|]; cbn; [|reflexivity].
  destruct (trivial_cast y t); reflexivity.
Qed.
Lemma gen_extension_value_type : forall h t, hopt h = true ->
  hstep h (HSetType t) = holder_of h (set_Extension_value_type (htype h) (hval h) None false t).
Proof.
  intros [o t0 x] t Ho. cbn in Ho. subst o. unfold set_Extension_value_type, hstep, hset_type, holder_of, tcast, bind_tc. cbn.
  destruct x as [y|]; cbn; [|reflexivity]. destruct t as [t|]; cbn; [|reflexivity].
  destruct (trivial_cast y t); reflexivity.
Qed.
Lemma gen_range_min : forall r v,
  range_of r (set_Range_min (Some (rtype r)) (rmin r) (rmax r) v) = Some (rstep r (RSetMin v)).
Proof.
  intros [t a b] v. unfold set_Range_min, rstep, range_of, cast_opt, tcast, bind_tc. cbn.
  destruct v as [y|]; cbn; [|reflexivity]. destruct (trivial_cast y t); reflexivity.
Qed.
Lemma gen_range_max : forall r v,
  range_of r (set_Range_max (Some (rtype r)) (rmin r) (rmax r) v) = Some (rstep r (RSetMax v)).
Proof.
  intros [t a b] v. unfold set_Range_max, rstep, range_of, cast_opt, tcast, bind_tc. cbn.
  destruct v as [y|]; cbn; [|reflexivity]. destruct (trivial_cast y t); reflexivity.
Qed.
Lemma gen_range_value_type : forall r t,
  range_of r (set_Range_value_type (Some (rtype r)) (rmin r) (rmax r) false (Some t)) = Some (rstep r (RSetType t)).
Proof.
  intros [t0 a b] t. unfold set_Range_value_type, rstep, range_of, cast_opt, tcast, bind_tc. cbn.
  destruct a as [x|]; cbn.
  - destruct (trivial_cast x t); cbn; [|reflexivity]. destruct b as [y|]; cbn; [|reflexivity].
    destruct (trivial_cast y t); reflexivity.
  - destruct b as [y|]; cbn; [|reflexivity]. destruct (trivial_cast y t); reflexivity.
Qed.

(* AASd-109 on assignment to value_type of an item of a SubmodelElementList of Properties / Ranges (the guard of the
   translated setters; list_other = the list announces another class than the argument) *)
Lemma gen_list_child_refused : forall ty a b t,
  set_Property_value_type ty a b true t = inr (EAASd 109) /\ set_Range_value_type ty a b true t = inr (EAASd 109).
Proof. intros; split; reflexivity. Qed.

Lemma retype_item_keeps_109 : forall vtle ty a b t ty' a' b',
  (retype_property_item vtle ty a t = inl (ty', a', b') -> ty' = Some vtle) /\
  (retype_range_item vtle ty a b t = inl (ty', a', b') -> ty' = Some vtle).
Proof.
  intros vtle ty a b t ty' a' b'. unfold retype_property_item, retype_range_item, set_Property_value_type,
    set_Range_value_type, bind_tc, tcast.
  destruct (pcls_beq t vtle) eqn:E; cbn.
  - apply pcls_beq_eq in E. subst t. split.
    + destruct a as [x|]; cbn; [destruct (trivial_cast x vtle); cbn|]; intros H; inversion H; reflexivity.
    + destruct a as [x|]; cbn.
      * destruct (trivial_cast x vtle); cbn; [|discriminate].
        destruct b as [y|]; cbn; [destruct (trivial_cast y vtle); cbn|]; intros H; inversion H; reflexivity.
      * destruct b as [y|]; cbn; [destruct (trivial_cast y vtle); cbn|]; intros H; inversion H; reflexivity.
  - split; discriminate.
Qed.

Lemma retype_item_refused_unchanged : forall vtle ty a b t, t <> vtle ->
  retype_property_item vtle ty a t = inr (EAASd 109) /\ retype_range_item vtle ty a b t = inr (EAASd 109).
Proof.
  intros vtle ty a b t Hne. unfold retype_property_item, retype_range_item.
  assert (E : pcls_beq t vtle = false).
  { destruct (pcls_beq t vtle) eqn:E; [apply pcls_beq_eq in E; contradiction | reflexivity]. }
  rewrite E. cbn. split; reflexivity.
Qed.

(* ---------------------------------------------------------------- non-vacuity *)
Definition ex_v : pyval := {| vcls := KInteger; vnum := 200; vstr := []; vtok := 0 |}.
Definition ex_h : holder := {| hopt := false; htype := Some KUnsignedByte; hval := None |}.
Definition ex_h1 : holder := fst (hstep ex_h (HSetValue (Some ex_v))).
Definition ex_h2 : holder := fst (hstep ex_h1 (HSetType (Some KShort))).
(* 200 goes into an xs:unsignedByte holder (re-classed), the holder cannot be re-typed to xs:byte (ValueError, nothing
   changes) but can be re-typed to xs:short; True is no xs:integer *)
Example tv_example :
  class_inv ex_v = true /\
  snd (hstep ex_h (HSetValue (Some ex_v))) = None /\ wf_holder ex_h1 = true /\
  option_map vcls (hval ex_h1) = Some KUnsignedByte /\
  hstep ex_h1 (HSetType (Some KByte)) = (ex_h1, Some EValue) /\
  snd (hstep ex_h1 (HSetType (Some KShort))) = None /\ wf_holder ex_h2 = true /\
  option_map vcls (hval ex_h2) = Some KShort /\
  trivial_cast {| vcls := KBoolean; vnum := 1; vstr := []; vtok := 0 |} KInteger = inr EType.
Proof. repeat split; vm_compute; reflexivity. Qed.
