(* Multi-element calls of model/Namespace.v: slice deletion and assignment, construction from an
   iterable, the SubmodelElementList value setter, Namespace-level add/remove. *)
From Coq Require Import List ZArith Bool String Ascii Arith Lia.
From Basyx Require Import model.Namespace proofs.NamespaceProofs proofs.NamespacePrim proofs.NamespaceOps.
Import ListNotations.
Local Open Scope nat_scope.

Section WithCfg.
Variable c : cfg.

Lemma remove_all_spec : forall es s i s' out, BInv c s -> NoDup es -> (forall x, In x es -> mem s i x) ->
  remove_all c s i es = (s', out) ->
  out = Ok /\ BInv c s' /\ same_shells s s' /\
  (forall j x, mem s' j x <-> mem s j x /\ ~ (j = i /\ In x es)).
Proof.
  induction es as [|e r IH]; intros s i s' out B ND HM H; simpl in H.
  - inversion H; subst s' out. split; auto. split; auto. split; [apply same_shells_refl|].
    intros j x. split; [|tauto]. intro X. split; auto. intros [_ []].
  - inversion ND; subst.
    destruct (ns_remove c s i e) as [s1 o1] eqn:A. assert (R := ns_remove_spec c s i e s1 o1 B A).
    assert (GO : BInv c s1 -> same_shells s s1 -> (forall j x, mem s1 j x <-> mem s j x /\ ~ (j = i /\ x = e)) ->
                 remove_all c s1 i r = (s', out) ->
                 out = Ok /\ BInv c s' /\ same_shells s s' /\
                 (forall j x, mem s' j x <-> mem s j x /\ ~ (j = i /\ In x (e :: r)))).
    { intros B1 SH M1 H1.
      destruct (IH s1 i s' out B1 H3) as [I1 [I2 [I3 I4]]]; auto.
      - intros x X. apply M1. split; [apply HM; simpl; auto|]. intros [_ Y]. subst. contradiction.
      - split; auto. split; auto. split; [eapply same_shells_trans; eauto|].
        intros j x. rewrite I4, M1. simpl. split.
        + intros [[X Y] Z]. split; auto. intros [W [V|V]]; [apply Y; auto|apply Z; auto].
        + intros [X Y]. split; [split; auto; intros [W V]; apply Y; auto|]. intros [W V]. apply Y. auto. }
    unfold bind in H. destruct o1 as [|v|x].
    + destruct R as [B1 [SH [M1 _]]]. apply GO; auto.
    + destruct R as [B1 [SH [M1 _]]]. apply GO; auto.
    + destruct R as [_ [_ X]]. exfalso. apply X. apply HM. simpl. auto.
Qed.

Lemma firstn_incl : forall {A} n (l : list A) x, In x (firstn n l) -> In x l.
Proof. intros A n l x H. rewrite <- (firstn_skipn n l). apply in_app_iff. auto. Qed.
Lemma skipn_incl : forall {A} n (l : list A) x, In x (skipn n l) -> In x l.
Proof. intros A n l x H. rewrite <- (firstn_skipn n l). apply in_app_iff. auto. Qed.

(* the three parts of o[lo:hi] *)
Lemma slice_parts : forall (o : list nat) lo hi, lo <= hi -> NoDup o ->
  let pre := firstn lo o in let del := firstn (hi - lo) (skipn lo o) in let post := skipn hi o in
  NoDup pre /\ NoDup del /\ NoDup post /\
  (forall x, In x pre -> ~ In x del) /\ (forall x, In x pre -> ~ In x post) /\ (forall x, In x del -> ~ In x post) /\
  (forall x, In x o <-> In x pre \/ In x del \/ In x post).
Proof.
  intros o lo hi L ND pre del post.
  assert (E : o = pre ++ del ++ post) by (apply slice_split; exact L).
  clearbody pre del post. subst o. destruct (nodup_app_inv _ _ ND) as [N1 [N23 D1]].
  destruct (nodup_app_inv _ _ N23) as [N2 [N3 D2]].
  split; auto. split; auto. split; auto.
  split. { intros x X Y. apply (D1 x X). apply in_app_iff. auto. }
  split. { intros x X Y. apply (D1 x X). apply in_app_iff. auto. }
  split. { exact D2. }
  intro x. rewrite !in_app_iff. tauto.
Qed.

Lemma good_delslice : forall s i a b, Inv c s -> good c s (set_delslice c s i a b) true.
Proof.
  intros s i a b [B O]. unfold set_delslice.
  destruct (order_of s i) as [o|] eqn:OO; [|apply good_same; [split; auto|discriminate]].
  destruct (order_ok s i o O OO) as [N1 N2].
  set (lo := slice_lo (List.length o) a). set (hi := slice_hi (List.length o) a b).
  assert (L : lo <= hi) by apply slice_bounds.
  destruct (slice_parts o lo hi L N1) as [P1 [P2 [P3 [D1 [D2 [D3 PE]]]]]].
  destruct (remove_all c s i (firstn (hi - lo) (skipn lo o))) as [s1 o1] eqn:A.
  destruct (remove_all_spec _ s i s1 o1 B P2) as [E1 [B1 [SH HM]]]; auto.
  { intros x X. apply N2. apply PE. auto. }
  subst o1. unfold bind.
  split; [|split; [discriminate|intros _ X; discriminate]]. simpl.
  apply (Inv_reorder c s s1 i); auto; try (apply same_shells_except; exact SH).
  - intros j x D. rewrite HM. split; [tauto|]. intro X. split; auto. intros [Y _]. contradiction.
  - apply nodup_app; auto.
  - intro x. rewrite in_app_iff, HM, <- N2, PE. split.
    + intros [X|X]; (split; [tauto|]); intros [_ Y]; [apply (D1 x X Y)|apply (D3 x Y X)].
    + intros [[X|[X|X]] Y]; auto. exfalso. apply Y. auto.
Qed.

Lemma good_delitem : forall s i z, Inv c s -> good c s (set_delitem c s i z) true.
Proof.
  intros s i z I. unfold set_delitem. destruct (order_of s i); [|apply good_same; auto; discriminate].
  destruct (py_idx _ z); [apply good_delslice; exact I|apply good_same; auto; discriminate].
Qed.

Lemma good_bind : forall s r f, good c s r false ->
  (forall s1, Inv c s1 -> good c s1 (f s1) false) -> good c s (bind r f) false.
Proof.
  intros s [s1 o1] f [I [X _]] H. simpl in I, X. unfold bind.
  destruct o1 as [|v|x].
  - destruct (H s1 I) as [I2 [X2 _]]. split; auto. split; auto. intro; discriminate.
  - destruct (H s1 I) as [I2 [X2 _]]. split; auto. split; auto. intro; discriminate.
  - split; auto. split; auto. intro; discriminate.
Qed.

Lemma good_add_each : forall es s i, Inv c s -> good c s (add_each c s i es) false.
Proof.
  induction es as [|e r IH]; intros s i I; simpl.
  - split; auto. split; [discriminate|intro; discriminate].
  - apply good_bind; [apply good_weaken; apply good_add; exact I|]. intros s1 I1. apply IH. exact I1.
Qed.

Lemma Inv_append_set : forall s o hk (ordered : bool), Inv c s ->
  Inv c (mkstate (sets s ++ [mkset o hk [] (if ordered then Some [] else None)]) (elems s) (gen s)).
Proof.
  intros s o hk ordered [B O].
  set (nw := mkset o hk [] (if ordered then Some [] else None)).
  assert (L : forall j st, nth_error (sets s ++ [nw]) j = Some st ->
              nth_error (sets s) j = Some st \/ (j = List.length (sets s) /\ st = nw)).
  { intros j st H. destruct (lt_dec j (List.length (sets s))) as [X|X].
    - rewrite nth_error_app1 in H by assumption. auto.
    - rewrite nth_error_app2 in H by lia. destruct (j - List.length (sets s)) as [|k] eqn:E.
      + simpl in H. inversion H. right. split; auto. lia.
      + simpl in H. destruct k; discriminate. }
  split.
  - constructor; simpl.
    + intros i st N. destruct (L i st N) as [X|[_ X]]; [apply (b_nodup c s B i st X)|subst; constructor].
    + intros i st k e N H. destruct (L i st N) as [X|[_ X]]; [|subst; contradiction].
      destruct (b_entry c s B i st k e X H) as [r R]. exists r. exact R.
    + intros i j sti stj k Ni Nj OO Hi Hj.
      destruct (L i sti Ni) as [X|[_ X]]; [|subst; contradiction].
      destruct (L j stj Nj) as [Y|[_ Y]]; [|subst; contradiction].
      apply (b_uniq c s B i j sti stj k); auto.
    + intros e o' P. destruct (b_parent c s B e o' P) as [i [st [N [X Y]]]]. exists i, st.
      split; auto. rewrite nth_error_app1; auto. apply nth_error_Some. congruence.
    + apply (b_gen c s B).
  - intros j st N. simpl in N. destruct (L j st N) as [X|[_ X]]; [apply (O j st X)|].
    subst st. unfold ord_ok, nw. simpl. destruct ordered; auto. split; [constructor|]. simpl. tauto.
Qed.

Lemma good_construct_one : forall s o ordered hk items fails, Inv c s ->
  good c s (construct_one c s o ordered hk items fails) false.
Proof.
  intros s o ordered hk items fails I. unfold construct_one.
  set (s0 := mkstate (sets s ++ [mkset o hk [] (if ordered then Some [] else None)]) (elems s) (gen s)).
  assert (I0 : Inv c s0) by (apply Inv_append_set; exact I).
  destruct (good_add_each items s0 (List.length (sets s)) I0) as [I1 [X1 _]].
  destruct (add_each c s0 (List.length (sets s)) items) as [s1 o1]. simpl in I1, X1.
  destruct (Inv_clear c s1 (List.length (sets s)) I1) as [I2 _].
  destruct o1 as [|v|x].
  - destruct fails; (split; [assumption|]; split; [discriminate|intro; discriminate]).
  - destruct fails; (split; [assumption|]; split; [discriminate|intro; discriminate]).
  - split; [exact I2|]. split; [exact X1|intro; discriminate].
Qed.

Lemma good_construct : forall itemss s o ordered hk, Inv c s ->
  good c s (construct c s o ordered hk itemss) false.
Proof.
  induction itemss as [|[items fails] r IH]; intros s o ordered hk I; simpl.
  - split; auto. split; [discriminate|intro; discriminate].
  - apply good_bind; [apply good_construct_one; exact I|]. intros s1 I1. apply IH. exact I1.
Qed.

Lemma good_append : forall s i e, Inv c s -> good c s (set_append c s i e) true.
Proof.
  intros s i e I. unfold set_append. destruct (nth_error (sets s) i); [apply good_insert; exact I|].
  apply good_same; auto. discriminate.
Qed.

Lemma good_remove_each : forall es s i, Inv c s -> good c s (remove_each c s i es) false.
Proof.
  induction es as [|e r IH]; intros s i I; simpl.
  - split; auto. split; [discriminate|intro; discriminate].
  - apply good_bind; [apply good_weaken; apply good_remove; exact I|]. intros s1 I1. apply IH. exact I1.
Qed.

Lemma good_extend_loop : forall es s i added, Inv c s -> good c s (extend_loop c s i es added) false.
Proof.
  induction es as [|e r IH]; intros s i added I; simpl.
  - split; auto. split; [discriminate|intro; discriminate].
  - destruct (good_append s i e I) as [I1 [X1 _]]. destruct (set_append c s i e) as [s1 o1]. simpl in I1, X1.
    destruct o1 as [|v|x].
    + destruct (IH s1 i (e :: added) I1) as [A [B _]]. split; auto. split; auto. intro; discriminate.
    + destruct (IH s1 i (e :: added) I1) as [A [B _]]. split; auto. split; auto. intro; discriminate.
    + destruct (good_remove_each added s1 i I1) as [I2 [X2 _]].
      destruct (remove_each c s1 i added) as [s2 o2]. simpl in I2, X2.
      destruct o2; (split; [exact I2|]; split; [assumption|intro; discriminate]).
Qed.

Lemma good_set_extend : forall s i es, Inv c s -> good c s (set_extend c s i es) false.
Proof.
  intros s i es I. unfold set_extend. destruct (order_of s i); [apply good_extend_loop; exact I|].
  apply good_weaken. apply good_same; auto. discriminate.
Qed.

Lemma good_set_value : forall s i es, Inv c s -> good c s (set_value c s i es) false.
Proof.
  intros s i es I. unfold set_value. destruct (order_of s i) as [old|].
  2:{ apply good_weaken. apply good_same; auto. discriminate. }
  apply good_bind.
  - apply good_weaken. apply good_delslice. exact I.
  - intros s1 I1. destruct (good_set_extend s1 i es I1) as [I2 [X2 _]].
    destruct (set_extend c s1 i es) as [s2 o2]. simpl in I2, X2. destruct o2 as [|v|x].
    + split; auto. split; auto. intro; discriminate.
    + split; auto. split; auto. intro; discriminate.
    + destruct (good_set_extend s2 i old I2) as [I3 [X3 _]].
      destruct (set_extend c s2 i old) as [s3 o3]. simpl in I3, X3.
      destruct o3; (split; [exact I3|]; split; [assumption|intro; discriminate]).
Qed.

Lemma good_clear : forall s i, Inv c s -> good c s (set_clear s i) false.
Proof.
  intros s i I. destruct (Inv_clear c s i I) as [A B]. split; auto. split; auto. intro; discriminate.
Qed.

Lemma good_owner_add : forall s o e, Inv c s -> good c s (owner_add c s o e) true.
Proof.
  intros s o e I. unfold owner_add. destruct (owner_sets s o) as [|i r].
  - apply good_same; auto. discriminate.
  - apply good_add. exact I.
Qed.

Lemma good_owner_remove_in : forall idxs s k, Inv c s -> good c s (owner_remove_in c s idxs k) true.
Proof.
  induction idxs as [|i r IH]; intros s k I; simpl.
  - apply good_same; auto. discriminate.
  - destruct (nth_error (sets s) i) as [st|] eqn:N; [|apply IH; exact I].
    destruct (dget (norm c k) (s_backend st)) as [e|] eqn:G; [|apply IH; exact I].
    destruct (set_remove c s i e) as [s1 o1] eqn:A.
    assert (R := set_remove_spec c s i e s1 o1 I A).
    destruct o1 as [|v|x].
    + destruct R as [R _]. split; [exact R|]. split; [discriminate|intros _ X; discriminate].
    + destruct R as [R _]. split; [exact R|]. split; [discriminate|intros _ X; discriminate].
    + destruct R as [E [X _]]. subst s1. destruct x; try (apply good_same; auto; discriminate).
      apply IH. exact I.
Qed.

End WithCfg.
