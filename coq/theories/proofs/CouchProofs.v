(* Proofs about model/Couch.v (CouchDB store protocol). *)
From Coq Require Import List Arith Bool String Ascii Lia Permutation.
From Basyx Require Import model.Files proofs.FilesProofs model.Couch.
Import ListNotations.
Local Open Scope string_scope.

(* ---------- quoting ------------------------------------------------------------------------- *)

Lemma unquote_quote_char c r : unquote (quote_char c ++ r) = String c (unquote r).
Proof. destruct c as [[] [] [] [] [] [] [] []]; reflexivity. Qed.

Lemma unquote_quote s : unquote (quote s) = s.
Proof.
  induction s as [|c r IH]; [reflexivity|]. cbn [quote].
  rewrite unquote_quote_char, IH. reflexivity.
Qed.
Lemma quote_inj a b : quote a = quote b -> a = b.
Proof. intros H. apply (f_equal unquote) in H. now rewrite !unquote_quote in H. Qed.

Lemma prefix_app p x : prefix p (p ++ x) = true.
Proof.
  induction p as [|a s IH]; cbn; [now destruct x|].
  destruct (ascii_dec a a); [exact IH|congruence].
Qed.
Lemma skip_app p x : skip (String.length p) (p ++ x) = x.
Proof. induction p as [|a s IH]; cbn; [now destruct x|exact IH]. Qed.

Lemma legal_not_reserved i : legal i = true -> reserved i = false.
Proof. destruct i as [|a r]; cbn; [discriminate|]. now destruct (Ascii.eqb a "_"). Qed.

Lemma quote_char_head c : exists a t, quote_char c = String a t /\ (a = c \/ a = "%"%char).
Proof.
  unfold quote_char. destruct (unreserved c); eexists; eexists; split; try reflexivity; auto.
Qed.

Lemma unquote_transform s : unquote (transform_id s) = s.
Proof.
  unfold transform_id. destruct (String.eqb_spec (quote s) ".") as [E|_].
  - change "." with (quote ".") in E. apply quote_inj in E. now subst s.
  - destruct (String.eqb_spec (quote s) "..") as [E|_]; [|apply unquote_quote].
    change ".." with (quote "..") in E. apply quote_inj in E. now subst s.
Qed.
Lemma transform_inj a b : transform_id a = transform_id b -> a = b.
Proof. intros H. apply (f_equal unquote) in H. now rewrite !unquote_transform in H. Qed.

Lemma quote_legal_shape i : legal i = true ->
  String.eqb (transform_id i) "" = false /\ String.eqb (transform_id i) "_all_docs" = false.
Proof.
  destruct i as [|c r]; cbn [legal]; [discriminate|]. intros Hc. apply negb_true_iff in Hc.
  unfold transform_id. destruct (String.eqb (quote (String c r)) "."); [split; reflexivity|].
  destruct (String.eqb (quote (String c r)) ".."); [split; reflexivity|].
  cbn [quote]. destruct (quote_char_head c) as (a & t & E & Ha). rewrite E. cbn [append].
  split; [reflexivity|]. cbn [String.eqb].
  destruct Ha as [-> | ->]; [rewrite Hc; reflexivity|reflexivity].
Qed.

(* the document URL built by add/get/discard/contains and the one recovered from `source` by
   commit/update are the same string, and the server routes it to the document named by the id *)
Lemma source_roundtrip c i : parse_source (generate_source c i) = Some (doc_url c i).
Proof.
  unfold parse_source, generate_source, doc_url, base_url, couch_scheme, http_scheme.
  destruct (c_secure c).
  - rewrite (prefix_app "couchdbs://"). reflexivity.
  - change (prefix "couchdbs://" ("couchdb://" ++ c_rest c ++ "/" ++ transform_id i)) with false.
    cbv iota. rewrite (prefix_app "couchdb://"). reflexivity.
Qed.
Lemma source_nonempty c i : String.eqb (generate_source c i) "" = false.
Proof. unfold generate_source, couch_scheme. destruct (c_secure c); reflexivity. Qed.

Lemma route_doc c i : legal i = true -> url_target c (doc_url c i) = TDoc (transform_id i).
Proof.
  intros Hl. unfold url_target, doc_url. rewrite prefix_app, skip_app.
  destruct (quote_legal_shape i Hl) as [H1 H2]. cbn [append]. cbn [Ascii.eqb].
  change (Ascii.eqb "/" "/") with true. cbn iota. now rewrite H1, H2.
Qed.
Lemma append_nil_r s : s ++ "" = s.
Proof. induction s as [|a s IH]; cbn; [reflexivity|now rewrite IH]. Qed.
Lemma prefix_refl p : prefix p p = true.
Proof. rewrite <- (append_nil_r p) at 2. apply prefix_app. Qed.
Lemma skip_all p : skip (String.length p) p = "".
Proof. rewrite <- (append_nil_r p) at 2. apply skip_app. Qed.
Lemma route_db c : url_target c (base_url c) = TDb.
Proof. unfold url_target. now rewrite prefix_refl, skip_all. Qed.
Lemma route_all_docs c : url_target c (base_url c ++ "/_all_docs") = TAllDocs.
Proof. unfold url_target. now rewrite prefix_app, skip_app. Qed.

(* ---------- association lists --------------------------------------------------------------- *)

Lemma aset_same {B} k (v : B) l : sassoc k (aset k v l) = Some v.
Proof.
  induction l as [|[k' v'] r IH]; cbn.
  - now rewrite String.eqb_refl.
  - destruct (String.eqb k k') eqn:E; cbn; [now rewrite String.eqb_refl|now rewrite E].
Qed.
Lemma aset_other {B} k k' (v : B) l : k <> k' -> sassoc k' (aset k v l) = sassoc k' l.
Proof.
  intros Hn. induction l as [|[k2 v2] r IH]; cbn.
  - destruct (String.eqb_spec k' k); [congruence|reflexivity].
  - destruct (String.eqb_spec k k2) as [->|]; cbn.
    + destruct (String.eqb_spec k' k2); [congruence|reflexivity].
    + destruct (String.eqb k' k2); [reflexivity|exact IH].
Qed.

Lemma nth_upd_same h : forall x f ce, nth_error h x = Some ce -> nth_error (upd_cell h x f) x = Some (f ce).
Proof.
  induction h as [|a r IH]; intros [|x] f ce H; cbn in *; try discriminate.
  - now injection H as ->.
  - now apply IH.
Qed.
Lemma nth_upd_other h : forall x y f, x <> y -> nth_error (upd_cell h x f) y = nth_error h y.
Proof.
  induction h as [|a r IH]; intros [|x] [|y] f H; cbn; try reflexivity; try congruence.
  apply IH. congruence.
Qed.
Lemma upd_length h : forall x f, List.length (upd_cell h x f) = List.length h.
Proof. induction h as [|a r IH]; intros [|x] f; cbn; auto. Qed.

(* ---------- what the server answers to the client's document requests --------------------------- *)

Lemma serve_read c sv i m rv b : legal i = true -> m = GET \/ m = HEAD ->
  serve c sv (mkReq m (doc_url c i) rv b)
  = (sv, match live sv i with
         | Some (r, v) => mkResp 200 true (Some r) (PDoc i r v)
         | None => jerr 404
         end).
Proof.
  intros Hl Hm. unfold serve. cbn [rq_url rq_meth]. rewrite (route_doc c i Hl), unquote_transform.
  destruct Hm as [-> | ->]; destruct (live sv i) as [[r v]|]; reflexivity.
Qed.

Lemma serve_put c sv i given v : legal i = true ->
  serve c sv (mkReq PUT (doc_url c i) given (Some v))
  = match sget sv i with
    | None => match given with
              | None => (aset i (mkDoc 1 (Some v)) sv, mkResp 201 true (Some 1) (POk 1))
              | Some _ => (sv, jerr 409)
              end
    | Some d => if accepts d given
                then (aset i (mkDoc (S (d_rev d)) (Some v)) sv,
                      mkResp 201 true (Some (S (d_rev d))) (POk (S (d_rev d))))
                else (sv, jerr 409)
    end.
Proof.
  intros Hl. unfold serve. cbn [rq_url rq_meth rq_body rq_rev].
  rewrite (route_doc c i Hl), unquote_transform, (legal_not_reserved i Hl). reflexivity.
Qed.

Lemma serve_delete c sv i given : legal i = true ->
  serve c sv (mkReq DELETE (doc_url c i) given None)
  = match live sv i with
    | None => (sv, jerr 404)
    | Some (r, _) => if opt_rev_eqb given (Some r)
                     then (aset i (mkDoc (S r) None) sv, mkResp 200 true (Some (S r)) (POk (S r)))
                     else (sv, jerr 409)
    end.
Proof.
  intros Hl. unfold serve. cbn [rq_url rq_meth rq_rev]. now rewrite (route_doc c i Hl), unquote_transform.
Qed.

Lemma live_aset_same sv i r v : live (aset i (mkDoc r (Some v)) sv) i = Some (r, v).
Proof. unfold live, sget. now rewrite aset_same. Qed.
Lemma live_aset_deleted sv i r : live (aset i (mkDoc r None) sv) i = None.
Proof. unfold live, sget. now rewrite aset_same. Qed.
Lemma live_aset_other sv i j d : i <> j -> live (aset i d sv) j = live sv j.
Proof. intros H. unfold live, sget. now rewrite aset_other. Qed.

Lemma world_eta w : mkWorld (w_sv w) (w_cl w) = w.
Proof. now destruct w. Qed.

(* ---------- no lost update ------------------------------------------------------------------------ *)

(* commit from a replica whose recorded revision is not the server's current one: conflict error,
   nothing changes anywhere *)
Lemma commit_stale c w x ce i r :
  nth_error (heap (w_cl w)) x = Some ce -> c_src ce = generate_source c i -> legal i = true ->
  sassoc (doc_url c i) (revs (w_cl w)) = Some r ->
  (forall d, sget (w_sv w) i = Some d -> d_rev d <> r) ->
  step c None w (Commit x) = (w, OErr XConflict, 1).
Proof.
  intros Hx Hs Hl Hr Hstale. cbn [step]. unfold op_commit. rewrite Hx, Hs, source_nonempty, source_roundtrip, Hr.
  unfold send. rewrite (serve_put c _ i (Some r) _ Hl).
  destruct (sget (w_sv w) i) as [d|] eqn:E.
  - assert (Hacc : accepts d (Some r) = false).
    { unfold accepts. pose proof (Hstale d eq_refl) as Hn. cbn [opt_rev_eqb].
      destruct (Nat.eqb_spec r (d_rev d)); [congruence|]. now destruct (d_val d). }
    rewrite Hacc. cbn. now rewrite world_eta.
  - cbn. now rewrite world_eta.
Qed.

(* commit from an up-to-date replica: accepted, the server holds the replica's payload under a new
   revision, the client records that revision *)
Lemma commit_fresh c w x ce i r v0 :
  nth_error (heap (w_cl w)) x = Some ce -> c_src ce = generate_source c i -> legal i = true ->
  sassoc (doc_url c i) (revs (w_cl w)) = Some r ->
  sget (w_sv w) i = Some (mkDoc r (Some v0)) ->
  step c None w (Commit x)
  = (mkWorld (aset i (mkDoc (S r) (Some (c_val ce))) (w_sv w))
             (mkClient (heap (w_cl w)) (aset (doc_url c i) (S r) (revs (w_cl w))) (cache (w_cl w))),
     ODone, 1).
Proof.
  intros Hx Hs Hl Hr Hd. cbn [step]. unfold op_commit. rewrite Hx, Hs, source_nonempty, source_roundtrip, Hr.
  unfold send. rewrite (serve_put c _ i (Some r) _ Hl), Hd. unfold accepts. cbn [d_val d_rev opt_rev_eqb].
  rewrite Nat.eqb_refl. reflexivity.
Qed.

(* what any reader gets: lookup of a live document returns an object carrying the server's payload;
   lookup of a missing / deleted document raises KeyError; the server is not modified *)
Lemma get_live c sv cl i r v : legal i = true -> live sv i = Some (r, v) ->
  exists y cl' ce', step c None (mkWorld sv cl) (GetId i) = (mkWorld sv cl', OCell y, 1) /\
    nth_error (heap cl') y = Some ce' /\ c_id ce' = i /\ c_val ce' = v /\
    sassoc (doc_url c i) (revs cl') = Some r.
Proof.
  intros Hl Hv. cbn [step]. unfold op_get, get_doc, send. cbn [w_sv w_cl].
  rewrite (serve_read c sv i GET None None Hl (or_introl eq_refl)), Hv. cbn [do_request fst snd].
  cbn.
  assert (Hfresh : exists y cl' ce',
     (mkWorld sv (mkClient (heap cl ++ [mkCell i v (generate_source c i)])%list (aset (doc_url c i) r (revs cl))
                           (aset i (List.length (heap cl)) (cache cl))), @inr exn nat (List.length (heap cl)))
     = (mkWorld sv cl', inr y) /\ nth_error (heap cl') y = Some ce' /\ c_id ce' = i /\ c_val ce' = v /\
     sassoc (doc_url c i) (revs cl') = Some r).
  { eexists; eexists; eexists. split; [reflexivity|]. cbn [heap revs]. split.
    - rewrite nth_error_app2 by lia. rewrite Nat.sub_diag. reflexivity.
    - cbn. split; [reflexivity|]. split; [reflexivity|]. apply aset_same. }
  destruct (sassoc i (cache cl)) as [old|] eqn:Ec.
  - destruct (nth_error (heap cl) old) as [oc|] eqn:Eo.
    + destruct (String.eqb (c_src oc) (generate_source c i)).
      * eexists; eexists; eexists. split; [reflexivity|]. cbn [heap revs]. split.
        -- apply nth_upd_same. exact Eo.
        -- cbn. split; [reflexivity|]. split; [reflexivity|]. apply aset_same.
      * destruct Hfresh as (y & cl' & ce' & E & H). exists y, cl', ce'. split; [|exact H].
        injection E as <- <-. reflexivity.
    + destruct Hfresh as (y & cl' & ce' & E & H). exists y, cl', ce'. split; [|exact H].
      injection E as <- <-. reflexivity.
  - destruct Hfresh as (y & cl' & ce' & E & H). exists y, cl', ce'. split; [|exact H].
    injection E as <- <-. reflexivity.
Qed.

Lemma get_missing c sv cl i : legal i = true -> live sv i = None ->
  step c None (mkWorld sv cl) (GetId i) = (mkWorld sv cl, OErr XKey, 1).
Proof.
  intros Hl Hv. cbn [step]. unfold op_get, get_doc, send. cbn [w_sv w_cl].
  rewrite (serve_read c sv i GET None None Hl (or_introl eq_refl)), Hv. reflexivity.
Qed.

(* ---------- safe delete ------------------------------------------------------------------------- *)

Lemma safe_delete_spec c w x ce i :
  nth_error (heap (w_cl w)) x = Some ce -> c_id ce = i -> legal i = true ->
  match sassoc (doc_url c i) (revs (w_cl w)) with
  | None => step c None w (Discard x true) = (w, OErr XConflict, 0)
  | Some r =>
    match live (w_sv w) i with
    | None => step c None w (Discard x true) = (w, OErr XKey, 1)
    | Some (r', _) =>
      if Nat.eqb r r'
      then world_of (step c None w (Discard x true))
           = mkWorld (aset i (mkDoc (S r') None) (w_sv w))
                     (mkClient (upd_cell (heap (w_cl w)) x (set_src "")) (sremove (doc_url c i) (revs (w_cl w)))
                               (sremove i (cache (w_cl w))))
           /\ outcome_of (step c None w (Discard x true)) = ODone
      else step c None w (Discard x true) = (w, OErr XConflict, 1)
    end
  end.
Proof.
  intros Hx Hi Hl. cbn [step]. unfold op_discard. rewrite Hx, Hi.
  destruct (sassoc (doc_url c i) (revs (w_cl w))) as [r|]; [|reflexivity].
  unfold delete_phase, send. rewrite (serve_delete c _ i (Some r) Hl).
  destruct (live (w_sv w) i) as [[r' v']|].
  - cbn [opt_rev_eqb]. destruct (Nat.eqb r r'); cbn; [split; reflexivity|now rewrite world_eta].
  - cbn. now rewrite world_eta.
Qed.

(* ---------- faults -------------------------------------------------------------------------------- *)

Definition fault_ok (ft : fault) : Prop :=
  match ft with FStatus code => is_2xx code = false | FLost _ | FLostPool => False | _ => True end.
Definition is_contains (o : op) : Prop := match o with ContainsId _ | ContainsObj _ => True | _ => False end.
Definition is_add (o : op) : Prop := match o with Add _ => True | _ => False end.
Definition is_plain_discard (o : op) : Prop := match o with Discard _ false => True | _ => False end.
(* the error classes a faulted operation may end in.  KeyError - the store's "missing id" / "duplicate id" signal -
   only where the server said so: a 404, a 409 answering add's PUT, or (discard without safe_delete) a HEAD
   answer that carries no revision *)
Definition documented (o : op) (ft : fault) (e : exn) : Prop :=
  match e with
  | XKey => ft = FStatus 404 \/ (ft = FStatus 409 /\ is_add o) \/ (ft = FGarbage /\ is_plain_discard o)
  | XConn | XResp | XServer _ | XConflict => True
  | _ => False
  end.
Ltac fin :=
  cbn;
  repeat match goal with |- context [Nat.eqb ?c ?n] => destruct (Nat.eqb_spec c n); subst end;
  cbn; try exact I; try (left; reflexivity); try (right; left; split; [reflexivity|exact I]);
  try (right; right; split; [reflexivity|exact I]).
(* the outcome of an operation one of whose requests was answered by the fault ft *)
Definition faulted_outcome (o : op) (ft : fault) (out : outcome) : Prop :=
  match out with
  | OErr e => documented o ft e
  | OBool b => is_contains o /\ ((b = false /\ ft = FStatus 404) \/ (b = true /\ ft = FGarbage))
  | _ => False
  end.

Lemma do_request_fault m ft : fault_ok ft ->
  do_request m (fault_result m ft) =
  match ft with
  | FStatus code => inl (XServer code)
  | FGarbage => match m with HEAD => inr (RHeaders None) | _ => inl XResp end
  | FDrop TProto => inl XConn
  | FDrop TOther => inl XResp
  | FLost TProto => inl XConn
  | FLost TOther => inl XResp
  | FDropPool => if is_read m then inl XResp else inl XConn
  | FLostPool => inl XConn
  end.
Proof.
  destruct ft as [code| |[]|[]| |]; cbn; intros H; try reflexivity; try contradiction.
  - rewrite H. destruct m; reflexivity.
  - destruct m; reflexivity.
Qed.

Lemma send_hit c k ft sv rq : fault_ok ft -> send c (Some (k, ft)) k sv rq = (sv, fault_result (rq_meth rq) ft).
Proof. intros H. unfold send. rewrite Nat.eqb_refl. destruct ft; cbn in *; try reflexivity; contradiction. Qed.
Lemma send_hit_lost c k t sv rq :
  send c (Some (k, FLost t)) k sv rq = (fst (serve c sv rq), Fail t).
Proof. unfold send. now rewrite Nat.eqb_refl. Qed.
(* through the pool: the lost answer to a write is not repeated; the lost answer to a lookup is, and the repetition
   is what an undisturbed request would have been *)
Lemma send_hit_lostpool_write c k sv rq : is_read (rq_meth rq) = false ->
  send c (Some (k, FLostPool)) k sv rq = (fst (serve c sv rq), Fail TProto).
Proof. intros H. unfold send. rewrite Nat.eqb_refl. cbn. now rewrite H. Qed.
Lemma send_lostpool_read c k sv rq : is_read (rq_meth rq) = true ->
  send c (Some (k, FLostPool)) k sv rq = send c None k sv rq.
Proof. intros H. unfold send. rewrite Nat.eqb_refl. cbn. now rewrite H. Qed.
Lemma send_miss c k ft n sv rq : k <> n ->
  send c (Some (k, ft)) n sv rq = (fst (serve c sv rq), Resp (snd (serve c sv rq))).
Proof.
  intros H. unfold send. destruct (Nat.eqb_spec k n); [contradiction|]. now destruct (serve c sv rq).
Qed.
Lemma serve_readonly c sv rq : rq_meth rq = GET \/ rq_meth rq = HEAD -> fst (serve c sv rq) = sv.
Proof.
  intros H. unfold serve. destruct (url_target c (rq_url rq)); [reflexivity| | |].
  - destruct H as [-> | ->]; reflexivity.
  - destruct H as [-> | ->]; reflexivity.
  - destruct H as [-> | ->]; destruct (live sv (unquote seg)) as [[? ?]|]; reflexivity.
Qed.
Lemma send_readonly c f n sv m url rv b : m = GET \/ m = HEAD ->
  fst (send c f n sv (mkReq m url rv b)) = sv.
Proof.
  intros H. unfold send. pose proof (serve_readonly c sv (mkReq m url rv b) H) as Hs.
  destruct f as [[k ft]|];
    [destruct (Nat.eqb k n); [destruct (repeated ft _); [|destruct (processed ft); [exact Hs|reflexivity]]|]|];
    destruct (serve c sv (mkReq m url rv b)); exact Hs.
Qed.

(* get_doc never modifies the server; when its request is the faulted one it fails with a documented error *)
Lemma get_doc_sv c f n w i : w_sv (fst (get_doc c f n w i)) = w_sv w.
Proof.
  unfold get_doc. pose proof (send_readonly c f n (w_sv w) GET (doc_url c i) None None (or_introl eq_refl)) as Hs.
  destruct (send c f n (w_sv w) (mkReq GET (doc_url c i) None None)) as [sv' nr]. cbn in Hs. subst sv'.
  destruct (do_request GET nr) as [e|[et|p]]; try reflexivity.
  destruct p; try reflexivity.
  destruct (sassoc i0 (cache (w_cl w))) as [old|]; [|reflexivity].
  destruct (nth_error (heap (w_cl w)) old) as [oc|]; [|reflexivity].
  destruct (String.eqb (c_src oc) (generate_source c i0)); reflexivity.
Qed.
Lemma get_doc_fault c k ft w i : fault_ok ft ->
  exists e, snd (get_doc c (Some (k, ft)) k w i) = inl e /\ forall o, documented o ft e.
Proof.
  intros Hok. unfold get_doc. rewrite (send_hit _ _ _ _ _ Hok); cbn [rq_meth]; rewrite (do_request_fault GET ft Hok).
  destruct ft as [code| |[]|[]| |]; try (exfalso; exact Hok); cbn [snd]; eexists; (split; [reflexivity|]); intros o; fin.
Qed.

Lemma fetch_all_fault c k ft : fault_ok ft -> forall ids n w acc, n <= k ->
  let r := fetch_all c (Some (k, ft)) n w ids acc in
  w_sv (world_of r) = w_sv w /\ (k < sent_of r -> exists e, outcome_of r = OErr e /\ forall o, documented o ft e).
Proof.
  intros Hok. induction ids as [|i rest IH]; intros n w acc Hn; cbn [fetch_all].
  - split; [reflexivity|]. unfold sent_of. cbn. lia.
  - pose proof (get_doc_sv c (Some (k, ft)) n w i) as Hsv.
    destruct (Nat.eq_dec n k) as [->|Hne].
    + destruct (get_doc_fault c k ft w i Hok) as (e & He & Hd).
      destruct (get_doc c (Some (k, ft)) k w i) as [w' [e'|y]]; cbn in He; [|discriminate].
      injection He as ->. cbn in Hsv. split; [exact Hsv|]. intros _. exists e. split; [reflexivity|exact Hd].
    + destruct (get_doc c (Some (k, ft)) n w i) as [w' [e'|y]]; cbn in Hsv.
      * split; [exact Hsv|]. unfold sent_of. cbn. lia.
      * destruct (IH (S n) w' (y :: acc)) as [H1 H2]; [lia|]. split; [now rewrite H1|exact H2].
Qed.

(* ---------- the answer to a revision-guarded write is lost on the wire (FLost): the server has processed the
   request, the client reports the transport error - never a refusal (KeyError / conflict), never success - and
   keeps its view (objects, recorded revisions, cache) as it was *)
Definition transport_exn (t : transport) : exn := match t with TProto => XConn | TOther => XResp end.
Lemma lost_add c w x ce t : nth_error (heap (w_cl w)) x = Some ce ->
  step c (Some (0, FLost t)) w (Add x)
  = (mkWorld (fst (serve c (w_sv w) (mkReq PUT (doc_url c (c_id ce)) None (Some (c_val ce))))) (w_cl w),
     OErr (transport_exn t), 1).
Proof.
  intros Hx. cbn [step]. unfold op_add. rewrite Hx, send_hit_lost. destruct t; reflexivity.
Qed.
Lemma lost_commit c w x ce url r t : nth_error (heap (w_cl w)) x = Some ce ->
  String.eqb (c_src ce) "" = false -> parse_source (c_src ce) = Some url -> sassoc url (revs (w_cl w)) = Some r ->
  step c (Some (0, FLost t)) w (Commit x)
  = (mkWorld (fst (serve c (w_sv w) (mkReq PUT url (Some r) (Some (c_val ce))))) (w_cl w),
     OErr (transport_exn t), 1).
Proof.
  intros Hx Hs Hp Hr. cbn [step]. unfold op_commit. rewrite Hx, Hs, Hp, Hr, send_hit_lost. destruct t; reflexivity.
Qed.
Lemma lost_safe_delete c w x ce r t : nth_error (heap (w_cl w)) x = Some ce ->
  sassoc (doc_url c (c_id ce)) (revs (w_cl w)) = Some r ->
  step c (Some (0, FLost t)) w (Discard x true)
  = (mkWorld (fst (serve c (w_sv w) (mkReq DELETE (doc_url c (c_id ce)) (Some r) None))) (w_cl w),
     OErr (transport_exn t), 1).
Proof.
  intros Hx Hr. cbn [step]. unfold op_discard. rewrite Hx, Hr. unfold delete_phase. rewrite send_hit_lost.
  destruct t; reflexivity.
Qed.

Lemma lostpool_add c w x ce : nth_error (heap (w_cl w)) x = Some ce ->
  step c (Some (0, FLostPool)) w (Add x)
  = (mkWorld (fst (serve c (w_sv w) (mkReq PUT (doc_url c (c_id ce)) None (Some (c_val ce))))) (w_cl w), OErr XConn, 1).
Proof.
  intros Hx. cbn [step]. unfold op_add. rewrite Hx, send_hit_lostpool_write by reflexivity. reflexivity.
Qed.
Lemma lostpool_commit c w x ce url r : nth_error (heap (w_cl w)) x = Some ce ->
  String.eqb (c_src ce) "" = false -> parse_source (c_src ce) = Some url -> sassoc url (revs (w_cl w)) = Some r ->
  step c (Some (0, FLostPool)) w (Commit x)
  = (mkWorld (fst (serve c (w_sv w) (mkReq PUT url (Some r) (Some (c_val ce))))) (w_cl w), OErr XConn, 1).
Proof.
  intros Hx Hs Hp Hr. cbn [step]. unfold op_commit. rewrite Hx, Hs, Hp, Hr, send_hit_lostpool_write by reflexivity.
  reflexivity.
Qed.
Lemma lostpool_safe_delete c w x ce r : nth_error (heap (w_cl w)) x = Some ce ->
  sassoc (doc_url c (c_id ce)) (revs (w_cl w)) = Some r ->
  step c (Some (0, FLostPool)) w (Discard x true)
  = (mkWorld (fst (serve c (w_sv w) (mkReq DELETE (doc_url c (c_id ce)) (Some r) None))) (w_cl w), OErr XConn, 1).
Proof.
  intros Hx Hr. cbn [step]. unfold op_discard. rewrite Hx, Hr. unfold delete_phase.
  rewrite send_hit_lostpool_write by reflexivity. reflexivity.
Qed.
Lemma lostpool_get c w i : step c (Some (0, FLostPool)) w (GetId i) = step c None w (GetId i).
Proof. cbn [step]. unfold op_get, get_doc. now rewrite send_lostpool_read by reflexivity. Qed.

(* calls on a nested element are the calls on its Identifiable *)
Definition norm (o : op) : op :=
  match o with CommitChild x => Commit x | UpdateChild x => Update x | o => o end.
Definition base_op (o : op) : Prop := match o with CommitChild _ | UpdateChild _ => False | _ => True end.
Lemma step_norm c f w o : step c f w o = step c f w (norm o).
Proof. destruct o; reflexivity. Qed.

Lemma fault_total_base c w o k ft : fault_ok ft -> base_op o ->
  let r := step c (Some (k, ft)) w o in
  k < sent_of r ->
  w_sv (world_of r) = w_sv w /\ faulted_outcome o ft (outcome_of r).
Proof.
  intros Hok Hb. destruct o; cbn [step]; unfold sent_of, world_of, outcome_of.
  - (* add *) unfold op_add. destruct (nth_error (heap (w_cl w)) x) as [ce|]; [|cbn; lia].
    destruct k; [|destruct (send c _ 0 _ _) as [? ?]; destruct (do_request PUT n) as [?|rp];
                  [cbn; lia|destruct (reply_rev rp); cbn; lia]].
    rewrite (send_hit _ _ _ _ _ Hok); cbn [rq_meth]; rewrite (do_request_fault PUT ft Hok). intros _.
    destruct ft as [code| |[]|[]| |]; try (exfalso; exact Hok); cbn; (split; [reflexivity|]); fin.
  - (* get *) unfold op_get. pose proof (get_doc_sv c (Some (k, ft)) 0 w i) as Hsv.
    destruct k.
    + destruct (get_doc_fault c 0 ft w i Hok) as (e & He & Hd).
      destruct (get_doc c (Some (0, ft)) 0 w i) as [w' [e'|y]]; cbn in He; [|discriminate].
      injection He as ->. intros _. cbn in *. split; [exact Hsv|apply Hd].
    + destruct (get_doc c (Some (S k, ft)) 0 w i) as [w' [e'|y]]; cbn; lia.
  - (* modify *) destruct (nth_error (heap (w_cl w)) x); cbn; lia.
  - (* commit *) unfold op_commit. destruct (nth_error (heap (w_cl w)) x) as [ce|]; [|cbn; lia].
    destruct (String.eqb (c_src ce) ""); [cbn; lia|].
    destruct (parse_source (c_src ce)) as [url|]; [|cbn; lia].
    destruct (sassoc url (revs (w_cl w))) as [r|]; [|cbn; lia].
    destruct k; [|destruct (send c _ 0 _ _) as [? ?]; destruct (do_request PUT n) as [?|rp];
                  [cbn; lia|destruct (reply_rev rp); cbn; lia]].
    rewrite (send_hit _ _ _ _ _ Hok); cbn [rq_meth]; rewrite (do_request_fault PUT ft Hok). intros _.
    destruct ft as [code| |[]|[]| |]; try (exfalso; exact Hok); cbn; (split; [reflexivity|]); fin.
  - (* update *) unfold op_update. destruct (nth_error (heap (w_cl w)) x) as [ce|]; [|cbn; lia].
    destruct (String.eqb (c_src ce) ""); [cbn; lia|].
    destruct (parse_source (c_src ce)) as [url|]; [|cbn; lia].
    destruct k; [|destruct (send c _ 0 _ _) as [? ?]; destruct (do_request GET n) as [?|[?|p]];
                  [cbn; lia|cbn; lia|destruct p; cbn; lia]].
    rewrite (send_hit _ _ _ _ _ Hok); cbn [rq_meth]; rewrite (do_request_fault GET ft Hok). intros _.
    destruct ft as [code| |[]|[]| |]; try (exfalso; exact Hok); cbn; (split; [reflexivity|]); fin.
  - (* discard *) unfold op_discard. destruct (nth_error (heap (w_cl w)) x) as [ce|]; [|cbn; lia].
    assert (Hdel : forall n w0, w_sv w0 = w_sv w -> k = n ->
              let r := delete_phase c (Some (k, ft)) n w0 x (c_id ce) (doc_url c (c_id ce)) in
              forall rv, w_sv (fst (fst (r rv))) = w_sv w /\ faulted_outcome (Discard x safe) ft (snd (fst (r rv)))).
    { intros n w0 Hw0 <- r rv. subst r. unfold delete_phase. rewrite (send_hit _ _ _ _ _ Hok); cbn [rq_meth]; rewrite (do_request_fault DELETE ft Hok).
      destruct ft as [code| |[]|[]| |]; try (exfalso; exact Hok); cbn; (split; [exact Hw0|]); fin. }
    assert (Hdel_sent : forall n w0 rv, snd (delete_phase c (Some (k, ft)) n w0 x (c_id ce) (doc_url c (c_id ce)) rv) = S n).
    { intros n w0 rv. unfold delete_phase. destruct (send c _ n _ _) as [? nr]. now destruct (do_request DELETE nr). }
    destruct (sassoc (doc_url c (c_id ce)) (revs (w_cl w))) as [r|] eqn:Er; destruct safe.
    + rewrite Hdel_sent. intros Hk. assert (k = 0) by lia. now apply Hdel.
    + destruct k.
      * rewrite (send_hit _ _ _ _ _ Hok); cbn [rq_meth]; rewrite (do_request_fault HEAD ft Hok). intros _.
        destruct ft as [code| |[]|[]| |]; try (exfalso; exact Hok); cbn; (split; [reflexivity|]); fin.
      * rewrite send_miss by lia.
        pose proof (serve_readonly c (w_sv w) (mkReq HEAD (doc_url c (c_id ce)) None None) (or_intror eq_refl)) as Hro.
        rewrite Hro. destruct (do_request HEAD _) as [e|[[r'|]|p]]; try (cbn; lia).
        rewrite Hdel_sent. intros Hk. assert (S k = 1) by lia. now apply Hdel.
    + cbn. lia.
    + destruct k.
      * rewrite (send_hit _ _ _ _ _ Hok); cbn [rq_meth]; rewrite (do_request_fault HEAD ft Hok). intros _.
        destruct ft as [code| |[]|[]| |]; try (exfalso; exact Hok); cbn; (split; [reflexivity|]); fin.
      * rewrite send_miss by lia.
        pose proof (serve_readonly c (w_sv w) (mkReq HEAD (doc_url c (c_id ce)) None None) (or_intror eq_refl)) as Hro.
        rewrite Hro. destruct (do_request HEAD _) as [e|[[r'|]|p]]; try (cbn; lia).
        rewrite Hdel_sent. intros Hk. assert (S k = 1) by lia. now apply Hdel.
  - (* contains id *) unfold op_contains.
    destruct k; [|destruct (send c _ 0 _ _) as [? nr]; destruct (do_request HEAD nr) as [e|?];
                  [destruct (is_code e 404)|]; cbn; lia].
    rewrite (send_hit _ _ _ _ _ Hok); cbn [rq_meth]; rewrite (do_request_fault HEAD ft Hok). intros _.
    destruct ft as [code| |[]|[]| |]; try (exfalso; exact Hok); cbn; try (split; [reflexivity|]; try exact I).
    + destruct (Nat.eqb_spec code 404) as [->|]; cbn; (split; [reflexivity|]); [|exact I].
      split; [exact I|]. left. auto.
    + split; [exact I|]. right. auto.
  - (* contains obj *) destruct (nth_error (heap (w_cl w)) x) as [ce|]; [|cbn; lia]. unfold op_contains.
    destruct k; [|destruct (send c _ 0 _ _) as [? nr]; destruct (do_request HEAD nr) as [e|?];
                  [destruct (is_code e 404)|]; cbn; lia].
    rewrite (send_hit _ _ _ _ _ Hok); cbn [rq_meth]; rewrite (do_request_fault HEAD ft Hok). intros _.
    destruct ft as [code| |[]|[]| |]; try (exfalso; exact Hok); cbn; try (split; [reflexivity|]; try exact I).
    + destruct (Nat.eqb_spec code 404) as [->|]; cbn; (split; [reflexivity|]); [|exact I].
      split; [exact I|]. left. auto.
    + split; [exact I|]. right. auto.
  - (* len *) unfold op_len.
    destruct k; [|destruct (send c _ 0 _ _) as [? nr]; destruct (do_request GET nr) as [e|[?|p]];
                  [cbn; lia|cbn; lia|destruct p; cbn; lia]].
    rewrite (send_hit _ _ _ _ _ Hok); cbn [rq_meth]; rewrite (do_request_fault GET ft Hok). intros _.
    destruct ft as [code| |[]|[]| |]; try (exfalso; exact Hok); cbn; (split; [reflexivity|]); fin.
  - (* iter *) unfold op_iter. destruct k.
    + rewrite (send_hit _ _ _ _ _ Hok); cbn [rq_meth]; rewrite (do_request_fault GET ft Hok). intros _.
      destruct ft as [code| |[]|[]| |]; try (exfalso; exact Hok); cbn; (split; [reflexivity|]); fin.
    + rewrite send_miss by lia.
      pose proof (serve_readonly c (w_sv w) (mkReq GET (base_url c ++ "/_all_docs") None None) (or_introl eq_refl)) as Hro.
      rewrite Hro. destruct (do_request GET _) as [e|[?|p]]; try (cbn; lia).
      destruct p; try (cbn; lia).
      destruct (fetch_all_fault c (S k) ft Hok ids 1 (mkWorld (w_sv w) (w_cl w)) [] ltac:(lia)) as [H1 H2].
      unfold world_of, outcome_of, sent_of in *.
      destruct (fetch_all c (Some (S k, ft)) 1 (mkWorld (w_sv w) (w_cl w)) ids []) as [[w' out] n'].
      cbn [fst snd] in *. intros Hk.
      assert (Hk' : S k < n') by (destruct out; exact Hk).
      destruct (H2 Hk') as (e & -> & Hd). cbn [fst snd w_sv]. split; [exact H1|apply Hd].
  - (* ext put *) cbn. lia.
  - (* ext del *) cbn. lia.
  - destruct Hb.
  - destruct Hb.
Qed.

Lemma fault_total c w o k ft : fault_ok ft ->
  let r := step c (Some (k, ft)) w o in
  k < sent_of r ->
  w_sv (world_of r) = w_sv w /\ faulted_outcome o ft (outcome_of r).
Proof.
  intros Hok. destruct o;
    match goal with |- context [step _ _ _ ?o'] => first [exact (fault_total_base c w o' k ft Hok I)|idtac] end.
  - exact (fault_total_base c w (Update x) k ft Hok I).
  - exact (fault_total_base c w (Commit x) k ft Hok I).
Qed.

(* ---------- the store as a map (no second actor, no faults) ------------------------------------------ *)

Definition cellw (w : world) (x : nat) : option cell := nth_error (heap (w_cl w)) x.
(* the abstraction: identifier -> payload of the live server document *)
Definition absmap (w : world) (i : ident) : option val := option_map snd (live (w_sv w) i).

Record Inv (c : cfg) (w : world) : Prop := mkInv {
  inv_keys : forall i d, sget (w_sv w) i = Some d -> legal i = true;
  inv_nodup : NoDup (map fst (w_sv w));
  inv_cells : forall x ce, cellw w x = Some ce ->
      legal (c_id ce) = true /\ (c_src ce = "" \/ c_src ce = generate_source c (c_id ce));
  inv_revs : forall i, legal i = true ->
      sassoc (doc_url c i) (revs (w_cl w)) = option_map fst (live (w_sv w) i);
  inv_cache : forall i x, sassoc i (cache (w_cl w)) = Some x -> exists ce, cellw w x = Some ce /\ c_id ce = i
}.

Lemma doc_url_inj c i j : doc_url c i = doc_url c j -> i = j.
Proof.
  unfold doc_url. intros H. apply append_inv_head in H. cbn in H. injection H as H. now apply transform_inj.
Qed.

Lemma aset_keys_nodup {B} k (v : B) l : NoDup (map fst l) -> NoDup (map fst (aset k v l)).
Proof.
  induction l as [|[k' v'] r IH]; cbn; intros H.
  - constructor; [tauto|constructor].
  - inversion H as [|? ? Hni Hnd]; subst. destruct (String.eqb_spec k k') as [->|Hne]; cbn.
    + now constructor.
    + constructor; [|auto]. intros Hin. apply Hni. clear -Hin Hne.
      induction r as [|[k2 v2] r IH]; cbn in *; [destruct Hin; [congruence|tauto]|].
      destruct (String.eqb_spec k k2) as [->|]; cbn in *; [exact Hin|]. destruct Hin; [auto|right; auto].
Qed.
Lemma sassoc_In' {B} k (l : list (string * B)) x : sassoc k l = Some x -> In (k, x) l.
Proof.
  induction l as [|[k' v'] r IH]; cbn; [discriminate|].
  destruct (String.eqb_spec k k') as [->|]; intros H; [injection H as ->; now left|right; auto].
Qed.
Lemma In_sassoc' {B} k (l : list (string * B)) x : NoDup (map fst l) -> In (k, x) l -> sassoc k l = Some x.
Proof.
  induction l as [|[k' v'] r IH]; cbn; [tauto|].
  intros Hnd [E|Hin]; inversion Hnd as [|? ? Hni Hnd']; subst.
  - injection E as -> ->. now rewrite String.eqb_refl.
  - destruct (String.eqb_spec k k') as [->|]; [|auto].
    exfalso. apply Hni. apply in_map_iff. now exists (k', x).
Qed.

Lemma live_ids_nodup sv : NoDup (map fst sv) -> NoDup (live_ids sv).
Proof.
  unfold live_ids. induction sv as [|[k d] r IH]; cbn; intros H; [constructor|].
  inversion H as [|? ? Hni Hnd]; subst. destruct (is_live (k, d)); cbn; [|auto].
  constructor; [|auto]. intros Hin. apply Hni. apply in_map_iff in Hin. destruct Hin as [[k2 d2] [E Hin]].
  cbn in E. subst k2. apply filter_In in Hin. apply in_map_iff. exists (k, d2). tauto.
Qed.
Lemma live_ids_spec sv i : NoDup (map fst sv) -> (In i (live_ids sv) <-> live sv i <> None).
Proof.
  intros Hnd. unfold live_ids, live, sget. split.
  - intros Hin. apply in_map_iff in Hin. destruct Hin as [[k d] [E Hin]]. cbn in E. subst k.
    apply filter_In in Hin. destruct Hin as [Hin Hl]. rewrite (In_sassoc' i sv d Hnd Hin).
    destruct d as [r [v|]]; [discriminate|discriminate Hl].
  - intros H. destruct (sassoc i sv) as [[r [v|]]|] eqn:E; try congruence.
    apply sassoc_In' in E. apply in_map_iff. exists (i, mkDoc r (Some v)). split; [reflexivity|].
    apply filter_In. split; [exact E|reflexivity].
Qed.

Lemma insert_sorted_perm x l : Permutation (insert_sorted x l) (x :: l).
Proof.
  induction l as [|y r IH]; cbn; [reflexivity|]. destruct (String.leb x y); [reflexivity|].
  rewrite IH. apply perm_swap.
Qed.
Lemma isort_perm l : Permutation (isort l) l.
Proof. induction l as [|x r IH]; cbn; [constructor|]. rewrite insert_sorted_perm. now constructor. Qed.

Lemma Inv_init c pool : Forall (fun p => legal (fst p) = true) pool -> Inv c (init pool).
Proof.
  intros Hp. constructor; cbn.
  - discriminate.
  - constructor.
  - intros x ce H. unfold cellw in H. cbn in H. apply nth_error_In in H. apply in_map_iff in H.
    destruct H as [p [<- Hin]]. cbn. rewrite Forall_forall in Hp. split; [now apply Hp|now left].
  - reflexivity.
  - discriminate.
Qed.

(* cells keep their id under the heap updates the client performs *)
Lemma cellw_upd_same w x f ce sv' rv' ca' :
  cellw w x = Some ce ->
  cellw (mkWorld sv' (mkClient (upd_cell (heap (w_cl w)) x f) rv' ca')) x = Some (f ce).
Proof. unfold cellw. cbn. apply nth_upd_same. Qed.
Lemma cellw_upd_other w x y f sv' rv' ca' : x <> y ->
  cellw (mkWorld sv' (mkClient (upd_cell (heap (w_cl w)) x f) rv' ca')) y = cellw w y.
Proof. unfold cellw. cbn. apply nth_upd_other. Qed.

(* a heap update at x by an id-preserving function that keeps (or correctly sets) the source *)
Lemma Inv_cells_upd c w x f sv' rv' ca' :
  (forall y ce, cellw w y = Some ce ->
      legal (c_id ce) = true /\ (c_src ce = "" \/ c_src ce = generate_source c (c_id ce))) ->
  (forall ce, cellw w x = Some ce -> c_id (f ce) = c_id ce /\
      (c_src (f ce) = "" \/ c_src (f ce) = generate_source c (c_id ce))) ->
  forall y ce, cellw (mkWorld sv' (mkClient (upd_cell (heap (w_cl w)) x f) rv' ca')) y = Some ce ->
      legal (c_id ce) = true /\ (c_src ce = "" \/ c_src ce = generate_source c (c_id ce)).
Proof.
  intros Hc Hf y ce H. destruct (Nat.eq_dec x y) as [<-|Hne].
  - destruct (cellw w x) as [ce0|] eqn:E.
    + rewrite (cellw_upd_same w x f ce0 sv' rv' ca' E) in H. injection H as <-.
      destruct (Hf ce0 eq_refl) as [Hid Hs]. rewrite Hid. split; [now apply (Hc x ce0)|exact Hs].
    + unfold cellw in *. cbn in H. exfalso. apply nth_error_None in E.
      assert (nth_error (upd_cell (heap (w_cl w)) x f) x = None) by (apply nth_error_None; now rewrite upd_length).
      congruence.
  - rewrite cellw_upd_other in H by exact Hne. now apply (Hc y).
Qed.
Lemma Inv_cache_upd w x f sv' rv' ca' :
  (forall ce, cellw w x = Some ce -> c_id (f ce) = c_id ce) ->
  (forall i y, sassoc i ca' = Some y -> exists ce, cellw w y = Some ce /\ c_id ce = i) ->
  forall i y, sassoc i ca' = Some y ->
    exists ce, cellw (mkWorld sv' (mkClient (upd_cell (heap (w_cl w)) x f) rv' ca')) y = Some ce /\ c_id ce = i.
Proof.
  intros Hf Hc i y H. destruct (Hc i y H) as (ce & Hy & Hi). destruct (Nat.eq_dec x y) as [<-|Hne].
  - exists (f ce). split; [now apply cellw_upd_same|]. now rewrite (Hf ce Hy).
  - exists ce. split; [now rewrite cellw_upd_other|exact Hi].
Qed.

Lemma revs_aset c i r rv j sv' :
  legal j = true ->
  (live sv' i = Some r) ->
  (i <> j -> sassoc (doc_url c j) rv = option_map fst (live sv' j)) ->
  sassoc (doc_url c j) (aset (doc_url c i) (fst r) rv) = option_map fst (live sv' j).
Proof.
  intros Hl Hi Hj. destruct (String.eqb_spec i j) as [->|Hne].
  - rewrite aset_same, Hi. reflexivity.
  - rewrite aset_other; [now apply Hj|]. intros E. apply Hne. now apply doc_url_inj in E.
Qed.

Lemma sget_aset_keys sv i d j d' : sget (aset i d sv) j = Some d' -> j = i \/ sget sv j = Some d'.
Proof.
  unfold sget. destruct (String.eqb_spec i j) as [->|Hne]; [now left|]. rewrite aset_other by exact Hne. now right.
Qed.

(* ---- add *)
Lemma add_eq c w x ce : cellw w x = Some ce -> legal (c_id ce) = true ->
  step c None w (Add x) =
  match live (w_sv w) (c_id ce) with
  | Some _ => (w, OErr XKey, 1)
  | None =>
    let r := match sget (w_sv w) (c_id ce) with Some d => S (d_rev d) | None => 1 end in
    (mkWorld (aset (c_id ce) (mkDoc r (Some (c_val ce))) (w_sv w))
             (mkClient (upd_cell (heap (w_cl w)) x (set_src (generate_source c (c_id ce))))
                       (aset (doc_url c (c_id ce)) r (revs (w_cl w))) (aset (c_id ce) x (cache (w_cl w)))),
     ODone, 1)
  end.
Proof.
  intros Hx Hl. unfold cellw in Hx. cbn [step]. unfold op_add, send. rewrite Hx, (serve_put c _ _ None _ Hl).
  unfold live. destruct (sget (w_sv w) (c_id ce)) as [[r [v|]]|]; cbn; rewrite ?world_eta; reflexivity.
Qed.

Lemma Inv_write c w x ce r f :
  Inv c w -> cellw w x = Some ce ->
  c_id (f ce) = c_id ce ->
  (c_src (f ce) = c_src ce \/ c_src (f ce) = generate_source c (c_id ce)) ->
  forall ca', (ca' = cache (w_cl w) \/ ca' = aset (c_id ce) x (cache (w_cl w))) ->
  Inv c (mkWorld (aset (c_id ce) (mkDoc r (Some (c_val ce))) (w_sv w))
                 (mkClient (upd_cell (heap (w_cl w)) x f)
                           (aset (doc_url c (c_id ce)) r (revs (w_cl w))) ca')).
Proof.
  intros HI Hx Hfid Hfsrc ca' Hca. destruct (inv_cells c w HI x ce Hx) as [Hl _]. constructor; cbn [w_sv w_cl revs cache].
  - intros i d H. apply sget_aset_keys in H. destruct H as [->|H]; [exact Hl|now apply (inv_keys c w HI i d)].
  - apply aset_keys_nodup. apply (inv_nodup c w HI).
  - apply Inv_cells_upd; [apply (inv_cells c w HI)|]. intros ce0 H0. rewrite Hx in H0. injection H0 as <-.
    split; [apply Hfid|]. destruct Hfsrc as [E|E]; rewrite E; [|now right]. now apply (inv_cells c w HI x ce).
  - intros j Hj. change r with (fst (r, c_val ce)). apply revs_aset; [exact Hj|apply live_aset_same|].
    intros Hne. rewrite live_aset_other by exact Hne. now apply (inv_revs c w HI).
  - apply Inv_cache_upd; [intros ce0 H0; rewrite Hx in H0; injection H0 as <-; apply Hfid|].
    intros i y H. destruct Hca as [-> | ->].
    + now apply (inv_cache c w HI).
    + destruct (String.eqb_spec (c_id ce) i) as [<-|Hne].
      * rewrite aset_same in H. injection H as <-. now exists ce.
      * rewrite aset_other in H by exact Hne. now apply (inv_cache c w HI).
Qed.

Lemma absmap_aset_same w i r v cl' : absmap (mkWorld (aset i (mkDoc r (Some v)) (w_sv w)) cl') i = Some v.
Proof. unfold absmap. cbn. now rewrite live_aset_same. Qed.
Lemma absmap_aset_other w i d j cl' : i <> j -> absmap (mkWorld (aset i d (w_sv w)) cl') j = absmap w j.
Proof. intros H. unfold absmap. cbn. now rewrite live_aset_other. Qed.
Lemma absmap_aset_deleted w i r cl' : absmap (mkWorld (aset i (mkDoc r None) (w_sv w)) cl') i = None.
Proof. unfold absmap. cbn. now rewrite live_aset_deleted. Qed.

Lemma add_ok c w x ce : Inv c w -> cellw w x = Some ce ->
  let r := step c None w (Add x) in
  Inv c (world_of r) /\
  match absmap w (c_id ce) with
  | Some _ => outcome_of r = OErr XKey /\ world_of r = w
  | None => outcome_of r = ODone /\ absmap (world_of r) (c_id ce) = Some (c_val ce) /\
            forall j, j <> c_id ce -> absmap (world_of r) j = absmap w j
  end.
Proof.
  intros HI Hx. destruct (inv_cells c w HI x ce Hx) as [Hl _]. cbn zeta. rewrite (add_eq c w x ce Hx Hl).
  unfold absmap at 1. destruct (live (w_sv w) (c_id ce)) as [[r v]|]; cbn [option_map world_of outcome_of fst snd].
  - auto.
  - split; [|split; [reflexivity|split]].
    + apply Inv_write; auto.
    + apply absmap_aset_same.
    + intros j Hj. apply absmap_aset_other. congruence.
Qed.

(* ---- get / iteration *)
Lemma get_doc_spec c n w i r v : Inv c w -> legal i = true -> live (w_sv w) i = Some (r, v) ->
  exists w' y, get_doc c None n w i = (w', inr y) /\ w_sv w' = w_sv w /\ Inv c w' /\
    cellw w' y = Some (mkCell i v (generate_source c i)) /\
    (forall z ce, cellw w z = Some ce -> c_id ce <> i -> cellw w' z = Some ce).
Proof.
  intros HI Hl Hv. unfold get_doc, send.
  rewrite (serve_read c (w_sv w) i GET None None Hl (or_introl eq_refl)), Hv. cbn [do_request fst snd]. cbn.
  assert (Hrevs : forall j, legal j = true ->
            sassoc (doc_url c j) (aset (doc_url c i) r (revs (w_cl w))) = option_map fst (live (w_sv w) j)).
  { intros j Hj. change r with (fst (r, v)). apply revs_aset; [exact Hj|exact Hv|]. intros _. now apply (inv_revs c w HI). }
  assert (Hfresh : exists w' y,
     (mkWorld (w_sv w) (mkClient (heap (w_cl w) ++ [mkCell i v (generate_source c i)])%list
                                 (aset (doc_url c i) r (revs (w_cl w)))
                                 (aset i (List.length (heap (w_cl w))) (cache (w_cl w)))),
      @inr exn nat (List.length (heap (w_cl w)))) = (w', inr y) /\ w_sv w' = w_sv w /\ Inv c w' /\
     cellw w' y = Some (mkCell i v (generate_source c i)) /\
     (forall z ce, cellw w z = Some ce -> c_id ce <> i -> cellw w' z = Some ce)).
  { eexists; eexists. split; [reflexivity|]. split; [reflexivity|].
    assert (Hold : forall z ce, cellw w z = Some ce ->
              cellw (mkWorld (w_sv w) (mkClient (heap (w_cl w) ++ [mkCell i v (generate_source c i)])%list
                      (aset (doc_url c i) r (revs (w_cl w))) (aset i (List.length (heap (w_cl w))) (cache (w_cl w))))) z = Some ce).
    { intros z ce Hz. unfold cellw in *. cbn. rewrite nth_error_app1; [exact Hz|]. apply nth_error_Some. congruence. }
    assert (Hnew : cellw (mkWorld (w_sv w) (mkClient (heap (w_cl w) ++ [mkCell i v (generate_source c i)])%list
                      (aset (doc_url c i) r (revs (w_cl w))) (aset i (List.length (heap (w_cl w))) (cache (w_cl w)))))
                     (List.length (heap (w_cl w))) = Some (mkCell i v (generate_source c i))).
    { unfold cellw. cbn. rewrite nth_error_app2 by lia. now rewrite Nat.sub_diag. }
    split; [|split; [exact Hnew|intros z ce Hz _; now apply Hold]].
    constructor; cbn [w_sv w_cl revs cache].
    - apply (inv_keys c w HI).
    - apply (inv_nodup c w HI).
    - intros z ce Hz. unfold cellw in Hz. cbn in Hz.
      destruct (Nat.lt_ge_cases z (List.length (heap (w_cl w)))) as [Hlt|Hge].
      + rewrite nth_error_app1 in Hz by exact Hlt. now apply (inv_cells c w HI z).
      + rewrite nth_error_app2 in Hz by exact Hge. destruct (z - List.length (heap (w_cl w))) as [|k]; cbn in Hz.
        * injection Hz as <-. cbn. split; [exact Hl|now right].
        * destruct k; discriminate.
    - exact Hrevs.
    - intros j y H. destruct (String.eqb_spec i j) as [<-|Hne].
      + rewrite aset_same in H. injection H as <-. eexists. split; [exact Hnew|reflexivity].
      + rewrite aset_other in H by exact Hne. destruct (inv_cache c w HI j y H) as (ce & Hy & Hi).
        exists ce. split; [now apply Hold|exact Hi]. }
  destruct (sassoc i (cache (w_cl w))) as [old|] eqn:Ec; [|exact Hfresh].
  destruct (nth_error (heap (w_cl w)) old) as [oc|] eqn:Eo; [|exact Hfresh].
  destruct (String.eqb_spec (c_src oc) (generate_source c i)) as [Es|_]; [|exact Hfresh].
  destruct (inv_cache c w HI i old Ec) as (ce0 & Hc0 & Hid0). unfold cellw in Hc0. rewrite Eo in Hc0. injection Hc0 as <-.
  eexists; eexists. split; [reflexivity|]. split; [reflexivity|].
  set (f := fun ce : cell => mkCell i v (c_src ce)).
  split; [|split].
  - constructor; cbn [w_sv w_cl revs cache].
    + apply (inv_keys c w HI).
    + apply (inv_nodup c w HI).
    + apply Inv_cells_upd; [apply (inv_cells c w HI)|]. intros ce1 H1. unfold cellw in H1. rewrite Eo in H1.
      injection H1 as <-. cbn. split; [now rewrite Hid0|]. right. now rewrite Hid0.
    + exact Hrevs.
    + apply Inv_cache_upd; [|apply (inv_cache c w HI)]. intros ce1 H1. unfold cellw in H1. rewrite Eo in H1.
      injection H1 as <-. cbn. now rewrite Hid0.
  - rewrite (cellw_upd_same w old f oc); [|exact Eo]. unfold f. now rewrite Es.
  - intros z ce Hz Hne. destruct (Nat.eq_dec old z) as [<-|Hoz].
    + unfold cellw in Hz. rewrite Eo in Hz. injection Hz as <-. congruence.
    + now rewrite cellw_upd_other.
Qed.

Lemma get_doc_missing c n w i : legal i = true -> live (w_sv w) i = None ->
  get_doc c None n w i = (w, inl XKey).
Proof.
  intros Hl Hv. unfold get_doc, send.
  rewrite (serve_read c (w_sv w) i GET None None Hl (or_introl eq_refl)), Hv. cbn. now rewrite world_eta.
Qed.

Lemma get_ok c w i : Inv c w -> legal i = true ->
  let r := step c None w (GetId i) in
  Inv c (world_of r) /\ (forall j, absmap (world_of r) j = absmap w j) /\
  match absmap w i with
  | None => outcome_of r = OErr XKey
  | Some v => exists y ce, outcome_of r = OCell y /\ cellw (world_of r) y = Some ce /\ c_id ce = i /\ c_val ce = v
  end.
Proof.
  intros HI Hl. cbn zeta. cbn [step]. unfold op_get, absmap at 3.
  destruct (live (w_sv w) i) as [[r v]|] eqn:Ev; cbn [option_map snd].
  - destruct (get_doc_spec c 0 w i r v HI Hl Ev) as (w' & y & E & Hsv & HI' & Hy & _). rewrite E.
    cbn [world_of outcome_of fst snd]. split; [exact HI'|]. split; [intros j; unfold absmap; now rewrite Hsv|].
    eexists; eexists. split; [reflexivity|]. split; [exact Hy|]. split; reflexivity.
  - rewrite (get_doc_missing c 0 w i Hl Ev). cbn. auto.
Qed.

Lemma Forall2_weaken {A B} (P Q : A -> B -> Prop) l1 l2 :
  (forall a b, P a b -> Q a b) -> Forall2 P l1 l2 -> Forall2 Q l1 l2.
Proof. intros H F. induction F; constructor; auto. Qed.

(* the rows of _all_docs are fetched one by one; cells returned earlier are not disturbed by later fetches *)
Lemma fetch_all_spec c : forall ids n w acc,
  Inv c w -> NoDup ids -> (forall i, In i ids -> legal i = true /\ live (w_sv w) i <> None) ->
  exists w' l, fetch_all c None n w ids acc = (w', OCells (List.rev acc ++ l)%list, n + List.length ids) /\
    w_sv w' = w_sv w /\ Inv c w' /\
    Forall2 (fun y i => exists ce, cellw w' y = Some ce /\ c_id ce = i /\ absmap w i = Some (c_val ce)) l ids /\
    (forall z ce, cellw w z = Some ce -> ~ In (c_id ce) ids -> cellw w' z = Some ce).
Proof.
  induction ids as [|i rest IH]; intros n w acc HI Hnd Hids; cbn [fetch_all].
  - exists w, []. rewrite app_nil_r, Nat.add_0_r. split; [reflexivity|]. split; [reflexivity|].
    split; [exact HI|]. split; [constructor|]. intros z ce Hz _. exact Hz.
  - inversion Hnd as [|? ? Hni Hnd']; subst. destruct (Hids i (or_introl eq_refl)) as [Hl Hlive].
    destruct (live (w_sv w) i) as [[r v]|] eqn:Ev; [|congruence].
    destruct (get_doc_spec c n w i r v HI Hl Ev) as (w1 & y & E & Hsv1 & HI1 & Hy & Hkeep1). rewrite E.
    destruct (IH (S n) w1 (y :: acc) HI1 Hnd') as (w' & l & E' & Hsv' & HI' & Hall & Hkeep').
    { intros j Hj. rewrite Hsv1. apply Hids. now right. }
    exists w', (y :: l). split; [|split; [congruence|split; [exact HI'|split]]].
    + rewrite E'. cbn [List.rev List.length]. rewrite <- app_assoc. cbn [app]. rewrite Nat.add_succ_r. reflexivity.
    + constructor.
      * exists (mkCell i v (generate_source c i)). split; [|split; [reflexivity|]].
        -- apply Hkeep'; [exact Hy|exact Hni].
        -- unfold absmap. now rewrite Ev.
      * eapply Forall2_weaken; [|exact Hall]. intros a b (ce & H1 & H2 & H3). exists ce. repeat split; auto.
        unfold absmap in *. now rewrite <- Hsv1.
    + intros z ce Hz Hnin. apply Hkeep'.
      * apply Hkeep1; [exact Hz|]. intros Eq. apply Hnin. now left.
      * intros Hin. apply Hnin. now right.
Qed.

(* ---- commit / update / discard / membership / length / iteration *)
Lemma upd_cell_id h : forall x, upd_cell h x (fun ce => ce) = h.
Proof. induction h as [|a r IH]; intros [|x]; cbn; try reflexivity. now rewrite IH. Qed.
Lemma live_sget sv i r v : live sv i = Some (r, v) -> sget sv i = Some (mkDoc r (Some v)).
Proof. unfold live. destruct (sget sv i) as [[r' [v'|]]|]; try discriminate. now intros [= -> ->]. Qed.
Lemma client_eta cl : mkClient (heap cl) (revs cl) (cache cl) = cl.
Proof. now destruct cl. Qed.

Lemma commit_ok c w x ce : Inv c w -> cellw w x = Some ce ->
  let r := step c None w (Commit x) in
  Inv c (world_of r) /\
  (if String.eqb (c_src ce) "" then outcome_of r = ODone /\ world_of r = w
   else match absmap w (c_id ce) with
        | Some _ => outcome_of r = ODone /\ absmap (world_of r) (c_id ce) = Some (c_val ce) /\
                    forall j, j <> c_id ce -> absmap (world_of r) j = absmap w j
        | None => outcome_of r = OErr XConflict /\ world_of r = w
        end).
Proof.
  intros HI Hx. destruct (inv_cells c w HI x ce Hx) as [Hl Hs]. cbn zeta.
  destruct (String.eqb_spec (c_src ce) "") as [Es|Hne].
  - cbn [step]. unfold op_commit. unfold cellw in Hx. rewrite Hx, Es. cbn. auto.
  - destruct Hs as [Hs|Hs]; [contradiction|].
    pose proof (inv_revs c w HI (c_id ce) Hl) as Hr. unfold absmap.
    destruct (live (w_sv w) (c_id ce)) as [[r v0]|] eqn:Ev; cbn [option_map fst snd] in *.
    + rewrite (commit_fresh c w x ce (c_id ce) r v0 Hx Hs Hl Hr (live_sget _ _ _ _ Ev)).
      cbn [world_of outcome_of fst snd]. split; [|split; [reflexivity|split]].
      * rewrite <- (upd_cell_id (heap (w_cl w)) x). apply Inv_write; auto.
      * cbn. now rewrite live_aset_same.
      * intros j Hj. cbn. rewrite live_aset_other by congruence. reflexivity.
    + cbn [step]. unfold op_commit. unfold cellw in Hx. rewrite Hx, Hs, source_nonempty, source_roundtrip, Hr. cbn. auto.
Qed.

Lemma update_ok c w x ce : Inv c w -> cellw w x = Some ce ->
  let r := step c None w (Update x) in
  Inv c (world_of r) /\ (forall j, absmap (world_of r) j = absmap w j) /\
  (if String.eqb (c_src ce) "" then outcome_of r = ODone /\ world_of r = w
   else match absmap w (c_id ce) with
        | Some v => outcome_of r = ODone /\
                    cellw (world_of r) x = Some (mkCell (c_id ce) v (c_src ce))
        | None => outcome_of r = OErr XKey /\ world_of r = w
        end).
Proof.
  intros HI Hx. destruct (inv_cells c w HI x ce Hx) as [Hl Hs]. cbn zeta.
  destruct (String.eqb_spec (c_src ce) "") as [Es|Hne].
  - cbn [step]. unfold op_update. unfold cellw in Hx. rewrite Hx, Es. cbn. auto.
  - destruct Hs as [Hs|Hs]; [contradiction|]. cbn [step]. unfold op_update, send. pose proof Hx as Hx'. unfold cellw in Hx'.
    rewrite Hx', Hs, source_nonempty, source_roundtrip.
    rewrite (serve_read c (w_sv w) (c_id ce) GET None None Hl (or_introl eq_refl)). unfold absmap.
    destruct (live (w_sv w) (c_id ce)) as [[r v]|] eqn:Ev; cbn [option_map snd do_request].
    + cbn. split; [|split; [reflexivity|split; [reflexivity|]]].
      * constructor; cbn [w_sv w_cl revs cache].
        -- apply (inv_keys c w HI).
        -- apply (inv_nodup c w HI).
        -- apply Inv_cells_upd; [apply (inv_cells c w HI)|]. intros ce0 H0. rewrite Hx in H0. injection H0 as <-.
           cbn. split; [reflexivity|]. now right.
        -- intros j Hj. change r with (fst (r, v)). apply revs_aset; [exact Hj|exact Ev|]. intros _. now apply (inv_revs c w HI).
        -- apply Inv_cache_upd; [|apply (inv_cache c w HI)]. intros ce0 H0. rewrite Hx in H0. now injection H0 as <-.
      * rewrite (cellw_upd_same w x _ ce); [|exact Hx]. now rewrite <- Hs.
    + cbn. rewrite world_eta. auto.
Qed.

Lemma Inv_delete c w x ce r :
  Inv c w -> cellw w x = Some ce ->
  Inv c (mkWorld (aset (c_id ce) (mkDoc r None) (w_sv w))
                 (mkClient (upd_cell (heap (w_cl w)) x (set_src ""))
                           (sremove (doc_url c (c_id ce)) (revs (w_cl w))) (sremove (c_id ce) (cache (w_cl w))))).
Proof.
  intros HI Hx. destruct (inv_cells c w HI x ce Hx) as [Hl _]. constructor; cbn [w_sv w_cl revs cache].
  - intros i d H. apply sget_aset_keys in H. destruct H as [->|H]; [exact Hl|now apply (inv_keys c w HI i d)].
  - apply aset_keys_nodup. apply (inv_nodup c w HI).
  - apply Inv_cells_upd; [apply (inv_cells c w HI)|]. intros ce0 _. cbn. split; [reflexivity|now left].
  - intros j Hj. destruct (String.eqb_spec (c_id ce) j) as [<-|Hne].
    + now rewrite sassoc_remove_same, live_aset_deleted.
    + rewrite sassoc_remove_other, live_aset_other by (try exact Hne; intros E; apply Hne; now apply doc_url_inj in E).
      now apply (inv_revs c w HI).
  - apply Inv_cache_upd; [reflexivity|]. intros i y H. destruct (String.eqb_spec (c_id ce) i) as [<-|Hne].
    + now rewrite sassoc_remove_same in H.
    + rewrite sassoc_remove_other in H by exact Hne. now apply (inv_cache c w HI).
Qed.

Lemma discard_ok c w x ce safe : Inv c w -> cellw w x = Some ce ->
  let r := step c None w (Discard x safe) in
  Inv c (world_of r) /\
  match absmap w (c_id ce) with
  | Some _ => outcome_of r = ODone /\ absmap (world_of r) (c_id ce) = None /\
              (forall j, j <> c_id ce -> absmap (world_of r) j = absmap w j) /\
              cellw (world_of r) x = Some (set_src "" ce)
  | None => outcome_of r = OErr (if safe then XConflict else XKey) /\ world_of r = w
  end.
Proof.
  intros HI Hx. destruct (inv_cells c w HI x ce Hx) as [Hl _]. cbn zeta.
  pose proof (inv_revs c w HI (c_id ce) Hl) as Hr. cbn [step]. unfold op_discard. pose proof Hx as Hx'. unfold cellw in Hx'.
  rewrite Hx', Hr. unfold absmap.
  assert (Hdone : forall n w0 r v, w_sv w0 = w_sv w -> w_cl w0 = w_cl w -> live (w_sv w) (c_id ce) = Some (r, v) ->
     let res := delete_phase c None n w0 x (c_id ce) (doc_url c (c_id ce)) r in
     Inv c (world_of res) /\ outcome_of res = ODone /\ absmap (world_of res) (c_id ce) = None /\
     (forall j, j <> c_id ce -> absmap (world_of res) j = absmap w j) /\
     cellw (world_of res) x = Some (set_src "" ce)).
  { intros n w0 r v Hsv Hcl Ev. cbn zeta. unfold delete_phase, send. rewrite Hsv, Hcl, (serve_delete c _ _ (Some r) Hl), Ev.
    cbn [opt_rev_eqb]. rewrite Nat.eqb_refl. cbn. split; [now apply Inv_delete|]. split; [reflexivity|]. split; [|split].
    - unfold absmap. cbn. now rewrite live_aset_deleted.
    - intros j Hj. unfold absmap. cbn. rewrite live_aset_other by congruence. reflexivity.
    - now apply cellw_upd_same. }
  destruct (live (w_sv w) (c_id ce)) as [[r v]|] eqn:Ev; cbn [option_map fst snd]; destruct safe.
  - apply (Hdone 0 w r v); auto.
  - unfold send. rewrite (serve_read c (w_sv w) (c_id ce) HEAD None None Hl (or_intror eq_refl)), Ev. cbn [do_request fst snd].
    cbn [is_2xx rs_status]. cbn. apply (Hdone 1 (mkWorld (w_sv w) (w_cl w)) r v); auto.
  - cbn. auto.
  - unfold send. rewrite (serve_read c (w_sv w) (c_id ce) HEAD None None Hl (or_intror eq_refl)), Ev. cbn.
    rewrite world_eta. auto.
Qed.

Lemma contains_ok c w i : legal i = true ->
  step c None w (ContainsId i) = (w, OBool (match absmap w i with Some _ => true | None => false end), 1).
Proof.
  intros Hl. cbn [step]. unfold op_contains, send.
  rewrite (serve_read c (w_sv w) i HEAD None None Hl (or_intror eq_refl)). unfold absmap.
  destruct (live (w_sv w) i) as [[r v]|]; cbn; now rewrite world_eta.
Qed.

Lemma len_ok c w : step c None w Len = (w, ONat (List.length (live_ids (w_sv w))), 1).
Proof.
  cbn [step]. unfold op_len, send, serve. cbn [rq_url rq_meth]. rewrite route_db. cbn. now rewrite world_eta.
Qed.

Lemma iter_ok c w : Inv c w ->
  let r := step c None w Iter in
  exists l, outcome_of r = OCells l /\ Inv c (world_of r) /\ (forall j, absmap (world_of r) j = absmap w j) /\
    Forall2 (fun y i => exists ce, cellw (world_of r) y = Some ce /\ c_id ce = i /\ absmap w i = Some (c_val ce))
            l (isort (live_ids (w_sv w))).
Proof.
  intros HI. cbn zeta. cbn [step]. unfold op_iter, send, serve. cbn [rq_url rq_meth]. rewrite route_all_docs.
  cbn [do_request fst snd]. cbn. rewrite world_eta.
  pose proof (inv_nodup c w HI) as Hnd.
  destruct (fetch_all_spec c (isort (live_ids (w_sv w))) 1 w [] HI) as (w' & l & E & Hsv & HI' & Hall & _).
  - eapply Permutation_NoDup; [symmetry; apply isort_perm|]. now apply live_ids_nodup.
  - intros i Hin. apply (Permutation_in _ (isort_perm _)) in Hin. apply (live_ids_spec _ _ Hnd) in Hin.
    split; [|exact Hin]. unfold live in Hin. destruct (sget (w_sv w) i) as [d|] eqn:Ed; [|congruence].
    now apply (inv_keys c w HI i d).
  - rewrite E. cbn. exists l. split; [reflexivity|]. split; [exact HI'|]. split; [|exact Hall].
    intros j. unfold absmap. now rewrite Hsv.
Qed.

(* ---- histories *)
Definition op_wf0 (w : world) (o : op) : Prop :=
  match o with
  | Add x | Modify x _ | Commit x | Update x | Discard x _ | ContainsObj x => cellw w x <> None
  | GetId i | ContainsId i => legal i = true
  | Len | Iter => True
  | ExtPut _ _ | ExtDel _ => False        (* no second actor *)
  | UpdateChild _ | CommitChild _ => False   (* normalised away *)
  end.
Definition op_wf (w : world) (o : op) : Prop := op_wf0 w (norm o).
Fixpoint wf_run (c : cfg) (w : world) (h : list op) : Prop :=
  match h with
  | [] => True
  | o :: r => op_wf w o /\ wf_run c (world_of (step c None w o)) r
  end.
Definition run_ops (c : cfg) (w : world) (h : list op) : world :=
  fold_left (fun w o => world_of (step c None w o)) h w.

(* what a map would answer, and how it changes: m = absmap before, m' = absmap after *)
Definition step_spec0 (c : cfg) (w : world) (o : op) (r : res) : Prop :=
  let m := absmap w in
  let m' := absmap (world_of r) in
  let same := forall j, m' j = m j in
  let only i := forall j, j <> i -> m' j = m j in
  match o with
  | Add x => forall ce, cellw w x = Some ce ->
      match m (c_id ce) with
      | Some _ => outcome_of r = OErr XKey /\ same
      | None => outcome_of r = ODone /\ m' (c_id ce) = Some (c_val ce) /\ only (c_id ce)
      end
  | GetId i => same /\
      match m i with
      | None => outcome_of r = OErr XKey
      | Some v => exists y ce, outcome_of r = OCell y /\ cellw (world_of r) y = Some ce /\ c_id ce = i /\ c_val ce = v
      end
  | Modify x v => same /\ outcome_of r = ODone
  | Commit x => forall ce, cellw w x = Some ce ->
      if String.eqb (c_src ce) "" then outcome_of r = ODone /\ same
      else match m (c_id ce) with
           | Some _ => outcome_of r = ODone /\ m' (c_id ce) = Some (c_val ce) /\ only (c_id ce)
           | None => outcome_of r = OErr XConflict /\ same
           end
  | Update x => same /\ forall ce, cellw w x = Some ce ->
      if String.eqb (c_src ce) "" then outcome_of r = ODone
      else match m (c_id ce) with
           | Some v => outcome_of r = ODone /\ cellw (world_of r) x = Some (mkCell (c_id ce) v (c_src ce))
           | None => outcome_of r = OErr XKey
           end
  | Discard x safe => forall ce, cellw w x = Some ce ->
      match m (c_id ce) with
      | Some _ => outcome_of r = ODone /\ m' (c_id ce) = None /\ only (c_id ce)
      | None => outcome_of r = OErr (if safe then XConflict else XKey) /\ same
      end
  | ContainsId i => same /\ outcome_of r = OBool (match m i with Some _ => true | None => false end)
  | ContainsObj x => same /\ forall ce, cellw w x = Some ce ->
      outcome_of r = OBool (match m (c_id ce) with Some _ => true | None => false end)
  | Len => same /\ exists keys, outcome_of r = ONat (List.length keys) /\ NoDup keys /\
                                forall i, In i keys <-> m i <> None
  | Iter => same /\ exists l keys, outcome_of r = OCells l /\ NoDup keys /\ (forall i, In i keys <-> m i <> None) /\
      Forall2 (fun y i => exists ce, cellw (world_of r) y = Some ce /\ c_id ce = i /\ m i = Some (c_val ce)) l keys
  | ExtPut _ _ | ExtDel _ | UpdateChild _ | CommitChild _ => True
  end.
(* update() / commit() on a nested element are specified as update() / commit() of the Identifiable *)
Definition step_spec (c : cfg) (w : world) (o : op) (r : res) : Prop := step_spec0 c w (norm o) r.

Lemma absmap_live w i : absmap w i <> None <-> live (w_sv w) i <> None.
Proof. unfold absmap. destruct (live (w_sv w) i); cbn; split; congruence. Qed.

Lemma step_ok0 c w o : Inv c w -> op_wf0 w o ->
  Inv c (world_of (step c None w o)) /\ step_spec0 c w o (step c None w o).
Proof.
  intros HI Hwf. destruct o; cbn [op_wf0] in Hwf; unfold step_spec0; cbn zeta.
  - destruct (cellw w x) as [ce|] eqn:Hx; [|congruence]. destruct (add_ok c w x ce HI Hx) as [HI' Hs].
    split; [exact HI'|]. intros ce' [= <-]. destruct (absmap w (c_id ce)); [|exact Hs].
    destruct Hs as [Ho Hw]. split; [exact Ho|]. now rewrite Hw.
  - destruct (get_ok c w i HI Hwf) as (HI' & Hsame & Hs). auto.
  - cbn [step]. unfold cellw in Hwf. destruct (nth_error (heap (w_cl w)) x) as [ce0|]; [|congruence].
    split; [|split; [intros j; reflexivity|reflexivity]]. cbn [world_of fst].
    constructor; cbn [w_sv w_cl revs cache]; try apply HI.
    + apply Inv_cells_upd; [apply (inv_cells c w HI)|]. intros ce Hce. cbn. split; [reflexivity|].
      now apply (inv_cells c w HI x ce).
    + apply Inv_cache_upd; [reflexivity|apply (inv_cache c w HI)].
  - destruct (cellw w x) as [ce|] eqn:Hx; [|congruence]. destruct (commit_ok c w x ce HI Hx) as [HI' Hs].
    split; [exact HI'|]. intros ce' [= <-]. destruct (String.eqb (c_src ce) "").
    + destruct Hs as [Ho Hw]. split; [exact Ho|]. now rewrite Hw.
    + destruct (absmap w (c_id ce)); [exact Hs|]. destruct Hs as [Ho Hw]. split; [exact Ho|]. now rewrite Hw.
  - destruct (cellw w x) as [ce|] eqn:Hx; [|congruence]. destruct (update_ok c w x ce HI Hx) as (HI' & Hsame & Hs).
    split; [exact HI'|]. split; [exact Hsame|]. intros ce' [= <-]. destruct (String.eqb (c_src ce) ""); [tauto|].
    destruct (absmap w (c_id ce)); tauto.
  - destruct (cellw w x) as [ce|] eqn:Hx; [|congruence]. destruct (discard_ok c w x ce safe HI Hx) as [HI' Hs].
    split; [exact HI'|]. intros ce' [= <-]. destruct (absmap w (c_id ce)); [tauto|].
    destruct Hs as [Ho Hw]. split; [exact Ho|]. now rewrite Hw.
  - rewrite (contains_ok c w i Hwf). cbn. auto.
  - destruct (cellw w x) as [ce|] eqn:Hx; [|congruence]. destruct (inv_cells c w HI x ce Hx) as [Hl _].
    cbn [step]. unfold cellw in Hx. rewrite Hx. fold (step c None w (ContainsId (c_id ce))).
    rewrite (contains_ok c w (c_id ce) Hl). cbn. split; [exact HI|]. split; [auto|]. now intros ce' [= <-].
  - rewrite (len_ok c w). cbn. split; [exact HI|]. split; [auto|]. exists (live_ids (w_sv w)).
    split; [reflexivity|]. split; [apply live_ids_nodup, (inv_nodup c w HI)|].
    intros i. rewrite absmap_live. apply live_ids_spec, (inv_nodup c w HI).
  - destruct (iter_ok c w HI) as (l & Ho & HI' & Hsame & Hall). split; [exact HI'|]. split; [exact Hsame|].
    exists l, (isort (live_ids (w_sv w))). split; [exact Ho|]. split; [|split; [|exact Hall]].
    + eapply Permutation_NoDup; [symmetry; apply isort_perm|]. apply live_ids_nodup, (inv_nodup c w HI).
    + intros i. rewrite absmap_live, <- (live_ids_spec _ _ (inv_nodup c w HI)).
      split; apply Permutation_in; [apply isort_perm|symmetry; apply isort_perm].
  - contradiction.
  - contradiction.
  - contradiction.
  - contradiction.
Qed.
Lemma step_ok c w o : Inv c w -> op_wf w o ->
  Inv c (world_of (step c None w o)) /\ step_spec c w o (step c None w o).
Proof. intros HI Hwf. unfold step_spec. rewrite step_norm. now apply step_ok0. Qed.

Lemma Inv_run c : forall h w, Inv c w -> wf_run c w h -> Inv c (run_ops c w h).
Proof.
  induction h as [|o r IH]; intros w HI Hwf; [exact HI|]. destruct Hwf as [Ho Hr]. cbn [run_ops fold_left].
  apply IH; [now apply step_ok|exact Hr].
Qed.
Lemma wf_run_app c : forall h w o, wf_run c w (h ++ [o]) -> wf_run c w h /\ op_wf (run_ops c w h) o.
Proof.
  induction h as [|a r IH]; intros w o H; cbn in *; [tauto|]. destruct H as [Ha Hr].
  destruct (IH _ _ Hr) as [H1 H2]. auto.
Qed.

Lemma history_refines c pool h o :
  Forall (fun p => legal (fst p) = true) pool -> wf_run c (init pool) (h ++ [o]) ->
  let w := run_ops c (init pool) h in
  Inv c w /\ step_spec c w o (step c None w o).
Proof.
  intros Hp Hwf. destruct (wf_run_app c h (init pool) o Hwf) as [Hh Ho]. cbn zeta.
  pose proof (Inv_run c h (init pool) (Inv_init c pool Hp) Hh) as HI.
  split; [exact HI|]. now apply step_ok.
Qed.

(* ---------- composite statements used in props/C16.v ------------------------------------------------- *)

(* a commit from an up-to-date replica is accepted, touches no other document, and is what every
   later reader gets - whatever that reader's own client state (this process later on, or another one) *)
Lemma fresh_commit_visible c w x ce i r v0 :
  nth_error (heap (w_cl w)) x = Some ce -> c_src ce = generate_source c i -> legal i = true ->
  sassoc (doc_url c i) (revs (w_cl w)) = Some r ->
  sget (w_sv w) i = Some (mkDoc r (Some v0)) ->
  let w1 := world_of (step c None w (Commit x)) in
  outcome_of (step c None w (Commit x)) = ODone /\
  (forall j, j <> i -> sget (w_sv w1) j = sget (w_sv w) j) /\
  forall cl2, exists y cl' ce',
    step c None (mkWorld (w_sv w1) cl2) (GetId i) = (mkWorld (w_sv w1) cl', OCell y, 1) /\
    nth_error (heap cl') y = Some ce' /\ c_id ce' = i /\ c_val ce' = c_val ce.
Proof.
  intros Hx Hs Hl Hr Hd. cbn zeta. rewrite (commit_fresh c w x ce i r v0 Hx Hs Hl Hr Hd).
  cbn [world_of outcome_of fst snd w_sv]. split; [reflexivity|]. split.
  - intros j Hj. unfold sget. apply aset_other. congruence.
  - intros cl2. destruct (get_live c (aset i (mkDoc (S r) (Some (c_val ce))) (w_sv w)) cl2 i (S r) (c_val ce) Hl
                           (live_aset_same _ _ _ _)) as (y & cl' & ce' & E & H1 & H2 & H3 & _).
    exists y, cl', ce'. auto.
Qed.

(* a successful safe delete removes the document for every later reader *)
Lemma safe_delete_gone c w x ce i r v :
  nth_error (heap (w_cl w)) x = Some ce -> c_id ce = i -> legal i = true ->
  sassoc (doc_url c i) (revs (w_cl w)) = Some r -> live (w_sv w) i = Some (r, v) ->
  let w1 := world_of (step c None w (Discard x true)) in
  outcome_of (step c None w (Discard x true)) = ODone /\
  (forall j, j <> i -> sget (w_sv w1) j = sget (w_sv w) j) /\
  forall cl2, step c None (mkWorld (w_sv w1) cl2) (GetId i) = (mkWorld (w_sv w1) cl2, OErr XKey, 1).
Proof.
  intros Hx Hi Hl Hr Hv. pose proof (safe_delete_spec c w x ce i Hx Hi Hl) as H. rewrite Hr, Hv, Nat.eqb_refl in H.
  destruct H as [Hw Ho]. cbn zeta. rewrite Hw, Ho. cbn [w_sv]. split; [reflexivity|]. split.
  - intros j Hj. unfold sget. apply aset_other. congruence.
  - intros cl2. apply get_missing; [exact Hl|apply live_aset_deleted].
Qed.

(* forgetting the revision of one document (the tail of discard) leaves the revision recorded for every other
   document alone - also when one identifier, or its URL, is a prefix of the other *)
Lemma discard_keeps_other_revisions c (rv : list (string * rev)) i j : i <> j ->
  sassoc (doc_url c j) (sremove (doc_url c i) rv) = sassoc (doc_url c j) rv.
Proof. intros H. apply sassoc_remove_other. intros E. apply H. now apply doc_url_inj in E. Qed.

(* identifiers beginning with an underscore cannot be stored: CouchDB reserves such document ids *)
Lemma reserved_id_rejected c v :
  outcome_of (step c None (init [("_x", v)]) (Add 0)) = OErr (XServer 400).
Proof.
  unfold init. cbn [map fst snd]. cbn [step]. unfold op_add. cbn [w_cl heap nth_error c_id c_val w_sv].
  unfold send, serve. cbn [rq_url rq_meth]. unfold url_target, doc_url. rewrite prefix_app, skip_app. reflexivity.
Qed.
