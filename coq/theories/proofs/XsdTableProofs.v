(* C06 - proofs about the generated name table (gen/Gen_XsdTables.v). *)
From Coq Require Import List ZArith Bool Ascii String.
From Basyx Require Import gen.Gen_XsdTables.
Import ListNotations.
Local Open Scope string_scope.

Fixpoint lookup (k : string) (l : list (string * string)) : option string :=
  match l with [] => None | (k', v) :: r => if String.eqb k k' then Some v else lookup k r end.
Fixpoint nodupb (l : list string) : bool :=
  match l with [] => true | x :: r => negb (existsb (String.eqb x) r) && nodupb r end.
Lemma nodupb_spec l : nodupb l = true -> NoDup l.
Proof.
  induction l as [|x r IH]; cbn; [constructor|]. intros H. apply andb_true_iff in H as [H1 H2].
  constructor; [|auto]. intros I. apply negb_true_iff in H1.
  assert (existsb (String.eqb x) r = true); [|congruence].
  apply existsb_exists. exists x. split; [exact I|apply String.eqb_refl].
Qed.

(* SDK class identifier -> name of the XSD type it stands for (XML Schema Part 2; AAS Part 1 adds no others) *)
Definition spec_names : list (string * string) :=
  [("Duration", "duration"); ("DateTime", "dateTime"); ("Date", "date"); ("Time", "time");
   ("GYearMonth", "gYearMonth"); ("GYear", "gYear"); ("GMonthDay", "gMonthDay"); ("GMonth", "gMonth");
   ("GDay", "gDay"); ("Boolean", "boolean"); ("Base64Binary", "base64Binary"); ("HexBinary", "hexBinary");
   ("Float", "float"); ("Double", "double"); ("Decimal", "decimal"); ("Integer", "integer"); ("Long", "long");
   ("Int", "int"); ("Short", "short"); ("Byte", "byte"); ("NonPositiveInteger", "nonPositiveInteger");
   ("NegativeInteger", "negativeInteger"); ("NonNegativeInteger", "nonNegativeInteger");
   ("PositiveInteger", "positiveInteger"); ("UnsignedLong", "unsignedLong"); ("UnsignedInt", "unsignedInt");
   ("UnsignedShort", "unsignedShort"); ("UnsignedByte", "unsignedByte"); ("AnyURI", "anyURI");
   ("String", "string"); ("NormalizedString", "normalizedString")].

Definition name_ok (kn : string * string) : bool :=
  match lookup (fst kn) xsd_type_names, lookup ("xs:" ++ snd kn) xsd_type_classes with
  | Some v, Some k => String.eqb v ("xs:" ++ snd kn) && String.eqb k (fst kn)
  | _, _ => false
  end.
Lemma names_ok : forall T n, In (T, n) spec_names ->
  lookup T xsd_type_names = Some ("xs:" ++ n) /\ lookup ("xs:" ++ n) xsd_type_classes = Some T.
Proof.
  assert (H : forallb name_ok spec_names = true) by (vm_compute; reflexivity).
  intros T n I. rewrite forallb_forall in H. specialize (H _ I). unfold name_ok in H. cbn [fst snd] in H.
  destruct (lookup T xsd_type_names) as [v|]; [|discriminate].
  destruct (lookup ("xs:" ++ n) xsd_type_classes) as [k|]; [|discriminate].
  apply andb_true_iff in H as [H1 H2]. apply String.eqb_eq in H1. apply String.eqb_eq in H2. subst. auto.
Qed.
Lemma names_one_to_one : NoDup (map fst xsd_type_names) /\ NoDup (map snd xsd_type_names).
Proof. split; apply nodupb_spec; vm_compute; reflexivity. Qed.
Lemma spec_names_count : List.length spec_names = 31%nat /\ NoDup (map fst spec_names) /\ NoDup (map snd spec_names).
Proof. split; [reflexivity|]. split; apply nodupb_spec; vm_compute; reflexivity. Qed.
