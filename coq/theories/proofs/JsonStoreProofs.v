(* C03, store level: reading back what write_store wrote yields the same identifiables. *)
From Coq Require Import List Bool String Lia Permutation.
From Basyx Require Import model.Codec model.CodecSpec model.JsonStore proofs.CodecProofs.
Import ListNotations.
Local Open Scope string_scope.

Section StoreRT.
Variable T : tables.
Variable M : meta.
Variable lt : string -> bool.
Hypothesis Hcompat : compat T M = true.
Hypothesis Hdisp : dispatch_ok T "modelType" identifiable_classes = true.

Definition good (v : value) : Prop :=
  exists c, In c identifiable_classes /\ wfb M (BObj [c]) v = true /\ deps_ok T v = true /\
            exists i, id_of v = Some i.

Lemma good_cls v c : wfb M (BObj [c]) v = true -> cls_of v = c.
Proof.
  destruct v as [| | | | |cls fs]; try discriminate. rewrite wfb_obj. intros H.
  apply andb_prop in H. destruct H as [H _]. apply smem_In in H. destruct H as [<-|[]]. reflexivity.
Qed.

Lemma item_roundtrip v : good v ->
  dec T M false (DcAuto identifiable_classes) (enc_auto T lt false v) = Some v.
Proof.
  intros [c [Hc [Hwf [Hd _]]]].
  apply (roundtrip T M lt Hcompat v (BObj [c]) EAuto (DcAuto identifiable_classes) Hwf Hd).
  cbn [codec_compat]. rewrite Hdisp, andb_true_r. cbn [incl_str forallb]. rewrite andb_true_r.
  apply smem_In. exact Hc.
Qed.

Definition ids (l : list value) : list string :=
  flat_map (fun v => match id_of v with Some i => [i] | None => [] end) l.

Lemma ids_cons v l : ids (v :: l) = match id_of v with Some i => i :: ids l | None => ids l end.
Proof. unfold ids. cbn [flat_map]. destruct (id_of v); reflexivity. Qed.

Lemma read_items_ok c : forall l seen acc,
  Forall good l -> Forall (fun v => cls_of v = c) l ->
  NoDup (ids l) -> (forall i, In i (ids l) -> ~ In i seen) ->
  read_items T M c (map (enc_auto T lt false) l) seen acc = inl ((acc ++ l)%list, (rev (ids l) ++ seen)%list).
Proof.
  induction l as [|v l IH]; intros seen acc Hg Hc Hnd Hdisj.
  - cbn. now rewrite app_nil_r.
  - inversion Hg as [|? ? Hgv Hg']; subst. inversion Hc as [|? ? Hcv Hc']; subst.
    cbn [map read_items]. rewrite (item_roundtrip v Hgv). rewrite String.eqb_refl. cbn [negb].
    destruct Hgv as [c0 [_ [_ [_ [i Hi]]]]]. rewrite Hi.
    assert (Hids : ids (v :: l) = i :: ids l) by (rewrite ids_cons; now rewrite Hi).
    rewrite Hids in *. inversion Hnd as [|? ? Hni Hnd']; subst.
    assert (Hs : smem i seen = false).
    { apply not_true_is_false. intros E. apply smem_In in E. exact (Hdisj i (or_introl eq_refl) E). }
    rewrite Hs. rewrite (IH (i :: seen) (acc ++ [v])%list Hg' Hc' Hnd').
    + cbn [rev]. rewrite <- !app_assoc. reflexivity.
    + intros j Hj [<-|Hin]; [exact (Hni Hj)|]. exact (Hdisj j (or_intror Hj) Hin).
Qed.

Lemma part_good c objs : Forall good objs -> Forall good (part c objs).
Proof. intros H. unfold part. rewrite Forall_forall in *. intros v Hv. apply filter_In in Hv. apply H, Hv. Qed.
Lemma part_cls c objs : Forall (fun v => cls_of v = c) (part c objs).
Proof.
  unfold part. rewrite Forall_forall. intros v Hv. apply filter_In in Hv. destruct Hv as [_ H].
  now apply String.eqb_eq in H.
Qed.

Lemma ids_In i l : In i (ids l) <-> exists v, In v l /\ id_of v = Some i.
Proof.
  unfold ids. rewrite in_flat_map. split.
  - intros [v [Hv Hi]]. exists v. split; [exact Hv|]. destruct (id_of v); [|destruct Hi].
    destruct Hi as [<-|[]]. reflexivity.
  - intros [v [Hv Hi]]. exists v. split; [exact Hv|]. rewrite Hi. now left.
Qed.

Lemma ids_filter_nodup (f : value -> bool) l : NoDup (ids l) -> NoDup (ids (filter f l)).
Proof.
  induction l as [|v l IH]; [trivial|]. cbn [filter]. rewrite ids_cons. intros H.
  assert (Hl : NoDup (ids l)) by (destruct (id_of v); [now inversion H|exact H]).
  destruct (f v); [|exact (IH Hl)].
  rewrite ids_cons. destruct (id_of v) as [i|]; [|exact (IH Hl)].
  inversion H as [|? ? Hni Hnd]; subst. constructor; [|exact (IH Hl)].
  intros Hin. apply Hni. apply ids_In in Hin. destruct Hin as [w [Hw Hi]]. apply filter_In in Hw.
  apply ids_In. exists w. tauto.
Qed.

(* two objects of the same store with the same id are the same object (ids are unique) *)
Lemma same_id_same_obj l v w i :
  NoDup (ids l) -> In v l -> In w l -> id_of v = Some i -> id_of w = Some i -> v = w.
Proof.
  induction l as [|x l IH]; [intros _ []|]. rewrite ids_cons. intros Hnd Hv Hw Hiv Hiw.
  destruct Hv as [->|Hv], Hw as [->|Hw]; try reflexivity.
  - rewrite Hiv in Hnd. inversion Hnd as [|? ? Hni _]; subst. exfalso. apply Hni. apply ids_In. eauto.
  - rewrite Hiw in Hnd. inversion Hnd as [|? ? Hni _]; subst. exfalso. apply Hni. apply ids_In. eauto.
  - apply IH; auto. destruct (id_of x); [now inversion Hnd|exact Hnd].
Qed.

Definition written (objs : list value) : list (string * doc) :=
  flat_map (fun nc : string * string => match part (snd nc) objs with
                            | [] => []
                            | l => [(fst nc, DList (map (enc_auto T lt false) l))]
                            end) top_lists.

Lemma lookup_written objs name c : In (name, c) top_lists ->
  sfind name (written objs) =
  match part c objs with [] => None | l => Some (DList (map (enc_auto T lt false) l)) end.
Proof.
  unfold written, top_lists. cbn [flat_map fst snd].
  intros [E|[E|[E|[]]]]; injection E as <- <-;
    destruct (part "AssetAdministrationShell" objs), (part "Submodel" objs), (part "ConceptDescription" objs);
    reflexivity.
Qed.

Lemma read_lists_step objs name c rest seen acc : In (name, c) top_lists ->
  read_lists T M ((name, c) :: rest) (written objs) seen acc =
  match read_items T M c (map (enc_auto T lt false) (part c objs)) seen acc with
  | inl (acc', seen') => read_lists T M rest (written objs) seen' acc'
  | inr e => inr e
  end.
Proof.
  intros Hin. cbn [read_lists]. rewrite (lookup_written objs name c Hin).
  destruct (part c objs); reflexivity.
Qed.

Theorem store_roundtrip objs :
  Forall good objs -> NoDup (ids objs) ->
  read_store T M (write_store T lt objs) =
  inl (part "AssetAdministrationShell" objs ++ part "Submodel" objs ++ part "ConceptDescription" objs)%list.
Proof.
  intros Hg Hnd.
  set (p1 := part "AssetAdministrationShell" objs). set (p2 := part "Submodel" objs).
  set (p3 := part "ConceptDescription" objs).
  assert (Hcross : forall ca cb, ca <> cb -> forall i, In i (ids (part cb objs)) -> ~ In i (ids (part ca objs))).
  { intros ca cb Hne i Hb Ha. apply ids_In in Ha, Hb. destruct Ha as [v [Hv Hiv]], Hb as [w [Hw Hiw]].
    unfold part in Hv, Hw. apply filter_In in Hv, Hw. destruct Hv as [Hv Hcv], Hw as [Hw Hcw].
    apply String.eqb_eq in Hcv, Hcw.
    pose proof (same_id_same_obj objs v w i Hnd Hv Hw Hiv Hiw) as E. subst w. congruence. }
  assert (H1 := read_items_ok "AssetAdministrationShell" p1 [] []
                  (part_good _ _ Hg) (part_cls _ _) (ids_filter_nodup _ _ Hnd) (fun _ _ H => H)).
  assert (H2 := read_items_ok "Submodel" p2 (rev (ids p1) ++ [])%list ([] ++ p1)%list
                  (part_good _ _ Hg) (part_cls _ _) (ids_filter_nodup _ _ Hnd)
                  ltac:(intros i Hi Hin; rewrite app_nil_r in Hin; apply in_rev in Hin;
                        exact (Hcross "AssetAdministrationShell" "Submodel" ltac:(discriminate) i Hi Hin))).
  assert (H3 := read_items_ok "ConceptDescription" p3 (rev (ids p2) ++ rev (ids p1) ++ [])%list (([] ++ p1) ++ p2)%list
                  (part_good _ _ Hg) (part_cls _ _) (ids_filter_nodup _ _ Hnd)
                  ltac:(intros i Hi Hin; rewrite app_nil_r in Hin; apply in_app_or in Hin;
                        destruct Hin as [Hin|Hin]; apply in_rev in Hin;
                        [exact (Hcross "Submodel" "ConceptDescription" ltac:(discriminate) i Hi Hin)
                        |exact (Hcross "AssetAdministrationShell" "ConceptDescription" ltac:(discriminate) i Hi Hin)])).
  unfold read_store, write_store. fold (written objs). unfold top_lists at 1.
  rewrite read_lists_step by (cbn; tauto). fold p1. rewrite H1.
  rewrite read_lists_step by (cbn; tauto). fold p2. rewrite H2.
  rewrite read_lists_step by (cbn; tauto). fold p3. rewrite H3.
  cbn [read_lists app]. now rewrite <- app_assoc.
Qed.

End StoreRT.
