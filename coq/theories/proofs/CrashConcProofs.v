From Coq Require Import List Arith Bool.
From Basyx Require Import model.CrashConc.
Import ListNotations.

Definition cinv (name : nat -> nat) (vof : nat -> cver) (v0 : cver) (s : cst) : Prop :=
  cdoc_ok vof v0 s /\
  forall u, (cph s u = WOpened -> ctmp s (name u) <> None) /\
            ((cph s u = WWritten \/ cph s u = WClosed) -> ctmp s (name u) = Some (CFull (vof u))).

Lemma upd_same : forall A (f : nat -> A) x y, upd f x y x = y.
Proof. intros. unfold upd. now rewrite Nat.eqb_refl. Qed.

Lemma upd_other : forall A (f : nat -> A) x y n, n <> x -> upd f x y n = f n.
Proof. intros. unfold upd. destruct (Nat.eqb_spec n x); [contradiction | reflexivity]. Qed.

Lemma cfail_inv : forall name vof v0 w f s,
  (forall a b, name a = name b -> a = b) -> cinv name vof v0 s -> cinv name vof v0 (cfail name w f s).
Proof.
  intros name vof v0 w f s inj [Hd Hu]. split; [exact Hd|].
  intros u. simpl. destruct (Nat.eq_dec u w) as [->|ne].
  - rewrite upd_same. split; intros H; [discriminate | destruct H; discriminate].
  - rewrite upd_other by exact ne.
    assert (name u <> name w) by (intro e; apply ne, inj, e).
    destruct f; try rewrite upd_other by assumption; apply Hu.
Qed.

Lemma cstep_inv : forall name vof v0 w f s,
  (forall a b, name a = name b -> a = b) -> cinv name vof v0 s -> cinv name vof v0 (cstep name vof w f s).
Proof.
  intros name vof v0 w f s inj Hi. unfold cstep.
  destruct (cph s w) eqn:Ph; try exact Hi;
    destruct f; try (apply cfail_inv; assumption).
  - (* open *) destruct Hi as [Hd Hu]. split; [exact Hd|]. intros u. simpl.
    destruct (Nat.eq_dec u w) as [->|ne].
    + rewrite !upd_same. split; intros H; [discriminate | destruct H; discriminate].
    + assert (name u <> name w) by (intro e; apply ne, inj, e).
      rewrite !upd_other by assumption. apply Hu.
  - (* write *) destruct Hi as [Hd Hu]. split; [exact Hd|]. intros u. simpl.
    destruct (Nat.eq_dec u w) as [->|ne].
    + rewrite upd_same. split; intros H; [discriminate|].
      destruct (ctmp s (name w)) eqn:T; [apply upd_same|]. exfalso. exact (proj1 (Hu w) Ph T).
    + assert (name u <> name w) by (intro e; apply ne, inj, e).
      rewrite upd_other by assumption.
      destruct (ctmp s (name w)); try rewrite upd_other by assumption; apply Hu.
  - (* close *) destruct Hi as [Hd Hu]. split; [exact Hd|]. intros u. simpl.
    destruct (Nat.eq_dec u w) as [->|ne].
    + rewrite upd_same. split; intros H; [discriminate|]. apply Hu. now left.
    + rewrite upd_other by assumption. apply Hu.
  - (* replace *) destruct (ctmp s (name w)) eqn:T; [|apply cfail_inv; assumption].
    destruct Hi as [Hd Hu].
    assert (c = CFull (vof w)) as ->.
    { pose proof (proj2 (Hu w) (or_intror Ph)) as E. rewrite T in E. now inversion E. }
    split; [right; exists w; reflexivity|]. intros u. simpl.
    destruct (Nat.eq_dec u w) as [->|ne].
    + rewrite upd_same. split; intros H; [discriminate | destruct H; discriminate].
    + assert (name u <> name w) by (intro e; apply ne, inj, e).
      rewrite !upd_other by assumption. apply Hu.
Qed.

Lemma crun_inv : forall name vof v0 sched s,
  (forall a b, name a = name b -> a = b) -> cinv name vof v0 s -> cinv name vof v0 (crun name vof sched s).
Proof.
  intros name vof v0 sched. induction sched as [|[w f] r IH]; intros s inj Hi; simpl; [exact Hi|].
  apply IH; [exact inj|]. apply cstep_inv; assumption.
Qed.

Lemma cinit_inv : forall name vof v0 stale, cinv name vof v0 (cinit v0 stale).
Proof.
  intros. split; [left; reflexivity|]. intros u. simpl. split; intros H; [discriminate | destruct H; discriminate].
Qed.

Lemma conc_safe : forall name vof v0 stale sched,
  (forall a b, name a = name b -> a = b) ->
  cdoc_ok vof v0 (crun name vof sched (cinit v0 stale)).
Proof. intros. apply (crun_inv name vof v0 sched); [assumption | apply cinit_inv]. Qed.

(* one temporary name per process (shared by the threads): writer 0 has closed its file, writer 1 opens (truncates)
   the same name, writer 0 renames it over the document, writer 1's write fails *)
Lemma conc_shared_unsafe :
  let sched := [(0, COk); (0, COk); (0, COk); (1, COk); (0, COk); (1, CRaise)] in
  let s := crun (fun _ => 0) (fun w => 6 + w) sched (cinit 2 (fun _ => None)) in
  cdoc s = Some CPart /\ ~ cdoc_ok (fun w => 6 + w) 2 s /\ cph s 0 = WDone /\ cph s 1 = WFailed.
Proof.
  simpl. repeat split; try reflexivity.
  intros [H | [w H]]; discriminate.
Qed.

(* the hypotheses of conc_safe are satisfiable and the result is not vacuous: three writers, interleaved, one of
   them failing; the document ends up as writer 2's version *)
Lemma conc_example :
  let sched := [(0, COk); (1, COk); (2, COk); (0, COk); (1, CRaise); (2, COk); (0, COk); (2, COk); (0, COk); (2, COk)] in
  let s := crun (fun w => w) (fun w => 6 + w) sched (cinit 2 (fun n => if Nat.eqb n 7 then Some CPart else None)) in
  cdoc s = Some (CFull 8) /\ cph s 0 = WDone /\ cph s 1 = WFailed /\ cph s 2 = WDone /\ ctmp s 7 = Some CPart.
Proof. simpl. repeat split; reflexivity. Qed.
