(* Proofs about model/FileStreams.v: what add_file stores for a positioned stream. *)
From Coq Require Import List ZArith Arith String Lia.
From Basyx Require Import model.Files model.FileStreams proofs.FilesProofs.
Import ListNotations.

Lemma skipn_proper_neq {A} (l : list A) p : 0 < p -> p <= List.length l -> skipn p l <> l.
Proof.
  intros H0 Hle E. assert (L : List.length (skipn p l) = List.length l) by (now rewrite E).
  rewrite skipn_length in L. lia.
Qed.

Lemma read_all_exhausts f : fst (read_all (snd (read_all f))) = [].
Proof.
  unfold read_all; cbn. apply skipn_all2. lia.
Qed.

Section Streams.
  Variable tok : list Z -> content.

  Lemma add_stream_spec s name f t : Inv s ->
    let data := skipn (spos f) (sbuf f) in
    let r := add_file_stream tok s name f t in
    let s' := fst (fst r) in
    exists n', snd (fst r) = OName n' /\
      write_file s' n' = OData (tok data) /\ get_content_type s' n' = OCtype t /\
      get_sha256 s' n' = OHash (tok data) /\
      (forall m, m <> n' -> lookup s' m = lookup s m) /\
      (lookup s n' = None \/ (lookup s n' = Some (tok data, t) /\ s' = s)) /\
      ((lookup s name = None \/ lookup s name = Some (tok data, t)) -> n' = name) /\
      (0 < spos f <= List.length (sbuf f) -> (tok data = tok (sbuf f) -> data = sbuf f) ->
         write_file s' n' <> OData (tok (sbuf f))) /\
      fst (read_all (snd r)) = [].
  Proof.
    intros HI data r s'. subst r s'. unfold add_file_stream. cbn [fst snd].
    change (fst (read_all f)) with data.
    destruct (add_spec s name (tok data) t HI) as [n' [Ho [Hl [Hoth [Hold Hname]]]]].
    exists n'. split; [exact Ho|].
    pose proof (getters_agree _ n' (Inv_add s name (tok data) t HI)) as G. rewrite Hl in G.
    destruct G as [Gw [Gc [Gh _]]].
    repeat split; try assumption.
    - intros [Hp Hle] Hinj. rewrite Gw. intros E. injection E as E. apply Hinj in E.
      exact (skipn_proper_neq _ _ Hp Hle E).
    - apply read_all_exhausts.
  Qed.
End Streams.
