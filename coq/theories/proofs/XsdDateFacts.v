(* C06 - finite-domain facts used by the date/time proofs, each established by evaluating a
   boolean check on EVERY element of the stated range ([all_range]/[all_below], vm_compute) and
   lifted with XsdBaseProofs.all_range_spec:
     all 1681 zone offsets -840..840 minutes,
     all years 0..9999, all two-digit fields 0..99, all (sign, hh, mm) zone literals. *)
From Coq Require Import List ZArith Bool Ascii String Lia.
From Basyx Require Import model.XsdBase model.XsdRe model.XsdLex model.Xsd proofs.XsdBaseProofs proofs.XsdIntProofs.
Import ListNotations.
Local Open Scope Z_scope.

(* canonical fixed-width digit strings *)
Definition d2 (n : Z) : str := [dchar (n / 10); dchar (n mod 10)].
Definition d4 (n : Z) : str := [dchar (n / 1000); dchar (n / 100 mod 10); dchar (n / 10 mod 10); dchar (n mod 10)].
Definition d6 (n : Z) : str :=
  [dchar (n / 100000); dchar (n / 10000 mod 10); dchar (n / 1000 mod 10); dchar (n / 100 mod 10);
   dchar (n / 10 mod 10); dchar (n mod 10)].

Definition in_rng (lo hi n : Z) : bool := (lo <=? n) && (n <=? hi).

(* ---- two-digit fields 0..99 *)
Definition chk2 (n : Z) : bool :=
  str_eqb (pad2 n) (d2 n) && forallb is_digit (d2 n) && (int_dec (d2 n) =? n)
  && implb (in_rng 1 12 n) (matches month_re (d2 n))
  && implb (in_rng 1 31 n) (matches day_re (d2 n))
  && implb (in_rng 0 23 n) (matches hour_re (d2 n))
  && implb (in_rng 0 59 n) (matches minsec_re (d2 n)).
Lemma chk2_all : all_below 7 100 chk2 = true.
Proof. vm_compute. reflexivity. Qed.
Lemma two_digits n : 0 <= n <= 99 ->
  pad2 n = d2 n /\ forallb is_digit (d2 n) = true /\ int_dec (d2 n) = n /\
  (1 <= n <= 12 -> matches month_re (d2 n) = true) /\ (1 <= n <= 31 -> matches day_re (d2 n) = true) /\
  (0 <= n <= 23 -> matches hour_re (d2 n) = true) /\ (0 <= n <= 59 -> matches minsec_re (d2 n) = true).
Proof.
  intros H. pose proof (all_below_spec 7 100 chk2 chk2_all ltac:(cbn; lia) n ltac:(lia)) as K.
  unfold chk2 in K. repeat (apply andb_true_iff in K as [K ?]).
  repeat split.
  - apply str_eqb_eq, K.
  - assumption.
  - apply Z.eqb_eq. assumption.
  - intros R. replace (in_rng 1 12 n) with true in *; [assumption|]. symmetry. unfold in_rng. apply andb_true_iff; split; apply Z.leb_le; lia.
  - intros R. replace (in_rng 1 31 n) with true in *; [assumption|]. symmetry. unfold in_rng. apply andb_true_iff; split; apply Z.leb_le; lia.
  - intros R. replace (in_rng 0 23 n) with true in *; [assumption|]. symmetry. unfold in_rng. apply andb_true_iff; split; apply Z.leb_le; lia.
  - intros R. replace (in_rng 0 59 n) with true in *; [assumption|]. symmetry. unfold in_rng. apply andb_true_iff; split; apply Z.leb_le; lia.
Qed.

(* ---- years 0..9999 *)
Definition chk4 (n : Z) : bool :=
  str_eqb (fmt_0d 4 n) (d4 n) && forallb is_digit (d4 n) && (int_dec (d4 n) =? n)
  && matches (Alt (cats [range "1" "9"; rep 3 dig; Star dig]) (Cat (ch "0") (rep 3 dig))) (d4 n).
Lemma chk4_all : all_below 14 10000 chk4 = true.
Proof. vm_compute. reflexivity. Qed.
Lemma four_digits n : 0 <= n <= 9999 ->
  fmt_0d 4 n = d4 n /\ forallb is_digit (d4 n) = true /\ int_dec (d4 n) = n /\
  matches year_re (d4 n) = true.
Proof.
  intros H. pose proof (all_below_spec 14 10000 chk4 chk4_all ltac:(cbn; lia) n ltac:(lia)) as K.
  unfold chk4 in K. repeat (apply andb_true_iff in K as [K ?]).
  repeat split.
  - apply str_eqb_eq, K.
  - assumption.
  - apply Z.eqb_eq. assumption.
  - unfold year_re. change (d4 n) with ([] ++ d4 n). apply m_cat; [reflexivity|assumption].
Qed.

(* ---- microseconds 0..999999: '%06d' then int(frac[1:7].ljust(6, "0")) - by proof for every value *)
Lemma six_digits n : 0 <= n <= 999999 ->
  List.length (fmt_0d 6 n) = 6%nat /\ forallb is_digit (fmt_0d 6 n) = true /\ us_of_frac (fmt_0d 6 n) = n.
Proof.
  intros H. destruct (fmt_0d_spec 6 n) as (Hl & Hd & Hv); [change (10 ^ Z.of_nat 6) with 1000000; lia|lia|].
  repeat split; auto. unfold us_of_frac. rewrite firstn_all2 by lia. rewrite Hl. cbn [Nat.sub repeat].
  rewrite app_nil_r. exact Hv.
Qed.

(* ---- digit characters are canonical *)
Lemma digits2_canon a b : is_digit a = true -> is_digit b = true ->
  [a; b] = d2 (int_dec [a; b]) /\ 0 <= int_dec [a; b] <= 99.
Proof.
  intros Ha Hb. destruct (is_digit_inv a Ha) as [Ea Ra]. destruct (is_digit_inv b Hb) as [Eb Rb].
  set (x := dval a) in *. set (y := dval b) in *.
  assert (E : int_dec [a; b] = 10 * x + y) by (unfold int_dec; cbn [int_acc]; fold x y; lia).
  rewrite E. split; [|lia]. unfold d2.
  replace ((10 * x + y) / 10) with x by (apply (Z.div_unique _ 10 x y); lia).
  replace ((10 * x + y) mod 10) with y by (apply (Z.mod_unique _ 10 x y); lia).
  congruence.
Qed.
Lemma digits4_canon a b c d : is_digit a = true -> is_digit b = true -> is_digit c = true -> is_digit d = true ->
  [a; b; c; d] = d4 (int_dec [a; b; c; d]) /\ 0 <= int_dec [a; b; c; d] <= 9999.
Proof.
  intros Ha Hb Hc Hd.
  destruct (is_digit_inv a Ha) as [Ea Ra]. destruct (is_digit_inv b Hb) as [Eb Rb].
  destruct (is_digit_inv c Hc) as [Ec Rc]. destruct (is_digit_inv d Hd) as [Ed Rd].
  set (x := dval a) in *. set (y := dval b) in *. set (z := dval c) in *. set (w := dval d) in *.
  assert (E : int_dec [a; b; c; d] = 1000 * x + 100 * y + 10 * z + w)
    by (unfold int_dec; cbn [int_acc]; fold x y z w; lia).
  rewrite E. split; [|lia]. unfold d4. set (n := 1000 * x + 100 * y + 10 * z + w).
  assert (E1 : n / 1000 = x) by (symmetry; apply (Z.div_unique n 1000 x (100 * y + 10 * z + w)); lia).
  assert (E2 : n / 100 = 10 * x + y) by (symmetry; apply (Z.div_unique n 100 (10 * x + y) (10 * z + w)); lia).
  assert (E3 : n / 10 = 100 * x + 10 * y + z) by (symmetry; apply (Z.div_unique n 10 (100 * x + 10 * y + z) w); lia).
  assert (E4 : n mod 10 = w) by (symmetry; apply (Z.mod_unique n 10 (100 * x + 10 * y + z) w); lia).
  rewrite E1, E2, E3, E4.
  replace ((10 * x + y) mod 10) with y by (apply (Z.mod_unique _ 10 x y); lia).
  replace ((100 * x + 10 * y + z) mod 10) with z by (apply (Z.mod_unique _ 10 (10 * x + y) z); lia).
  congruence.
Qed.

(* ---- zone offsets: every offset -840..840 is printed, recognised and read back *)
Definition head_ok (s : str) : bool :=
  match s with c :: _ => negb (is_digit c) && negb (ceq c ".") | [] => true end.
Definition tz_chk (txt : Z -> str) (off : Z) : bool :=
  match tz_group_end (txt off) with
  | Some g => match parse_tzinfo g with Ok (Some o) => o =? off | _ => false end
  | None => false
  end && matches tz_re (txt off) && no_ws (txt off) && head_ok (txt off) && negb (is_nil (txt off)).
Lemma tz_chk_date_all : all_range 11 (-840) (fun off => (840 <? off) || tz_chk date_tz_text off) = true.
Proof. vm_compute. reflexivity. Qed.
Lemma tz_chk_iso_all : all_range 11 (-840) (fun off => (840 <? off) || tz_chk (fun o => iso_tz (Some o)) off) = true.
Proof. vm_compute. reflexivity. Qed.

Definition tz_ok (t : tz) : bool := match t with None => true | Some m => (-840 <=? m) && (m <=? 840) end.

Lemma tz_text_facts (txt : Z -> str) :
  all_range 11 (-840) (fun off => (840 <? off) || tz_chk txt off) = true ->
  forall off, -840 <= off <= 840 ->
  exists g, tz_group_end (txt off) = Some g /\ parse_tzinfo g = Ok (Some off) /\
            matches (opt tz_re) (txt off) = true /\ no_ws (txt off) = true /\ head_ok (txt off) = true.
Proof.
  intros A off H. pose proof (all_range_spec _ _ _ A off ltac:(cbn; lia)) as K. cbn beta in K.
  destruct (Z.ltb_spec 840 off); [lia|]. cbn [orb] in K. unfold tz_chk in K.
  repeat (apply andb_true_iff in K as [K ?]).
  destruct (tz_group_end (txt off)) as [g|]; [|discriminate]. exists g.
  destruct (parse_tzinfo g) as [[o|]|]; try discriminate. apply Z.eqb_eq in K. subst o.
  repeat split; auto. apply m_opt_some. assumption.
Qed.

Lemma check_utcoffset_ok t : tz_ok t = true -> check_utcoffset t = Ok tt.
Proof.
  destruct t as [m|]; [|reflexivity]. cbn. intros H. apply andb_true_iff in H as [H1 H2].
  apply Z.leb_le in H1. apply Z.leb_le in H2. destruct (Z.gtb_spec (Z.abs m) 840); [lia|reflexivity].
Qed.
Lemma check_utcoffset_bad m : m < -840 \/ 840 < m -> check_utcoffset (Some m) = Err ValueError.
Proof. intros H. cbn. destruct (Z.gtb_spec (Z.abs m) 840); [reflexivity|lia]. Qed.

(* ---- zone literals: every (sign, hh, mm) accepted by _parse_xsd_date_tzinfo is a valid XSD zone *)
Definition tzlit_chk (n : Z) : bool :=
  let hh := n / 100 in let mm := n mod 100 in
  implb (negb ((mm >? 59) || (hh * 60 + mm >? 14 * 60)))
        (matches tz_re ("+"%char :: d2 hh ++ ":"%char :: d2 mm) && matches tz_re ("-"%char :: d2 hh ++ ":"%char :: d2 mm)).
Lemma tzlit_chk_all : all_below 14 10000 tzlit_chk = true.
Proof. vm_compute. reflexivity. Qed.

Lemma implb_elim a x : implb (negb a) x = true -> a = false -> x = true.
Proof. intros H E. subst a. exact H. Qed.
Lemma at_end_shape r : at_end r = true -> r = [] \/ r = ["010"%char].
Proof.
  destruct r as [|c [|? ?]]; cbn; try discriminate; auto.
  intros H. apply ceq_eq in H. subst. auto.
Qed.
Lemma at_end_ws r : at_end r = true -> forallb is_xsd_ws r = true.
Proof. intros H. destruct (at_end_shape r H) as [->| ->]; reflexivity. Qed.

(* what the optional zone group + `$` can have matched *)
Lemma tz_group_shape r g t : tz_group_end r = Some g -> parse_tzinfo g = Ok t ->
  exists core w2, r = core ++ w2 /\ forallb is_xsd_ws w2 = true /\ no_ws core = true /\
                  matches (opt tz_re) core = true.
Proof.
  unfold tz_group_end. destruct (at_end r) eqn:E0.
  - intros _ _. exists [], r. split; [reflexivity|]. split; [apply at_end_ws, E0|]. split; vm_compute; reflexivity.
  - destruct r as [|c r0]; [discriminate|].
    destruct (ceq c "Z" && at_end r0) eqn:EZ.
    + apply andb_true_iff in EZ as [EZ1 EZ2]. apply ceq_eq in EZ1. subst c.
      intros _ _. exists ["Z"%char], r0. split; [reflexivity|]. split; [apply at_end_ws, EZ2|]. split; vm_compute; reflexivity.
    + destruct r0 as [|h1 [|h2 [|col [|m1 [|m2 r']]]]]; try discriminate.
      destruct (is_sign c && is_digit h1 && is_digit h2 && ceq col ":" && is_digit m1 && is_digit m2 && at_end r') eqn:C;
        [|discriminate].
      apply andb_true_iff in C as [C Hend]. apply andb_true_iff in C as [C Hm2]. apply andb_true_iff in C as [C Hm1].
      apply andb_true_iff in C as [C Hcol]. apply andb_true_iff in C as [C Hh2]. apply andb_true_iff in C as [C Hh1].
      intros [= <-]. cbn [parse_tzinfo].
      destruct (digits2_canon h1 h2) as [Eh Rh]; auto. destruct (digits2_canon m1 m2) as [Em Rm]; auto.
      set (hh := int_dec [h1; h2]) in *. set (mm := int_dec [m1; m2]) in *.
      destruct ((mm >? 59) || (hh * 60 + mm >? 14 * 60)) eqn:B; [discriminate|]. intros _.
      apply ceq_eq in Hcol; subst col.
      exists (c :: d2 hh ++ ":"%char :: d2 mm), r'. repeat split.
      * rewrite <- Eh, <- Em. reflexivity.
      * apply at_end_ws. assumption.
      * assert (Hh : forallb is_digit (d2 hh) = true) by (rewrite <- Eh; cbn [forallb]; rewrite Hh1, Hh2; reflexivity).
        assert (Hm : forallb is_digit (d2 mm) = true) by (rewrite <- Em; cbn [forallb]; rewrite Hm1, Hm2; reflexivity).
        change (c :: d2 hh ++ ":"%char :: d2 mm) with ([c] ++ d2 hh ++ [":"%char] ++ d2 mm).
        rewrite !no_ws_app, (digits_no_ws _ Hh), (digits_no_ws _ Hm).
        unfold is_sign in C. apply orb_true_iff in C as [C|C]; apply ceq_eq in C; subst c; vm_compute; reflexivity.
      * pose proof (all_below_spec 14 10000 tzlit_chk tzlit_chk_all ltac:(cbn; lia) (hh * 100 + mm) ltac:(lia)) as K.
        unfold tzlit_chk in K. cbv zeta in K.
        replace ((hh * 100 + mm) / 100) with hh in K by (apply (Z.div_unique _ 100 hh mm); lia).
        replace ((hh * 100 + mm) mod 100) with mm in K by (apply (Z.mod_unique _ 100 hh mm); lia).
        apply (implb_elim _ _ K) in B. apply andb_true_iff in B as [K1 K2].
        apply m_opt_some.
        unfold is_sign in C. apply orb_true_iff in C as [C|C]; apply ceq_eq in C; subst c; [exact K1|exact K2].
Qed.
