(* Lemmas about model/UpdateFrom.v: what update_from does to every path of the tree. *)
From Coq Require Import List ZArith Bool Arith Lia.
From Basyx Require Import model.UpdateFrom.
Import ListNotations.
Local Open Scope nat_scope.

(* ---- an equation for upd without the inner fix ---------------------------- *)

Definition survivors (live : node) (ch' : list node) : list (nat * node) :=
  flat_map (fun n' => match survivor_of (n_kids live) n' with
                      | Some l => [(n_key n', upd l n' true)]
                      | None => []
                      end) ch'.

Definition upd_kids (live : node) (ch' : list node) : list node :=
  flat_map (fun l => match find_q (n_key l) (survivors live ch') with Some u => [u] | None => [] end) (n_kids live)
  ++ filter (fun n' => match survivor_of (n_kids live) n' with Some _ => false | None => true end) ch'.

Lemma upd_eq : forall live o' c' k' p' s' q' ch' us,
  upd live (Node o' c' k' p' s' q' ch') us =
  Node (n_oid live) (n_cls live) k' p' (if us then s' else n_src live)
       (upd_quals (n_quals live) q') (upd_kids live ch').
Proof.
  intros. simpl. unfold upd_kids.
  assert (E : (fix go (news : list node) : list (nat * node) :=
                 match news with
                 | [] => []
                 | n' :: r => match survivor_of (n_kids live) n' with
                              | Some l => (n_key n', upd l n' true) :: go r
                              | None => go r
                              end
                 end) ch' = survivors live ch').
  { induction ch' as [|n' r IH]; simpl; auto. destruct (survivor_of (n_kids live) n'); simpl; rewrite IH; reflexivity. }
  rewrite E. reflexivity.
Qed.

Lemma upd_fields : forall live new us,
  n_oid (upd live new us) = n_oid live /\ n_cls (upd live new us) = n_cls live /\
  n_key (upd live new us) = n_key new /\ n_pay (upd live new us) = n_pay new /\
  n_src (upd live new us) = (if us then n_src new else n_src live) /\
  n_quals (upd live new us) = upd_quals (n_quals live) (n_quals new) /\
  n_kids (upd live new us) = upd_kids live (n_kids new).
Proof. intros live [o' c' k' p' s' q' ch'] us. rewrite upd_eq. simpl. repeat split; reflexivity. Qed.

(* ---- lookups ---------------------------------------------------------------- *)

Lemma find_kid_key : forall k l x, find_kid k l = Some x -> n_key x = k /\ In x l.
Proof.
  induction l as [|y r IH]; simpl; intros x H; [discriminate|].
  destruct (Nat.eqb (n_key y) k) eqn:E.
  - inversion H; subst. apply Nat.eqb_eq in E. auto.
  - destruct (IH x H). auto.
Qed.
Lemma find_kid_none : forall k l, find_kid k l = None <-> ~ In k (map n_key l).
Proof.
  induction l as [|y r IH]; simpl; [tauto|].
  destruct (Nat.eqb (n_key y) k) eqn:E.
  - apply Nat.eqb_eq in E. split; [discriminate|]. intro H. exfalso. apply H. auto.
  - apply Nat.eqb_neq in E. rewrite IH. tauto.
Qed.
Lemma find_kid_app : forall k a b, find_kid k (a ++ b) = match find_kid k a with Some x => Some x | None => find_kid k b end.
Proof.
  induction a as [|y r IH]; simpl; intro b; auto. destruct (Nat.eqb (n_key y) k); auto.
Qed.
Lemma find_q_none : forall {B} k (l : list (nat * B)), find_q k l = None <-> ~ In k (map fst l).
Proof.
  induction l as [|[k' v] r IH]; simpl; [tauto|].
  destruct (Nat.eqb k' k) eqn:E.
  - apply Nat.eqb_eq in E. split; [discriminate|]. intro H. exfalso. apply H. auto.
  - apply Nat.eqb_neq in E. rewrite IH. tauto.
Qed.
Lemma find_q_app : forall {B} k (a b : list (nat * B)),
  find_q k (a ++ b) = match find_q k a with Some x => Some x | None => find_q k b end.
Proof.
  induction a as [|[k' v] r IH]; simpl; intro b; auto. destruct (Nat.eqb k' k); auto.
Qed.

Lemma survivor_key : forall lk n' l, survivor_of lk n' = Some l ->
  find_kid (n_key n') lk = Some l /\ n_cls l = n_cls n' /\ n_key l = n_key n'.
Proof.
  intros lk n' l H. unfold survivor_of in H. destruct (find_kid (n_key n') lk) as [x|] eqn:F; [|discriminate].
  destruct (Nat.eqb (n_cls x) (n_cls n')) eqn:E; [|discriminate]. inversion H; subst.
  apply Nat.eqb_eq in E. destruct (find_kid_key _ _ _ F). auto.
Qed.

(* the survivor table, looked up by key *)
Lemma survivors_lookup : forall live ch' k, NoDup (map n_key ch') ->
  find_q k (survivors live ch') =
  match find_kid k ch' with
  | Some n' => match survivor_of (n_kids live) n' with Some l => Some (upd l n' true) | None => None end
  | None => None
  end.
Proof.
  induction ch' as [|n' r IH]; simpl; intros k ND; auto.
  inversion ND; subst. unfold survivors in *. simpl.
  destruct (Nat.eqb (n_key n') k) eqn:E.
  - apply Nat.eqb_eq in E. destruct (survivor_of (n_kids live) n') as [l|] eqn:S; simpl.
    + rewrite E, Nat.eqb_refl. reflexivity.
    + rewrite IH by assumption. subst k.
      assert (X : find_kid (n_key n') r = None) by (apply find_kid_none; exact H1). rewrite X. reflexivity.
  - destruct (survivor_of (n_kids live) n') as [l|] eqn:S; simpl.
    + rewrite E. apply IH. exact H2.
    + apply IH. exact H2.
Qed.
Lemma survivors_keys : forall live ch' kk u, In (kk, u) (survivors live ch') -> n_key u = kk.
Proof.
  intros live ch' kk u H. unfold survivors in H. apply in_flat_map in H. destruct H as [n' [_ H]].
  destruct (survivor_of (n_kids live) n'); [|contradiction]. destruct H as [H|[]]. inversion H; subst.
  destruct (upd_fields n n' true) as [_ [_ [K _]]]. exact K.
Qed.
Lemma find_q_in : forall {B} k (l : list (nat * B)) v, find_q k l = Some v -> In (k, v) l.
Proof.
  induction l as [|[k' v'] r IH]; simpl; intros v H; [discriminate|].
  destruct (Nat.eqb k' k) eqn:E.
  - apply Nat.eqb_eq in E. inversion H; subst. auto.
  - auto.
Qed.

(* first half of the children: the live children that survive, updated, in live order *)
Lemma kept_lookup : forall (surv : list (nat * node)) lk k,
  (forall kk u, In (kk, u) surv -> n_key u = kk) -> NoDup (map n_key lk) ->
  find_kid k (flat_map (fun l => match find_q (n_key l) surv with Some u => [u] | None => [] end) lk) =
  match find_kid k lk with Some _ => find_q k surv | None => None end.
Proof.
  intros surv lk k HK. induction lk as [|l r IH]; simpl; intro ND; auto.
  inversion ND; subst.
  assert (REST : Nat.eqb (n_key l) k = true ->
            find_kid k (flat_map (fun l => match find_q (n_key l) surv with Some u => [u] | None => [] end) r) = None).
  { intro E. apply Nat.eqb_eq in E. rewrite IH by assumption.
    assert (X : find_kid k r = None) by (apply find_kid_none; subst; exact H1). rewrite X. reflexivity. }
  destruct (find_q (n_key l) surv) as [u|] eqn:F; simpl.
  - assert (KU : n_key u = n_key l) by (apply (HK _ _ (find_q_in _ _ _ F))). rewrite KU.
    destruct (Nat.eqb (n_key l) k) eqn:E.
    + apply Nat.eqb_eq in E. subst k. rewrite F. reflexivity.
    + apply IH. exact H2.
  - destruct (Nat.eqb (n_key l) k) eqn:E.
    + rewrite (REST eq_refl). apply Nat.eqb_eq in E. subst k. rewrite F. reflexivity.
    + apply IH. exact H2.
Qed.

(* second half: the copy's children that are new or whose class changed *)
Lemma added_lookup : forall lk ch' k, NoDup (map n_key ch') ->
  find_kid k (filter (fun n' => match survivor_of lk n' with Some _ => false | None => true end) ch') =
  match find_kid k ch' with
  | Some n' => match survivor_of lk n' with Some _ => None | None => Some n' end
  | None => None
  end.
Proof.
  induction ch' as [|n' r IH]; simpl; intros k ND; auto.
  inversion ND; subst.
  destruct (survivor_of lk n') as [l|] eqn:S; simpl.
  - destruct (Nat.eqb (n_key n') k) eqn:E.
    + rewrite IH by assumption. apply Nat.eqb_eq in E. subst k.
      assert (X : find_kid (n_key n') r = None) by (apply find_kid_none; exact H1). rewrite X, S. reflexivity.
    + apply IH. exact H2.
  - destruct (Nat.eqb (n_key n') k) eqn:E; [rewrite S; reflexivity|apply IH; exact H2].
Qed.

Definition wf1 (n : node) : Prop := NoDup (map n_key (n_kids n)) /\ NoDup (map fst (n_quals n)).

(* C12_children: the child collection after the update, looked up by idShort *)
Lemma kid_lookup : forall live new us k, wf1 live -> wf1 new ->
  find_kid k (n_kids (upd live new us)) =
  match find_kid k (n_kids new) with
  | None => None
  | Some n' => match survivor_of (n_kids live) n' with
               | Some l => Some (upd l n' true)
               | None => Some n'
               end
  end.
Proof.
  intros live new us k [WL _] [WN _].
  destruct (upd_fields live new us) as [_ [_ [_ [_ [_ [_ K]]]]]]. rewrite K. unfold upd_kids.
  rewrite find_kid_app.
  rewrite (kept_lookup (survivors live (n_kids new)) (n_kids live) k (survivors_keys live (n_kids new)) WL).
  rewrite (survivors_lookup live (n_kids new) k WN).
  rewrite (added_lookup (n_kids live) (n_kids new) k WN).
  destruct (find_kid k (n_kids new)) as [n'|] eqn:FN.
  - destruct (survivor_of (n_kids live) n') as [l|] eqn:S.
    + destruct (survivor_key _ _ _ S) as [F [_ _]]. destruct (find_kid_key _ _ _ FN) as [KN _].
      rewrite KN in F. rewrite F. reflexivity.
    + destruct (find_kid k (n_kids live)); reflexivity.
  - destruct (find_kid k (n_kids live)); reflexivity.
Qed.

(* qualifiers / extensions after the update, looked up by type / name *)
Lemma qual_lookup : forall lq nq k, NoDup (map fst lq) -> NoDup (map fst nq) ->
  find_q k (upd_quals lq nq) =
  match find_q k nq with
  | None => None
  | Some (o', v') => match find_q k lq with Some (o, _) => Some (o, v') | None => Some (o', v') end
  end.
Proof.
  intros lq nq k NL NN. unfold upd_quals. rewrite find_q_app.
  assert (A : find_q k (flat_map (fun q => match find_q (fst q) nq with Some (_, v') => [(fst q, (fst (snd q), v'))] | None => [] end) lq) =
              match find_q k lq with
              | Some (o, _) => match find_q k nq with Some (_, v') => Some (o, v') | None => None end
              | None => None end).
  { clear NN. induction lq as [|[k0 [o0 v0]] r IH]; simpl; auto. inversion NL; subst.
    destruct (Nat.eqb k0 k) eqn:E.
    - apply Nat.eqb_eq in E. subst k0. destruct (find_q k nq) as [[o' v']|] eqn:F; simpl.
      + rewrite Nat.eqb_refl. reflexivity.
      + rewrite IH by assumption. assert (X : find_q k r = None) by (apply find_q_none; exact H1). rewrite X. reflexivity.
    - destruct (find_q k0 nq) as [[o' v']|]; simpl; [rewrite E|]; apply IH; assumption. }
  assert (B : find_q k (filter (fun q => match find_q (fst q) lq with Some _ => false | None => true end) nq) =
              match find_q k nq with
              | Some x => match find_q k lq with Some _ => None | None => Some x end
              | None => None end).
  { clear A NL. induction nq as [|[k0 x0] r IH]; simpl; auto. inversion NN; subst.
    destruct (find_q k0 lq) as [y|] eqn:F; simpl.
    - destruct (Nat.eqb k0 k) eqn:E.
      + rewrite IH by assumption. apply Nat.eqb_eq in E. subst k0.
        assert (X : find_q k r = None) by (apply find_q_none; exact H1). rewrite X, F. reflexivity.
      + apply IH. assumption.
    - destruct (Nat.eqb k0 k) eqn:E.
      + apply Nat.eqb_eq in E. subst k0. rewrite F. reflexivity.
      + apply IH. assumption. }
  rewrite A, B. destruct (find_q k nq) as [[o' v']|]; destruct (find_q k lq) as [[o v]|]; reflexivity.
Qed.

(* ---- paths --------------------------------------------------------------------- *)

(* get_referable along an idShort path *)
Fixpoint resolve (n : node) (p : list nat) : option node :=
  match p with
  | [] => Some n
  | k :: r => match find_kid k (n_kids n) with Some x => resolve x r | None => None end
  end.

(* idShorts unique in every child collection, types / names unique in every qualifier and
   extension set, at every depth (what the constructors and C01 guarantee) *)
Definition wf (n : node) : Prop := forall p r, resolve n p = Some r -> wf1 r.

Lemma wf_root : forall n, wf n -> wf1 n.
Proof. intros n W. apply (W [] n). reflexivity. Qed.
Lemma wf_kid : forall n k x, wf n -> find_kid k (n_kids n) = Some x -> wf x.
Proof. intros n k x W F p r R. apply (W (k :: p) r). simpl. rewrite F. exact R. Qed.

Definition same_attrs (r n : node) : Prop :=
  n_cls r = n_cls n /\ n_key r = n_key n /\ n_pay r = n_pay n /\
  forall qk, option_map snd (find_q qk (n_quals r)) = option_map snd (find_q qk (n_quals n)).

Lemma same_attrs_refl : forall n, same_attrs n n.
Proof. intro. repeat split; auto. Qed.

Lemma equal_paths : forall p live new us, wf live -> wf new -> n_cls live = n_cls new ->
  match resolve new p with
  | None => resolve (upd live new us) p = None
  | Some n => exists r, resolve (upd live new us) p = Some r /\ same_attrs r n /\
                        ((us = true \/ p <> []) -> n_src r = n_src n)
  end.
Proof.
  induction p as [|k r IH]; intros live new us WL WN C.
  - simpl. exists (upd live new us). split; auto.
    destruct (upd_fields live new us) as [F1 [F2 [F3 [F4 [F5 [F6 F7]]]]]].
    split.
    + split; [congruence|]. split; auto. split; auto. intro qk. rewrite F6.
      destruct (wf_root _ WL) as [_ QL]. destruct (wf_root _ WN) as [_ QN].
      rewrite (qual_lookup _ _ qk QL QN).
      destruct (find_q qk (n_quals new)) as [[o' v']|]; auto.
      destruct (find_q qk (n_quals live)) as [[o v]|]; reflexivity.
    + intros [U|U]; [|contradiction]. rewrite F5, U. reflexivity.
  - simpl. rewrite (kid_lookup live new us k (wf_root _ WL) (wf_root _ WN)).
    destruct (find_kid k (n_kids new)) as [n'|] eqn:FN; auto.
    destruct (find_kid_key _ _ _ FN) as [KN _].
    destruct (survivor_of (n_kids live) n') as [l|] eqn:S.
    + destruct (survivor_key _ _ _ S) as [FL [CL _]]. rewrite KN in FL.
      assert (H := IH l n' true (wf_kid _ _ _ WL FL) (wf_kid _ _ _ WN FN) CL).
      destruct (resolve n' r) as [n|]; auto.
      destruct H as [x [R1 [R2 R3]]]. exists x. split; [exact R1|]. split; [exact R2|]. intros _. apply R3. left. reflexivity.
    + destruct (resolve n' r) as [n|]; auto. exists n. split; auto. split; [apply same_attrs_refl|auto].
Qed.

(* the live and the new tree have children of the same class under every idShort of the path *)
Fixpoint cmatch (live new : node) (p : list nat) : Prop :=
  match p with
  | [] => True
  | k :: r => match find_kid k (n_kids live), find_kid k (n_kids new) with
              | Some l, Some n => n_cls l = n_cls n /\ cmatch l n r
              | _, _ => False
              end
  end.

Lemma identity_paths : forall p live new us, wf live -> wf new -> cmatch live new p ->
  exists l n r, resolve live p = Some l /\ resolve new p = Some n /\
                resolve (upd live new us) p = Some r /\ n_oid r = n_oid l /\
                (forall qk qo qv x, find_q qk (n_quals l) = Some (qo, qv) -> find_q qk (n_quals n) = Some x ->
                                    exists v, find_q qk (n_quals r) = Some (qo, v)).
Proof.
  induction p as [|k r IH]; intros live new us WL WN M.
  - exists live, new, (upd live new us). simpl.
    destruct (upd_fields live new us) as [F1 [_ [_ [_ [_ [F6 _]]]]]].
    repeat split; auto. intros qk qo qv [o' v'] Q1 Q2. rewrite F6.
    destruct (wf_root _ WL) as [_ QL]. destruct (wf_root _ WN) as [_ QN].
    rewrite (qual_lookup _ _ qk QL QN), Q2, Q1. eauto.
  - simpl in M. destruct (find_kid k (n_kids live)) as [l|] eqn:FL; [|contradiction].
    destruct (find_kid k (n_kids new)) as [n'|] eqn:FN; [|contradiction]. destruct M as [C M].
    destruct (find_kid_key _ _ _ FN) as [KN _].
    assert (S : survivor_of (n_kids live) n' = Some l).
    { unfold survivor_of. rewrite KN, FL. apply Nat.eqb_eq in C. rewrite C. reflexivity. }
    destruct (IH l n' true (wf_kid _ _ _ WL FL) (wf_kid _ _ _ WN FN) M) as [l0 [n0 [r0 [R1 [R2 [R3 [R4 R5]]]]]]].
    exists l0, n0, r0. simpl. rewrite FL, FN.
    rewrite (kid_lookup live new us k (wf_root _ WL) (wf_root _ WN)), FN, S. auto.
Qed.

Lemma source_rule : forall live new,
  n_src (upd live new false) = n_src live /\ n_src (upd live new true) = n_src new.
Proof.
  intros. destruct (upd_fields live new false) as [_ [_ [_ [_ [A _]]]]].
  destruct (upd_fields live new true) as [_ [_ [_ [_ [B _]]]]]. auto.
Qed.

(* ---- uniqueness of idShorts / types / names is kept at every depth ---------------- *)

Lemma nodup_app' : forall {A} (l l' : list A), NoDup l -> NoDup l' -> (forall x, In x l -> ~ In x l') ->
  NoDup (l ++ l').
Proof.
  induction l as [|a r IH]; simpl; intros l' N N' H; auto.
  inversion N; subst. constructor.
  - rewrite in_app_iff. intros [X|X]; [contradiction|]. apply (H a); auto.
  - apply IH; auto.
Qed.
Lemma nodup_map_filter : forall {A B} (g : A -> B) (f : A -> bool) l, NoDup (map g l) -> NoDup (map g (filter f l)).
Proof.
  induction l as [|a r IH]; simpl; intro N; auto. inversion N; subst.
  destruct (f a); simpl; auto. constructor; auto.
  intro X. apply H1. apply in_map_iff in X. destruct X as [y [E Y]]. apply filter_In in Y.
  apply in_map_iff. exists y. tauto.
Qed.
Lemma find_kid_in : forall l x, NoDup (map n_key l) -> In x l -> find_kid (n_key x) l = Some x.
Proof.
  induction l as [|y r IH]; simpl; intros x N H; [contradiction|]. inversion N; subst.
  destruct H as [H|H].
  - subst. rewrite Nat.eqb_refl. reflexivity.
  - destruct (Nat.eqb (n_key y) (n_key x)) eqn:E; auto.
    apply Nat.eqb_eq in E. exfalso. apply H2. rewrite E. apply in_map. exact H.
Qed.
Lemma find_q_in' : forall {B} (l : list (nat * B)) k v, NoDup (map fst l) -> In (k, v) l -> find_q k l = Some v.
Proof.
  induction l as [|[k' v'] r IH]; simpl; intros k v N H; [contradiction|]. inversion N; subst.
  destruct H as [H|H].
  - inversion H; subst. rewrite Nat.eqb_refl. reflexivity.
  - destruct (Nat.eqb k' k) eqn:E; auto.
    apply Nat.eqb_eq in E. subst. exfalso. apply H2. apply (in_map fst) in H. exact H.
Qed.

Lemma kept_keys : forall (surv : list (nat * node)) lk,
  (forall kk u, In (kk, u) surv -> n_key u = kk) -> NoDup (map n_key lk) ->
  let kept := flat_map (fun l => match find_q (n_key l) surv with Some u => [u] | None => [] end) lk in
  NoDup (map n_key kept) /\ (forall x, In x (map n_key kept) -> In x (map n_key lk) /\ find_q x surv <> None).
Proof.
  intros surv lk HK. induction lk as [|l r IH]; simpl; intro N.
  - split; [constructor|]. intros x [].
  - inversion N; subst. destruct (IH H2) as [I1 I2].
    destruct (find_q (n_key l) surv) as [u|] eqn:F; simpl.
    + assert (KU : n_key u = n_key l) by (apply (HK _ _ (find_q_in _ _ _ F))). split.
      * constructor; auto. rewrite KU. intro X. apply I2 in X. tauto.
      * intros x [X|X]; [subst; rewrite KU; split; auto; congruence|]. destruct (I2 x X). auto.
    + split; auto. intros x X. destruct (I2 x X). auto.
Qed.

Lemma upd_kids_nodup : forall live ch', NoDup (map n_key (n_kids live)) -> NoDup (map n_key ch') ->
  NoDup (map n_key (upd_kids live ch')).
Proof.
  intros live ch' NL NN. unfold upd_kids. rewrite map_app.
  destruct (kept_keys (survivors live ch') (n_kids live) (survivors_keys live ch') NL) as [K1 K2].
  apply nodup_app'; auto.
  - apply nodup_map_filter. exact NN.
  - intros x X Y. destruct (K2 x X) as [_ Q]. rewrite (survivors_lookup live ch' x NN) in Q.
    apply in_map_iff in Y. destruct Y as [n'' [E Y]]. apply filter_In in Y. destruct Y as [Y1 Y2].
    subst x. rewrite (find_kid_in ch' n'' NN Y1) in Q.
    destruct (survivor_of (n_kids live) n''); [discriminate|]. apply Q. reflexivity.
Qed.

Lemma upd_quals_nodup : forall lq nq, NoDup (map fst lq) -> NoDup (map fst nq) ->
  NoDup (map fst (upd_quals lq nq)).
Proof.
  intros lq nq NL NN. unfold upd_quals. rewrite map_app.
  assert (A : NoDup (map fst (flat_map (fun q => match find_q (fst q) nq with Some (_, v') => [(fst q, (fst (snd q), v'))] | None => [] end) lq)) /\
              forall x, In x (map fst (flat_map (fun q => match find_q (fst q) nq with Some (_, v') => [(fst q, (fst (snd q), v'))] | None => [] end) lq)) -> In x (map fst lq)).
  { clear NN. induction lq as [|[k0 [o0 v0]] r IH]; simpl.
    - split; [constructor|]. intros x [].
    - inversion NL; subst. destruct (IH H2) as [I1 I2].
      destruct (find_q k0 nq) as [[o' v']|]; simpl.
      + split; [constructor; auto|]. intros x [X|X]; auto.
      + split; auto. }
  destruct A as [A1 A2].
  apply nodup_app'; auto.
  - apply nodup_map_filter. exact NN.
  - intros x X Y. apply A2 in X. apply in_map_iff in Y. destruct Y as [[k v] [E Y]]. simpl in E. subst k.
    apply filter_In in Y. destruct Y as [_ Y]. simpl in Y.
    destruct (find_q x lq) eqn:F; [discriminate|]. apply find_q_none in F. contradiction.
Qed.

Lemma wf1_upd : forall live new us, wf1 live -> wf1 new -> wf1 (upd live new us).
Proof.
  intros live new us [L1 L2] [N1 N2]. destruct (upd_fields live new us) as [_ [_ [_ [_ [_ [F6 F7]]]]]].
  unfold wf1. rewrite F6, F7. split; [apply upd_kids_nodup|apply upd_quals_nodup]; auto.
Qed.

Lemma wf_upd : forall live new us, wf live -> wf new -> wf (upd live new us).
Proof.
  intros live new us WL WN p. revert live new us WL WN.
  induction p as [|k p IH]; intros live new us WL WN r R.
  - simpl in R. inversion R; subst. apply wf1_upd; apply wf_root; assumption.
  - simpl in R. rewrite (kid_lookup live new us k (wf_root _ WL) (wf_root _ WN)) in R.
    destruct (find_kid k (n_kids new)) as [n'|] eqn:FN; [|discriminate].
    destruct (find_kid_key _ _ _ FN) as [KN _].
    destruct (survivor_of (n_kids live) n') as [l|] eqn:S.
    + destruct (survivor_key _ _ _ S) as [FL _]. rewrite KN in FL.
      apply (IH l n' true (wf_kid _ _ _ WL FL) (wf_kid _ _ _ WN FN) r R).
    + apply (wf_kid _ _ _ WN FN p r R).
Qed.
