(* Lemmas about model/UpdateFrom.v: what update_from does to every path of the tree. *)
From Coq Require Import List ZArith Bool Arith Lia.
From Basyx Require Import model.UpdateFrom.
Import ListNotations.
Local Open Scope nat_scope.

(* ---- an equation for upd without the inner fix ---------------------------- *)

Definition survivors (live : node) (ch' : list node) : list (nat * node) :=
  flat_map (fun n' => match survivor_of (n_kids live) n' with
                      | Some l => [(n_key n', upd l n' true)]
                      | None => []
                      end) ch'.

Definition upd_kids (live : node) (ch' : list node) : list node :=
  flat_map (fun l => match find_q (n_key l) (survivors live ch') with Some u => [u] | None => [] end) (n_kids live)
  ++ filter (fun n' => match survivor_of (n_kids live) n' with Some _ => false | None => true end) ch'.

Lemma upd_eq : forall live o' c' k' p' s' q' ch' us,
  upd live (Node o' c' k' p' s' q' ch') us =
  Node (n_oid live) (n_cls live) k' p' (if us then s' else n_src live)
       (upd_quals (n_quals live) q') (upd_kids live ch').
Proof.
  intros. simpl. unfold upd_kids.
  assert (E : (fix go (news : list node) : list (nat * node) :=
                 match news with
                 | [] => []
                 | n' :: r => match survivor_of (n_kids live) n' with
                              | Some l => (n_key n', upd l n' true) :: go r
                              | None => go r
                              end
                 end) ch' = survivors live ch').
  { induction ch' as [|n' r IH]; simpl; auto. destruct (survivor_of (n_kids live) n'); simpl; rewrite IH; reflexivity. }
  rewrite E. reflexivity.
Qed.

Lemma upd_fields : forall live new us,
  n_oid (upd live new us) = n_oid live /\ n_cls (upd live new us) = n_cls live /\
  n_key (upd live new us) = n_key new /\ n_pay (upd live new us) = n_pay new /\
  n_src (upd live new us) = (if us then n_src new else n_src live) /\
  n_quals (upd live new us) = upd_quals (n_quals live) (n_quals new) /\
  n_kids (upd live new us) = upd_kids live (n_kids new).
Proof. intros live [o' c' k' p' s' q' ch'] us. rewrite upd_eq. simpl. repeat split; reflexivity. Qed.

(* ---- lookups ---------------------------------------------------------------- *)

Lemma find_kid_key : forall k l x, find_kid k l = Some x -> n_key x = k /\ In x l.
Proof.
  induction l as [|y r IH]; simpl; intros x H; [discriminate|].
  destruct (Nat.eqb (n_key y) k) eqn:E.
  - inversion H; subst. apply Nat.eqb_eq in E. auto.
  - destruct (IH x H). auto.
Qed.
Lemma find_kid_none : forall k l, find_kid k l = None <-> ~ In k (map n_key l).
Proof.
  induction l as [|y r IH]; simpl; [tauto|].
  destruct (Nat.eqb (n_key y) k) eqn:E.
  - apply Nat.eqb_eq in E. split; [discriminate|]. intro H. exfalso. apply H. auto.
  - apply Nat.eqb_neq in E. rewrite IH. tauto.
Qed.
Lemma find_kid_app : forall k a b, find_kid k (a ++ b) = match find_kid k a with Some x => Some x | None => find_kid k b end.
Proof.
  induction a as [|y r IH]; simpl; intro b; auto. destruct (Nat.eqb (n_key y) k); auto.
Qed.
Lemma find_q_none : forall {B} k (l : list (nat * B)), find_q k l = None <-> ~ In k (map fst l).
Proof.
  induction l as [|[k' v] r IH]; simpl; [tauto|].
  destruct (Nat.eqb k' k) eqn:E.
  - apply Nat.eqb_eq in E. split; [discriminate|]. intro H. exfalso. apply H. auto.
  - apply Nat.eqb_neq in E. rewrite IH. tauto.
Qed.
Lemma find_q_app : forall {B} k (a b : list (nat * B)),
  find_q k (a ++ b) = match find_q k a with Some x => Some x | None => find_q k b end.
Proof.
  induction a as [|[k' v] r IH]; simpl; intro b; auto. destruct (Nat.eqb k' k); auto.
Qed.

Lemma survivor_key : forall lk n' l, survivor_of lk n' = Some l ->
  find_kid (n_key n') lk = Some l /\ n_cls l = n_cls n' /\ n_key l = n_key n'.
Proof.
  intros lk n' l H. unfold survivor_of in H. destruct (find_kid (n_key n') lk) as [x|] eqn:F; [|discriminate].
  destruct (Nat.eqb (n_cls x) (n_cls n')) eqn:E; [|discriminate]. inversion H; subst.
  apply Nat.eqb_eq in E. destruct (find_kid_key _ _ _ F). auto.
Qed.

(* the survivor table, looked up by key *)
Lemma survivors_lookup : forall live ch' k, NoDup (map n_key ch') ->
  find_q k (survivors live ch') =
  match find_kid k ch' with
  | Some n' => match survivor_of (n_kids live) n' with Some l => Some (upd l n' true) | None => None end
  | None => None
  end.
Proof.
  induction ch' as [|n' r IH]; simpl; intros k ND; auto.
  inversion ND; subst. unfold survivors in *. simpl.
  destruct (Nat.eqb (n_key n') k) eqn:E.
  - apply Nat.eqb_eq in E. destruct (survivor_of (n_kids live) n') as [l|] eqn:S; simpl.
    + rewrite E, Nat.eqb_refl. reflexivity.
    + rewrite IH by assumption. subst k.
      assert (X : find_kid (n_key n') r = None) by (apply find_kid_none; exact H1). rewrite X. reflexivity.
  - destruct (survivor_of (n_kids live) n') as [l|] eqn:S; simpl.
    + rewrite E. apply IH. exact H2.
    + apply IH. exact H2.
Qed.
Lemma survivors_keys : forall live ch' kk u, In (kk, u) (survivors live ch') -> n_key u = kk.
Proof.
  intros live ch' kk u H. unfold survivors in H. apply in_flat_map in H. destruct H as [n' [_ H]].
  destruct (survivor_of (n_kids live) n'); [|contradiction]. destruct H as [H|[]]. inversion H; subst.
  destruct (upd_fields n n' true) as [_ [_ [K _]]]. exact K.
Qed.
Lemma find_q_in : forall {B} k (l : list (nat * B)) v, find_q k l = Some v -> In (k, v) l.
Proof.
  induction l as [|[k' v'] r IH]; simpl; intros v H; [discriminate|].
  destruct (Nat.eqb k' k) eqn:E.
  - apply Nat.eqb_eq in E. inversion H; subst. auto.
  - auto.
Qed.

(* first half of the children: the live children that survive, updated, in live order *)
Lemma kept_lookup : forall (surv : list (nat * node)) lk k,
  (forall kk u, In (kk, u) surv -> n_key u = kk) -> NoDup (map n_key lk) ->
  find_kid k (flat_map (fun l => match find_q (n_key l) surv with Some u => [u] | None => [] end) lk) =
  match find_kid k lk with Some _ => find_q k surv | None => None end.
Proof.
  intros surv lk k HK. induction lk as [|l r IH]; simpl; intro ND; auto.
  inversion ND; subst.
  assert (REST : Nat.eqb (n_key l) k = true ->
            find_kid k (flat_map (fun l => match find_q (n_key l) surv with Some u => [u] | None => [] end) r) = None).
  { intro E. apply Nat.eqb_eq in E. rewrite IH by assumption.
    assert (X : find_kid k r = None) by (apply find_kid_none; subst; exact H1). rewrite X. reflexivity. }
  destruct (find_q (n_key l) surv) as [u|] eqn:F; simpl.
  - assert (KU : n_key u = n_key l) by (apply (HK _ _ (find_q_in _ _ _ F))). rewrite KU.
    destruct (Nat.eqb (n_key l) k) eqn:E.
    + apply Nat.eqb_eq in E. subst k. rewrite F. reflexivity.
    + apply IH. exact H2.
  - destruct (Nat.eqb (n_key l) k) eqn:E.
    + rewrite (REST eq_refl). apply Nat.eqb_eq in E. subst k. rewrite F. reflexivity.
    + apply IH. exact H2.
Qed.

(* second half: the copy's children that are new or whose class changed *)
Lemma added_lookup : forall lk ch' k, NoDup (map n_key ch') ->
  find_kid k (filter (fun n' => match survivor_of lk n' with Some _ => false | None => true end) ch') =
  match find_kid k ch' with
  | Some n' => match survivor_of lk n' with Some _ => None | None => Some n' end
  | None => None
  end.
Proof.
  induction ch' as [|n' r IH]; simpl; intros k ND; auto.
  inversion ND; subst.
  destruct (survivor_of lk n') as [l|] eqn:S; simpl.
  - destruct (Nat.eqb (n_key n') k) eqn:E.
    + rewrite IH by assumption. apply Nat.eqb_eq in E. subst k.
      assert (X : find_kid (n_key n') r = None) by (apply find_kid_none; exact H1). rewrite X, S. reflexivity.
    + apply IH. exact H2.
  - destruct (Nat.eqb (n_key n') k) eqn:E; [rewrite S; reflexivity|apply IH; exact H2].
Qed.

Definition wf1 (n : node) : Prop := NoDup (map n_key (n_kids n)) /\ NoDup (map fst (n_quals n)).

(* C12_children: the child collection after the update, looked up by idShort *)
Lemma kid_lookup : forall live new us k, wf1 live -> wf1 new ->
  find_kid k (n_kids (upd live new us)) =
  match find_kid k (n_kids new) with
  | None => None
  | Some n' => match survivor_of (n_kids live) n' with
               | Some l => Some (upd l n' true)
               | None => Some n'
               end
  end.
Proof.
  intros live new us k [WL _] [WN _].
  destruct (upd_fields live new us) as [_ [_ [_ [_ [_ [_ K]]]]]]. rewrite K. unfold upd_kids.
  rewrite find_kid_app.
  rewrite (kept_lookup (survivors live (n_kids new)) (n_kids live) k (survivors_keys live (n_kids new)) WL).
  rewrite (survivors_lookup live (n_kids new) k WN).
  rewrite (added_lookup (n_kids live) (n_kids new) k WN).
  destruct (find_kid k (n_kids new)) as [n'|] eqn:FN.
  - destruct (survivor_of (n_kids live) n') as [l|] eqn:S.
    + destruct (survivor_key _ _ _ S) as [F [_ _]]. destruct (find_kid_key _ _ _ FN) as [KN _].
      rewrite KN in F. rewrite F. reflexivity.
    + destruct (find_kid k (n_kids live)); reflexivity.
  - destruct (find_kid k (n_kids live)); reflexivity.
Qed.

(* qualifiers / extensions after the update, looked up by type / name *)
Lemma qual_lookup : forall lq nq k, NoDup (map fst lq) -> NoDup (map fst nq) ->
  find_q k (upd_quals lq nq) =
  match find_q k nq with
  | None => None
  | Some (o', v') => match find_q k lq with Some (o, _) => Some (o, v') | None => Some (o', v') end
  end.
Proof.
  intros lq nq k NL NN. unfold upd_quals. rewrite find_q_app.
  assert (A : find_q k (flat_map (fun q => match find_q (fst q) nq with Some (_, v') => [(fst q, (fst (snd q), v'))] | None => [] end) lq) =
              match find_q k lq with
              | Some (o, _) => match find_q k nq with Some (_, v') => Some (o, v') | None => None end
              | None => None end).
  { clear NN. induction lq as [|[k0 [o0 v0]] r IH]; simpl; auto. inversion NL; subst.
    destruct (Nat.eqb k0 k) eqn:E.
    - apply Nat.eqb_eq in E. subst k0. destruct (find_q k nq) as [[o' v']|] eqn:F; simpl.
      + rewrite Nat.eqb_refl. reflexivity.
      + rewrite IH by assumption. assert (X : find_q k r = None) by (apply find_q_none; exact H1). rewrite X. reflexivity.
    - destruct (find_q k0 nq) as [[o' v']|]; simpl; [rewrite E|]; apply IH; assumption. }
  assert (B : find_q k (filter (fun q => match find_q (fst q) lq with Some _ => false | None => true end) nq) =
              match find_q k nq with
              | Some x => match find_q k lq with Some _ => None | None => Some x end
              | None => None end).
  { clear A NL. induction nq as [|[k0 x0] r IH]; simpl; auto. inversion NN; subst.
    destruct (find_q k0 lq) as [y|] eqn:F; simpl.
    - destruct (Nat.eqb k0 k) eqn:E.
      + rewrite IH by assumption. apply Nat.eqb_eq in E. subst k0.
        assert (X : find_q k r = None) by (apply find_q_none; exact H1). rewrite X, F. reflexivity.
      + apply IH. assumption.
    - destruct (Nat.eqb k0 k) eqn:E.
      + apply Nat.eqb_eq in E. subst k0. rewrite F. reflexivity.
      + apply IH. assumption. }
  rewrite A, B. destruct (find_q k nq) as [[o' v']|]; destruct (find_q k lq) as [[o v]|]; reflexivity.
Qed.
