(* C18: stripped rendering = full rendering of the stripped value; stripped reading = stripping of the full reading. *)
From Coq Require Import List Bool String Lia.
From Basyx Require Import model.Codec model.CodecSpec model.Strip proofs.CodecProofs.
Import ListNotations.
Local Open Scope string_scope.

Section Writer.
Variable T : tables.
Variable lt : string -> bool.
Hypothesis Hg : guards_ok T = true.
Notation EAt := (enc_auto T lt true).
Notation EAf := (enc_auto T lt false).
Notation SW := (strip_w T).

Lemma guards_ok_class cls c : sfind cls T = Some c -> forallb (guard_cond_ok c) (c_w c) = true.
Proof.
  intros H. unfold guards_ok in Hg. rewrite forallb_forall in Hg. apply sfind_In in H. exact (Hg _ H).
Qed.

(* strip_w keeps the head shape and is the identity on scalars *)
Lemma strip_w_shape v :
  match v with
  | VNone => SW v = VNone | VStr s => SW v = VStr s | VBool b => SW v = VBool b | VLeaf s => SW v = VLeaf s
  | VList l => SW v = VList (map SW l)
  | VObj cls _ => exists fs', SW v = VObj cls fs'
  end.
Proof.
  destruct v as [|s|b|s|l|cls fs]; try reflexivity. cbn [strip_w].
  destruct (sfind cls T); eauto.
Qed.

Lemma truthy_strip v : truthy lt (SW v) = truthy lt v.
Proof.
  pose proof (strip_w_shape v) as H. destruct v as [|s|b|s|l|cls fs]; try (rewrite H; reflexivity).
  - rewrite H. destruct l; reflexivity.
  - destruct H as [fs' ->]. reflexivity.
Qed.

Definition strip_fields (c : crules) :=
  (fix go (l : list (string * value)) : list (string * value) :=
     match l with
     | [] => []
     | (a, x) :: l' =>
       (a, match find_w a (c_w c) with
           | Some r => if w_unstripped_only r then VList [] else SW x
           | None => SW x
           end) :: go l'
     end).

Lemma strip_w_obj cls fs c : sfind cls T = Some c -> SW (VObj cls fs) = VObj cls (strip_fields c fs).
Proof. intros H. cbn [strip_w]. rewrite H. reflexivity. Qed.

Lemma sfind_strip_fields c o fs :
  sfind o (strip_fields c fs) =
  match sfind o fs with
  | Some x => Some (match find_w o (c_w c) with
                    | Some r => if w_unstripped_only r then VList [] else SW x
                    | None => SW x end)
  | None => None
  end.
Proof.
  induction fs as [|[a x] fs IH]; [reflexivity|]. cbn [strip_fields sfind].
  destruct (String.eqb_spec o a) as [->|]; [reflexivity|exact IH].
Qed.

Lemma cond_strip c fs r x :
  In r (c_w c) -> guard_cond_ok c r = true -> w_unstripped_only r = false ->
  cond_holds lt (w_cond r) (strip_fields c fs) (SW x) = cond_holds lt (w_cond r) fs x.
Proof.
  intros Hin Hok Hu. unfold guard_cond_ok in Hok. rewrite Hu in Hok.
  pose proof (strip_w_shape x) as Hs.
  destruct (w_cond r) as [| | | |o|m]; cbn [cond_holds].
  - reflexivity.
  - apply truthy_strip.
  - destruct x; try (rewrite Hs; reflexivity). destruct Hs as [fs' ->]. reflexivity.
  - destruct x as [|s|b|s|l|cls xs]; try (rewrite Hs; reflexivity).
    + rewrite Hs. destruct l; reflexivity.
    + destruct Hs as [fs' ->]. reflexivity.
  - rewrite sfind_strip_fields. destruct (sfind o fs) as [ov|]; [|reflexivity].
    rewrite truthy_strip. destruct (find_w o (c_w c)) as [ro|].
    + apply negb_true_iff in Hok. rewrite Hok. now rewrite truthy_strip.
    + now rewrite truthy_strip.
  - destruct x; try (rewrite Hs; reflexivity). destruct Hs as [fs' ->]. reflexivity.
Qed.

Lemma existsb_strip (f : value -> bool) l :
  (forall y, f (SW y) = f y) -> existsb f (map SW l) = existsb f l.
Proof. intros H. induction l as [|y l IH]; cbn; [reflexivity|]. now rewrite H, IH. Qed.

Lemma enc_with_strip e x : EAt x = EAf (SW x) -> enc_with EAt e x = enc_with EAf e (SW x).
Proof.
  intros HP. pose proof (strip_w_shape x) as Hs. destruct e as [| |t|m|m|t]; cbn [enc_with].
  - exact HP.
  - destruct x; try (rewrite Hs; reflexivity). destruct Hs as [fs' ->]. reflexivity.
  - unfold enc_enum. destruct x; try (rewrite Hs; reflexivity). destruct Hs as [fs' ->]. reflexivity.
  - destruct x as [|s|b|s|l|cls xs]; try (rewrite Hs; reflexivity).
    + rewrite Hs in *. cbn [enc_auto] in HP. injection HP as HP.
      f_equal. rewrite <- (map_map EAt (fun d => DObj [(m, d)])).
      rewrite <- (map_map EAf (fun d => DObj [(m, d)]) (map SW l)). now rewrite HP.
    + destruct Hs as [fs' ->]. reflexivity.
  - now rewrite HP.
  - unfold enc_level. destruct x as [|s|b|s|l|cls xs]; try (rewrite Hs; reflexivity).
    + rewrite Hs. f_equal. apply map_ext. intros kv. f_equal. f_equal. symmetry. apply existsb_strip.
      intros y. pose proof (strip_w_shape y) as Hy. destruct y; try (rewrite Hy; reflexivity).
      destruct Hy as [fs' ->]. reflexivity.
    + destruct Hs as [fs' ->]. reflexivity.
Qed.

Theorem enc_stripped_is_strip : forall v, EAt v = EAf (SW v).
Proof.
  induction v as [|s|bb|lx|l IH|cls fs IH] using value_ind2; try reflexivity.
  - cbn [strip_w enc_auto]. f_equal. rewrite map_map. apply map_ext_in. intros x Hx.
    rewrite Forall_forall in IH. exact (IH x Hx).
  - destruct (sfind cls T) as [c|] eqn:Ec.
    + rewrite (strip_w_obj cls fs c Ec). cbn [enc_auto]. rewrite Ec. f_equal. f_equal.
      pose proof (guards_ok_class cls c Ec) as Hgc. rewrite forallb_forall in Hgc.
      (* generalise the traversed suffix; the condition context stays the whole field list *)
      assert (Hsuf : forall l, Forall (fun p => EAt (snd p) = EAf (SW (snd p))) l ->
        (fix fields (l : list (string * value)) : list (string * doc) :=
           match l with
           | [] => []
           | (a, x) :: l' =>
             match find_w a (c_w c) with
             | Some r => if (w_unstripped_only r && true) || negb (cond_holds lt (w_cond r) fs x)
                         then fields l' else (w_member r, enc_with EAt (w_enc r) x) :: fields l'
             | None => fields l'
             end
           end) l =
        (fix fields (l : list (string * value)) : list (string * doc) :=
           match l with
           | [] => []
           | (a, x) :: l' =>
             match find_w a (c_w c) with
             | Some r => if (w_unstripped_only r && false) || negb (cond_holds lt (w_cond r) (strip_fields c fs) x)
                         then fields l' else (w_member r, enc_with EAf (w_enc r) x) :: fields l'
             | None => fields l'
             end
           end) (strip_fields c l)).
      { induction l as [|[a x] l IHl]; intros HF; [reflexivity|].
        inversion HF as [|? ? Hx HF']; subst. cbn [strip_fields snd] in *.
        destruct (find_w a (c_w c)) as [r|] eqn:Er; [|exact (IHl HF')].
        destruct (find_w_spec _ _ _ Er) as [Hrin _]. specialize (Hgc r Hrin).
        destruct (w_unstripped_only r) eqn:Eu.
        - (* detachable: skipped by the stripped writer, empty in the stripped value *)
          cbn [andb orb]. unfold guard_cond_ok in Hgc. rewrite Eu in Hgc.
          assert (Hc : cond_holds lt (w_cond r) (strip_fields c fs) (VList []) = false)
            by (destruct (w_cond r); try discriminate; reflexivity).
          rewrite Hc. cbn [negb]. exact (IHl HF').
        - cbn [andb orb]. rewrite (cond_strip c fs r x Hrin Hgc Eu).
          destruct (cond_holds lt (w_cond r) fs x); cbn [negb]; [|exact (IHl HF')].
          f_equal; [|exact (IHl HF')]. f_equal. now apply enc_with_strip. }
      exact (Hsuf fs IH).
    + cbn [strip_w]. rewrite Ec. cbn [enc_auto]. rewrite Ec. reflexivity.
Qed.

End Writer.

(* ---------- readers ---------- *)
Section DocInd.
  Variable P : doc -> Prop.
  Hypothesis HNull : P DNull.
  Hypothesis HStr : forall s, P (DStr s).
  Hypothesis HBool : forall b, P (DBool b).
  Hypothesis HRaw : P DRaw.
  Hypothesis HList : forall l, Forall P l -> P (DList l).
  Hypothesis HObj : forall ms, Forall (fun p => P (snd p)) ms -> P (DObj ms).
  Fixpoint doc_ind2 (d : doc) : P d :=
    match d with
    | DNull => HNull | DStr s => HStr s | DBool b => HBool b | DRaw => HRaw
    | DList l => HList l ((fix go (l : list doc) : Forall P l :=
                             match l with [] => Forall_nil _ | x :: r => Forall_cons _ (doc_ind2 x) (go r) end) l)
    | DObj ms => HObj ms ((fix go (l : list (string * doc)) : Forall (fun p => P (snd p)) l :=
                             match l with [] => Forall_nil _
                                        | x :: r => Forall_cons _ (doc_ind2 (snd x)) (go r) end) ms)
    end.
End DocInd.

Definition scalar (v : value) : bool :=
  match v with VList _ => false | VObj _ _ => false | _ => true end.
Definition defaults_scalar (T : tables) : bool :=
  forallb (fun p => forallb (fun r => match r_cond r with RDefault dv => scalar dv | _ => true end) (c_r (snd p))) T.
Definition meta_nodup (M : meta) : bool := forallb (fun p => nodup_str (map fst (snd p))) M.

Section Reader.
Variable T : tables.
Variable M : meta.
Hypothesis Hdef : defaults_scalar T = true.
Hypothesis Hnd : meta_nodup M = true.
Notation Df := (dec T M false).
Notation Dt := (dec T M true).
Notation SR := (strip_r T M).

Lemma SR_scalar v : scalar v = true -> SR v = v.
Proof. destruct v; cbn; try discriminate; reflexivity. Qed.
Lemma SR_absent k : SR (absent_value k) = absent_value k.
Proof. unfold absent_value. destruct (k_opt k); [reflexivity|]. destruct (k_base k); reflexivity. Qed.

Definition go_st (st : bool) (c : crules) :=
  (fix go (l : list (string * doc)) : list (string * option value) :=
     match l with
     | [] => []
     | (m, dj) :: l' =>
       match find_r_member m (c_r c) with
       | Some r => (m, dec T M st (r_dec r) dj) :: go l'
       | None => go l'
       end
     end).

Lemma dec_obj_st st cls ms :
  dec T M st (DcObj cls) (DObj ms) =
  match sfind cls T, sfind cls M with
  | Some c, Some attrs =>
    match all_some (map (dec_field st c ms (go_st st c ms)) attrs) with
    | Some fs => Some (VObj cls fs)
    | None => None
    end
  | _, _ => None
  end.
Proof. cbn [dec]. destruct (sfind cls T), (sfind cls M); reflexivity. Qed.

Lemma dec_ref_st st classes ms :
  dec T M st (DcRef classes) (DObj ms) =
  match class_of_const T "type" classes ms with Some cls => dec T M st (DcObj cls) (DObj ms) | None => None end.
Proof. cbn [dec]. destruct (class_of_const T "type" classes ms); reflexivity. Qed.
Lemma dec_auto_st st classes ms :
  dec T M st (DcAuto classes) (DObj ms) =
  match class_of_const T "modelType" classes ms with Some cls => dec T M st (DcObj cls) (DObj ms) | None => None end.
Proof. cbn [dec]. destruct (class_of_const T "modelType" classes ms); reflexivity. Qed.

Lemma dec_field_st st c ms decoded a k :
  dec_field st c ms decoded (a, k) =
  match find_r a (c_r c) with
  | None => Some (a, absent_value k)
  | Some r => if r_unstripped_only r && st then Some (a, absent_value k)
              else rr (r_cond r) a k (sfind (r_member r) ms) (sfind (r_member r) decoded) (fun o => sfind o ms)
  end.
Proof.
  unfold dec_field. cbn [fst snd]. destruct (find_r a (c_r c)) as [r|]; [|reflexivity].
  destruct (r_unstripped_only r && st); reflexivity.
Qed.

Lemma rr_fst rc a k md p look a' x : rr rc a k md p look = Some (a', x) -> a' = a.
Proof.
  unfold rr. intros H.
  destruct rc as [| | |o|dv]; destruct p as [[v|]|]; try discriminate;
    try (injection H as <- _; reflexivity).
  - destruct md as [[]|]; try discriminate; injection H as <- _; reflexivity.
  - destruct md as [[]|]; try discriminate; injection H as <- _; reflexivity.
  - destruct (look o); injection H as <- _; reflexivity.
  - destruct (look o); try discriminate; injection H as <- _; reflexivity.
  - destruct (look o); injection H as <- _; reflexivity.
Qed.

Lemma dec_field_fst st c ms decoded a k a' x : dec_field st c ms decoded (a, k) = Some (a', x) -> a' = a.
Proof.
  rewrite dec_field_st. destruct (find_r a (c_r c)) as [r|].
  - destruct (r_unstripped_only r && st).
    + intros H. injection H as <- _. reflexivity.
    + apply rr_fst.
  - intros H. injection H as <- _. reflexivity.
Qed.

Definition rel (pF pT : option (option value)) : Prop :=
  match pF, pT with
  | None, None => True
  | Some (Some v), Some (Some v') => v' = SR v
  | Some None, Some _ => True
  | _, _ => False
  end.

Lemma rr_strip rc a k mdoc pF pT look x :
  match rc with RDefault dv => scalar dv = true | _ => True end ->
  rel pF pT -> rr rc a k mdoc pF look = Some (a, x) -> rr rc a k mdoc pT look = Some (a, SR x).
Proof.
  intros Hdv Hrel H. unfold rel in Hrel.
  destruct rc as [| | |o|dv]; cbn in *.
  - destruct pF as [[v|]|], pT as [[v'|]|]; try discriminate; try tauto. injection H as <-. now subst.
  - destruct pF as [[v|]|], pT as [[v'|]|]; try discriminate; try tauto.
    + injection H as <-. now subst.
    + injection H as <-. now rewrite SR_absent.
  - destruct pF as [[v|]|], pT as [[v'|]|]; try discriminate; try tauto;
      destruct mdoc as [[]|]; try discriminate; try (injection H as <-; subst; try rewrite SR_absent; reflexivity).
  - destruct (look o); [|injection H as <-; now rewrite SR_absent].
    destruct pF as [[v|]|], pT as [[v'|]|]; try discriminate; try tauto.
    + injection H as <-. now subst.
    + injection H as <-. now rewrite SR_absent.
  - destruct pF as [[v|]|], pT as [[v'|]|]; try discriminate; try tauto.
    + injection H as <-. now subst.
    + injection H as <-. now rewrite (SR_scalar _ Hdv).
Qed.

Lemma all_some_inv {A B} (f : A -> option B) l ys :
  all_some (map f l) = Some ys -> Forall2 (fun a b => f a = Some b) l ys.
Proof.
  revert ys. induction l as [|x l IH]; cbn; intros ys H.
  - injection H as <-. constructor.
  - destruct (f x) as [y|] eqn:E; [|discriminate].
    destruct (all_some (map f l)) as [ys'|]; [|discriminate]. injection H as <-.
    constructor; [exact E|]. apply IH. reflexivity.
Qed.

Definition PD (j : doc) : Prop := forall d v, Df d j = Some v -> Dt d j = Some (SR v).

Lemma list_strip {A} (f g : A -> option value) (l : list A) vs :
  Forall (fun x => forall v, f x = Some v -> g x = Some (SR v)) l ->
  all_some (map f l) = Some vs -> all_some (map g l) = Some (map SR vs).
Proof.
  intros HF H. apply all_some_inv in H. apply all_some_forall2.
  revert HF. induction H as [|x v l vs Hx H IH]; intros HF; cbn; constructor.
  - inversion HF; subst. auto.
  - apply IH. inversion HF; subst. assumption.
Qed.

Lemma rel_decoded c ms : Forall (fun p => PD (snd p)) ms ->
  forall m, rel (sfind m (go_st false c ms)) (sfind m (go_st true c ms)).
Proof.
  intros HF m. induction ms as [|[m' dj] ms IH]; [exact I|].
  inversion HF as [|? ? Hd HF']; subst. cbn [snd] in Hd. cbn [go_st].
  destruct (find_r_member m' (c_r c)) as [r|]; [|exact (IH HF')].
  cbn [sfind]. destruct (String.eqb m m'); [|exact (IH HF')].
  cbn. destruct (Df (r_dec r) dj) as [v|] eqn:E.
  - rewrite (Hd _ _ E). reflexivity.
  - exact I.
Qed.

Lemma level_scalar t j v : dec_level t j = Some v -> SR v = v.
Proof.
  unfold dec_level. destruct j; try discriminate. destruct (forallb _ ms); [|discriminate].
  intros H. injection H as <-. cbn [strip_r]. f_equal.
  induction t as [|kv t IH]; [reflexivity|]. cbn [flat_map]. rewrite map_app, IH. f_equal.
  destruct (sfind (snd kv) ms) as [[| |[]| | |]|]; reflexivity.
Qed.

Lemma rdefault_scalar cls c r : sfind cls T = Some c -> In r (c_r c) ->
  match r_cond r with RDefault dv => scalar dv = true | _ => True end.
Proof.
  intros Hc Hr. unfold defaults_scalar in Hdef. rewrite forallb_forall in Hdef.
  apply sfind_In in Hc. specialize (Hdef _ Hc). cbn in Hdef. rewrite forallb_forall in Hdef.
  specialize (Hdef _ Hr). destruct (r_cond r); auto.
Qed.

Lemma obj_strip cls ms v :
  Forall (fun p => PD (snd p)) ms ->
  Df (DcObj cls) (DObj ms) = Some v -> Dt (DcObj cls) (DObj ms) = Some (SR v).
Proof.
  intros HF H. rewrite dec_obj_st in *.
  destruct (sfind cls T) as [c|] eqn:Ec; [|discriminate].
  destruct (sfind cls M) as [attrs|] eqn:Em; [|discriminate].
  destruct (all_some (map (dec_field false c ms (go_st false c ms)) attrs)) as [fs|] eqn:Ea; [|discriminate].
  injection H as <-. cbn [strip_r]. rewrite Ec, Em.
  assert (HndA : NoDup (map fst attrs)).
  { unfold meta_nodup in Hnd. rewrite forallb_forall in Hnd. apply sfind_In in Em.
    apply nodup_str_NoDup. exact (Hnd _ Em). }
  apply all_some_inv in Ea.
  erewrite all_some_forall2; [reflexivity|].
  (* walk both lists in step *)
  assert (Hgen : forall attrs' fs', Forall2 (fun ak ax => dec_field false c ms (go_st false c ms) ak = Some ax) attrs' fs' ->
            (forall ak, In ak attrs' -> sfind (fst ak) attrs = Some (snd ak)) ->
            Forall2 (fun ak ax => dec_field true c ms (go_st true c ms) ak = Some ax) attrs'
              ((fix go (l : list (string * value)) : list (string * value) :=
                  match l with
                  | [] => []
                  | (a, x) :: l' =>
                    (a, match find_r a (c_r c), sfind a attrs with
                        | Some r, Some k => if r_unstripped_only r then absent_value k else SR x
                        | _, _ => SR x
                        end) :: go l'
                  end) fs')).
  { intros attrs' fs' HF2. induction HF2 as [|[a k] [a' x] l1 l2 Hax H IH]; intros Hin; [constructor|].
    assert (Hk : sfind a attrs = Some k) by (apply (Hin (a, k)); now left).
    pose proof (dec_field_fst _ _ _ _ _ _ _ _ Hax) as Ea'. subst a'.
    constructor; [|apply IH; intros ak Hak; apply Hin; now right].
    rewrite dec_field_st in *.
    destruct (find_r a (c_r c)) as [r|] eqn:Er.
    - rewrite Hk. rewrite andb_false_r in Hax. rewrite andb_true_r.
      destruct (r_unstripped_only r) eqn:Eu.
      + reflexivity.
      + apply rr_strip with (pF := sfind (r_member r) (go_st false c ms)).
        * destruct (find_r_spec _ _ _ Er) as [Hrin _]. exact (rdefault_scalar cls c r Ec Hrin).
        * apply rel_decoded. exact HF.
        * exact Hax.
    - injection Hax as <-. now rewrite SR_absent. }
  apply Hgen; [exact Ea|].
  intros [a k] Hak. cbn. apply In_sfind; assumption.
Qed.

Theorem dec_stripped_is_strip : forall j, PD j.
Proof.
  induction j as [|s|b| |l IH|ms IH] using doc_ind2; intros d v H.
  - rewrite CodecProofs.dec_null in H. discriminate.
  - destruct d; cbn in H; try discriminate; try (injection H as <-; reflexivity).
    destruct (rfind s t) eqn:Er; [|discriminate]. injection H as <-. cbn. rewrite Er. reflexivity.
  - destruct d; cbn in H; try discriminate; try (injection H as <-; reflexivity).
  - destruct d; cbn in H; discriminate.
  - destruct d; try (cbn in H; discriminate).
    + (* DcList *)
      cbn [dec] in *. destruct (all_some (map (Df d) l)) as [vs|] eqn:E; [|discriminate]. injection H as <-.
      rewrite (list_strip (Df d) (Dt d) l vs); [reflexivity| |exact E].
      rewrite Forall_forall in *. intros x Hx v' Hv. exact (IH x Hx d v' Hv).
    + (* DcListUnwrap *)
      cbn [dec] in *.
      match type of H with context [all_some (map ?f l)] => set (fF := f) in * end.
      destruct (all_some (map fF l)) as [vs|] eqn:E; [|discriminate]. injection H as <-.
      match goal with |- context [all_some (map ?g l)] => set (fT := g) end.
      rewrite (list_strip fF fT l vs); [reflexivity| |exact E].
      rewrite Forall_forall in *. intros x Hx v' Hv. subst fF fT. cbn in *.
      destruct x as [| | | | |[|[m' y] [|]]]; try discriminate.
      destruct (String.eqb member m'); [|discriminate].
      specialize (IH _ Hx (DcObjUnwrap m' d) v'). cbn [dec] in IH. rewrite String.eqb_refl in IH.
      exact (IH Hv).
  - destruct d; try (cbn in H; discriminate).
    + now apply obj_strip.
    + rewrite dec_ref_st in *. destruct (class_of_const T "type" classes ms); [|discriminate]. now apply obj_strip.
    + rewrite dec_auto_st in *. destruct (class_of_const T "modelType" classes ms); [|discriminate]. now apply obj_strip.
    + (* DcObjUnwrap *)
      cbn [dec] in *. destruct ms as [|[m' y] [|]]; try discriminate.
      destruct (String.eqb member m'); [|discriminate].
      inversion IH as [|? ? Hy _]; subst. exact (Hy d v H).
    + pose proof (level_scalar _ _ _ H) as Hs. cbn [dec] in *. rewrite Hs. exact H.
Qed.

End Reader.
