(* Finite checks over the *generated* rule tables (vm_compute over the whole tables). *)
From Coq Require Import List Bool String.
From Basyx Require Import model.XmlCodec model.XmlCompat model.XmlMeta gen.Gen_XmlWriter gen.Gen_XmlReader
  model.XmlEntry proofs.XmlCodecProofs.
Import ListNotations.
Local Open Scope string_scope.

Lemma gen_compat : compat xml_meta gen_xml_w gen_xml_r xml_pairs = true.
Proof. vm_compute. reflexivity. Qed.

Lemma gen_tops_ok : xml_tops_ok = true.
Proof. vm_compute. reflexivity. Qed.

Lemma gen_roots_in : forallb (fun t => tmem t xml_pairs) xml_roots = true.
Proof. vm_compute. reflexivity. Qed.

Lemma gen_closed : closure xml_meta gen_xml_w gen_xml_r 17 xml_roots = xml_pairs.
Proof. vm_compute. reflexivity. Qed.

Lemma gen_roundtrip : forall fl n fn c ctor v tag,
  tmem (fn, c, ctor) xml_pairs = true -> cls_of v = c -> wfb xml_meta n v = true ->
  exists x, enc_obj fl gen_xml_w n fn tag v = Ok x /\ xtag x = tag /\ dec_obj gen_xml_r xml_meta n ctor x = Ok v.
Proof. intros fl n. exact (roundtrip xml_meta gen_xml_w gen_xml_r xml_pairs fl gen_compat n). Qed.

Lemma gen_tops_in : forall t, In t xml_tops -> tmem (tl_fn t, tl_cls t, tl_ctor t) xml_pairs = true.
Proof.
  assert (H : forallb (fun t => tmem (tl_fn t, tl_cls t, tl_ctor t) xml_pairs) xml_tops = true) by (vm_compute; reflexivity).
  intros t Hin. rewrite forallb_forall in H. apply H. exact Hin.
Qed.

Lemma gen_tops_nodup : nodup_s (map tl_list xml_tops) = true.
Proof. vm_compute. reflexivity. Qed.

Lemma gen_store_roundtrip : forall fl n objs seen,
  (forall v, In v objs -> wfb xml_meta n v = true) ->
  add_all [] (read_back xml_tops objs) = Ok seen ->
  exists x, write_store fl gen_xml_w xml_tops n objs = Ok x /\
            read_store gen_xml_r xml_meta xml_tops n x = Ok (read_back xml_tops objs).
Proof.
  intros fl n objs seen Hwf Hids.
  exact (store_roundtrip xml_meta gen_xml_w gen_xml_r xml_pairs fl gen_compat xml_tops gen_tops_in gen_tops_nodup
           n objs Hwf seen Hids).
Qed.

(* single-object API *)
Lemma gen_single_unsupported : single_unsupported = ["SECURITY"; "IEC61360_CONCEPT_DESCRIPTION"].
Proof. vm_compute. reflexivity. Qed.

Lemma gen_single_in : forall m t, In (m, t) single_triples -> tmem t xml_pairs = true.
Proof.
  assert (H : forallb (fun mt : string * triple => tmem (snd mt) xml_pairs) single_triples = true)
    by (vm_compute; reflexivity).
  intros m t Hin. rewrite forallb_forall in H. exact (H (m, t) Hin).
Qed.

Lemma gen_single_roundtrip : forall fl n m fn c ctor v tag,
  In (m, (fn, c, ctor)) single_triples -> cls_of v = c -> wfb xml_meta n v = true ->
  exists x, enc_obj fl gen_xml_w n fn tag v = Ok x /\ xtag x = tag /\ dec_obj gen_xml_r xml_meta n ctor x = Ok v.
Proof.
  intros fl n m fn c ctor v tag Hin. apply gen_roundtrip. exact (gen_single_in m (fn, c, ctor) Hin).
Qed.

(* every class of the metamodel table that the single-object writer accepts is paired with a constructable *)
Lemma gen_single_classes :
  forallb (fun cw : string * (string * string * bool) =>
             match cw with (c, (_, _, raises)) =>
               negb raises && existsb (fun mt : string * triple => match snd mt with (_, c', _) => String.eqb c' c end)
                                      single_triples end) xml_w_single = true.
Proof. vm_compute. reflexivity. Qed.
