(* The hooks of a collection never change; only a constructor call creates collections.  Hence
   "SubmodelElementList hooks exist on idShort collections only" holds after every history whose
   constructor calls respect it. *)
From Coq Require Import List ZArith Bool String Ascii Arith Lia.
From Basyx Require Import model.Namespace proofs.NamespaceProofs proofs.NamespacePrim proofs.NamespaceOps4.
Import ListNotations.
Local Open Scope nat_scope.

Definition hk (s : state) : list (option lcfg) := map s_hooks (sets s).

Lemma map_upd_nth : forall {A B} (g : A -> B) (f : A -> A) l i, (forall x, g (f x) = g x) ->
  map g (upd_nth i f l) = map g l.
Proof.
  intros A B g f. induction l as [|x r IH]; intros i H; destruct i; simpl; auto.
  - rewrite H. reflexivity.
  - rewrite IH; auto.
Qed.
Lemma hk_upd_set_backend : forall s i f, hk (upd_set s i (fun st => with_backend (f st) st)) = hk s.
Proof. intros. unfold hk, upd_set. simpl. apply map_upd_nth. reflexivity. Qed.
Lemma hk_upd_set_backend' : forall s i b, hk (upd_set s i (with_backend b)) = hk s.
Proof. intros. unfold hk, upd_set. simpl. apply map_upd_nth. reflexivity. Qed.
Lemma hk_set_order : forall s i o, hk (set_order s i o) = hk s.
Proof. intros. unfold hk, set_order, upd_set. simpl. apply map_upd_nth. reflexivity. Qed.
Lemma hk_upd_elem : forall s e f, hk (upd_elem s e f) = hk s.
Proof. reflexivity. Qed.
Lemma hk_del_hook : forall s st e, hk (del_hook s st e) = hk s.
Proof. intros. unfold hk. rewrite sets_del_hook. reflexivity. Qed.

Section WithCfg.
Variable c : cfg.

Lemma hk_bind : forall s0 (r : res) f, hk (fst r) = hk s0 ->
  (forall s1, hk s1 = hk s0 -> hk (fst (f s1)) = hk s0) -> hk (fst (bind r f)) = hk s0.
Proof. intros s0 [s1 o] f H1 H2. unfold bind. destruct o; simpl in *; auto. Qed.

Lemma hk_ns_add : forall s i e, hk (fst (ns_add c s i e)) = hk s.
Proof.
  intros. unfold ns_add. destruct (nth_error (sets s) i) as [st|]; auto. cbv zeta.
  destruct (match e_parent (elems s e) with Some p => negb (Nat.eqb p (s_owner st)) | None => false end); auto.
  apply hk_bind.
  - unfold id_set_hook. destruct (s_hooks st); auto. destruct (e_key (elems s e)); auto. destruct (e_parent (elems s e)); auto.
  - intros s1 H1. destruct (validate_sets c (sets s1) (s_owner st) (e_key (elems s1 e))); auto.
    + apply hk_bind.
      * unfold add_hook. destruct (s_hooks st); auto. cbv zeta.
        destruct (check_constraints _ _ _); simpl; try rewrite hk_del_hook; auto.
      * intros s3 H3. unfold add_entry. cbv zeta. destruct (e_key _); simpl; auto.
        rewrite hk_upd_set_backend. exact H3.
    + apply hk_bind.
      * unfold add_hook. destruct (s_hooks st); auto. cbv zeta.
        destruct (check_constraints _ _ _); simpl; try rewrite hk_del_hook; auto.
      * intros s3 H3. unfold add_entry. cbv zeta. destruct (e_key _); simpl; auto.
        rewrite hk_upd_set_backend. exact H3.
Qed.

Lemma hk_ns_remove : forall s i e, hk (fst (ns_remove c s i e)) = hk s.
Proof.
  intros. unfold ns_remove. destruct (nth_error (sets s) i) as [st|]; auto.
  destruct (e_key (elems s e)); auto. destruct (dget _ _); auto. destruct (Nat.eqb _ _); auto.
  simpl. rewrite hk_del_hook. apply hk_upd_set_backend.
Qed.

Lemma hk_set_add : forall s i e, hk (fst (set_add c s i e)) = hk s.
Proof.
  intros. unfold set_add. apply hk_bind; [apply hk_ns_add|]. intros s1 H.
  destruct (order_of s1 i); simpl; auto. rewrite hk_set_order. exact H.
Qed.
Lemma hk_set_remove : forall s i e, hk (fst (set_remove c s i e)) = hk s.
Proof.
  intros. unfold set_remove. apply hk_bind; [apply hk_ns_remove|]. intros s1 H.
  destruct (order_of s1 i); simpl; auto. destruct (lremove e l); simpl; auto. rewrite hk_set_order. exact H.
Qed.
Lemma hk_set_discard : forall s i e, hk (fst (set_discard c s i e)) = hk s.
Proof. intros. unfold set_discard. destruct (contains c s i e); auto. apply hk_set_remove. Qed.

Lemma hk_ns_pop : forall s i, hk (fst (ns_pop s i)) = hk s.
Proof.
  intros. unfold ns_pop. destruct (nth_error (sets s) i) as [st|]; auto.
  destruct (rev (s_backend st)) as [|[k e] r]; auto. simpl.
  unfold set_parent. rewrite hk_upd_elem, hk_del_hook. apply hk_upd_set_backend.
Qed.
Lemma hk_set_pop : forall s i, hk (fst (set_pop s i)) = hk s.
Proof.
  intros. unfold set_pop. assert (H := hk_ns_pop s i). destruct (ns_pop s i) as [s1 o]. simpl in H.
  destruct o; auto. destruct (order_of s1 i); auto. destruct (lremove e l); simpl; auto.
  rewrite hk_set_order. exact H.
Qed.
Lemma hk_set_pop_at : forall s i z, hk (fst (set_pop_at c s i z)) = hk s.
Proof.
  intros. unfold set_pop_at. destruct (order_of s i); auto. destruct (py_idx _ z); auto.
  destruct (nth_error l n); auto.
  assert (H := hk_ns_remove (set_order s i (firstn n l ++ skipn (S n) l)) i n0).
  destruct (ns_remove c _ i n0) as [s2 o]. simpl in H. rewrite hk_set_order in H. destruct o; auto.
Qed.

Lemma hk_fold_del_hook : forall st l s, hk (fold_left (fun a e => del_hook a st e) l s) = hk s.
Proof. induction l as [|e r IH]; intro s; simpl; auto. rewrite IH. apply hk_del_hook. Qed.
Lemma hk_set_clear : forall s i, hk (fst (set_clear s i)) = hk s.
Proof.
  intros. unfold set_clear. destruct (nth_error (sets s) i) as [st|]; auto. simpl.
  destruct (s_order st); [rewrite hk_set_order|]; rewrite hk_upd_set_backend'; apply hk_fold_del_hook.
Qed.

Lemma hk_set_insert : forall s i z e, hk (fst (set_insert c s i z e)) = hk s.
Proof.
  intros. unfold set_insert. destruct (order_of s i); auto. apply hk_bind; [apply hk_ns_add|].
  intros s1 H. destruct (order_of s1 i); simpl; auto. rewrite hk_set_order. exact H.
Qed.
Lemma hk_set_setitem : forall s i z e, hk (fst (set_setitem c s i z e)) = hk s.
Proof.
  intros. unfold set_setitem. destruct (order_of s i); auto. destruct (py_idx _ z); auto.
  destruct (nth_error l n); auto. apply hk_bind; [apply hk_ns_add|].
  intros s1 H. rewrite hk_ns_remove, hk_set_order. exact H.
Qed.

Lemma hk_remove_all : forall es s i, hk (fst (remove_all c s i es)) = hk s.
Proof.
  induction es as [|e r IH]; intros s i; simpl; auto. apply hk_bind; [apply hk_ns_remove|].
  intros s1 H. rewrite IH. exact H.
Qed.
Lemma hk_add_all : forall es s i o0 done, hk (fst (add_all c s i o0 es done)) = hk s.
Proof.
  induction es as [|e r IH]; intros s i o0 done; simpl; auto.
  assert (H := hk_ns_add s i e). destruct (ns_add c s i e) as [s1 o]. simpl in H. destruct o.
  - rewrite IH. destruct (order_of s1 i); [rewrite hk_set_order|]; exact H.
  - rewrite IH. destruct (order_of s1 i); [rewrite hk_set_order|]; exact H.
  - assert (H2 := hk_remove_all (rev done) (set_order s1 i o0) i).
    destruct (remove_all c (set_order s1 i o0) i (rev done)) as [s2 o2].
    simpl in H2. rewrite hk_set_order in H2. destruct o2; simpl; congruence.
Qed.
Lemma hk_set_setslice : forall s i a b es, hk (fst (set_setslice c s i a b es)) = hk s.
Proof.
  intros. unfold set_setslice. destruct (order_of s i); auto. apply hk_bind; [apply hk_add_all|].
  intros s1 H. rewrite hk_remove_all, hk_set_order. exact H.
Qed.
Lemma hk_set_delslice : forall s i a b, hk (fst (set_delslice c s i a b)) = hk s.
Proof.
  intros. unfold set_delslice. destruct (order_of s i); auto. apply hk_bind; [apply hk_remove_all|].
  intros s1 H. simpl. rewrite hk_set_order. exact H.
Qed.
Lemma hk_set_delitem : forall s i z, hk (fst (set_delitem c s i z)) = hk s.
Proof.
  intros. unfold set_delitem. destruct (order_of s i); auto. destruct (py_idx _ z); auto. apply hk_set_delslice.
Qed.
Lemma hk_add_each : forall es s i, hk (fst (add_each c s i es)) = hk s.
Proof.
  induction es as [|e r IH]; intros s i; simpl; auto. apply hk_bind; [apply hk_set_add|].
  intros s1 H. rewrite IH. exact H.
Qed.
Lemma hk_set_append : forall s i e, hk (fst (set_append c s i e)) = hk s.
Proof. intros. unfold set_append. destruct (nth_error (sets s) i); auto. apply hk_set_insert. Qed.
Lemma hk_remove_each : forall es s i, hk (fst (remove_each c s i es)) = hk s.
Proof.
  induction es as [|e r IH]; intros s i; simpl; auto. apply hk_bind; [apply hk_set_remove|].
  intros s1 H. rewrite IH. exact H.
Qed.
Lemma hk_extend_loop : forall es s i added, hk (fst (extend_loop c s i es added)) = hk s.
Proof.
  induction es as [|e r IH]; intros s i added; simpl; auto.
  assert (H := hk_set_append s i e). destruct (set_append c s i e) as [s1 o]. simpl in H. destruct o.
  - rewrite IH. exact H.
  - rewrite IH. exact H.
  - assert (H2 := hk_remove_each added s1 i). destruct (remove_each c s1 i added) as [s2 o2].
    simpl in H2. destruct o2; simpl; congruence.
Qed.
Lemma hk_set_extend : forall s i es, hk (fst (set_extend c s i es)) = hk s.
Proof. intros. unfold set_extend. destruct (order_of s i); auto. apply hk_extend_loop. Qed.
Lemma hk_set_value : forall s i es, hk (fst (set_value c s i es)) = hk s.
Proof.
  intros. unfold set_value. destruct (order_of s i) as [old|]; auto.
  apply hk_bind; [apply hk_set_delslice|]. intros s1 H.
  assert (H2 := hk_set_extend s1 i es). destruct (set_extend c s1 i es) as [s2 o2]. simpl in H2.
  destruct o2; simpl; try congruence.
  assert (H3 := hk_set_extend s2 i old). destruct (set_extend c s2 i old) as [s3 o3]. simpl in H3.
  destruct o3; simpl; congruence.
Qed.

Lemma hk_construct_one : forall s o ordered h items fails,
  hk (fst (construct_one c s o ordered h items fails)) = hk s ++ [h].
Proof.
  intros. unfold construct_one.
  set (s0 := mkstate (sets s ++ [mkset o h [] (if ordered then Some [] else None)]) (elems s) (gen s)).
  assert (H0 : hk s0 = hk s ++ [h]). { unfold hk, s0. simpl. rewrite map_app. reflexivity. }
  assert (H := hk_add_each items s0 (List.length (sets s))).
  destruct (add_each c s0 (List.length (sets s)) items) as [s1 o1]. simpl in H.
  destruct o1; try destruct fails; simpl; rewrite ?hk_set_clear; congruence.
Qed.
Lemma hk_construct : forall itemss s o ordered h,
  exists n, hk (fst (construct c s o ordered h itemss)) = hk s ++ repeat h n.
Proof.
  induction itemss as [|[items fails] r IH]; intros s o ordered h; simpl.
  - exists 0. simpl. rewrite app_nil_r. reflexivity.
  - assert (H := hk_construct_one s o ordered h items fails).
    destruct (construct_one c s o ordered h items fails) as [s1 o1]. simpl in H. unfold bind. destruct o1.
    + destruct (IH s1 o ordered h) as [n Hn]. exists (S n). rewrite Hn, H. simpl. rewrite <- app_assoc. reflexivity.
    + destruct (IH s1 o ordered h) as [n Hn]. exists (S n). rewrite Hn, H. simpl. rewrite <- app_assoc. reflexivity.
    + exists 1. simpl. exact H.
Qed.

Lemma hk_take_out : forall idxs s e acc, hk (fst (fst (take_out c s e idxs acc))) = hk s.
Proof.
  induction idxs as [|i r IH]; intros s e acc; simpl; auto.
  destruct (contains c s i e); [|apply IH].
  assert (H := hk_set_discard s i e). destruct (set_discard c s i e) as [s1 o]. simpl in H.
  destruct o; simpl; auto; rewrite IH; exact H.
Qed.
Lemma hk_put_back : forall idxs s e, hk (fst (put_back c s e idxs)) = hk s.
Proof.
  induction idxs as [|i r IH]; intros s e; simpl; auto. apply hk_bind; [apply hk_set_add|].
  intros s1 H. rewrite IH. exact H.
Qed.
Lemma hk_rekey : forall s e o mid, (forall x, hk (mid x) = hk x) -> hk (fst (rekey c s e o mid)) = hk s.
Proof.
  intros s e o mid M. unfold rekey. assert (H := hk_take_out (owner_sets s o) s e []).
  destruct (take_out c s e (owner_sets s o) []) as [[s1 lst] o1]. simpl in H. destruct o1; simpl; auto.
  - apply hk_bind; [rewrite hk_put_back, M; exact H|]. intros s2 H2. simpl. rewrite M. exact H2.
  - apply hk_bind; [rewrite hk_put_back, M; exact H|]. intros s2 H2. simpl. rewrite M. exact H2.
Qed.
Lemma hk_rename : forall s e nk, hk (fst (rename c s e nk)) = hk s.
Proof.
  intros. unfold rename. destruct (key_check c nk).
  { destruct (match c_attr c with AId => okey_eqb nk (e_key (elems s e)) | _ => false end); auto. }
  destruct (c_attr c).
  - destruct (okey_eqb nk (e_key (elems s e))); auto. destruct (e_parent (elems s e)); auto.
    destruct nk; auto. destruct (owner_is_list s n); auto. destruct (owner_has_key c s n k); auto.
    apply hk_rekey. reflexivity.
  - destruct nk; auto. destruct (e_parent (elems s e)); auto. destruct (owner_has_key c s n k); auto.
    apply hk_rekey. reflexivity.
  - destruct nk; auto. destruct (e_parent (elems s e)); auto. destruct (owner_has_key c s n k); auto.
    apply hk_rekey. reflexivity.
Qed.
Lemma hk_readd : forall s i p e, hk (fst (readd c s i p e)) = hk s.
Proof. intros. unfold readd. destruct p; [apply hk_set_insert|apply hk_set_add]. Qed.
Lemma hk_put_back_at : forall l s e, hk (fst (put_back_at c s e l)) = hk s.
Proof.
  induction l as [|[i p] r IH]; intros s e; simpl; auto. apply hk_bind; [apply hk_readd|].
  intros s1 H. rewrite IH. exact H.
Qed.
Lemma hk_restore_at : forall l s e, hk (fst (restore_at c s e l)) = hk s.
Proof.
  induction l as [|[i p] r IH]; intros s e; simpl; auto. destruct (contains c s i e); [apply IH|].
  apply hk_bind; [apply hk_readd|]. intros s1 H. rewrite IH. exact H.
Qed.
Lemma hk_set_semantic_id : forall s e m, hk (fst (set_semantic_id c s e m)) = hk s.
Proof.
  intros. unfold set_semantic_id. destruct (e_parent (elems s e)); auto.
  assert (H := hk_take_out (owner_sets s n) s e []).
  destruct (take_out c s e (owner_sets s n) []) as [[s1 lst] o1]. simpl in H.
  assert (G : forall lp,
     hk (fst (match put_back_at c (set_sem s1 e m) e lp with
              | (s2, Err x) => match restore_at c (set_sem s2 e (e_sem (elems s e))) e lp with
                               | (s3, Err y) => (s3, Err y) | (s3, _) => (s3, Err x) end
              | (s2, _) => (set_sem s2 e m, Ok) end)) = hk s).
  { intro lp. assert (H2 := hk_put_back_at lp (set_sem s1 e m) e).
    destruct (put_back_at c (set_sem s1 e m) e lp) as [s2 o2]. simpl in H2.
    assert (E2 : hk s2 = hk s) by (rewrite H2; exact H).
    destruct o2; simpl; auto.
    assert (H3 := hk_restore_at lp (set_sem s2 e (e_sem (elems s e))) e).
    destruct (restore_at c (set_sem s2 e (e_sem (elems s e))) e lp) as [s3 o3]. simpl in H3.
    destruct o3; simpl; rewrite H3; exact E2. }
  destruct o1; simpl; auto; apply G.
Qed.
Lemma hk_owner_add : forall s o e, hk (fst (owner_add c s o e)) = hk s.
Proof. intros. unfold owner_add. destruct (owner_sets s o); auto. apply hk_set_add. Qed.
Lemma hk_owner_remove_in : forall idxs s k, hk (fst (owner_remove_in c s idxs k)) = hk s.
Proof.
  induction idxs as [|i r IH]; intros s k; simpl; auto.
  destruct (nth_error (sets s) i) as [st|]; auto. destruct (dget _ _); auto.
  assert (H := hk_set_remove s i n). destruct (set_remove c s i n) as [s1 o]. simpl in H.
  destruct o; auto. destruct x; auto. rewrite IH. exact H.
Qed.

Lemma hk_at_set : forall s r f, (forall i, hk (fst (f i)) = hk s) -> hk (fst (at_set s r f)) = hk s.
Proof. intros. unfold at_set. destruct (nth_error _ _); auto. Qed.

(* a constructor call installs list hooks only in an idShort universe *)
Definition op_wf (p : op) : Prop :=
  match p with Construct _ _ (Some _) _ => c_attr c = AId | _ => True end.

Lemma hooks_wf_hk : forall s, hooks_wf c s <-> (c_attr c <> AId -> Forall (fun h => h = None) (hk s)).
Proof.
  intro s. unfold hooks_wf, hk. split; intros H A.
  - apply Forall_forall. intros h X. apply in_map_iff in X. destruct X as [st [E X]]. subst h.
    apply In_nth_error in X. destruct X as [j X]. apply (H A j st X).
  - intros j st N. specialize (H A). rewrite Forall_forall in H. apply H. apply in_map.
    eapply nth_error_In; eauto.
Qed.

Lemma step_hooks_wf : forall s p, op_wf p -> hooks_wf c s -> hooks_wf c (fst (step c s p)).
Proof.
  intros s p W H. apply hooks_wf_hk. intro A. assert (H' := proj1 (hooks_wf_hk s) H A). clear H. rename H' into H.
  destruct p; simpl;
    try (rewrite hk_at_set; [exact H|intro; first [apply hk_set_add|apply hk_set_remove|apply hk_set_discard|apply hk_set_pop
         |apply hk_set_pop_at|apply hk_set_clear|apply hk_set_insert|apply hk_set_setitem|apply hk_set_setslice
         |apply hk_set_delslice|apply hk_set_delitem|apply hk_set_value|apply hk_set_extend]]).
  - destruct (hk_construct itemss s o ordered hk0) as [n Hn]. rewrite Hn. apply Forall_app. split; auto.
    apply Forall_forall. intros h X. apply repeat_spec in X. subst h. simpl in W. destruct hk0; auto. contradiction.
  - rewrite hk_rename. exact H.
  - rewrite hk_set_semantic_id. exact H.
  - rewrite hk_owner_add. exact H.
  - unfold owner_remove. rewrite hk_owner_remove_in. exact H.
Qed.

Lemma run_hooks_wf : forall ops s, Forall op_wf ops -> hooks_wf c s ->
  hooks_wf c (fold_left (fun s p => fst (step c s p)) ops s).
Proof.
  induction ops as [|p r IH]; intros s F H; simpl; auto. inversion F; subst.
  apply IH; auto. apply step_hooks_wf; auto.
Qed.
Lemma init_hooks_wf : forall pool, hooks_wf c (init pool).
Proof. intros pool A j st N. simpl in N. destruct j; discriminate. Qed.

End WithCfg.
