(* C14, two threads committing concurrently (model/CrashConc.v, invariant of proofs/CrashConcProofs.v): when no effect
   is refused by the file system and the writers use pairwise different temporary names, no commit fails, and a commit
   that performs its os.replace leaves exactly its version in the document. *)
From Coq Require Import List Arith Bool.
From Basyx Require Import model.CrashConc proofs.CrashConcProofs.
Import ListNotations.

Definition all_ok (ws : list nat) : list (nat * cflt) := map (fun w => (w, COk)) ws.

Lemma cstep_ok_nofail : forall name vof v0 w s,
  cinv name vof v0 s -> (forall u, cph s u <> WFailed) -> forall u, cph (cstep name vof w COk s) u <> WFailed.
Proof.
  intros name vof v0 w s [Hd Hu] H u. unfold cstep.
  destruct (cph s w) eqn:Ph; try apply H; simpl.
  - destruct (Nat.eq_dec u w) as [->|ne]; [rewrite upd_same; discriminate | rewrite upd_other by exact ne; apply H].
  - destruct (Nat.eq_dec u w) as [->|ne]; [rewrite upd_same; discriminate | rewrite upd_other by exact ne; apply H].
  - destruct (Nat.eq_dec u w) as [->|ne]; [rewrite upd_same; discriminate | rewrite upd_other by exact ne; apply H].
  - destruct (ctmp s (name w)) eqn:T.
    + simpl. destruct (Nat.eq_dec u w) as [->|ne]; [rewrite upd_same; discriminate | rewrite upd_other by exact ne; apply H].
    + exfalso. pose proof (proj2 (Hu w) (or_intror Ph)) as E. rewrite T in E. discriminate.
Qed.

Lemma crun_ok_nofail : forall name vof v0 ws s,
  (forall a b, name a = name b -> a = b) -> cinv name vof v0 s -> (forall u, cph s u <> WFailed) ->
  forall u, cph (crun name vof (all_ok ws) s) u <> WFailed.
Proof.
  intros name vof v0 ws. induction ws as [|w r IH]; intros s inj Hi H; simpl; [exact H|].
  apply IH; [exact inj | apply cstep_inv; assumption | apply (cstep_ok_nofail name vof v0); assumption].
Qed.

Lemma replace_lands : forall name vof v0 w s,
  cinv name vof v0 s -> cph s w = WClosed ->
  cph (cstep name vof w COk s) w = WDone /\ cdoc (cstep name vof w COk s) = Some (CFull (vof w)).
Proof.
  intros name vof v0 w s [Hd Hu] Ph. unfold cstep. rewrite Ph.
  rewrite (proj2 (Hu w) (or_intror Ph)). simpl. rewrite upd_same. split; reflexivity.
Qed.

Lemma concurrent_commits : forall (name : nat -> nat) (vof : nat -> cver) v0 stale ws,
  (forall a b, name a = name b -> a = b) ->
  let s := crun name vof (all_ok ws) (cinit v0 stale) in
  (forall u, cph s u <> WFailed) /\
  (forall w, cph s w = WClosed ->
             cph (cstep name vof w COk s) w = WDone /\ cdoc (cstep name vof w COk s) = Some (CFull (vof w))).
Proof.
  intros name vof v0 stale ws inj s. split.
  - apply (crun_ok_nofail name vof v0); [exact inj | apply cinit_inv | intros u; simpl; discriminate].
  - intros w Ph. apply (replace_lands name vof v0); [|exact Ph].
    apply crun_inv; [exact inj | apply cinit_inv].
Qed.

Lemma concurrent_commits_example :
  let s := crun (fun w => w) (fun w => 6 + w) (all_ok [0; 1; 0; 1; 0; 1; 1; 0]) (cinit 2 (fun _ => None)) in
  cph s 0 = WDone /\ cph s 1 = WDone /\ cdoc s = Some (CFull 6) /\
  cdoc (crun (fun w => w) (fun w => 6 + w) (all_ok [0; 1; 0; 1; 0; 1; 1]) (cinit 2 (fun _ => None))) = Some (CFull 7).
Proof. simpl. repeat split; reflexivity. Qed.

(* one temporary name per process: writer 0 has closed its file, writer 1 opens, writes, closes and renames the same
   name, writer 0's os.replace finds no file: a valid commit fails although nothing was refused *)
Lemma concurrent_commits_shared_name_fails :
  let s := crun (fun _ => 0) (fun w => 6 + w) (all_ok [0; 0; 0; 1; 1; 1; 1; 0]) (cinit 2 (fun _ => None)) in
  cph s 0 = WFailed /\ cph s 1 = WDone /\ cdoc s = Some (CFull 7).
Proof. simpl. repeat split; reflexivity. Qed.
