(* C09 - soundness of the escape analysis of model/ReaderFlow.v with respect to [exec]. *)
From Coq Require Import List Bool NArith Arith Lia.
From Basyx Require Import model.ReaderFlow.
Import ListNotations.

Lemma exn_eqb_eq : forall a b, exn_eqb a b = true <-> a = b.
Proof.
  intros a b; unfold exn_eqb; rewrite Nat.eqb_eq; split.
  - destruct a, b; simpl; intro H; try reflexivity; discriminate H.
  - intros ->; reflexivity.
Qed.

Lemma mem_In : forall e l, mem e l = true <-> In e l.
Proof.
  intros e l; unfold mem; rewrite existsb_exists; split.
  - intros [x [Hin Heq]]. apply exn_eqb_eq in Heq. subst; assumption.
  - intro H. exists e. split; [assumption | apply exn_eqb_eq; reflexivity].
Qed.

Lemma subset_In : forall a b, subset a b = true -> forall e, In e a -> In e b.
Proof.
  intros a b H e Hin. unfold subset in H. rewrite forallb_forall in H.
  apply mem_In. apply H. assumption.
Qed.

Section Sound.
  Variable funs : list stmt.
  Variable sc : scenario.
  Variable m : bool.
  Variable tbl : list (list exn).
  Hypothesis Hpost : postfix funs sc m tbl = true.

  Lemma postfix_rows_nth : forall fs tb, postfix_rows sc m tbl fs tb = true ->
    forall f body, nth_error fs f = Some body ->
    forall e, In e (fst (esc sc m tbl [] body)) -> In e (nth f tb []).
  Proof.
    induction fs as [|b fs IH]; intros tb H f body Hn e He.
    - destruct f; discriminate Hn.
    - destruct tb as [|t tb]; [discriminate H|]. simpl in H. apply andb_true_iff in H. destruct H as [H1 H2].
      destruct f as [|f]; simpl in *.
      + injection Hn as <-. eapply subset_In; eassumption.
      + eapply IH; eassumption.
  Qed.

  Definition sound_for (o : outcome) (r : list exn * bool) : Prop :=
    (forall e, o = OExc e -> In e (fst r)) /\ (o = ONormal -> snd r = true).

  Lemma esc_sound_gen : forall cur s o, exec funs sc m cur s o ->
    forall curset, (forall c, cur = Some c -> In c curset) -> sound_for o (esc sc m tbl curset s).
  Proof.
    unfold sound_for.
    induction 1; intros curset Hcur; simpl.
    - (* EPrimOk *) split; [intros x Hx; discriminate Hx | reflexivity].
    - (* EPrimExc *) split; [|intro Hx; discriminate Hx].
      intros x Hx. injection Hx as <-. rewrite H. assumption.
    - (* ECall *) split; [|reflexivity].
      intros x Hx. destruct o as [|k|e0]; try discriminate Hx. simpl in Hx. injection Hx as <-.
      unfold postfix in Hpost. apply andb_true_iff in Hpost. destruct Hpost as [Hrows _].
      eapply postfix_rows_nth; [exact Hrows | eassumption |].
      apply (IHexec []); [intros c Hc; discriminate Hc | reflexivity].
    - (* EReturn *) split; intros; discriminate.
    - (* EContinue *) split; intros; discriminate.
    - (* ERaise *) split; [|intro Hx; discriminate Hx]. intros x Hx. injection Hx as <-. left; reflexivity.
    - (* EReraise *) split; [|intro Hx; discriminate Hx].
      intros x Hx. injection Hx as <-. apply in_map. apply Hcur. reflexivity.
    - (* ESeqNil *) split; [intros x Hx; discriminate Hx | reflexivity].
    - (* ESeqCons *)
      destruct (IHexec1 curset Hcur) as [_ N1]. specialize (N1 eq_refl).
      destruct (IHexec2 curset Hcur) as [E2 N2]. simpl in E2, N2.
      destruct (esc sc m tbl curset s) as [ex nx]. simpl in N1. subst nx.
      destruct (seq_esc (esc sc m tbl curset) l) as [er nr]. simpl in *.
      split; [intros x Hx; apply in_or_app; right; apply E2; exact Hx | exact N2].
    - (* ESeqAbort *)
      destruct (IHexec curset Hcur) as [E1 _].
      destruct (esc sc m tbl curset s) as [ex nx]. simpl in E1.
      split; [|intro Hx; contradiction].
      intros x Hx. destruct nx.
      + destruct (seq_esc (esc sc m tbl curset) l) as [er nr]. simpl. apply in_or_app. left. apply E1. exact Hx.
      + simpl. apply E1. exact Hx.
    - (* EIf *) destruct (IHexec curset Hcur) as [E1 N1]. clear IHexec H0.
      induction l as [|y l IHl]; [destruct H|]. simpl.
      destruct (esc sc m tbl curset y) as [ey ny] eqn:Ey.
      destruct (alt_esc (esc sc m tbl curset) l) as [er nr]. simpl.
      destruct H as [<-|Hin].
      + rewrite Ey in E1, N1. simpl in E1, N1. split.
        * intros x Hx. apply in_or_app. left. apply E1; exact Hx.
        * intro Hx. rewrite (N1 Hx). reflexivity.
      + destruct (IHl Hin) as [E2 N2]. simpl in E2, N2. split.
        * intros x Hx. apply in_or_app. right. apply E2; exact Hx.
        * intro Hx. rewrite (N2 Hx). apply orb_true_r.
    - (* EIfFs *) destruct m; apply (IHexec curset Hcur).
    - (* EIfEnvT *) rewrite H. destruct (IHexec curset Hcur) as [E1 N1].
      destruct (esc sc m tbl curset t) as [et nt]. destruct (esc sc m tbl curset e) as [ee ne]. simpl in *. split.
      + intros x Hx. apply in_or_app. left. apply E1; exact Hx.
      + intro Hx. rewrite (N1 Hx). reflexivity.
    - (* EIfEnvE *) destruct (IHexec curset Hcur) as [E1 N1]. destruct (env_on sc k); simpl.
      + destruct (esc sc m tbl curset t) as [et nt]. destruct (esc sc m tbl curset e) as [ee ne]. simpl in *.
        split; [intros x Hx; apply in_or_app; right; apply E1; exact Hx |].
        intro Hx. rewrite (N1 Hx). apply orb_true_r.
      + split; assumption.
    - (* ELoopEnd *) destruct (esc sc m tbl curset b). split; [intros x Hx; discriminate Hx | reflexivity].
    - (* ELoopStep *) destruct (IHexec2 curset Hcur) as [E2 _]. simpl in E2.
      destruct (esc sc m tbl curset b). split; [exact E2 | reflexivity].
    - (* ELoopExc *) destruct (IHexec curset Hcur) as [E1 _].
      destruct (esc sc m tbl curset b). split; [exact E1 | intro Hx; discriminate Hx].
    - (* ELoopReturn *) destruct (esc sc m tbl curset b). split; intros; discriminate.
    - (* ETryOk *) destruct (IHexec curset Hcur) as [E1 N1].
      destruct (esc sc m tbl curset b) as [B nb]. destruct (esc sc m tbl (filter (catches c) B) h) as [eh nh].
      simpl in *. split.
      + intros x Hx. subst o. discriminate H0.
      + intro Hx. rewrite (N1 Hx). reflexivity.
    - (* ETryPass *) destruct (IHexec curset Hcur) as [E1 _].
      destruct (esc sc m tbl curset b) as [B nb]. destruct (esc sc m tbl (filter (catches c) B) h) as [eh nh].
      simpl in *. split; [|intro Hx; discriminate Hx].
      intros x Hx. injection Hx as <-. apply in_or_app. left. apply filter_In. split.
      + apply E1. reflexivity.
      + rewrite H0. reflexivity.
    - (* ETryCatch *) destruct (IHexec1 curset Hcur) as [E1 _].
      destruct (esc sc m tbl curset b) as [B nb]. simpl in E1.
      assert (Hc : forall c0, Some e = Some c0 -> In c0 (filter (catches c) B)).
      { intros c0 Hc0. injection Hc0 as <-. apply filter_In. split; [apply E1; reflexivity | assumption]. }
      destruct (IHexec2 _ Hc) as [E2 N2].
      destruct (esc sc m tbl (filter (catches c) B) h) as [eh nh]. simpl in *. split.
      + intros x Hx. apply in_or_app. right. apply E2. exact Hx.
      + intro Hx. rewrite (N2 Hx). apply orb_true_r.
  Qed.

  (* an exception leaving a call of function f is in f's row of the table *)
  Theorem esc_sound : forall f o, exec funs sc m None (SCall f) o ->
    forall e, o = OExc e -> In e (nth f tbl []).
  Proof.
    intros f o H e He.
    destruct (esc_sound_gen None (SCall f) o H []) as [E _]; [intros c Hc; discriminate Hc|].
    apply (E e He).
  Qed.

  Corollary total_if_empty : forall f, nth f tbl [] = [] ->
    forall o, exec funs sc m None (SCall f) o -> o = ONormal.
  Proof.
    intros f Hempty o H.
    assert (Hne : forall e, o <> OExc e).
    { intros e He. pose proof (esc_sound f o H e He) as Hin. rewrite Hempty in Hin. destruct Hin. }
    inversion H; subst. destruct o0 as [|k|e]; try reflexivity. exfalso. apply (Hne e). reflexivity.
  Qed.

  Corollary only_classes : forall f (P : exn -> bool), forallb P (nth f tbl []) = true ->
    forall e, exec funs sc m None (SCall f) (OExc e) -> P e = true.
  Proof.
    intros f P HP e H. rewrite forallb_forall in HP. apply HP. eapply esc_sound; [eassumption | reflexivity].
  Qed.
End Sound.

(* the abstract semantics is not vacuous: a function whose body is a primitive with a non-empty raise-set
   does raise, and a handler that names the class stops it *)
Lemma exec_example_raises :
  exec [SPrim 0 [KeyError] EnvNone] scn_document true None (SCall 0) (OExc KeyError).
Proof.
  change (OExc KeyError) with (call_out (OExc KeyError)).
  eapply ECall; [reflexivity|]. apply EPrimExc; [reflexivity | left; reflexivity].
Qed.

Lemma exec_example_caught :
  forall o, exec [STry (SPrim 0 [KeyError] EnvNone) [LookupError] (SSeq [])] scn_document true None (SCall 0) o ->
            o = ONormal.
Proof.
  apply (total_if_empty _ scn_document true [[]]); reflexivity.
Qed.
