(* C06 - proofs about date, time, dateTime and the five gXxx types of model/Xsd.v. *)
From Coq Require Import List ZArith Bool Ascii String Lia.
From Basyx Require Import model.XsdBase model.XsdRe model.XsdLex model.Xsd gen.Gen_XsdTables
  proofs.XsdBaseProofs proofs.XsdIntProofs proofs.XsdDateFacts.
Import ListNotations.
Local Open Scope Z_scope.

(* ---------------------------------------------------------------- helpers *)
Lemma days_in_month_bounds y m : 28 <= days_in_month y m <= 31.
Proof. unfold days_in_month. destruct (m =? 2); [destruct (is_leap y); lia|]. destruct (_ || _); lia. Qed.
Lemma date_fields_ok_inv y m d : date_fields_ok y m d = true ->
  1 <= y <= 9999 /\ 1 <= m <= 12 /\ 1 <= d <= days_in_month y m /\ d <= 31.
Proof.
  unfold date_fields_ok. intros H. repeat (apply andb_true_iff in H as [H ?]).
  repeat match goal with X : (_ <=? _) = true |- _ => apply Z.leb_le in X end.
  pose proof (days_in_month_bounds y m). lia.
Qed.
Lemma time_fields_ok_inv h mi s us : time_fields_ok h mi s us = true ->
  0 <= h <= 23 /\ 0 <= mi <= 59 /\ 0 <= s <= 59 /\ 0 <= us <= 999999.
Proof.
  unfold time_fields_ok. intros H. repeat (apply andb_true_iff in H as [H ?]).
  repeat match goal with X : (_ <=? _) = true |- _ => apply Z.leb_le in X end. lia.
Qed.
Lemma date_fields_day_ok y m d : date_fields_ok y m d = true -> day_ok y m d = true.
Proof.
  intros H. destruct (date_fields_ok_inv _ _ _ H) as (_ & _ & Hd & _).
  unfold day_ok. unfold days_in_month in Hd. change (leap_year y) with (is_leap y).
  destruct (m =? 2) eqn:E2.
  - apply Z.eqb_eq in E2. subst m. cbn. destruct (is_leap y); apply Z.leb_le; lia.
  - destruct ((m =? 4) || (m =? 6) || (m =? 9) || (m =? 11)); [apply Z.leb_le; lia|reflexivity].
Qed.

Lemma forallb4 (p : ascii -> bool) a b c d : forallb p [a; b; c; d] = true ->
  p a = true /\ p b = true /\ p c = true /\ p d = true.
Proof. cbn. intros H. repeat (apply andb_true_iff in H as [? H]). auto. Qed.
Lemma forallb2 (p : ascii -> bool) a b : forallb p [a; b] = true -> p a = true /\ p b = true.
Proof. cbn. intros H. repeat (apply andb_true_iff in H as [? H]). auto. Qed.

Lemma opt_minus_digit c r : is_digit c = true -> opt_minus (c :: r) = (false, c :: r).
Proof. intros H. unfold opt_minus. destruct (digit_not c H) as (_ & _ & _ & N & _). rewrite N. reflexivity. Qed.
Lemma opt_minus_false s s1 : opt_minus s = (false, s1) -> s = s1.
Proof. unfold opt_minus. destruct s as [|c r]; [congruence|]. destruct (ceq c "-"); congruence. Qed.

Lemma tz_none_facts : tz_group_end [] = Some NoTz /\ parse_tzinfo NoTz = Ok None /\
  matches (opt tz_re) [] = true.
Proof. repeat split. Qed.

(* text of the zone part as written for date-like values (Z / +hh:mm) and for isoformat (+hh:mm) *)
Definition date_tz_part (t : tz) : str := match t with None => [] | Some off => date_tz_text off end.
Lemma tz_part_facts (part : tz -> str) (txt : Z -> str) :
  (forall off, part (Some off) = txt off) -> part None = [] ->
  all_range 11 (-840) (fun off => (840 <? off) || tz_chk txt off) = true ->
  forall t, tz_ok t = true ->
  exists g, tz_group_end (part t) = Some g /\ parse_tzinfo g = Ok t /\
            matches (opt tz_re) (part t) = true /\ no_ws (part t) = true /\ head_ok (part t) = true.
Proof.
  intros Hs Hn A t Ht. destruct t as [off|].
  - cbn in Ht. apply andb_true_iff in Ht as [H1 H2]. apply Z.leb_le in H1. apply Z.leb_le in H2.
    rewrite Hs. apply (tz_text_facts txt A off). lia.
  - rewrite Hn. exists NoTz. repeat split.
Qed.
Lemma date_tz_facts t : tz_ok t = true ->
  exists g, tz_group_end (date_tz_part t) = Some g /\ parse_tzinfo g = Ok t /\
            matches (opt tz_re) (date_tz_part t) = true /\ no_ws (date_tz_part t) = true /\
            head_ok (date_tz_part t) = true.
Proof. exact (tz_part_facts date_tz_part date_tz_text (fun _ => eq_refl) eq_refl tz_chk_date_all t). Qed.
Lemma iso_tz_facts t : tz_ok t = true ->
  exists g, tz_group_end (iso_tz t) = Some g /\ parse_tzinfo g = Ok t /\
            matches (opt tz_re) (iso_tz t) = true /\ no_ws (iso_tz t) = true /\ head_ok (iso_tz t) = true.
Proof. exact (tz_part_facts iso_tz (fun o => iso_tz (Some o)) (fun _ => eq_refl) eq_refl tz_chk_iso_all t). Qed.

(* _serialize_date_tzinfo succeeds on a valid reference date and a zone in range *)
Lemma serialize_tz_ok y m d t : date_fields_ok y m d = true -> tz_ok t = true ->
  serialize_date_tzinfo y m d t = Ok (date_tz_part t).
Proof.
  intros Hf Ht. unfold serialize_date_tzinfo. destruct t as [off|]; [|reflexivity].
  unfold new_date. rewrite Hf. cbn [bind]. rewrite (check_utcoffset_ok _ Ht). reflexivity.
Qed.

Lemma no_ws_cons c s : no_ws (c :: s) = negb (is_xsd_ws c) && no_ws s.
Proof. reflexivity. Qed.

(* ================================================================ date *)
Definition wf_date (v : date) : Prop := date_fields_ok (d_y v) (d_m v) (d_d v) = true /\ tz_ok (d_tz v) = true.
Definition date_text (y m d : Z) (z : str) : str := d4 y ++ "-"%char :: (d2 m ++ "-"%char :: (d2 d ++ z)).

Lemma date_text_parse y m d z g t : date_fields_ok y m d = true ->
  tz_group_end z = Some g -> parse_tzinfo g = Ok t -> parse_date (date_text y m d z) = Ok (mkDate y m d t).
Proof.
  intros Hf G1 G2. destruct (date_fields_ok_inv _ _ _ Hf) as (Hy & Hm & Hd & Hd31).
  destruct (four_digits y ltac:(lia)) as (_ & D4 & V4 & _).
  destruct (two_digits m ltac:(lia)) as (_ & D2m & V2m & _). destruct (two_digits d ltac:(lia)) as (_ & D2d & V2d & _).
  pose proof D4 as D4'. apply forallb4 in D4' as (Y1 & Y2 & Y3 & Y4).
  pose proof D2m as D2m'. apply forallb2 in D2m' as (M1 & M2). pose proof D2d as D2d'. apply forallb2 in D2d' as (A1 & A2).
  unfold parse_date, date_text, d4, d2. cbn [app]. rewrite (opt_minus_digit _ _ Y1).
  cbn [forallb]. rewrite Y1, Y2, Y3, Y4, M1, M2, A1, A2. cbn [andb]. rewrite !ceq_refl. cbn [andb].
  rewrite G1, G2. cbn [bind].
  change (int_dec [dchar (y / 1000); dchar (y / 100 mod 10); dchar (y / 10 mod 10); dchar (y mod 10)]) with (int_dec (d4 y)).
  change (int_dec [dchar (m / 10); dchar (m mod 10)]) with (int_dec (d2 m)).
  change (int_dec [dchar (d / 10); dchar (d mod 10)]) with (int_dec (d2 d)).
  rewrite V4, V2m, V2d. unfold new_date. rewrite Hf. reflexivity.
Qed.

Lemma date_text_valid (re_tail : re) y m d z :
  0 <= y <= 9999 -> 1 <= m <= 12 -> 1 <= d <= 31 -> matches re_tail z = true ->
  matches (cats [year_re; ch "-"; month_re; ch "-"; day_re; re_tail]) (date_text y m d z) = true /\
  ymd_of (date_text y m d z) = (y, m, d).
Proof.
  intros Hy Hm Hd Hz.
  destruct (four_digits y Hy) as (_ & D4 & V4 & M4).
  destruct (two_digits m ltac:(lia)) as (_ & D2m & V2m & Mm & _). destruct (two_digits d ltac:(lia)) as (_ & D2d & V2d & _ & Md & _).
  split.
  - unfold date_text. cbn [cats].
    apply m_cat; [exact M4|]. apply m_cons_ch. apply m_cat; [apply Mm; lia|]. apply m_cons_ch.
    apply m_cat; [apply Md; lia|exact Hz].
  - pose proof D4 as D4'. apply forallb4 in D4' as (Y1 & Y2 & Y3 & Y4).
    unfold ymd_of, date_text. unfold d4 at 1. cbn [app].
    destruct (digit_not _ Y1) as (_ & _ & _ & N & _). rewrite N.
    change (dchar (y / 1000) :: dchar (y / 100 mod 10) :: dchar (y / 10 mod 10) :: dchar (y mod 10)
            :: "-"%char :: d2 m ++ "-"%char :: d2 d ++ z) with (d4 y ++ "-"%char :: d2 m ++ "-"%char :: d2 d ++ z).
    rewrite (span_app is_digit (d4 y) ("-"%char :: d2 m ++ "-"%char :: d2 d ++ z) D4 eq_refl).
    unfold d2. cbn [app skipn firstn].
    change (int_dec [dchar (m / 10); dchar (m mod 10)]) with (int_dec (d2 m)).
    change (int_dec [dchar (d / 10); dchar (d mod 10)]) with (int_dec (d2 d)).
    rewrite V4, V2m, V2d. reflexivity.
Qed.

Lemma date_text_no_ws y m d z : 0 <= y <= 9999 -> 0 <= m <= 99 -> 0 <= d <= 99 -> no_ws z = true ->
  no_ws (date_text y m d z) = true.
Proof.
  intros Hy Hm Hd Hz. destruct (four_digits y Hy) as (_ & D4 & _). destruct (two_digits m Hm) as (_ & D2m & _).
  destruct (two_digits d Hd) as (_ & D2d & _). unfold date_text.
  rewrite no_ws_app, (digits_no_ws _ D4), no_ws_cons, no_ws_app, (digits_no_ws _ D2m), no_ws_cons, no_ws_app,
    (digits_no_ws _ D2d), Hz. reflexivity.
Qed.

Lemma date_roundtrip v : wf_date v ->
  exists s, print_date v = Ok s /\ parse_date s = Ok v /\ valid_xsd_date s = true.
Proof.
  destruct v as [y m d t]. unfold wf_date. cbn [d_y d_m d_d d_tz]. intros [Hf Ht].
  destruct (date_fields_ok_inv _ _ _ Hf) as (Hy & Hm & Hd & Hd31).
  destruct (four_digits y ltac:(lia)) as (E4 & _). destruct (two_digits m ltac:(lia)) as (E2m & _).
  destruct (two_digits d ltac:(lia)) as (E2d & _).
  destruct (date_tz_facts t Ht) as (g & G1 & G2 & G3 & G4 & G5).
  exists (date_text y m d (date_tz_part t)). split; [|split].
  - unfold print_date. cbn [d_y d_m d_d d_tz]. rewrite (serialize_tz_ok _ _ _ _ Hf Ht). cbn [bind].
    unfold iso_date. rewrite E4, E2m, E2d. unfold date_text. rewrite <- app_assoc. cbn [app].
    rewrite <- app_assoc. cbn [app]. reflexivity.
  - apply (date_text_parse _ _ _ _ g); assumption.
  - unfold valid_xsd_date. rewrite ws_collapse_id by (apply date_text_no_ws; try lia; exact G4).
    destruct (date_text_valid (opt tz_re) y m d (date_tz_part t) ltac:(lia) Hm ltac:(lia) G3) as [M Y].
    change date_re with (cats [year_re; ch "-"; month_re; ch "-"; day_re; opt tz_re]).
    rewrite M, Y. cbn [andb]. apply date_fields_day_ok, Hf.
Qed.

(* every error of the parsers is a ValueError *)
Ltac err_tac :=
  repeat first
    [ congruence
    | match goal with
      | |- context [bind ?x _] => destruct x eqn:?; cbn [bind]
      | |- context [if ?b then _ else _] => destruct b eqn:?
      | |- context [match ?x with _ => _ end] => destruct x eqn:?
      end ].
Lemma parse_tzinfo_err g e : parse_tzinfo g = Err e -> e = ValueError.
Proof. unfold parse_tzinfo. err_tac. Qed.
Lemma new_date_err y m d t e : new_date y m d t = Err e -> e = ValueError.
Proof. unfold new_date. err_tac. Qed.
Lemma parse_date_err s e : parse_date s = Err e -> e = ValueError.
Proof.
  unfold parse_date. destruct (opt_minus s) as [neg s1].
  do 10 (destruct s1 as [|? s1]; [congruence|]).
  destruct (_ && _); [|congruence]. destruct (tz_group_end s1); [|congruence]. destruct neg; [congruence|].
  destruct (parse_tzinfo t) eqn:P; cbn [bind]; [apply new_date_err|]. intros [= <-]. eapply parse_tzinfo_err, P.
Qed.

Lemma date_text_app y m d a b : date_text y m d (a ++ b) = date_text y m d a ++ b.
Proof. unfold date_text. rewrite <- !app_assoc. cbn [app]. rewrite <- !app_assoc. cbn [app]. rewrite <- !app_assoc. reflexivity. Qed.

Lemma date_accept_valid s v : parse_date s = Ok v -> valid_xsd_date s = true.
Proof.
  unfold parse_date. destruct (opt_minus s) as [neg s1] eqn:Eo.
  destruct s1 as [|y1 [|y2 [|y3 [|y4 [|c1 [|m1 [|m2 [|c2 [|d1 [|d2' r]]]]]]]]]]; try discriminate.
  destruct (forallb is_digit [y1; y2; y3; y4; m1; m2; d1; d2'] && ceq c1 "-" && ceq c2 "-") eqn:C; [|discriminate].
  destruct (tz_group_end r) as [g|] eqn:G; [|discriminate].
  destruct neg; [discriminate|].
  destruct (parse_tzinfo g) as [t|] eqn:P; cbn [bind]; [|discriminate].
  unfold new_date. destruct (date_fields_ok _ _ _) eqn:Hf; [|discriminate]. intros _.
  apply opt_minus_false in Eo. subst s.
  apply andb_true_iff in C as [C C2]. apply andb_true_iff in C as [C C1].
  apply ceq_eq in C1. apply ceq_eq in C2. subst c1 c2.
  cbn [forallb] in C. repeat (apply andb_true_iff in C as [? C]).
  destruct (digits4_canon y1 y2 y3 y4) as [E4 R4]; auto.
  destruct (digits2_canon m1 m2) as [Em Rm]; auto. destruct (digits2_canon d1 d2') as [Ed Rd]; auto.
  set (Y := int_dec [y1; y2; y3; y4]) in *. set (M := int_dec [m1; m2]) in *. set (Dd := int_dec [d1; d2']) in *.
  destruct (tz_group_shape r g t G P) as (core & w2 & Er & Hw2 & Hcore & Mcore).
  destruct (date_fields_ok_inv _ _ _ Hf) as (Hy & Hm & Hd & Hd31).
  assert (Es : y1 :: y2 :: y3 :: y4 :: "-"%char :: m1 :: m2 :: "-"%char :: d1 :: d2' :: r = date_text Y M Dd core ++ w2).
  { rewrite <- date_text_app, <- Er. unfold date_text. rewrite <- E4, <- Em, <- Ed. reflexivity. }
  rewrite Es. unfold valid_xsd_date.
  pose proof (ws_collapse_core [] (date_text Y M Dd core) w2 eq_refl
                (date_text_no_ws Y M Dd core ltac:(lia) ltac:(lia) ltac:(lia) Hcore) Hw2) as K.
  cbn [app] in K. rewrite K.
  destruct (date_text_valid (opt tz_re) Y M Dd core ltac:(lia) Hm ltac:(lia) Mcore) as [Mm Yy].
  change date_re with (cats [year_re; ch "-"; month_re; ch "-"; day_re; opt tz_re]).
  rewrite Mm, Yy. cbn [andb]. apply date_fields_day_ok, Hf.
Qed.
Lemma date_reject_literal s : valid_xsd_date s = false -> parse_date s = Err ValueError.
Proof.
  intros H. destruct (parse_date s) as [v|e] eqn:E.
  - apply date_accept_valid in E. congruence.
  - f_equal. eapply parse_date_err, E.
Qed.

(* ================================================================ time *)
Definition wf_time (v : time) : Prop :=
  time_fields_ok (t_h v) (t_mi v) (t_s v) (t_us v) = true /\ tz_ok (t_tz v) = true.
(* hh:mm:ss + fraction text (empty or '.' digits) *)
Definition tod_text (h mi s : Z) (fr : str) : str := d2 h ++ ":"%char :: (d2 mi ++ ":"%char :: (d2 s ++ fr)).
Inductive frac_text : str -> option str -> Prop :=
| FrNone : frac_text [] None
| FrSome ds : ds <> [] -> forallb is_digit ds = true -> frac_text ("."%char :: ds) (Some ds).

Lemma head_ok_nondigit z : head_ok z = true -> match z with c :: _ => is_digit c = false | [] => True end.
Proof. destruct z as [|c z]; [trivial|]. cbn. intros H. apply andb_true_iff in H as [H _]. apply negb_true_iff, H. Qed.
Lemma frac_group_text ft fr z : frac_text ft fr -> head_ok z = true -> frac_group (ft ++ z) = (fr, z).
Proof.
  intros [|ds Hne Hd] Hz.
  - cbn [app]. unfold frac_group. destruct z as [|c z]; [reflexivity|].
    cbn in Hz. apply andb_true_iff in Hz as [_ Hz]. apply negb_true_iff in Hz. rewrite Hz. reflexivity.
  - cbn [app]. unfold frac_group. change (ceq "." ".") with true. cbv iota.
    rewrite (span_app is_digit ds z Hd (head_ok_nondigit z Hz)). destruct ds; [congruence|reflexivity].
Qed.
Lemma frac_group_shape s fr r : frac_group s = (fr, r) -> exists ft, s = ft ++ r /\ frac_text ft fr.
Proof.
  unfold frac_group. destruct s as [|c s0]; [intros [= <- <-]; exists []; split; [reflexivity|constructor]|].
  destruct (ceq c ".") eqn:Ec; [|intros [= <- <-]; exists []; split; [reflexivity|constructor]].
  apply ceq_eq in Ec. subst c. destruct (span is_digit s0) as [ds r'] eqn:Sp.
  destruct (span_spec _ _ _ _ Sp) as (E & Hd & _).
  destruct ds as [|d0 ds]; cbn [is_nil]; [intros [= <- <-]; exists []; split; [reflexivity|constructor]|].
  intros [= <- <-]. exists ("."%char :: d0 :: ds). split; [rewrite E; reflexivity|constructor; [discriminate|exact Hd]].
Qed.
Lemma frac_text_facts ft fr : frac_text ft fr -> matches (opt frac_re) ft = true /\ no_ws ft = true.
Proof.
  intros [|ds Hne Hd]; [split; reflexivity|]. split.
  - apply m_opt_some. unfold frac_re. apply m_cons_ch. apply m_plus_cls; assumption.
  - rewrite no_ws_cons, (digits_no_ws _ Hd). reflexivity.
Qed.

Lemma tod_scan h mi s ft fr z g : 0 <= h <= 99 -> 0 <= mi <= 99 -> 0 <= s <= 99 ->
  frac_text ft fr -> head_ok z = true -> tz_group_end z = Some g ->
  scan_time_tail (tod_text h mi s (ft ++ z)) = Some (h, mi, s, fr, g).
Proof.
  intros Hh Hmi Hs Hft Hz G.
  destruct (two_digits h Hh) as (_ & Dh & Vh & _). destruct (two_digits mi Hmi) as (_ & Dm & Vm & _).
  destruct (two_digits s Hs) as (_ & Ds & Vs & _).
  pose proof Dh as X. apply forallb2 in X as (H1 & H2). pose proof Dm as X. apply forallb2 in X as (M1 & M2).
  pose proof Ds as X. apply forallb2 in X as (S1 & S2).
  unfold scan_time_tail, tod_text, d2. cbn [app forallb]. rewrite H1, H2, M1, M2, S1, S2. cbn [andb].
  rewrite !ceq_refl. cbn [andb]. rewrite (frac_group_text ft fr z Hft Hz), G.
  change (int_dec [dchar (h / 10); dchar (h mod 10)]) with (int_dec (d2 h)).
  change (int_dec [dchar (mi / 10); dchar (mi mod 10)]) with (int_dec (d2 mi)).
  change (int_dec [dchar (s / 10); dchar (s mod 10)]) with (int_dec (d2 s)).
  rewrite Vh, Vm, Vs. reflexivity.
Qed.
Lemma tod_valid h mi s ft fr : 0 <= h <= 23 -> 0 <= mi <= 59 -> 0 <= s <= 59 -> frac_text ft fr ->
  matches timeofday_re (tod_text h mi s ft) = true /\ no_ws (tod_text h mi s ft) = true.
Proof.
  intros Hh Hmi Hs Hft.
  destruct (two_digits h ltac:(lia)) as (_ & Dh & _ & _ & _ & Mh & _).
  destruct (two_digits mi ltac:(lia)) as (_ & Dm & _ & _ & _ & _ & Mmi).
  destruct (two_digits s ltac:(lia)) as (_ & Ds & _ & _ & _ & _ & Ms).
  destruct (frac_text_facts _ _ Hft) as [Mf Nf]. split.
  - unfold timeofday_re. apply m_altl. cbn [cats]. unfold tod_text.
    apply m_cat; [apply Mh; lia|]. apply m_cons_ch. apply m_cat; [apply Mmi; lia|]. apply m_cons_ch.
    apply m_cat; [apply Ms; lia|exact Mf].
  - unfold tod_text. rewrite no_ws_app, (digits_no_ws _ Dh), no_ws_cons, no_ws_app, (digits_no_ws _ Dm), no_ws_cons,
      no_ws_app, (digits_no_ws _ Ds), Nf. reflexivity.
Qed.
Lemma tod_text_app h mi s a b : tod_text h mi s (a ++ b) = tod_text h mi s a ++ b.
Proof. unfold tod_text. rewrite <- !app_assoc. cbn [app]. rewrite <- !app_assoc. cbn [app]. rewrite <- !app_assoc. reflexivity. Qed.

(* the fraction isoformat writes for a microsecond value *)
Definition us_text (us : Z) : str := if us =? 0 then [] else "."%char :: fmt_0d 6 us.
Lemma us_text_frac us : 0 <= us <= 999999 ->
  exists fr, frac_text (us_text us) fr /\ us_of_group fr = us.
Proof.
  intros H. unfold us_text. destruct (Z.eqb_spec us 0) as [->|Hn].
  - exists None. split; [constructor|reflexivity].
  - destruct (six_digits us H) as (Hl & Hd & Hv). exists (Some (fmt_0d 6 us)). split; [|exact Hv].
    constructor; [|exact Hd]. intros E. rewrite E in Hl. discriminate.
Qed.

Lemma time_roundtrip v : wf_time v ->
  exists s, print_time v = Ok s /\ parse_time s = Ok v /\ valid_xsd_time s = true.
Proof.
  destruct v as [h mi s us t]. unfold wf_time. cbn [t_h t_mi t_s t_us t_tz]. intros [Hf Ht].
  destruct (time_fields_ok_inv _ _ _ _ Hf) as (Hh & Hmi & Hs & Hus).
  destruct (two_digits h ltac:(lia)) as (Eh & _). destruct (two_digits mi ltac:(lia)) as (Emi & _).
  destruct (two_digits s ltac:(lia)) as (Es & _).
  destruct (iso_tz_facts t Ht) as (g & G1 & G2 & G3 & G4 & G5).
  destruct (us_text_frac us Hus) as (fr & Hft & Hfr).
  exists (tod_text h mi s (us_text us ++ iso_tz t)). split; [|split].
  - unfold print_time. cbn [t_h t_mi t_s t_us t_tz]. rewrite (check_utcoffset_ok _ Ht). cbn [bind].
    unfold iso_time. rewrite Eh, Emi, Es. fold (us_text us). unfold tod_text.
    rewrite <- !app_assoc. cbn [app]. rewrite <- !app_assoc. cbn [app]. rewrite <- !app_assoc. reflexivity.
  - unfold parse_time. rewrite (tod_scan h mi s _ fr _ g) by (auto; lia). rewrite G2. cbn [bind].
    rewrite Hfr. unfold new_time. rewrite Hf. reflexivity.
  - unfold valid_xsd_time. destruct (tod_valid h mi s _ fr Hh Hmi Hs Hft) as [Mt Nt].
    rewrite tod_text_app. rewrite ws_collapse_id by (rewrite no_ws_app, Nt, G4; reflexivity).
    unfold time_re. apply m_cat; assumption.
Qed.

Lemma new_time_err h mi s us t e : new_time h mi s us t = Err e -> e = ValueError.
Proof. unfold new_time. err_tac. Qed.
Lemma parse_time_err s e : parse_time s = Err e -> e = ValueError.
Proof.
  unfold parse_time. destruct (scan_time_tail s) as [[[[[h mi] sec] fr] g]|]; [|congruence].
  destruct (parse_tzinfo g) eqn:P; cbn [bind]; [apply new_time_err|]. intros [= <-]. eapply parse_tzinfo_err, P.
Qed.

(* what scan_time_tail can have matched *)
Lemma tod_scan_shape r h mi s fr g t : scan_time_tail r = Some (h, mi, s, fr, g) -> parse_tzinfo g = Ok t ->
  exists ft core w2, r = tod_text h mi s (ft ++ core) ++ w2 /\ frac_text ft fr /\ 0 <= h <= 99 /\ 0 <= mi <= 99 /\
    0 <= s <= 99 /\ forallb is_xsd_ws w2 = true /\ no_ws core = true /\ matches (opt tz_re) core = true.
Proof.
  unfold scan_time_tail.
  destruct r as [|h1 [|h2 [|c1 [|m1 [|m2 [|c2 [|s1 [|s2 r]]]]]]]]; try discriminate.
  destruct (forallb is_digit [h1; h2; m1; m2; s1; s2] && ceq c1 ":" && ceq c2 ":") eqn:C; [|discriminate].
  destruct (frac_group r) as [fr' r'] eqn:F. destruct (tz_group_end r') as [g'|] eqn:G; [|discriminate].
  intros [= <- <- <- <- <-] P.
  apply andb_true_iff in C as [C C2]. apply andb_true_iff in C as [C C1].
  apply ceq_eq in C1. apply ceq_eq in C2. subst c1 c2.
  cbn [forallb] in C. repeat (apply andb_true_iff in C as [? C]).
  destruct (digits2_canon h1 h2) as [Eh Rh]; auto. destruct (digits2_canon m1 m2) as [Em Rm]; auto.
  destruct (digits2_canon s1 s2) as [Es Rs]; auto.
  destruct (frac_group_shape _ _ _ F) as (ft & Er & Hft).
  destruct (tz_group_shape r' g' t G P) as (core & w2 & Er' & Hw2 & Hcore & Mcore).
  exists ft, core, w2. repeat split; auto; try lia.
  rewrite <- tod_text_app, <- app_assoc, <- Er', <- Er. unfold tod_text. rewrite <- Eh, <- Em, <- Es. reflexivity.
Qed.

Lemma time_accept_valid s v : parse_time s = Ok v -> valid_xsd_time s = true.
Proof.
  unfold parse_time. destruct (scan_time_tail s) as [[[[[h mi] sec] fr] g]|] eqn:Sc; [|discriminate].
  destruct (parse_tzinfo g) as [t|] eqn:P; cbn [bind]; [|discriminate].
  unfold new_time. destruct (time_fields_ok _ _ _ _) eqn:Hf; [|discriminate]. intros _.
  destruct (tod_scan_shape _ _ _ _ _ _ _ Sc P) as (ft & core & w2 & Es & Hft & _ & _ & _ & Hw2 & Hcore & Mcore).
  destruct (time_fields_ok_inv _ _ _ _ Hf) as (Hh & Hmi & Hs & _).
  destruct (tod_valid h mi sec ft fr Hh Hmi Hs Hft) as [Mt Nt].
  rewrite Es, tod_text_app. unfold valid_xsd_time.
  pose proof (ws_collapse_core [] (tod_text h mi sec ft ++ core) w2 eq_refl
                ltac:(rewrite no_ws_app, Nt, Hcore; reflexivity) Hw2) as K.
  cbn [app] in K. rewrite K. unfold time_re. apply m_cat; assumption.
Qed.
Lemma time_reject_literal s : valid_xsd_time s = false -> parse_time s = Err ValueError.
Proof.
  intros H. destruct (parse_time s) as [v|e] eqn:E.
  - apply time_accept_valid in E. congruence.
  - f_equal. eapply parse_time_err, E.
Qed.

(* ================================================================ dateTime *)
Definition wf_datetime (v : datetime) : Prop :=
  date_fields_ok (dt_y v) (dt_m v) (dt_d v) = true /\ time_fields_ok (dt_h v) (dt_mi v) (dt_s v) (dt_us v) = true /\
  tz_ok (dt_tz v) = true.
Definition dt_tail_re : re := cats [ch "T"; timeofday_re; opt tz_re].

Lemma datetime_text_parse y m d h mi s ft fr z g t :
  date_fields_ok y m d = true -> time_fields_ok h mi s (us_of_group fr) = true ->
  frac_text ft fr -> head_ok z = true -> tz_group_end z = Some g -> parse_tzinfo g = Ok t ->
  parse_datetime (date_text y m d ("T"%char :: tod_text h mi s (ft ++ z))) = Ok (mkDT y m d h mi s (us_of_group fr) t).
Proof.
  intros Hf Hg Hft Hz G1 G2. destruct (date_fields_ok_inv _ _ _ Hf) as (Hy & Hm & Hd & Hd31).
  destruct (time_fields_ok_inv _ _ _ _ Hg) as (Hh & Hmi & Hs & _).
  destruct (four_digits y ltac:(lia)) as (_ & D4 & V4 & _).
  destruct (two_digits m ltac:(lia)) as (_ & D2m & V2m & _). destruct (two_digits d ltac:(lia)) as (_ & D2d & V2d & _).
  pose proof D4 as D4'. apply forallb4 in D4' as (Y1 & Y2 & Y3 & Y4).
  pose proof D2m as D2m'. apply forallb2 in D2m' as (M1 & M2). pose proof D2d as D2d'. apply forallb2 in D2d' as (A1 & A2).
  unfold parse_datetime, date_text, d4, d2. cbn [app]. rewrite (opt_minus_digit _ _ Y1).
  cbn [forallb]. rewrite Y1, Y2, Y3, Y4, M1, M2, A1, A2. cbn [andb]. rewrite !ceq_refl. cbn [andb].
  fold (d2 h). rewrite (tod_scan h mi s ft fr z g) by (auto; lia). rewrite G2. cbn [bind].
  change (int_dec [dchar (y / 1000); dchar (y / 100 mod 10); dchar (y / 10 mod 10); dchar (y mod 10)]) with (int_dec (d4 y)).
  change (int_dec [dchar (m / 10); dchar (m mod 10)]) with (int_dec (d2 m)).
  change (int_dec [dchar (d / 10); dchar (d mod 10)]) with (int_dec (d2 d)).
  rewrite V4, V2m, V2d. unfold new_datetime. rewrite Hf, Hg. reflexivity.
Qed.

Lemma datetime_roundtrip v : wf_datetime v ->
  exists s, print_datetime v = Ok s /\ parse_datetime s = Ok v /\ valid_xsd_datetime s = true.
Proof.
  destruct v as [y m d h mi s us t]. unfold wf_datetime. cbn [dt_y dt_m dt_d dt_h dt_mi dt_s dt_us dt_tz].
  intros (Hf & Hg & Ht).
  destruct (date_fields_ok_inv _ _ _ Hf) as (Hy & Hm & Hd & Hd31).
  destruct (time_fields_ok_inv _ _ _ _ Hg) as (Hh & Hmi & Hs & Hus).
  destruct (four_digits y ltac:(lia)) as (E4 & _). destruct (two_digits m ltac:(lia)) as (E2m & _).
  destruct (two_digits d ltac:(lia)) as (E2d & _).
  destruct (two_digits h ltac:(lia)) as (Eh & _). destruct (two_digits mi ltac:(lia)) as (Emi & _).
  destruct (two_digits s ltac:(lia)) as (Es & _).
  destruct (iso_tz_facts t Ht) as (g & G1 & G2 & G3 & G4 & G5).
  destruct (us_text_frac us Hus) as (fr & Hft & Hfr).
  exists (date_text y m d ("T"%char :: tod_text h mi s (us_text us ++ iso_tz t))). split; [|split].
  - unfold print_datetime. cbn [dt_y dt_m dt_d dt_h dt_mi dt_s dt_us dt_tz]. rewrite (check_utcoffset_ok _ Ht). cbn [bind].
    unfold iso_date, iso_time. rewrite E4, E2m, E2d, Eh, Emi, Es. fold (us_text us). unfold date_text, tod_text.
    repeat (rewrite <- app_assoc; cbn [app]). reflexivity.
  - pose proof (datetime_text_parse y m d h mi s (us_text us) fr (iso_tz t) g t Hf) as K.
    rewrite Hfr in K. apply K; auto.
  - unfold valid_xsd_datetime. destruct (tod_valid h mi s _ fr Hh Hmi Hs Hft) as [Mt Nt].
    rewrite tod_text_app.
    assert (Nz : no_ws ("T"%char :: tod_text h mi s (us_text us) ++ iso_tz t) = true)
      by (rewrite no_ws_cons, no_ws_app, Nt, G4; reflexivity).
    rewrite ws_collapse_id by (apply date_text_no_ws; try lia; exact Nz).
    assert (Mz : matches dt_tail_re ("T"%char :: tod_text h mi s (us_text us) ++ iso_tz t) = true)
      by (unfold dt_tail_re; cbn [cats]; apply m_cons_ch, m_cat; assumption).
    destruct (date_text_valid dt_tail_re y m d _ ltac:(lia) Hm ltac:(lia) Mz) as [M Y].
    change datetime_re with (cats [year_re; ch "-"; month_re; ch "-"; day_re; dt_tail_re]).
    rewrite M, Y. cbn [andb]. apply date_fields_day_ok, Hf.
Qed.

Lemma new_datetime_err y m d h mi s us t e : new_datetime y m d h mi s us t = Err e -> e = ValueError.
Proof. unfold new_datetime. err_tac. Qed.
Lemma parse_datetime_err s e : parse_datetime s = Err e -> e = ValueError.
Proof.
  unfold parse_datetime. destruct (opt_minus s) as [neg s1].
  do 11 (destruct s1 as [|? s1]; [congruence|]).
  destruct (_ && _); [|congruence]. destruct (scan_time_tail s1) as [[[[[h mi] sec] fr] g]|]; [|congruence].
  destruct neg; [congruence|].
  destruct (parse_tzinfo g) eqn:P; cbn [bind]; [apply new_datetime_err|]. intros [= <-]. eapply parse_tzinfo_err, P.
Qed.

Lemma datetime_accept_valid s v : parse_datetime s = Ok v -> valid_xsd_datetime s = true.
Proof.
  unfold parse_datetime. destruct (opt_minus s) as [neg s1] eqn:Eo.
  destruct s1 as [|y1 [|y2 [|y3 [|y4 [|c1 [|m1 [|m2 [|c2 [|d1 [|d2' [|cT r]]]]]]]]]]]; try discriminate.
  destruct (forallb is_digit [y1; y2; y3; y4; m1; m2; d1; d2'] && ceq c1 "-" && ceq c2 "-" && ceq cT "T") eqn:C; [|discriminate].
  destruct (scan_time_tail r) as [[[[[h mi] sec] fr] g]|] eqn:Sc; [|discriminate].
  destruct neg; [discriminate|].
  destruct (parse_tzinfo g) as [t|] eqn:P; cbn [bind]; [|discriminate].
  unfold new_datetime. destruct (date_fields_ok _ _ _) eqn:Hf; [|discriminate].
  destruct (time_fields_ok _ _ _ _) eqn:Hg; [|discriminate]. intros _.
  apply opt_minus_false in Eo. subst s.
  apply andb_true_iff in C as [C C3]. apply andb_true_iff in C as [C C2]. apply andb_true_iff in C as [C C1].
  apply ceq_eq in C1. apply ceq_eq in C2. apply ceq_eq in C3. subst c1 c2 cT.
  cbn [forallb] in C. repeat (apply andb_true_iff in C as [? C]).
  destruct (digits4_canon y1 y2 y3 y4) as [E4 R4]; auto.
  destruct (digits2_canon m1 m2) as [Em Rm]; auto. destruct (digits2_canon d1 d2') as [Ed Rd]; auto.
  set (Y := int_dec [y1; y2; y3; y4]) in *. set (M := int_dec [m1; m2]) in *. set (Dd := int_dec [d1; d2']) in *.
  destruct (tod_scan_shape _ _ _ _ _ _ _ Sc P) as (ft & core & w2 & Er & Hft & _ & _ & _ & Hw2 & Hcore & Mcore).
  destruct (date_fields_ok_inv _ _ _ Hf) as (Hy & Hm & Hd & Hd31).
  destruct (time_fields_ok_inv _ _ _ _ Hg) as (Hh & Hmi & Hs & _).
  destruct (tod_valid h mi sec ft fr Hh Hmi Hs Hft) as [Mt Nt].
  set (z := "T"%char :: tod_text h mi sec ft ++ core).
  assert (Es : y1 :: y2 :: y3 :: y4 :: "-"%char :: m1 :: m2 :: "-"%char :: d1 :: d2' :: "T"%char :: r = date_text Y M Dd z ++ w2).
  { rewrite <- date_text_app. unfold z. rewrite Er, tod_text_app. unfold date_text. rewrite <- E4, <- Em, <- Ed.
    cbn [app]. reflexivity. }
  rewrite Es. unfold valid_xsd_datetime.
  assert (Nz : no_ws z = true) by (unfold z; rewrite no_ws_cons, no_ws_app, Nt, Hcore; reflexivity).
  pose proof (ws_collapse_core [] (date_text Y M Dd z) w2 eq_refl
                (date_text_no_ws Y M Dd z ltac:(lia) ltac:(lia) ltac:(lia) Nz) Hw2) as K.
  cbn [app] in K. rewrite K.
  assert (Mz : matches dt_tail_re z = true) by (unfold dt_tail_re, z; cbn [cats]; apply m_cons_ch, m_cat; assumption).
  destruct (date_text_valid dt_tail_re Y M Dd z ltac:(lia) Hm ltac:(lia) Mz) as [Mm Yy].
  change datetime_re with (cats [year_re; ch "-"; month_re; ch "-"; day_re; dt_tail_re]).
  rewrite Mm, Yy. cbn [andb]. apply date_fields_day_ok, Hf.
Qed.
Lemma datetime_reject_literal s : valid_xsd_datetime s = false -> parse_datetime s = Err ValueError.
Proof.
  intros H. destruct (parse_datetime s) as [v|e] eqn:E.
  - apply datetime_accept_valid in E. congruence.
  - f_equal. eapply parse_datetime_err, E.
Qed.

(* ================================================================ gYear, gYearMonth, gMonthDay, gDay, gMonth *)
Ltac leb_hyps :=
  repeat match goal with
         | X : (_ && _) = true |- _ => apply andb_true_iff in X as [? ?]
         | X : negb _ = true |- _ => apply negb_true_iff in X
         | X : negb _ = false |- _ => apply negb_false_iff in X
         | X : (_ <=? _) = true |- _ => apply Z.leb_le in X
         | X : (_ <=? _) = false |- _ => apply Z.leb_gt in X
         | X : (_ >? _) = false |- _ => rewrite Z.gtb_ltb in X; apply Z.ltb_ge in X
         | X : (_ =? _) = true |- _ => apply Z.eqb_eq in X
         | X : (_ =? _) = false |- _ => apply Z.eqb_neq in X
         end.
Lemma ctor_gyearmonth_inv y m : ctor_ok_GYearMonth y m = true -> 1 <= m <= 12.
Proof. unfold ctor_ok_GYearMonth. intros H. rewrite negb_involutive in H. leb_hyps. lia. Qed.
Lemma ctor_gmonth_inv m : ctor_ok_GMonth m = true -> 1 <= m <= 12.
Proof. unfold ctor_ok_GMonth. intros H. rewrite negb_involutive in H. leb_hyps. lia. Qed.
Lemma ctor_gday_inv d : ctor_ok_GDay d = true -> 1 <= d <= 31.
Proof. unfold ctor_ok_GDay. intros H. rewrite negb_involutive in H. leb_hyps. lia. Qed.
Lemma ctor_gmonthday_inv m d : ctor_ok_GMonthDay m d = true ->
  1 <= m <= 12 /\ 1 <= d <= 31 /\ date_fields_ok 2000 m d = true /\ monthday_ok m d = true.
Proof.
  unfold ctor_ok_GMonthDay. rewrite !negb_involutive. intros H.
  apply andb_true_iff in H as [H H3]. apply andb_true_iff in H as [H1 H2]. leb_hyps.
  assert (K : d <= days_in_month 2000 m /\ monthday_ok m d = true).
  { unfold days_in_month, monthday_ok. change (is_leap 2000) with true. cbv iota.
    destruct (m =? 2) eqn:E2; destruct ((m =? 4) || (m =? 6) || (m =? 9) || (m =? 11)) eqn:E4;
      split; try lia; try reflexivity; apply Z.leb_le; lia. }
  destruct K as [K1 K2]. repeat split; try lia; [|exact K2].
  unfold date_fields_ok. repeat (apply andb_true_iff; split); apply Z.leb_le; lia.
Qed.

Ltac finish_reject P ACC ERR :=
  let Hx := fresh "Hx" in let Ex := fresh "Ex" in
  intros Hx; destruct P eqn:Ex; [apply ACC in Ex; congruence|f_equal; eapply ERR, Ex].

(* ---- gYear *)
Definition wf_gyear (v : gyear) : Prop := 1 <= gy_y v <= 9999 /\ tz_ok (gy_tz v) = true.
Lemma y11_ok y : 1 <= y <= 9999 -> date_fields_ok y 1 1 = true.
Proof.
  intros H. unfold date_fields_ok. pose proof (days_in_month_bounds y 1).
  repeat (apply andb_true_iff; split); apply Z.leb_le; lia.
Qed.
Lemma gyear_roundtrip v : wf_gyear v ->
  exists s, print_gyear v = Ok s /\ parse_gyear s = Ok v /\ valid_xsd_gyear s = true.
Proof.
  destruct v as [y t]. unfold wf_gyear. cbn [gy_y gy_tz]. intros [Hy Ht].
  destruct (four_digits y ltac:(lia)) as (E4 & D4 & V4 & M4).
  destruct (date_tz_facts t Ht) as (g & G1 & G2 & G3 & G4 & G5).
  pose proof D4 as D4'. apply forallb4 in D4' as (Y1 & Y2 & Y3 & Y4).
  exists (d4 y ++ date_tz_part t). split; [|split].
  - unfold print_gyear. cbn [gy_y gy_tz]. rewrite (serialize_tz_ok _ _ _ _ (y11_ok y Hy) Ht). cbn [bind]. rewrite E4. reflexivity.
  - unfold parse_gyear, d4. cbn [app forallb]. rewrite Y1, Y2, Y3, Y4. cbn [andb]. rewrite G1, G2. cbn [bind].
    change (int_dec [dchar (y / 1000); dchar (y / 100 mod 10); dchar (y / 10 mod 10); dchar (y mod 10)]) with (int_dec (d4 y)).
    rewrite V4. reflexivity.
  - unfold valid_xsd_gyear. rewrite ws_collapse_id by (rewrite no_ws_app, (digits_no_ws _ D4), G4; reflexivity).
    unfold gyear_re. apply m_cat; assumption.
Qed.
Lemma parse_gyear_err s e : parse_gyear s = Err e -> e = ValueError.
Proof.
  unfold parse_gyear. do 4 (destruct s as [|? s]; [congruence|]). destruct (forallb _ _); [|congruence].
  destruct (tz_group_end s); [|congruence]. destruct (parse_tzinfo t) eqn:P; cbn [bind].
  - unfold new_gyear. destruct (ctor_ok_GYear _); congruence.
  - intros [= <-]. eapply parse_tzinfo_err, P.
Qed.
Lemma gyear_accept_valid s v : parse_gyear s = Ok v -> valid_xsd_gyear s = true.
Proof.
  unfold parse_gyear. destruct s as [|y1 [|y2 [|y3 [|y4 r]]]]; try discriminate.
  destruct (forallb is_digit [y1; y2; y3; y4]) eqn:C; [|discriminate].
  destruct (tz_group_end r) as [g|] eqn:G; [|discriminate].
  destruct (parse_tzinfo g) as [t|] eqn:P; cbn [bind]; [|discriminate]. intros _.
  apply forallb4 in C as (? & ? & ? & ?). destruct (digits4_canon y1 y2 y3 y4) as [E4 R4]; auto.
  set (Y := int_dec [y1; y2; y3; y4]) in *.
  destruct (tz_group_shape r g t G P) as (core & w2 & Er & Hw2 & Hcore & Mcore).
  destruct (four_digits Y R4) as (_ & D4 & _ & M4).
  assert (Es : y1 :: y2 :: y3 :: y4 :: r = (d4 Y ++ core) ++ w2) by (rewrite <- app_assoc, <- Er, <- E4; reflexivity).
  rewrite Es. unfold valid_xsd_gyear.
  pose proof (ws_collapse_core [] (d4 Y ++ core) w2 eq_refl ltac:(rewrite no_ws_app, (digits_no_ws _ D4), Hcore; reflexivity) Hw2) as K.
  cbn [app] in K. rewrite K. unfold gyear_re. apply m_cat; assumption.
Qed.
Lemma gyear_reject_literal s : valid_xsd_gyear s = false -> parse_gyear s = Err ValueError.
Proof. finish_reject (parse_gyear s) gyear_accept_valid parse_gyear_err. Qed.

(* ---- gYearMonth *)
Definition wf_gyearmonth (v : gyearmonth) : Prop :=
  1 <= gym_y v <= 9999 /\ ctor_ok_GYearMonth (gym_y v) (gym_m v) = true /\ tz_ok (gym_tz v) = true.
Lemma ym1_ok y m : 1 <= y <= 9999 -> 1 <= m <= 12 -> date_fields_ok y m 1 = true.
Proof.
  intros Hy Hm. unfold date_fields_ok. pose proof (days_in_month_bounds y m).
  repeat (apply andb_true_iff; split); apply Z.leb_le; lia.
Qed.
Definition gym_text (y m : Z) (z : str) : str := d4 y ++ "-"%char :: (d2 m ++ z).
Lemma gym_text_facts y m z : 0 <= y <= 9999 -> 1 <= m <= 12 -> matches (opt tz_re) z = true -> no_ws z = true ->
  matches gyearmonth_re (gym_text y m z) = true /\ no_ws (gym_text y m z) = true.
Proof.
  intros Hy Hm Mz Nz. destruct (four_digits y Hy) as (_ & D4 & _ & M4).
  destruct (two_digits m ltac:(lia)) as (_ & D2 & _ & Mm & _). split.
  - unfold gyearmonth_re, gym_text. cbn [cats]. apply m_cat; [exact M4|]. apply m_cons_ch. apply m_cat; [apply Mm; lia|exact Mz].
  - unfold gym_text. rewrite no_ws_app, (digits_no_ws _ D4), no_ws_cons, no_ws_app, (digits_no_ws _ D2), Nz. reflexivity.
Qed.
Lemma gyearmonth_roundtrip v : wf_gyearmonth v ->
  exists s, print_gyearmonth v = Ok s /\ parse_gyearmonth s = Ok v /\ valid_xsd_gyearmonth s = true.
Proof.
  destruct v as [y m t]. unfold wf_gyearmonth. cbn [gym_y gym_m gym_tz]. intros (Hy & Hc & Ht).
  pose proof (ctor_gyearmonth_inv _ _ Hc) as Hm.
  destruct (four_digits y ltac:(lia)) as (E4 & D4 & V4 & _). destruct (two_digits m ltac:(lia)) as (E2 & D2 & V2 & _).
  destruct (date_tz_facts t Ht) as (g & G1 & G2 & G3 & G4 & G5).
  pose proof D4 as D4'. apply forallb4 in D4' as (Y1 & Y2 & Y3 & Y4). pose proof D2 as D2'. apply forallb2 in D2' as (M1 & M2).
  exists (gym_text y m (date_tz_part t)). split; [|split].
  - unfold print_gyearmonth. cbn [gym_y gym_m gym_tz]. rewrite (serialize_tz_ok _ _ _ _ (ym1_ok y m Hy Hm) Ht). cbn [bind].
    rewrite E4, E2. unfold gym_text. repeat (rewrite <- app_assoc; cbn [app]). reflexivity.
  - unfold parse_gyearmonth, gym_text, d4, d2. cbn [app forallb]. rewrite Y1, Y2, Y3, Y4, M1, M2. cbn [andb].
    rewrite ceq_refl. cbn [andb]. rewrite G1, G2. cbn [bind].
    change (int_dec [dchar (y / 1000); dchar (y / 100 mod 10); dchar (y / 10 mod 10); dchar (y mod 10)]) with (int_dec (d4 y)).
    change (int_dec [dchar (m / 10); dchar (m mod 10)]) with (int_dec (d2 m)).
    rewrite V4, V2. unfold new_gyearmonth. rewrite Hc. reflexivity.
  - unfold valid_xsd_gyearmonth. destruct (gym_text_facts y m _ ltac:(lia) Hm G3 G4) as [M N].
    rewrite ws_collapse_id by exact N. exact M.
Qed.
Lemma parse_gyearmonth_err s e : parse_gyearmonth s = Err e -> e = ValueError.
Proof.
  unfold parse_gyearmonth. do 7 (destruct s as [|? s]; [congruence|]). destruct (_ && _); [|congruence].
  destruct (tz_group_end s); [|congruence]. destruct (parse_tzinfo t) eqn:P; cbn [bind].
  - unfold new_gyearmonth. destruct (ctor_ok_GYearMonth _ _); congruence.
  - intros [= <-]. eapply parse_tzinfo_err, P.
Qed.
Lemma gyearmonth_accept_valid s v : parse_gyearmonth s = Ok v -> valid_xsd_gyearmonth s = true.
Proof.
  unfold parse_gyearmonth. destruct s as [|y1 [|y2 [|y3 [|y4 [|c1 [|m1 [|m2 r]]]]]]]; try discriminate.
  destruct (forallb is_digit [y1; y2; y3; y4; m1; m2] && ceq c1 "-") eqn:C; [|discriminate].
  destruct (tz_group_end r) as [g|] eqn:G; [|discriminate].
  destruct (parse_tzinfo g) as [t|] eqn:P; cbn [bind]; [|discriminate].
  unfold new_gyearmonth. destruct (ctor_ok_GYearMonth _ _) eqn:Hc; [|discriminate]. intros _.
  apply andb_true_iff in C as [C C1]. apply ceq_eq in C1. subst c1.
  cbn [forallb] in C. repeat (apply andb_true_iff in C as [? C]).
  destruct (digits4_canon y1 y2 y3 y4) as [E4 R4]; auto. destruct (digits2_canon m1 m2) as [Em Rm]; auto.
  set (Y := int_dec [y1; y2; y3; y4]) in *. set (M := int_dec [m1; m2]) in *.
  pose proof (ctor_gyearmonth_inv _ _ Hc) as Hm.
  destruct (tz_group_shape r g t G P) as (core & w2 & Er & Hw2 & Hcore & Mcore).
  assert (Es : y1 :: y2 :: y3 :: y4 :: "-"%char :: m1 :: m2 :: r = gym_text Y M core ++ w2).
  { unfold gym_text. repeat (rewrite <- app_assoc; cbn [app]). rewrite <- Er, <- E4, <- Em. reflexivity. }
  rewrite Es. unfold valid_xsd_gyearmonth. destruct (gym_text_facts Y M core R4 Hm Mcore Hcore) as [Mm N].
  pose proof (ws_collapse_core [] (gym_text Y M core) w2 eq_refl N Hw2) as K. cbn [app] in K. rewrite K. exact Mm.
Qed.
Lemma gyearmonth_reject_literal s : valid_xsd_gyearmonth s = false -> parse_gyearmonth s = Err ValueError.
Proof. finish_reject (parse_gyearmonth s) gyearmonth_accept_valid parse_gyearmonth_err. Qed.

(* ---- gMonthDay *)
Definition wf_gmonthday (v : gmonthday) : Prop := ctor_ok_GMonthDay (gmd_m v) (gmd_d v) = true /\ tz_ok (gmd_tz v) = true.
Definition gmd_text (m d : Z) (z : str) : str := "-"%char :: "-"%char :: (d2 m ++ "-"%char :: (d2 d ++ z)).
Lemma gmd_text_facts m d z : 1 <= m <= 12 -> 1 <= d <= 31 -> matches (opt tz_re) z = true -> no_ws z = true ->
  matches gmonthday_re (gmd_text m d z) = true /\ no_ws (gmd_text m d z) = true /\
  int_dec (firstn 2 (skipn 2 (gmd_text m d z))) = m /\ int_dec (firstn 2 (skipn 5 (gmd_text m d z))) = d.
Proof.
  intros Hm Hd Mz Nz. destruct (two_digits m ltac:(lia)) as (_ & D2m & V2m & Mm & _).
  destruct (two_digits d ltac:(lia)) as (_ & D2d & V2d & _ & Md & _). repeat split.
  - unfold gmonthday_re, gmd_text. cbn [cats]. change ("-"%char :: "-"%char :: d2 m ++ "-"%char :: d2 d ++ z)
      with (L "--" ++ (d2 m ++ "-"%char :: d2 d ++ z)).
    apply m_cat; [apply m_lit_l|]. apply m_cat; [apply Mm; lia|]. apply m_cons_ch. apply m_cat; [apply Md; lia|exact Mz].
  - unfold gmd_text. rewrite !no_ws_cons, no_ws_app, (digits_no_ws _ D2m), no_ws_cons, no_ws_app, (digits_no_ws _ D2d), Nz. reflexivity.
  - unfold gmd_text, d2. cbn [app skipn firstn]. exact V2m.
  - unfold gmd_text, d2. cbn [app skipn firstn]. exact V2d.
Qed.
Lemma gmonthday_roundtrip v : wf_gmonthday v ->
  exists s, print_gmonthday v = Ok s /\ parse_gmonthday s = Ok v /\ valid_xsd_gmonthday s = true.
Proof.
  destruct v as [m d t]. unfold wf_gmonthday. cbn [gmd_m gmd_d gmd_tz]. intros (Hc & Ht).
  destruct (ctor_gmonthday_inv _ _ Hc) as (Hm & Hd & Hf & Hmd).
  destruct (two_digits m ltac:(lia)) as (E2m & D2m & V2m & _). destruct (two_digits d ltac:(lia)) as (E2d & D2d & V2d & _).
  destruct (date_tz_facts t Ht) as (g & G1 & G2 & G3 & G4 & G5).
  pose proof D2m as X. apply forallb2 in X as (M1 & M2). pose proof D2d as X. apply forallb2 in X as (A1 & A2).
  exists (gmd_text m d (date_tz_part t)). split; [|split].
  - unfold print_gmonthday. cbn [gmd_m gmd_d gmd_tz]. rewrite (serialize_tz_ok _ _ _ _ Hf Ht). cbn [bind].
    rewrite E2m, E2d. unfold gmd_text. cbn [L list_ascii_of_string app]. repeat (rewrite <- app_assoc; cbn [app]). reflexivity.
  - unfold parse_gmonthday, gmd_text, d2. cbn [app forallb]. rewrite M1, M2, A1, A2. rewrite !ceq_refl. cbn [andb].
    rewrite G1, G2. cbn [bind].
    change (int_dec [dchar (m / 10); dchar (m mod 10)]) with (int_dec (d2 m)).
    change (int_dec [dchar (d / 10); dchar (d mod 10)]) with (int_dec (d2 d)).
    rewrite V2m, V2d. unfold new_gmonthday. rewrite Hc. reflexivity.
  - unfold valid_xsd_gmonthday. destruct (gmd_text_facts m d _ Hm Hd G3 G4) as (M & N & Vm & Vd).
    rewrite ws_collapse_id by exact N. rewrite M, Vm, Vd. exact Hmd.
Qed.
Lemma parse_gmonthday_err s e : parse_gmonthday s = Err e -> e = ValueError.
Proof.
  unfold parse_gmonthday. do 7 (destruct s as [|? s]; [congruence|]). destruct (_ && _); [|congruence].
  destruct (tz_group_end s); [|congruence]. destruct (parse_tzinfo t) eqn:P; cbn [bind].
  - unfold new_gmonthday. destruct (ctor_ok_GMonthDay _ _); congruence.
  - intros [= <-]. eapply parse_tzinfo_err, P.
Qed.
Lemma gmonthday_accept_valid s v : parse_gmonthday s = Ok v -> valid_xsd_gmonthday s = true.
Proof.
  unfold parse_gmonthday. destruct s as [|p1 [|p2 [|m1 [|m2 [|c1 [|d1 [|d2' r]]]]]]]; try discriminate.
  destruct (ceq p1 "-" && ceq p2 "-" && forallb is_digit [m1; m2; d1; d2'] && ceq c1 "-") eqn:C; [|discriminate].
  destruct (tz_group_end r) as [g|] eqn:G; [|discriminate].
  destruct (parse_tzinfo g) as [t|] eqn:P; cbn [bind]; [|discriminate].
  unfold new_gmonthday. destruct (ctor_ok_GMonthDay _ _) eqn:Hc; [|discriminate]. intros _.
  apply andb_true_iff in C as [C C1]. apply andb_true_iff in C as [C C0]. apply andb_true_iff in C as [Cp1 Cp2].
  apply ceq_eq in C1. apply ceq_eq in Cp1. apply ceq_eq in Cp2. subst c1 p1 p2.
  apply forallb4 in C0 as (? & ? & ? & ?).
  destruct (digits2_canon m1 m2) as [Em Rm]; auto. destruct (digits2_canon d1 d2') as [Ed Rd]; auto.
  set (M := int_dec [m1; m2]) in *. set (Dd := int_dec [d1; d2']) in *.
  destruct (ctor_gmonthday_inv _ _ Hc) as (Hm & Hd & Hf & Hmd).
  destruct (tz_group_shape r g t G P) as (core & w2 & Er & Hw2 & Hcore & Mcore).
  assert (Es : "-"%char :: "-"%char :: m1 :: m2 :: "-"%char :: d1 :: d2' :: r = gmd_text M Dd core ++ w2).
  { unfold gmd_text. cbn [app]. repeat (rewrite <- app_assoc; cbn [app]). rewrite <- Er, <- Em, <- Ed. reflexivity. }
  rewrite Es. unfold valid_xsd_gmonthday. destruct (gmd_text_facts M Dd core Hm Hd Mcore Hcore) as (Mm & N & Vm & Vd).
  pose proof (ws_collapse_core [] (gmd_text M Dd core) w2 eq_refl N Hw2) as K. cbn [app] in K. rewrite K.
  rewrite Mm, Vm, Vd. exact Hmd.
Qed.
Lemma gmonthday_reject_literal s : valid_xsd_gmonthday s = false -> parse_gmonthday s = Err ValueError.
Proof. finish_reject (parse_gmonthday s) gmonthday_accept_valid parse_gmonthday_err. Qed.

(* ---- gDay *)
Definition wf_gday (v : gday) : Prop := ctor_ok_GDay (gd_d v) = true /\ tz_ok (gd_tz v) = true.
Definition gd_text (d : Z) (z : str) : str := "-"%char :: "-"%char :: "-"%char :: (d2 d ++ z).
Lemma gd_text_facts d z : 1 <= d <= 31 -> matches (opt tz_re) z = true -> no_ws z = true ->
  matches gday_re (gd_text d z) = true /\ no_ws (gd_text d z) = true.
Proof.
  intros Hd Mz Nz. destruct (two_digits d ltac:(lia)) as (_ & D2d & _ & _ & Md & _). split.
  - unfold gday_re, gd_text. cbn [cats]. change ("-"%char :: "-"%char :: "-"%char :: d2 d ++ z) with (L "---" ++ (d2 d ++ z)).
    apply m_cat; [apply m_lit_l|]. apply m_cat; [apply Md; lia|exact Mz].
  - unfold gd_text. rewrite !no_ws_cons, no_ws_app, (digits_no_ws _ D2d), Nz. reflexivity.
Qed.
Lemma jan_ok d : 1 <= d <= 31 -> date_fields_ok 1970 1 d = true.
Proof. intros H. unfold date_fields_ok. change (days_in_month 1970 1) with 31. repeat (apply andb_true_iff; split); apply Z.leb_le; lia. Qed.
Lemma gday_roundtrip v : wf_gday v ->
  exists s, print_gday v = Ok s /\ parse_gday s = Ok v /\ valid_xsd_gday s = true.
Proof.
  destruct v as [d t]. unfold wf_gday. cbn [gd_d gd_tz]. intros (Hc & Ht).
  pose proof (ctor_gday_inv _ Hc) as Hd.
  destruct (two_digits d ltac:(lia)) as (E2d & D2d & V2d & _).
  destruct (date_tz_facts t Ht) as (g & G1 & G2 & G3 & G4 & G5).
  pose proof D2d as X. apply forallb2 in X as (A1 & A2).
  exists (gd_text d (date_tz_part t)). split; [|split].
  - unfold print_gday. cbn [gd_d gd_tz]. rewrite (serialize_tz_ok _ _ _ _ (jan_ok d Hd) Ht). cbn [bind].
    rewrite E2d. unfold gd_text. cbn [L list_ascii_of_string app]. repeat (rewrite <- app_assoc; cbn [app]). reflexivity.
  - unfold parse_gday, gd_text, d2. cbn [app forallb]. rewrite A1, A2. rewrite !ceq_refl. cbn [andb].
    rewrite G1, G2. cbn [bind]. change (int_dec [dchar (d / 10); dchar (d mod 10)]) with (int_dec (d2 d)).
    rewrite V2d. unfold new_gday. rewrite Hc. reflexivity.
  - unfold valid_xsd_gday. destruct (gd_text_facts d _ Hd G3 G4) as (M & N). rewrite ws_collapse_id by exact N. exact M.
Qed.
Lemma parse_gday_err s e : parse_gday s = Err e -> e = ValueError.
Proof.
  unfold parse_gday. do 5 (destruct s as [|? s]; [congruence|]). destruct (_ && _); [|congruence].
  destruct (tz_group_end s); [|congruence]. destruct (parse_tzinfo t) eqn:P; cbn [bind].
  - unfold new_gday. destruct (ctor_ok_GDay _); congruence.
  - intros [= <-]. eapply parse_tzinfo_err, P.
Qed.
Lemma gday_accept_valid s v : parse_gday s = Ok v -> valid_xsd_gday s = true.
Proof.
  unfold parse_gday. destruct s as [|p1 [|p2 [|p3 [|d1 [|d2' r]]]]]; try discriminate.
  destruct (ceq p1 "-" && ceq p2 "-" && ceq p3 "-" && forallb is_digit [d1; d2']) eqn:C; [|discriminate].
  destruct (tz_group_end r) as [g|] eqn:G; [|discriminate].
  destruct (parse_tzinfo g) as [t|] eqn:P; cbn [bind]; [|discriminate].
  unfold new_gday. destruct (ctor_ok_GDay _) eqn:Hc; [|discriminate]. intros _.
  apply andb_true_iff in C as [C C0]. apply andb_true_iff in C as [C Cp3]. apply andb_true_iff in C as [Cp1 Cp2].
  apply ceq_eq in Cp1. apply ceq_eq in Cp2. apply ceq_eq in Cp3. subst p1 p2 p3.
  apply forallb2 in C0 as (? & ?). destruct (digits2_canon d1 d2') as [Ed Rd]; auto.
  set (Dd := int_dec [d1; d2']) in *. pose proof (ctor_gday_inv _ Hc) as Hd.
  destruct (tz_group_shape r g t G P) as (core & w2 & Er & Hw2 & Hcore & Mcore).
  assert (Es : "-"%char :: "-"%char :: "-"%char :: d1 :: d2' :: r = gd_text Dd core ++ w2).
  { unfold gd_text. cbn [app]. repeat (rewrite <- app_assoc; cbn [app]). rewrite <- Er, <- Ed. reflexivity. }
  rewrite Es. unfold valid_xsd_gday. destruct (gd_text_facts Dd core Hd Mcore Hcore) as (Mm & N).
  pose proof (ws_collapse_core [] (gd_text Dd core) w2 eq_refl N Hw2) as K. cbn [app] in K. rewrite K. exact Mm.
Qed.
Lemma gday_reject_literal s : valid_xsd_gday s = false -> parse_gday s = Err ValueError.
Proof. finish_reject (parse_gday s) gday_accept_valid parse_gday_err. Qed.

(* ---- gMonth *)
Definition wf_gmonth (v : gmonth) : Prop := ctor_ok_GMonth (gm_m v) = true /\ tz_ok (gm_tz v) = true.
Definition gm_text (m : Z) (z : str) : str := "-"%char :: "-"%char :: (d2 m ++ z).
Lemma gm_text_facts m z : 1 <= m <= 12 -> matches (opt tz_re) z = true -> no_ws z = true ->
  matches gmonth_re (gm_text m z) = true /\ no_ws (gm_text m z) = true.
Proof.
  intros Hm Mz Nz. destruct (two_digits m ltac:(lia)) as (_ & D2 & _ & Mm & _). split.
  - unfold gmonth_re, gm_text. cbn [cats]. change ("-"%char :: "-"%char :: d2 m ++ z) with (L "--" ++ (d2 m ++ z)).
    apply m_cat; [apply m_lit_l|]. apply m_cat; [apply Mm; lia|exact Mz].
  - unfold gm_text. rewrite !no_ws_cons, no_ws_app, (digits_no_ws _ D2), Nz. reflexivity.
Qed.
Lemma m1_ok m : 1 <= m <= 12 -> date_fields_ok 1970 m 1 = true.
Proof.
  intros H. unfold date_fields_ok. pose proof (days_in_month_bounds 1970 m).
  repeat (apply andb_true_iff; split); apply Z.leb_le; lia.
Qed.
Lemma gmonth_roundtrip v : wf_gmonth v ->
  exists s, print_gmonth v = Ok s /\ parse_gmonth s = Ok v /\ valid_xsd_gmonth s = true.
Proof.
  destruct v as [m t]. unfold wf_gmonth. cbn [gm_m gm_tz]. intros (Hc & Ht).
  pose proof (ctor_gmonth_inv _ Hc) as Hm.
  destruct (two_digits m ltac:(lia)) as (E2 & D2 & V2 & _).
  destruct (date_tz_facts t Ht) as (g & G1 & G2 & G3 & G4 & G5).
  pose proof D2 as X. apply forallb2 in X as (A1 & A2).
  exists (gm_text m (date_tz_part t)). split; [|split].
  - unfold print_gmonth. cbn [gm_m gm_tz]. rewrite (serialize_tz_ok _ _ _ _ (m1_ok m Hm) Ht). cbn [bind].
    rewrite E2. unfold gm_text. cbn [L list_ascii_of_string app]. repeat (rewrite <- app_assoc; cbn [app]). reflexivity.
  - unfold parse_gmonth, gm_text, d2. cbn [app forallb]. rewrite A1, A2. rewrite !ceq_refl. cbn [andb].
    rewrite G1, G2. cbn [bind]. change (int_dec [dchar (m / 10); dchar (m mod 10)]) with (int_dec (d2 m)).
    rewrite V2. unfold new_gmonth. rewrite Hc. reflexivity.
  - unfold valid_xsd_gmonth. destruct (gm_text_facts m _ Hm G3 G4) as (M & N). rewrite ws_collapse_id by exact N. exact M.
Qed.
Lemma parse_gmonth_err s e : parse_gmonth s = Err e -> e = ValueError.
Proof.
  unfold parse_gmonth. do 4 (destruct s as [|? s]; [congruence|]). destruct (_ && _); [|congruence].
  destruct (tz_group_end s); [|congruence]. destruct (parse_tzinfo t) eqn:P; cbn [bind].
  - unfold new_gmonth. destruct (ctor_ok_GMonth _); congruence.
  - intros [= <-]. eapply parse_tzinfo_err, P.
Qed.
Lemma gmonth_accept_valid s v : parse_gmonth s = Ok v -> valid_xsd_gmonth s = true.
Proof.
  unfold parse_gmonth. destruct s as [|p1 [|p2 [|m1 [|m2 r]]]]; try discriminate.
  destruct (ceq p1 "-" && ceq p2 "-" && forallb is_digit [m1; m2]) eqn:C; [|discriminate].
  destruct (tz_group_end r) as [g|] eqn:G; [|discriminate].
  destruct (parse_tzinfo g) as [t|] eqn:P; cbn [bind]; [|discriminate].
  unfold new_gmonth. destruct (ctor_ok_GMonth _) eqn:Hc; [|discriminate]. intros _.
  apply andb_true_iff in C as [C C0]. apply andb_true_iff in C as [Cp1 Cp2].
  apply ceq_eq in Cp1. apply ceq_eq in Cp2. subst p1 p2.
  apply forallb2 in C0 as (? & ?). destruct (digits2_canon m1 m2) as [Em Rm]; auto.
  set (M := int_dec [m1; m2]) in *. pose proof (ctor_gmonth_inv _ Hc) as Hm.
  destruct (tz_group_shape r g t G P) as (core & w2 & Er & Hw2 & Hcore & Mcore).
  assert (Es : "-"%char :: "-"%char :: m1 :: m2 :: r = gm_text M core ++ w2).
  { unfold gm_text. cbn [app]. repeat (rewrite <- app_assoc; cbn [app]). rewrite <- Er, <- Em. reflexivity. }
  rewrite Es. unfold valid_xsd_gmonth. destruct (gm_text_facts M core Hm Mcore Hcore) as (Mm & N).
  pose proof (ws_collapse_core [] (gm_text M core) w2 eq_refl N Hw2) as K. cbn [app] in K. rewrite K. exact Mm.
Qed.
Lemma gmonth_reject_literal s : valid_xsd_gmonth s = false -> parse_gmonth s = Err ValueError.
Proof. finish_reject (parse_gmonth s) gmonth_accept_valid parse_gmonth_err. Qed.

(* ---- values outside the value space are refused *)
Lemma print_tz_out_of_range y m d off : off < -840 \/ 840 < off ->
  serialize_date_tzinfo y m d (Some off) = Err ValueError.
Proof.
  intros H. unfold serialize_date_tzinfo, new_date. destruct (date_fields_ok y m d); cbn [bind]; [|reflexivity].
  rewrite (check_utcoffset_bad off H). reflexivity.
Qed.

(* the translated constructor checks state exactly the month/day ranges *)
Lemma ctor_ranges :
  (forall y m, ctor_ok_GYearMonth y m = true <-> 1 <= m <= 12) /\
  (forall m, ctor_ok_GMonth m = true <-> 1 <= m <= 12) /\
  (forall d, ctor_ok_GDay d = true <-> 1 <= d <= 31) /\
  (forall m d, ctor_ok_GMonthDay m d = true <->
     1 <= m <= 12 /\ 1 <= d <= (if m =? 2 then 29 else if (m =? 4) || (m =? 6) || (m =? 9) || (m =? 11) then 30 else 31)).
Proof.
  split; [|split; [|split]].
  - intros y m. split; [apply ctor_gyearmonth_inv|].
    intros H. unfold ctor_ok_GYearMonth. rewrite negb_involutive. apply andb_true_iff; split; apply Z.leb_le; lia.
  - intros m. split; [apply ctor_gmonth_inv|].
    intros H. unfold ctor_ok_GMonth. rewrite negb_involutive. apply andb_true_iff; split; apply Z.leb_le; lia.
  - intros d. split; [apply ctor_gday_inv|].
    intros H. unfold ctor_ok_GDay. rewrite negb_involutive. apply andb_true_iff; split; apply Z.leb_le; lia.
  - intros m d. split.
    + intros H. destruct (ctor_gmonthday_inv _ _ H) as (Hm & _ & Hf & _).
      apply date_fields_ok_inv in Hf as (_ & _ & Hd & _).
      unfold days_in_month in Hd. change (is_leap 2000) with true in Hd. cbv iota in Hd. split; [exact Hm|exact Hd].
    + intros [Hm Hd]. unfold ctor_ok_GMonthDay. rewrite !negb_involutive.
      assert (d <= 31) by (destruct (m =? 2); [lia|]; destruct (_ || _); lia).
      repeat (apply andb_true_iff; split); try (apply Z.leb_le; lia).
      apply negb_true_iff. rewrite Z.gtb_ltb. apply Z.ltb_ge. lia.
Qed.
Lemma time_print_out_of_range h mi s us off : off < -840 \/ 840 < off ->
  print_time (mkTime h mi s us (Some off)) = Err ValueError /\
  forall y m d, print_datetime (mkDT y m d h mi s us (Some off)) = Err ValueError /\
                print_date (mkDate y m d (Some off)) = Err ValueError.
Proof.
  intros H. split; [|intros y m d; split].
  - unfold print_time. cbn [t_tz]. rewrite (check_utcoffset_bad off H). reflexivity.
  - unfold print_datetime. cbn [dt_tz]. rewrite (check_utcoffset_bad off H). reflexivity.
  - unfold print_date. cbn [d_y d_m d_d d_tz]. rewrite (print_tz_out_of_range _ _ _ _ H). reflexivity.
Qed.

Lemma zone_offsets : forall off, -840 <= off <= 840 ->
  (exists g, tz_group_end (date_tz_text off) = Some g /\ parse_tzinfo g = Ok (Some off) /\
             matches (opt tz_re) (date_tz_text off) = true) /\
  (exists g, tz_group_end (iso_tz (Some off)) = Some g /\ parse_tzinfo g = Ok (Some off) /\
             matches (opt tz_re) (iso_tz (Some off)) = true).
Proof.
  intros off H. split.
  - destruct (tz_text_facts date_tz_text tz_chk_date_all off H) as (g & A & B & C & _). exists g. auto.
  - destruct (tz_text_facts (fun o => iso_tz (Some o)) tz_chk_iso_all off H) as (g & A & B & C & _). exists g. auto.
Qed.

(* ---- zone offsets with microsecond resolution (what datetime.timezone can hold) *)
Lemma tz_of_us_whole m : -840 <= m <= 840 -> tz_of_us (Some (m * 60000000)) = Ok (Some m).
Proof.
  intros H. unfold tz_of_us, check_utcoffset_us. rewrite Z.mod_mul by lia. rewrite Z.div_mul by lia.
  destruct (Z.gtb_spec (Z.abs (m * 60000000)) (14 * 3600 * 1000000)); [lia|]. reflexivity.
Qed.
Lemma tz_of_us_reject o : o mod 60000000 <> 0 \/ o < -50400000000 \/ 50400000000 < o ->
  tz_of_us (Some o) = Err ValueError.
Proof.
  intros H. unfold tz_of_us, check_utcoffset_us.
  destruct (Z.gtb_spec (Z.abs o) (14 * 3600 * 1000000)); [reflexivity|].
  destruct (Z.eqb_spec (o mod 60000000) 0); [lia|reflexivity].
Qed.
Lemma tz_of_us_ok o t : tz_of_us o = Ok t ->
  tz_ok t = true /\ match o, t with
                    | None, None => True
                    | Some u, Some m => u = m * 60000000
                    | _, _ => False
                    end.
Proof.
  destruct o as [u|]; [|intros [= <-]; split; reflexivity].
  unfold tz_of_us, check_utcoffset_us.
  destruct (Z.gtb_spec (Z.abs u) (14 * 3600 * 1000000)); [discriminate|].
  destruct (Z.eqb_spec (u mod 60000000) 0) as [E|]; [|discriminate]. cbn. intros [= <-].
  pose proof (Z.div_mod u 60000000 ltac:(lia)) as DM. rewrite E in DM.
  split; [|lia]. cbn. apply andb_true_iff; split; apply Z.leb_le; lia.
Qed.
Lemma with_utcoffset_reject {A} o (k : tz -> res A) :
  o mod 60000000 <> 0 \/ o < -50400000000 \/ 50400000000 < o -> with_utcoffset (Some o) k = Err ValueError.
Proof. intros H. unfold with_utcoffset. rewrite (tz_of_us_reject o H). reflexivity. Qed.
Lemma with_utcoffset_whole {A} m (k : tz -> res A) : -840 <= m <= 840 ->
  with_utcoffset (Some (m * 60000000)) k = k (Some m).
Proof. intros H. unfold with_utcoffset. rewrite (tz_of_us_whole m H). reflexivity. Qed.
