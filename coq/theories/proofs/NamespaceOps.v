(* The public calls of model/Namespace.v: each preserves the invariant, whether it returns or
   raises; single-element calls that raise change nothing; internal-error branches are dead. *)
From Coq Require Import List ZArith Bool String Ascii Arith Lia.
From Basyx Require Import model.Namespace proofs.NamespaceProofs proofs.NamespacePrim.
Import ListNotations.
Local Open Scope nat_scope.

(* ---- list helpers -------------------------------------------------------- *)

Lemma lremove_none : forall e l, lremove e l = None <-> ~ In e l.
Proof.
  induction l as [|y r IH]; simpl.
  - tauto.
  - destruct (Nat.eqb e y) eqn:E.
    + apply Nat.eqb_eq in E. subst. split; [discriminate|]. intro H. exfalso. apply H. auto.
    + apply Nat.eqb_neq in E. destruct (lremove e r) eqn:R.
      * split; [discriminate|]. intro H. exfalso. assert (X : ~ In e r) by tauto. apply IH in X. discriminate.
      * split; auto. intros _ [A|A]; [congruence|]. destruct IH as [IH _]. apply IH; auto.
Qed.
Lemma lremove_some : forall e l l', NoDup l -> lremove e l = Some l' ->
  NoDup l' /\ (forall x, In x l' <-> In x l /\ x <> e).
Proof.
  induction l as [|y r IH]; simpl; intros l' ND H; [discriminate|].
  inversion ND; subst.
  destruct (Nat.eqb e y) eqn:E.
  - apply Nat.eqb_eq in E. subst y. inversion H; subst l'. split; auto.
    intro x. split.
    + intro A. split; auto. intro; subst. contradiction.
    + intros [[A|A] X]; [congruence|auto].
  - apply Nat.eqb_neq in E. destruct (lremove e r) as [r'|] eqn:R; [|discriminate].
    inversion H; subst l'. destruct (IH r' H3 eq_refl) as [N1 N2]. split.
    + constructor; auto. intro A. apply N2 in A. tauto.
    + intro x. simpl. rewrite N2. split.
      * intros [A|[A X]]; [subst; split; auto|split; auto].
      * intros [[A|A] X]; auto.
Qed.

Lemma linsert_in : forall p e l x, In x (linsert p e l) <-> In x l \/ x = e.
Proof.
  intros. unfold linsert. rewrite in_app_iff. simpl.
  rewrite <- (firstn_skipn p l) at 3. rewrite in_app_iff. intuition.
Qed.
Lemma linsert_nodup : forall p e l, NoDup l -> ~ In e l -> NoDup (linsert p e l).
Proof.
  intros p e l ND NI. unfold linsert. rewrite <- (firstn_skipn p l) in ND, NI.
  destruct (nodup_app_inv _ _ ND) as [N1 [N2 N3]].
  apply nodup_app; [exact N1| |].
  - constructor; [|exact N2]. intro A. apply NI. apply in_app_iff. auto.
  - intros x A [B|B].
    + subst. apply NI. apply in_app_iff. auto.
    + apply (N3 x A B).
Qed.

Lemma lset_spec : forall p e l old, nth_error l p = Some old -> NoDup l -> ~ In e l ->
  NoDup (lset p e l) /\ (forall x, In x (lset p e l) <-> (In x l /\ x <> old) \/ x = e).
Proof.
  induction p as [|p IH]; intros e l old N ND NI; destruct l as [|y r]; simpl in *; try discriminate.
  - inversion N; subst y. inversion ND; subst. split.
    + constructor; [intro A; apply NI; auto|assumption].
    + intro x. split.
      * intros [A|A]; auto. left. split; auto. intro; subst. contradiction.
      * intros [[[A|A] X]|A]; auto. congruence.
  - inversion ND; subst. destruct (IH e r old N H2) as [N1 N2]; [tauto|]. split.
    + constructor; auto. intro A. apply N2 in A. destruct A as [[A _]|A]; [contradiction|]. subst. apply NI. auto.
    + intro x. rewrite N2. split.
      * intros [A|[[A X]|A]]; auto. subst. left. split; auto. intro; subst. apply H1. eapply nth_error_In; eauto.
      * intros [[[A|A] X]|A]; auto.
Qed.

Lemma drop_nth_spec : forall p (l : list nat) e, nth_error l p = Some e -> NoDup l ->
  NoDup (firstn p l ++ skipn (S p) l) /\
  (forall x, In x (firstn p l ++ skipn (S p) l) <-> In x l /\ x <> e).
Proof.
  induction p as [|p IH]; intros l e N ND; destruct l as [|y r]; simpl in *; try discriminate.
  - inversion N; subst y. inversion ND; subst. split; auto. intro x. split.
    + intro A. split; auto. intro; subst. contradiction.
    + intros [[A|A] X]; [congruence|auto].
  - inversion ND; subst. destruct (IH r e N H2) as [N1 N2]. split.
    + constructor; auto. intro A. apply N2 in A. tauto.
    + intro x. rewrite N2. split.
      * intros [A|[A X]]; [|tauto]. subst. split; auto. intro; subst. apply H1. eapply nth_error_In; eauto.
      * intros [[A|A] X]; auto.
Qed.

Lemma skipn_add : forall {A} a b (l : list A), skipn a (skipn b l) = skipn (a + b) l.
Proof.
  intros A a b. revert a. induction b as [|b IH]; intros a l.
  - rewrite Nat.add_0_r. reflexivity.
  - destruct l as [|x r].
    + rewrite !skipn_nil. reflexivity.
    + rewrite Nat.add_succ_r. simpl. apply IH.
Qed.
Lemma slice_split : forall {A} lo hi (l : list A), lo <= hi ->
  l = firstn lo l ++ firstn (hi - lo) (skipn lo l) ++ skipn hi l.
Proof.
  intros A lo hi l H. replace (skipn hi l) with (skipn (hi - lo) (skipn lo l)).
  - rewrite firstn_skipn, firstn_skipn. reflexivity.
  - rewrite skipn_add. f_equal. lia.
Qed.
Lemma slice_bounds : forall len a b, slice_lo len a <= slice_hi len a b.
Proof. intros. unfold slice_hi. lia. Qed.

Section WithCfg.
Variable c : cfg.

(* ---- re-establishing the positional invariant ---------------------------- *)

Lemma mem_values : forall s j st x, nth_error (sets s) j = Some st -> (mem s j x <-> In x (values st)).
Proof.
  intros. unfold mem. split.
  - intros [a [Na Ha]]. congruence.
  - intro A. eauto.
Qed.

Lemma set_order_lookup : forall s i o st, nth_error (sets s) i = Some st ->
  nth_error (sets (set_order s i o)) i = Some (with_order (Some o) st) /\
  (forall j, j <> i -> nth_error (sets (set_order s i o)) j = nth_error (sets s) j).
Proof. intros. apply upd_set_lookup. exact H. Qed.

Lemma set_order_mem : forall s i o j x, mem (set_order s i o) j x <-> mem s j x.
Proof.
  intros. unfold mem, set_order, upd_set. simpl. rewrite nth_error_upd_nth.
  destruct (Nat.eqb j i); [|tauto].
  destruct (nth_error (sets s) j) as [st|]; simpl.
  - split; intros [a [Na Ha]]; inversion Na; subst; eauto.
  - split; intros [a [Na _]]; discriminate.
Qed.

Lemma set_order_BInv : forall s i o, BInv c s -> BInv c (set_order s i o).
Proof.
  intros s i o B. apply (BInv_frame c s); auto.
  intro j. unfold set_order, upd_set. simpl. rewrite nth_error_upd_nth.
  destruct (Nat.eqb j i); auto. destruct (nth_error (sets s) j); reflexivity.
Qed.

Definition same_owners (s s' : state) : Prop :=
  forall j, option_map (fun st => (s_owner st, s_hooks st)) (nth_error (sets s') j) =
            option_map (fun st => (s_owner st, s_hooks st)) (nth_error (sets s) j).
Lemma same_shells_owners : forall s s', same_shells s s' -> same_owners s s'.
Proof.
  intros s s' H j. specialize (H j).
  destruct (nth_error (sets s') j) as [a|], (nth_error (sets s) j) as [b|]; simpl in *; try discriminate; auto.
  inversion H. congruence.
Qed.
Lemma same_owners_refl : forall s, same_owners s s.
Proof. intros s j. reflexivity. Qed.
Lemma same_owners_trans : forall a b d, same_owners a b -> same_owners b d -> same_owners a d.
Proof. intros a b d H1 H2 j. rewrite H2. apply H1. Qed.
Lemma set_order_owners : forall s i o, same_owners s (set_order s i o).
Proof.
  intros s i o j. unfold set_order, upd_set. simpl. rewrite nth_error_upd_nth.
  destruct (Nat.eqb j i); auto. destruct (nth_error (sets s) j); reflexivity.
Qed.

Definition shells_except (i : nat) (s s' : state) : Prop :=
  forall j, j <> i -> option_map shell (nth_error (sets s') j) = option_map shell (nth_error (sets s) j).
Lemma same_shells_except : forall i s s', same_shells s s' -> shells_except i s s'.
Proof. intros i s s' H j _. apply H. Qed.
Lemma shells_except_trans : forall i a b d, shells_except i a b -> shells_except i b d -> shells_except i a d.
Proof. intros i a b d H1 H2 j D. rewrite (H2 j D). apply (H1 j D). Qed.
Lemma set_order_except : forall s i o, shells_except i s (set_order s i o).
Proof.
  intros s i o j D. unfold set_order, upd_set. simpl. rewrite nth_error_upd_nth.
  apply Nat.eqb_neq in D. rewrite D. reflexivity.
Qed.

(* all sets except i keep their order and their members; set i is unordered or its order
   enumerates its members *)
Lemma Inv_keep : forall s s1 i,
  OInv s -> BInv c s1 -> shells_except i s s1 ->
  (forall j x, j <> i -> (mem s1 j x <-> mem s j x)) ->
  (forall st1 o, nth_error (sets s1) i = Some st1 -> s_order st1 = Some o ->
                 NoDup o /\ (forall x, In x o <-> mem s1 i x)) ->
  Inv c s1.
Proof.
  intros s s1 i O B1 SH HM HO. split; auto.
  intros j st' Nj. unfold ord_ok.
  destruct (Nat.eq_dec j i) as [->|D].
  - destruct (s_order st') as [o|] eqn:SO; auto. destruct (HO st' o Nj SO) as [N1 N2]. split; auto.
    intro x. rewrite N2. apply (mem_values s1 i st' x Nj).
  - assert (SHj := SH j D). rewrite Nj in SHj. simpl in SHj.
    destruct (nth_error (sets s) j) as [st|] eqn:N; [|discriminate]. simpl in SHj.
    assert (OK := O j st N). unfold ord_ok in OK. unfold shell in SHj.
    assert (s_order st' = s_order st) by congruence. rewrite H.
    destruct (s_order st) as [o|]; auto. destruct OK as [N1 N2]. split; auto.
    intro x. rewrite N2. rewrite <- (mem_values s j st x N). rewrite <- (HM j x D).
    apply (mem_values s1 j st' x Nj).
Qed.

(* ... and set i gets order o' *)
Lemma Inv_reorder : forall s s1 i o',
  OInv s -> BInv c s1 -> shells_except i s s1 ->
  (forall j x, j <> i -> (mem s1 j x <-> mem s j x)) ->
  NoDup o' -> (forall x, In x o' <-> mem s1 i x) ->
  Inv c (set_order s1 i o').
Proof.
  intros s s1 i o' O B1 SH HM ND HO.
  apply (Inv_keep s (set_order s1 i o') i); auto.
  - apply set_order_BInv. exact B1.
  - apply (shells_except_trans i s s1); auto. apply set_order_except.
  - intros j x D. rewrite set_order_mem. apply HM. exact D.
  - intros st1 o N1 SO. unfold set_order, upd_set in N1. simpl in N1.
    rewrite nth_error_upd_nth, Nat.eqb_refl in N1.
    destruct (nth_error (sets s1) i) as [a|]; [|discriminate]. simpl in N1. inversion N1; subst st1.
    simpl in SO. inversion SO; subst o. split; auto. intro x. rewrite set_order_mem. apply HO.
Qed.

Lemma order_of_some : forall s i o, order_of s i = Some o ->
  exists st, nth_error (sets s) i = Some st /\ s_order st = Some o.
Proof.
  intros s i o H. unfold order_of in H. destruct (nth_error (sets s) i) as [st|]; [|discriminate]. eauto.
Qed.
Lemma order_of_shells : forall s s' i, same_shells s s' -> order_of s' i = order_of s i.
Proof.
  intros s s' i H. unfold order_of. specialize (H i).
  destruct (nth_error (sets s') i) as [a|], (nth_error (sets s) i) as [b|]; simpl in *; try discriminate; auto.
  inversion H. reflexivity.
Qed.
Lemma order_ok : forall s i o, OInv s -> order_of s i = Some o ->
  NoDup o /\ (forall x, In x o <-> mem s i x).
Proof.
  intros s i o O H. destruct (order_of_some s i o H) as [st [N SO]].
  assert (OK := O i st N). unfold ord_ok in OK. rewrite SO in OK. destruct OK as [N1 N2]. split; auto.
  intro x. rewrite N2. symmetry. apply (mem_values s i st x N).
Qed.


(* ---- add / remove / discard ----------------------------------------------- *)

Definition key_facts (s s' : state) (i e : nat) : Prop :=
  exists st, nth_error (sets s) i = Some st /\
             (s_hooks st = None -> e_key (elems s' e) = e_key (elems s e)) /\
             (s_hooks st <> None -> e_key (elems s e) = None).

Lemma set_add_spec : forall s i e s' out, Inv c s -> set_add c s i e = (s', out) ->
  match out with
  | Err x => pub_eq s s' /\ x <> EInternal
  | _ => Inv c s' /\ same_owners s s' /\
         (forall j x, mem s' j x <-> mem s j x \/ (j = i /\ x = e)) /\
         (forall x, x <> e -> elems s' x = elems s x) /\
         e_parent (elems s e) = None /\ gen s <= gen s' /\ key_facts s s' i e
  end.
Proof.
  intros s i e s' out [B O] H. unfold set_add in H.
  destruct (ns_add c s i e) as [s1 o1] eqn:A. apply (ns_add_spec c s i e s1 o1 B) in A.
  assert (GOAL : forall s', (match order_of s1 i with Some o => (set_order s1 i (o ++ [e]), Ok) | None => (s1, Ok) end) = (s', out) ->
     BInv c s1 /\ same_shells s s1 /\ (forall j x, mem s1 j x <-> mem s j x \/ j = i /\ x = e) /\
     (forall x, x <> e -> elems s1 x = elems s x) /\ e_parent (elems s e) = None /\ gen s <= gen s1 /\
     (exists st, nth_error (sets s) i = Some st /\ (s_hooks st = None -> e_key (elems s1 e) = e_key (elems s e)) /\
                 (s_hooks st <> None -> e_key (elems s e) = None)) ->
     match out with
     | Err x => pub_eq s s' /\ x <> EInternal
     | _ => Inv c s' /\ same_owners s s' /\ (forall j x, mem s' j x <-> mem s j x \/ (j = i /\ x = e)) /\
            (forall x, x <> e -> elems s' x = elems s x) /\ e_parent (elems s e) = None /\ gen s <= gen s' /\
            key_facts s s' i e
     end).
  { clear H s'. intros s' H [B1 [SH [HM [HE [PF [HG KF]]]]]].
    assert (NME : ~ mem s i e) by (apply (free_not_mem c s e B PF)).
    assert (HM' : forall j x, j <> i -> (mem s1 j x <-> mem s j x)).
    { intros j x D. rewrite HM. split; auto. intros [X|[X _]]; auto. contradiction. }
    destruct (order_of s1 i) as [o|] eqn:OO.
    - inversion H; subst s' out. clear H.
      rewrite (order_of_shells s s1 i SH) in OO. destruct (order_ok s i o O OO) as [N1 N2].
      split; [|split; [|split; [|split; [|split; [|split]]]]]; auto.
      + apply (Inv_reorder s s1 i (o ++ [e])); auto; try (apply same_shells_except; exact SH).
        * apply nodup_app; auto. { constructor; auto. constructor. }
          intros x X [Y|[]]. subst. apply NME. apply N2. exact X.
        * intro x. rewrite in_app_iff, HM, N2. simpl. intuition.
      + apply (same_owners_trans s s1); [apply same_shells_owners; exact SH|apply set_order_owners].
      + intros j x. rewrite set_order_mem. apply HM.
    - inversion H; subst s' out. clear H.
      split; [|split; [|split; [|split; [|split; [|split]]]]]; auto.
      + apply (Inv_keep s s1 i); auto; try (apply same_shells_except; exact SH). intros st1 o N1 SO. unfold order_of in OO. rewrite N1 in OO. congruence.
      + apply same_shells_owners; exact SH. }
  unfold bind in H. destruct o1 as [|v|x].
  - apply (GOAL s' H A).
  - apply (GOAL s' H A).
  - inversion H; subst s' out. exact A.
Qed.

Lemma set_remove_spec : forall s i e s' out, Inv c s -> set_remove c s i e = (s', out) ->
  match out with
  | Err x => s' = s /\ x <> EInternal /\ ~ mem s i e
  | _ => Inv c s' /\ same_owners s s' /\
         (forall j x, mem s' j x <-> mem s j x /\ ~ (j = i /\ x = e)) /\
         (forall x, x <> e -> elems s' x = elems s x) /\
         mem s i e /\ gen s' = gen s /\ e_parent (elems s' e) = None /\
         e_sem (elems s' e) = e_sem (elems s e) /\
         (exists st, nth_error (sets s) i = Some st /\
                     (s_hooks st = None -> e_key (elems s' e) = e_key (elems s e)) /\
                     (s_hooks st <> None -> e_key (elems s' e) = None))
  end.
Proof.
  intros s i e s' out [B O] H. unfold set_remove in H.
  destruct (ns_remove c s i e) as [s1 o1] eqn:A. apply (ns_remove_spec c s i e s1 o1 B) in A.
  assert (GOAL : forall s', (match order_of s1 i with
                  | Some o => match lremove e o with Some o' => (set_order s1 i o', Ok) | None => (s1, Err EInternal) end
                  | None => (s1, Ok) end) = (s', out) ->
     BInv c s1 /\ same_shells s s1 /\ (forall j x, mem s1 j x <-> mem s j x /\ ~ (j = i /\ x = e)) /\
     (forall x, x <> e -> elems s1 x = elems s x) /\ mem s i e /\ gen s1 = gen s /\
     e_parent (elems s1 e) = None /\ e_sem (elems s1 e) = e_sem (elems s e) /\
     (exists st, nth_error (sets s) i = Some st /\ (s_hooks st = None -> e_key (elems s1 e) = e_key (elems s e)) /\
                 (s_hooks st <> None -> e_key (elems s1 e) = None)) ->
     match out with
     | Err x => s' = s /\ x <> EInternal /\ ~ mem s i e
     | _ => Inv c s' /\ same_owners s s' /\ (forall j x, mem s' j x <-> mem s j x /\ ~ (j = i /\ x = e)) /\
         (forall x, x <> e -> elems s' x = elems s x) /\ mem s i e /\ gen s' = gen s /\
         e_parent (elems s' e) = None /\ e_sem (elems s' e) = e_sem (elems s e) /\
         (exists st, nth_error (sets s) i = Some st /\ (s_hooks st = None -> e_key (elems s' e) = e_key (elems s e)) /\
                     (s_hooks st <> None -> e_key (elems s' e) = None))
     end).
  { clear H s'. intros s' H [B1 [SH [HM [HE [ME [HG [PE [SE KF]]]]]]]].
    assert (HM' : forall j x, j <> i -> (mem s1 j x <-> mem s j x)).
    { intros j x D. rewrite HM. split; [tauto|]. intro X. split; auto. intros [Y _]. contradiction. }
    destruct (order_of s1 i) as [o|] eqn:OO.
    - rewrite (order_of_shells s s1 i SH) in OO. destruct (order_ok s i o O OO) as [N1 N2].
      destruct (lremove e o) as [o'|] eqn:LR.
      2:{ exfalso. apply lremove_none in LR. apply LR. apply N2. exact ME. }
      inversion H; subst s' out. clear H.
      destruct (lremove_some e o o' N1 LR) as [M1 M2].
      split; [|split; [|split; [|split; [|split; [|split; [|split; [|split]]]]]]]; auto.
      + apply (Inv_reorder s s1 i o'); auto; try (apply same_shells_except; exact SH).
        intro x. rewrite M2, HM, N2. split; [intros [X Y]; split; auto; intros [_ Z]; contradiction|].
        intros [X Y]. split; auto.
      + apply (same_owners_trans s s1); [apply same_shells_owners; exact SH|apply set_order_owners].
      + intros j x. rewrite set_order_mem. apply HM.
    - inversion H; subst s' out. clear H.
      split; [|split; [|split; [|split; [|split; [|split; [|split; [|split]]]]]]]; auto.
      + apply (Inv_keep s s1 i); auto; try (apply same_shells_except; exact SH). intros st1 o N1 SO. unfold order_of in OO. rewrite N1 in OO. congruence.
      + apply same_shells_owners; exact SH. }
  unfold bind in H. destruct o1 as [|v|x].
  - apply (GOAL s' H A).
  - apply (GOAL s' H A).
  - inversion H; subst s' out. exact A.
Qed.

Lemma set_discard_spec : forall s i e s' out, Inv c s -> set_discard c s i e = (s', out) ->
  is_ok out = true /\ Inv c s' /\ same_owners s s' /\
  (forall j x, mem s' j x <-> mem s j x /\ ~ (j = i /\ x = e)) /\
  (forall x, x <> e -> elems s' x = elems s x) /\ gen s' = gen s /\
  e_sem (elems s' e) = e_sem (elems s e) /\
  (mem s i e -> e_parent (elems s' e) = None /\
     (exists st, nth_error (sets s) i = Some st /\
                     (s_hooks st = None -> e_key (elems s' e) = e_key (elems s e)) /\
                     (s_hooks st <> None -> e_key (elems s' e) = None))) /\
  (~ mem s i e -> s' = s).
Proof.
  intros s i e s' out I H. unfold set_discard in H. destruct I as [B O].
  destruct (contains c s i e) eqn:CT.
  - apply (contains_mem c s i e B) in CT.
    assert (R := set_remove_spec s i e s' out (conj B O) H).
    destruct out as [|v|x].
    + destruct R as [R1 [R2 [R3 [R4 [R5 [R6 [R7 [R8 R9]]]]]]]].
      split; [reflexivity|]. split; [exact R1|]. split; [exact R2|]. split; [exact R3|]. split; [exact R4|].
      split; [exact R6|]. split; [exact R8|]. split; [intros _; split; [exact R7|exact R9]|intro X; contradiction].
    + destruct R as [R1 [R2 [R3 [R4 [R5 [R6 [R7 [R8 R9]]]]]]]].
      split; [reflexivity|]. split; [exact R1|]. split; [exact R2|]. split; [exact R3|]. split; [exact R4|].
      split; [exact R6|]. split; [exact R8|]. split; [intros _; split; [exact R7|exact R9]|intro X; contradiction].
    + destruct R as [_ [_ X]]. contradiction.
  - inversion H; subst s' out.
    assert (NM : ~ mem s i e). { intro X. apply (contains_mem c s i e B) in X. congruence. }
    split; [reflexivity|]. split; [split; assumption|]. split; [apply same_owners_refl|].
    split. { intros j x. split; [|tauto]. intro X. split; auto. intros [Y Z]. subst. contradiction. }
    split; [reflexivity|]. split; [reflexivity|]. split; [reflexivity|]. split; [intro X; contradiction|reflexivity].
Qed.


(* ---- the verdict on one call ----------------------------------------------- *)

(* the invariant holds afterwards; no internal error; (if [atomic]) a raise changes nothing *)
Definition good (s : state) (r : res) (atomic : bool) : Prop :=
  Inv c (fst r) /\ snd r <> Err EInternal /\
  (atomic = true -> is_ok (snd r) = false -> pub_eq s (fst r)).

Lemma Inv_pub_eq : forall s s', pub_eq s s' -> Inv c s -> Inv c s'.
Proof. intros s s' P [B O]. split; [eapply pub_eq_BInv; eauto|eapply pub_eq_OInv; eauto]. Qed.

Lemma good_same : forall s x b, Inv c s -> x <> EInternal -> good s (s, Err x) b.
Proof.
  intros s x b I X. split; [exact I|]. split; [intro E; inversion E; contradiction|].
  intros _ _. apply pub_eq_refl.
Qed.
Lemma good_weaken : forall s r, good s r true -> good s r false.
Proof. intros s r [A [B _]]. split; auto. split; auto. intro; discriminate. Qed.

Lemma good_add : forall s i e, Inv c s -> good s (set_add c s i e) true.
Proof.
  intros s i e I. destruct (set_add c s i e) as [s' out] eqn:A.
  assert (R := set_add_spec s i e s' out I A). destruct out as [|v|x].
  - destruct R as [R _]. split; [exact R|]. split; [discriminate|]. intros _ X. discriminate.
  - destruct R as [R _]. split; [exact R|]. split; [discriminate|]. intros _ X. discriminate.
  - destruct R as [P X]. split; [eapply Inv_pub_eq; eauto|]. split; [intro E; inversion E; contradiction|].
    intros _ _. exact P.
Qed.
Lemma good_remove : forall s i e, Inv c s -> good s (set_remove c s i e) true.
Proof.
  intros s i e I. destruct (set_remove c s i e) as [s' out] eqn:A.
  assert (R := set_remove_spec s i e s' out I A). destruct out as [|v|x].
  - destruct R as [R _]. split; [exact R|]. split; [discriminate|]. intros _ X. discriminate.
  - destruct R as [R _]. split; [exact R|]. split; [discriminate|]. intros _ X. discriminate.
  - destruct R as [P [X _]]. subst s'. apply good_same; auto.
Qed.
Lemma good_discard : forall s i e, Inv c s -> good s (set_discard c s i e) true.
Proof.
  intros s i e I. destruct (set_discard c s i e) as [s' out] eqn:A.
  destruct (set_discard_spec s i e s' out I A) as [R1 [R2 _]].
  split; [exact R2|]. split.
  - intro E. simpl in E. subst out. discriminate.
  - intros _ X. simpl in X. congruence.
Qed.

Lemma py_idx_lt : forall len z p, py_idx len z = Some p -> p < len.
Proof.
  intros len z p H. unfold py_idx in H.
  destruct (0 <=? z)%Z eqn:A.
  - destruct (z <? Z.of_nat len)%Z eqn:B; [|discriminate]. inversion H. lia.
  - destruct (- Z.of_nat len <=? z)%Z eqn:B; [|discriminate]. inversion H. lia.
Qed.

Lemma good_pop : forall s i, Inv c s -> good s (set_pop s i) true.
Proof.
  intros s i [B O]. unfold set_pop. destruct (ns_pop s i) as [s1 o1] eqn:A.
  assert (R := ns_pop_spec c s i s1 o1 B A). destruct o1 as [|e|x].
  - contradiction.
  - destruct R as [B1 [SH [HM ME]]].
    assert (HM' : forall j x, j <> i -> (mem s1 j x <-> mem s j x)).
    { intros j x D. rewrite HM. split; [tauto|]. intro X. split; auto. intros [Y _]. contradiction. }
    destruct (order_of s1 i) as [o|] eqn:OO.
    + rewrite (order_of_shells s s1 i SH) in OO. destruct (order_ok s i o O OO) as [N1 N2].
      destruct (lremove e o) as [o'|] eqn:LR.
      2:{ exfalso. apply lremove_none in LR. apply LR. apply N2. exact ME. }
      destruct (lremove_some e o o' N1 LR) as [M1 M2].
      split; [|split; [discriminate|intros _ X; discriminate]]. simpl.
      apply (Inv_reorder s s1 i o'); auto; try (apply same_shells_except; exact SH).
      intro x. rewrite M2, HM, N2. split; [intros [X Y]; split; auto; intros [_ Z]; contradiction|].
      intros [X Y]. split; auto.
    + split; [|split; [discriminate|intros _ X; discriminate]]. simpl.
      apply (Inv_keep s s1 i); auto; try (apply same_shells_except; exact SH).
      intros st1 o N1 SO. unfold order_of in OO. rewrite N1 in OO. congruence.
  - destruct R as [E X]. subst s1. apply good_same; auto. split; auto.
Qed.

Lemma good_pop_at : forall s i z, Inv c s -> good s (set_pop_at c s i z) true.
Proof.
  intros s i z [B O]. unfold set_pop_at.
  destruct (order_of s i) as [o|] eqn:OO; [|apply good_same; [split; auto|discriminate]].
  destruct (py_idx (List.length o) z) as [p|] eqn:PI; [|apply good_same; [split; auto|discriminate]].
  destruct (nth_error o p) as [e|] eqn:NE.
  2:{ exfalso. apply py_idx_lt in PI. apply nth_error_None in NE. lia. }
  destruct (order_ok s i o O OO) as [N1 N2].
  destruct (drop_nth_spec p o e NE N1) as [D1 D2].
  set (s1 := set_order s i (firstn p o ++ skipn (S p) o)).
  assert (B1 : BInv c s1) by (apply set_order_BInv; exact B).
  assert (ME : mem s1 i e). { unfold s1. rewrite set_order_mem. apply N2. eapply nth_error_In; eauto. }
  destruct (ns_remove c s1 i e) as [s2 o2] eqn:A.
  assert (R := ns_remove_spec c s1 i e s2 o2 B1 A).
  destruct (order_of_some s i o OO) as [st [Ni SO]].
  destruct (set_order_lookup s i (firstn p o ++ skipn (S p) o) st Ni) as [L1 L2]. fold s1 in L1, L2.
  assert (FIN : BInv c s2 -> same_shells s1 s2 -> (forall j x, mem s2 j x <-> mem s1 j x /\ ~ (j = i /\ x = e)) -> Inv c s2).
  { intros B2 SH HM. apply (Inv_keep s s2 i); auto.
    - apply (shells_except_trans i s s1); [apply set_order_except|apply same_shells_except; exact SH].
    - intros j x D. rewrite HM. unfold s1. rewrite set_order_mem. split; [tauto|].
      intro X. split; auto. intros [Y _]. contradiction.
    - intros st2 o2' N2' SO2. destruct (shell_lookup_rev s1 s2 i st2 SH N2') as [st1 [N1' SHE]].
      rewrite L1 in N1'. inversion N1'; subst st1. unfold shell in SHE. injection SHE as _ _ SO'.
      change (s_order st2 = Some (firstn p o ++ skipn (S p) o)) in SO'.
      assert (o2' = firstn p o ++ skipn (S p) o) by congruence. subst o2'. split; auto.
      intro x. rewrite D2, HM. unfold s1. rewrite set_order_mem, N2. split; [intros [X Y]; split; auto; intros [_ Z]; contradiction|].
      intros [X Y]. split; auto. }
  destruct o2 as [|v|x].
  - destruct R as [B2 [SH [HM _]]]. split; [apply FIN; auto|]. split; [discriminate|intros _ X; discriminate].
  - destruct R as [B2 [SH [HM _]]]. split; [apply FIN; auto|]. split; [discriminate|intros _ X; discriminate].
  - destruct R as [_ [_ X]]. contradiction.
Qed.

(* clear *)
Lemma fold_del_hook : forall st l s,
  let s1 := fold_left (fun a e => del_hook a st e) l s in
  sets s1 = sets s /\ gen s1 = gen s /\
  (forall x, ~ In x l -> elems s1 x = elems s x) /\
  (forall x, In x l -> e_parent (elems s1 x) = None /\
             (e_key (elems s1 x) = e_key (elems s x) \/ e_key (elems s1 x) = None)).
Proof.
  induction l as [|e r IH]; intro s; simpl.
  - split; [reflexivity|]. split; [reflexivity|]. split; [reflexivity|]. intros y [].
  - destruct (IH (del_hook s st e)) as [I1 [I2 [I3 I4]]].
    destruct (elems_del_hook_same s st e) as [Q1 [Q2 [Q3 _]]].
    split; [rewrite I1; apply sets_del_hook|]. split; [rewrite I2; apply gen_del_hook|]. split.
    + intros x NI. rewrite I3 by tauto. apply elems_del_hook_other. intro; subst; tauto.
    + intros x [E|HI].
      * subst x. destruct (in_dec Nat.eq_dec e r) as [A|A].
        -- destruct (I4 e A) as [P1 [P2|P2]]; split; auto. rewrite P2.
           destruct (s_hooks st) eqn:HK; [right; apply Q3; discriminate|left; apply Q2; reflexivity].
        -- rewrite (I3 e A). split; auto.
           destruct (s_hooks st) eqn:HK; [right; apply Q3; discriminate|left; apply Q2; reflexivity].
      * destruct (Nat.eq_dec x e) as [->|D].
        -- destruct (I4 e HI) as [P1 [P2|P2]]; split; auto. rewrite P2.
           destruct (s_hooks st) eqn:HK; [right; apply Q3; discriminate|left; apply Q2; reflexivity].
        -- destruct (I4 x HI) as [P1 P2]. split; auto. rewrite (elems_del_hook_other s st e x D) in P2. exact P2.
Qed.

Lemma Inv_clear : forall s i, Inv c s -> Inv c (fst (set_clear s i)) /\ snd (set_clear s i) <> Err EInternal.
Proof.
  intros s i [B O]. unfold set_clear. destruct (nth_error (sets s) i) as [st|] eqn:N.
  2:{ simpl. split; [split; auto|discriminate]. }
  destruct (fold_del_hook st (values st) s) as [F1 [F2 [F3 F4]]].
  set (s1 := fold_left (fun a e => del_hook a st e) (values st) s) in *.
  assert (N1 : nth_error (sets s1) i = Some st) by (rewrite F1; exact N).
  destruct (upd_set_lookup s1 i (with_backend []) st N1) as [L1 L2].
  set (s2 := upd_set s1 i (with_backend [])) in *.
  set (s3 := match s_order st with Some _ => set_order s2 i [] | None => s2 end).
  simpl. split; [|discriminate]. fold s3.
  assert (N3 : exists st3, nth_error (sets s3) i = Some st3 /\ s_owner st3 = s_owner st /\ s_backend st3 = [] /\
                           (s_order st3 = None \/ s_order st3 = Some [])).
  { unfold s3. destruct (s_order st) eqn:SO.
    - destruct (set_order_lookup s2 i [] _ L1) as [M1 _]. eexists. split; [exact M1|]. simpl. auto.
    - eexists. split; [exact L1|]. simpl. auto. }
  assert (L3 : forall j, j <> i -> nth_error (sets s3) j = nth_error (sets s) j).
  { intros j D. unfold s3. destruct (s_order st).
    - destruct (set_order_lookup s2 i [] _ L1) as [_ M2]. rewrite M2 by assumption. rewrite L2 by assumption. rewrite F1. reflexivity.
    - rewrite L2 by assumption. rewrite F1. reflexivity. }
  assert (E3 : forall x, elems s3 x = elems s1 x) by (intro x; unfold s3; destruct (s_order st); reflexivity).
  assert (G3 : gen s3 = gen s) by (unfold s3; destruct (s_order st); simpl; exact F2).
  destruct N3 as [st3 [M1 [M2 [M3 M4]]]].
  split.
  - apply (BInv_delete c s s3 i st st3 (fun _ => true)); auto.
    + intros k x. rewrite M3. simpl. split; [tauto|]. intros [_ X]. discriminate.
    + rewrite M3. constructor.
    + intros x _ HI. rewrite !E3. apply F4. exact HI.
    + intros x X. rewrite E3. apply F3. tauto.
    + lia.
  - intros j st' Nj. destruct (Nat.eq_dec j i) as [->|D].
    + rewrite M1 in Nj. inversion Nj; subst st'. unfold ord_ok, values. rewrite M3.
      destruct M4 as [M4|M4]; rewrite M4; auto. split; [constructor|]. simpl. tauto.
    + rewrite L3 in Nj by assumption. apply (O j st' Nj).
Qed.

Lemma good_insert : forall s i z e, Inv c s -> good s (set_insert c s i z e) true.
Proof.
  intros s i z e [B O]. unfold set_insert.
  destruct (order_of s i) as [o0|] eqn:OO; [|apply good_same; [split; auto|discriminate]].
  destruct (ns_add c s i e) as [s1 o1] eqn:A. assert (R := ns_add_spec c s i e s1 o1 B A).
  assert (GOAL : BInv c s1 /\ same_shells s s1 /\ (forall j x, mem s1 j x <-> mem s j x \/ j = i /\ x = e) /\
     (forall x, x <> e -> elems s1 x = elems s x) /\ e_parent (elems s e) = None /\ gen s <= gen s1 /\
     (exists st, nth_error (sets s) i = Some st /\ (s_hooks st = None -> e_key (elems s1 e) = e_key (elems s e)) /\
                 (s_hooks st <> None -> e_key (elems s e) = None)) ->
     good s (match order_of s1 i with
             | Some o => (set_order s1 i (linsert (clamp (List.length o) z) e o), Ok)
             | None => (s1, Err EInternal) end) true).
  { intros [B1 [SH [HM [HE [PF _]]]]].
    rewrite (order_of_shells s s1 i SH), OO. destruct (order_ok s i o0 O OO) as [N1 N2].
    assert (NME : ~ mem s i e) by (apply (free_not_mem c s e B PF)).
    split; [|split; [discriminate|intros _ X; discriminate]]. simpl.
    apply (Inv_reorder s s1 i); auto; try (apply same_shells_except; exact SH).
    - intros j x D. rewrite HM. split; auto. intros [X|[X _]]; auto. contradiction.
    - apply linsert_nodup; auto. intro X. apply NME. apply N2. exact X.
    - intro x. rewrite linsert_in, HM, N2. intuition. }
  unfold bind. destruct o1 as [|v|x]; auto.
  destruct R as [P X]. split; [eapply Inv_pub_eq; eauto; split; auto|]. split; [intro E; inversion E; contradiction|].
  intros _ _. exact P.
Qed.

Lemma good_setitem : forall s i z e, Inv c s -> good s (set_setitem c s i z e) true.
Proof.
  intros s i z e [B O]. unfold set_setitem.
  destruct (order_of s i) as [o|] eqn:OO; [|apply good_same; [split; auto|discriminate]].
  destruct (py_idx (List.length o) z) as [p|] eqn:PI; [|apply good_same; [split; auto|discriminate]].
  destruct (nth_error o p) as [old|] eqn:NE.
  2:{ exfalso. apply py_idx_lt in PI. apply nth_error_None in NE. lia. }
  destruct (order_ok s i o O OO) as [N1 N2].
  destruct (ns_add c s i e) as [s1 o1] eqn:A. assert (R := ns_add_spec c s i e s1 o1 B A).
  assert (GOAL : BInv c s1 /\ same_shells s s1 /\ (forall j x, mem s1 j x <-> mem s j x \/ j = i /\ x = e) /\
     (forall x, x <> e -> elems s1 x = elems s x) /\ e_parent (elems s e) = None /\ gen s <= gen s1 /\
     (exists st, nth_error (sets s) i = Some st /\ (s_hooks st = None -> e_key (elems s1 e) = e_key (elems s e)) /\
                 (s_hooks st <> None -> e_key (elems s e) = None)) ->
     good s (ns_remove c (set_order s1 i (lset p e o)) i old) true).
  { intros [B1 [SH [HM [HE [PF _]]]]].
    assert (NME : ~ mem s i e) by (apply (free_not_mem c s e B PF)).
    assert (NIO : ~ In e o) by (intro X; apply NME; apply N2; exact X).
    destruct (lset_spec p e o old NE N1 NIO) as [S1 S2].
    set (s2 := set_order s1 i (lset p e o)).
    assert (B2 : BInv c s2) by (apply set_order_BInv; exact B1).
    assert (MO : mem s2 i old).
    { unfold s2. rewrite set_order_mem, HM. left. apply N2. eapply nth_error_In; eauto. }
    destruct (ns_remove c s2 i old) as [s3 o3] eqn:A3.
    assert (R3 := ns_remove_spec c s2 i old s3 o3 B2 A3).
    destruct (order_of_some s i o OO) as [st [Ni SO]].
    destruct (shell_lookup s s1 i st SH Ni) as [st1 [Ni1 SHE1]].
    destruct (set_order_lookup s1 i (lset p e o) st1 Ni1) as [L1 L2]. fold s2 in L1, L2.
    assert (FIN : BInv c s3 -> same_shells s2 s3 -> (forall j x, mem s3 j x <-> mem s2 j x /\ ~ (j = i /\ x = old)) -> Inv c s3).
    { intros B3 SH3 HM3. apply (Inv_keep s s3 i); auto.
      - apply (shells_except_trans i s s1); [apply same_shells_except; exact SH|].
        apply (shells_except_trans i s1 s2); [apply set_order_except|apply same_shells_except; exact SH3].
      - intros j x D. rewrite HM3. unfold s2. rewrite set_order_mem, HM. split; [intros [[X|[X _]] _]; auto; contradiction|].
        intro X. split; auto. intros [Y _]. contradiction.
      - intros st3 o3' N3 SO3. destruct (shell_lookup_rev s2 s3 i st3 SH3 N3) as [st2 [N2' SHE]].
        rewrite L1 in N2'. inversion N2'; subst st2. unfold shell in SHE. injection SHE as _ _ SO'.
        change (s_order st3 = Some (lset p e o)) in SO'.
        assert (o3' = lset p e o) by congruence. subst o3'. split; auto.
        intro x. rewrite S2, HM3. unfold s2. rewrite set_order_mem, HM, N2. split.
        + intros [[X Y]|X]; [split; auto; intros [_ Z]; contradiction|].
          subst x. split; auto. intros [_ Z]. subst old. apply NIO. eapply nth_error_In; eauto.
        + intros [[X|[_ X]] Y]; [|right; exact X]. left. split; [exact X|]. intro Z. apply Y. split; [reflexivity|exact Z]. }
    destruct o3 as [|v|x].
    - destruct R3 as [B3 [SH3 [HM3 _]]]. split; [apply FIN; auto|]. split; [discriminate|intros _ X; discriminate].
    - destruct R3 as [B3 [SH3 [HM3 _]]]. split; [apply FIN; auto|]. split; [discriminate|intros _ X; discriminate].
    - destruct R3 as [_ [_ X]]. contradiction. }
  unfold bind. destruct o1 as [|v|x]; auto.
  destruct R as [P X]. split; [eapply Inv_pub_eq; eauto; split; auto|]. split; [intro E; inversion E; contradiction|].
  intros _ _. exact P.
Qed.

End WithCfg.
