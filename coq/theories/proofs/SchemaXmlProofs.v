(* C05, XML writing direction: xconforms M W XS XT = true -> every element the interpreted writer (model/XmlCodec.v
   enc_obj) produces for a well-formed value has the shape the XML schema prescribes: element names, nesting, the
   order of every xs:sequence, cardinalities, wrapper elements, choice alternatives, enum literals
   (xvalid leaf_any: the lexical checks of xs:string restrictions, xs:boolean and xs:base64Binary are left out). *)
From Coq Require Import List Bool String Arith Lia.
From Basyx Require Import model.SchemaBase model.XmlCodec model.SchemaXml model.SchemaXmlConf.
Import ListNotations.
Local Open Scope string_scope.
Local Open Scope list_scope.

(* ---------- small helpers ---------- *)
Lemma smem_In s l : smem s l = true <-> In s l.
Proof.
  unfold smem. rewrite existsb_exists. split.
  - intros [x [Hi He]]. apply String.eqb_eq in He. now subst.
  - intros Hi. exists s. split; [exact Hi|apply String.eqb_refl].
Qed.

Lemma nodup_tags_NoDup l : nodup_tags l = true -> NoDup l.
Proof.
  induction l as [|x r IH]; cbn; intros H; [constructor|].
  apply andb_prop in H. destruct H as [H1 H2]. constructor; [|auto].
  intros Hi. apply smem_In in Hi. rewrite Hi in H1. discriminate.
Qed.

Lemma map_res_F2 {A B} (f : A -> res B) : forall l l', map_res f l = Ok l' -> Forall2 (fun a b => f a = Ok b) l l'.
Proof.
  induction l as [|a l IH]; cbn; intros l' H.
  - injection H as <-. constructor.
  - destruct (f a) as [b| |] eqn:Ea; try discriminate.
    destruct (map_res f l) as [bs| |] eqn:El; try discriminate. injection H as <-.
    constructor; [exact Ea|apply IH; reflexivity].
Qed.

Lemma F2_length {A B} (P : A -> B -> Prop) l l' : Forall2 P l l' -> List.length l = List.length l'.
Proof. induction 1; cbn; congruence. Qed.

Lemma xtmem_In t l : xtmem t l = true -> In t l.
Proof.
  unfold xtmem. intros H. apply existsb_exists in H. destruct H as [t' [Hin E]].
  destruct t as [[f c] tg], t' as [[f' c'] tg']. cbn in E.
  apply andb_prop in E. destruct E as [E E3]. apply andb_prop in E. destruct E as [E1 E2].
  apply String.eqb_eq in E1, E2. subst.
  assert (tg = tg').
  { destruct tg, tg'; cbn in E3; try discriminate.
    - apply String.eqb_eq in E3. now subst.
    - apply andb_prop in E3. destruct E3 as [Ea Eb]. apply String.eqb_eq in Ea, Eb. now subst. }
  now subst.
Qed.

Lemma NoDup_app_disj {A} (l1 l2 : list A) x : NoDup (l1 ++ l2) -> In x l1 -> In x l2 -> False.
Proof.
  induction l1 as [|y l1 IH]; cbn; [tauto|]. intros H. inversion H as [|? ? Hni Hnd]; subst.
  intros [->|H1] H2; [apply Hni, in_or_app; now right|eauto].
Qed.

(* ---------- the sequence matcher ---------- *)
Section Seq.
Variable leaf : xty -> string -> bool.
Variable XS : xschema.
Notation SH := (xvalid leaf XS).

Fixpoint xseq (ks : list xml) (parts : list xpart) {struct ks} : bool :=
  match ks with
  | [] => forallb x_opt parts
  | k :: ks' =>
    match drop_until (xtag k) parts with
    | Some (p, rest) => SH (x_ty p) k && xseq ks' rest
    | None => false
    end
  end.

Lemma xvalid_cls g tag text kids :
  SH (XCls g) (XE tag text kids) =
  match sfind g (xs_classes XS) with
  | None => false
  | Some parts => no_text (XE tag text kids) && xseq kids parts
  end.
Proof.
  cbn [xvalid]. destruct (sfind g (xs_classes XS)) as [parts|]; reflexivity.
Qed.

Definition valt (choice : string) (k : xml) : bool :=
  match sfind choice (xs_choices XS) with
  | Some alts => match sfind (xtag k) alts with Some cls => SH (XCls cls) k | None => false end
  | None => false
  end.

Lemma xvalid_list itag it tag text kids :
  SH (XList itag it) (XE tag text kids) =
  no_text (XE tag text kids) && nonempty kids && forallb (fun k => String.eqb (xtag k) itag && SH it k) kids.
Proof. reflexivity. Qed.
Lemma xvalid_many ch tag text kids :
  SH (XMany ch) (XE tag text kids) = no_text (XE tag text kids) && nonempty kids && forallb (valt ch) kids.
Proof. reflexivity. Qed.
Lemma xvalid_one ch tag text kids :
  SH (XOne ch) (XE tag text kids) = no_text (XE tag text kids) && match kids with [k] => valt ch k | _ => false end.
Proof. reflexivity. Qed.

(* drop_until splits the parts: optional parts with other tags, the part found, the rest *)
Lemma drop_until_split tg : forall parts p rest,
  drop_until tg parts = Some (p, rest) ->
  exists pre, parts = pre ++ p :: rest /\ x_tag p = tg /\
              forallb x_opt pre = true /\ ~ In tg (map x_tag pre).
Proof.
  induction parts as [|q parts IH]; cbn; intros p rest H; [discriminate|].
  destruct (String.eqb_spec (x_tag q) tg) as [E|Hne].
  - injection H as <- <-. exists []. cbn. repeat split; auto.
  - destruct (x_opt q) eqn:Eo; [|discriminate].
    destruct (IH p rest H) as [pre [E1 [E2 [E3 E4]]]]. exists (q :: pre). cbn. rewrite Eo, E3. subst parts.
    repeat split; auto. intros [E|Hin]; [congruence|auto].
Qed.

Lemma drop_until_skip tg : forall pre rest,
  forallb x_opt pre = true -> ~ In tg (map x_tag pre) -> drop_until tg (pre ++ rest) = drop_until tg rest.
Proof.
  induction pre as [|q pre IH]; cbn; intros rest Ho Hn; [reflexivity|].
  apply andb_prop in Ho. destruct Ho as [Hq Ho].
  destruct (String.eqb_spec (x_tag q) tg) as [E|Hne]; [exfalso; apply Hn; now left|].
  rewrite Hq. apply IH; [exact Ho|]. intros Hin. apply Hn. now right.
Qed.

Lemma drop_until_in tg : forall parts p rest, drop_until tg parts = Some (p, rest) -> In tg (map x_tag parts).
Proof.
  intros parts p rest H. destruct (drop_until_split tg parts p rest H) as [pre [E1 [E2 _]]]. subst parts.
  rewrite map_app. apply in_or_app. right. cbn. now left.
Qed.

(* children that are valid for the rest are valid for the whole when everything skipped is optional *)
Lemma xseq_skip pre p rest ks :
  NoDup (map x_tag (pre ++ p :: rest)) -> forallb x_opt pre = true -> x_opt p = true ->
  xseq ks rest = true -> xseq ks (pre ++ p :: rest) = true.
Proof.
  intros Hnd Hpre Hp H. destruct ks as [|k ks]; cbn [xseq] in *.
  - rewrite forallb_app. cbn. now rewrite Hpre, Hp, H.
  - destruct (drop_until (xtag k) rest) as [[q rest']|] eqn:Ed; [|discriminate].
    pose proof (drop_until_in _ _ _ _ Ed) as Hin.
    assert (Hnot : ~ In (xtag k) (map x_tag (pre ++ [p]))).
    { intros Hin'. replace (pre ++ p :: rest) with ((pre ++ [p]) ++ rest) in Hnd by (rewrite <- app_assoc; reflexivity).
      rewrite map_app in Hnd. exact (NoDup_app_disj _ _ _ Hnd Hin' Hin). }
    replace (pre ++ p :: rest) with ((pre ++ [p]) ++ rest) by (rewrite <- app_assoc; reflexivity).
    rewrite drop_until_skip; [now rewrite Ed| |exact Hnot].
    rewrite forallb_app. cbn. now rewrite Hpre, Hp.
Qed.

Lemma NoDup_suffix {A} (pre : list A) x rest : NoDup (pre ++ x :: rest) -> NoDup rest.
Proof.
  induction pre as [|y pre IH]; cbn; intros H; inversion H; subst; auto.
Qed.
End Seq.

(* ---------- elements ---------- *)
Lemma text_elem_tag t s : xtag (text_elem t s) = t.
Proof. unfold text_elem. reflexivity. Qed.
Lemma text_elem_kids t s : no_kids (text_elem t s) = true.
Proof. reflexivity. Qed.
Lemma text_elem_text t s : text_of (text_elem t s) = s.
Proof. unfold text_elem, text_of. cbn. destruct (String.eqb_spec s ""); [now subst|reflexivity]. Qed.

Lemma enc_obj_tag fl W n fn tag v x : enc_obj fl W n fn tag v = Ok x -> xtag x = tag.
Proof.
  destruct n; cbn; [discriminate|]. destruct v; try discriminate.
  destruct (sfind fn (wt_rules W)) as [byc|]; [|discriminate].
  destruct (sfind cls byc) as [rules|]; [|discriminate].
  destruct (map_res _ rules) as [kss| |]; cbn; try discriminate. intros H. injection H as <-. reflexivity.
Qed.

Section XW.
Variable M : meta.
Variable W : wtables.
Variable XS : xschema.
Variable XT : list xtriple.
Variable fl : string -> string -> bool.
Hypothesis Hx : xconforms M W XS XT = true.
Notation SH := (xvalid leaf_any XS).

Definition target_valid (tgt : otarget) (x : xml) : bool :=
  match tgt with TCls g => SH (XCls g) x | TItems itag g => SH (XList itag (XCls g)) x end.

Definition OBJ (n : nat) : Prop := forall fn c tgt v tag x,
  xtmem (fn, c, tgt) XT = true -> cls_of v = c -> wfb M n v = true ->
  enc_obj fl W n fn tag v = Ok x -> xtag x = tag /\ target_valid tgt x = true.

Lemma xt_ok t : xtmem t XT = true -> xtriple_ok M W XS XT t = true.
Proof. intros H. apply xtmem_In in H. unfold xconforms in Hx. rewrite forallb_forall in Hx. exact (Hx _ H). Qed.

Section Step.
Variable n : nat.
Hypothesis IH : OBJ n.
Notation rec := (enc_obj fl W n).

Lemma obj_in_inv cs v : obj_in (wfb M n) cs v = true ->
  exists c fs, v = VObj c fs /\ smem c cs = true /\ wfb M n v = true.
Proof. destruct v; cbn; try discriminate. intros H. apply andb_prop in H. destruct H. eauto. Qed.

(* one object through a dispatcher lands on an alternative of the choice group *)
Lemma disp_valid cs d ch v tag k :
  disp_ok W XS XT cs d ch = true -> obj_in (wfb M n) cs v = true ->
  enc_c W rec (WDisp d) tag v = Ok k -> valt leaf_any XS ch k = true.
Proof.
  unfold disp_ok. intros Hd Hv He. destruct (obj_in_inv _ _ Hv) as [c [fs [-> [Hc Hwf]]]].
  cbn [enc_c] in He. destruct (sfind d (wt_disp W)) as [wm|]; [|discriminate].
  destruct (sfind ch (xs_choices XS)) as [alts|] eqn:Ech; [|discriminate].
  rewrite forallb_forall in Hd. apply smem_In in Hc. specialize (Hd _ Hc).
  destruct (sfind c wm) as [[fn t]|]; [|discriminate].
  destruct (sfind t alts) as [g|] eqn:Et; [|discriminate].
  destruct (IH fn c (TCls g) (VObj c fs) t k Hd eq_refl Hwf He) as [Htag Hval].
  unfold valt. rewrite Ech, Htag, Et. exact Hval.
Qed.

(* one object through an encoder with a fixed tag *)
Lemma site_valid cs : forall e t v tag x,
  site_conf W XS XT cs e t = true -> obj_in (wfb M n) cs v = true ->
  enc_c W rec e tag v = Ok x -> xtag x = tag /\ SH t x = true.
Proof.
  induction e as [| | | | | | |fn|d|item IHi itag|inner IHin itag]; intros t v tag x Hc Hv He; try discriminate.
  - (* WObj *)
    destruct (obj_in_inv _ _ Hv) as [c [fs [-> [Hcs Hwf]]]]. apply smem_In in Hcs.
    cbn [enc_c] in He. destruct t as [f| | |lits|cls|itag item|ch0|ch]; try discriminate.
    + cbn [site_conf] in Hc. rewrite forallb_forall in Hc.
      exact (IH fn c (TCls cls) (VObj c fs) tag x (Hc _ Hcs) eq_refl Hwf He).
    + destruct item as [f| | |lits|cls|itag' item'|ch0|ch]; try discriminate. cbn [site_conf] in Hc. rewrite forallb_forall in Hc.
      exact (IH fn c (TItems itag cls) (VObj c fs) tag x (Hc _ Hcs) eq_refl Hwf He).
  - (* WWrap *)
    cbn [enc_c] in He. destruct (enc_c W rec inner itag v) as [k| |] eqn:Ek; try discriminate.
    cbn [bind] in He. injection He as <-. split; [reflexivity|].
    destruct t as [f| | |lits|g|it0 item0|ch0|ch]; try (destruct inner; discriminate).
    + (* XCls g with a single part *)
      assert (Hc' : match parts_of XS g with
                    | Some [p] => String.eqb (x_tag p) itag && site_conf W XS XT cs inner (x_ty p)
                    | _ => false end = true).
      { destruct inner; exact Hc. }
      rewrite xvalid_cls. unfold parts_of in Hc'. destruct (sfind g (xs_classes XS)) as [[|p [|]]|]; try discriminate.
      apply andb_prop in Hc'. destruct Hc' as [Ht Hs]. apply String.eqb_eq in Ht.
      destruct (IHin (x_ty p) v itag k Hs Hv Ek) as [Hkt Hkv].
      cbn [no_text xtext andb xseq drop_until]. rewrite Hkt, Ht, String.eqb_refl. now rewrite Hkv.
    + (* XOne choice through a dispatcher *)
      destruct inner; try discriminate. cbn [site_conf] in Hc.
      rewrite xvalid_one. cbn [no_text xtext andb]. exact (disp_valid cs d ch v itag k Hc Hv Ek).
Qed.

Lemma F2_forallb_valid {A} (f : A -> res xml) (P : xml -> bool) l ks :
  Forall2 (fun a k => f a = Ok k) l ks -> (forall a k, In a l -> f a = Ok k -> P k = true) -> forallb P ks = true.
Proof.
  induction 1 as [|a k l ks Hak H IHf]; intros HP; [reflexivity|]. cbn.
  rewrite (HP a k (or_introl eq_refl) Hak). apply IHf. intros a' k' Hin. apply HP. now right.
Qed.

(* a collection of objects *)
Lemma list_valid cs e t l tag x :
  list_conf W XS XT cs e t = true -> forallb (obj_in (wfb M n) cs) l = true -> l <> [] ->
  enc_c W rec e tag (VList l) = Ok x -> xtag x = tag /\ SH t x = true.
Proof.
  intros Hc Hl Hne He. destruct e; try discriminate. cbn [enc_c] in He.
  destruct (map_res (enc_c W rec e itag) l) as [ks| |] eqn:Em; try discriminate. cbn [bind] in He. injection He as <-.
  split; [reflexivity|]. pose proof (map_res_F2 _ _ _ Em) as F2.
  assert (Hks : nonempty ks = true).
  { pose proof (F2_length _ _ _ F2) as Hlen. destruct l; [congruence|]. destruct ks; [discriminate|reflexivity]. }
  rewrite forallb_forall in Hl.
  assert (Hcase : (exists d ch, e = WDisp d /\ t = XMany ch /\ disp_ok W XS XT cs d ch = true) \/
                  (exists it, t = XList itag it /\ site_conf W XS XT cs e it = true)).
  { destruct e; destruct t; try discriminate Hc; cbn [list_conf] in Hc;
      try (left; do 2 eexists; repeat split; exact Hc);
      right; apply andb_prop in Hc; destruct Hc as [Ht Hs]; apply String.eqb_eq in Ht; subst; eauto. }
  destruct Hcase as [[d [ch [-> [-> Hd]]]]|[it [-> Hs]]].
  - rewrite xvalid_many. cbn [no_text xtext andb]. rewrite Hks. cbn [andb].
    apply (F2_forallb_valid _ _ _ _ F2). intros a k Hin Hak. exact (disp_valid cs d ch a itag k Hd (Hl _ Hin) Hak).
  - rewrite xvalid_list. cbn [no_text xtext andb]. rewrite Hks. cbn [andb].
    apply (F2_forallb_valid _ _ _ _ F2). intros a k Hin Hak.
    destruct (site_valid cs _ _ a itag k Hs (Hl _ Hin) Hak) as [Hkt Hkv]. rewrite Hkt, String.eqb_refl. exact Hkv.
Qed.

Lemma xvalid_enum lits x : SH (XEnum lits) x = no_kids x && smem (text_of x) lits.
Proof. destruct x; reflexivity. Qed.
Lemma xvalid_leaf t x : (match t with XStr _ | XBool | XB64 => True | _ => False end) -> SH t x = no_kids x.
Proof. destruct x; destruct t; intros H; try destruct H; cbn; now rewrite andb_true_r. Qed.

Lemma site_none cs : forall e t tag x, site_conf W XS XT cs e t = true -> enc_c W rec e tag VNone = Ok x -> False.
Proof.
  induction e as [| | | | | | |fn|d|item IHi itag|inner IHin itag]; intros t tag x Hc He; try discriminate.
  - cbn [enc_c] in He. destruct n; cbn in He; discriminate.
  - cbn [enc_c] in He. destruct (enc_c W rec inner itag VNone) as [k| |] eqn:Ek; try discriminate.
    destruct t as [f| | |lits|g|it0 item0|ch0|ch]; try (destruct inner; discriminate).
    assert (Hc' : match parts_of XS g with
                    | Some [p] => String.eqb (x_tag p) itag && site_conf W XS XT cs inner (x_ty p)
                    | _ => false end = true).
      { destruct inner; exact Hc. }
      destruct (parts_of XS g) as [[|p [|]]|]; try discriminate.
      apply andb_prop in Hc'. destruct Hc' as [_ Hs]. exact (IHin _ _ _ Hs Ek).
Qed.

Lemma level_seq (f : string * string -> string) : forall (tb : table) parts,
  (fix go (tb : table) (parts : list xpart) : bool :=
     match tb, parts with
     | [], [] => true
     | kv :: tb', p :: parts' =>
       String.eqb (snd kv) (x_tag p) && match x_ty p with XBool => true | _ => false end && go tb' parts'
     | _, _ => false
     end) tb parts = true ->
  xseq leaf_any XS (map (fun kv => text_elem (snd kv) (f kv)) tb) parts = true.
Proof.
  induction tb as [|kv tb IHt]; intros [|p parts] H; try discriminate; [reflexivity|].
  apply andb_prop in H. destruct H as [H H3]. apply andb_prop in H. destruct H as [H1 H2].
  apply String.eqb_eq in H1. cbn [map xseq]. rewrite text_elem_tag. cbn [drop_until]. rewrite <- H1, String.eqb_refl.
  rewrite (IHt parts H3). destruct (x_ty p) eqn:Et; try discriminate. rewrite andb_true_r.
  rewrite xvalid_leaf; [reflexivity|exact I].
Qed.

(* the value of one attribute *)
Lemma enc_valid cls fs k e t v tag x :
  enc_conf W XS XT cls k e t = true ->
  match k with KClass => v = VEnum cls | _ => fits (wfb M n) fs k v = true end ->
  (needs_items t = true -> v <> VList []) ->
  enc_c W rec e tag v = Ok x -> xtag x = tag /\ SH t x = true.
Proof.
  intros Hc Hf Hne He. destruct k as [opt| |ms opt|tattr|ty|  |cs opt|cs ne|ms| ].
  - (* KStr *)
    destruct e; try discriminate; destruct t; try discriminate. cbn in He. destruct v; try discriminate.
    injection He as <-. split; [apply text_elem_tag|]. rewrite xvalid_leaf; [reflexivity|exact I].
  - (* KBool *)
    destruct e; try discriminate; destruct t; try discriminate. cbn in He. destruct v; try discriminate.
    injection He as <-. split; [apply text_elem_tag|]. rewrite xvalid_leaf; [reflexivity|exact I].
  - (* KEnum *)
    destruct e; try discriminate; destruct t; try discriminate. cbn [enc_conf] in Hc. cbn in He.
    destruct v; try discriminate. cbn in Hf. destruct opt; apply smem_In in Hf;
      rewrite forallb_forall in Hc; specialize (Hc _ Hf);
      (destruct (chain (wt_enum W) tbls m) as [s|]; [|discriminate]); injection He as <-;
      (split; [apply text_elem_tag|]); rewrite xvalid_enum, text_elem_text; exact Hc.
  - (* KXsd *)
    destruct e; try discriminate; destruct t; try discriminate. cbn in He. destruct v; try discriminate.
    injection He as <-. split; [apply text_elem_tag|]. rewrite xvalid_leaf; [reflexivity|exact I].
  - (* KXsdFixed *)
    destruct e; try discriminate; destruct t; try discriminate. cbn in He. destruct v; try discriminate.
    injection He as <-. split; [apply text_elem_tag|]. rewrite xvalid_leaf; [reflexivity|exact I].
  - (* KBytes *)
    destruct e; try discriminate; destruct t; try discriminate; cbn in He; destruct v; try discriminate;
      injection He as <-; (split; [reflexivity|]); rewrite xvalid_leaf; try reflexivity; exact I.
  - (* KObj *)
    cbn [enc_conf] in Hc. destruct v; try discriminate Hf.
    + exfalso. exact (site_none cs e t tag x Hc He).
    + cbn [fits] in Hf. exact (site_valid cs e t _ tag x Hc Hf He).
  - (* KList *)
    cbn [enc_conf] in Hc. destruct v; try discriminate Hf. cbn [fits] in Hf. apply andb_prop in Hf. destruct Hf as [Hl _].
    apply (list_valid cs e t l tag x Hc Hl); [|exact He].
    intros ->. apply Hne; [|reflexivity]. destruct e; try discriminate. destruct e; destruct t; try discriminate Hc; reflexivity.
  - (* KLevel *)
    destruct e; try discriminate; destruct t; try discriminate. cbn [enc_conf] in Hc. cbn in He.
    destruct v; try discriminate. unfold level_conf in Hc.
    destruct (sfind tbl (wt_enum W)) as [tb|]; [|discriminate]. injection He as <-. split; [reflexivity|].
    unfold parts_of in Hc. rewrite xvalid_cls. destruct (sfind cls0 (xs_classes XS)) as [parts|]; [|discriminate].
    cbn [no_text xtext andb]. apply level_seq. exact Hc.
  - (* KClass *)
    destruct e; try discriminate; destruct t; try discriminate. cbn [enc_conf] in Hc. subst v. cbn in He.
    destruct (chain (wt_enum W) tbls cls) as [s|]; [|discriminate]. injection He as <-.
    split; [apply text_elem_tag|]. rewrite xvalid_enum, text_elem_text. exact Hc.
Qed.

(* conditions *)
Lemma always_emits_sound fs k c v cls :
  always_emits k c = true ->
  match k with KClass => v = VEnum cls | _ => fits (wfb M n) fs k v = true end ->
  drops fl c v = false.
Proof.
  destruct c; cbn [always_emits]; try discriminate; intros Hk Hf; cbn [drops].
  - reflexivity.
  - (* WTruthy *)
    destruct k as [[|]| |ms [|]|tattr|ty|  |cs [|]|cs [|]|ms| ]; try discriminate Hk;
      destruct v; try discriminate Hf; cbn [falsy]; try reflexivity.
    + cbn in Hf. destruct (String.eqb s ""); [discriminate|reflexivity].
    + cbn in Hf. apply andb_prop in Hf. destruct Hf as [_ Hf]. destruct l; [discriminate|reflexivity].
  - (* WNotNone *)
    destruct k as [[|]| |ms [|]|tattr|ty|  |cs [|]|cs ne|ms| ]; try discriminate Hk;
      destruct v; try discriminate Hf; reflexivity.
Qed.

Lemma cond_nonempty_sound c v : cond_nonempty c = true -> drops fl c v = false -> v <> VList [].
Proof. intros Hc Hd ->. destruct c; try discriminate; cbn in Hd; discriminate. Qed.

Lemma fits_lookup wf fs0 a : forall attrs fs k,
  fits_all wf fs0 attrs fs = true -> sfind a attrs = Some k ->
  exists v, sfind a fs = Some v /\ fits wf fs0 k v = true.
Proof.
  induction attrs as [|[a' k'] attrs IHa]; intros [|[a'' v] fs] k H Hs; try discriminate.
  cbn in H. apply andb_prop in H. destruct H as [H H3]. apply andb_prop in H. destruct H as [H1 H2].
  apply String.eqb_eq in H1. subst a''. cbn [sfind] in *. destruct (String.eqb a a').
  - injection Hs as <-. eauto.
  - exact (IHa fs k H3 Hs).
Qed.

(* one rule against the part of the sequence it is aligned with *)
Lemma rule_valid c fs attrs r k p ks :
  fits_all (wfb M n) fs attrs fs = true -> kind_of attrs (w_attr r) = Some k ->
  w_inline r = false ->
  (x_opt p || always_emits k (w_cond r)) = true ->
  (negb (needs_items (x_ty p)) || cond_nonempty (w_cond r) || kind_nonempty k) = true ->
  enc_conf W XS XT c k (w_enc r) (x_ty p) = true ->
  enc_rule fl W rec c fs r = Ok ks ->
  (ks = [] /\ x_opt p = true) \/ (exists x, ks = [x] /\ xtag x = w_tag r /\ SH (x_ty p) x = true).
Proof.
  intros Hfa Hk Hin Hem Hni Hec He. unfold enc_rule in He.
  assert (Hfield : exists v, field c fs (w_attr r) = Some v /\
                             match k with KClass => v = VEnum c | _ => fits (wfb M n) fs k v = true end).
  { unfold kind_of in Hk. unfold field. destruct (String.eqb (w_attr r) class_attr).
    - injection Hk as <-. eauto.
    - destruct (fits_lookup _ _ _ _ _ _ Hfa Hk) as [v [H1 H2]]. exists v. split; [exact H1|].
      destruct k; try exact H2. destruct v; discriminate. }
  destruct Hfield as [v [Hfv Hfit]]. rewrite Hfv in He.
  destruct (drops fl (w_cond r) v) eqn:Ed.
  - injection He as <-. left. split; [reflexivity|].
    apply orb_prop in Hem. destruct Hem as [Ho|Ha]; [exact Ho|].
    rewrite (always_emits_sound fs k _ v c Ha Hfit) in Ed. discriminate.
  - rewrite Hin in He. destruct (enc_c W rec (w_enc r) (w_tag r) v) as [x| |] eqn:Ex; try discriminate.
    cbn [bind] in He. injection He as <-. right. exists x. split; [reflexivity|].
    apply (enc_valid c fs k (w_enc r) (x_ty p) v (w_tag r) x Hec Hfit); [|exact Ex].
    intros Hn. rewrite Hn in Hni. cbn [negb orb] in Hni. apply orb_prop in Hni. destruct Hni as [Hc|Hkn].
    + exact (cond_nonempty_sound _ _ Hc Ed).
    + destruct k; try discriminate.
      * (* KObj: the value is an object or None, never a list *)
        destruct v; try discriminate Hfit; discriminate.
      * cbn in Hkn. subst nonempty. destruct v; try discriminate Hfit. cbn in Hfit.
        apply andb_prop in Hfit. destruct Hfit as [_ Hf]. destruct l; [discriminate Hf|discriminate].
Qed.

Lemma align_valid c fs attrs : forall rules parts kss,
  fits_all (wfb M n) fs attrs fs = true ->
  NoDup (map x_tag parts) ->
  align W XS XT c attrs rules parts = true ->
  Forall2 (fun r ks => enc_rule fl W rec c fs r = Ok ks) rules kss ->
  xseq leaf_any XS (List.concat kss) parts = true.
Proof.
  induction rules as [|r rules IHr]; intros parts kss Hfa Hnd Hal F2; inversion F2 as [|? ks ? kss' Hr Hrs]; subst.
  - exact Hal.
  - cbn [align] in Hal. apply andb_prop in Hal. destruct Hal as [Hinl Hal]. apply negb_true_iff in Hinl.
    destruct (kind_of attrs (w_attr r)) as [k|] eqn:Ek; [|discriminate].
    destruct (drop_until (w_tag r) parts) as [[p rest]|] eqn:Ed; [|discriminate].
    apply andb_prop in Hal. destruct Hal as [Hal Hrest]. apply andb_prop in Hal. destruct Hal as [Hal Henc].
    apply andb_prop in Hal. destruct Hal as [Hem Hni].
    destruct (drop_until_split _ _ _ _ Ed) as [pre [-> [Htag [Hpre Hnin]]]].
    pose proof (IHr rest kss' Hfa (NoDup_suffix _ _ _ ltac:(rewrite map_app in Hnd; exact Hnd)) Hrest Hrs) as Hseq.
    cbn [List.concat].
    destruct (rule_valid c fs attrs r k p ks Hfa Ek Hinl Hem Hni Henc Hr) as [[-> Hopt]|[x [-> [Hxt Hxv]]]].
    + cbn [app]. apply xseq_skip; assumption.
    + cbn [app xseq]. rewrite Hxt, Ed, Hxv. exact Hseq.
Qed.

End Step.

(* ---------- main theorem ---------- *)
Theorem xwrite_shape : forall n, OBJ n.
Proof.
  induction n as [|n IHn]; intros fn c tgt v tag x Hm Hc Hwf He; [discriminate|].
  split; [exact (enc_obj_tag _ _ _ _ _ _ _ He)|].
  pose proof (xt_ok _ Hm) as Hok. unfold xtriple_ok in Hok.
  destruct v as [| | | | | | |c' fs]; try discriminate. cbn [cls_of] in Hc. subst c'.
  cbn [wfb] in Hwf. destruct (sfind c M) as [attrs|]; [|discriminate].
  cbn [enc_obj] in He. unfold wrules_of in Hok.
  destruct (sfind fn (wt_rules W)) as [byc|]; [|discriminate].
  destruct (sfind c byc) as [rules|]; [|discriminate].
  destruct (map_res (enc_rule fl W (enc_obj fl W n) c fs) rules) as [kss| |] eqn:Em; try discriminate.
  cbn [bind] in He. injection He as <-. pose proof (map_res_F2 _ _ _ Em) as F2.
  destruct tgt as [g|itag g]; cbn [target_valid].
  - unfold parts_of in Hok. rewrite xvalid_cls. destruct (sfind g (xs_classes XS)) as [parts|]; [|discriminate].
    apply andb_prop in Hok. destruct Hok as [Hnd Hal]. apply nodup_tags_NoDup in Hnd.
    cbn [no_text xtext andb]. exact (align_valid n IHn c fs attrs rules parts kss Hwf Hnd Hal F2).
  - destruct rules as [|r [|]]; try discriminate. destruct attrs as [|[a k] [|]]; try discriminate; try (destruct k as [| | | | | | |? [|]| |]; discriminate Hok).
    destruct k as [| | | | | | |cs [|]| |]; try discriminate.
    inversion F2 as [|? ks ? kss' Hr Hrs]; subst. inversion Hrs; subst. cbn [List.concat]. rewrite app_nil_r.
    apply andb_prop in Hok. destruct Hok as [Hok Henc]. apply andb_prop in Hok. destruct Hok as [Hok Hcond].
    apply andb_prop in Hok. destruct Hok as [Hok Hncls]. apply andb_prop in Hok. destruct Hok as [Hinl Hattr].
    apply String.eqb_eq in Hattr. apply negb_true_iff in Hncls.
    unfold enc_rule in Hr. unfold field in Hr. rewrite Hattr, Hncls in Hr.
    destruct fs as [|[a' v] fsr]; [discriminate Hwf|]. cbn [fits_all] in Hwf.
    apply andb_prop in Hwf. destruct Hwf as [Hwf Hnil]. apply andb_prop in Hwf. destruct Hwf as [Ha Hfit].
    apply String.eqb_eq in Ha. subst a'. cbn [sfind] in Hr. rewrite String.eqb_refl in Hr.
    destruct (w_cond r); try discriminate. cbn [drops] in Hr. rewrite Hinl in Hr.
    destruct (w_enc r) as [| | | | | | | | |item itag'|]; try discriminate. destruct item; try discriminate.
    apply andb_prop in Henc. destruct Henc as [Hit Hall]. apply String.eqb_eq in Hit. subst itag'.
    destruct v; try discriminate. cbn [fits] in Hfit. apply andb_prop in Hfit. destruct Hfit as [Hl Hnel].
    pose proof (map_res_F2 _ _ _ Hr) as F2'.
    rewrite xvalid_list. cbn [no_text xtext andb].
    assert (Hks : nonempty ks = true).
    { pose proof (F2_length _ _ _ F2') as Hlen. cbn in Hnel. destruct l; [discriminate|]. destruct ks; [discriminate|reflexivity]. }
    rewrite Hks. cbn [andb]. apply (F2_forallb_valid _ _ _ _ F2'). intros y k Hin Hyk.
    rewrite forallb_forall in Hl. destruct (obj_in_inv n cs y (Hl _ Hin)) as [c' [fs' [-> [Hc' Hwf']]]].
    apply smem_In in Hc'. rewrite forallb_forall in Hall. cbn [enc_c] in Hyk.
    destruct (IHn fn0 c' (TCls g) (VObj c' fs') itag k (Hall _ Hc') eq_refl Hwf' Hyk) as [Hkt Hkv].
    rewrite Hkt, String.eqb_refl. exact Hkv.
Qed.

(* ---------- the environment document (object_store_to_xml_element) ---------- *)
Lemma xwrite_env root tops n objs x :
  xenv_ok XS XT root tops = true ->
  (forall v, In v objs -> wfb M n v = true) ->
  write_store fl W tops n objs = Ok x ->
  SH (XCls root) x = true.
Proof.
  unfold xenv_ok, write_store. intros Hok Hwf He.
  destruct (map_res _ tops) as [kss| |] eqn:Em; try discriminate. cbn [bind] in He. injection He as <-.
  unfold parts_of in Hok. rewrite xvalid_cls. destruct (sfind root (xs_classes XS)) as [parts|]; [|discriminate].
  apply andb_prop in Hok. destruct Hok as [Hnd Hal]. apply nodup_tags_NoDup in Hnd.
  cbn [no_text xtext andb]. pose proof (map_res_F2 _ _ _ Em) as F2. clear Em.
  revert parts kss Hnd Hal F2. induction tops as [|t tops IHt]; intros parts kss Hnd Hal F2;
    inversion F2 as [|? ks ? kss' Ht Hts]; subst.
  - exact Hal.
  - cbn [tops_align] in Hal. destruct (drop_until (tl_list t) parts) as [[p rest]|] eqn:Ed; [|discriminate].
    apply andb_prop in Hal. destruct Hal as [Hal Hrest]. apply andb_prop in Hal. destruct Hal as [Hopt Hty].
    destruct (drop_until_split _ _ _ _ Ed) as [pre [-> [Htag [Hpre Hnin]]]].
    pose proof (IHt rest kss' (NoDup_suffix _ _ _ ltac:(rewrite map_app in Hnd; exact Hnd)) Hrest Hts) as Hseq.
    cbn [List.concat].
    destruct (filter (fun v => String.eqb (cls_of v) (tl_cls t)) objs) as [|v0 mine] eqn:Ef.
    + injection Ht as <-. cbn [app]. apply xseq_skip; assumption.
    + destruct (map_res (enc_obj fl W n (tl_fn t) (tl_item t)) (v0 :: mine)) as [ks'| |] eqn:Emi; try discriminate.
      cbn [bind] in Ht. injection Ht as <-. cbn [app xseq xtag]. rewrite Ed.
      destruct (x_ty p) as [f| | |lits|g0|itag it|ch0|ch]; try discriminate. destruct it as [f| | |lits|g|itag' it'|ch0|ch]; try discriminate.
      apply andb_prop in Hty. destruct Hty as [Hit Hmem]. apply String.eqb_eq in Hit. subst itag.
      rewrite Hseq, andb_true_r. rewrite xvalid_list. cbn [no_text xtext andb].
      pose proof (map_res_F2 _ _ _ Emi) as F2'.
      assert (Hks : nonempty ks' = true).
      { pose proof (F2_length _ _ _ F2') as Hlen. destruct ks'; [discriminate|reflexivity]. }
      rewrite Hks. cbn [andb]. apply (F2_forallb_valid _ _ _ _ F2'). intros v k Hin Hvk.
      assert (Hvf : In v (filter (fun v => String.eqb (cls_of v) (tl_cls t)) objs)) by now rewrite Ef.
      apply filter_In in Hvf. destruct Hvf as [Hvo Hvc]. apply String.eqb_eq in Hvc.
      destruct (xwrite_shape n (tl_fn t) (tl_cls t) (TCls g) v (tl_item t) k Hmem Hvc (Hwf _ Hvo) Hvk) as [Hkt Hkv].
      rewrite Hkt, String.eqb_refl. exact Hkv.
Qed.

End XW.
