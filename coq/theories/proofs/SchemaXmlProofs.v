(* C05, XML writing direction: xconforms M W XS XT = true -> every element the interpreted writer (model/XmlCodec.v
   enc_obj) produces for a well-formed value has the shape the XML schema prescribes: element names, nesting, the
   order of every xs:sequence, cardinalities, wrapper elements, choice alternatives, enum literals
   (xvalid leaf_any: the lexical checks of xs:string restrictions, xs:boolean and xs:base64Binary are left out). *)
From Coq Require Import List Bool String Arith Lia.
From Basyx Require Import model.SchemaBase model.XmlCodec model.SchemaXml model.SchemaXmlConf.
Import ListNotations.
Local Open Scope string_scope.
Local Open Scope list_scope.

(* ---------- small helpers ---------- *)
Lemma smem_In s l : smem s l = true <-> In s l.
Proof.
  unfold smem. rewrite existsb_exists. split.
  - intros [x [Hi He]]. apply String.eqb_eq in He. now subst.
  - intros Hi. exists s. split; [exact Hi|apply String.eqb_refl].
Qed.

Lemma nodup_tags_NoDup l : nodup_tags l = true -> NoDup l.
Proof.
  induction l as [|x r IH]; cbn; intros H; [constructor|].
  apply andb_prop in H. destruct H as [H1 H2]. constructor; [|auto].
  intros Hi. apply smem_In in Hi. rewrite Hi in H1. discriminate.
Qed.

Lemma map_res_F2 {A B} (f : A -> res B) : forall l l', map_res f l = Ok l' -> Forall2 (fun a b => f a = Ok b) l l'.
Proof.
  induction l as [|a l IH]; cbn; intros l' H.
  - injection H as <-. constructor.
  - destruct (f a) as [b| |] eqn:Ea; try discriminate.
    destruct (map_res f l) as [bs| |] eqn:El; try discriminate. injection H as <-.
    constructor; [exact Ea|apply IH; reflexivity].
Qed.

Lemma F2_length {A B} (P : A -> B -> Prop) l l' : Forall2 P l l' -> List.length l = List.length l'.
Proof. induction 1; cbn; congruence. Qed.

Lemma xtmem_In t l : xtmem t l = true -> In t l.
Proof.
  unfold xtmem. intros H. apply existsb_exists in H. destruct H as [t' [Hin E]].
  destruct t as [[f c] tg], t' as [[f' c'] tg']. cbn in E.
  apply andb_prop in E. destruct E as [E E3]. apply andb_prop in E. destruct E as [E1 E2].
  apply String.eqb_eq in E1, E2. subst.
  assert (tg = tg').
  { destruct tg, tg'; cbn in E3; try discriminate.
    - apply String.eqb_eq in E3. now subst.
    - apply andb_prop in E3. destruct E3 as [Ea Eb]. apply String.eqb_eq in Ea, Eb. now subst. }
  now subst.
Qed.

Lemma NoDup_app_disj {A} (l1 l2 : list A) x : NoDup (l1 ++ l2) -> In x l1 -> In x l2 -> False.
Proof.
  induction l1 as [|y l1 IH]; cbn; [tauto|]. intros H. inversion H as [|? ? Hni Hnd]; subst.
  intros [->|H1] H2; [apply Hni, in_or_app; now right|eauto].
Qed.

(* ---------- the sequence matcher ---------- *)
Section Seq.
Variable leaf : xty -> string -> bool.
Variable XS : xschema.
Notation SH := (xvalid leaf XS).

Fixpoint xseq (ks : list xml) (parts : list xpart) {struct ks} : bool :=
  match ks with
  | [] => forallb x_opt parts
  | k :: ks' =>
    match drop_until (xtag k) parts with
    | Some (p, rest) => SH (x_ty p) k && xseq ks' rest
    | None => false
    end
  end.

Lemma xvalid_cls g tag text kids :
  SH (XCls g) (XE tag text kids) =
  match sfind g (xs_classes XS) with
  | None => false
  | Some parts => no_text (XE tag text kids) && xseq kids parts
  end.
Proof.
  cbn [xvalid]. destruct (sfind g (xs_classes XS)) as [parts|]; reflexivity.
Qed.

Definition valt (choice : string) (k : xml) : bool :=
  match sfind choice (xs_choices XS) with
  | Some alts => match sfind (xtag k) alts with Some cls => SH (XCls cls) k | None => false end
  | None => false
  end.

Lemma xvalid_list itag it tag text kids :
  SH (XList itag it) (XE tag text kids) =
  no_text (XE tag text kids) && nonempty kids && forallb (fun k => String.eqb (xtag k) itag && SH it k) kids.
Proof. reflexivity. Qed.
Lemma xvalid_many ch tag text kids :
  SH (XMany ch) (XE tag text kids) = no_text (XE tag text kids) && nonempty kids && forallb (valt ch) kids.
Proof. reflexivity. Qed.
Lemma xvalid_one ch tag text kids :
  SH (XOne ch) (XE tag text kids) = no_text (XE tag text kids) && match kids with [k] => valt ch k | _ => false end.
Proof. reflexivity. Qed.

(* drop_until splits the parts: optional parts with other tags, the part found, the rest *)
Lemma drop_until_split tg : forall parts p rest,
  drop_until tg parts = Some (p, rest) ->
  exists pre, parts = pre ++ p :: rest /\ x_tag p = tg /\
              forallb x_opt pre = true /\ ~ In tg (map x_tag pre).
Proof.
  induction parts as [|q parts IH]; cbn; intros p rest H; [discriminate|].
  destruct (String.eqb_spec (x_tag q) tg) as [E|Hne].
  - injection H as <- <-. exists []. cbn. repeat split; auto.
  - destruct (x_opt q) eqn:Eo; [|discriminate].
    destruct (IH p rest H) as [pre [E1 [E2 [E3 E4]]]]. exists (q :: pre). cbn. rewrite Eo, E3. subst parts.
    repeat split; auto. intros [E|Hin]; [congruence|auto].
Qed.

Lemma drop_until_skip tg : forall pre rest,
  forallb x_opt pre = true -> ~ In tg (map x_tag pre) -> drop_until tg (pre ++ rest) = drop_until tg rest.
Proof.
  induction pre as [|q pre IH]; cbn; intros rest Ho Hn; [reflexivity|].
  apply andb_prop in Ho. destruct Ho as [Hq Ho].
  destruct (String.eqb_spec (x_tag q) tg) as [E|Hne]; [exfalso; apply Hn; now left|].
  rewrite Hq. apply IH; [exact Ho|]. intros Hin. apply Hn. now right.
Qed.

Lemma drop_until_in tg : forall parts p rest, drop_until tg parts = Some (p, rest) -> In tg (map x_tag parts).
Proof.
  intros parts p rest H. destruct (drop_until_split tg parts p rest H) as [pre [E1 [E2 _]]]. subst parts.
  rewrite map_app. apply in_or_app. right. cbn. now left.
Qed.

(* children that are valid for the rest are valid for the whole when everything skipped is optional *)
Lemma xseq_skip pre p rest ks :
  NoDup (map x_tag (pre ++ p :: rest)) -> forallb x_opt pre = true -> x_opt p = true ->
  xseq ks rest = true -> xseq ks (pre ++ p :: rest) = true.
Proof.
  intros Hnd Hpre Hp H. destruct ks as [|k ks]; cbn [xseq] in *.
  - rewrite forallb_app. cbn. now rewrite Hpre, Hp, H.
  - destruct (drop_until (xtag k) rest) as [[q rest']|] eqn:Ed; [|discriminate].
    pose proof (drop_until_in _ _ _ _ Ed) as Hin.
    assert (Hnot : ~ In (xtag k) (map x_tag (pre ++ [p]))).
    { intros Hin'. replace (pre ++ p :: rest) with ((pre ++ [p]) ++ rest) in Hnd by (rewrite <- app_assoc; reflexivity).
      rewrite map_app in Hnd. exact (NoDup_app_disj _ _ _ Hnd Hin' Hin). }
    replace (pre ++ p :: rest) with ((pre ++ [p]) ++ rest) by (rewrite <- app_assoc; reflexivity).
    rewrite drop_until_skip; [now rewrite Ed| |exact Hnot].
    rewrite forallb_app. cbn. now rewrite Hpre, Hp.
Qed.

Lemma NoDup_suffix {A} (pre : list A) x rest : NoDup (pre ++ x :: rest) -> NoDup rest.
Proof.
  induction pre as [|y pre IH]; cbn; intros H; inversion H; subst; auto.
Qed.
End Seq.

(* ---------- elements ---------- *)
Lemma text_elem_tag t s : xtag (text_elem t s) = t.
Proof. unfold text_elem. reflexivity. Qed.
Lemma text_elem_kids t s : no_kids (text_elem t s) = true.
Proof. reflexivity. Qed.
Lemma text_elem_text t s : text_of (text_elem t s) = s.
Proof. unfold text_elem, text_of. cbn. destruct (String.eqb_spec s ""); [now subst|reflexivity]. Qed.

Lemma enc_obj_tag fl W n fn tag v x : enc_obj fl W n fn tag v = Ok x -> xtag x = tag.
Proof.
  destruct n; cbn; [discriminate|]. destruct v; try discriminate.
  destruct (sfind fn (wt_rules W)) as [byc|]; [|discriminate].
  destruct (sfind cls byc) as [rules|]; [|discriminate].
  destruct (map_res _ rules) as [kss| |]; cbn; try discriminate. intros H. injection H as <-. reflexivity.
Qed.

Section XW.
Variable M : meta.
Variable W : wtables.
Variable XS : xschema.
Variable XT : list xtriple.
Variable fl : string -> string -> bool.
Hypothesis Hx : xconforms M W XS XT = true.
Notation SH := (xvalid leaf_any XS).

Definition target_valid (tgt : otarget) (x : xml) : bool :=
  match tgt with TCls g => SH (XCls g) x | TItems itag g => SH (XList itag (XCls g)) x end.

Definition OBJ (n : nat) : Prop := forall fn c tgt v tag x,
  xtmem (fn, c, tgt) XT = true -> cls_of v = c -> wfb M n v = true ->
  enc_obj fl W n fn tag v = Ok x -> xtag x = tag /\ target_valid tgt x = true.

Lemma xt_ok t : xtmem t XT = true -> xtriple_ok M W XS XT t = true.
Proof. intros H. apply xtmem_In in H. unfold xconforms in Hx. rewrite forallb_forall in Hx. exact (Hx _ H). Qed.

Section Step.
Variable n : nat.
Hypothesis IH : OBJ n.
Notation rec := (enc_obj fl W n).

Lemma obj_in_inv cs v : obj_in (wfb M n) cs v = true ->
  exists c fs, v = VObj c fs /\ smem c cs = true /\ wfb M n v = true.
Proof. destruct v; cbn; try discriminate. intros H. apply andb_prop in H. destruct H. eauto. Qed.

(* one object through a dispatcher lands on an alternative of the choice group *)
Lemma disp_valid cs d ch v tag k :
  disp_ok W XS XT cs d ch = true -> obj_in (wfb M n) cs v = true ->
  enc_c W rec (WDisp d) tag v = Ok k -> valt leaf_any XS ch k = true.
Proof.
  unfold disp_ok. intros Hd Hv He. destruct (obj_in_inv _ _ Hv) as [c [fs [-> [Hc Hwf]]]].
  cbn [enc_c] in He. destruct (sfind d (wt_disp W)) as [wm|]; [|discriminate].
  destruct (sfind ch (xs_choices XS)) as [alts|] eqn:Ech; [|discriminate].
  rewrite forallb_forall in Hd. apply smem_In in Hc. specialize (Hd _ Hc).
  destruct (sfind c wm) as [[fn t]|]; [|discriminate].
  destruct (sfind t alts) as [g|] eqn:Et; [|discriminate].
  destruct (IH fn c (TCls g) (VObj c fs) t k Hd eq_refl Hwf He) as [Htag Hval].
  unfold valt. rewrite Ech, Htag, Et. exact Hval.
Qed.

(* one object through an encoder with a fixed tag *)
Lemma site_valid cs : forall e t v tag x,
  site_conf W XS XT cs e t = true -> obj_in (wfb M n) cs v = true ->
  enc_c W rec e tag v = Ok x -> xtag x = tag /\ SH t x = true.
Proof.
  induction e as [| | | | | | |fn|d|item IHi itag|inner IHin itag]; intros t v tag x Hc Hv He; try discriminate.
  - (* WObj *)
    destruct (obj_in_inv _ _ Hv) as [c [fs [-> [Hcs Hwf]]]]. apply smem_In in Hcs.
    cbn [enc_c] in He. destruct t as [f| | |lits|cls|itag item|ch0|ch]; try discriminate.
    + cbn [site_conf] in Hc. rewrite forallb_forall in Hc.
      exact (IH fn c (TCls cls) (VObj c fs) tag x (Hc _ Hcs) eq_refl Hwf He).
    + destruct item as [f| | |lits|cls|itag' item'|ch0|ch]; try discriminate. cbn [site_conf] in Hc. rewrite forallb_forall in Hc.
      exact (IH fn c (TItems itag cls) (VObj c fs) tag x (Hc _ Hcs) eq_refl Hwf He).
  - (* WWrap *)
    cbn [enc_c] in He. destruct (enc_c W rec inner itag v) as [k| |] eqn:Ek; try discriminate.
    cbn [bind] in He. injection He as <-. split; [reflexivity|].
    destruct t as [f| | |lits|g|it0 item0|ch0|ch]; try (destruct inner; discriminate).
    + (* XCls g with a single part *)
      assert (Hc' : match parts_of XS g with
                    | Some [p] => String.eqb (x_tag p) itag && site_conf W XS XT cs inner (x_ty p)
                    | _ => false end = true).
      { destruct inner; exact Hc. }
      rewrite xvalid_cls. unfold parts_of in Hc'. destruct (sfind g (xs_classes XS)) as [[|p [|]]|]; try discriminate.
      apply andb_prop in Hc'. destruct Hc' as [Ht Hs]. apply String.eqb_eq in Ht.
      destruct (IHin (x_ty p) v itag k Hs Hv Ek) as [Hkt Hkv].
      cbn [no_text xtext andb xseq drop_until]. rewrite Hkt, Ht, String.eqb_refl. now rewrite Hkv.
    + (* XOne choice through a dispatcher *)
      destruct inner; try discriminate. cbn [site_conf] in Hc.
      rewrite xvalid_one. cbn [no_text xtext andb]. exact (disp_valid cs d ch v itag k Hc Hv Ek).
Qed.

Lemma F2_forallb_valid {A} (f : A -> res xml) (P : xml -> bool) l ks :
  Forall2 (fun a k => f a = Ok k) l ks -> (forall a k, In a l -> f a = Ok k -> P k = true) -> forallb P ks = true.
Proof.
  induction 1 as [|a k l ks Hak H IHf]; intros HP; [reflexivity|]. cbn.
  rewrite (HP a k (or_introl eq_refl) Hak). apply IHf. intros a' k' Hin. apply HP. now right.
Qed.

(* a collection of objects *)
Lemma list_valid cs e t l tag x :
  list_conf W XS XT cs e t = true -> forallb (obj_in (wfb M n) cs) l = true -> l <> [] ->
  enc_c W rec e tag (VList l) = Ok x -> xtag x = tag /\ SH t x = true.
Proof.
  intros Hc Hl Hne He. destruct e; try discriminate. cbn [enc_c] in He.
  destruct (map_res (enc_c W rec e itag) l) as [ks| |] eqn:Em; try discriminate. cbn [bind] in He. injection He as <-.
  split; [reflexivity|]. pose proof (map_res_F2 _ _ _ Em) as F2.
  assert (Hks : nonempty ks = true).
  { pose proof (F2_length _ _ _ F2) as Hlen. destruct l; [congruence|]. destruct ks; [discriminate|reflexivity]. }
  rewrite forallb_forall in Hl.
  destruct e.
  all: try (destruct t; try discriminate; cbn [list_conf] in Hc; apply andb_prop in Hc; destruct Hc as [Ht Hs];
            apply String.eqb_eq in Ht; subst itag0; rewrite xvalid_list; cbn [no_text xtext andb]; rewrite Hks; cbn [andb];
            apply (F2_forallb_valid _ _ _ _ F2); intros a k Hin Hak;
            destruct (site_valid cs _ _ a itag k Hs (Hl _ Hin) Hak) as [Hkt Hkv]; rewrite Hkt, String.eqb_refl; exact Hkv).
  (* WDisp *)
  destruct t; try discriminate. cbn [list_conf] in Hc. rewrite xvalid_many. cbn [no_text xtext andb]. rewrite Hks. cbn [andb].
  apply (F2_forallb_valid _ _ _ _ F2). intros a k Hin Hak. exact (disp_valid cs d choice a itag k Hc (Hl _ Hin) Hak).
Qed.

End Step.
End XW.
