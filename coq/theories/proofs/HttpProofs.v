(* Lemmas about model/Http.v (C10, C11).  The exception analysis walks through every handler of the
   generated [endpoint] type: an edit of http.py that lets an exception class escape, changes a
   status code or adds a route makes these proofs fail. *)
From Coq Require Import List ZArith Bool String Lia.
From Basyx Require Import gen.Gen_HttpRoutes model.Files model.Http.
Import ListNotations.
Local Open Scope string_scope.
Local Open Scope Z_scope.
Local Open Scope list_scope.

Definition own_ids (s : state) : Prop := forall k o, In (k, o) (st_objs s) -> obj_id o = k.
Definition client_errors : list string :=
  ["BadRequest"; "NotFound"; "MethodNotAllowed"; "Conflict"; "UnsupportedMediaType"; "UnprocessableEntity"].
Definition good (e : exc) : bool := match e with EHttp cls => mem_s cls client_errors | _ => false end.
Lemma good_cases : forall e, good e = true ->
  e = EHttp "BadRequest" \/ e = EHttp "NotFound" \/ e = EHttp "MethodNotAllowed" \/ e = EHttp "Conflict"
  \/ e = EHttp "UnsupportedMediaType" \/ e = EHttp "UnprocessableEntity".
Proof.
  intros [] H; try discriminate. unfold good, mem_s, client_errors in H. simpl in H.
  repeat match type of H with
  | (String.eqb ?a ?b || _) = true => destruct (String.eqb_spec a b); [subst; tauto|simpl in H]
  end. discriminate.
Qed.
Ltac gc E := apply good_cases in E; destruct E as [->|[->|[->|[->|[->| ->]]]]].

Lemma zlookup_in : forall {B} k (l : list (Z * B)) v, zlookup k l = Some v -> In (k, v) l.
Proof.
  induction l as [|[k' v'] l IH]; simpl; intros v H; [discriminate|].
  destruct (k =? k') eqn:E.
  - apply Z.eqb_eq in E. inversion H. subst. now left.
  - right. now apply IH.
Qed.
Lemma own_lookup : forall s k o, own_ids s -> zlookup k (st_objs s) = Some o -> (obj_id o =? k) = true.
Proof. intros s k o W H. apply Z.eqb_eq. apply W. now apply zlookup_in. Qed.

Ltac bm :=
  match goal with
  | H : context [match ?x with _ => _ end] |- _ =>
      lazymatch x with
      | context [match _ with _ => _ end] => fail
      | _ => destruct x eqn:?
      end
  end.
Ltac done H := first [discriminate H | (inversion H; subst; clear H; vm_compute; reflexivity)].

Lemma get_referable_exc : forall p m ch e, get_referable m ch p = Exc e -> e = EKey \/ e = EValue \/ e = EType.
Proof.
  induction p as [|k p IH]; intros m ch e H; simpl in H; [discriminate|].
  repeat (bm; try discriminate); try (inversion H; subst; auto; fail); eauto.
Qed.
Lemma get_referable_some : forall p m ch a, p <> [] -> get_referable m ch p = Ok a -> a <> None.
Proof.
  induction p as [|k p IH]; intros m ch a NE H; [congruence|]. simpl in H.
  repeat (bm; try discriminate); try (inversion H; subst; discriminate).
  all: eapply IH; [|eassumption]; congruence.
Qed.
Lemma get_nested_exc : forall sm p e, p <> [] -> get_nested sm p = Exc e -> good e = true.
Proof.
  intros sm p e NE H. unfold get_nested in H. destruct p as [|k p]; [congruence|].
  unfold bind, guard in H.
  destruct (get_referable None (sm_ch sm) (k :: p)) eqn:E.
  - apply get_referable_some in E; [|congruence]. destruct a; [done H|congruence].
  - apply get_referable_exc in E. destruct E as [-> | [-> | ->]]; vm_compute in H; done H.
Qed.
Lemma sm_or_nested_exc : forall s r e, sm_or_nested s r = Exc e -> good e = true.
Proof.
  intros s r e H. unfold sm_or_nested, bind, get_sm, http in H.
  destruct (zlookup (the_id (r_sm r)) (st_objs s)) as [[?|sm|?]|]; try done H.
  destruct (the_path r) eqn:P.
  - vm_compute in H. done H.
  - unfold guard in H. destruct (get_nested sm (n :: l)) eqn:E; simpl in H; try done H.
    apply get_nested_exc in E; [|congruence].
    gc E; vm_compute in H; done H.
Qed.
Lemma request_body_exc : forall fn r e, mem_s (fst (body_spec fn)) constructables = true ->
  request_body fn r = Exc e -> good e = true.
Proof.
  intros fn r e C H. unfold request_body in H. destruct (body_spec fn) as [cls mode]. simpl fst in C.
  destruct (r_body r); rewrite ?C in H; cbv beta iota in H.
  - vm_compute in H; done H.
  - vm_compute in H; done H.
  - change (negb true) with false in H. cbv iota in H.
    destruct (String.eqb (value_class v) cls); [discriminate|].
    destruct xml; vm_compute in H; done H.
  - vm_compute in H; done H.
Qed.
Lemma get_slice_exc : forall A q (l : list A) e, get_slice q l = Exc e -> good e = true.
Proof.
  intros A q l e H. unfold get_slice in H.
  destruct (q_limit q), (q_cursor q); vm_compute in H; done H.
Qed.
Lemma dec_q_exc : forall d e, dec_q d = Exc e -> good e = true.
Proof. intros [] e H; vm_compute in H; done H. Qed.
Lemma dec_all_exc : forall l e, dec_all l = Exc e -> good e = true.
Proof.
  induction l as [|d l IH]; intros e H; simpl in H; [discriminate|].
  unfold bind in H. destruct (dec_q d) eqn:E; [now apply IH | inversion H; subst; now apply dec_q_exc in E].
Qed.

Lemma get_shell_ok : forall s i a, get_shell s i = Ok a -> zlookup i (st_objs s) = Some (OShell a).
Proof. unfold get_shell, http. intros s i a H. repeat (bm; try discriminate). now inversion H. Qed.
Lemma get_sm_ok : forall s i a, get_sm s i = Ok a -> zlookup i (st_objs s) = Some (OSm a).
Proof. unfold get_sm, http. intros s i a H. repeat (bm; try discriminate). now inversion H. Qed.
Lemma get_cd_ok : forall s i a, get_cd s i = Ok a -> zlookup i (st_objs s) = Some (OCd a).
Proof. unfold get_cd, http. intros s i a H. repeat (bm; try discriminate). now inversion H. Qed.
Lemma get_shell_exc : forall s i e, get_shell s i = Exc e -> good e = true.
Proof. unfold get_shell, http. intros s i a H. repeat (bm; try discriminate); done H. Qed.
Lemma get_sm_exc : forall s i e, get_sm s i = Exc e -> good e = true.
Proof. unfold get_sm, http. intros s i a H. repeat (bm; try discriminate); done H. Qed.
Lemma get_cd_exc : forall s i e, get_cd s i = Exc e -> good e = true.
Proof. unfold get_cd, http. intros s i a H. repeat (bm; try discriminate); done H. Qed.
Lemma store_add_exc : forall hs s o d e, hs = H_post_aas_add \/ hs = H_post_sm_add \/ hs = H_post_cd_add ->
  guard hs (store_add s o) d = Exc e -> good e = true.
Proof.
  intros hs s o d e Hh H. unfold store_add in H. destruct (zlookup (obj_id o) (st_objs s)); [|discriminate].
  destruct Hh as [->|[->| ->]]; vm_compute in H; done H.
Qed.
Lemma store_remove_ok : forall hs s k o d e, own_ids s -> zlookup k (st_objs s) = Some o ->
  guard hs (store_remove s k o) d = Exc e -> False.
Proof.
  intros hs s k o d e W L H. unfold store_remove in H. rewrite (own_lookup _ _ _ W L) in H. discriminate.
Qed.
Lemma resolve_sm_exc : forall s i e, resolve_sm s i = Exc e -> good e = true.
Proof.
  intros s i e H. unfold resolve_sm in H. destruct (zlookup i (st_objs s)) as [[]|]; vm_compute in H; done H.
Qed.
Lemma resolve_sm_ok : forall s i a, resolve_sm s i = Ok a -> zlookup i (st_objs s) = Some (OSm a).
Proof.
  intros s i a H. unfold resolve_sm in H. destruct (zlookup i (st_objs s)) as [[]|]; vm_compute in H; try discriminate.
  now inversion H.
Qed.
Lemma get_sm_ref_exc : forall a i e, get_sm_ref a i = Exc e -> good e = true.
Proof. unfold get_sm_ref, http. intros a i e H. destruct (zmem i (sh_refs a)); done H. Qed.
Lemma get_shells_exc : forall s q e, get_shells s q = Exc e -> good e = true.
Proof.
  intros s q e H. unfold get_shells, bind in H. destruct (dec_all (q_assetids q)) eqn:E.
  - now apply get_slice_exc in H.
  - inversion H; subst. now apply dec_all_exc in E.
Qed.
Lemma get_submodels_exc : forall s q e, get_submodels s q = Exc e -> good e = true.
Proof.
  intros s q e H. unfold get_submodels, bind in H. destruct (q_semid q).
  - destruct (dec_q q0) eqn:E; [now apply get_slice_exc in H|]. inversion H; subst. now apply dec_q_exc in E.
  - now apply get_slice_exc in H.
Qed.
Lemma add_referable_exc : forall m ch x d e, guard H_post_elem_add (add_referable m ch x) d = Exc e -> good e = true.
Proof.
  intros m ch x d e H. unfold add_referable in H.
  repeat (bm; try discriminate); vm_compute in H; done H.
Qed.
Lemma remove_referable_exc : forall ch k d e, guard H_ns_op (remove_referable ch k) d = Exc e -> good e = true.
Proof.
  intros ch k d e H. unfold remove_referable in H.
  repeat (bm; try discriminate); vm_compute in H; done H.
Qed.
Lemma ns_op_exc : forall x ch d e,
  guard H_ns_op (match x with Some i => remove_referable ch i | None => Exc EKey end) d = Exc e -> good e = true.
Proof.
  intros x ch d e H. unfold remove_referable in H.
  repeat (bm; try discriminate); vm_compute in H; done H.
Qed.

Lemma strip_class : forall v, value_class (strip_value v) = value_class v.
Proof. now destruct v. Qed.
Lemma request_body_class : forall fn r v, request_body fn r = Ok v -> value_class v = fst (body_spec fn).
Proof.
  intros fn r v H. unfold request_body in H. destruct (body_spec fn) as [cls mode]. simpl.
  destruct (r_body r); try (vm_compute in H; discriminate).
  - destruct (mem_s cls constructables); vm_compute in H; discriminate.
  - destruct (negb (mem_s cls constructables)); [discriminate|].
    destruct (String.eqb_spec (value_class v0) cls).
    + inversion H. destruct (smode_on mode (r_query r)); [rewrite strip_class|]; assumption.
    + destruct xml; vm_compute in H; discriminate.
Qed.
Ltac wrongclass :=
  match goal with
  | E : request_body _ _ = Ok _ |- _ => apply request_body_class in E; vm_compute in E; discriminate E
  end.

Definition needs_path (ep : endpoint) : bool :=
  match ep with
  | ep_get_submodel_submodel_elements_id_short_path | ep_get_submodel_submodel_elements_id_short_path_metadata
  | ep_get_submodel_submodel_elements_id_short_path_reference | ep_put_submodel_submodel_elements_id_short_path
  | ep_delete_submodel_submodel_elements_id_short_path
  | ep_get_submodel_submodel_element_attachment | ep_put_submodel_submodel_element_attachment
  | ep_delete_submodel_submodel_element_attachment => true
  | _ => false
  end.

Ltac leaf :=
  match goal with
  | E : get_shell _ _ = Exc _ |- _ => now apply get_shell_exc in E
  | E : get_sm _ _ = Exc _ |- _ => now apply get_sm_exc in E
  | E : get_cd _ _ = Exc _ |- _ => now apply get_cd_exc in E
  | E : request_body _ _ = Exc _ |- _ => apply request_body_exc in E; [exact E | vm_compute; reflexivity]
  | E : sm_or_nested _ _ = Exc _ |- _ => now apply sm_or_nested_exc in E
  | E : get_nested _ _ = Exc _ |- _ => apply get_nested_exc in E; [exact E | first [assumption | discriminate | congruence]]
  | E : get_slice _ _ = Exc _ |- _ => now apply get_slice_exc in E
  | E : get_shells _ _ = Exc _ |- _ => now apply get_shells_exc in E
  | E : get_submodels _ _ = Exc _ |- _ => now apply get_submodels_exc in E
  | E : resolve_sm _ _ = Exc _ |- _ => now apply resolve_sm_exc in E
  | E : get_sm_ref _ _ = Exc _ |- _ => now apply get_sm_ref_exc in E
  | E : guard _ (store_add _ _) _ = Exc _ |- _ => apply store_add_exc in E; [exact E | tauto]
  | E : guard _ (add_referable _ _ _) _ = Exc _ |- _ => now apply add_referable_exc in E
  | E : guard H_ns_op (remove_referable _ _) _ = Exc _ |- _ => now apply remove_referable_exc in E
  | E : guard H_ns_op _ _ = Exc _ |- _ => now apply ns_op_exc in E
  | E : guard _ (Exc _) _ = Exc _ |- _ => vm_compute in E; done E
  | E : guard _ (store_remove _ _ _) _ = Exc _ |- _ =>
      exfalso; eapply store_remove_ok in E; [exact E | eassumption | ];
      first [apply get_shell_ok; eassumption | apply get_sm_ok; eassumption | apply get_cd_ok; eassumption
            | apply resolve_sm_ok; eassumption]
  end.

Lemma handler_exc : forall ep s r e, own_ids s ->
  (needs_path ep = true -> the_path r <> []) -> ep <> ep_not_implemented ->
  handler ep s r = Exc e -> good e = true.
Proof.
  intros ep s r e W NP NI H.
  destruct ep; try congruence; cbn [handler endpoint_name] in H; unfold bind, ok, http in H;
    try specialize (NP eq_refl).
  all: repeat (bm; try discriminate).
  all: try (inversion H; subst; clear H).
  all: try leaf.
  all: try wrongclass.
  all: try (vm_compute; reflexivity).
Qed.

Lemma status_respond : forall fn k r l v, status (respond fn k r l v) = fst (fst (fst (resp_spec fn k))).
Proof. intros. unfold respond. now destruct (resp_spec fn k) as [[[? ?] ?] ?]. Qed.
Lemma status_respond_list : forall fn k r c vs, status (respond_list fn k r c vs) = fst (fst (fst (resp_spec fn k))).
Proof. intros. unfold respond_list. now destruct (resp_spec fn k) as [[[? ?] ?] ?]. Qed.

Definition ok_status (z : Z) : Prop := z = 200 \/ z = 201 \/ z = 204 \/ z = 307.
Lemma handler_ok_status : forall ep s r s' resp, handler ep s r = Ok (s', resp) -> ok_status (status resp).
Proof.
  intros ep s r s' resp H.
  destruct ep; cbn [handler endpoint_name] in H; unfold bind, ok, http in H.
  all: repeat (bm; try discriminate).
  all: try (inversion H; subst; clear H).
  all: rewrite ?status_respond, ?status_respond_list; unfold ok_status; try (vm_compute; tauto).
Qed.

Lemma not_implemented_exc : forall s r, handler ep_not_implemented s r = Exc (EHttp "NotImplemented").
Proof. intros. vm_compute. reflexivity. Qed.

Lemma convert_args_exc : forall r e, convert_args r = Exc e -> good e = true.
Proof.
  intros r e H. unfold convert_args, conv_id, need_id, need_path, bind in H.
  repeat (bm; try discriminate); try (vm_compute in H; done H).
  all: try (inversion H; subst; clear H).
  all: repeat match goal with E : guard _ (Exc _) _ = _ |- _ => vm_compute in E; try done E end.
Qed.

(* ------------------------------------------------------------------ C11 *)

Definition req_ok (r : request) : Prop :=
  forall ep, find_route routes (r_rule r) (r_meth r) false = REndpoint ep -> needs_path ep = true -> the_path r <> [].

Lemma error_good : forall r e, good e = true ->
  400 <= status (error_response r e) < 500 /\ exists cls, pay (error_response r e) = PResult cls.
Proof. intros r e G. gc G; vm_compute; split; try split; try discriminate; eauto. Qed.

Lemma route_error_status : forall r cls, mem_s cls client_errors = true ->
  400 <= status (error_response r (EHttp cls)) < 500.
Proof. intros r cls G. exact (proj1 (error_good r (EHttp cls) G)). Qed.

Theorem no_5xx_partial : forall s r, own_ids s -> req_ok r ->
  status (snd (handle s r)) < 500 \/
  (status (snd (handle s r)) = 501 /\ unimplemented (r_rule r) (r_meth r) = true).
Proof.
  intros s r W RO. unfold handle, unimplemented.
  destruct (r_accept r) eqn:A; try (left; cbn [snd status]; lia).
  all: destruct (find_route routes (r_rule r) (r_meth r) false) eqn:F.
  all: try (left; unfold http; cbv beta iota; cbn [snd]; apply route_error_status; reflexivity).
  all: unfold bind; destruct (convert_args r) as [u|ce] eqn:C;
    [ | left; apply convert_args_exc in C; destruct (error_good r ce C) as [[_ ?] _]; cbv beta iota; cbn [snd]; assumption ].
  all: destruct (handler e s r) as [[s' resp]|x] eqn:H; cbv beta iota; cbn [snd fst status].
  all: try (left; apply handler_ok_status in H; unfold ok_status in H; lia).
  all: destruct e; try (left; refine (proj2 (proj1 (error_good r x _)));
                        eapply handler_exc; [exact W | apply RO; exact F | discriminate | exact H]).
  all: right; rewrite not_implemented_exc in H; inversion H; subst; split; reflexivity.
Qed.

Lemma handle_cases : forall s r,
  handle s r = (s, {| status := 406; rtype := AccNone; location := None; pay := PPlain |}) \/
  (exists s' resp, handle s r = (s', resp) /\ ok_status (status resp)) \/
  (exists e, handle s r = (s, error_response r e)).
Proof.
  intros s r. unfold handle.
  destruct (r_accept r); try (left; reflexivity).
  all: destruct (find_route routes (r_rule r) (r_meth r) false) eqn:F;
    try (right; right; eexists; reflexivity).
  all: unfold bind; destruct (convert_args r); [|right; right; eexists; reflexivity].
  all: destruct (handler e s r) as [[s' resp]|x] eqn:H; [|right; right; eexists; reflexivity].
  all: right; left; do 2 eexists; split; [reflexivity | eapply handler_ok_status; exact H].
Qed.

Theorem body_4xx : forall s r,
  400 <= status (snd (handle s r)) < 500 -> status (snd (handle s r)) <> 406 ->
  exists cls, pay (snd (handle s r)) = PResult cls.
Proof.
  intros s r. destruct (handle_cases s r) as [E | [[s' [resp [E O]]] | [e E]]]; rewrite E; cbn [snd status pay].
  - intros _ N. congruence.
  - unfold ok_status in O. intros. lia.
  - unfold error_response. destruct e; cbn [status pay]; try (intros; lia).
    destruct (existsb (isa (EHttp cls)) converted); cbn [status pay]; [eauto | intros; lia].
Qed.

Theorem rejected_unchanged : forall s r,
  (400 <= status (snd (handle s r)) < 500 \/ status (snd (handle s r)) = 501) -> fst (handle s r) = s.
Proof.
  intros s r. destruct (handle_cases s r) as [E | [[s' [resp [E O]]] | [e E]]]; rewrite E; cbn [snd fst]; auto.
  unfold ok_status in O. intros. lia.
Qed.

(* the pinned behaviour refutes the unconditional statement: after a PUT that changes the id the
   object stays filed under its old key, and DELETE then raises KeyError out of the WSGI callable *)
Definition Q0 : query := {| q_limit := QAbsent; q_cursor := QAbsent; q_core := false; q_idshort := None;
                            q_assetids := []; q_semid := None |}.
Definition rq (rule : string) (m : meth) (sm : idarg) (b : body) : request :=
  {| r_rule := rule; r_meth := m; r_accept := AccJson; r_aas := IdAbsent; r_sm := sm; r_cd := IdAbsent;
     r_qt := IdAbsent; r_path := PathAbsent; r_query := Q0; r_body := b |}.
Definition sm_doc (i : ident) : value :=
  VSm {| sm_id := i; sm_ids := Some 7; sm_tok := 1; sm_quals := []; sm_ch := [] |}.
Definition rename_history : list request :=
  [rq "/submodels" MPost IdAbsent (BVal false (sm_doc 1));
   rq "/submodels/<base64url:submodel_id>" MPut (IdOk 1) (BVal false (sm_doc 2))].
Definition delete_renamed : request := rq "/submodels/<base64url:submodel_id>" MDelete (IdOk 1) BNoCtype.

Lemma delete_renamed_ok : req_ok delete_renamed.
Proof. intros ep F. vm_compute in F. inversion F. subst. discriminate. Qed.
Lemma no_5xx_refuted :
  exists rs r, req_ok r /\ status (snd (handle (run (empty false) rs) r)) = 500
               /\ pay (snd (handle (run (empty false) rs) r)) = PCrash EKey.
Proof. exists rename_history, delete_renamed. split; [exact delete_renamed_ok | vm_compute; split; reflexivity]. Qed.
Lemma rename_breaks_own_ids : ~ own_ids (run (empty false) rename_history).
Proof. intro W. specialize (W 1 _ (or_introl eq_refl)). vm_compute in W. discriminate. Qed.

(* non-vacuity of the hypotheses *)
Definition example_sm : submodel :=
  {| sm_id := 1; sm_ids := Some 7; sm_tok := 1; sm_quals := [(9, 1)];
     sm_ch := [(Some 3, Elem MColl (Some 3) 2 [] 0%nat ANone [(Some 4, Elem MProp (Some 4) 3 [] 0%nat ANone [])])] |}.
Definition example_state : state :=
  {| st_objs := [(1, OSm example_sm); (5, OCd {| cd_id := 5; cd_ids := None; cd_tok := 0 |})];
     st_files := Files.init; st_backed := false |}.
Definition example_put : request :=
  rq "/submodels/<base64url:submodel_id>" MPut (IdOk 1)
     (BVal false (VSm {| sm_id := 1; sm_ids := Some 7; sm_tok := 2; sm_quals := [];
                         sm_ch := [(Some 3, Elem MColl (Some 3) 5 [] 0%nat ANone [])] |})).
Lemma example_hypotheses :
  own_ids example_state /\ req_ok example_put /\
  status (snd (handle example_state example_put)) = 204.
Proof.
  split; [|split].
  - intros k o [H|[H|[]]]; inversion H; reflexivity.
  - intros ep F. vm_compute in F. inversion F. subst. discriminate.
  - vm_compute. reflexivity.
Qed.
