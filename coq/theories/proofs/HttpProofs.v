(* Lemmas about model/Http.v (C10, C11).  The exception analysis walks through every handler of the
   generated [endpoint] type: an edit of http.py that lets an exception class escape, changes a
   status code or adds a route makes these proofs fail. *)
From Coq Require Import List ZArith Bool String Lia.
From Basyx Require Import gen.Gen_HttpRoutes model.Files model.Http.
Import ListNotations.
Local Open Scope string_scope.
Local Open Scope Z_scope.
Local Open Scope list_scope.

Definition own_ids (s : state) : Prop := forall k o, In (k, o) (st_objs s) -> obj_id o = k.
Definition client_errors : list string :=
  ["BadRequest"; "NotFound"; "MethodNotAllowed"; "Conflict"; "UnsupportedMediaType"; "UnprocessableEntity"].
Definition good (e : exc) : bool := match e with EHttp cls => mem_s cls client_errors | _ => false end.
Lemma good_cases : forall e, good e = true ->
  e = EHttp "BadRequest" \/ e = EHttp "NotFound" \/ e = EHttp "MethodNotAllowed" \/ e = EHttp "Conflict"
  \/ e = EHttp "UnsupportedMediaType" \/ e = EHttp "UnprocessableEntity".
Proof.
  intros [] H; try discriminate. unfold good, mem_s, client_errors in H. simpl in H.
  repeat match type of H with
  | (String.eqb ?a ?b || _) = true => destruct (String.eqb_spec a b); [subst; tauto|simpl in H]
  end. discriminate.
Qed.
Ltac gc E := apply good_cases in E; destruct E as [->|[->|[->|[->|[->| ->]]]]].

Lemma zlookup_in : forall {B} k (l : list (Z * B)) v, zlookup k l = Some v -> In (k, v) l.
Proof.
  induction l as [|[k' v'] l IH]; simpl; intros v H; [discriminate|].
  destruct (k =? k') eqn:E.
  - apply Z.eqb_eq in E. inversion H. subst. now left.
  - right. now apply IH.
Qed.
Lemma own_lookup : forall s k o, own_ids s -> zlookup k (st_objs s) = Some o -> (obj_id o =? k) = true.
Proof. intros s k o W H. apply Z.eqb_eq. apply W. now apply zlookup_in. Qed.

Ltac bm :=
  match goal with
  | H : context [match ?x with _ => _ end] |- _ =>
      lazymatch x with
      | context [match _ with _ => _ end] => fail
      | _ => destruct x eqn:?
      end
  end.
Ltac done H := first [discriminate H | (inversion H; subst; clear H; vm_compute; reflexivity)].

Lemma get_referable_exc : forall p m ch e, get_referable m ch p = Exc e -> e = EKey \/ e = EValue \/ e = EType.
Proof.
  induction p as [|k p IH]; intros m ch e H; simpl in H; [discriminate|].
  repeat (bm; try discriminate); try (inversion H; subst; auto; fail); eauto.
Qed.
Lemma get_referable_some : forall p m ch a, p <> [] -> get_referable m ch p = Ok a -> a <> None.
Proof.
  induction p as [|k p IH]; intros m ch a NE H; [congruence|]. simpl in H.
  repeat (bm; try discriminate); try (inversion H; subst; discriminate).
  all: eapply IH; [|eassumption]; congruence.
Qed.
Lemma get_nested_exc : forall sm p e, p <> [] -> get_nested sm p = Exc e -> good e = true.
Proof.
  intros sm p e NE H. unfold get_nested in H. destruct p as [|k p]; [congruence|].
  unfold bind, guard in H.
  destruct (get_referable None (sm_ch sm) (k :: p)) eqn:E.
  - apply get_referable_some in E; [|congruence]. destruct a; [done H|congruence].
  - apply get_referable_exc in E. destruct E as [-> | [-> | ->]]; vm_compute in H; done H.
Qed.
Lemma sm_or_nested_exc : forall s r e, sm_or_nested s r = Exc e -> good e = true.
Proof.
  intros s r e H. unfold sm_or_nested, bind, get_sm, http in H.
  destruct (zlookup (the_id (r_sm r)) (st_objs s)) as [[?|sm|?]|]; try done H.
  destruct (the_path r) eqn:P.
  - vm_compute in H. done H.
  - unfold guard in H. destruct (get_nested sm (n :: l)) eqn:E; simpl in H; try done H.
    apply get_nested_exc in E; [|congruence].
    gc E; vm_compute in H; done H.
Qed.
Lemma request_body_exc : forall fn r e, mem_s (fst (body_spec fn)) constructables = true ->
  request_body fn r = Exc e -> good e = true.
Proof.
  intros fn r e C H. unfold request_body in H. destruct (body_spec fn) as [cls mode]. simpl fst in C.
  destruct (r_body r); rewrite ?C in H; cbv beta iota in H.
  - vm_compute in H; done H.
  - vm_compute in H; done H.
  - change (negb true) with false in H. cbv iota in H.
    destruct (String.eqb (value_class v) cls); [discriminate|].
    destruct xml; vm_compute in H; done H.
  - vm_compute in H; done H.
Qed.
Lemma get_slice_exc : forall A q (l : list A) e, get_slice q l = Exc e -> good e = true.
Proof.
  intros A q l e H. unfold get_slice in H.
  destruct (q_limit q), (q_cursor q); vm_compute in H; done H.
Qed.
Lemma dec_q_exc : forall d e, dec_q d = Exc e -> good e = true.
Proof. intros [] e H; vm_compute in H; done H. Qed.
Lemma dec_all_exc : forall l e, dec_all l = Exc e -> good e = true.
Proof.
  induction l as [|d l IH]; intros e H; simpl in H; [discriminate|].
  unfold bind in H. destruct (dec_q d) eqn:E; [now apply IH | inversion H; subst; now apply dec_q_exc in E].
Qed.

Lemma get_shell_ok : forall s i a, get_shell s i = Ok a -> zlookup i (st_objs s) = Some (OShell a).
Proof. unfold get_shell, http. intros s i a H. repeat (bm; try discriminate). now inversion H. Qed.
Lemma get_sm_ok : forall s i a, get_sm s i = Ok a -> zlookup i (st_objs s) = Some (OSm a).
Proof. unfold get_sm, http. intros s i a H. repeat (bm; try discriminate). now inversion H. Qed.
Lemma get_cd_ok : forall s i a, get_cd s i = Ok a -> zlookup i (st_objs s) = Some (OCd a).
Proof. unfold get_cd, http. intros s i a H. repeat (bm; try discriminate). now inversion H. Qed.
Lemma get_shell_exc : forall s i e, get_shell s i = Exc e -> good e = true.
Proof. unfold get_shell, http. intros s i a H. repeat (bm; try discriminate); done H. Qed.
Lemma get_sm_exc : forall s i e, get_sm s i = Exc e -> good e = true.
Proof. unfold get_sm, http. intros s i a H. repeat (bm; try discriminate); done H. Qed.
Lemma get_cd_exc : forall s i e, get_cd s i = Exc e -> good e = true.
Proof. unfold get_cd, http. intros s i a H. repeat (bm; try discriminate); done H. Qed.
Lemma store_add_exc : forall hs s o d e, hs = H_post_aas_add \/ hs = H_post_sm_add \/ hs = H_post_cd_add ->
  guard hs (store_add s o) d = Exc e -> good e = true.
Proof.
  intros hs s o d e Hh H. unfold store_add in H. destruct (zlookup (obj_id o) (st_objs s)); [|discriminate].
  destruct Hh as [->|[->| ->]]; vm_compute in H; done H.
Qed.
Lemma store_remove_ok : forall hs s k o d e, own_ids s -> zlookup k (st_objs s) = Some o ->
  guard hs (store_remove s k o) d = Exc e -> False.
Proof.
  intros hs s k o d e W L H. unfold store_remove in H. rewrite (own_lookup _ _ _ W L) in H. discriminate.
Qed.
Lemma zlookup_zremove_none : forall {B} j k (l : list (Z * B)), zlookup j l = None -> zlookup j (zremove k l) = None.
Proof.
  induction l as [|[k' v'] l IH]; simpl; intros H; [reflexivity|].
  destruct (j =? k') eqn:E; [discriminate|]. destruct (k =? k'); [exact H|]. simpl. rewrite E. now apply IH.
Qed.
(* _update_identifiable: the only exception is the Conflict it raises itself; object_store.add cannot refuse the new id,
   because the store held no object under it before the object was taken out *)
Lemma update_identifiable_exc : forall s k o o' e, update_identifiable s k o o' = Exc e -> e = EHttp "Conflict".
Proof.
  intros s k o o' e H. unfold update_identifiable, bind, U_conflict, U_discards, U_readds, http in H.
  destruct (obj_id o' =? obj_id o); [discriminate|].
  destruct (zlookup (obj_id o') (st_objs s)) eqn:L; [now inversion H|].
  unfold store_add, store_discard in H.
  destruct (obj_id o =? k); cbn [st_objs] in H; rewrite ?(zlookup_zremove_none _ _ _ L), ?L in H; discriminate.
Qed.
Lemma put_identifiable_exc : forall fn s k o o' e, put_identifiable fn s k o o' = Exc e -> good e = true.
Proof.
  intros fn s k o o' e H. unfold put_identifiable in H.
  destruct (mem_s "self._update_identifiable" (calls_of fn)); [|discriminate].
  apply update_identifiable_exc in H. subst. reflexivity.
Qed.
Lemma resolve_sm_exc : forall s i e, resolve_sm s i = Exc e -> good e = true.
Proof.
  intros s i e H. unfold resolve_sm in H. destruct (zlookup i (st_objs s)) as [[]|]; vm_compute in H; done H.
Qed.
Lemma resolve_sm_ok : forall s i a, resolve_sm s i = Ok a -> zlookup i (st_objs s) = Some (OSm a).
Proof.
  intros s i a H. unfold resolve_sm in H. destruct (zlookup i (st_objs s)) as [[]|]; vm_compute in H; try discriminate.
  now inversion H.
Qed.
Lemma get_sm_ref_exc : forall a i e, get_sm_ref a i = Exc e -> good e = true.
Proof. unfold get_sm_ref, http. intros a i e H. destruct (zmem i (sh_refs a)); done H. Qed.
Lemma get_shells_exc : forall s q e, get_shells s q = Exc e -> good e = true.
Proof.
  intros s q e H. unfold get_shells, bind in H. destruct (dec_all (q_assetids q)) eqn:E.
  - now apply get_slice_exc in H.
  - inversion H; subst. now apply dec_all_exc in E.
Qed.
Lemma get_submodels_exc : forall s q e, get_submodels s q = Exc e -> good e = true.
Proof.
  intros s q e H. unfold get_submodels, bind in H. destruct (q_semid q).
  - destruct (dec_q q0) eqn:E; [now apply get_slice_exc in H|]. inversion H; subst. now apply dec_q_exc in E.
  - now apply get_slice_exc in H.
Qed.
Lemma add_referable_exc : forall m lt ch x d e, guard H_post_elem_add (add_referable m lt ch x) d = Exc e -> good e = true.
Proof.
  intros m lt ch x d e H. unfold add_referable in H.
  repeat (bm; try discriminate); vm_compute in H; done H.
Qed.
Lemma remove_referable_exc : forall ch k d e, guard H_ns_op (remove_referable ch k) d = Exc e -> good e = true.
Proof.
  intros ch k d e H. unfold remove_referable in H.
  repeat (bm; try discriminate); vm_compute in H; done H.
Qed.
Lemma ns_op_exc : forall x ch d e,
  guard H_ns_op (match x with Some i => remove_referable ch i | None => Exc EKey end) d = Exc e -> good e = true.
Proof.
  intros x ch d e H. unfold remove_referable in H.
  repeat (bm; try discriminate); vm_compute in H; done H.
Qed.

Lemma strip_class : forall v, value_class (strip_value v) = value_class v.
Proof. now destruct v. Qed.
Lemma request_body_class : forall fn r v, request_body fn r = Ok v -> value_class v = fst (body_spec fn).
Proof.
  intros fn r v H. unfold request_body in H. destruct (body_spec fn) as [cls mode]. simpl.
  destruct (r_body r); try (vm_compute in H; discriminate).
  - destruct (mem_s cls constructables); vm_compute in H; discriminate.
  - destruct (negb (mem_s cls constructables)); [discriminate|].
    destruct (String.eqb_spec (value_class v0) cls).
    + inversion H. destruct (smode_on mode (r_query r)); [rewrite strip_class|]; assumption.
    + destruct xml; vm_compute in H; discriminate.
Qed.
Ltac wrongclass :=
  match goal with
  | E : request_body _ _ = Ok _ |- _ => apply request_body_class in E; vm_compute in E; discriminate E
  end.

Lemma rekey_update_exc : forall pch k e e' d x,
  guard H_put_elem_update (rekey_update pch k e e') d = Exc x -> good x = true.
Proof.
  intros pch k e e' d x H. unfold rekey_update in H.
  repeat (bm; try discriminate); vm_compute in H; done H.
Qed.
Lemma send_file_exc : forall s r ct c e, send_file s r ct c = Exc e -> good e = true.
Proof. intros s r ct c e H. unfold send_file in H. destruct (sendable ct); [discriminate|]. vm_compute in H. done H. Qed.
Lemma send_file_ok : forall s r ct c s' resp, send_file s r ct c = Ok (s', resp) -> status resp = 200 /\ s' = s.
Proof.
  intros s r ct c s' resp H. unfold send_file in H. destruct (sendable ct); [now inversion H|]. vm_compute in H. discriminate.
Qed.

Definition needs_path (ep : endpoint) : bool :=
  match ep with
  | ep_get_submodel_submodel_elements_id_short_path | ep_get_submodel_submodel_elements_id_short_path_metadata
  | ep_get_submodel_submodel_elements_id_short_path_reference | ep_put_submodel_submodel_elements_id_short_path
  | ep_delete_submodel_submodel_elements_id_short_path
  | ep_get_submodel_submodel_element_attachment | ep_put_submodel_submodel_element_attachment
  | ep_delete_submodel_submodel_element_attachment => true
  | _ => false
  end.

Ltac leaf :=
  match goal with
  | E : get_shell _ _ = Exc _ |- _ => now apply get_shell_exc in E
  | E : get_sm _ _ = Exc _ |- _ => now apply get_sm_exc in E
  | E : get_cd _ _ = Exc _ |- _ => now apply get_cd_exc in E
  | E : request_body _ _ = Exc _ |- _ => apply request_body_exc in E; [exact E | vm_compute; reflexivity]
  | E : sm_or_nested _ _ = Exc _ |- _ => now apply sm_or_nested_exc in E
  | E : get_nested _ _ = Exc _ |- _ => apply get_nested_exc in E; [exact E | first [assumption | discriminate | congruence]]
  | E : get_slice _ _ = Exc _ |- _ => now apply get_slice_exc in E
  | E : get_shells _ _ = Exc _ |- _ => now apply get_shells_exc in E
  | E : get_submodels _ _ = Exc _ |- _ => now apply get_submodels_exc in E
  | E : resolve_sm _ _ = Exc _ |- _ => now apply resolve_sm_exc in E
  | E : get_sm_ref _ _ = Exc _ |- _ => now apply get_sm_ref_exc in E
  | E : send_file _ _ _ _ = Exc _ |- _ => now apply send_file_exc in E
  | E : guard _ (rekey_update _ _ _ _) _ = Exc _ |- _ => now apply rekey_update_exc in E
  | E : put_identifiable _ _ _ _ _ = Exc _ |- _ => now apply put_identifiable_exc in E
  | E : guard _ (store_add _ _) _ = Exc _ |- _ => apply store_add_exc in E; [exact E | tauto]
  | E : guard _ (add_referable _ _ _ _) _ = Exc _ |- _ => now apply add_referable_exc in E
  | E : guard H_ns_op (remove_referable _ _) _ = Exc _ |- _ => now apply remove_referable_exc in E
  | E : guard H_ns_op _ _ = Exc _ |- _ => now apply ns_op_exc in E
  | E : guard _ (Exc _) _ = Exc _ |- _ => vm_compute in E; done E
  | E : guard _ (store_remove _ _ _) _ = Exc _ |- _ =>
      exfalso; eapply store_remove_ok in E; [exact E | eassumption | ];
      first [apply get_shell_ok; eassumption | apply get_sm_ok; eassumption | apply get_cd_ok; eassumption
            | apply resolve_sm_ok; eassumption]
  end.

Lemma handler_exc : forall ep s r e, own_ids s ->
  (needs_path ep = true -> the_path r <> []) -> ep <> ep_not_implemented ->
  handler ep s r = Exc e -> good e = true.
Proof.
  intros ep s r e W NP NI H.
  destruct ep; try congruence; cbn [handler endpoint_name] in H; unfold bind, ok, http in H;
    try specialize (NP eq_refl).
  all: repeat (bm; try discriminate).
  all: try (inversion H; subst; clear H).
  all: try leaf.
  all: try wrongclass.
  all: try (vm_compute; reflexivity).
Qed.

Lemma status_respond : forall fn k r l v, status (respond fn k r l v) = fst (fst (fst (resp_spec fn k))).
Proof. intros. unfold respond. now destruct (resp_spec fn k) as [[[? ?] ?] ?]. Qed.
Lemma status_respond_list : forall fn k r c vs, status (respond_list fn k r c vs) = fst (fst (fst (resp_spec fn k))).
Proof. intros. unfold respond_list. now destruct (resp_spec fn k) as [[[? ?] ?] ?]. Qed.

Definition ok_status (z : Z) : Prop := z = 200 \/ z = 201 \/ z = 204 \/ z = 307.
Lemma handler_ok_status : forall ep s r s' resp, handler ep s r = Ok (s', resp) -> ok_status (status resp).
Proof.
  intros ep s r s' resp H.
  destruct ep; cbn [handler endpoint_name] in H; unfold bind, ok, http in H.
  all: repeat (bm; try discriminate).
  all: try (match goal with E : send_file _ _ _ _ = Ok _ |- _ =>
              apply send_file_ok in E; destruct E as [E _]; unfold ok_status; rewrite E; tauto end).
  all: try (inversion H; subst; clear H).
  all: rewrite ?status_respond, ?status_respond_list; unfold ok_status; try (vm_compute; tauto).
Qed.

Lemma not_implemented_exc : forall s r, handler ep_not_implemented s r = Exc (EHttp "NotImplemented").
Proof. intros. vm_compute. reflexivity. Qed.

Lemma convert_args_exc : forall r e, convert_args r = Exc e -> good e = true.
Proof.
  intros r e H. unfold convert_args, conv_id, need_id, need_path, bind in H.
  repeat (bm; try discriminate); try (vm_compute in H; done H).
  all: try (inversion H; subst; clear H).
  all: repeat match goal with E : guard _ (Exc _) _ = _ |- _ => vm_compute in E; try done E end.
Qed.

(* ------------------------------------------------------------------ C11 *)

Definition req_ok (r : request) : Prop :=
  forall ep, find_route routes (r_rule r) (r_meth r) false = REndpoint ep -> needs_path ep = true -> the_path r <> [].

Lemma error_good : forall r e, good e = true ->
  400 <= status (error_response r e) < 500 /\ exists cls, pay (error_response r e) = PResult cls.
Proof. intros r e G. gc G; vm_compute; split; try split; try discriminate; eauto. Qed.

Lemma route_error_status : forall r cls, mem_s cls client_errors = true ->
  400 <= status (error_response r (EHttp cls)) < 500.
Proof. intros r cls G. exact (proj1 (error_good r (EHttp cls) G)). Qed.

(* bind_to_environ sits inside the try block of handle_request: BadHost is converted like any HTTPException *)
Lemma bind_caught : catch H_bind (EHttp "BadHost") = Swallowed.
Proof. vm_compute. reflexivity. Qed.
Lemma badhost_response : forall r,
  status (error_response r (EHttp "BadHost")) = 400 /\ pay (error_response r (EHttp "BadHost")) = PResult "BadHost".
Proof. intros r. vm_compute. split; reflexivity. Qed.

Theorem no_5xx_partial : forall s r, own_ids s -> req_ok r ->
  status (snd (handle s r)) < 500 \/
  (status (snd (handle s r)) = 501 /\ unimplemented (r_rule r) (r_meth r) = true).
Proof.
  intros s r W RO. unfold handle, unimplemented.
  destruct (r_accept r) eqn:A; try (left; cbn [snd status]; lia).
  all: destruct (r_badhost r); [rewrite bind_caught; left; cbn [snd]; rewrite (proj1 (badhost_response r)); lia|].
  all: destruct (find_route routes (r_rule r) (r_meth r) false) eqn:F.
  all: try (left; unfold http; cbv beta iota; cbn [snd]; apply route_error_status; reflexivity).
  all: unfold bind; destruct (convert_args r) as [u|ce] eqn:C;
    [ | left; apply convert_args_exc in C; destruct (error_good r ce C) as [[_ ?] _]; cbv beta iota; cbn [snd]; assumption ].
  all: destruct (handler e s r) as [[s' resp]|x] eqn:H; cbv beta iota; cbn [snd fst status].
  all: try (left; apply handler_ok_status in H; unfold ok_status in H; lia).
  all: destruct e; try (left; refine (proj2 (proj1 (error_good r x _)));
                        eapply handler_exc; [exact W | apply RO; exact F | discriminate | exact H]).
  all: right; rewrite not_implemented_exc in H; inversion H; subst; split; reflexivity.
Qed.

Lemma handle_cases : forall s r,
  handle s r = (s, {| status := 406; rtype := AccNone; location := None; pay := PPlain |}) \/
  (exists s' resp, handle s r = (s', resp) /\ ok_status (status resp)) \/
  (exists e, handle s r = (s, error_response r e)).
Proof.
  intros s r. unfold handle.
  destruct (r_accept r); try (left; reflexivity).
  all: destruct (r_badhost r); [rewrite bind_caught; right; right; eexists; reflexivity|].
  all: destruct (find_route routes (r_rule r) (r_meth r) false) eqn:F;
    try (right; right; eexists; reflexivity).
  all: unfold bind; destruct (convert_args r); [|right; right; eexists; reflexivity].
  all: destruct (handler e s r) as [[s' resp]|x] eqn:H; [|right; right; eexists; reflexivity].
  all: right; left; do 2 eexists; split; [reflexivity | eapply handler_ok_status; exact H].
Qed.

Theorem body_4xx : forall s r,
  400 <= status (snd (handle s r)) < 500 -> status (snd (handle s r)) <> 406 ->
  exists cls, pay (snd (handle s r)) = PResult cls.
Proof.
  intros s r. destruct (handle_cases s r) as [E | [[s' [resp [E O]]] | [e E]]]; rewrite E; cbn [snd status pay].
  - intros _ N. congruence.
  - unfold ok_status in O. intros. lia.
  - unfold error_response. destruct e; cbn [status pay]; try (intros; lia).
    destruct (existsb (isa (EHttp cls)) converted); cbn [status pay]; [eauto | intros; lia].
Qed.

Theorem rejected_unchanged : forall s r,
  (400 <= status (snd (handle s r)) < 500 \/ status (snd (handle s r)) = 501) -> fst (handle s r) = s.
Proof.
  intros s r. destruct (handle_cases s r) as [E | [[s' [resp [E O]]] | [e E]]]; rewrite E; cbn [snd fst]; auto.
  unfold ok_status in O. intros. lia.
Qed.

(* a history in which a PUT changes the id of a submodel, and the DELETE of its old id afterwards *)
Definition Q0 : query := {| q_limit := QAbsent; q_cursor := QAbsent; q_core := false; q_idshort := None;
                            q_assetids := []; q_semid := None |}.
Definition rq (rule : string) (m : meth) (sm : idarg) (b : body) : request :=
  {| r_rule := rule; r_meth := m; r_accept := AccJson; r_aas := IdAbsent; r_sm := sm; r_cd := IdAbsent;
     r_qt := IdAbsent; r_path := PathAbsent; r_query := Q0; r_body := b; r_badhost := false |}.
Definition sm_doc (i : ident) : value :=
  VSm {| sm_id := i; sm_ids := Some 7; sm_tok := 1; sm_quals := []; sm_ch := [] |}.
Definition rename_history : list request :=
  [rq "/submodels" MPost IdAbsent (BVal false (sm_doc 1));
   rq "/submodels/<base64url:submodel_id>" MPut (IdOk 1) (BVal false (sm_doc 2))].
Definition delete_renamed : request := rq "/submodels/<base64url:submodel_id>" MDelete (IdOk 1) BNoCtype.

Lemma delete_renamed_ok : req_ok delete_renamed.
Proof. intros ep F. vm_compute in F. inversion F. subst. discriminate. Qed.
(* the object is filed under its new id afterwards: the old id is not found (404, no KeyError), the new one is read *)
Lemma rename_example : forall b,
  map fst (st_objs (run (empty b) rename_history)) = [2] /\
  status (snd (handle (run (empty b) rename_history) delete_renamed)) = 404 /\
  pay (snd (handle (run (empty b) rename_history) (rq "/submodels/<base64url:submodel_id>" MGet (IdOk 2) BNoCtype))) = PVal (sm_doc 2).
Proof. intros []; vm_compute; repeat split; reflexivity. Qed.

(* non-vacuity of the hypotheses *)
Definition example_sm : submodel :=
  {| sm_id := 1; sm_ids := Some 7; sm_tok := 1; sm_quals := [(9, 1)];
     sm_ch := [(Some 3, Elem MColl (Some 3) 2 [] 0%nat ANone [(Some 4, Elem MProp (Some 4) 3 [] 0%nat ANone [])])] |}.
Definition example_state : state :=
  {| st_objs := [(1, OSm example_sm); (5, OCd {| cd_id := 5; cd_ids := None; cd_tok := 0 |})];
     st_files := Files.init; st_backed := false |}.
Definition example_put : request :=
  rq "/submodels/<base64url:submodel_id>" MPut (IdOk 1)
     (BVal false (VSm {| sm_id := 1; sm_ids := Some 7; sm_tok := 2; sm_quals := [];
                         sm_ch := [(Some 3, Elem MColl (Some 3) 5 [] 0%nat ANone [])] |})).
Lemma example_hypotheses :
  own_ids example_state /\ req_ok example_put /\
  status (snd (handle example_state example_put)) = 204.
Proof.
  split; [|split].
  - intros k o [H|[H|[]]]; inversion H; reflexivity.
  - intros ep F. vm_compute in F. inversion F. subst. discriminate.
  - vm_compute. reflexivity.
Qed.

(* ------------------------------------------------------------------ C10 *)

(* ---------------- paging *)
Lemma firstn_add : forall A a b (l : list A), firstn (a + b) l = firstn a l ++ firstn b (skipn a l).
Proof.
  induction a as [|a IH]; intros b l; simpl; [reflexivity|].
  destruct l; simpl; [now rewrite firstn_nil | now rewrite IH].
Qed.
Definition page {A} (lim : nat) (l : list A) (k : nat) : list A := firstn lim (skipn (k * lim) l).
Lemma pages_concat : forall A (l : list A) lim n,
  List.concat (map (page lim l) (seq 0 n)) = firstn (n * lim) l.
Proof.
  intros A l lim n. induction n as [|n IH]; [reflexivity|].
  rewrite seq_S, map_app, concat_app, IH. simpl. rewrite app_nil_r. unfold page.
  replace (lim + n * lim)%nat with (n * lim + lim)%nat by lia. now rewrite firstn_add.
Qed.
Lemma paging_complete : forall A (l : list A) lim n, (0 < lim)%nat -> (List.length l <= n * lim)%nat ->
  List.concat (map (page lim l) (seq 0 n)) = l.
Proof. intros. rewrite pages_concat. now apply firstn_all2. Qed.
Lemma get_slice_page : forall A (l : list A) lim k q,
  q_limit q = QNat lim -> q_cursor q = (match k with O => QAbsent | _ => QNat (k * lim) end) ->
  get_slice q l = Ok (page lim l k, ((k * lim) + lim)%nat).
Proof.
  intros A l lim k q HL HC. unfold get_slice, page. rewrite HL, HC. destruct k; reflexivity.
Qed.

(* a filtered listing is paged AFTER the filter: the k-th page of GET /submodels?idShort=... (no semanticId filter) and
   of GET /shells?idShort=... (no assetIds filter) is the k-th page of the matching objects of the store *)
Lemma get_submodels_filtered_page : forall s lim k q,
  q_semid q = None ->
  q_limit q = QNat lim -> q_cursor q = (match k with O => QAbsent | _ => QNat (k * lim) end) ->
  get_submodels s q = Ok (page lim (filter (fun x => ids_match (q_idshort q) (sm_ids x)) (sms_of s)) k, ((k * lim) + lim)%nat).
Proof.
  intros s lim k q HS HL HC. unfold get_submodels. rewrite HS. simpl. now apply get_slice_page.
Qed.
Lemma get_shells_filtered_page : forall s lim k q,
  q_assetids q = [] ->
  q_limit q = QNat lim -> q_cursor q = (match k with O => QAbsent | _ => QNat (k * lim) end) ->
  get_shells s q = Ok (page lim (filter (fun x => ids_match (q_idshort q) (sh_ids x)) (shells_of s)) k, ((k * lim) + lim)%nat).
Proof.
  intros s lim k q HS HL HC. unfold get_shells. rewrite HS. simpl. now apply get_slice_page.
Qed.
(* ... so following the cursor visits exactly the matching objects, each once, in listing order *)
Lemma filtered_paging_complete : forall A (f : A -> bool) (l : list A) lim n, (0 < lim)%nat -> (List.length l <= n * lim)%nat ->
  List.concat (map (page lim (filter f l)) (seq 0 n)) = filter f l.
Proof.
  intros A f l lim n H0 HL. apply paging_complete; [assumption|].
  clear H0. induction l as [|a l IH] in n, lim, HL |- *; simpl in *; [apply Nat.le_0_l|].
  assert (HF : (List.length (filter f l) <= List.length l)%nat).
  { clear. induction l as [|b l IH]; simpl; [apply Nat.le_refl|]. destruct (f b); simpl; [now apply le_n_S | now apply Nat.le_le_succ_r]. }
  destruct (f a); simpl.
  - eapply Nat.le_trans; [apply le_n_S, HF | exact HL].
  - eapply Nat.le_trans; [apply Nat.le_le_succ_r, HF | exact HL].
Qed.

(* the hypotheses are satisfiable on a store in which a non-matching submodel precedes the matching ones: the second
   page (limit 1) of the listing filtered by idShort 7 is the SECOND matching submodel (id 3), not the second stored one *)
Definition filter_sm (i : ident) (n : name) : submodel := {| sm_id := i; sm_ids := Some n; sm_tok := 1; sm_quals := []; sm_ch := [] |}.
Definition filter_state : state :=
  {| st_objs := [(2, OSm (filter_sm 2 8)); (1, OSm (filter_sm 1 7)); (4, OSm (filter_sm 4 8)); (3, OSm (filter_sm 3 7))];
     st_files := Files.init; st_backed := false |}.
Definition filter_query (k : nat) : query :=
  {| q_limit := QNat 1; q_cursor := (match k with O => QAbsent | _ => QNat (k * 1) end); q_core := false; q_idshort := Some 7;
     q_assetids := []; q_semid := None |}.
Lemma filtered_page_example :
  (q_semid (filter_query 1) = None) /\
  (map (fun k => match get_submodels filter_state (filter_query k) with Ok (l, c) => (map sm_id l, c) | Exc _ => ([], 0%nat) end) [0; 1; 2]%nat
   = [([1], 1%nat); ([3], 2%nat); ([], 3%nat)]).
Proof. split; vm_compute; reflexivity. Qed.

(* ---------------- the store as a map *)
Lemma zlookup_app_new : forall {B} k (v : B) l, zlookup k l = None -> zlookup k (l ++ [(k, v)]) = Some v.
Proof.
  induction l as [|[k' v'] l IH]; simpl; intros H; [now rewrite Z.eqb_refl|].
  destruct (k =? k'); [discriminate | now apply IH].
Qed.
Lemma zlookup_app_other : forall {B} k k' (v : B) l, k <> k' -> zlookup k (l ++ [(k', v)]) = zlookup k l.
Proof.
  induction l as [|[k2 v2] l IH]; simpl; intros H.
  - destruct (k =? k') eqn:E; [apply Z.eqb_eq in E; congruence | reflexivity].
  - destruct (k =? k2); [reflexivity | now apply IH].
Qed.
Lemma zlookup_remove_same : forall {B} k (l : list (Z * B)), NoDup (map fst l) -> zlookup k (zremove k l) = None.
Proof.
  induction l as [|[k' v'] l IH]; simpl; intros ND; [reflexivity|].
  inversion ND; subst. destruct (k =? k') eqn:E.
  - apply Z.eqb_eq in E. subst. clear IH ND. induction l as [|[k2 v2] l IH2]; simpl; [reflexivity|].
    simpl in H1. destruct (k' =? k2) eqn:E2; [apply Z.eqb_eq in E2; subst; exfalso; apply H1; now left|].
    apply IH2. intro. apply H1. now right. inversion H2; assumption.
  - simpl. rewrite E. now apply IH.
Qed.
Lemma zlookup_zremove_other : forall {B} j k (l : list (Z * B)), j <> k -> zlookup j (zremove k l) = zlookup j l.
Proof.
  induction l as [|[k' v'] l IH]; simpl; intros H; [reflexivity|].
  destruct (k =? k') eqn:E.
  - apply Z.eqb_eq in E. subst k'. destruct (j =? k) eqn:E2; [apply Z.eqb_eq in E2; congruence | reflexivity].
  - simpl. destruct (j =? k'); [reflexivity | now apply IH].
Qed.
Lemma zlookup_replace_same : forall {B} k (v : B) l, zlookup k l <> None -> zlookup k (zreplace k v l) = Some v.
Proof.
  induction l as [|[k' v'] l IH]; simpl; intros H; [congruence|].
  destruct (k =? k') eqn:E; simpl; [now rewrite Z.eqb_refl | rewrite E; now apply IH].
Qed.

(* ---------------- request level (submodel repository; shells and concept descriptions use the same store functions) *)
Definition post_sm (x : submodel) : request := rq "/submodels" MPost IdAbsent (BVal false (VSm x)).
Definition get_sm_rq (i : ident) : request := rq "/submodels/<base64url:submodel_id>" MGet (IdOk i) BNoCtype.
Definition put_sm (i : ident) (x : submodel) : request := rq "/submodels/<base64url:submodel_id>" MPut (IdOk i) (BVal false (VSm x)).
Definition del_sm (i : ident) : request := rq "/submodels/<base64url:submodel_id>" MDelete (IdOk i) BNoCtype.

Ltac route := match goal with |- context [find_route routes ?a ?m false] =>
  let v := eval vm_compute in (find_route routes a m false) in change (find_route routes a m false) with v end.
Ltac body fn := match goal with |- context [request_body fn ?r] =>
  let v := eval vm_compute in (body_spec fn) in
  unfold request_body; change (body_spec fn) with v; cbv beta iota; cbn [r_body r_query rq post_sm put_sm]; cbv beta iota;
  replace (negb (mem_s "Submodel" constructables)) with false by (vm_compute; reflexivity);
  change (String.eqb (value_class (VSm ?x)) "Submodel") with true;
  replace (smode_on "level" Q0) with false by (vm_compute; reflexivity);
  cbv beta iota
  end.

Lemma get_existing : forall s i x, zlookup i (st_objs s) = Some (OSm x) ->
  handle s (get_sm_rq i) = (s, {| status := 200; rtype := AccJson; location := None; pay := PVal (VSm x) |}).
Proof.
  intros s i x L. unfold handle, get_sm_rq. cbn [r_accept rq r_rule r_meth]. route.
  unfold convert_args, conv_id, need_path, bind. cbn [r_aas r_sm r_cd r_qt r_path rq].
  cbn [handler endpoint_name]. unfold bind, get_sm, the_id. cbn [r_sm rq]. rewrite L.
  unfold ok, respond, render, self_persisting, persist. cbn [r_accept rq].
  replace (resp_spec "get_submodel" 0) with (200, false, "level", false) by (vm_compute; reflexivity).
  cbv beta iota. cbn [smode_on r_query rq Q0 q_core]. 
  replace (smode_on "level" Q0) with false by (vm_compute; reflexivity).
  destruct (st_backed s && negb (commits "get_submodel")); [destruct s|]; reflexivity.
Qed.

Lemma get_unknown : forall s i, (forall x, zlookup i (st_objs s) <> Some (OSm x)) ->
  handle s (get_sm_rq i) = (s, {| status := 404; rtype := AccJson; location := None; pay := PResult "NotFound" |}).
Proof.
  intros s i L. unfold handle, get_sm_rq. cbn [r_accept rq r_rule r_meth]. route.
  unfold convert_args, conv_id, need_path, bind. cbn [r_aas r_sm r_cd r_qt r_path rq].
  cbn [handler endpoint_name]. unfold bind, get_sm, the_id, http. cbn [r_sm rq].
  destruct (zlookup i (st_objs s)) as [[?|x|?]|] eqn:E; try reflexivity. exfalso. now apply (L x).
Qed.

Lemma post_new : forall s x, zlookup (sm_id x) (st_objs s) = None ->
  handle s (post_sm x) =
    ({| st_objs := st_objs s ++ [(sm_id x, OSm x)]; st_files := st_files s; st_backed := st_backed s |},
     {| status := 201; rtype := AccJson; location := Some (LSm (sm_id x)); pay := PVal (VSm x) |}).
Proof.
  intros s x L. unfold handle, post_sm. cbn [r_accept rq r_rule r_meth]. route.
  unfold convert_args, conv_id, need_path, bind. cbn [r_aas r_sm r_cd r_qt r_path rq].
  cbn [handler endpoint_name]. unfold bind. body "post_submodel".
  unfold store_add. cbn [obj_id]. rewrite L. unfold guard, ok, respond, render. cbn [r_accept rq].
  replace (resp_spec "post_submodel" 0) with (201, false, "no", true) by (vm_compute; reflexivity).
  cbv beta iota. replace (smode_on "no" Q0) with false by (vm_compute; reflexivity). reflexivity.
Qed.

Lemma post_duplicate : forall s x o, zlookup (sm_id x) (st_objs s) = Some o ->
  handle s (post_sm x) = (s, {| status := 409; rtype := AccJson; location := None; pay := PResult "Conflict" |}).
Proof.
  intros s x o L. unfold handle, post_sm. cbn [r_accept rq r_rule r_meth]. route.
  unfold convert_args, conv_id, need_path, bind. cbn [r_aas r_sm r_cd r_qt r_path rq].
  cbn [handler endpoint_name]. unfold bind. body "post_submodel".
  unfold store_add. cbn [obj_id]. rewrite L. reflexivity.
Qed.

Theorem created_then_readable : forall s x, zlookup (sm_id x) (st_objs s) = None ->
  let '(s1, r1) := handle s (post_sm x) in
  status r1 = 201 /\ location r1 = Some (LSm (sm_id x)) /\
  handle s1 (get_sm_rq (sm_id x)) = (s1, {| status := 200; rtype := AccJson; location := None; pay := PVal (VSm x) |}).
Proof.
  intros s x L. rewrite (post_new s x L). split; [reflexivity|split; [reflexivity|]].
  apply get_existing. cbn [st_objs]. now apply zlookup_app_new.
Qed.

Lemma delete_existing : forall s i x, zlookup i (st_objs s) = Some (OSm x) -> sm_id x = i ->
  handle s (del_sm i) =
    ({| st_objs := zremove i (st_objs s); st_files := st_files s; st_backed := st_backed s |},
     {| status := 204; rtype := AccJson; location := None; pay := PEmpty |}).
Proof.
  intros s i x L I. unfold handle, del_sm. cbn [r_accept rq r_rule r_meth]. route.
  unfold convert_args, conv_id, need_path, bind. cbn [r_aas r_sm r_cd r_qt r_path rq].
  cbn [handler endpoint_name]. unfold bind, get_sm, the_id. cbn [r_sm rq]. rewrite L.
  unfold store_remove. cbn [obj_id]. rewrite I, Z.eqb_refl. unfold guard, ok, respond. cbn [r_accept rq].
  replace (resp_spec "delete_submodel" 0) with (204, false, "no", false) by (vm_compute; reflexivity).
  reflexivity.
Qed.

Theorem deleted_then_gone : forall s i x, NoDup (map fst (st_objs s)) ->
  zlookup i (st_objs s) = Some (OSm x) -> sm_id x = i ->
  let '(s1, r1) := handle s (del_sm i) in
  status r1 = 204 /\ status (snd (handle s1 (get_sm_rq i))) = 404 /\ fst (handle s1 (get_sm_rq i)) = s1.
Proof.
  intros s i x ND L I. rewrite (delete_existing s i x L I). split; [reflexivity|].
  rewrite get_unknown; [split; reflexivity|]. cbn [st_objs]. intros y. rewrite zlookup_remove_same by assumption. discriminate.
Qed.

(* PUT /submodels/{id}: the sent document is merged into the stored one (update_from) ... *)
Definition merged (x x' : submodel) : submodel :=
  {| sm_id := sm_id x'; sm_ids := sm_ids x'; sm_tok := sm_tok x';
     sm_quals := merge_quals (sm_quals x) (sm_quals x'); sm_ch := update_children (sm_ch x) (sm_ch x') |}.
Ltac put_sm_prefix L :=
  unfold handle, put_sm; cbn [r_accept rq r_rule r_meth]; route;
  unfold convert_args, conv_id, need_path, bind; cbn [r_aas r_sm r_cd r_qt r_path rq];
  cbn [handler endpoint_name]; unfold bind, get_sm, the_id; cbn [r_sm rq]; rewrite L;
  body "put_submodel"; unfold put_identifiable;
  replace (mem_s "self._update_identifiable" (calls_of "put_submodel")) with true by (vm_compute; reflexivity);
  cbv beta iota zeta; unfold update_identifiable; cbn [obj_id sm_id].
Ltac put_sm_suffix :=
  unfold ok, respond, persist, self_persisting; cbn [r_accept rq];
  replace (commits "put_submodel") with true by (vm_compute; reflexivity); rewrite andb_false_r;
  replace (resp_spec "put_submodel" 0) with (204, false, "no", false) by (vm_compute; reflexivity);
  reflexivity.
(* ... in place when the document carries the id of the stored object (in-memory and local-file stores alike) *)
Lemma put_existing : forall s i x x', zlookup i (st_objs s) = Some (OSm x) -> sm_id x' = sm_id x ->
  handle s (put_sm i x') =
    (store_set s i (OSm (merged x x')), {| status := 204; rtype := AccJson; location := None; pay := PEmpty |}).
Proof.
  intros s i x x' L I. put_sm_prefix L.
  replace (sm_id x' =? sm_id x) with true by (symmetry; apply Z.eqb_eq; exact I). unfold bind. put_sm_suffix.
Qed.
Theorem replaced_then_read : forall s i x x', zlookup i (st_objs s) = Some (OSm x) -> sm_id x' = sm_id x ->
  let '(s1, r1) := handle s (put_sm i x') in
  status r1 = 204 /\
  pay (snd (handle s1 (get_sm_rq i))) = PVal (VSm (merged x x')).
Proof.
  intros s i x x' L I. rewrite (put_existing s i x x' L I). split; [reflexivity|].
  erewrite get_existing; [reflexivity|]. unfold store_set. cbn [st_objs]. apply zlookup_replace_same. congruence.
Qed.
(* ... and filed anew when the document carries another id that no stored object has: the object leaves its old key and
   is added under the new id (at the end of the listing) *)
Lemma put_rekeys : forall s i x x', zlookup i (st_objs s) = Some (OSm x) -> sm_id x = i ->
  sm_id x' <> i -> zlookup (sm_id x') (st_objs s) = None ->
  handle s (put_sm i x') =
    ({| st_objs := zremove i (st_objs s) ++ [(sm_id x', OSm (merged x x'))]; st_files := st_files s; st_backed := st_backed s |},
     {| status := 204; rtype := AccJson; location := None; pay := PEmpty |}).
Proof.
  intros s i x x' L I N F. put_sm_prefix L. rewrite I.
  destruct (Z.eqb_spec (sm_id x') i) as [E|_]; [congruence|].
  rewrite F. unfold bind, U_discards, U_readds, store_discard, store_add. cbn [obj_id sm_id st_objs].
  rewrite I, Z.eqb_refl. cbn [st_objs]. rewrite (zlookup_zremove_none _ _ _ F). put_sm_suffix.
Qed.
Theorem rekeyed_then_read : forall s i x x', NoDup (map fst (st_objs s)) ->
  zlookup i (st_objs s) = Some (OSm x) -> sm_id x = i ->
  sm_id x' <> i -> zlookup (sm_id x') (st_objs s) = None ->
  let '(s1, r1) := handle s (put_sm i x') in
  status r1 = 204 /\
  handle s1 (get_sm_rq i) = (s1, {| status := 404; rtype := AccJson; location := None; pay := PResult "NotFound" |}) /\
  handle s1 (get_sm_rq (sm_id x')) = (s1, {| status := 200; rtype := AccJson; location := None; pay := PVal (VSm (merged x x')) |}) /\
  (forall j, j <> i -> j <> sm_id x' -> zlookup j (st_objs s1) = zlookup j (st_objs s)).
Proof.
  intros s i x x' ND L I N F. rewrite (put_rekeys s i x x' L I N F). split; [reflexivity|]. split; [|split].
  - apply get_unknown. cbn [st_objs]. intros y. rewrite zlookup_app_other by congruence.
    rewrite zlookup_remove_same by assumption. discriminate.
  - apply get_existing. cbn [st_objs]. apply zlookup_app_new. now apply zlookup_zremove_none.
  - intros j J1 J2. cbn [st_objs]. rewrite zlookup_app_other by assumption. now apply zlookup_zremove_other.
Qed.
(* ... and refused (409, nothing changed) when the other id belongs to a stored object *)
Theorem rekey_conflict : forall s i x x' o, zlookup i (st_objs s) = Some (OSm x) -> sm_id x = i ->
  sm_id x' <> i -> zlookup (sm_id x') (st_objs s) = Some o ->
  handle s (put_sm i x') = (s, {| status := 409; rtype := AccJson; location := None; pay := PResult "Conflict" |}).
Proof.
  intros s i x x' o L I N F. put_sm_prefix L. rewrite I.
  destruct (Z.eqb_spec (sm_id x') i) as [E|_]; [congruence|].
  rewrite F. reflexivity.
Qed.
Lemma merge_quals_nil : forall q, merge_quals [] q = q.
Proof. intros q. unfold merge_quals. simpl. induction q as [|a q IH]; simpl; [reflexivity|now rewrite IH]. Qed.

(* every mutating handler commits (checked on the generated call table): on a backed store the change
   is what the next request reads *)
Definition mutators : list string :=
  ["post_aas"; "put_aas"; "put_aas_asset_information"; "post_aas_submodel_refs"; "delete_aas_submodel_refs_specific";
   "put_aas_submodel_refs_submodel"; "delete_aas_submodel_refs_submodel"; "post_submodel"; "put_submodel";
   "post_submodel_submodel_elements_id_short_path"; "put_submodel_submodel_elements_id_short_path";
   "delete_submodel_submodel_elements_id_short_path"; "put_submodel_submodel_element_attachment";
   "delete_submodel_submodel_element_attachment"; "post_submodel_submodel_element_qualifiers";
   "put_submodel_submodel_element_qualifiers"; "delete_submodel_submodel_element_qualifiers";
   "post_concept_description"; "put_concept_description"].
Lemma mutators_commit : forallb commits mutators = true.
Proof. vm_compute. reflexivity. Qed.
Lemma persist_committed : forall fn s s', In fn mutators -> persist fn s s' = s'.
Proof.
  intros fn s s' I. unfold persist.
  assert (C : commits fn = true) by (apply (proj1 (forallb_forall _ _) mutators_commit); exact I).
  rewrite C. now rewrite andb_false_r.
Qed.

(* ---------------- the invariant "filed under its own id" *)
Lemma in_zreplace : forall {B} k (v : B) l k' v', In (k', v') (zreplace k v l) -> In (k', v') l \/ (k' = k /\ v' = v).
Proof.
  induction l as [|[k2 v2] l IH]; simpl; intros k' v' H; [tauto|].
  destruct (k =? k2) eqn:E.
  - destruct H as [H|H]; [inversion H; subst; tauto | tauto].
  - destruct H as [H|H]; [tauto | destruct (IH _ _ H); tauto].
Qed.
Lemma in_zremove : forall {B} k (l : list (Z * B)) x, In x (zremove k l) -> In x l.
Proof.
  induction l as [|[k2 v2] l IH]; simpl; intros x H; [tauto|].
  destruct (k =? k2); [tauto | destruct H; [tauto | right; now apply IH]].
Qed.
Lemma own_set : forall s k o, own_ids s -> obj_id o = k -> own_ids (store_set s k o).
Proof.
  intros s k o W I k' o' H. unfold store_set in H. cbn [st_objs] in H.
  destruct (in_zreplace _ _ _ _ _ H) as [H1|[-> ->]]; [now apply W | assumption].
Qed.
Lemma own_add : forall s o s', own_ids s -> store_add s o = Ok s' -> own_ids s'.
Proof.
  intros s o s' W H. unfold store_add in H. destruct (zlookup (obj_id o) (st_objs s)); [discriminate|].
  inversion H; subst. intros k o' I. cbn [st_objs] in I. apply in_app_or in I. destruct I as [I|[I|[]]]; [now apply W|].
  now inversion I.
Qed.
Lemma own_remove : forall s k o s', own_ids s -> store_remove s k o = Ok s' -> own_ids s'.
Proof.
  intros s k o s' W H. unfold store_remove in H. destruct (obj_id o =? k); [|discriminate].
  inversion H; subst. intros k' o' I. cbn [st_objs] in I. apply W. eapply in_zremove. exact I.
Qed.
Lemma own_files : forall s f, own_ids s -> own_ids (set_files s f).
Proof. intros s f W k o H. now apply W. Qed.
Lemma own_sm_id : forall s k x, own_ids s -> get_sm s k = Ok x -> sm_id x = k.
Proof. intros s k x W H. apply get_sm_ok in H. apply zlookup_in in H. exact (W _ _ H). Qed.
Lemma own_sh_id : forall s k x, own_ids s -> get_shell s k = Ok x -> sh_id x = k.
Proof. intros s k x W H. apply get_shell_ok in H. apply zlookup_in in H. exact (W _ _ H). Qed.
Lemma own_cd_id : forall s k x, own_ids s -> get_cd s k = Ok x -> cd_id x = k.
Proof. intros s k x W H. apply get_cd_ok in H. apply zlookup_in in H. exact (W _ _ H). Qed.
Lemma own_sm_or_nested : forall s r x e, own_ids s -> sm_or_nested s r = Ok (x, e) -> sm_id x = the_id (r_sm r).
Proof.
  intros s r x e W H. unfold sm_or_nested, bind in H. destruct (get_sm s (the_id (r_sm r))) eqn:G; [|discriminate].
  apply (own_sm_id _ _ _ W) in G. unfold guard in H.
  destruct (get_nested a (the_path r)); simpl in H;
    repeat (match type of H with context [match ?x with _ => _ end] => destruct x end);
    try discriminate; inversion H; subst; assumption.
Qed.

(* _update_identifiable keeps every object under its own id: in place if the id stays, filed anew if it changes *)
Lemma own_update_identifiable : forall s k o o' s', own_ids s -> zlookup k (st_objs s) = Some o ->
  update_identifiable s k o o' = Ok s' -> own_ids s'.
Proof.
  intros s k o o' s' W L H. unfold update_identifiable, bind, U_conflict, U_discards, U_readds, http in H.
  destruct (obj_id o' =? obj_id o) eqn:E.
  - inversion H; subst. apply own_set; [exact W|]. apply Z.eqb_eq in E. rewrite E. apply Z.eqb_eq.
    eapply own_lookup; eassumption.
  - destruct (zlookup (obj_id o') (st_objs s)); [discriminate|].
    eapply own_add; [|exact H]. unfold store_discard. destruct (obj_id o =? k); [|exact W].
    intros k' o2 I. cbn [st_objs] in I. apply W. eapply in_zremove. exact I.
Qed.
Lemma own_put_identifiable : forall fn s k o o' s', mem_s "self._update_identifiable" (calls_of fn) = true ->
  own_ids s -> zlookup k (st_objs s) = Some o -> put_identifiable fn s k o o' = Ok s' -> own_ids s'.
Proof.
  intros fn s k o o' s' C W L H. unfold put_identifiable in H. rewrite C in H. eapply own_update_identifiable; eassumption.
Qed.
Lemma get_sm_ref_id : forall a i j, get_sm_ref a i = Ok j -> j = i.
Proof. unfold get_sm_ref, http. intros a i j H. destruct (zmem i (sh_refs a)); now inversion H. Qed.

Ltac bm2 :=
  match goal with
  | H : context [match ?x with _ => _ end] |- _ =>
      lazymatch x with
      | context [match _ with _ => _ end] => fail
      | _ => destruct x eqn:?
      end
  end.
Ltac ownstep W :=
  match goal with
  | |- own_ids (set_files _ _) => apply own_files
  | |- own_ids (store_set _ _ _) => apply own_set; [ | cbn [obj_id sm_id sh_id cd_id shell_with_refs] ]
  | |- own_ids (put_sm_back _ _ _ _) => unfold put_sm_back
  | |- own_ids (edit_sm _ _ _ _ _) => unfold edit_sm, put_sm_back
  | |- own_ids (set_quals_at _ _ _ _ _) => unfold set_quals_at, set_sm_quals, edit_sm, put_sm_back
  | |- own_ids (if ?b then _ else _) => destruct b
  | |- own_ids (match ?p with [] => _ | _ :: _ => _ end) => destruct p
  | |- own_ids ?s => first [exact W | eapply own_add; [exact W | eassumption] | eapply own_remove; [exact W | eassumption]
                           | eapply own_remove; [ | eassumption]
                           | eapply own_put_identifiable; [ | exact W | | eassumption];
                             [vm_compute; reflexivity
                             | first [apply get_shell_ok; eassumption | apply get_sm_ok; eassumption
                                     | apply get_cd_ok; eassumption | apply resolve_sm_ok; eassumption]]]
  | |- _ = _ => first [ reflexivity | eapply own_sm_id; eassumption | eapply own_sh_id; eassumption
                      | eapply own_cd_id; eassumption | eapply own_sm_or_nested; eassumption ]
  end.

Lemma own_ids_handler : forall ep s r s' resp, own_ids s -> handler ep s r = Ok (s', resp) -> own_ids s'.
Proof.
  intros ep s r s' resp W H.
  destruct ep; cbn [handler endpoint_name] in H; unfold bind, ok, http, guard in H.
  all: repeat (bm2; try discriminate).
  all: try (match goal with E : send_file _ _ _ _ = Ok _ |- _ =>
              apply send_file_ok in E; destruct E as [_ E]; subst; exact W end).
  all: try (inversion H; subst; clear H).
  all: try exact W.
  all: repeat (ownstep W).
Qed.

Theorem own_ids_step : forall s r, own_ids s -> own_ids (fst (handle s r)).
Proof.
  intros s r W. unfold handle.
  destruct (r_accept r); try exact W.
  all: destruct (r_badhost r); [destruct (catch H_bind (EHttp "BadHost")); exact W|].
  all: destruct (find_route routes (r_rule r) (r_meth r) false) eqn:F; try exact W.
  all: unfold bind; destruct (convert_args r); try exact W.
  all: destruct (handler e s r) as [[s' resp]|x] eqn:H; try exact W.
  all: cbv beta iota; cbn [fst].
  all: pose proof (own_ids_handler _ _ _ _ _ W H) as W'.
  all: destruct (self_persisting e); [exact W'|].
  all: unfold persist; destruct (st_backed s && negb (commits (endpoint_name e))); [now apply own_files | exact W'].
Qed.
Theorem own_ids_history : forall rs s, own_ids s -> own_ids (run s rs).
Proof.
  induction rs as [|r rs IH]; intros s W; [exact W|]. simpl. apply IH. now apply own_ids_step.
Qed.
Lemma own_ids_empty : forall b, own_ids (empty b).
Proof. intros b k o []. Qed.


Theorem own_ids_reachable : forall rs b k o, In (k, o) (st_objs (run (empty b) rs)) -> obj_id o = k.
Proof. intros rs b. exact (own_ids_history rs (empty b) (own_ids_empty b)). Qed.

(* C11: no request on a store reached by any history is answered with a 5xx (501 on the unimplemented routes) *)
Theorem no_5xx_full : forall rs b r, req_ok r ->
  status (snd (handle (run (empty b) rs) r)) < 500 \/
  (status (snd (handle (run (empty b) rs) r)) = 501 /\ unimplemented (r_rule r) (r_meth r) = true).
Proof. intros rs b r RO. apply no_5xx_partial; [exact (own_ids_history rs (empty b) (own_ids_empty b)) | exact RO]. Qed.

(* a store with two submodels: PUT of the first one with a free id re-keys it, with the id of the second one is refused *)
Definition rekey_state : state :=
  {| st_objs := [(1, OSm example_sm); (5, OSm (filter_sm 5 8))]; st_files := Files.init; st_backed := true |}.
Lemma rekey_example :
  (NoDup (map fst (st_objs rekey_state)) /\ zlookup 1 (st_objs rekey_state) = Some (OSm example_sm) /\
   zlookup 2 (st_objs rekey_state) = None /\ zlookup 5 (st_objs rekey_state) <> None) /\
  map fst (st_objs (fst (handle rekey_state (put_sm 1 (filter_sm 2 8))))) = [5; 2] /\
  handle rekey_state (put_sm 1 (filter_sm 5 8)) =
    (rekey_state, {| status := 409; rtype := AccJson; location := None; pay := PResult "Conflict" |}).
Proof.
  split; [split; [|split; [|split]]|split].
  - repeat constructor; simpl; intuition discriminate.
  - reflexivity.
  - reflexivity.
  - discriminate.
  - vm_compute. reflexivity.
  - vm_compute. reflexivity.
Qed.

Lemma example_history :
  let rs := [post_sm example_sm; put_sm 1 example_sm; get_sm_rq 1; del_sm 1; get_sm_rq 1] in
  st_objs (run (empty true) rs) = [] /\
  map (fun r => status (snd (handle (run (empty true) [post_sm example_sm]) r))) rs = [409; 204; 200; 204; 200].
Proof. split; vm_compute; reflexivity. Qed.
