(* C01: the clock behind generated idShorts of SubmodelElementList items - the counter abstraction of
   model/Namespace.v ([KGen (gen s)]) is exact for every sequence of clock readings. *)
From Coq Require Import List Arith Lia Sorted.
Import ListNotations.

(* ---- the clock behind generated idShorts (submodel.py _generate_id_short: uuid.uuid1(clock_seq=counter)) ----
   Lib/uuid.py uuid1 with a clock_seq: timestamp := time_ns() // 100 + const; if _last_timestamp is not None and
   timestamp <= _last_timestamp then timestamp := _last_timestamp + 1; _last_timestamp := timestamp.
   [clock] = the successive readings, arbitrary (not even monotone). *)
Definition uuid_next (last : option nat) (now : nat) : nat :=
  match last with
  | Some l => if now <=? l then S l else now
  | None => now
  end.

Fixpoint uuid_stamps (last : option nat) (clock : list nat) : list nat :=
  match clock with
  | [] => []
  | now :: t => let ts := uuid_next last now in ts :: uuid_stamps (Some ts) t
  end.

Lemma uuid_stamps_above : forall clock l, Forall (fun x => l < x) (uuid_stamps (Some l) clock).
Proof.
  induction clock as [|now t IH]; intro l; simpl; [constructor|].
  assert (H : l < uuid_next (Some l) now).
  { unfold uuid_next. destruct (Nat.leb now l) eqn:E; [apply Nat.lt_succ_diag_r | apply Nat.leb_gt in E; exact E]. }
  constructor; [exact H|].
  eapply Forall_impl; [|apply IH]. intros a Ha. exact (Nat.lt_trans _ _ _ H Ha).
Qed.

Lemma uuid_stamps_sorted : forall clock last, StronglySorted lt (uuid_stamps last clock).
Proof.
  induction clock as [|now t IH]; intro last; simpl; constructor.
  - apply IH.
  - apply uuid_stamps_above.
Qed.

Lemma sorted_lt_nodup : forall l, StronglySorted lt l -> NoDup l.
Proof.
  induction 1 as [|a l S IH F]; constructor; [|exact IH].
  intro I. rewrite Forall_forall in F. specialize (F a I). lia.
Qed.

Lemma uuid_stamps_length : forall clock last, length (uuid_stamps last clock) = length clock.
Proof. induction clock; intro; simpl; [reflexivity | f_equal; apply IHclock]. Qed.

(* the counter abstraction of model/Namespace.v ([KGen (gen s)], gen incremented) is exact for every clock: the i-th
   and the j-th generated stamp of a process are equal only if i = j *)
Lemma uuid_stamps_injective : forall clock i j, i < length clock -> j < length clock ->
  nth i (uuid_stamps None clock) 0 = nth j (uuid_stamps None clock) 0 -> i = j.
Proof.
  intros clock i j Hi Hj E.
  pose proof (sorted_lt_nodup _ (uuid_stamps_sorted clock None)) as N.
  rewrite (NoDup_nth _ 0) in N. apply N; [rewrite uuid_stamps_length; exact Hi | rewrite uuid_stamps_length; exact Hj | exact E].
Qed.

(* satisfiable and non-trivial: a clock that stands still, then steps back *)
Example uuid_stamps_example : uuid_stamps None [7; 7; 7; 3; 9] = [7; 8; 9; 10; 11].
Proof. reflexivity. Qed.
