(* C09 - the finite part: escape tables of the *generated* reader functions (gen/Gen_ReaderFlow.v,
   rebuilt from the SDK's working tree on every run), computed by iteration, checked to be
   post-fixpoints by vm_compute and lifted to every execution by proofs/ReaderFlowProofs.v. *)
From Coq Require Import List Bool NArith Arith.
From Basyx Require Import model.ReaderFlow proofs.ReaderFlowProofs gen.Gen_ReaderFlow.
Import ListNotations.

(* the tables are computed once (30 rounds of the analysis from the empty table); that they are post-fixpoints
   is checked below, so the number of rounds is not trusted *)
Definition rounds : nat := 30.
Definition T_doc_fs : list (list exn) := Eval vm_compute in table rounds funs scn_document true.
Definition T_doc_st : list (list exn) := Eval vm_compute in table rounds funs scn_document false.
Definition T_bytes_fs : list (list exn) := Eval vm_compute in table rounds funs scn_bytes true.
Definition T_bytes_st : list (list exn) := Eval vm_compute in table rounds funs scn_bytes false.
Definition T_conf_fs : list (list exn) := Eval vm_compute in table rounds funs scn_conflict true.

Lemma postfix_document_failsafe : postfix funs scn_document true T_doc_fs = true.
Proof. vm_compute. reflexivity. Qed.
Lemma postfix_document_strict : postfix funs scn_document false T_doc_st = true.
Proof. vm_compute. reflexivity. Qed.
Lemma postfix_bytes_failsafe : postfix funs scn_bytes true T_bytes_fs = true.
Proof. vm_compute. reflexivity. Qed.
Lemma postfix_bytes_strict : postfix funs scn_bytes false T_bytes_st = true.
Proof. vm_compute. reflexivity. Qed.
Lemma postfix_conflict_failsafe : postfix funs scn_conflict true T_conf_fs = true.
Proof. vm_compute. reflexivity. Qed.

Definition entries : list nat :=
  [entry_json_read_aas_json_file; entry_json_read_aas_json_file_into; entry_json_object_hook;
   entry_xml_read_aas_xml_file; entry_xml_read_aas_xml_file_into; entry_xml_read_aas_xml_element].
Definition json_entries : list nat :=
  [entry_json_read_aas_json_file; entry_json_read_aas_json_file_into; entry_json_object_hook].
Definition xml_entries : list nat :=
  [entry_xml_read_aas_xml_file; entry_xml_read_aas_xml_file_into; entry_xml_read_aas_xml_element].

(* failsafe, well-formed document, no identifier conflict with the target store: nothing escapes *)
Lemma failsafe_rows_empty : forallb (fun f => match nth f T_doc_fs [OtherError] with [] => true | _ => false end) entries = true.
Proof. vm_compute. reflexivity. Qed.

Lemma failsafe_total : forall f, In f entries ->
  forall o, exec funs scn_document true None (SCall f) o -> o = ONormal.
Proof.
  intros f Hf o H.
  pose proof failsafe_rows_empty as R. rewrite forallb_forall in R. specialize (R f Hf).
  apply (total_if_empty funs scn_document true T_doc_fs postfix_document_failsafe f); [|exact H].
  destruct (nth f T_doc_fs [OtherError]) eqn:E; [|discriminate R].
  (* nth with another default: f is within the table, so the default does not matter *)
  assert (Hlen : f < length T_doc_fs).
  { destruct (Nat.lt_ge_cases f (length T_doc_fs)) as [L|G]; [exact L|].
    rewrite (nth_overflow _ _ G) in E. discriminate E. }
  rewrite (nth_indep _ [] [OtherError] Hlen). exact E.
Qed.

(* strict, well-formed document: only the four documented classes (or subclasses) escape *)
Lemma strict_rows_documented : forallb (fun f => forallb documented (nth f T_doc_st [])) entries = true.
Proof. vm_compute. reflexivity. Qed.

Lemma strict_documented : forall f, In f entries ->
  forall e, exec funs scn_document false None (SCall f) (OExc e) -> documented e = true.
Proof.
  intros f Hf e H.
  pose proof strict_rows_documented as R. rewrite forallb_forall in R.
  exact (only_classes funs scn_document false T_doc_st postfix_document_strict f documented (R f Hf) e H).
Qed.

(* arbitrary bytes (possibly not well-formed) *)
Definition json_syntax_error (e : exn) : bool := mem e [JSONDecodeError; UnicodeDecodeError].
Lemma bytes_json_failsafe_rows : forallb (fun f => forallb json_syntax_error (nth f T_bytes_fs [])) json_entries = true.
Proof. vm_compute. reflexivity. Qed.
Lemma bytes_json_failsafe : forall f, In f json_entries ->
  forall e, exec funs scn_bytes true None (SCall f) (OExc e) -> json_syntax_error e = true.
Proof.
  intros f Hf e H. pose proof bytes_json_failsafe_rows as R. rewrite forallb_forall in R.
  exact (only_classes funs scn_bytes true T_bytes_fs postfix_bytes_failsafe f _ (R f Hf) e H).
Qed.

Lemma bytes_xml_failsafe_rows : forallb (fun f => match nth f T_bytes_fs [OtherError] with [] => true | _ => false end) xml_entries = true.
Proof. vm_compute. reflexivity. Qed.
Lemma bytes_xml_failsafe : forall f, In f xml_entries ->
  forall o, exec funs scn_bytes true None (SCall f) o -> o = ONormal.
Proof.
  intros f Hf o H.
  pose proof bytes_xml_failsafe_rows as R. rewrite forallb_forall in R. specialize (R f Hf).
  apply (total_if_empty funs scn_bytes true T_bytes_fs postfix_bytes_failsafe f); [|exact H].
  destruct (nth f T_bytes_fs [OtherError]) eqn:E; [|discriminate R].
  assert (Hlen : f < length T_bytes_fs).
  { destruct (Nat.lt_ge_cases f (length T_bytes_fs)) as [L|G]; [exact L|].
    rewrite (nth_overflow _ _ G) in E. discriminate E. }
  rewrite (nth_indep _ [] [OtherError] Hlen). exact E.
Qed.

Definition documented_or_syntax (e : exn) : bool := documented e || mem e [XMLSyntaxError].
Lemma bytes_strict_rows : forallb (fun f => forallb documented_or_syntax (nth f T_bytes_st [])) entries = true.
Proof. vm_compute. reflexivity. Qed.
Lemma bytes_strict : forall f, In f entries ->
  forall e, exec funs scn_bytes false None (SCall f) (OExc e) -> documented_or_syntax e = true.
Proof.
  intros f Hf e H. pose proof bytes_strict_rows as R. rewrite forallb_forall in R.
  exact (only_classes funs scn_bytes false T_bytes_st postfix_bytes_strict f _ (R f Hf) e H).
Qed.

(* identifier already in the target store and neither replace_existing nor ignore_existing: the documented KeyError *)
Lemma conflict_rows : forallb (fun f => forallb (fun e => mem e [KeyError]) (nth f T_conf_fs [])) entries = true.
Proof. vm_compute. reflexivity. Qed.
Lemma conflict_failsafe : forall f, In f entries ->
  forall e, exec funs scn_conflict true None (SCall f) (OExc e) -> e = KeyError.
Proof.
  intros f Hf e H. pose proof conflict_rows as R. rewrite forallb_forall in R.
  pose proof (only_classes funs scn_conflict true T_conf_fs postfix_conflict_failsafe f _ (R f Hf) e H) as M.
  apply mem_In in M. destruct M as [M|[]]. symmetry; exact M.
Qed.

(* non-vacuity of the tables: strict mode does raise each of the documented classes somewhere, and the
   conflict scenario does raise KeyError in failsafe mode *)
Lemma strict_rows_nonempty :
  map (fun e => existsb (fun f => mem e (nth f T_doc_st [])) entries) [KeyError; TypeError; ValueError]
  = [true; true; true].
Proof. vm_compute. reflexivity. Qed.
Lemma conflict_row_nonempty : mem KeyError (nth entry_json_read_aas_json_file_into T_conf_fs []) = true.
Proof. vm_compute. reflexivity. Qed.

(* ---- used by the correspondence run of tools/c09.py: an exception of class e was seen leaving a reader function
   whose instances are [ids], in scenario/mode table number t (0 document/failsafe, 1 document/strict,
   2 bytes/failsafe, 3 bytes/strict) *)
Definition table_no (t : nat) : list (list exn) :=
  match t with 0 => T_doc_fs | 1 => T_doc_st | 2 => T_bytes_fs | _ => T_bytes_st end%nat.
Definition check_unwind (c : exn * nat * list nat) : bool :=
  let '(e, t, ids) := c in unwind_ok e (map (fun i => nth i (table_no t) []) ids).
Definition check_origin (c : exn * list (list exn)) : bool := origin_ok (fst c) (snd c).
Definition check_sub (c : exn * exn * bool) : bool := let '(a, b, x) := c in Bool.eqb (exn_sub a b) x.
