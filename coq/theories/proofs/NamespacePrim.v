(* Summaries of the primitives of model/Namespace.v that touch a dict: NamespaceSet.add,
   NamespaceSet.remove, NamespaceSet.pop, clear, and the set constructor. *)
From Coq Require Import List ZArith Bool String Ascii Arith Lia.
From Basyx Require Import model.Namespace proofs.NamespaceProofs.
Import ListNotations.
Local Open Scope nat_scope.

Lemma nodup_app : forall {A} (l l' : list A), NoDup l -> NoDup l' -> (forall x, In x l -> ~ In x l') ->
  NoDup (l ++ l').
Proof.
  induction l as [|a r IH]; simpl; intros l' N N' H; auto.
  inversion N; subst. constructor.
  - rewrite in_app_iff. intros [X|X]; [contradiction|]. apply (H a); auto.
  - apply IH; auto.
Qed.
Lemma nodup_app_inv : forall {A} (l l' : list A), NoDup (l ++ l') ->
  NoDup l /\ NoDup l' /\ (forall x, In x l -> ~ In x l').
Proof.
  induction l as [|a r IH]; simpl; intros l' N.
  - repeat split; auto. constructor.
  - inversion N; subst. destruct (IH l' H2) as [X1 [X2 X3]]. repeat split; auto.
    + constructor; auto. intro X. apply H1. apply in_app_iff. auto.
    + intros x [E|E] X.
      * subst. apply H1. apply in_app_iff. auto.
      * apply (X3 x E X).
Qed.

Lemma elems_upd_same : forall s e f, elems (upd_elem s e f) e = f (elems s e).
Proof. intros. unfold upd_elem. simpl. rewrite Nat.eqb_refl. reflexivity. Qed.
Lemma elems_upd_other : forall s e f x, x <> e -> elems (upd_elem s e f) x = elems s x.
Proof. intros. unfold upd_elem. simpl. apply Nat.eqb_neq in H. rewrite H. reflexivity. Qed.
Lemma sets_upd_elem : forall s e f, sets (upd_elem s e f) = sets s.
Proof. reflexivity. Qed.
Lemma gen_upd_elem : forall s e f, gen (upd_elem s e f) = gen s.
Proof. reflexivity. Qed.

Section WithCfg.
Variable c : cfg.

Lemma add_final : forall s s4 i st e k,
  BInv c s -> nth_error (sets s) i = Some st -> sets s4 = sets s -> gen s <= gen s4 ->
  e_parent (elems s e) = None ->
  e_key (elems s4 e) = Some k -> e_parent (elems s4 e) = Some (s_owner st) ->
  (forall x, x <> e -> elems s4 x = elems s x) ->
  (forall j stj, nth_error (sets s) j = Some stj -> s_owner stj = s_owner st ->
                 ~ In (norm c k) (map fst (s_backend stj))) ->
  (forall n, k = KGen n -> n < gen s4) ->
  let s' := upd_set s4 i (fun st' => with_backend (dset (norm c k) e (s_backend st')) st') in
  BInv c s' /\ same_shells s s' /\ (forall j x, mem s' j x <-> mem s j x \/ (j = i /\ x = e)).
Proof.
  intros s s4 i st e k B N S4 G PF K4 P4 E4 FR KG s'.
  assert (N4 : nth_error (sets s4) i = Some st) by (rewrite S4; exact N).
  destruct (upd_set_lookup s4 i (fun st' => with_backend (dset (norm c k) e (s_backend st')) st') st N4) as [L1 L2].
  fold s' in L1, L2.
  assert (FR0 := FR i st N eq_refl).
  assert (DS : dset (norm c k) e (s_backend st) = s_backend st ++ [(norm c k, e)]).
  { apply dset_fresh. apply dget_none. exact FR0. }
  rewrite DS in L1.
  set (st' := with_backend (s_backend st ++ [(norm c k, e)]) st) in *.
  assert (L2' : forall j, j <> i -> nth_error (sets s') j = nth_error (sets s) j).
  { intros j D. rewrite L2 by assumption. rewrite S4. reflexivity. }
  split; [|split].
  - apply (BInv_insert c s s' i st st' e k); auto.
    + intros k' x. unfold st'. simpl. rewrite in_app_iff. simpl. split.
      * intros [H|[H|[]]]; auto. inversion H. auto.
      * intros [H|[H1 H2]]; auto. subst. auto.
    + unfold st'. simpl. rewrite map_app. simpl. apply nodup_app.
      * apply (b_nodup c s B i st N).
      * constructor; auto. constructor.
      * intros x H [A|[]]. subst. contradiction.
  - apply (replace_shells s s' i st st'); auto.
  - intros j x.
    rewrite (replace_mem s s' i st st' (fun x => In x (values st) \/ x = e) N L1 L2').
    + unfold mem. split.
      * intros [[D H]|[D [H|H]]]; auto. subst. left. exists st. auto.
      * intros [[a [Na H]]|[D H]].
        -- destruct (Nat.eq_dec j i) as [->|D]; [|left; split; auto; exists a; auto].
           right. split; auto. left. congruence.
        -- right. auto.
    + intro y. unfold st', values. simpl. rewrite map_app, in_app_iff. simpl. intuition.
Qed.

Lemma check_constraints_ok_or_err : forall lc el l,
  check_constraints lc el l = Ok \/ exists x, check_constraints lc el l = Err x /\ x <> EInternal.
Proof.
  intros. destruct (check_constraints lc el l) as [|v|x] eqn:CC; auto.
  - exfalso. unfold check_constraints in CC.
    repeat match type of CC with (if ?b then _ else _) = _ => destruct b; try discriminate end.
    destruct (e_sem el); try discriminate. destruct (l_sem lc); try discriminate.
    induction l as [|a r IH]; simpl in CC; try discriminate.
    destruct (e_sem a); auto. destruct (Nat.eqb n n0); auto. discriminate.
  - right. exists x. split; auto. eapply check_constraints_not_internal; eauto.
Qed.

Lemma id_set_hook_cases : forall s st e,
  id_set_hook s st e = (s, Err (EAasd 120)) \/
  (id_set_hook s st e = (s, Ok) /\ s_hooks st = None) \/
  (id_set_hook s st e = (set_key (mkstate (sets s) (elems s) (S (gen s))) e (Some (KGen (gen s))), Ok) /\
   s_hooks st <> None /\ e_key (elems s e) = None /\ e_parent (elems s e) = None).
Proof.
  intros. unfold id_set_hook. destruct (s_hooks st); auto.
  destruct (e_key (elems s e)); auto. destruct (e_parent (elems s e)); auto.
  right. right. repeat split; auto. discriminate.
Qed.

Lemma add_hook_cases : forall s st e,
  (add_hook s st e = (s, Ok) /\ s_hooks st = None) \/
  (s_hooks st <> None /\ add_hook s st e = (set_key (set_key s e None) e (e_key (elems s e)), Ok)) \/
  (exists x, s_hooks st <> None /\ add_hook s st e = (del_hook (set_key s e None) st e, Err x) /\ x <> EInternal).
Proof.
  intros. unfold add_hook. destruct (s_hooks st) as [lc|]; auto. right.
  destruct (check_constraints_ok_or_err lc (elems (set_key s e None) e)
              (map (elems (set_key s e None)) (iter_set st))) as [E|[x [E X]]]; cbv zeta; rewrite E.
  - left. split; auto. discriminate.
  - right. exists x. repeat split; auto. discriminate.
Qed.

Lemma elem_eta2 : forall el, mkelem (e_key el) (e_parent el) (e_cls el) (e_vt el) (e_sem el) = el.
Proof. intros [k p a b m]. reflexivity. Qed.

Lemma ns_add_spec : forall s i e s' out, BInv c s -> ns_add c s i e = (s', out) ->
  match out with
  | Err x => pub_eq s s' /\ x <> EInternal
  | _ => BInv c s' /\ same_shells s s' /\
         (forall j x, mem s' j x <-> mem s j x \/ (j = i /\ x = e)) /\
         (forall x, x <> e -> elems s' x = elems s x) /\
         e_parent (elems s e) = None /\ gen s <= gen s' /\
         (exists st, nth_error (sets s) i = Some st /\
                     (s_hooks st = None -> e_key (elems s' e) = e_key (elems s e)) /\
                     (s_hooks st <> None -> e_key (elems s e) = None))
  end.
Proof.
  intros s i e s' out B H. unfold ns_add in H.
  destruct (nth_error (sets s) i) as [st|] eqn:N.
  2:{ inversion H; subst. split; [apply pub_eq_refl|discriminate]. }
  cbv zeta in H.
  destruct (match e_parent (elems s e) with Some p => negb (Nat.eqb p (s_owner st)) | None => false end) eqn:FOR.
  { inversion H; subst. split; [apply pub_eq_refl|discriminate]. }
  (* the element is free: otherwise validate would find its key *)
  assert (PAR : forall k, e_key (elems s e) = Some k ->
            validate_sets c (sets s) (s_owner st) (Some k) = Ok -> e_parent (elems s e) = None).
  { intros k K V. destruct (e_parent (elems s e)) as [p|] eqn:P; auto. exfalso.
    apply negb_false_iff, Nat.eqb_eq in FOR. subst p.
    destruct (b_parent c s B e _ P) as [j [stj [Nj [Oj Hj]]]].
    destruct (mem_entry c s j stj e B Nj Hj) as [r [Kr [Er _]]].
    assert (r = k) by congruence. subst r.
    apply (validate_some c _ _ _ V j stj Nj Oj).
    apply (in_map fst) in Er. exact Er. }
  destruct (id_set_hook_cases s st e) as [C1|[[C1 HK]|[C1 [HK [K0 P0]]]]]; rewrite C1 in H; unfold bind in H.
  - inversion H; subst. split; [apply pub_eq_refl|discriminate].
  - (* plain set *)
    destruct (validate_ok_or_err c (sets s) (s_owner st) (e_key (elems s e))) as [V|[x V]]; rewrite V in H.
    2:{ inversion H; subst. split; [apply pub_eq_refl|]. eapply validate_not_internal; eauto. }
    destruct (add_hook_cases s st e) as [[C2 _]|[[X _]|[x [X _]]]]; try contradiction.
    rewrite C2 in H. unfold add_entry in H. cbv zeta in H.
    set (s4 := set_parent s e (Some (s_owner st))) in *.
    assert (K4 : e_key (elems s4 e) = e_key (elems s e)).
    { unfold s4, set_parent, upd_elem. simpl. rewrite Nat.eqb_refl. reflexivity. }
    rewrite K4 in H.
    destruct (e_key (elems s e)) as [k|] eqn:K.
    2:{ exfalso. apply (validate_none c _ _ V i st N). reflexivity. }
    inversion H; subst s' out.
    assert (PF := PAR k eq_refl V).
    destruct (add_final s s4 i st e k B N) as [A1 [A2 A3]]; auto.
    + unfold s4, set_parent, upd_elem. simpl. rewrite Nat.eqb_refl. reflexivity.
    + intros x D. unfold s4, set_parent, upd_elem. simpl. apply Nat.eqb_neq in D. rewrite D. reflexivity.
    + apply (validate_some c _ _ _ V).
    + intros n E. subst k. unfold s4, set_parent, upd_elem. simpl. apply (b_gen c s B e n K).
    + split; auto. split; auto. split; [apply A3|]. split.
      { intros x D. unfold s4, set_parent, upd_elem. simpl. apply Nat.eqb_neq in D. rewrite D. reflexivity. }
      split; auto. split; [unfold s4, set_parent, upd_elem; simpl; lia|].
      exists st. split; auto. split.
      * intros _. unfold s4, set_parent, upd_elem. simpl. rewrite Nat.eqb_refl. simpl. exact K.
      * intro X. contradiction.
  - (* SubmodelElementList *)
    set (s1 := set_key (mkstate (sets s) (elems s) (S (gen s))) e (Some (KGen (gen s)))) in *.
    assert (K1 : e_key (elems s1 e) = Some (KGen (gen s))).
    { unfold s1, set_key, upd_elem. simpl. rewrite Nat.eqb_refl. reflexivity. }
    rewrite K1 in H.
    assert (FRESH : forall j stj, nth_error (sets s) j = Some stj -> s_owner stj = s_owner st ->
                 ~ In (norm c (KGen (gen s))) (map fst (s_backend stj))).
    { intros j stj Nj _ A. apply in_map_iff in A. destruct A as [[a b] [E A]]. simpl in E. subst a.
      destruct (b_entry c s B j stj _ b Nj A) as [r [Kr [Er _]]].
      symmetry in Er. assert (NG : norm c (KGen (gen s)) = KGen (gen s)) by (unfold norm; destruct (c_cs c); reflexivity).
      rewrite NG in Er. apply norm_gen in Er. subst r. apply (b_gen c s B) in Kr. lia. }
    assert (V : validate_sets c (sets s1) (s_owner st) (Some (KGen (gen s))) = Ok).
    { apply validate_complete. exact FRESH. }
    rewrite V in H.
    destruct (add_hook_cases s1 st e) as [[_ X]|[[_ C2]|[x [_ [C2 X]]]]]; try contradiction; rewrite C2 in H.
    + (* accepted *)
      unfold add_entry in H. cbv zeta in H.
      set (s3 := set_key (set_key s1 e None) e (e_key (elems s1 e))) in *.
      set (s4 := set_parent s3 e (Some (s_owner st))) in *.
      assert (K4 : e_key (elems s4 e) = Some (KGen (gen s))).
      { unfold s4, s3, set_parent, set_key. rewrite !elems_upd_same. simpl. exact K1. }
      rewrite K4 in H. inversion H; subst s' out.
      assert (E4 : forall x, x <> e -> elems s4 x = elems s x).
      { intros x D. unfold s4, s3, s1, set_parent, set_key, upd_elem. simpl.
        apply Nat.eqb_neq in D. rewrite !D. reflexivity. }
      assert (G4 : gen s4 = S (gen s)) by reflexivity.
      destruct (add_final s s4 i st e (KGen (gen s)) B N) as [A1 [A2 A3]]; auto.
      * rewrite G4. lia.
      * unfold s4, set_parent, upd_elem. simpl. rewrite Nat.eqb_refl. reflexivity.
      * intros n E. inversion E; subst. rewrite G4. lia.
      * split; auto. split; auto. split; [apply A3|]. split; auto. split; auto.
        split; [simpl; lia|]. exists st. split; auto. split; auto. intro Y. contradiction.
    + (* rejected by _check_constraints: undone *)
      inversion H; subst s' out. split; auto.
      unfold del_hook. destruct (s_hooks st); [|contradiction].
      split; [reflexivity|]. split.
      * intro y. unfold s1, set_parent, set_key, upd_elem. simpl.
        destruct (Nat.eqb y e) eqn:D; auto. apply Nat.eqb_eq in D. subst y.
        unfold with_parent, with_key. simpl. apply elem_eta; auto.
      * simpl. lia.
Qed.


Lemma sets_del_hook : forall s st e, sets (del_hook s st e) = sets s.
Proof. intros. unfold del_hook. destruct (s_hooks st); reflexivity. Qed.
Lemma gen_del_hook : forall s st e, gen (del_hook s st e) = gen s.
Proof. intros. unfold del_hook. destruct (s_hooks st); reflexivity. Qed.
Lemma elems_del_hook_other : forall s st e x, x <> e -> elems (del_hook s st e) x = elems s x.
Proof.
  intros. unfold del_hook, set_key, set_parent. destruct (s_hooks st); rewrite ?elems_upd_other; auto.
Qed.
Lemma elems_del_hook_same : forall s st e,
  e_parent (elems (del_hook s st e) e) = None /\
  (s_hooks st = None -> e_key (elems (del_hook s st e) e) = e_key (elems s e)) /\
  (s_hooks st <> None -> e_key (elems (del_hook s st e) e) = None) /\
  e_sem (elems (del_hook s st e) e) = e_sem (elems s e).
Proof.
  intros. unfold del_hook, set_key, set_parent. destruct (s_hooks st); rewrite ?elems_upd_same; simpl.
  - repeat split; auto. intro; discriminate.
  - repeat split; auto. intro X; contradiction.
Qed.

Lemma del_final : forall s s' i st e nk b',
  BInv c s -> nth_error (sets s) i = Some st -> In (nk, e) (s_backend st) ->
  nth_error (sets s') i = Some (with_backend b' st) ->
  (forall j, j <> i -> nth_error (sets s') j = nth_error (sets s) j) ->
  (forall k' x, In (k', x) b' <-> In (k', x) (s_backend st) /\ k' <> nk) ->
  NoDup (map fst b') ->
  (forall x, x <> e -> elems s' x = elems s x) ->
  e_parent (elems s' e) = None ->
  (e_key (elems s' e) = e_key (elems s e) \/ e_key (elems s' e) = None) ->
  gen s <= gen s' ->
  BInv c s' /\ same_shells s s' /\ (forall j x, mem s' j x <-> mem s j x /\ ~ (j = i /\ x = e)).
Proof.
  intros s s' i st e nk b' B N IN N' HS HB ND HE PE KE HG.
  assert (KX : forall k' x, In (k', x) (s_backend st) -> (k' <> nk <-> x <> e)).
  { intros k' x A. split; intros X Y; apply X.
    - subst x. destruct (b_entry c s B i st k' e N A) as [r [K1 [E1 _]]].
      destruct (b_entry c s B i st nk e N IN) as [r' [K2 [E2 _]]]. congruence.
    - subst k'. assert (G1 := in_dget _ _ _ (b_nodup c s B i st N) A).
      assert (G2 := in_dget _ _ _ (b_nodup c s B i st N) IN). congruence. }
  assert (HB' : forall k' x, In (k', x) b' <-> In (k', x) (s_backend st) /\ Nat.eqb x e = false).
  { intros k' x. rewrite HB. split; intros [A X]; split; auto.
    - apply Nat.eqb_neq. apply (KX k' x A). exact X.
    - apply (KX k' x A). apply Nat.eqb_neq. exact X. }
  split; [|split].
  - apply (BInv_delete c s s' i st (with_backend b' st) (fun x => Nat.eqb x e)); auto.
    + intros x D _. apply Nat.eqb_eq in D. subst x. auto.
    + intros x X. apply HE. intro; subst x. apply X. split; [apply Nat.eqb_refl|].
      apply in_values. eauto.
  - apply (replace_shells s s' i st (with_backend b' st)); auto.
  - intros j x.
    rewrite (replace_mem s s' i st (with_backend b' st) (fun x => In x (values st) /\ x <> e) N N' HS).
    + unfold mem. split.
      * intros [[D [a [Na H]]]|[D [H X]]].
        -- split; [exists a; auto|]. intros [Y _]. contradiction.
        -- subst j. split; [exists st; auto|]. intros [_ Y]. contradiction.
      * intros [[a [Na H]] X]. destruct (Nat.eq_dec j i) as [->|D].
        -- right. split; auto. split; [congruence|]. intro; subst. apply X. auto.
        -- left. split; auto. exists a. auto.
    + intro y. unfold values at 1. simpl. rewrite in_map_iff. split.
      * intros [[k' v] [E A]]. simpl in E. subst v. apply HB' in A. destruct A as [A X].
        split; [apply in_values; eauto|]. apply Nat.eqb_neq. exact X.
      * intros [A X]. apply in_values in A. destruct A as [k' A]. exists (k', y). split; auto.
        apply HB'. split; auto. apply Nat.eqb_neq. exact X.
Qed.

Lemma ns_remove_spec : forall s i e s' out, BInv c s -> ns_remove c s i e = (s', out) ->
  match out with
  | Err x => s' = s /\ x <> EInternal /\ ~ mem s i e
  | _ => BInv c s' /\ same_shells s s' /\
         (forall j x, mem s' j x <-> mem s j x /\ ~ (j = i /\ x = e)) /\
         (forall x, x <> e -> elems s' x = elems s x) /\
         mem s i e /\ gen s' = gen s /\ e_parent (elems s' e) = None /\
         e_sem (elems s' e) = e_sem (elems s e) /\
         (exists st, nth_error (sets s) i = Some st /\
                     (s_hooks st = None -> e_key (elems s' e) = e_key (elems s e)) /\
                     (s_hooks st <> None -> e_key (elems s' e) = None))
  end.
Proof.
  intros s i e s' out B H. unfold ns_remove in H.
  destruct (nth_error (sets s) i) as [st|] eqn:N.
  2:{ inversion H; subst s' out. repeat split; auto; try discriminate. intros [a [Na _]]. congruence. }
  assert (NM : forall k, e_key (elems s e) = Some k -> dget (norm c k) (s_backend st) <> Some e -> ~ mem s i e).
  { intros k K G [a [Na Ha]]. rewrite N in Na. inversion Na; subst a.
    destruct (mem_entry c s i st e B N Ha) as [r [Kr [Er _]]]. assert (r = k) by congruence. subst r.
    apply G. apply in_dget; auto. apply (b_nodup c s B i st N). }
  destruct (e_key (elems s e)) as [k|] eqn:K.
  2:{ inversion H; subst s' out. repeat split; auto; try discriminate. intros [a [Na Ha]].
      rewrite N in Na. inversion Na; subst a.
      destruct (mem_entry c s i st e B N Ha) as [r [Kr _]]. congruence. }
  destruct (dget (norm c k) (s_backend st)) as [e'|] eqn:G.
  2:{ inversion H; subst s' out. repeat split; auto; try discriminate. apply (NM k); auto. congruence. }
  destruct (Nat.eqb e' e) eqn:D.
  2:{ inversion H; subst s' out. repeat split; auto; try discriminate. apply (NM k); auto.
      apply Nat.eqb_neq in D. congruence. }
  apply Nat.eqb_eq in D. subst e'. inversion H; subst s' out. clear H.
  apply dget_in in G.
  set (s1 := upd_set s i (fun st' => with_backend (ddel (norm c k) (s_backend st')) st')).
  destruct (upd_set_lookup s i (fun st' => with_backend (ddel (norm c k) (s_backend st')) st') st N) as [L1 L2].
  fold s1 in L1, L2.
  destruct (elems_del_hook_same s1 st e) as [Q1 [Q2 [Q3 Q4]]].
  destruct (del_final s (del_hook s1 st e) i st e (norm c k) (ddel (norm c k) (s_backend st)) B N G) as [A1 [A2 A3]]; auto.
  - rewrite sets_del_hook. exact L1.
  - intros j Dj. rewrite sets_del_hook. apply L2. exact Dj.
  - intros k' x. apply ddel_in. apply (b_nodup c s B i st N).
  - apply ddel_nodup. apply (b_nodup c s B i st N).
  - intros x Dx. rewrite elems_del_hook_other by assumption. reflexivity.
  - destruct (s_hooks st) eqn:HK; [right; apply Q3; discriminate|left; apply Q2; reflexivity].
  - rewrite gen_del_hook. simpl. lia.
  - split; auto. split; auto. split; auto. split.
    { intros x Dx. rewrite elems_del_hook_other by assumption. reflexivity. }
    split. { exists st. split; auto. apply in_values. eauto. }
    split. { rewrite gen_del_hook. reflexivity. }
    split; auto. split; auto. exists st. split; auto. split; auto.
    intro X. rewrite (Q2 X). exact K.
Qed.

Lemma ns_pop_spec : forall s i s' out, BInv c s -> ns_pop s i = (s', out) ->
  match out with
  | Err x => s' = s /\ x <> EInternal
  | Ok => False
  | OkV e => BInv c s' /\ same_shells s s' /\
         (forall j x, mem s' j x <-> mem s j x /\ ~ (j = i /\ x = e)) /\ mem s i e
  end.
Proof.
  intros s i s' out B H. unfold ns_pop in H.
  destruct (nth_error (sets s) i) as [st|] eqn:N.
  2:{ inversion H; subst s' out. split; auto. discriminate. }
  destruct (rev (s_backend st)) as [|[k e] r] eqn:R.
  { inversion H; subst s' out. split; auto. discriminate. }
  inversion H; subst s' out. clear H.
  assert (BE : s_backend st = rev r ++ [(k, e)]).
  { rewrite <- (rev_involutive (s_backend st)), R. reflexivity. }
  assert (RL : removelast (s_backend st) = rev r) by (rewrite BE; apply removelast_last).
  assert (ND := b_nodup c s B i st N). rewrite BE, map_app in ND. simpl in ND.
  destruct (nodup_app_inv _ _ ND) as [ND1 [_ ND3]].
  assert (IN : In (k, e) (s_backend st)) by (rewrite BE; apply in_app_iff; simpl; auto).
  set (s1 := upd_set s i (fun st' => with_backend (removelast (s_backend st')) st')).
  destruct (upd_set_lookup s i (fun st' => with_backend (removelast (s_backend st')) st') st N) as [L1 L2].
  fold s1 in L1, L2.
  destruct (elems_del_hook_same s1 st e) as [Q1 [Q2 [Q3 Q4]]].
  set (s2 := set_parent (del_hook s1 st e) e None).
  destruct (del_final s s2 i st e k (removelast (s_backend st)) B N IN) as [A1 [A2 A3]]; auto.
  - unfold s2, set_parent. rewrite sets_upd_elem, sets_del_hook. exact L1.
  - intros j Dj. unfold s2, set_parent. rewrite sets_upd_elem, sets_del_hook. apply L2. exact Dj.
  - intros k' x. rewrite RL, BE. rewrite in_app_iff. simpl. split.
    + intro A. split; auto. intro; subst k'. apply (ND3 k).
      * apply (in_map fst) in A. exact A.
      * simpl. auto.
    + intros [[A|[A|[]]] X]; auto. inversion A; subst. contradiction.
  - rewrite RL. exact ND1.
  - intros x Dx. unfold s2, set_parent. rewrite elems_upd_other by assumption.
    rewrite elems_del_hook_other by assumption. reflexivity.
  - unfold s2, set_parent. rewrite elems_upd_same. reflexivity.
  - unfold s2, set_parent. rewrite elems_upd_same. simpl.
    destruct (s_hooks st) eqn:HK; [right; apply Q3; discriminate|left; apply Q2; reflexivity].
  - unfold s2, set_parent. rewrite gen_upd_elem, gen_del_hook. simpl. lia.
  - split; auto. split; auto. split; auto. exists st. split; auto. apply in_values. eauto.
Qed.

End WithCfg.
