(* Atomicity of the multi-element calls OrderedNamespaceSet.extend / += and of the
   SubmodelElementList value setter: a rejected call leaves everything a client can see as it
   was - for the value setter up to the generated idShorts of the re-added children. *)
From Coq Require Import List ZArith Bool String Ascii Arith Lia.
From Basyx Require Import model.Namespace proofs.NamespaceProofs proofs.NamespacePrim proofs.NamespaceOps
  proofs.NamespaceOps2 proofs.NamespaceOps3.
Import ListNotations.
Local Open Scope nat_scope.

(* ---- class, value type and semantic id of every element are never touched ------------ *)

Definition stf (s : state) (x : nat) := (e_cls (elems s x), e_vt (elems s x), e_sem (elems s x)).

Lemma stf_set_key : forall s e k x, stf (set_key s e k) x = stf s x.
Proof. intros. unfold stf, set_key, upd_elem. simpl. destruct (Nat.eqb x e); reflexivity. Qed.
Lemma stf_set_parent : forall s e p x, stf (set_parent s e p) x = stf s x.
Proof. intros. unfold stf, set_parent, upd_elem. simpl. destruct (Nat.eqb x e); reflexivity. Qed.
Lemma stf_upd_set : forall s i f x, stf (upd_set s i f) x = stf s x.
Proof. reflexivity. Qed.
Lemma stf_del_hook : forall s st e x, stf (del_hook s st e) x = stf s x.
Proof. intros. unfold del_hook. destruct (s_hooks st); rewrite ?stf_set_key, ?stf_set_parent; reflexivity. Qed.

Section WithCfg.
Variable c : cfg.

Lemma stf_bind : forall s0 (r : res) f x, stf (fst r) x = stf s0 x ->
  (forall s1, stf s1 x = stf s0 x -> stf (fst (f s1)) x = stf s0 x) -> stf (fst (bind r f)) x = stf s0 x.
Proof. intros s0 [s1 o] f x H1 H2. unfold bind. destruct o; simpl in *; auto. Qed.

Lemma stf_ns_add : forall s i e x, stf (fst (ns_add c s i e)) x = stf s x.
Proof.
  intros. unfold ns_add. destruct (nth_error (sets s) i) as [st|]; auto. cbv zeta.
  destruct (match e_parent (elems s e) with Some p => negb (Nat.eqb p (s_owner st)) | None => false end); auto.
  apply stf_bind.
  - unfold id_set_hook. destruct (s_hooks st); auto. destruct (e_key (elems s e)); auto.
    destruct (e_parent (elems s e)); auto. simpl. rewrite stf_set_key. reflexivity.
  - intros s1 H1.
    assert (G : stf (fst (bind (add_hook s1 st e) (fun s3 => add_entry c s3 i (s_owner st) e))) x = stf s x).
    { apply stf_bind.
      - unfold add_hook. destruct (s_hooks st); auto. cbv zeta.
        destruct (check_constraints _ _ _); simpl; rewrite ?stf_del_hook, ?stf_set_key; auto.
      - intros s3 H3. unfold add_entry. cbv zeta. destruct (e_key _); simpl; rewrite ?stf_upd_set, ?stf_set_parent; auto. }
    destruct (validate_sets c (sets s1) (s_owner st) (e_key (elems s1 e))); auto.
Qed.
Lemma stf_ns_remove : forall s i e x, stf (fst (ns_remove c s i e)) x = stf s x.
Proof.
  intros. unfold ns_remove. destruct (nth_error (sets s) i) as [st|]; auto.
  destruct (e_key (elems s e)); auto. destruct (dget _ _); auto. destruct (Nat.eqb _ _); auto.
  simpl. rewrite stf_del_hook. reflexivity.
Qed.
Lemma stf_set_add : forall s i e x, stf (fst (set_add c s i e)) x = stf s x.
Proof.
  intros. unfold set_add. apply stf_bind; [apply stf_ns_add|]. intros s1 H.
  destruct (order_of s1 i); simpl; auto.
Qed.
Lemma stf_set_remove : forall s i e x, stf (fst (set_remove c s i e)) x = stf s x.
Proof.
  intros. unfold set_remove. apply stf_bind; [apply stf_ns_remove|]. intros s1 H.
  destruct (order_of s1 i); simpl; auto. destruct (lremove e l); simpl; auto.
Qed.
Lemma stf_remove_all : forall es s i x, stf (fst (remove_all c s i es)) x = stf s x.
Proof.
  induction es as [|e r IH]; intros s i x; simpl; auto. apply stf_bind; [apply stf_ns_remove|].
  intros s1 H. rewrite IH. exact H.
Qed.
Lemma stf_set_delslice : forall s i a b x, stf (fst (set_delslice c s i a b)) x = stf s x.
Proof.
  intros. unfold set_delslice. destruct (order_of s i); auto. apply stf_bind; [apply stf_remove_all|].
  intros s1 H. simpl. exact H.
Qed.

(* ---- exact positional effect of add / remove ------------------------------------------ *)

Lemma set_add_order : forall s i e s' out o, Inv c s -> set_add c s i e = (s', out) -> is_ok out = true ->
  order_of s i = Some o -> order_of s' i = Some (o ++ [e]) /\ shells_except i s s'.
Proof.
  intros s i e s' out o [B O] H OK OO. unfold set_add in H.
  destruct (ns_add c s i e) as [s1 o1] eqn:A. assert (R := ns_add_spec c s i e s1 o1 B A).
  assert (G : same_shells s s1 ->
     (match order_of s1 i with Some o => (set_order s1 i (o ++ [e]), Ok) | None => (s1, Ok) end) = (s', out) ->
     order_of s' i = Some (o ++ [e]) /\ shells_except i s s').
  { intros SH H1. assert (O1 : order_of s1 i = Some o) by (rewrite (order_of_shells s s1 i SH); exact OO).
    rewrite O1 in H1. inversion H1; subst. split; [apply (order_of_set_order s1 i o); exact O1|].
    apply (shells_except_trans i s s1); [apply same_shells_except; exact SH|apply set_order_except]. }
  unfold bind in H. destruct o1 as [|v|x].
  - apply G; [apply R|exact H].
  - apply G; [apply R|exact H].
  - inversion H; subst. discriminate.
Qed.

Lemma set_remove_order : forall s i e s' out o, Inv c s -> set_remove c s i e = (s', out) -> is_ok out = true ->
  order_of s i = Some o -> exists o', lremove e o = Some o' /\ order_of s' i = Some o' /\ shells_except i s s'.
Proof.
  intros s i e s' out o [B O] H OK OO. unfold set_remove in H.
  destruct (ns_remove c s i e) as [s1 o1] eqn:A. assert (R := ns_remove_spec c s i e s1 o1 B A).
  assert (G : same_shells s s1 ->
     (match order_of s1 i with
      | Some o => match lremove e o with Some o' => (set_order s1 i o', Ok) | None => (s1, Err EInternal) end
      | None => (s1, Ok) end) = (s', out) ->
     exists o', lremove e o = Some o' /\ order_of s' i = Some o' /\ shells_except i s s').
  { intros SH H1. assert (O1 : order_of s1 i = Some o) by (rewrite (order_of_shells s s1 i SH); exact OO).
    rewrite O1 in H1. destruct (lremove e o) as [o'|]; [|inversion H1; subst; discriminate].
    inversion H1; subst. exists o'. split; auto. split; [apply (order_of_set_order s1 i o); exact O1|].
    apply (shells_except_trans i s s1); [apply same_shells_except; exact SH|apply set_order_except]. }
  unfold bind in H. destruct o1 as [|v|x].
  - apply G; [apply R|exact H].
  - apply G; [apply R|exact H].
  - inversion H; subst. discriminate.
Qed.

Lemma lremove_app_last : forall a l, ~ In a l -> lremove a (l ++ [a]) = Some l.
Proof.
  induction l as [|y r IH]; simpl; intro H.
  - rewrite Nat.eqb_refl. reflexivity.
  - destruct (Nat.eqb a y) eqn:E; [apply Nat.eqb_eq in E; subst; exfalso; apply H; auto|].
    rewrite IH; auto.
Qed.

Lemma order_backend_length : forall s i st o, Inv c s -> nth_error (sets s) i = Some st -> s_order st = Some o ->
  List.length (s_backend st) = List.length o.
Proof.
  intros s i st o [B O] N SO. assert (OK := O i st N). unfold ord_ok in OK. rewrite SO in OK. destruct OK as [N1 N2].
  assert (NV := values_nodup c s i st B N).
  assert (L : List.length (values st) = List.length (s_backend st)) by (unfold values; apply map_length).
  rewrite <- L. apply Nat.le_antisymm; apply NoDup_incl_length; auto; intros x X; apply N2; exact X.
Qed.

(* append(x) = insert(len(self), x) is add(x) on a consistent ordered set *)
Lemma set_append_eq : forall s i e o, Inv c s -> order_of s i = Some o -> set_append c s i e = set_add c s i e.
Proof.
  intros s i e o I OO. destruct (order_of_some s i o OO) as [st [N SO]].
  unfold set_append, set_insert, set_add. rewrite N, OO.
  destruct (ns_add c s i e) as [s1 o1] eqn:A. assert (R := ns_add_spec c s i e s1 o1 (proj1 I) A).
  assert (LEN := order_backend_length s i st o I N SO).
  assert (G : same_shells s s1 ->
     (match order_of s1 i with
      | Some o2 => (set_order s1 i (linsert (clamp (List.length o2) (Z.of_nat (List.length (s_backend st)))) e o2), Ok)
      | None => (s1, Err EInternal) end) =
     (match order_of s1 i with Some o2 => (set_order s1 i (o2 ++ [e]), Ok) | None => (s1, Ok) end)).
  { intro SH. rewrite (order_of_shells s s1 i SH), OO. rewrite LEN.
    assert (CL : clamp (List.length o) (Z.of_nat (List.length o)) = List.length o).
    { unfold clamp. destruct (Z.of_nat (List.length o) <? 0)%Z eqn:E; [lia|]. rewrite Nat2Z.id. apply Nat.min_id. }
    rewrite CL. unfold linsert. rewrite firstn_all, skipn_all. reflexivity. }
  unfold bind. destruct o1 as [|v|x]; auto; apply G; apply R.
Qed.

Lemma elem_ext : forall a b : elem, e_key a = e_key b -> e_parent a = e_parent b -> e_cls a = e_cls b ->
  e_vt a = e_vt b -> e_sem a = e_sem b -> a = b.
Proof. intros [k p x y m] [k' p' x' y' m']. simpl. intros. subst. reflexivity. Qed.
Lemma stf_fields : forall s s' x, stf s' x = stf s x ->
  e_cls (elems s' x) = e_cls (elems s x) /\ e_vt (elems s' x) = e_vt (elems s x) /\ e_sem (elems s' x) = e_sem (elems s x).
Proof. intros s s' x H. unfold stf in H. inversion H. auto. Qed.

(* ---- what a client can see is unchanged ------------------------------------------------- *)

(* same collections (owner, hooks, positional order), same members, every element with the same
   parent, class, value type, semantic id and identifying attribute; with [regen = Some i] the
   children of collection i may carry another (generated) idShort *)
Definition same_upto (regen : option nat) (s s' : state) : Prop :=
  same_shells s s' /\ (forall j x, mem s' j x <-> mem s j x) /\
  (forall x, e_parent (elems s' x) = e_parent (elems s x) /\ stf s' x = stf s x /\
             (e_key (elems s' x) = e_key (elems s x) \/
              (exists i, regen = Some i /\ mem s i x /\ e_key (elems s' x) <> None))).

Lemma same_upto_refl : forall s, same_upto None s s.
Proof. intro s. split; [apply same_shells_refl|]. split; [tauto|]. intro x. auto. Qed.

(* the state during extend(): [added] (latest first) are the items appended so far by this call *)
Record ext_inv (s0 s : state) (i : nat) (o0 added : list nat) : Prop := mkext {
  ei_inv : Inv c s;
  ei_own : same_owners s0 s;
  ei_sh : shells_except i s0 s;
  ei_ord : order_of s i = Some (o0 ++ rev added);
  ei_mem : forall j x, mem s j x <-> mem s0 j x \/ (j = i /\ In x added);
  ei_nd : NoDup added;
  ei_free : forall x, In x added -> e_parent (elems s0 x) = None;
  ei_frame : forall x, ~ In x added -> elems s x = elems s0 x;
  ei_stf : forall x, stf s x = stf s0 x;
  ei_key : forall x st0, In x added -> nth_error (sets s0) i = Some st0 ->
             (s_hooks st0 = None -> e_key (elems s x) = e_key (elems s0 x)) /\
             (s_hooks st0 <> None -> e_key (elems s0 x) = None)
}.

Lemma ext_inv_pub_eq : forall s0 s s1 i o0 added, pub_eq s s1 -> ext_inv s0 s i o0 added -> ext_inv s0 s1 i o0 added.
Proof.
  intros s0 s s1 i o0 added P E. assert (P' := P). destruct P' as [S [EL G]]. destruct E.
  constructor; auto.
  - eapply Inv_pub_eq; eauto.
  - intro j. rewrite S. apply ei_own0.
  - intros j D. rewrite S. apply ei_sh0. exact D.
  - unfold order_of. rewrite S. exact ei_ord0.
  - intros j x. rewrite (pub_eq_mem s s1 j x P). apply ei_mem0.
  - intros x X. rewrite EL. apply ei_frame0. exact X.
  - intro x. unfold stf. rewrite EL. apply ei_stf0.
  - intros x st0 X N. rewrite EL. apply (ei_key0 x st0 X N).
Qed.

Lemma hooks_same : forall s0 s i st0 st, same_owners s0 s -> nth_error (sets s0) i = Some st0 ->
  nth_error (sets s) i = Some st -> s_hooks st = s_hooks st0 /\ s_owner st = s_owner st0.
Proof.
  intros s0 s i st0 st H N0 N. specialize (H i). rewrite N0, N in H. simpl in H. inversion H. auto.
Qed.

(* one more accepted append *)
Lemma ext_inv_step : forall s0 s i o0 added e s1 out, BInv c s0 -> ext_inv s0 s i o0 added ->
  set_add c s i e = (s1, out) -> is_ok out = true -> ext_inv s0 s1 i o0 (e :: added).
Proof.
  intros s0 s i o0 added e s1 out B0 E A OK. destruct E.
  assert (R := set_add_spec c s i e s1 out ei_inv0 A).
  destruct (set_add_order s i e s1 out _ ei_inv0 A OK ei_ord0) as [O1 SX].
  assert (R' : Inv c s1 /\ same_owners s s1 /\ (forall j x, mem s1 j x <-> mem s j x \/ j = i /\ x = e) /\
               (forall x, x <> e -> elems s1 x = elems s x) /\ e_parent (elems s e) = None /\ gen s <= gen s1 /\
               key_facts s s1 i e).
  { destruct out; try discriminate; exact R. }
  clear R. destruct R' as [I1 [OW [HM [FR [PF [_ KF]]]]]].
  assert (NE : ~ In e added).
  { intro X. apply (free_not_mem c s e (proj1 ei_inv0) PF i). apply ei_mem0. right. auto. }
  assert (E0 : elems s e = elems s0 e) by (apply ei_frame0; exact NE).
  constructor; auto.
  - eapply same_owners_trans; eauto.
  - eapply shells_except_trans; eauto.
  - rewrite O1. simpl. rewrite app_assoc. reflexivity.
  - intros j x. rewrite HM, ei_mem0. simpl. intuition.
  - constructor; auto.
  - intros x [X|X]; [subst; rewrite <- E0; exact PF|apply ei_free0; exact X].
  - intros x X. simpl in X. assert (D : x <> e) by (intro; subst; apply X; auto).
    rewrite (FR x D). apply ei_frame0. intro Y. apply X. auto.
  - intro x. rewrite <- ei_stf0. rewrite <- (stf_set_add s i e x). rewrite A. reflexivity.
  - intros x st0 [X|X] N0.
    + subst x. destruct KF as [st [N [K1 K2]]]. destruct (hooks_same s0 s i st0 st ei_own0 N0 N) as [HK _].
      rewrite HK in K1, K2. rewrite <- E0. auto.
    + assert (x <> e) by (intro; subst; contradiction). rewrite (FR x H). apply (ei_key0 x st0 X N0).
Qed.

(* the rollback of extend(): removing the appended items again, latest first *)
Lemma ext_rollback : forall added s0 s i o0 s' out, BInv c s0 -> order_of s0 i = Some o0 ->
  ext_inv s0 s i o0 added -> remove_each c s i added = (s', out) ->
  is_ok out = true /\ ext_inv s0 s' i o0 [].
Proof.
  induction added as [|a t IH]; intros s0 s i o0 s' out B0 OO0 E H; simpl in H.
  - inversion H; subst. auto.
  - destruct (set_remove c s i a) as [s1 o1] eqn:A. assert (E' := E). destruct E'.
    assert (R := set_remove_spec c s i a s1 o1 ei_inv0 A).
    assert (MA : mem s i a) by (apply ei_mem0; right; simpl; auto).
    destruct o1 as [|v|x]; [| |destruct R as [_ [_ X]]; contradiction].
    + assert (OK1 : is_ok Ok = true) by reflexivity.
      destruct (set_remove_order s i a s1 Ok _ ei_inv0 A OK1 ei_ord0) as [o' [LR [O1 SX]]].
      destruct R as [I1 [OW [HM [FR [_ [_ [P1 [_ [st [N [K1 K2]]]]]]]]]]].
      inversion ei_nd0; subst.
      destruct (order_ok s i _ (proj2 ei_inv0) ei_ord0) as [NDO _].
      simpl in LR, NDO. rewrite app_assoc in LR, NDO.
      destruct (nodup_app_inv _ _ NDO) as [_ [_ DJ]].
      assert (NA : ~ In a (o0 ++ rev t)). { intro X. apply (DJ a X). simpl. auto. }
      rewrite (lremove_app_last a _ NA) in LR. inversion LR; subst o'.
      unfold bind in H. apply (IH s0 s1 i o0 s' out B0 OO0); auto.
      constructor; auto.
      * eapply same_owners_trans; eauto.
      * eapply shells_except_trans; eauto.
      * intros j x. rewrite HM, ei_mem0. simpl. split.
        -- intros [[X|[X [Y|Y]]] Z]; auto. subst. exfalso. apply Z. auto.
        -- intros [X|[X Y]].
           ++ split; auto. intros [Z W]. subst. apply (free_not_mem c s0 a B0 (ei_free0 a (or_introl eq_refl)) i X).
           ++ split; auto. intros [_ W]. subst. contradiction.
      * intros x X. apply ei_free0. simpl. auto.
      * intros x X. destruct (Nat.eq_dec x a) as [->|D].
        -- destruct (order_of_some s0 i o0 OO0) as [st0 [N0 _]].
           destruct (hooks_same s0 s i st0 st ei_own0 N0 N) as [HK _].
           destruct (ei_key0 a st0 (or_introl eq_refl) N0) as [Q1 Q2].
           destruct (stf_fields s0 s1 a) as [F1 [F2 F3]].
           { rewrite <- ei_stf0. rewrite <- (stf_set_remove s i a a). rewrite A. reflexivity. }
           apply elem_ext; auto.
           ++ destruct (s_hooks st0) eqn:HK0.
              ** rewrite K2 by (rewrite HK; discriminate). symmetry. apply Q2. discriminate.
              ** rewrite K1 by (rewrite HK; reflexivity). apply Q1. reflexivity.
           ++ rewrite P1. symmetry. apply ei_free0. simpl. auto.
        -- rewrite (FR x D). apply ei_frame0. simpl. intros [Y|Y]; [apply D; auto|contradiction].
      * intro x. rewrite <- ei_stf0. rewrite <- (stf_set_remove s i a x). rewrite A. reflexivity.
      * intros x st0 X N0. assert (x <> a) by (intro; subst; contradiction). rewrite (FR x H0).
        apply (ei_key0 x st0 (or_intror X) N0).
    + exfalso. clear - A. unfold set_remove, bind in A. destruct (ns_remove c s i a) as [q [|w|z]];
        try (destruct (order_of q i); [destruct (lremove a l)|]; inversion A); inversion A.
Qed.

Lemma ext_inv_done : forall s0 s i o0, order_of s0 i = Some o0 -> ext_inv s0 s i o0 [] -> same_upto None s0 s.
Proof.
  intros s0 s i o0 OO0 E. destruct E. split; [|split].
  - intro j. destruct (Nat.eq_dec j i) as [->|D]; [|apply ei_sh0; exact D].
    destruct (order_of_some s0 i o0 OO0) as [st0 [N0 SO0]].
    simpl in ei_ord0. rewrite app_nil_r in ei_ord0. destruct (order_of_some s i o0 ei_ord0) as [st [N SO]].
    destruct (hooks_same s0 s i st0 st ei_own0 N0 N) as [HK OW]. rewrite N, N0. simpl. unfold shell. congruence.
  - intros j x. rewrite ei_mem0. simpl. tauto.
  - intro x. rewrite (ei_frame0 x (fun X => X)). split; [reflexivity|]. split; [apply ei_stf0|left; reflexivity].
Qed.

Lemma ext_inv_refl : forall s i o, Inv c s -> order_of s i = Some o -> ext_inv s s i o [].
Proof.
  intros s i o I OO. constructor; auto.
  - apply same_owners_refl.
  - intros j _. reflexivity.
  - simpl. rewrite app_nil_r. exact OO.
  - intros j x. simpl. tauto.
  - constructor.
  - intros x [].
  - intros x st0 [].
Qed.

Lemma extend_loop_err : forall es s0 s i o0 added s' x, BInv c s0 -> order_of s0 i = Some o0 ->
  ext_inv s0 s i o0 added -> extend_loop c s i es added = (s', Err x) -> same_upto None s0 s'.
Proof.
  induction es as [|e r IH]; intros s0 s i o0 added s' x B0 OO0 E H; simpl in H; [discriminate|].
  rewrite (set_append_eq s i e _ (ei_inv _ _ _ _ _ E) (ei_ord _ _ _ _ _ E)) in H.
  destruct (set_add c s i e) as [s1 o1] eqn:A.
  destruct o1 as [|v|x1].
  - apply (IH s0 s1 i o0 (e :: added) s' x B0 OO0); auto. apply (ext_inv_step s0 s i o0 added e s1 Ok); auto.
  - apply (IH s0 s1 i o0 (e :: added) s' x B0 OO0); auto. apply (ext_inv_step s0 s i o0 added e s1 (OkV v)); auto.
  - assert (R := set_add_spec c s i e s1 (Err x1) (ei_inv _ _ _ _ _ E) A). destruct R as [P _].
    assert (E1 := ext_inv_pub_eq s0 s s1 i o0 added P E).
    destruct (remove_each c s1 i added) as [s2 o2] eqn:RE.
    destruct (ext_rollback added s0 s1 i o0 s2 o2 B0 OO0 E1 RE) as [_ E2].
    assert (s' = s2) by (destruct o2; inversion H; reflexivity). subst s'.
    apply (ext_inv_done s0 s2 i o0 OO0 E2).
Qed.

(* a rejected extend() / += leaves everything as it was *)
Lemma extend_atomic : forall s i es s' x, Inv c s -> set_extend c s i es = (s', Err x) -> same_upto None s s'.
Proof.
  intros s i es s' x I H. unfold set_extend in H. destruct (order_of s i) as [o|] eqn:OO.
  - apply (extend_loop_err es s s i o [] s' x (proj1 I) OO (ext_inv_refl s i o I OO) H).
  - inversion H; subst. split; [apply same_shells_refl|]. split; [tauto|]. intro. auto.
Qed.


Lemma step_extend_atomic : forall s r es, Inv c s ->
  is_ok (snd (step c s (Extend r es))) = false -> same_upto None s (fst (step c s (Extend r es))).
Proof.
  intros s r es I E. simpl in *. unfold at_set in *.
  destruct (nth_error (owner_sets s (fst r)) (snd r)) as [i|]; [|apply same_upto_refl].
  destruct (set_extend c s i es) as [s' o] eqn:Q. destruct o as [|v|x]; try discriminate.
  simpl. eapply extend_atomic; eauto.
Qed.

(* ---- the SubmodelElementList value setter ------------------------------------------------- *)

Lemma extend_loop_ok : forall es s0 s i o0 added s' out, BInv c s0 -> ext_inv s0 s i o0 added ->
  extend_loop c s i es added = (s', out) -> is_ok out = true -> ext_inv s0 s' i o0 (rev es ++ added).
Proof.
  induction es as [|e r IH]; intros s0 s i o0 added s' out B0 E H OK; simpl in H.
  - inversion H; subst. exact E.
  - rewrite (set_append_eq s i e _ (ei_inv _ _ _ _ _ E) (ei_ord _ _ _ _ _ E)) in H.
    destruct (set_add c s i e) as [s1 o1] eqn:A. simpl. rewrite <- app_assoc. simpl.
    destruct o1 as [|v|x1].
    + apply (IH s0 s1 i o0 (e :: added) s' out B0); auto. apply (ext_inv_step s0 s i o0 added e s1 Ok); auto.
    + apply (IH s0 s1 i o0 (e :: added) s' out B0); auto. apply (ext_inv_step s0 s i o0 added e s1 (OkV v)); auto.
    + exfalso. destruct (remove_each c s1 i added) as [s2 [|w|z]]; inversion H; subst; discriminate.
Qed.

Lemma ns_remove_frame : forall s i e x, x <> e -> elems (fst (ns_remove c s i e)) x = elems s x.
Proof.
  intros s i e x D. unfold ns_remove. destruct (nth_error (sets s) i) as [st|]; auto.
  destruct (e_key (elems s e)); auto. destruct (dget _ _); auto. destruct (Nat.eqb _ _); auto.
  simpl. rewrite elems_del_hook_other by assumption. reflexivity.
Qed.
Lemma remove_all_frame : forall es s i x, ~ In x es -> elems (fst (remove_all c s i es)) x = elems s x.
Proof.
  induction es as [|e r IH]; intros s i x NI; simpl; auto.
  assert (D : x <> e) by (intro; subst; apply NI; simpl; auto).
  assert (H := ns_remove_frame s i e x D). destruct (ns_remove c s i e) as [s1 o]. simpl in H.
  unfold bind. destruct o; simpl; auto; rewrite IH; auto; intro X; apply NI; simpl; auto.
Qed.

(* del self._value[:] *)
Lemma delslice_all : forall s i old s1 o1, Inv c s -> order_of s i = Some old ->
  set_delslice c s i None None = (s1, o1) ->
  o1 = Ok /\ Inv c s1 /\ order_of s1 i = Some [] /\ same_owners s s1 /\ shells_except i s s1 /\
  (forall j x, mem s1 j x <-> mem s j x /\ j <> i) /\
  (forall x, ~ In x old -> elems s1 x = elems s x) /\ (forall x, stf s1 x = stf s x).
Proof.
  intros s i old s1 o1 I OO H.
  assert (G := good_delslice c s i None None I). rewrite H in G. destruct G as [I1 _]. simpl in I1.
  assert (ST : forall x, stf s1 x = stf s x). { intro x. rewrite <- (stf_set_delslice s i None None x). rewrite H. reflexivity. }
  destruct I as [B O]. destruct (order_ok s i old O OO) as [N1 N2].
  unfold set_delslice in H. rewrite OO in H.
  assert (LO : slice_lo (List.length old) None = 0) by reflexivity.
  assert (HI : slice_hi (List.length old) None None = List.length old) by (unfold slice_hi; simpl; lia).
  rewrite LO, HI, Nat.sub_0_r in H. simpl skipn in H. rewrite firstn_all, skipn_all in H. simpl in H.
  destruct (remove_all c s i old) as [sA oA] eqn:RA.
  destruct (remove_all_spec c old s i sA oA B N1) as [EA [BA [SH HM]]]; auto.
  { intros x X. apply N2. exact X. }
  assert (FR := fun x => remove_all_frame old s i x). rewrite RA in FR. simpl in FR.
  subst oA. unfold bind in H. inversion H; subst s1 o1. clear H.
  assert (OA : order_of sA i = Some old) by (rewrite (order_of_shells s sA i SH); exact OO).
  split; auto. split; auto. split; [apply (order_of_set_order sA i old); exact OA|]. split.
  { apply (same_owners_trans s sA); [apply same_shells_owners; exact SH|apply set_order_owners]. }
  split. { apply (shells_except_trans i s sA); [apply same_shells_except; exact SH|apply set_order_except]. }
  split. { intros j x. rewrite set_order_mem, HM. split.
           - intros [X Y]. split; auto. intro; subst. apply Y. split; auto. apply N2. exact X.
           - intros [X Y]. split; auto. intros [Z _]. contradiction. }
  split; auto.
Qed.

(* the value setter, when the new items are refused and the old ones can be put back: the list
   holds the same elements in the same order with the same parent, class, value type and
   semantic id; only their generated idShorts are new.  ([set_value] is exactly this composition.) *)
Lemma value_setter_atomic : forall s i es old s1 o1 s2 x s3 o3, Inv c s -> order_of s i = Some old ->
  set_delslice c s i None None = (s1, o1) -> set_extend c s1 i es = (s2, Err x) ->
  set_extend c s2 i old = (s3, o3) -> is_ok o3 = true ->
  set_value c s i es = (s3, Err x) /\ Inv c s3 /\ same_upto (Some i) s s3.
Proof.
  intros s i es old s1 o1 s2 x s3 o3 I OO D E1 E2 OK3.
  destruct (delslice_all s i old s1 o1 I OO D) as [EO1 [I1 [O1 [OW1 [SX1 [HM1 [FR1 ST1]]]]]]]. subst o1.
  assert (U12 := extend_atomic s1 i es s2 x I1 E1). destruct U12 as [SH12 [HM12 EL12]].
  assert (I2 : Inv c s2). { assert (G := good_set_extend c s1 i es I1). rewrite E1 in G. apply G. }
  assert (O2 : order_of s2 i = Some []) by (rewrite (order_of_shells s1 s2 i SH12); exact O1).
  assert (E3 : ext_inv s2 s3 i [] (rev old ++ [])).
  { unfold set_extend in E2. rewrite O2 in E2.
    apply (extend_loop_ok old s2 s2 i [] [] s3 o3 (proj1 I2) (ext_inv_refl s2 i [] I2 O2) E2 OK3). }
  rewrite app_nil_r in E3. destruct E3.
  assert (I3 := ei_inv0). simpl in ei_ord0. rewrite rev_involutive in ei_ord0.
  destruct I as [B O]. destruct (order_ok s i old O OO) as [N1 N2].
  split; [|split; [exact I3|]].
  - unfold set_value. rewrite OO, D. unfold bind. rewrite E1, E2. destruct o3; try discriminate; reflexivity.
  - split; [|split].
    + intro j. destruct (Nat.eq_dec j i) as [->|Dj].
      * destruct (order_of_some s i old OO) as [st [N SO]]. destruct (order_of_some s3 i old ei_ord0) as [st3 [N3 SO3]].
        assert (OWN : same_owners s s3).
        { apply (same_owners_trans s s1); auto. apply (same_owners_trans s1 s2); auto. apply same_shells_owners; exact SH12. }
        destruct (hooks_same s s3 i st st3 OWN N N3) as [HK OW]. rewrite N, N3. simpl. unfold shell. congruence.
      * rewrite (ei_sh0 j Dj). rewrite (SH12 j). apply SX1. exact Dj.
    + intros j y. rewrite ei_mem0, HM12, HM1. rewrite <- in_rev. split.
      * intros [[X _]|[X Y]]; auto. subst. apply N2. exact Y.
      * intro X. destruct (Nat.eq_dec j i) as [->|Dj]; [right; split; auto; apply N2; exact X|left; auto].
    + intro y. destruct (EL12 y) as [P12 [S12 K12]].
      assert (STF : stf s3 y = stf s y) by (rewrite ei_stf0, S12; apply ST1).
      destruct (in_dec Nat.eq_dec y old) as [IN|NI].
      * assert (M3 : mem s3 i y) by (apply ei_mem0; right; split; auto; apply in_rev; rewrite rev_involutive; exact IN).
        assert (M0 : mem s i y) by (apply N2; exact IN).
        destruct M3 as [st3 [N3 H3]]. destruct M0 as [st [N H0]].
        destruct (mem_entry c s3 i st3 y (proj1 I3) N3 H3) as [r3 [K3 [_ P3]]].
        destruct (mem_entry c s i st y B N H0) as [r0 [_ [_ P0]]].
        assert (OWN : same_owners s s3).
        { apply (same_owners_trans s s1); auto. apply (same_owners_trans s1 s2); auto. apply same_shells_owners; exact SH12. }
        destruct (hooks_same s s3 i st st3 OWN N N3) as [_ OW].
        split; [congruence|]. split; auto. right. exists i. split; auto. split; [exists st; auto|congruence].
      * assert (F3 : elems s3 y = elems s2 y). { apply ei_frame0. rewrite <- in_rev. exact NI. }
        assert (F1 := FR1 y NI).
        split; [rewrite F3, P12, F1; reflexivity|]. split; [exact STF|].
        left. rewrite F3. destruct K12 as [K|[k [X _]]]; [rewrite K, F1; reflexivity|discriminate].
Qed.

End WithCfg.
