(* C09 - lemmas about the top-level walk of model/ReaderWalk.v. *)
From Coq Require Import List Bool ZArith Lia.
From Basyx Require Import model.ReaderFlow model.ReaderWalk.
Import ListNotations.
Local Open Scope Z_scope.

(* ------------------------------------------------------------------ store facts *)
Lemma lookup_cons_other : forall st id p k, id <> k -> lookup ((id, p) :: st) k = lookup st k.
Proof. intros st id p k H. simpl. destruct (Z.eqb id k) eqn:E; [apply Z.eqb_eq in E; contradiction | reflexivity]. Qed.

Lemma lookup_cons_same : forall st k p, lookup ((k, p) :: st) k = Some p.
Proof. intros. simpl. rewrite Z.eqb_refl. reflexivity. Qed.

Lemma lookup_discard_other : forall st id k, id <> k -> lookup (discard st id) k = lookup st k.
Proof.
  induction st as [|[i q] st IH]; intros id k H; simpl; [reflexivity|].
  destruct (Z.eqb i id) eqn:E; simpl.
  - apply Z.eqb_eq in E. subst i. rewrite (IH id k H).
    destruct (Z.eqb id k) eqn:E2; [apply Z.eqb_eq in E2; contradiction | reflexivity].
  - destruct (Z.eqb i k); [reflexivity | apply IH; assumption].
Qed.

Lemma memz_cons_other : forall ret id k, id <> k -> memz k (id :: ret) = memz k ret.
Proof.
  intros ret id k H. unfold memz. simpl.
  destruct (Z.eqb k id) eqn:E; [apply Z.eqb_eq in E; subst; contradiction | reflexivity].
Qed.

Lemma memz_cons_same : forall ret k, memz k (k :: ret) = true.
Proof. intros. unfold memz. simpl. rewrite Z.eqb_refl. reflexivity. Qed.

(* ------------------------------------------------------------------ failsafe never fails (no store conflict) *)
Definition inv (fl : flags) (s : state) : Prop :=
  fl_replace fl = true \/ fl_ignore fl = true \/
  (forall k, lookup (fst s) k <> None -> memz k (snd s) = true).

Lemma accept_total : forall fl id p s, inv fl s -> exists s', accept true fl id p s = ROk s' /\ inv fl s'.
Proof.
  intros fl id p [st ret] I. unfold accept.
  destruct (memz id ret) eqn:M; [exists (st, ret); split; [reflexivity | exact I]|].
  destruct (lookup st id) eqn:L.
  - destruct (fl_replace fl) eqn:R.
    + eexists; split; [reflexivity | left; exact R].
    + destruct (fl_ignore fl) eqn:G.
      * exists (st, ret); split; [reflexivity | exact I].
      * exfalso. destruct I as [I|[I|I]]; try congruence.
        simpl in I. assert (X : lookup st id <> None) by congruence.
        rewrite (I id X) in M. discriminate M.
  - eexists; split; [reflexivity|].
    destruct I as [I|[I|I]]; [left; exact I | right; left; exact I |].
    right; right. cbn [fst snd] in *. intros k Hk.
    destruct (Z.eq_dec id k) as [->|N]; [apply memz_cons_same|].
    rewrite (memz_cons_other ret id k N). apply I.
    rewrite (lookup_cons_other st id p k N) in Hk. exact Hk.
Qed.

Lemma step_total : forall f fl l it s, inv fl s -> exists s', step f true fl l it s = ROk s' /\ inv fl s'.
Proof.
  intros f fl l it s I. destruct it as [c id p se|e|]; simpl.
  - destruct (okind_eqb l c); [destruct se; apply accept_total; exact I|].
    destruct f; [apply accept_total; exact I | exists s; split; [reflexivity | exact I]].
  - destruct f; exists s; split; try reflexivity; exact I.
  - exists s; split; [reflexivity | exact I].
Qed.

Lemma run_items_total : forall f fl l its s, inv fl s ->
  exists s', run_items f true fl l its s = ROk s' /\ inv fl s'.
Proof.
  induction its as [|it r IH]; intros s I; simpl; [exists s; split; [reflexivity | exact I]|].
  destruct (step_total f fl l it s I) as [s1 [E I1]]. rewrite E. apply IH. exact I1.
Qed.

Lemma run_xml_total : forall fl d s, inv fl s -> exists s', run_xml true fl d s = ROk s' /\ inv fl s'.
Proof.
  induction d as [|[l o] r IH]; intros s I; simpl; [exists s; split; [reflexivity | exact I]|].
  destruct l as [k|]; [|apply IH; exact I].
  destruct (run_items_total XML fl k (match o with Some its => its | None => [] end) s I) as [s1 [E I1]].
  rewrite E. apply IH. exact I1.
Qed.

Lemma run_json_kind_total : forall fl k d s, inv fl s ->
  exists s', run_json_kind true fl k d s = ROk s' /\ inv fl s'.
Proof.
  induction d as [|[l o] r IH]; intros s I; simpl; [exists s; split; [reflexivity | exact I]|].
  destruct (lkind_is k l); [|apply IH; exact I].
  destruct (run_items_total JSON fl k (match o with Some its => its | None => [] end) s I) as [s1 [E I1]].
  rewrite E. apply IH. exact I1.
Qed.

Lemma run_json_total : forall fl d s, inv fl s -> exists s', run_json true fl d s = ROk s' /\ inv fl s'.
Proof.
  intros fl d s I. unfold run_json.
  destruct (run_json_kind_total fl KShell d s I) as [s1 [E1 I1]]. rewrite E1. simpl.
  destruct (run_json_kind_total fl KSubmodel d s1 I1) as [s2 [E2 I2]]. rewrite E2. simpl.
  apply run_json_kind_total. exact I2.
Qed.

Lemma conflict_free_inv : forall fl st, conflict_free fl st = true -> inv fl (st, []).
Proof.
  intros fl st H. unfold conflict_free in H.
  unfold inv. destruct (fl_replace fl) eqn:R; [left; reflexivity|].
  destruct (fl_ignore fl) eqn:G; [right; left; reflexivity|].
  simpl in H. destruct st; [|discriminate H].
  right; right. simpl. intros k Hk. exfalso. apply Hk. reflexivity.
Qed.

Theorem walk_failsafe_total : forall f fl d st, conflict_free fl st = true ->
  exists r, walk f true fl d st = ROk r.
Proof.
  intros f fl d st H. apply conflict_free_inv in H. destruct f; simpl.
  - destruct (run_json_total fl d (st, []) H) as [s [E _]]. exists s. exact E.
  - destruct (run_xml_total fl d (st, []) H) as [s [E _]]. exists s. exact E.
Qed.

(* the only failsafe error is the documented KeyError for an existing identifier *)
Lemma accept_err : forall m fl id p s e, accept m fl id p s = RErr e -> e = KeyError.
Proof.
  intros m fl id p [st ret] e. unfold accept.
  destruct (memz id ret); [destruct m; intro H; [discriminate H | injection H as <-; reflexivity]|].
  destruct (lookup st id); [|intro H; discriminate H].
  destruct (fl_replace fl); [intro H; discriminate H|].
  destruct (fl_ignore fl); intro H; [discriminate H | injection H as <-; reflexivity].
Qed.

(* ------------------------------------------------------------------ strict: same result or a documented error *)
Lemma accept_strict_ok : forall fl id p s s', accept false fl id p s = ROk s' -> accept true fl id p s = ROk s'.
Proof.
  intros fl id p [st ret] s'. unfold accept.
  destruct (memz id ret); [intro H; discriminate H | intro H; exact H].
Qed.

Lemma step_strict_ok : forall f fl l it s s', step f false fl l it s = ROk s' -> step f true fl l it s = ROk s'.
Proof.
  intros f fl l it s s'. destruct it as [c id p se|e|]; simpl.
  - destruct (okind_eqb l c); [destruct se; [intro H; discriminate H | apply accept_strict_ok]|].
    destruct f; intro H; discriminate H.
  - destruct f; intro H; discriminate H.
  - intro H; discriminate H.
Qed.

Lemma run_items_strict_ok : forall f fl l its s s',
  run_items f false fl l its s = ROk s' -> run_items f true fl l its s = ROk s'.
Proof.
  induction its as [|it r IH]; intros s s'; simpl; [intro H; exact H|].
  destruct (step f false fl l it s) as [s1|e] eqn:E; [|intro H; discriminate H].
  rewrite (step_strict_ok f fl l it s s1 E). apply IH.
Qed.

Lemma run_xml_strict_ok : forall fl d s s', run_xml false fl d s = ROk s' -> run_xml true fl d s = ROk s'.
Proof.
  induction d as [|[l o] r IH]; intros s s'; simpl; [intro H; exact H|].
  destruct l as [k|]; [|intro H; discriminate H].
  destruct (run_items XML false fl k _ s) as [s1|e] eqn:E; [|intro H; discriminate H].
  rewrite (run_items_strict_ok XML fl k _ s s1 E). apply IH.
Qed.

Lemma run_json_kind_strict_ok : forall fl k d s s',
  run_json_kind false fl k d s = ROk s' -> run_json_kind true fl k d s = ROk s'.
Proof.
  induction d as [|[l o] r IH]; intros s s'; simpl; [intro H; exact H|].
  destruct (lkind_is k l); [|apply IH].
  destruct (run_items JSON false fl k _ s) as [s1|e] eqn:E; [|intro H; discriminate H].
  rewrite (run_items_strict_ok JSON fl k _ s s1 E). apply IH.
Qed.

Lemma run_json_strict_ok : forall fl d s s', run_json false fl d s = ROk s' -> run_json true fl d s = ROk s'.
Proof.
  intros fl d s s'. unfold run_json.
  destruct (run_json_kind false fl KShell d s) as [s1|e] eqn:E1; [|intro H; discriminate H].
  rewrite (run_json_kind_strict_ok fl KShell d s s1 E1). simpl.
  destruct (run_json_kind false fl KSubmodel d s1) as [s2|e] eqn:E2; [|intro H; discriminate H].
  rewrite (run_json_kind_strict_ok fl KSubmodel d s1 s2 E2). simpl.
  apply run_json_kind_strict_ok.
Qed.

Theorem walk_strict_refines : forall f fl d st r, walk f false fl d st = ROk r -> walk f true fl d st = ROk r.
Proof.
  intros f fl d st r. destruct f; simpl.
  - destruct (first_broken (all_items d)); [intro H; discriminate H | apply run_json_strict_ok].
  - apply run_xml_strict_ok.
Qed.

Definition in_err (its : list item) (e : exn) : Prop := exists it, In it its /\ strict_exn it = Some e.
Definition doc_err (d : doc) (e : exn) : Prop := e = KeyError \/ e = TypeError \/ in_err (all_items d) e.

Lemma step_err : forall f m fl l it s e, step f m fl l it s = RErr e ->
  e = KeyError \/ e = TypeError \/ strict_exn it = Some e.
Proof.
  intros f m fl l it s e. destruct it as [c id p se|x|]; simpl.
  - destruct (okind_eqb l c).
    + destruct se as [x|]; [destruct m|]; intro H.
      * left; eapply accept_err; exact H.
      * injection H as <-. right; right; reflexivity.
      * left; eapply accept_err; exact H.
    + destruct f, m; intro H; try discriminate H.
      * left; eapply accept_err; exact H.
      * injection H as <-. right; left; reflexivity.
      * injection H as <-. left; reflexivity.
  - destruct f, m; intro H; try discriminate H; injection H as <-.
    + right; left; reflexivity.
    + right; right; reflexivity.
  - destruct m; intro H; [discriminate H|]. injection H as <-. destruct f; [right; left | left]; reflexivity.
Qed.

Lemma run_items_err : forall f m fl l its s e, run_items f m fl l its s = RErr e ->
  e = KeyError \/ e = TypeError \/ in_err its e.
Proof.
  induction its as [|it r IH]; intros s e; simpl; [intro H; discriminate H|].
  destruct (step f m fl l it s) as [s1|x] eqn:E.
  - intro H. destruct (IH s1 e H) as [A|[A|[y [A B]]]]; auto.
    right; right. exists y. split; [right; exact A | exact B].
  - intro H. injection H as <-. destruct (step_err f m fl l it s x E) as [A|[A|A]]; auto.
    right; right. exists it. split; [left; reflexivity | exact A].
Qed.

Lemma in_err_app_l : forall a b e, in_err a e -> in_err (a ++ b) e.
Proof. intros a b e [y [A B]]. exists y. split; [apply in_or_app; left; exact A | exact B]. Qed.
Lemma in_err_app_r : forall a b e, in_err b e -> in_err (a ++ b) e.
Proof. intros a b e [y [A B]]. exists y. split; [apply in_or_app; right; exact A | exact B]. Qed.

Lemma run_xml_err : forall m fl d s e, run_xml m fl d s = RErr e -> doc_err d e.
Proof.
  unfold doc_err. induction d as [|[l o] r IH]; intros s e; simpl; [intro H; discriminate H|].
  destruct l as [k|].
  - destruct (run_items XML m fl k _ s) as [s1|x] eqn:E.
    + intro H. destruct (IH s1 e H) as [A|[A|A]]; auto. right; right.
      unfold all_items in *. simpl. apply in_err_app_r. exact A.
    + intro H. injection H as <-. destruct (run_items_err XML m fl k _ s x E) as [A|[A|A]]; auto.
      right; right. unfold all_items. simpl. apply in_err_app_l.
      destruct o; [exact A | destruct A as [y [[] _]]].
  - destruct m; [|intro H; injection H as <-; right; left; reflexivity].
    intro H. destruct (IH s e H) as [A|[A|A]]; auto. right; right.
    unfold all_items in *. simpl. apply in_err_app_r. exact A.
Qed.

Lemma run_json_kind_err : forall m fl k d s e, run_json_kind m fl k d s = RErr e -> doc_err d e.
Proof.
  unfold doc_err. induction d as [|[l o] r IH]; intros s e; simpl; [intro H; discriminate H|].
  assert (Tail : forall s0, run_json_kind m fl k r s0 = RErr e ->
                 e = KeyError \/ e = TypeError \/ in_err (all_items ((l, o) :: r)) e).
  { intros s0 H. destruct (IH s0 e H) as [A|[A|A]]; auto. right; right.
    unfold all_items in *. simpl. apply in_err_app_r. exact A. }
  destruct (lkind_is k l); [|apply Tail].
  destruct (run_items JSON m fl k _ s) as [s1|x] eqn:E; [apply Tail|].
  intro H. injection H as <-. destruct (run_items_err JSON m fl k _ s x E) as [A|[A|A]]; auto.
  right; right. unfold all_items. simpl. apply in_err_app_l.
  destruct o; [exact A | destruct A as [y [[] _]]].
Qed.

Lemma first_broken_in : forall its e, first_broken its = Some e -> in_err its e.
Proof.
  induction its as [|it r IH]; intros e; simpl; [intro H; discriminate H|].
  destruct (strict_exn it) as [x|] eqn:S; intro H.
  - injection H as <-. exists it. split; [left; reflexivity | exact S].
  - destruct (IH e H) as [y [A B]]. exists y. split; [right; exact A | exact B].
Qed.

Theorem walk_errors : forall f m fl d st e, walk f m fl d st = RErr e -> doc_err d e.
Proof.
  intros f m fl d st e. destruct f; simpl.
  - assert (J : forall s, run_json m fl d s = RErr e -> doc_err d e).
    { intros s. unfold run_json.
      destruct (run_json_kind m fl KShell d s) as [s1|x] eqn:E1; simpl;
        [|intro H; injection H as <-; eapply run_json_kind_err; exact E1].
      destruct (run_json_kind m fl KSubmodel d s1) as [s2|x] eqn:E2; simpl;
        [|intro H; injection H as <-; eapply run_json_kind_err; exact E2].
      apply run_json_kind_err. }
    destruct m; [apply J|].
    destruct (first_broken (all_items d)) as [x|] eqn:F; [|apply J].
    intro H. injection H as <-. right; right. apply first_broken_in. exact F.
  - apply run_xml_err.
Qed.

(* ------------------------------------------------------------------ isolation *)
Definition agree (k : Z) (s1 s2 : state) : Prop :=
  lookup (fst s1) k = lookup (fst s2) k /\ memz k (snd s1) = memz k (snd s2).

Lemma agree_refl : forall k s, agree k s s.
Proof. intros; split; reflexivity. Qed.
Lemma agree_sym : forall k a b, agree k a b -> agree k b a.
Proof. intros k a b [H1 H2]; split; symmetry; assumption. Qed.
Lemma agree_trans : forall k a b c, agree k a b -> agree k b c -> agree k a c.
Proof. intros k a b c [H1 H2] [H3 H4]; split; etransitivity; eassumption. Qed.

Lemma accept_other : forall m fl id p s s' k, id <> k -> accept m fl id p s = ROk s' -> agree k s s'.
Proof.
  intros m fl id p [st ret] s' k N. unfold accept.
  destruct (memz id ret); [destruct m; intro H; [injection H as <-; apply agree_refl | discriminate H]|].
  destruct (lookup st id).
  - destruct (fl_replace fl).
    + intro H. injection H as <-. split; simpl.
      * destruct (Z.eqb id k) eqn:E; [apply Z.eqb_eq in E; contradiction|].
        symmetry. apply lookup_discard_other. exact N.
      * symmetry. apply memz_cons_other. exact N.
    + destruct (fl_ignore fl); intro H; [injection H as <-; apply agree_refl | discriminate H].
  - intro H. injection H as <-. split; simpl.
    + destruct (Z.eqb id k) eqn:E; [apply Z.eqb_eq in E; contradiction | reflexivity].
    + symmetry. apply memz_cons_other. exact N.
Qed.

Lemma accept_same : forall fl k p s1 s2 s1' s2', agree k s1 s2 ->
  accept true fl k p s1 = ROk s1' -> accept true fl k p s2 = ROk s2' -> agree k s1' s2'.
Proof.
  intros fl k p [st1 ret1] [st2 ret2] s1' s2' [A1 A2]. simpl in A1, A2. unfold accept.
  rewrite <- A2. destruct (memz k ret1) eqn:M.
  - intros H1 H2. injection H1 as <-. injection H2 as <-. split; simpl; [exact A1 | rewrite M; exact A2].
  - rewrite <- A1. destruct (lookup st1 k) eqn:L.
    + destruct (fl_replace fl).
      * intros H1 H2. injection H1 as <-. injection H2 as <-. split; cbn [fst snd].
        -- rewrite !lookup_cons_same. reflexivity.
        -- rewrite !memz_cons_same. reflexivity.
      * destruct (fl_ignore fl); intros H1 H2; [|discriminate H1].
        injection H1 as <-. injection H2 as <-. split; simpl; [rewrite L; exact A1 | rewrite M; exact A2].
    + intros H1 H2. injection H1 as <-. injection H2 as <-. split; cbn [fst snd].
      * rewrite !lookup_cons_same. reflexivity.
      * rewrite !memz_cons_same. reflexivity.
Qed.

Lemma step_other : forall f fl l it s s' k, item_id it <> Some k -> step f true fl l it s = ROk s' -> agree k s s'.
Proof.
  intros f fl l it s s' k N. destruct it as [c id p se|e|]; simpl.
  - assert (N' : id <> k) by (intro X; apply N; simpl; congruence).
    destruct (okind_eqb l c); [destruct se; apply accept_other; exact N'|].
    destruct f; [apply accept_other; exact N' | intro H; injection H as <-; apply agree_refl].
  - destruct f; intro H; injection H as <-; apply agree_refl.
  - intro H; injection H as <-; apply agree_refl.
Qed.

Lemma step_rel : forall f fl l a b s1 s2 s1' s2' k, item_rel k a b -> agree k s1 s2 ->
  step f true fl l a s1 = ROk s1' -> step f true fl l b s2 = ROk s2' -> agree k s1' s2'.
Proof.
  intros f fl l a b s1 s2 s1' s2' k R A H1 H2. destruct R as [<-|[Na Nb]].
  - destruct a as [c id p se|e|].
    + destruct (Z.eq_dec id k) as [->|N].
      * simpl in H1, H2. destruct (okind_eqb l c); [destruct se; eapply accept_same; eassumption|].
        destruct f; [eapply accept_same; eassumption|].
        injection H1 as <-. injection H2 as <-. exact A.
      * assert (Ni : item_id (IObj c id p se) <> Some k) by (simpl; congruence).
        apply (agree_trans k s1' s1 s2'); [apply agree_sym; eapply step_other; eassumption|].
        apply (agree_trans k s1 s2 s2'); [exact A | eapply step_other; eassumption].
    + simpl in H1, H2. destruct f; injection H1 as E1; injection H2 as E2; subst s1' s2'; exact A.
    + simpl in H1, H2. injection H1 as E1; injection H2 as E2; subst s1' s2'; exact A.
  - apply (agree_trans k s1' s1 s2'); [apply agree_sym; exact (step_other f fl l a s1 s1' k Na H1)|].
    apply (agree_trans k s1 s2 s2'); [exact A | exact (step_other f fl l b s2 s2' k Nb H2)].
Qed.

Lemma run_items_rel : forall f fl l k A B, Forall2 (item_rel k) A B ->
  forall s1 s2 s1' s2', agree k s1 s2 ->
  run_items f true fl l A s1 = ROk s1' -> run_items f true fl l B s2 = ROk s2' -> agree k s1' s2'.
Proof.
  intros f fl l k A B F. induction F as [|a b A B R F IH]; intros s1 s2 s1' s2' Ag; simpl.
  - intros H1 H2. injection H1 as <-. injection H2 as <-. exact Ag.
  - destruct (step f true fl l a s1) as [t1|e1] eqn:E1; [|intro H; discriminate H].
    destruct (step f true fl l b s2) as [t2|e2] eqn:E2; [|intros _ H; discriminate H].
    apply IH. eapply step_rel; eassumption.
Qed.

Lemma items_of_rel : forall k (a b : lkind * option (list item)), list_rel k a b ->
  Forall2 (item_rel k) (match snd a with Some its => its | None => [] end)
                       (match snd b with Some its => its | None => [] end).
Proof.
  intros k [la oa] [lb ob] [_ H]. simpl in *. destruct oa, ob; try contradiction; [exact H | constructor].
Qed.

Lemma run_xml_rel : forall fl k d d', doc_rel k d d' ->
  forall s1 s2 s1' s2', agree k s1 s2 ->
  run_xml true fl d s1 = ROk s1' -> run_xml true fl d' s2 = ROk s2' -> agree k s1' s2'.
Proof.
  intros fl k d d' F. induction F as [|a b d d' R F IH]; intros s1 s2 s1' s2' Ag; simpl.
  - intros H1 H2. injection H1 as <-. injection H2 as <-. exact Ag.
  - pose proof (items_of_rel k a b R) as IR. destruct a as [la oa], b as [lb ob].
    destruct R as [EL _]. simpl in EL. subst lb. simpl in IR. destruct la as [c|]; [|apply IH; exact Ag].
    destruct (run_items XML true fl c _ s1) as [t1|e1] eqn:E1; [|intro H; discriminate H].
    destruct (run_items XML true fl c _ s2) as [t2|e2] eqn:E2; [|intros _ H; discriminate H].
    apply IH. eapply run_items_rel; eassumption.
Qed.

Lemma run_json_kind_rel : forall fl c k d d', doc_rel k d d' ->
  forall s1 s2 s1' s2', agree k s1 s2 ->
  run_json_kind true fl c d s1 = ROk s1' -> run_json_kind true fl c d' s2 = ROk s2' -> agree k s1' s2'.
Proof.
  intros fl c k d d' F. induction F as [|a b d d' R F IH]; intros s1 s2 s1' s2' Ag; simpl.
  - intros H1 H2. injection H1 as <-. injection H2 as <-. exact Ag.
  - pose proof (items_of_rel k a b R) as IR. destruct a as [la oa], b as [lb ob].
    destruct R as [EL _]. simpl in EL. subst lb. simpl in IR.
    destruct (lkind_is c la); [|apply IH; exact Ag].
    destruct (run_items JSON true fl c _ s1) as [t1|e1] eqn:E1; [|intro H; discriminate H].
    destruct (run_items JSON true fl c _ s2) as [t2|e2] eqn:E2; [|intros _ H; discriminate H].
    apply IH. eapply run_items_rel; eassumption.
Qed.

Lemma run_json_rel : forall fl k d d', doc_rel k d d' ->
  forall s1 s2 s1' s2', agree k s1 s2 ->
  run_json true fl d s1 = ROk s1' -> run_json true fl d' s2 = ROk s2' -> agree k s1' s2'.
Proof.
  intros fl k d d' F s1 s2 s1' s2' Ag. unfold run_json.
  destruct (run_json_kind true fl KShell d s1) as [a1|e] eqn:A1; [|intro H; discriminate H].
  destruct (run_json_kind true fl KShell d' s2) as [b1|e] eqn:B1; [|intros _ H; discriminate H]. simpl.
  destruct (run_json_kind true fl KSubmodel d a1) as [a2|e] eqn:A2; [|intro H; discriminate H].
  destruct (run_json_kind true fl KSubmodel d' b1) as [b2|e] eqn:B2; [|intros _ H; discriminate H]. simpl.
  apply (run_json_kind_rel fl KCD k d d' F).
  apply (run_json_kind_rel fl KSubmodel k d d' F a1 b1 a2 b2); [|exact A2 | exact B2].
  apply (run_json_kind_rel fl KShell k d d' F s1 s2 a1 b1 Ag A1 B1).
Qed.

(* d' is d with any number of items replaced by damaged versions; if neither the original nor the damaged version
   of a replaced item carries identifier k, the failsafe result for k is the same *)
Theorem walk_isolation : forall f fl d d' st k, conflict_free fl st = true -> doc_rel k d d' ->
  lookup_result f fl d st k = lookup_result f fl d' st k.
Proof.
  intros f fl d d' st k C R. unfold lookup_result.
  destruct (walk_failsafe_total f fl d st C) as [[s1 r1] E1].
  destruct (walk_failsafe_total f fl d' st C) as [[s2 r2] E2].
  rewrite E1, E2. destruct f; simpl in E1, E2.
  - exact (proj1 (run_json_rel fl k d d' R (st, []) (st, []) (s1, r1) (s2, r2) (agree_refl k _) E1 E2)).
  - exact (proj1 (run_xml_rel fl k d d' R (st, []) (st, []) (s1, r1) (s2, r2) (agree_refl k _) E1 E2)).
Qed.

(* ------------------------------------------------------------------ a concrete document *)
(* shells: [A(id 1); broken; B(id 2)], submodels: [S(id 3); duplicate of id 1 as a submodel; a shell (id 4) in the
   wrong list; a non-object], an unknown list, concept descriptions: not a list *)
Definition ex_doc : doc :=
  [(LKnown KShell, Some [IObj KShell 1 10 None; IBroken ValueError; IObj KShell 2 20 (Some KeyError)]);
   (LKnown KSubmodel, Some [IObj KSubmodel 3 30 None; IObj KSubmodel 1 11 None; IObj KShell 4 40 None; IOther]);
   (LUnknown, Some [IObj KSubmodel 5 50 None]);
   (LKnown KCD, None)].
Definition ex_doc_damaged : doc :=    (* the first shell damaged beyond recognition *)
  [(LKnown KShell, Some [IBroken KeyError; IBroken ValueError; IObj KShell 2 20 (Some KeyError)]);
   (LKnown KSubmodel, Some [IObj KSubmodel 3 30 None; IObj KSubmodel 1 11 None; IObj KShell 4 40 None; IOther]);
   (LUnknown, Some [IObj KSubmodel 5 50 None]);
   (LKnown KCD, None)].
Definition no_flags : flags := {| fl_replace := false; fl_ignore := false |}.
Definition walk_example_ok : bool :=
  let o := fun f m d => obs_walk (walk f m no_flags d []) in
  let eqb := fun a b => if list_eq_dec Z.eq_dec a b then true else false in
  (* JSON failsafe keeps 1 (first wins), 2, 3, 4 (wrong list, used anyway); XML drops 4 *)
  eqb (o JSON true ex_doc) [0; 4; 1; 10; 2; 20; 3; 30; 4; 40] &&
  eqb (o XML true ex_doc) [0; 3; 1; 10; 2; 20; 3; 30] &&
  (* strict: JSON raises the broken object's class at load time, XML when the walk reaches it *)
  eqb (o JSON false ex_doc) [1; exn_z ValueError] && eqb (o XML false ex_doc) [1; exn_z ValueError] &&
  (* after the damage the former duplicate (a submodel with id 1) is the first with that id; 2 and 3 are untouched *)
  eqb (o JSON true ex_doc_damaged) [0; 4; 1; 11; 2; 20; 3; 30; 4; 40] &&
  eqb (o XML true ex_doc_damaged) [0; 3; 1; 11; 2; 20; 3; 30].
Lemma walk_example_proof : walk_example_ok = true.
Proof. vm_compute. reflexivity. Qed.

Lemma ex_doc_rel : doc_rel 2 ex_doc ex_doc_damaged.
Proof.
  unfold doc_rel, ex_doc, ex_doc_damaged.
  repeat (constructor; [split; [reflexivity|]; simpl; try exact I;
                        repeat (constructor; [first [left; reflexivity | right; split; simpl; congruence]|]);
                        try constructor|]); constructor.
Qed.
