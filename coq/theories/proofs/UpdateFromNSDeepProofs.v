(* More about model/UpdateFromNS.v: well-formedness of the result at every depth, statements along
   paths of (set index, idShort) steps, and the single-set trees of model/UpdateFrom.v as the
   one-set instance. *)
From Coq Require Import List ZArith Bool Arith Lia.
From Basyx Require Import model.UpdateFrom model.UpdateFromNS proofs.UpdateFromProofs proofs.UpdateFromNSProofs.
Import ListNotations.
Local Open Scope nat_scope.

(* ---- where the objects of an updated set come from ---------------------------------------- *)
Lemma spec_sets_in : forall f ls ns S, In S (spec_sets f ls ns) ->
  exists s o, In s ls /\ In o ns /\ S = spec_set f s o.
Proof.
  induction ls as [|s rl IH]; intros [|o rn] S0 I; simpl in I; try contradiction.
  destruct I as [I|I].
  - exists s, o. simpl. auto.
  - destruct (IH rn S0 I) as [s1 [o1 [A [B C]]]]. exists s1, o1. simpl. auto.
Qed.
Lemma spec_set_in : forall f s o x, In x (spec_set f s o) ->
  (exists l n', In l s /\ In n' o /\ m_key l = m_key n' /\ m_cls l = m_cls n' /\ x = f l n') \/ In x o.
Proof.
  intros f s o x I. unfold spec_set in I. apply in_app_or in I. destruct I as [I|I].
  - left. unfold kept in I. apply in_flat_map in I. destruct I as [l [IL I]].
    destruct (find_mkid (m_key l) o) as [n'|] eqn:F; [|contradiction].
    destruct (Nat.eqb (m_cls n') (m_cls l)) eqn:C; [|contradiction]. destruct I as [I|[]].
    destruct (find_mkid_key _ _ _ F) as [K IO]. apply Nat.eqb_eq in C.
    exists l, n'. repeat split; auto.
  - right. apply (added_in _ _ _ I).
Qed.

Section Deep.
  Variable arity : nat -> nat.

  Lemma wfm_inv1 : forall n, wfm arity n -> wfm1 arity n.
  Proof. intros n W. inversion W; auto. Qed.
  Lemma wfm_kid : forall n S x, wfm arity n -> In S (m_sets n) -> In x S -> wfm arity x.
  Proof. intros n S0 x W. inversion W; eauto. Qed.

  Lemma unode_wfm1 : forall live new us, wfm arity live -> wfm arity new -> m_cls live = m_cls new ->
    wfm1 arity (unode live new us).
  Proof.
    intros live new us WL WN C. destruct (ns_unique arity live new us WL WN C) as [r [E [W _]]].
    rewrite (updm_ok arity) in E; auto. inversion E; subst r. exact W.
  Qed.

  (* (1) the result is well-formed at every depth *)
  Lemma unode_wfm : forall new live us, wfm arity live -> wfm arity new -> m_cls live = m_cls new ->
    wfm arity (unode live new us).
  Proof.
    induction new as [o' c' k' p' s' q' sets' IH] using mnode_ind'. intros live us WL WN C.
    constructor; [apply unode_wfm1; auto|].
    intros S0 x IS IX. unfold unode in IS. simpl in IS.
    destruct (spec_sets_in _ _ _ _ IS) as [s [o [ISL [ION E]]]]. subst S0.
    destruct (spec_set_in _ _ _ _ IX) as [[l [n' [IL [IN' [K [CC EX]]]]]]|IO].
    - subst x. assert (WLl := wfm_kid live s l WL ISL IL). assert (WNn := wfm_kid _ o n' WN ION IN').
      rewrite (updt_eq arity n' l true WLl WNn CC). apply (IH o ION n' IN' l true WLl WNn CC).
    - apply (wfm_kid _ o x WN ION IO).
  Qed.

  Lemma updm_wfm : forall live new us, wfm arity live -> wfm arity new -> m_cls live = m_cls new ->
    exists r, updm true live new us = Ok r /\ wfm arity r.
  Proof.
    intros live new us WL WN C. exists (unode live new us). split; [apply (updm_ok arity); auto|apply unode_wfm; auto].
  Qed.

  (* ---- (2) paths of (set index, idShort) steps ---------------------------------------------- *)
  Fixpoint mresolve (n : mnode) (p : list (nat * nat)) : option mnode :=
    match p with
    | [] => Some n
    | (i, k) :: r => match find_in i k n with Some x => mresolve x r | None => None end
    end.

  Definition msame_attrs (r n : mnode) : Prop :=
    m_cls r = m_cls n /\ m_key r = m_key n /\ m_pay r = m_pay n /\
    forall qk, option_map snd (find_q qk (m_quals r)) = option_map snd (find_q qk (m_quals n)).
  Lemma msame_attrs_refl : forall n, msame_attrs n n.
  Proof. intro. repeat split; auto. Qed.

  Lemma find_in_in : forall i k n x, find_in i k n = Some x -> exists S, In S (m_sets n) /\ In x S /\ m_key x = k.
  Proof.
    intros i k n x F. unfold find_in in F. destruct (nth_error (m_sets n) i) as [S0|] eqn:E; [|discriminate].
    destruct (find_mkid_key _ _ _ F) as [K I]. exists S0. split; [eapply nth_error_In; eauto|auto].
  Qed.
  Lemma find_in_wfm : forall i k n x, wfm arity n -> find_in i k n = Some x -> wfm arity x.
  Proof. intros i k n x W F. destruct (find_in_in _ _ _ _ F) as [S0 [A [B _]]]. apply (wfm_kid n S0 x W A B). Qed.
  Lemma msurvivor_spec : forall s n' l, msurvivor s n' = Some l ->
    find_mkid (m_key n') s = Some l /\ m_cls l = m_cls n'.
  Proof.
    intros s n' l M. unfold msurvivor in M. destruct (find_mkid (m_key n') s) as [l0|]; [|discriminate].
    destruct (Nat.eqb (m_cls l0) (m_cls n')) eqn:C; [|discriminate]. inversion M; subst. apply Nat.eqb_eq in C. auto.
  Qed.
  Lemma set_of_find : forall i k n, find_mkid k (set_of i n) = find_in i k n.
  Proof. intros. unfold set_of, find_in. destruct (nth_error (m_sets n) i); reflexivity. Qed.

  (* equality at every depth *)
  Lemma mequal_paths : forall p live new us, wfm arity live -> wfm arity new -> m_cls live = m_cls new ->
    exists res, updm true live new us = Ok res /\
      match mresolve new p with
      | None => mresolve res p = None
      | Some n => exists r, mresolve res p = Some r /\ msame_attrs r n /\
                            ((us = true \/ p <> []) -> m_src r = m_src n)
      end.
  Proof.
    induction p as [|[i k] r IH]; intros live new us WL WN C.
    - exists (unode live new us). split; [apply (updm_ok arity); auto|]. simpl.
      exists (unode live new us). split; auto. split.
      + unfold unode, msame_attrs. simpl. split; [exact C|]. split; [reflexivity|]. split; [reflexivity|]. intro qk.
        destruct (wfm_inv1 _ WL) as [_ [QL _]]. destruct (wfm_inv1 _ WN) as [_ [QN _]].
        rewrite (qual_lookup _ _ qk QL QN).
        destruct (find_q qk (m_quals new)) as [[o' v']|]; auto.
        destruct (find_q qk (m_quals live)) as [[o v]|]; reflexivity.
      + intros [U|U]; [|contradiction]. unfold unode. simpl. rewrite U. reflexivity.
    - destruct (ns_children arity live new us i k WL WN C) as [res [E [_ [_ [_ [_ [_ F]]]]]]].
      exists res. split; auto. simpl. rewrite F.
      destruct (find_in i k new) as [n'|] eqn:FN; auto.
      assert (WN' := find_in_wfm _ _ _ _ WN FN).
      destruct (msurvivor (set_of i live) n') as [l|] eqn:M.
      + destruct (msurvivor_spec _ _ _ M) as [FL CL]. rewrite set_of_find in FL.
        assert (WL' := find_in_wfm _ _ _ _ WL FL).
        destruct (IH l n' true WL' WN' CL) as [res' [E' H]]. rewrite E'.
        destruct (mresolve n' r) as [n|]; auto.
        destruct H as [x [R1 [R2 R3]]]. exists x. split; [exact R1|]. split; [exact R2|]. intros _. apply R3. left. reflexivity.
      + destruct (mresolve n' r) as [n|]; auto. exists n. split; auto. split; [apply msame_attrs_refl|auto].
  Qed.

  (* every step of the path finds a same-class object in the SAME set of the live tree *)
  Fixpoint mmatch (live new : mnode) (p : list (nat * nat)) : bool :=
    match p with
    | [] => true
    | (i, k) :: r => match find_in i k live, find_in i k new with
                     | Some l, Some n => Nat.eqb (m_cls l) (m_cls n) && mmatch l n r
                     | _, _ => false
                     end
    end.

  (* identity: along a matching path the live tree's object (and its surviving qualifiers /
     extensions) stays; from the first step that does not match on, the node is the other tree's *)
  Lemma midentity_paths : forall p live new us, wfm arity live -> wfm arity new -> m_cls live = m_cls new ->
    exists res, updm true live new us = Ok res /\
      forall n, mresolve new p = Some n ->
        if mmatch live new p
        then exists l r, mresolve live p = Some l /\ mresolve res p = Some r /\ m_oid r = m_oid l /\
               (forall qk qo qv x, find_q qk (m_quals l) = Some (qo, qv) -> find_q qk (m_quals n) = Some x ->
                                   exists v, find_q qk (m_quals r) = Some (qo, v))
        else mresolve res p = Some n.
  Proof.
    induction p as [|[i k] r IH]; intros live new us WL WN C.
    - exists (unode live new us). split; [apply (updm_ok arity); auto|]. simpl. intros n E. inversion E; subst n.
      exists live, (unode live new us). repeat split; auto.
      intros qk qo qv [o' v'] Q1 Q2. unfold unode. simpl.
      destruct (wfm_inv1 _ WL) as [_ [QL _]]. destruct (wfm_inv1 _ WN) as [_ [QN _]].
      rewrite (qual_lookup _ _ qk QL QN), Q2, Q1. eauto.
    - destruct (ns_children arity live new us i k WL WN C) as [res [E [_ [_ [_ [_ [_ F]]]]]]].
      exists res. split; auto. simpl. intros n R. rewrite F.
      destruct (find_in i k new) as [n'|] eqn:FN; [|discriminate].
      assert (WN' := find_in_wfm _ _ _ _ WN FN).
      destruct (find_in_in _ _ _ _ FN) as [S0 [_ [_ KN]]].
      unfold msurvivor. rewrite set_of_find, KN.
      destruct (find_in i k live) as [l|] eqn:FL; [|exact R].
      destruct (Nat.eqb (m_cls l) (m_cls n')) eqn:CC; simpl; [|exact R].
      apply Nat.eqb_eq in CC. assert (WL' := find_in_wfm _ _ _ _ WL FL).
      destruct (IH l n' true WL' WN' CC) as [res' [E' H]]. rewrite E'. apply (H n R).
  Qed.
End Deep.

(* ---- (3) the single-set trees of model/UpdateFrom.v are the one-set instance ----------------- *)
Section NodeInd.
  Variable P : node -> Prop.
  Hypothesis H : forall o c k p s q ch, (forall x, In x ch -> P x) -> P (Node o c k p s q ch).
  Lemma node_ind' : forall n, P n.
  Proof.
    fix IH 1. intros [o c k p s q ch]. apply H.
    induction ch as [|x r IHx]; intros y Hy; [destruct Hy|].
    destruct Hy as [E|Hy]; [rewrite <- E; apply IH|apply IHx; exact Hy].
  Qed.
End NodeInd.

Lemma emb_key : forall x, m_key (emb x) = n_key x. Proof. intros []; reflexivity. Qed.
Lemma emb_cls : forall x, m_cls (emb x) = n_cls x. Proof. intros []; reflexivity. Qed.
Lemma mkeys_emb : forall l, mkeys (map emb l) = map n_key l.
Proof. induction l as [|x r IH]; simpl; auto. rewrite emb_key, IH. reflexivity. Qed.
Lemma find_mkid_emb : forall k l, find_mkid k (map emb l) = option_map emb (find_kid k l).
Proof.
  induction l as [|x r IH]; simpl; auto. rewrite emb_key. destruct (Nat.eqb (n_key x) k); auto.
Qed.
Lemma filter_map' : forall {A B} (g : A -> B) (p : B -> bool) l,
  filter p (map g l) = map g (filter (fun x => p (g x)) l).
Proof. induction l as [|x r IH]; simpl; auto. destruct (p (g x)); simpl; rewrite IH; reflexivity. Qed.
Lemma msurvivor_emb : forall lk n0, msurvivor (map emb lk) (emb n0) = option_map emb (survivor_of lk n0).
Proof.
  intros lk n0. unfold msurvivor, survivor_of. rewrite emb_key, find_mkid_emb.
  destruct (find_kid (n_key n0) lk) as [l|]; simpl; auto. rewrite !emb_cls.
  destruct (Nat.eqb (n_cls l) (n_cls n0)); reflexivity.
Qed.

Lemma emb_spec_set : forall f live ch',
  NoDup (map n_key (n_kids live)) -> NoDup (map n_key ch') ->
  (forall l0 n0, In l0 (n_kids live) -> In n0 ch' -> n_key l0 = n_key n0 -> n_cls l0 = n_cls n0 ->
                 f (emb l0) (emb n0) = emb (upd l0 n0 true)) ->
  spec_set f (map emb (n_kids live)) (map emb ch') = map emb (upd_kids live ch').
Proof.
  intros f live ch' NL NN HF. unfold spec_set, upd_kids. rewrite map_app. f_equal.
  - unfold kept.
    assert (GEN : forall l0s, incl l0s (n_kids live) ->
      flat_map (fun l => match find_mkid (m_key l) (map emb ch') with
                         | Some n' => if Nat.eqb (m_cls n') (m_cls l) then [f l n'] else []
                         | None => [] end) (map emb l0s) =
      map emb (flat_map (fun l => match find_q (n_key l) (survivors live ch') with Some u => [u] | None => [] end) l0s)).
    { induction l0s as [|l r IH]; intro INC; simpl; auto.
      assert (IL : In l (n_kids live)) by (apply INC; left; reflexivity).
      assert (INC' : incl r (n_kids live)) by (intros x X; apply INC; right; exact X).
      rewrite map_app, <- (IH INC'). f_equal.
      rewrite emb_key, find_mkid_emb, (survivors_lookup live ch' (n_key l) NN).
      destruct (find_kid (n_key l) ch') as [n0|] eqn:F; simpl; auto.
      destruct (find_kid_key _ _ _ F) as [K IN0].
      unfold survivor_of. rewrite K, (find_kid_in _ l NL IL). rewrite !emb_cls, (Nat.eqb_sym (n_cls n0) (n_cls l)).
      destruct (Nat.eqb (n_cls l) (n_cls n0)) eqn:CC; simpl; auto.
      apply Nat.eqb_eq in CC. rewrite (HF l n0 IL IN0 (eq_sym K) CC). reflexivity. }
    apply GEN. intros x X; exact X.
  - unfold added, to_add. rewrite filter_map'. f_equal. apply filter_ext_in. intros n0 IN0.
    rewrite (rni_find (map emb (n_kids live)) (map emb ch') (emb n0)).
    + rewrite msurvivor_emb. destruct (survivor_of (n_kids live) n0); reflexivity.
    + rewrite mkeys_emb. exact NL.
    + rewrite mkeys_emb. exact NN.
    + apply in_map. exact IN0.
Qed.

Lemma updm_emb : forall new live us, wf live -> wf new ->
  updm true (emb live) (emb new) us = Ok (emb (upd live new us)).
Proof.
  induction new as [o' c' k' p' s' q' ch' IH] using node_ind'. intros live us WL WN.
  destruct (wf_root _ WL) as [NL QL]. destruct (wf_root _ WN) as [NN QN]. simpl in NN.
  rewrite upd_eq.
  assert (HK : forall l0 n0, In l0 (n_kids live) -> In n0 ch' ->
               updm true (emb l0) (emb n0) true = Ok (emb (upd l0 n0 true))).
  { intros l0 n0 I1 I2. apply (IH n0 I2 l0 true).
    - apply (wf_kid live (n_key l0) l0 WL). apply find_kid_in; auto.
    - apply (wf_kid _ (n_key n0) n0 WN). simpl. apply find_kid_in; auto. }
  destruct live as [o c k p s q lk]. simpl in *.
  rewrite (upd_sets_spec _ (fun a b => updt a b true) [map emb lk] [map emb ch']).
  - assert (HF : forall l0 n0, In l0 lk -> In n0 ch' -> n_key l0 = n_key n0 -> n_cls l0 = n_cls n0 ->
                 updt (emb l0) (emb n0) true = emb (upd l0 n0 true)).
    { intros l0 n0 I1 I2 _ _. unfold updt. rewrite (HK l0 n0 I1 I2). reflexivity. }
    pose proof (emb_spec_set (fun a b => updt a b true) (Node o c k p s q lk) ch' NL NN HF) as ES.
    cbn [spec_sets]. cbn [n_kids] in ES. rewrite ES. reflexivity.
  - reflexivity.
  - simpl. rewrite app_nil_r, mkeys_emb. exact NL.
  - simpl. rewrite app_nil_r, mkeys_emb. exact NN.
  - intros l n' I1 I2 _ _. simpl in I1, I2. rewrite app_nil_r in I1, I2.
    apply in_map_iff in I1. destruct I1 as [l0 [E1 I1]]. apply in_map_iff in I2. destruct I2 as [n0 [E2 I2]].
    subst l n'. unfold updt. rewrite (HK l0 n0 I1 I2). split; auto.
    rewrite !emb_key. destruct (upd_fields l0 n0 true) as [_ [_ [K _]]]. exact K.
Qed.
