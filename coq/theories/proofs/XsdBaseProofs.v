(* C06 - lemmas about model/XsdBase.v and model/XsdRe.v: the derivative matcher decides [lang];
   decimal numerals round-trip; whitespace collapse; exhaustive checks over integer ranges. *)
From Coq Require Import List ZArith Bool Ascii String Lia.
From Basyx Require Import model.XsdBase model.XsdRe.
Import ListNotations.
Local Open Scope Z_scope.

(* ---------------------------------------------------------------- regular expressions *)
Lemma lang_emp s : ~ lang Emp s.
Proof. inversion 1. Qed.
Ltac emp := match goal with X : lang Emp _ |- _ => inversion X end.

Lemma cat'_ok a b s : lang (Cat a b) s -> lang (cat' a b) s.
Proof.
  intros H. unfold cat'.
  destruct a; try (inversion H; subst; emp; fail);
  destruct b; try (inversion H; subst; emp; fail); exact H.
Qed.
Lemma cat'_inv a b s : lang (cat' a b) s -> lang (Cat a b) s.
Proof. unfold cat'. destruct a; try (intros; emp; fail); destruct b; try (intros; emp; fail); trivial. Qed.
Lemma alt'_ok a b s : lang (Alt a b) s -> lang (alt' a b) s.
Proof.
  intros H. unfold alt'.
  destruct a; destruct b; try exact H; inversion H; subst; try emp; trivial.
Qed.
Lemma alt'_inv a b s : lang (alt' a b) s -> lang (Alt a b) s.
Proof.
  unfold alt'. destruct a; destruct b; trivial; intros H; try emp;
    try (apply LAltR; exact H); try (apply LAltL; exact H).
Qed.

Lemma nullable_ok r : lang r [] -> nullable r = true.
Proof.
  intros H. remember [] as s eqn:E. induction H; cbn; try discriminate; auto.
  - apply app_eq_nil in E as [-> ->]. rewrite IHlang1, IHlang2; auto.
  - rewrite IHlang; auto.
  - rewrite IHlang; auto using orb_true_r.
Qed.
Lemma nullable_inv r : nullable r = true -> lang r [].
Proof.
  induction r; cbn; try discriminate; intros H.
  - constructor.
  - apply andb_true_iff in H as [H1 H2]. change (@nil ascii) with (@nil ascii ++ []). constructor; auto.
  - apply orb_true_iff in H as [H|H]; [apply LAltL|apply LAltR]; auto.
  - constructor.
Qed.

Lemma deriv_ok r c s : lang r (c :: s) -> lang (deriv c r) s.
Proof.
  intros H. remember (c :: s) as cs eqn:E. revert c s E.
  induction H; intros c0 s0 E; cbn.
  - discriminate.
  - injection E as -> <-. rewrite H. constructor.
  - destruct s1 as [|x s1'].
    + cbn in E. subst s2. rewrite (nullable_ok _ H). apply alt'_ok, LAltR. apply IHlang2; reflexivity.
    + cbn in E. injection E as -> <-.
      assert (K : lang (cat' (deriv c0 a) b) (s1' ++ s2)).
      { apply cat'_ok. constructor; [apply IHlang1; reflexivity|exact H0]. }
      destruct (nullable a); [apply alt'_ok, LAltL|]; exact K.
  - apply alt'_ok, LAltL, IHlang, E.
  - apply alt'_ok, LAltR, IHlang, E.
  - discriminate.
  - destruct s1 as [|x s1'].
    + cbn in E. apply (IHlang2 _ _ E).
    + cbn in E. injection E as -> <-. apply cat'_ok. constructor; [apply IHlang1; reflexivity|exact H0].
Qed.
Lemma deriv_inv r : forall c s, lang (deriv c r) s -> lang r (c :: s).
Proof.
  induction r; cbn; intros c s H; try emp.
  - destruct (p c) eqn:E; [|emp]. inversion H; subst. constructor; exact E.
  - assert (K : forall t, lang (Cat (deriv c r1) r2) t -> lang (Cat r1 r2) (c :: t)).
    { intros t K. inversion K; subst. change (c :: s1 ++ s2) with ((c :: s1) ++ s2). constructor; auto. }
    destruct (nullable r1) eqn:N.
    + apply alt'_inv in H. inversion H; subst.
      * apply K, cat'_inv; assumption.
      * change (c :: s) with ([] ++ c :: s). constructor; [apply nullable_inv, N|auto].
    + apply K, cat'_inv, H.
  - apply alt'_inv in H. inversion H; subst; [apply LAltL|apply LAltR]; auto.
  - apply cat'_inv in H. inversion H; subst. change (c :: s1 ++ s2) with ((c :: s1) ++ s2).
    constructor; auto.
Qed.

Lemma matches_ok : forall s r, lang r s -> matches r s = true.
Proof. induction s; intros r H; cbn; [apply nullable_ok|apply IHs, deriv_ok]; exact H. Qed.
Lemma matches_inv : forall s r, matches r s = true -> lang r s.
Proof. induction s; intros r H; cbn in H; [apply nullable_inv|apply deriv_inv, IHs]; exact H. Qed.
Lemma matches_iff r s : matches r s = true <-> lang r s.
Proof. split; [apply matches_inv|apply matches_ok]. Qed.

(* compositional facts, stated on [matches] *)
Lemma m_cat a b s1 s2 : matches a s1 = true -> matches b s2 = true -> matches (Cat a b) (s1 ++ s2) = true.
Proof. intros H1 H2. apply matches_ok. constructor; apply matches_inv; assumption. Qed.
Lemma m_altl a b s : matches a s = true -> matches (Alt a b) s = true.
Proof. intros H. apply matches_ok, LAltL, matches_inv, H. Qed.
Lemma m_altr a b s : matches b s = true -> matches (Alt a b) s = true.
Proof. intros H. apply matches_ok, LAltR, matches_inv, H. Qed.
Lemma m_opt_none r : matches (opt r) [] = true.
Proof. reflexivity || (apply matches_ok, LAltR; constructor). Qed.
Lemma m_opt_some r s : matches r s = true -> matches (opt r) s = true.
Proof. apply m_altl. Qed.
Lemma m_eps : matches Eps [] = true.
Proof. reflexivity. Qed.
Lemma ceq_refl c : ceq c c = true.
Proof. apply Ascii.eqb_refl. Qed.
Lemma ceq_eq a b : ceq a b = true -> a = b.
Proof. apply Ascii.eqb_eq. Qed.
Lemma m_ch c : matches (ch c) [c] = true.
Proof. apply matches_ok. constructor. apply ceq_refl. Qed.
Lemma m_cls p c : p c = true -> matches (Cls p) [c] = true.
Proof. intros H. apply matches_ok. constructor. exact H. Qed.
Lemma m_cons_ch c r s : matches r s = true -> matches (Cat (ch c) r) (c :: s) = true.
Proof. intros H. change (c :: s) with ([c] ++ s). apply m_cat; [apply m_ch|exact H]. Qed.
Lemma m_lit_l s : matches (lit_l s) s = true.
Proof. induction s; [reflexivity|]. cbn [lit_l]. apply m_cons_ch, IHs. Qed.
Lemma m_star_cls p s : forallb p s = true -> matches (Star (Cls p)) s = true.
Proof.
  intros H. apply matches_ok. induction s as [|c s IH]; [constructor|].
  cbn in H. apply andb_true_iff in H as [H1 H2].
  change (c :: s) with ([c] ++ s). constructor; [constructor; exact H1|auto].
Qed.
Lemma m_plus_cls p s : s <> [] -> forallb p s = true -> matches (plus (Cls p)) s = true.
Proof.
  destruct s as [|c s]; [congruence|]. intros _ H. cbn in H. apply andb_true_iff in H as [H1 H2].
  change (c :: s) with ([c] ++ s). apply m_cat; [apply m_cls, H1|apply m_star_cls, H2].
Qed.

(* ---------------------------------------------------------------- characters and numerals *)
Lemma code_N c : code c = Z.of_N (N_of_ascii c).
Proof. destruct c as [[] [] [] [] [] [] [] []]; reflexivity. Qed.
Lemma code_chr z : 0 <= z < 256 -> code (chr z) = z.
Proof.
  intros H. rewrite code_N. unfold chr. rewrite N_ascii_embedding; [apply Z2N.id; lia|].
  apply N2Z.inj_lt. rewrite Z2N.id; lia.
Qed.
Lemma chr_code c : chr (code c) = c.
Proof. rewrite code_N. unfold chr. rewrite N2Z.id. apply ascii_N_embedding. Qed.
Lemma code_range c : 0 <= code c < 256.
Proof.
  rewrite code_N. split; [apply N2Z.is_nonneg|].
  change 256 with (Z.of_N 256). apply N2Z.inj_lt. apply N_ascii_bounded.
Qed.
Lemma digit_cases d : 0 <= d <= 9 ->
  d = 0 \/ d = 1 \/ d = 2 \/ d = 3 \/ d = 4 \/ d = 5 \/ d = 6 \/ d = 7 \/ d = 8 \/ d = 9.
Proof. lia. Qed.
Lemma dval_dchar d : 0 <= d <= 9 -> dval (dchar d) = d.
Proof. intros H. apply digit_cases in H. repeat destruct H as [H|H]; subst; reflexivity. Qed.
Lemma is_digit_dchar d : 0 <= d <= 9 -> is_digit (dchar d) = true.
Proof. intros H. apply digit_cases in H. repeat destruct H as [H|H]; subst; reflexivity. Qed.
Lemma is_digit_inv c : is_digit c = true -> c = dchar (dval c) /\ 0 <= dval c <= 9.
Proof.
  unfold is_digit, dval. intros H. apply andb_true_iff in H as [H1 H2].
  apply Z.leb_le in H1. apply Z.leb_le in H2.
  split; [|lia]. rewrite <- (chr_code c) at 1.
  assert (K : 0 <= code c - 48 <= 9) by lia. apply digit_cases in K.
  repeat destruct K as [K|K]; rewrite K; replace (code c) with (code c - 48 + 48) by lia; rewrite K; reflexivity.
Qed.

Lemma int_acc_app s : forall a t, int_acc a (s ++ t) = int_acc (int_acc a s) t.
Proof. induction s; intros; cbn; auto. Qed.

Lemma div_eucl_eq a b : Z.div_eucl a b = (a / b, a mod b).
Proof. unfold Z.div, Z.modulo. destruct (Z.div_eucl a b). reflexivity. Qed.

Lemma digs_S f n acc : digs (S f) n acc =
  if n <? 10 then dchar n :: acc else let '(q, r) := Z.div_eucl n 10 in digs f q (dchar r :: acc).
Proof. reflexivity. Qed.
(* digs with enough fuel prepends a non-empty digit string without superfluous leading zero whose value is n *)
Lemma digs_spec f : forall n acc, 0 <= n < 10 ^ Z.of_nat (S f) ->
  exists ds p, digs (S f) n acc = ds ++ acc /\ ds <> [] /\ forallb is_digit ds = true /\
               (forall a, int_acc a ds = a * p + n) /\ p = 10 ^ Z.of_nat (List.length ds) /\
               (p <= 10 * n \/ List.length ds = 1%nat).
Proof.
  induction f as [|f IH]; intros n acc H.
  - assert (n < 10) by (change (10 ^ Z.of_nat 1) with 10 in H; lia).
    cbn [digs]. destruct (Z.ltb_spec n 10); [|lia].
    exists [dchar n], 10. repeat split; [discriminate| | |right; reflexivity].
    + cbn [forallb]. rewrite is_digit_dchar by lia. reflexivity.
    + intros a. cbn [int_acc]. rewrite dval_dchar by lia. lia.
  - rewrite digs_S. destruct (Z.ltb_spec n 10).
    + exists [dchar n], 10. repeat split; [discriminate| | |right; reflexivity].
      * cbn [forallb]. rewrite is_digit_dchar by lia. reflexivity.
      * intros a. cbn [int_acc]. rewrite dval_dchar by lia. lia.
    + rewrite div_eucl_eq. cbv beta iota.
      assert (Hq : 0 <= n / 10 < 10 ^ Z.of_nat (S f)).
      { split; [apply Z.div_pos; lia|]. apply Z.div_lt_upper_bound; [lia|].
        replace (Z.of_nat (S (S f))) with (Z.succ (Z.of_nat (S f))) in H by lia.
        rewrite Z.pow_succ_r in H by lia. lia. }
      destruct (IH (n / 10) (dchar (n mod 10) :: acc) Hq) as (ds & p & E & Hne & Hd & Hv & Hp & Hlow).
      assert (Hm : 0 <= n mod 10 <= 9) by (pose proof (Z.mod_pos_bound n 10); lia).
      pose proof (Z.div_mod n 10 ltac:(lia)) as DM.
      exists (ds ++ [dchar (n mod 10)]), (10 * p). repeat split.
      * rewrite E, <- app_assoc. reflexivity.
      * destruct ds; discriminate.
      * rewrite forallb_app, Hd. cbn [forallb]. rewrite is_digit_dchar by lia. reflexivity.
      * intros a. rewrite int_acc_app, Hv. cbn [int_acc]. rewrite dval_dchar by lia. lia.
      * rewrite app_length. cbn [List.length]. rewrite Nat2Z.inj_add. change (Z.of_nat 1) with 1.
        rewrite Z.pow_add_r by lia. rewrite <- Hp. lia.
      * left. destruct Hlow as [Hlow|Hlow]; [lia|].
        rewrite Hlow in Hp. change (10 ^ Z.of_nat 1) with 10 in Hp. lia.
Qed.

Lemma str_nat_fuel n : 0 <= n -> n < 10 ^ Z.of_nat (S (Z.to_nat (Z.log2 n))).
Proof.
  intros H. destruct (Z.eq_dec n 0) as [->|Hn]; [reflexivity|].
  rewrite Nat2Z.inj_succ, Z2Nat.id by apply Z.log2_nonneg.
  pose proof (Z.log2_spec n ltac:(lia)) as [_ Hl].
  eapply Z.lt_le_trans; [exact Hl|].
  apply Z.pow_le_mono_l. pose proof (Z.log2_nonneg n). lia.
Qed.
Lemma str_nat_spec' n : 0 <= n ->
  str_nat n <> [] /\ forallb is_digit (str_nat n) = true /\ int_dec (str_nat n) = n /\
  (10 ^ Z.of_nat (List.length (str_nat n)) <= 10 * n \/ List.length (str_nat n) = 1%nat).
Proof.
  intros H. unfold str_nat.
  destruct (digs_spec (Z.to_nat (Z.log2 n)) n [] (conj H (str_nat_fuel n H))) as (ds & p & E & Hne & Hd & Hv & Hp & Hl).
  rewrite E, app_nil_r. repeat split; auto; [unfold int_dec; rewrite Hv; lia|]. rewrite <- Hp. exact Hl.
Qed.
Lemma str_nat_spec n : 0 <= n ->
  str_nat n <> [] /\ forallb is_digit (str_nat n) = true /\ int_dec (str_nat n) = n.
Proof. intros H. destruct (str_nat_spec' n H) as (A & B & C & _). auto. Qed.
Lemma str_nat_length n w : 0 <= n < 10 ^ Z.of_nat w -> (0 < w)%nat -> (List.length (str_nat n) <= w)%nat.
Proof.
  intros [H0 H] Hw. destruct (str_nat_spec' n H0) as (_ & _ & _ & [K|K]); [|lia].
  set (l := List.length (str_nat n)) in *.
  destruct (Nat.le_gt_cases l w) as [|G]; [assumption|exfalso].
  assert (10 ^ Z.of_nat (S w) <= 10 ^ Z.of_nat l) by (apply Z.pow_le_mono_r; lia).
  rewrite Nat2Z.inj_succ, Z.pow_succ_r in H1 by lia. lia.
Qed.
Lemma int_acc_zeros k : forall s, int_acc 0 (repeat "0"%char k ++ s) = int_acc 0 s.
Proof. induction k; intros s; cbn; auto. Qed.
(* '{:0<w>d}'.format(n) for 0 <= n < 10^w: exactly w digits denoting n *)
Lemma fmt_0d_spec w n : 0 <= n < 10 ^ Z.of_nat w -> (0 < w)%nat ->
  List.length (fmt_0d w n) = w /\ forallb is_digit (fmt_0d w n) = true /\ int_dec (fmt_0d w n) = n.
Proof.
  intros H Hw. unfold fmt_0d. destruct (Z.ltb_spec n 0); [lia|].
  pose proof (str_nat_length n w H Hw) as Hl. destruct (str_nat_spec n ltac:(lia)) as (_ & Hd & Hv).
  unfold zfill. repeat split.
  - rewrite app_length, repeat_length. lia.
  - rewrite forallb_app, Hd, andb_true_r. clear. induction (w - List.length (str_nat n))%nat; cbn; auto.
  - unfold int_dec. rewrite int_acc_zeros. exact Hv.
Qed.
Lemma str_nat_head_digit n : 0 <= n -> exists c r, str_nat n = c :: r /\ is_digit c = true.
Proof.
  intros H. destruct (str_nat_spec n H) as (Hne & Hd & _).
  destruct (str_nat n) as [|c r]; [congruence|]. cbn in Hd. apply andb_true_iff in Hd as [Hc _].
  exists c, r. auto.
Qed.

(* ---------------------------------------------------------------- span / strip *)
Lemma span_app p a r : forallb p a = true -> (match r with c :: _ => p c = false | [] => True end) ->
  span p (a ++ r) = (a, r).
Proof.
  intros Ha Hr. induction a as [|c a IH]; cbn.
  - destruct r as [|c r]; [reflexivity|]. cbn. rewrite Hr. reflexivity.
  - cbn in Ha. apply andb_true_iff in Ha as [Hc Ha]. rewrite Hc, (IH Ha). reflexivity.
Qed.
Lemma span_spec p s : forall a r, span p s = (a, r) ->
  s = a ++ r /\ forallb p a = true /\ match r with c :: _ => p c = false | [] => True end.
Proof.
  induction s as [|c s IH]; cbn; intros a r E.
  - injection E as <- <-. auto.
  - destruct (p c) eqn:Hc.
    + destruct (span p s) as [a' r'] eqn:E'. injection E as <- <-.
      destruct (IH _ _ eq_refl) as (-> & Ha & Hr). cbn. rewrite Hc. auto.
    + injection E as <- <-. cbn. auto.
Qed.
Lemma lstrip_app p a r : forallb p a = true -> (match r with c :: _ => p c = false | [] => True end) ->
  lstrip p (a ++ r) = r.
Proof.
  intros Ha Hr. induction a as [|c a IH]; cbn.
  - destruct r as [|c r]; [reflexivity|]. cbn. rewrite Hr. reflexivity.
  - cbn in Ha. apply andb_true_iff in Ha as [Hc Ha]. rewrite Hc. auto.
Qed.
Lemma lstrip_spec p s : exists a, s = a ++ lstrip p s /\ forallb p a = true /\
  match lstrip p s with c :: _ => p c = false | [] => True end.
Proof.
  induction s as [|c s (a & E & Ha & Hr)]; cbn.
  - exists []. auto.
  - destruct (p c) eqn:Hc.
    + exists (c :: a). cbn. rewrite Hc, Ha. split; [f_equal; exact E|auto].
    + exists []. cbn. rewrite Hc. auto.
Qed.

(* ---------------------------------------------------------------- whitespace collapse *)
Definition no_ws (s : str) : bool := forallb (fun c => negb (is_xsd_ws c)) s.
Lemma coll_core core : no_ws core = true -> forall r, coll true false (core ++ r) = core ++ coll true false r.
Proof.
  induction core as [|c core IH]; intros H r; [reflexivity|].
  cbn in H. apply andb_true_iff in H as [Hc H]. apply negb_true_iff in Hc.
  cbn. rewrite Hc. cbn. f_equal. apply IH, H.
Qed.
Lemma coll_lead w : forallb is_xsd_ws w = true -> forall r, coll false false (w ++ r) = coll false false r.
Proof.
  induction w as [|c w IH]; intros H r; [reflexivity|].
  cbn in H. apply andb_true_iff in H as [Hc H]. cbn. rewrite Hc. apply IH, H.
Qed.
Lemma coll_trail w : forallb is_xsd_ws w = true -> forall p, coll true p w = [].
Proof.
  induction w as [|c w IH]; intros H p; [reflexivity|].
  cbn in H. apply andb_true_iff in H as [Hc H]. cbn. rewrite Hc. apply IH, H.
Qed.
(* a blank-free core surrounded by XSD whitespace collapses to the core *)
Lemma ws_collapse_core w1 core w2 :
  forallb is_xsd_ws w1 = true -> no_ws core = true -> forallb is_xsd_ws w2 = true ->
  ws_collapse (w1 ++ core ++ w2) = core.
Proof.
  intros H1 Hc H2. unfold ws_collapse. rewrite coll_lead by exact H1.
  destruct core as [|c core]; [cbn; clear H1 Hc; induction w2 as [|x w2 IH]; [reflexivity|];
    cbn in H2; apply andb_true_iff in H2 as [Hx H2]; cbn; rewrite Hx; auto|].
  cbn in Hc. apply andb_true_iff in Hc as [Hc0 Hc]. apply negb_true_iff in Hc0.
  cbn. rewrite Hc0. cbn. f_equal. rewrite coll_core by exact Hc. rewrite coll_trail by exact H2.
  apply app_nil_r.
Qed.
Lemma ws_collapse_id s : no_ws s = true -> ws_collapse s = s.
Proof.
  intros H. pose proof (ws_collapse_core [] s [] eq_refl H eq_refl) as E.
  cbn in E. rewrite app_nil_r in E. exact E.
Qed.
Lemma no_ws_app a b : no_ws (a ++ b) = no_ws a && no_ws b.
Proof. apply forallb_app. Qed.
Lemma digits_no_ws s : forallb is_digit s = true -> no_ws s = true.
Proof.
  unfold no_ws. induction s as [|c s IH]; [reflexivity|]. cbn. intros H.
  apply andb_true_iff in H as [Hc H]. rewrite (IH H), andb_true_r.
  unfold is_digit in Hc. unfold is_xsd_ws. apply andb_true_iff in Hc as [H1 H2].
  apply Z.leb_le in H1. apply negb_true_iff.
  repeat (apply orb_false_iff; split); apply Z.eqb_neq; lia.
Qed.

(* ---------------------------------------------------------------- exhaustive checks over ranges *)
(* all_range k lo p checks p on lo .. lo + 2^k - 1 *)
Fixpoint all_range (k : nat) (lo : Z) (p : Z -> bool) : bool :=
  match k with
  | O => p lo
  | S k' => all_range k' lo p && all_range k' (lo + 2 ^ Z.of_nat k') p
  end.
Lemma all_range_spec k : forall lo p, all_range k lo p = true ->
  forall z, lo <= z < lo + 2 ^ Z.of_nat k -> p z = true.
Proof.
  induction k as [|k IH]; intros lo p H z Hz.
  - cbn in *. replace z with lo by lia. exact H.
  - cbn [all_range] in H. apply andb_true_iff in H as [H1 H2].
    rewrite Nat2Z.inj_succ, Z.pow_succ_r in Hz by lia.
    destruct (Z.lt_ge_cases z (lo + 2 ^ Z.of_nat k)).
    + apply (IH _ _ H1). lia.
    + apply (IH _ _ H2). lia.
Qed.
(* p holds on 0 <= z < n, where n <= 2^k, checked by computation *)
Definition all_below (k : nat) (n : Z) (p : Z -> bool) : bool := all_range k 0 (fun z => (n <=? z) || p z).
Lemma all_below_spec k n p : all_below k n p = true -> n <= 2 ^ Z.of_nat k ->
  forall z, 0 <= z < n -> p z = true.
Proof.
  intros H Hn z Hz. pose proof (all_range_spec _ _ _ H z ltac:(lia)) as K. cbn in K.
  destruct (Z.leb_spec n z); [lia|exact K].
Qed.

(* ---------------------------------------------------------------- more regex / strip facts *)
Lemma m_star_app a s1 s2 : matches a s1 = true -> matches (Star a) s2 = true -> matches (Star a) (s1 ++ s2) = true.
Proof. intros H1 H2. apply matches_ok. apply LStarS; apply matches_inv; assumption. Qed.
Lemma m_star_nil a : matches (Star a) [] = true.
Proof. reflexivity. Qed.
Lemma m_starcat_prepend q x s1 s2 : matches q s1 = true -> matches (Cat (Star q) x) s2 = true ->
  matches (Cat (Star q) x) (s1 ++ s2) = true.
Proof.
  intros H1 H2. apply matches_inv in H2. inversion H2; subst. rewrite app_assoc. apply matches_ok.
  constructor; [|assumption]. apply LStarS; [apply matches_inv, H1|assumption].
Qed.
Lemma lstrip_id p s : (match s with c :: _ => p c = false | [] => True end) -> lstrip p s = s.
Proof. destruct s as [|c s]; [reflexivity|]. cbn. intros ->. reflexivity. Qed.
Lemma forallb_rev' {A} (p : A -> bool) l : forallb p (rev l) = forallb p l.
Proof.
  induction l as [|x l IH]; [reflexivity|]. cbn. rewrite forallb_app, IH. cbn. rewrite andb_true_r. apply andb_comm.
Qed.
Lemma strip_none p s : forallb (fun c => negb (p c)) s = true -> strip p s = s.
Proof.
  intros H. unfold strip, rstrip.
  assert (K : forall t, forallb (fun c => negb (p c)) t = true -> lstrip p t = t).
  { intros t Ht. apply lstrip_id. destruct t as [|c t]; [trivial|]. cbn in Ht. apply andb_true_iff in Ht as [Hc _].
    apply negb_true_iff, Hc. }
  rewrite (K s H). rewrite K by (rewrite forallb_rev'; exact H). apply rev_involutive.
Qed.
Lemma strip_spec p s : exists w1 w2, s = w1 ++ strip p s ++ w2 /\ forallb p w1 = true /\ forallb p w2 = true.
Proof.
  destruct (lstrip_spec p s) as (w1 & E1 & H1 & _).
  destruct (lstrip_spec p (rev (lstrip p s))) as (a & E2 & H2 & _).
  exists w1, (rev a). unfold strip, rstrip. repeat split; [|exact H1|rewrite forallb_rev'; exact H2].
  rewrite <- rev_app_distr, <- E2, rev_involutive. exact E1.
Qed.
Lemma filter_all {A} (p : A -> bool) l : forallb p l = true -> filter p l = l.
Proof.
  induction l as [|x l IH]; [reflexivity|]. cbn. intros H. apply andb_true_iff in H as [H1 H2]. rewrite H1, (IH H2). reflexivity.
Qed.
Lemma list_ind3 {A} (P : list A -> Prop) :
  P [] -> (forall a, P [a]) -> (forall a b, P [a; b]) -> (forall a b c r, P r -> P (a :: b :: c :: r)) -> forall l, P l.
Proof.
  intros H0 H1 H2 H3 l.
  assert (K : P l /\ (forall a, P (a :: l)) /\ (forall a b, P (a :: b :: l))).
  { induction l as [|x l (K0 & K1 & K2)]; [auto|]. repeat split; auto. }
  apply K.
Qed.
