(* Proofs about model/LocalFile.v. *)
From Coq Require Import List Arith Bool Lia.
From Basyx Require Import model.LocalFile.
Import ListNotations.

(* ---------- assoc lists --------------------------------------------------- *)

Lemma alookup_aset_eq {B} k (v : B) l : alookup k (aset k v l) = Some v.
Proof.
  induction l as [|[k' v'] r IH]; cbn; [now rewrite Nat.eqb_refl|].
  destruct (Nat.eqb k k') eqn:E; cbn; [now rewrite Nat.eqb_refl|now rewrite E].
Qed.
Lemma alookup_aset_neq {B} k k' (v : B) l : k <> k' -> alookup k' (aset k v l) = alookup k' l.
Proof.
  intros Hn. induction l as [|[k2 v2] r IH]; cbn.
  - destruct (Nat.eqb_spec k' k); [congruence|reflexivity].
  - destruct (Nat.eqb_spec k k2) as [->|]; cbn.
    + destruct (Nat.eqb_spec k' k2); [congruence|reflexivity].
    + destruct (Nat.eqb k' k2); [reflexivity|exact IH].
Qed.
Lemma alookup_aremove_eq {B} k (l : list (nat * B)) : alookup k (aremove k l) = None.
Proof.
  induction l as [|[k' v'] r IH]; cbn; [reflexivity|].
  destruct (Nat.eqb k k') eqn:E; [exact IH|]. cbn. rewrite E. exact IH.
Qed.
Lemma alookup_aremove_neq {B} k k' (l : list (nat * B)) : k <> k' -> alookup k' (aremove k l) = alookup k' l.
Proof.
  intros Hn. induction l as [|[k2 v2] r IH]; cbn; [reflexivity|].
  destruct (Nat.eqb_spec k k2) as [->|].
  - destruct (Nat.eqb_spec k' k2); [congruence|exact IH].
  - cbn. destruct (Nat.eqb k' k2); [reflexivity|exact IH].
Qed.
Lemma alookup_app_some {B} k (l1 l2 : list (nat * B)) v : alookup k l1 = Some v -> alookup k (l1 ++ l2) = Some v.
Proof.
  induction l1 as [|[k' v'] r IH]; cbn; [discriminate|]. destruct (Nat.eqb k k'); auto.
Qed.
Lemma alookup_app_none {B} k (l1 l2 : list (nat * B)) : alookup k l1 = None -> alookup k (l1 ++ l2) = alookup k l2.
Proof.
  induction l1 as [|[k' v'] r IH]; cbn; [reflexivity|]. destruct (Nat.eqb k k'); [discriminate|auto].
Qed.
Lemma alookup_in {B} k (l : list (nat * B)) v : alookup k l = Some v -> In k (map fst l).
Proof.
  induction l as [|[k' v'] r IH]; cbn; [discriminate|].
  destruct (Nat.eqb_spec k k') as [->|]; [left; reflexivity|right; auto].
Qed.
Lemma alookup_notin {B} k (l : list (nat * B)) : ~ In k (map fst l) -> alookup k l = None.
Proof.
  induction l as [|[k' v'] r IH]; cbn; [reflexivity|].
  intros H. destruct (Nat.eqb_spec k k') as [->|]; [tauto|]. apply IH. tauto.
Qed.
Lemma aremove_keys_incl {B} k (l : list (nat * B)) x : In x (map fst (aremove k l)) -> In x (map fst l).
Proof.
  induction l as [|[k2 v2] r IH]; cbn; [tauto|]. destruct (Nat.eqb k k2); cbn; intuition.
Qed.
Lemma aremove_nodup {B} k (l : list (nat * B)) : NoDup (map fst l) -> NoDup (map fst (aremove k l)).
Proof.
  induction l as [|[k2 v2] r IH]; cbn; [trivial|].
  intros H. inversion H as [|? ? Hni Hnd]; subst.
  destruct (Nat.eqb k k2); [auto|]. cbn. constructor; [|auto].
  intros Hin. apply Hni. eapply aremove_keys_incl; eauto.
Qed.
Lemma aset_keys_incl {B} k (v : B) l x : In x (map fst (aset k v l)) -> x = k \/ In x (map fst l).
Proof.
  induction l as [|[k2 v2] r IH]; cbn; [intuition|].
  destruct (Nat.eqb_spec k k2) as [->|]; cbn; intuition.
Qed.
Lemma aset_nodup {B} k (v : B) l : NoDup (map fst l) -> NoDup (map fst (aset k v l)).
Proof.
  induction l as [|[k2 v2] r IH]; cbn; [intros; constructor; [cbn; tauto|constructor]|].
  intros H. inversion H as [|? ? Hni Hnd]; subst.
  destruct (Nat.eqb_spec k k2) as [->|Hn]; cbn; [constructor; auto|].
  constructor; [|auto]. intros Hin. apply aset_keys_incl in Hin. destruct Hin; [congruence|auto].
Qed.
Lemma amem_true {B} k (l : list (nat * B)) : amem k l = true <-> exists v, alookup k l = Some v.
Proof. unfold amem. destruct (alookup k l); split; eauto; try discriminate. intros [v H]; discriminate. Qed.
Lemma amem_false {B} k (l : list (nat * B)) : amem k l = false <-> alookup k l = None.
Proof. unfold amem. destruct (alookup k l); split; auto; discriminate. Qed.

Lemma src_eqb_spec a b : reflect (a = b) (src_eqb a b).
Proof.
  destruct a as [|x], b as [|y]; cbn; try (constructor; congruence).
  destruct (Nat.eqb_spec x y); constructor; congruence.
Qed.

(* ---------- invariant of reachable states ----------------------------------- *)

Definition Inv (s : st) : Prop :=
  NoDup (map fst (fs s)) /\ (forall o, In o (map fst (heap s)) -> o < next s).

Lemma heap_fresh s : Inv s -> alookup (next s) (heap s) = None.
Proof. intros [_ H]. apply alookup_notin. intros Hin. apply H in Hin. lia. Qed.

Lemma in_app_fst {B} (l : list (nat * B)) x y : In x (map fst (l ++ [y])) -> In x (map fst l) \/ x = fst y.
Proof. rewrite map_app, in_app_iff. cbn. intuition. Qed.

Lemma locked_get_fs s i k v b : fs (fst (locked_get s i k v b)) = fs s.
Proof.
  unfold locked_get. destruct (cache_get s i k) as [[o ob]|]; [destruct (src_eqb _ _)|]; try destruct b; reflexivity.
Qed.
Lemma get_fs s i k b : fs (fst (get s i k b)) = fs s.
Proof. unfold get. destruct (alookup k (fs s)); [apply locked_get_fs|reflexivity]. Qed.

Lemma locked_get_heap_bound s i k v b : Inv s -> forall o, In o (map fst (heap (fst (locked_get s i k v b)))) -> o < next (fst (locked_get s i k v b)).
Proof.
  intros [_ H]. unfold locked_get.
  assert (Hins : forall o, In o (map fst (heap (fst (insert_new s i k v)))) -> o < next (fst (insert_new s i k v))).
  { cbn. intros o Ho. apply in_app_fst in Ho. destruct Ho as [Ho| ->]; [apply H in Ho; lia|cbn; lia]. }
  destruct (cache_get s i k) as [[o ob]|] eqn:E.
  - destruct (src_eqb _ _).
    + cbn. intros o' Ho'. apply aset_keys_incl in Ho'. destruct Ho' as [->|Ho']; [|auto].
      unfold cache_get in E. destruct (alookup k (cache_of s i)) as [n|]; [|discriminate].
      destruct (alookup n (heap s)) eqn:E2; [|discriminate]. inversion E; subst. apply H. eapply alookup_in; eauto.
    + destruct b; [exact Hins|cbn; auto].
  - destruct b; [exact Hins|cbn; auto].
Qed.

Lemma get_Inv s i k b : Inv s -> Inv (fst (get s i k b)).
Proof.
  intros HI. split; [rewrite get_fs; apply HI|].
  unfold get. destruct (alookup k (fs s)); [apply locked_get_heap_bound; auto|apply HI].
Qed.

Lemma iter_keys_Inv ks : forall s i, Inv s -> Inv (fst (iter_keys s i ks)) /\ fs (fst (iter_keys s i ks)) = fs s.
Proof.
  induction ks as [|k r IH]; intros s i HI; cbn; [auto|].
  pose proof (get_Inv s i k false HI) as H1. pose proof (get_fs s i k false) as H2.
  destruct (get s i k false) as [s' o]. cbn in H1, H2.
  destruct (IH s' i H1) as [A B].
  destruct o; try (split; [exact A|congruence]).
  all: destruct (iter_keys s' i r) as [s'' l]; cbn in *; split; [exact A|congruence].
Qed.

Lemma step_Inv s a : Inv s -> Inv (fst (step s a)).
Proof.
  intros HI. pose proof HI as [Hnd Hb]. destruct a; cbn.
  - split; [exact Hnd|]. cbn. intros o Ho. apply in_app_fst in Ho. destruct Ho as [Ho| ->]; [apply Hb in Ho; lia|cbn; lia].
  - unfold add. destruct (alookup x (heap s)) as [ob|] eqn:E; [|exact HI]. destruct (amem _ _); [exact HI|].
    split; cbn; [apply aset_nodup, Hnd|]. intros o Ho. apply aset_keys_incl in Ho.
    destruct Ho as [->|Ho]; [|auto]. apply Hb. eapply alookup_in; eauto.
  - apply get_Inv, HI.
  - exact HI.
  - exact HI.
  - destruct (iter_keys s i (map fst (fs s))) as [s' l] eqn:E. cbn.
    pose proof (iter_keys_Inv (map fst (fs s)) s i HI) as [A _]. now rewrite E in A.
  - unfold discard. destruct (alookup x (heap s)) as [ob|] eqn:E; [|exact HI]. destruct (amem _ _); [|exact HI].
    split; cbn; [apply aremove_nodup, Hnd|]. intros o Ho. apply aset_keys_incl in Ho.
    destruct Ho as [->|Ho]; [|auto]. apply Hb. eapply alookup_in; eauto.
  - destruct (alookup x (heap s)) as [ob|] eqn:E; [|exact HI]. split; [exact Hnd|]. cbn. intros o Ho.
    apply aset_keys_incl in Ho. destruct Ho as [->|Ho]; [|auto]. apply Hb. eapply alookup_in; eauto.
  - destruct (alookup x (heap s)) as [ob|] eqn:E; [|exact HI]. destruct (osrc ob); [exact HI|].
    split; cbn; [apply aset_nodup, Hnd|exact Hb].
  - destruct (alookup x (heap s)) as [ob|] eqn:E; [|exact HI]. destruct (osrc ob); [exact HI|].
    destruct (alookup k (fs s)); [|exact HI]. split; [exact Hnd|]. cbn. intros o' Ho.
    apply aset_keys_incl in Ho. destruct Ho as [->|Ho]; [|auto]. apply Hb. eapply alookup_in; eauto.
  - destruct (alookup x (heap s)) as [ob|] eqn:E; [|exact HI]. split; [exact Hnd|]. cbn. intros o' Ho.
    apply aset_keys_incl in Ho. destruct Ho as [->|Ho]; [|auto]. apply Hb. eapply alookup_in; eauto.
  - split; [exact Hnd|]. cbn. intros o Ho. apply Hb. eapply aremove_keys_incl; eauto.
  - exact HI.
  - unfold add_fault. destruct (alookup x (heap s)) as [ob|]; [|exact HI]. destruct (amem _ _); exact HI.
Qed.

Lemma init_Inv : Inv init.
Proof. split; cbn; [constructor|tauto]. Qed.
Lemma exec_Inv ops : forall s, Inv s -> Inv (exec s ops).
Proof. induction ops as [|o r IH]; cbn; auto using step_Inv. Qed.
Lemma run_Inv ops : Inv (run ops).
Proof. apply exec_Inv, init_Inv. Qed.

(* ---------- the answers are those of a persistent map -------------------------- *)

Lemma kv_eqb_refl l : kv_eqb l l = true.
Proof. induction l as [|[k v] r IH]; cbn; [reflexivity|]. now rewrite !Nat.eqb_refl, IH. Qed.

Definition vof (f : list (key * val)) (k : key) : val := match alookup k f with Some v => v | None => 0 end.

Lemma assoc_self (f : list (key * val)) : NoDup (map fst f) -> map (fun k => (k, vof f k)) (map fst f) = f.
Proof.
  induction f as [|[k v] r IH]; cbn; [reflexivity|].
  intros H. inversion H as [|? ? Hni Hnd]; subst. unfold vof at 1. cbn. rewrite Nat.eqb_refl. f_equal.
  rewrite <- (IH Hnd) at 2. apply map_ext_in. intros k' Hk'. unfold vof. cbn.
  destruct (Nat.eqb_spec k' k) as [->|]; [contradiction|reflexivity].
Qed.

Lemma get_out s i k b v : alookup k (fs s) = Some v ->
  (exists o, snd (get s i k b) = OObj k o v) \/ (b = false /\ snd (get s i k b) = OSeen k v).
Proof.
  intros E. unfold get. rewrite E. unfold locked_get.
  destruct (cache_get s i k) as [[o ob]|]; [destruct (src_eqb _ _)|]; try destruct b; cbn; eauto.
Qed.

Lemma iter_keys_strip ks : forall s i, (forall k, In k ks -> amem k (fs s) = true) ->
  strip (snd (iter_keys s i ks)) = map (fun k => (k, vof (fs s) k)) ks.
Proof.
  induction ks as [|k r IH]; intros s i H; cbn; [reflexivity|].
  assert (Hk : amem k (fs s) = true) by (apply H; left; reflexivity).
  apply amem_true in Hk. destruct Hk as [v Ev].
  pose proof (get_fs s i k false) as Hfs.
  pose proof (get_out s i k false v Ev) as Hout.
  destruct (get s i k false) as [s' o]. cbn in Hfs, Hout.
  assert (IH' : strip (snd (iter_keys s' i r)) = map (fun k0 => (k0, vof (fs s) k0)) r).
  { rewrite <- Hfs. apply IH. intros k0 Hk0. rewrite Hfs. apply H. right; exact Hk0. }
  assert (Hv : vof (fs s) k = v) by (unfold vof; now rewrite Ev).
  destruct Hout as [[o' ->]|[_ ->]]; destruct (iter_keys s' i r) as [s'' l]; cbn in *; rewrite IH', Hv; reflexivity.
Qed.

Lemma pstep_step s a : Inv s -> pstep (fs s) (snd (step s a)) = Some (fs (fst (step s a))).
Proof.
  intros HI. destruct a; cbn.
  - reflexivity.
  - unfold add. destruct (alookup x (heap s)) as [ob|]; [|reflexivity].
    destruct (amem (okey ob) (fs s)) eqn:E; cbn; rewrite E; reflexivity.
  - unfold get. destruct (alookup k (fs s)) as [v|] eqn:E.
    + assert (Ho : exists o, snd (locked_get s i k v true) = OObj k o v).
      { unfold locked_get. destruct (cache_get s i k) as [[o ob]|]; [destruct (src_eqb _ _)|]; cbn; eauto. }
      destruct Ho as [o Ho]. rewrite Ho. cbn. rewrite E. cbn. rewrite Nat.eqb_refl. now rewrite locked_get_fs.
    + cbn. unfold amem. now rewrite E.
  - now rewrite eqb_reflx.
  - now rewrite Nat.eqb_refl.
  - pose proof (iter_keys_Inv (map fst (fs s)) s i HI) as [_ Hfs].
    pose proof (iter_keys_strip (map fst (fs s)) s i) as Hst.
    destruct (iter_keys s i (map fst (fs s))) as [s' l]. cbn in *.
    unfold strip. rewrite Hst.
    + rewrite assoc_self by apply HI. now rewrite kv_eqb_refl, Hfs.
    + intros k Hk. apply amem_true. apply in_map_iff in Hk. destruct Hk as [[k' v] [<- Hin]].
      cbn. clear - Hin HI. destruct HI as [Hnd _]. induction (fs s) as [|[k2 v2] r IH]; [destruct Hin|].
      cbn in *. inversion Hnd; subst. destruct Hin as [E|Hin]; [inversion E; subst; rewrite Nat.eqb_refl; eauto|].
      destruct (Nat.eqb k' k2); eauto.
  - unfold discard. destruct (alookup x (heap s)) as [ob|]; [|reflexivity].
    destruct (amem (okey ob) (fs s)) eqn:E; cbn; rewrite E; reflexivity.
  - destruct (alookup x (heap s)) as [ob|]; reflexivity.
  - destruct (alookup x (heap s)) as [ob|]; [|reflexivity]. destruct (osrc ob); reflexivity.
  - destruct (alookup x (heap s)) as [ob|]; [|reflexivity]. destruct (osrc ob) as [|k]; [reflexivity|].
    destruct (alookup k (fs s)) eqn:E; cbn; [rewrite E; cbn; now rewrite Nat.eqb_refl|].
    unfold amem. now rewrite E.
  - destruct (alookup x (heap s)) as [ob|]; reflexivity.
  - reflexivity.
  - reflexivity.
  - unfold add_fault. destruct (alookup x (heap s)) as [ob|]; [|reflexivity].
    destruct (amem (okey ob) (fs s)) eqn:E; cbn; rewrite E; reflexivity.
Qed.

Lemma replay_outs ops : forall s, Inv s -> replay (fs s) (outs s ops) = Some (fs (exec s ops)).
Proof.
  induction ops as [|a r IH]; intros s HI; cbn; [reflexivity|].
  rewrite pstep_step by exact HI. apply IH, step_Inv, HI.
Qed.
Lemma persistent_map ops : replay [] (outs init ops) = Some (fs (run ops)).
Proof. exact (replay_outs ops init init_Inv). Qed.

(* ---------- replicas ---------------------------------------------------------- *)

Lemma replica_elim s i k o : replica s i k o ->
  exists ob, alookup k (cache_of s i) = Some o /\ alookup o (heap s) = Some ob /\ osrc ob = SFile k /\ okey ob = k.
Proof.
  intros [ob [H [H1 H2]]]. unfold cache_get in H.
  destruct (alookup k (cache_of s i)) as [o'|]; [|discriminate].
  destruct (alookup o' (heap s)) as [ob'|] eqn:E; [|discriminate]. inversion H; subst. eauto.
Qed.
Lemma replica_intro s i k o ob : alookup k (cache_of s i) = Some o -> alookup o (heap s) = Some ob ->
  osrc ob = SFile k -> okey ob = k -> replica s i k o.
Proof. intros H1 H2 H3 H4. exists ob. unfold cache_get. rewrite H1, H2. auto. Qed.

Lemma cache_of_upd f h cs n j c i :
  cache_of (mkst f h (aset j c cs) n) i = if Nat.eqb i j then c else cache_of (mkst f h cs n) i.
Proof.
  unfold cache_of. cbn. destruct (Nat.eqb_spec i j) as [->|Hn].
  - now rewrite alookup_aset_eq.
  - rewrite alookup_aset_neq; auto.
Qed.
Lemma cache_of_indep f h cs n f' h' n' i : cache_of (mkst f h cs n) i = cache_of (mkst f' h' cs n') i.
Proof. reflexivity. Qed.

(* the locked part of get keeps (and, when it returns an object, establishes) replicas *)
Lemma locked_get_result s i k v : Inv s ->
  exists o, snd (locked_get s i k v true) = OObj k o v /\
            alookup o (heap (fst (locked_get s i k v true))) = Some (mkobj k v (SFile k)) /\
            replica (fst (locked_get s i k v true)) i k o.
Proof.
  intros HI. unfold locked_get.
  assert (Hins : exists o, snd (insert_new s i k v) = OObj k o v /\
            alookup o (heap (fst (insert_new s i k v))) = Some (mkobj k v (SFile k)) /\
            replica (fst (insert_new s i k v)) i k o).
  { exists (next s). cbn. split; [reflexivity|].
    assert (Hh : alookup (next s) (heap s ++ [(next s, mkobj k v (SFile k))]) = Some (mkobj k v (SFile k))).
    { rewrite alookup_app_none by (apply heap_fresh, HI). cbn. now rewrite Nat.eqb_refl. }
    split; [exact Hh|]. eapply replica_intro; [|exact Hh|reflexivity|reflexivity].
    rewrite cache_of_upd, Nat.eqb_refl. apply alookup_aset_eq. }
  destruct (cache_get s i k) as [[o ob]|] eqn:E; [|exact Hins].
  destruct (src_eqb_spec (osrc ob) (SFile k)) as [Hs|]; [|exact Hins].
  exists o. cbn. split; [reflexivity|]. rewrite Hs.
  split; [apply alookup_aset_eq|].
  unfold cache_get in E. destruct (alookup k (cache_of s i)) as [o'|] eqn:E1; [|discriminate].
  destruct (alookup o' (heap s)) eqn:E2; [|discriminate]. inversion E; subst.
  eapply replica_intro; [exact E1|cbn; apply alookup_aset_eq|reflexivity|reflexivity].
Qed.

Lemma get_spec s i k : Inv s ->
  match alookup k (fs s) with
  | None => step s (Get i k) = (s, OMissing k)
  | Some v => exists o, snd (step s (Get i k)) = OObj k o v /\
                        alookup o (heap (fst (step s (Get i k)))) = Some (mkobj k v (SFile k)) /\
                        fs (fst (step s (Get i k))) = fs s /\ replica (fst (step s (Get i k))) i k o
  end.
Proof.
  intros HI. cbn. unfold get. destruct (alookup k (fs s)) as [v|] eqn:E; [|reflexivity].
  destruct (locked_get_result s i k v HI) as [o (A & B & C)]. exists o. repeat split; auto. apply locked_get_fs.
Qed.

Lemma locked_get_keeps s j k' v b i k o : replica s i k o -> replica (fst (locked_get s j k' v b)) i k o.
Proof.
  intros HR. destruct (replica_elim _ _ _ _ HR) as [ob (C & H & S & K)].
  unfold locked_get.
  assert (Hins : (j = i /\ k' = k -> False) -> replica (fst (insert_new s j k' v)) i k o).
  { intros Hne. cbn. eapply replica_intro; [|apply alookup_app_some; exact H|exact S|exact K].
    rewrite cache_of_upd. destruct (Nat.eqb_spec i j) as [->|]; [|exact C].
    rewrite alookup_aset_neq; [exact C|]. intros ->. apply Hne; auto. }
  assert (Hdel : (j = i /\ k' = k -> False) -> replica (cache_del s j k') i k o).
  { intros Hne. unfold cache_del. eapply replica_intro; [|exact H|exact S|exact K].
    rewrite cache_of_upd. destruct (Nat.eqb_spec i j) as [->|]; [|exact C].
    rewrite alookup_aremove_neq; [exact C|]. intros ->. apply Hne; auto. }
  destruct (cache_get s j k') as [[o' ob']|] eqn:E.
  - destruct (src_eqb_spec (osrc ob') (SFile k')) as [Hs|Hs].
    + (* refresh of o' *)
      cbn. destruct (Nat.eq_dec o' o) as [->|Hno].
      * unfold cache_get in E. destruct (alookup k' (cache_of s j)) as [o2|]; [|discriminate].
        destruct (alookup o2 (heap s)) eqn:E2; [|discriminate]. inversion E; subst.
        assert (ob' = ob) by congruence. subst ob'. rewrite S in Hs. inversion Hs; subst k'.
        eapply replica_intro; [exact C|cbn; apply alookup_aset_eq|cbn; exact S|reflexivity].
      * eapply replica_intro; [exact C|cbn; rewrite alookup_aset_neq; [exact H|exact Hno]|exact S|exact K].
    + assert (Hne : j = i /\ k' = k -> False).
      { intros [-> ->]. unfold cache_get in E. rewrite C, H in E. inversion E; subst. congruence. }
      destruct b; [apply Hins|apply Hdel]; exact Hne.
  - assert (Hne : j = i /\ k' = k -> False).
    { intros [-> ->]. unfold cache_get in E. rewrite C, H in E. discriminate. }
    destruct b; [apply Hins|apply Hdel]; exact Hne.
Qed.
Lemma get_keeps s j k' b i k o : replica s i k o -> replica (fst (get s j k' b)) i k o.
Proof. intros H. unfold get. destruct (alookup k' (fs s)); [now apply locked_get_keeps|exact H]. Qed.
Lemma iter_keys_keeps ks : forall s j i k o, replica s i k o -> replica (fst (iter_keys s j ks)) i k o.
Proof.
  induction ks as [|k' r IH]; intros s j i k o H; cbn; [exact H|].
  pose proof (get_keeps s j k' false i k o H) as H1. destruct (get s j k' false) as [s' r0]. cbn in H1.
  pose proof (IH s' j i k o H1) as H2.
  destruct r0; try exact H2; destruct (iter_keys s' j r) as [s'' l]; exact H2.
Qed.

(* one step keeps the replica, provided the client keeps the object and its source, the instance
   is not replaced and the document exists before and after *)
Lemma step_keeps s a i k o : replica s i k o -> amem k (fs s) = true -> keeps i o a = true ->
  amem k (fs (fst (step s a))) = true -> replica (fst (step s a)) i k o.
Proof.
  intros HR Hdoc Hk Hpost. destruct (replica_elim _ _ _ _ HR) as [ob (C & H & S & K)].
  destruct a; cbn in *.
  - eapply replica_intro; [exact C|apply alookup_app_some; exact H|exact S|exact K].
  - unfold add in *. destruct (alookup x (heap s)) as [obx|] eqn:Ex; [|exact HR].
    destruct (amem (okey obx) (fs s)) eqn:Em; [exact HR|]. cbn in *.
    assert (Hkk : okey obx <> k) by (intros E; rewrite E in Em; congruence).
    assert (Hxo : x <> o) by (intros ->; rewrite H in Ex; inversion Ex; subst; auto).
    eapply replica_intro; [|cbn; rewrite alookup_aset_neq; [exact H|exact Hxo]|exact S|exact K].
    rewrite cache_of_upd. destruct (Nat.eqb_spec i i0) as [->|]; [|exact C].
    rewrite alookup_aset_neq; [exact C|exact Hkk].
  - now apply get_keeps.
  - exact HR.
  - exact HR.
  - pose proof (iter_keys_keeps (map fst (fs s)) s i0 i k o HR) as HK.
    destruct (iter_keys s i0 (map fst (fs s))) as [s' l]. exact HK.
  - unfold discard in *. destruct (alookup x (heap s)) as [obx|] eqn:Ex; [|exact HR].
    destruct (amem (okey obx) (fs s)) eqn:Em; [|exact HR]. cbn in *.
    assert (Hkk : okey obx <> k).
    { intros E. rewrite E in Hpost. unfold amem in Hpost. rewrite alookup_aremove_eq in Hpost. discriminate. }
    assert (Hxo : x <> o) by (intros ->; rewrite H in Ex; inversion Ex; subst; auto).
    eapply replica_intro; [|cbn; rewrite alookup_aset_neq; [exact H|exact Hxo]|exact S|exact K].
    rewrite cache_of_upd. destruct (Nat.eqb_spec i i0) as [->|]; [|exact C].
    rewrite alookup_aremove_neq; [exact C|exact Hkk].
  - destruct (alookup x (heap s)) as [obx|] eqn:Ex; [|exact HR]. cbn.
    destruct (Nat.eq_dec x o) as [->|Hxo].
    + rewrite H in Ex. inversion Ex; subst obx.
      eapply replica_intro; [exact C|cbn; apply alookup_aset_eq|exact S|exact K].
    + eapply replica_intro; [exact C|cbn; rewrite alookup_aset_neq; [exact H|exact Hxo]|exact S|exact K].
  - destruct (alookup x (heap s)) as [obx|] eqn:Ex; [|exact HR]. destruct (osrc obx); [exact HR|].
    eapply replica_intro; [exact C|exact H|exact S|exact K].
  - destruct (alookup x (heap s)) as [obx|] eqn:Ex; [|exact HR]. destruct (osrc obx) as [|k'] eqn:Es; [exact HR|].
    destruct (alookup k' (fs s)) as [v|]; [|exact HR]. cbn.
    destruct (Nat.eq_dec x o) as [->|Hxo].
    + rewrite H in Ex. inversion Ex; subst obx. rewrite S in Es. inversion Es; subst k'.
      eapply replica_intro; [exact C|cbn; apply alookup_aset_eq|reflexivity|reflexivity].
    + eapply replica_intro; [exact C|cbn; rewrite alookup_aset_neq; [exact H|exact Hxo]|exact S|exact K].
  - destruct (alookup x (heap s)) as [obx|] eqn:Ex; [|exact HR]. cbn.
    assert (Hxo : x <> o) by (intros ->; rewrite Nat.eqb_refl in Hk; discriminate).
    eapply replica_intro; [exact C|cbn; rewrite alookup_aset_neq; [exact H|exact Hxo]|exact S|exact K].
  - assert (Hxo : x <> o) by (intros ->; rewrite Nat.eqb_refl in Hk; discriminate).
    eapply replica_intro; [exact C|cbn; rewrite alookup_aremove_neq; [exact H|exact Hxo]|exact S|exact K].
  - assert (Hji : i0 <> i) by (intros ->; rewrite Nat.eqb_refl in Hk; discriminate).
    eapply replica_intro; [|exact H|exact S|exact K].
    rewrite cache_of_upd. destruct (Nat.eqb_spec i i0); [congruence|exact C].
  - unfold add_fault in *. destruct (alookup x (heap s)) as [obx|]; [|exact HR].
    destruct (amem (okey obx) (fs s)); exact HR.
Qed.

Lemma exec_keeps ops : forall s i k o, replica s i k o -> amem k (fs s) = true -> undisturbed i k o s ops ->
  replica (exec s ops) i k o /\ amem k (fs (exec s ops)) = true.
Proof.
  induction ops as [|a r IH]; intros s i k o HR Hd Hu; cbn; [auto|].
  destruct Hu as (Hk & Hpost & Hu). apply IH; auto. now apply step_keeps.
Qed.

(* a retrieved object stays the one the instance hands out, refreshed to the stored content *)
Lemma identity_seq ops i k o v ops' :
  let s1 := fst (step (run ops) (Get i k)) in
  snd (step (run ops) (Get i k)) = OObj k o v ->
  undisturbed i k o s1 ops' ->
  exists v', alookup k (fs (exec s1 ops')) = Some v' /\
             snd (step (exec s1 ops') (Get i k)) = OObj k o v' /\
             alookup o (heap (fst (step (exec s1 ops') (Get i k)))) = Some (mkobj k v' (SFile k)).
Proof.
  intros s1 Hget Hu.
  pose proof (get_spec (run ops) i k (run_Inv ops)) as Hs.
  destruct (alookup k (fs (run ops))) as [v0|] eqn:E.
  - destruct Hs as [o0 (A & B & F & R)]. rewrite A in Hget. inversion Hget; subst o0 v0.
    fold s1 in B, F, R.
    assert (Hd : amem k (fs s1) = true) by (rewrite F; unfold amem; now rewrite E).
    destruct (exec_keeps ops' s1 i k o R Hd Hu) as [R2 D2].
    apply amem_true in D2. destruct D2 as [v' Ev']. exists v'. split; [exact Ev'|].
    assert (HI2 : Inv (exec s1 ops')) by (apply exec_Inv, step_Inv, run_Inv).
    pose proof (get_spec (exec s1 ops') i k HI2) as Hs2. rewrite Ev' in Hs2.
    destruct Hs2 as [o2 (A2 & B2 & F2 & R3)].
    (* the object returned is the replica: the cache lookup is deterministic *)
    assert (o2 = o).
    { cbn in A2. unfold get in A2. rewrite Ev' in A2. unfold locked_get in A2.
      destruct R2 as [ob2 (G & S2 & K2)]. rewrite G in A2. rewrite S2 in A2.
      cbn in A2. rewrite Nat.eqb_refl in A2. cbn in A2. congruence. }
    subst o2. auto.
  - rewrite Hs in Hget. discriminate.
Qed.

(* ---------- contracts of update / add / discard ------------------------------- *)

Lemma update_spec s x ob : alookup x (heap s) = Some ob ->
  match osrc ob with
  | SNone => step s (Update x) = (s, OUnit)
  | SFile k => match alookup k (fs s) with
               | None => step s (Update x) = (s, OMissing k)
               | Some v => snd (step s (Update x)) = OUpdated k v /\
                           alookup x (heap (fst (step s (Update x)))) = Some (mkobj k v (SFile k)) /\
                           fs (fst (step s (Update x))) = fs s
               end
  end.
Proof.
  intros H. cbn. rewrite H. destruct (osrc ob) as [|k] eqn:Es; [reflexivity|].
  destruct (alookup k (fs s)) as [v|]; [|reflexivity]. cbn. repeat split. apply alookup_aset_eq.
Qed.

Lemma add_spec s i x ob : alookup x (heap s) = Some ob ->
  let k := okey ob in
  if amem k (fs s) then step s (Add i x) = (s, ODup k)
  else let s' := fst (step s (Add i x)) in
       snd (step s (Add i x)) = OAdded k (oval ob) /\
       alookup k (fs s') = Some (oval ob) /\
       (forall k', k' <> k -> alookup k' (fs s') = alookup k' (fs s)) /\
       alookup x (heap s') = Some (mkobj k (oval ob) (SFile k)) /\
       replica s' i k x.
Proof.
  intros H k. cbn. unfold add. rewrite H. fold k. destruct (amem k (fs s)); [reflexivity|]. cbn.
  split; [reflexivity|]. split; [apply alookup_aset_eq|]. split; [intros k' Hk; apply alookup_aset_neq; auto|].
  split; [apply alookup_aset_eq|].
  eapply replica_intro; [|cbn; apply alookup_aset_eq|reflexivity|reflexivity].
  rewrite cache_of_upd, Nat.eqb_refl. apply alookup_aset_eq.
Qed.

(* an add() refused by the file system has no effect at all: the state - documents, every live object
   with its source, every instance's cache - is the one before the call, and the answer is the
   KeyError of a duplicate or the OSError, never a success *)
Lemma add_fault_spec s i x p ob : alookup x (heap s) = Some ob ->
  fst (step s (AddFault i x p)) = s /\
  snd (step s (AddFault i x p)) = (if amem (okey ob) (fs s) then ODup (okey ob) else OFault (okey ob)).
Proof.
  intros H. cbn. unfold add_fault. rewrite H. destruct (amem (okey ob) (fs s)); split; reflexivity.
Qed.

(* ... hence whatever follows runs exactly as if the refused add() had not been issued *)
Lemma add_fault_transparent s i x p ops : exec s (AddFault i x p :: ops) = exec s ops /\
  outs s (AddFault i x p :: ops) = snd (step s (AddFault i x p)) :: outs s ops.
Proof.
  cbn. unfold add_fault. destruct (alookup x (heap s)) as [ob|]; [destruct (amem _ _)|]; split; reflexivity.
Qed.

Lemma discard_spec s i x ob : alookup x (heap s) = Some ob ->
  let k := okey ob in
  if amem k (fs s)
  then let s' := fst (step s (Discard i x)) in
       snd (step s (Discard i x)) = ODiscarded k /\
       alookup k (fs s') = None /\
       (forall k', k' <> k -> alookup k' (fs s') = alookup k' (fs s)) /\
       alookup x (heap s') = Some (mkobj k (oval ob) SNone) /\
       (forall j, step s' (Get j k) = (s', OMissing k))
  else step s (Discard i x) = (s, OMissing k).
Proof.
  intros H k. cbn. unfold discard. rewrite H. fold k. destruct (amem k (fs s)); [|reflexivity]. cbn.
  split; [reflexivity|]. split; [apply alookup_aremove_eq|].
  split; [intros k' Hk; apply alookup_aremove_neq; auto|]. split; [apply alookup_aset_eq|].
  intros j. unfold get. cbn. now rewrite alookup_aremove_eq.
Qed.

(* ---------- two threads on one instance and one identifier --------------------- *)

Section Threads.
Variables (i : iid) (k : key).

Local Notation W := (targets k).
Definition J (s : st) (p : tprog) (c : pc) : Prop :=
  (loaded c <> None -> amem k (fs s) = true) /\
  (forall o, tobj p c = Some o -> amem k (fs s) = true /\ replica s i k o).

Lemma locked_get_Inv s v b : Inv s -> Inv (fst (locked_get s i k v b)).
Proof. intros HI. split; [rewrite locked_get_fs; apply HI|apply locked_get_heap_bound, HI]. Qed.

Lemma locked_get_W s v b q : W s q -> W (fst (locked_get s i k v b)) q.
Proof.
  intros HW. destruct q; try exact I; destruct HW as [ob [H K]]; unfold locked_get.
  all: assert (Hins : exists ob', alookup x (heap (fst (insert_new s i k v))) = Some ob' /\ okey ob' = k)
         by (exists ob; split; [cbn; apply alookup_app_some, H|exact K]).
  all: destruct (cache_get s i k) as [[o' ob']|]; [destruct (src_eqb _ _)|]; try (destruct b; [exact Hins|exists ob; auto]).
  all: cbn; destruct (Nat.eq_dec o' x) as [->|Hn];
         [eexists; split; [apply alookup_aset_eq|reflexivity]|exists ob; split; [rewrite alookup_aset_neq; auto|exact K]].
Qed.

Lemma tobj_none p c : res c = None -> tobj p c = None.
Proof. unfold tobj. now intros ->. Qed.

Lemma tstep_ok p q c cq s : Inv s -> is_now p = true -> W s p -> W s q -> J s p c -> J s q cq ->
  Inv (fst (tstep p i k s c)) /\ W (fst (tstep p i k s c)) p /\ W (fst (tstep p i k s c)) q /\
  J (fst (tstep p i k s c)) p (snd (tstep p i k s c)) /\ J (fst (tstep p i k s c)) q cq.
Proof.
  intros HI Hnow Wp Wq [Jl Jo] Jq. unfold tstep.
  destruct (res c) as [r|] eqn:Er;
    [cbn; split; [exact HI|split; [exact Wp|split; [exact Wq|split; [split; [exact Jl|exact Jo]|exact Jq]]]]|].
  destruct p as [| |x|x]; try discriminate.
  - (* TGet *)
    destruct (at_ c) as [|[|[|n]]] eqn:Ea.
    + destruct (alookup k (fs s)) as [v|] eqn:E; cbn; (split; [exact HI|split; [exact I|split; [exact Wq|split; [|exact Jq]]]]).
      * split; [intros _; unfold amem; now rewrite E|intros o Ho; discriminate].
      * split; [exact Jl|intros o Ho; discriminate].
    + cbn. split; [exact HI|split; [exact I|split; [exact Wq|split; [|exact Jq]]]].
      split; [exact Jl|]. intros o Ho. unfold tobj in Ho. cbn in Ho. rewrite Er in Ho. discriminate.
    + destruct (loaded c) as [v|] eqn:El.
      * destruct (locked_get_result s i k v HI) as [o (A & B & R)].
        pose proof (locked_get_fs s i k v true) as Hfs.
        pose proof (locked_get_Inv s v true HI) as HI'.
        pose proof (locked_get_W s v true q Wq) as Wq'.
        destruct (locked_get s i k v true) as [s' r] eqn:E. cbn in *.
        assert (Hd : amem k (fs s') = true) by (rewrite Hfs; apply Jl; discriminate).
        split; [exact HI'|split; [exact I|split; [exact Wq'|split]]].
        -- split; [intros _; exact Hd|]. intros o' Ho'. unfold tobj in Ho'. cbn in Ho'. rewrite A in Ho'.
           inversion Ho'; subst. auto.
        -- destruct Jq as [Jql Jqo]. split; [intros Hl; rewrite Hfs; auto|].
           intros o' Ho'. destruct (Jqo o' Ho') as [D R']. split; [now rewrite Hfs|].
           pose proof (locked_get_keeps s i k v true i k o' R') as HK. now rewrite E in HK.
      * cbn. split; [exact HI|split; [exact I|split; [exact Wq|split; [|exact Jq]]]].
        split; [intros H; cbn in H; congruence|intros o Ho; discriminate].
    + cbn. split; [exact HI|split; [exact I|split; [exact Wq|split; [|exact Jq]]]].
      split; [exact Jl|intros o Ho; discriminate].
  - (* TAdd x *)
    destruct (at_ c) as [|n] eqn:Ea.
    + cbn. split; [exact HI|split; [exact Wp|split; [exact Wq|split; [|exact Jq]]]].
      split; [exact Jl|]. intros o Ho. unfold tobj in Ho. cbn in Ho. rewrite Er in Ho. discriminate.
    + destruct Wp as [ob [Hx Kx]].
      pose proof (step_Inv s (Add i x) HI) as HI'. cbn in HI'.
      pose proof (add_spec s i x ob Hx) as Hs. cbn in Hs. rewrite Kx in Hs.
      unfold add in *. rewrite Hx in *. rewrite Kx in *.
      destruct (amem k (fs s)) eqn:Em.
      * cbn. split; [exact HI|split; [exists ob; auto|split; [exact Wq|split; [|exact Jq]]]].
        split; [intros _; exact Em|intros o Ho; discriminate].
      * cbn in *. destruct Hs as (_ & F1 & _ & Hh & R).
        assert (Hd : amem k (aset k (oval ob) (fs s)) = true) by (unfold amem; now rewrite alookup_aset_eq).
        split; [exact HI'|]. split; [eexists; split; [apply alookup_aset_eq|reflexivity]|]. split.
        { destruct q; try exact I; destruct Wq as [obq [Hq Kq]];
            (destruct (Nat.eq_dec x0 x) as [->|Hn];
             [eexists; split; [cbn; apply alookup_aset_eq|reflexivity]
             |exists obq; split; [cbn; rewrite alookup_aset_neq; auto|exact Kq]]). }
        split.
        { split; [intros _; exact Hd|]. intros o Ho. unfold tobj in Ho. cbn in Ho. inversion Ho; subst. auto. }
        { destruct Jq as [Jql Jqo]. split; [intros _; exact Hd|].
          intros o Ho. destruct (Jqo o Ho) as [D _]. congruence. }
Qed.

Lemma run_sched_ok p1 p2 sched : forall s c1 c2,
  is_now p1 = true -> is_now p2 = true -> Inv s -> W s p1 -> W s p2 -> J s p1 c1 -> J s p2 c2 ->
  let r := run_sched p1 p2 i k sched s c1 c2 in
  Inv (fst (fst r)) /\ J (fst (fst r)) p1 (snd (fst r)) /\ J (fst (fst r)) p2 (snd r).
Proof.
  induction sched as [|b t IH]; intros s c1 c2 N1 N2 HI W1 W2 J1 J2; cbn; [auto|].
  destruct b.
  - destruct (tstep_ok p2 p1 c2 c1 s HI N2 W2 W1 J2 J1) as (A & B & C & D & E).
    destruct (tstep p2 i k s c2) as [s' c2']. cbn in *. apply IH; auto.
  - destruct (tstep_ok p1 p2 c1 c2 s HI N1 W1 W2 J1 J2) as (A & B & C & D & E).
    destruct (tstep p1 i k s c1) as [s' c1']. cbn in *. apply IH; auto.
Qed.

Lemma J0 s p : J s p pc0.
Proof. split; [intros H; cbn in H; congruence|intros o Ho; discriminate]. Qed.

Lemma later_get s o : Inv s -> amem k (fs s) = true -> replica s i k o ->
  exists v, snd (step s (Get i k)) = OObj k o v.
Proof.
  intros HI Hd [ob (G & S & K)]. apply amem_true in Hd. destruct Hd as [v Ev]. exists v.
  cbn. unfold get. rewrite Ev. unfold locked_get. rewrite G, S. cbn. now rewrite Nat.eqb_refl.
Qed.

Lemma identity_threads ops p1 p2 sched :
  is_now p1 = true -> is_now p2 = true -> W (run ops) p1 -> W (run ops) p2 ->
  let r := run_sched p1 p2 i k sched (run ops) pc0 pc0 in
  let s := fst (fst r) in
  (forall o, tobj p1 (snd (fst r)) = Some o \/ tobj p2 (snd r) = Some o ->
             exists v, snd (step s (Get i k)) = OObj k o v) /\
  (forall o1 o2, tobj p1 (snd (fst r)) = Some o1 -> tobj p2 (snd r) = Some o2 -> o1 = o2).
Proof.
  intros N1 N2 W1 W2 r s.
  destruct (run_sched_ok p1 p2 sched (run ops) pc0 pc0 N1 N2 (run_Inv ops) W1 W2 (J0 _ _) (J0 _ _))
    as (HI & [_ J1] & [_ J2]).
  fold r in HI, J1, J2. fold s in HI, J1, J2.
  assert (H : forall o, tobj p1 (snd (fst r)) = Some o \/ tobj p2 (snd r) = Some o ->
                        exists v, snd (step s (Get i k)) = OObj k o v).
  { intros o [Ho|Ho]; [destruct (J1 o Ho)|destruct (J2 o Ho)]; now apply later_get. }
  split; [exact H|]. intros o1 o2 H1 H2.
  destruct (H o1 (or_introl H1)) as [v1 E1]. destruct (H o2 (or_intror H2)) as [v2 E2]. congruence.
Qed.
End Threads.

(* ---------- what the earlier code did ------------------------------------------- *)

(* get before "look up and insert ... in one critical section": two threads, document stored
   through the other instance, schedule load1 load2 lock1 lock2 miss1 miss2 insert1 insert2 *)
Lemma pinned_get_two_replicas :
  let s0 := run [New 1 2; Add 1 0] in
  let r := run_sched TGetPinned TGetPinned 0 1 [false; true; false; true; false; true; false; true] s0 pc0 pc0 in
  tobj TGetPinned (snd (fst r)) = Some 1 /\ tobj TGetPinned (snd r) = Some 2 /\
  snd (step (fst (fst r)) (Get 0 1)) = OObj 1 2 2.
Proof. vm_compute. repeat split; reflexivity. Qed.

(* add before "add(): check, write, cache and mark ... in one critical section": the document
   appears, another thread retrieves (and caches) a copy, then add caches the added object *)
Lemma split_add_two_replicas :
  let s0 := run [New 1 3] in
  let r := run_sched (TAddSplit 0) TGet 0 1 [false; false; false; true; true; true; false; false; false] s0 pc0 pc0 in
  tobj (TAddSplit 0) (snd (fst r)) = Some 0 /\ tobj TGet (snd r) = Some 1 /\
  snd (step (fst (fst r)) (Get 0 1)) = OObj 1 0 3.
Proof. vm_compute. repeat split; reflexivity. Qed.
Lemma split_add_duplicate_accepted :
  let s0 := run [New 1 3; New 1 4] in
  let r := run_sched (TAddSplit 0) (TAddSplit 1) 0 1 [false; false; true; true; false; false; false; false; true; true; true; true] s0 pc0 pc0 in
  res (snd (fst r)) = Some (OAdded 1 3) /\ res (snd r) = Some (OAdded 1 4).
Proof. vm_compute. repeat split; reflexivity. Qed.
