(* Proofs about model/Files.v (DictSupplementaryFileContainer). *)
From Coq Require Import List Arith Bool String Ascii DecimalString Decimal DecimalNat Lia FinFun.
From Basyx Require Import model.Files.
Import ListNotations.
Local Open Scope string_scope.

(* ---------- assoc-list facts ------------------------------------------ *)

Lemma sassoc_app_none {B} k (l1 l2 : list (string * B)) :
  sassoc k l1 = None -> sassoc k (l1 ++ l2)%list = sassoc k l2.
Proof.
  induction l1 as [|[k' v] r IH]; cbn; [reflexivity|].
  destruct (String.eqb k k'); [discriminate|exact IH].
Qed.
Lemma sassoc_app_some {B} k (l1 l2 : list (string * B)) v :
  sassoc k l1 = Some v -> sassoc k (l1 ++ l2)%list = Some v.
Proof.
  induction l1 as [|[k' v'] r IH]; cbn; [discriminate|].
  destruct (String.eqb k k'); [trivial|exact IH].
Qed.
Lemma sassoc_in {B} k (l : list (string * B)) v : sassoc k l = Some v -> In k (map fst l).
Proof.
  induction l as [|[k' v'] r IH]; cbn; [discriminate|].
  destruct (String.eqb_spec k k') as [->|]; [left; reflexivity| right; auto].
Qed.
Lemma sassoc_none_notin {B} k (l : list (string * B)) : sassoc k l = None -> ~ In k (map fst l).
Proof.
  induction l as [|[k' v'] r IH]; cbn; [tauto|].
  destruct (String.eqb_spec k k') as [->|Hn]; [discriminate|].
  intros H [E|I]; [congruence|exact (IH H I)].
Qed.
Lemma sassoc_remove_same {B} k (l : list (string * B)) : sassoc k (sremove k l) = None.
Proof.
  induction l as [|[k' v'] r IH]; cbn; [reflexivity|].
  destruct (String.eqb k k') eqn:E; [exact IH|]. cbn. rewrite E. exact IH.
Qed.
Lemma sassoc_remove_other {B} k k' (l : list (string * B)) :
  k <> k' -> sassoc k' (sremove k l) = sassoc k' l.
Proof.
  intros Hn. induction l as [|[k2 v2] r IH]; cbn; [reflexivity|].
  destruct (String.eqb_spec k k2) as [->|].
  - destruct (String.eqb_spec k' k2); [congruence|exact IH].
  - cbn. destruct (String.eqb k' k2); [reflexivity|exact IH].
Qed.
Lemma sremove_keys_incl {B} k (l : list (string * B)) x :
  In x (map fst (sremove k l)) -> In x (map fst l).
Proof.
  induction l as [|[k2 v2] r IH]; cbn; [tauto|].
  destruct (String.eqb k k2); cbn; intuition.
Qed.
Lemma sremove_nodup {B} k (l : list (string * B)) :
  NoDup (map fst l) -> NoDup (map fst (sremove k l)).
Proof.
  induction l as [|[k2 v2] r IH]; cbn; [trivial|].
  intros H. inversion H as [|? ? Hni Hnd]; subst.
  destruct (String.eqb k k2); [auto|]. cbn. constructor; [|auto].
  intros Hin. apply Hni. eapply sremove_keys_incl; eauto.
Qed.

Lemma nassoc_set_same {B} k (v : B) l : nassoc k (nset k v l) = Some v.
Proof.
  induction l as [|[k' v'] r IH]; cbn; [now rewrite Nat.eqb_refl|].
  destruct (Nat.eqb k k') eqn:E; cbn; [now rewrite Nat.eqb_refl| now rewrite E].
Qed.
Lemma nassoc_set_other {B} k k' (v : B) l : k <> k' -> nassoc k' (nset k v l) = nassoc k' l.
Proof.
  intros Hn. induction l as [|[k2 v2] r IH]; cbn.
  - destruct (Nat.eqb_spec k' k); [congruence|reflexivity].
  - destruct (Nat.eqb_spec k k2) as [->|]; cbn.
    + destruct (Nat.eqb_spec k' k2); [congruence|reflexivity].
    + destruct (Nat.eqb k' k2); [reflexivity|exact IH].
Qed.
Lemma nassoc_remove_same {B} k (l : list (nat * B)) : nassoc k (nremove k l) = None.
Proof.
  induction l as [|[k' v'] r IH]; cbn; [reflexivity|].
  destruct (Nat.eqb k k') eqn:E; [exact IH|]. cbn. rewrite E. exact IH.
Qed.
Lemma nassoc_remove_other {B} k k' (l : list (nat * B)) :
  k <> k' -> nassoc k' (nremove k l) = nassoc k' l.
Proof.
  intros Hn. induction l as [|[k2 v2] r IH]; cbn; [reflexivity|].
  destruct (Nat.eqb_spec k k2) as [->|].
  - destruct (Nat.eqb_spec k' k2); [congruence|exact IH].
  - cbn. destruct (Nat.eqb k' k2); [reflexivity|exact IH].
Qed.
Lemma nassoc_app_none {B} k (l1 l2 : list (nat * B)) :
  nassoc k l1 = None -> nassoc k (l1 ++ l2)%list = nassoc k l2.
Proof.
  induction l1 as [|[k' v] r IH]; cbn; [reflexivity|].
  destruct (Nat.eqb k k'); [discriminate|exact IH].
Qed.
Lemma nassoc_app_some {B} k (l1 l2 : list (nat * B)) v :
  nassoc k l1 = Some v -> nassoc k (l1 ++ l2)%list = Some v.
Proof.
  induction l1 as [|[k' v'] r IH]; cbn; [discriminate|].
  destruct (Nat.eqb k k'); [trivial|exact IH].
Qed.

(* ---------- the counter suffix: '{:04d}' is injective ------------------ *)

Definition val (s : string) : option nat :=
  match NilEmpty.uint_of_string s with Some d => Some (Nat.of_uint d) | None => None end.

Lemma val_dec i : val (dec i) = Some i.
Proof. unfold val, dec. rewrite NilEmpty.usu. now rewrite Unsigned.of_to. Qed.

Lemma val_zero_cons s : val (String "0" s) = val s.
Proof.
  unfold val. cbn [NilEmpty.uint_of_string].
  destruct (NilEmpty.uint_of_string s) as [d|]; reflexivity.
Qed.
Lemma val_zeros n s : val (zeros n ++ s) = val s.
Proof. induction n as [|n IH]; cbn [zeros append]; [reflexivity|]. now rewrite val_zero_cons. Qed.

Lemma pad4_inj i j : pad4 i = pad4 j -> i = j.
Proof.
  unfold pad4. intros H. apply (f_equal val) in H.
  rewrite !val_zeros, !val_dec in H. congruence.
Qed.

Lemma append_length s t : String.length (s ++ t) = String.length s + String.length t.
Proof. induction s as [|a s IH]; cbn; [reflexivity|now rewrite IH]. Qed.
Lemma append_inv_head s t1 t2 : s ++ t1 = s ++ t2 -> t1 = t2.
Proof. induction s as [|a s IH]; cbn; [trivial|]. intros H. injection H. exact IH. Qed.
Lemma append_inv_tail_len s1 s2 t1 t2 :
  String.length s1 = String.length s2 -> s1 ++ t1 = s2 ++ t2 -> s1 = s2 /\ t1 = t2.
Proof.
  revert s2. induction s1 as [|a s1 IH]; intros [|b s2]; cbn; try discriminate.
  - auto.
  - intros Hl H. injection H as -> H. injection Hl as Hl.
    destruct (IH _ Hl H) as [-> ->]. auto.
Qed.
Lemma append_assoc s t u : (s ++ t) ++ u = s ++ (t ++ u).
Proof. induction s as [|a s IH]; cbn; [reflexivity|now rewrite IH]. Qed.

Lemma pad4_length_same i j : String.length (pad4 i ++ "x") = String.length (pad4 j ++ "x") ->
  String.length (pad4 i) = String.length (pad4 j).
Proof. rewrite !append_length. cbn. lia. Qed.

(* take/drop split a string *)
Lemma substring_0_cons a s n : substring 0 (S n) (String a s) = String a (substring 0 n s).
Proof. reflexivity. Qed.
Lemma take_drop n s : n <= String.length s -> take n s ++ drop n s = s.
Proof.
  unfold take, drop. revert n. induction s as [|a s IH]; intros [|n] Hl; cbn in *; try lia.
  - reflexivity.
  - f_equal. clear. induction s as [|b s IH]; cbn; [reflexivity|now rewrite IH].
  - f_equal. apply IH. lia.
Qed.
Lemma take_length n s : n <= String.length s -> String.length (take n s) = n.
Proof.
  unfold take. revert n. induction s as [|a s IH]; intros [|n] Hl; cbn in *; try lia.
  rewrite IH; lia.
Qed.

Lemma last_index_from_bound c s pos acc p :
  (forall q, acc = Some q -> q < pos) ->
  last_index_from c s pos acc = Some p -> p < pos + String.length s.
Proof.
  revert pos acc. induction s as [|a s IH]; intros pos acc Hacc H; cbn in *.
  - apply Hacc in H. lia.
  - apply IH in H; [lia|]. intros q. destruct (Ascii.eqb a c); intros E.
    + injection E as <-. lia.
    + apply Hacc in E. lia.
Qed.
Lemma last_index_bound c s p : last_index c s = Some p -> p < String.length s.
Proof. intros H. apply last_index_from_bound in H; [lia|discriminate]. Qed.

Lemma drop_length n s : String.length (drop n s) = String.length s - n.
Proof.
  unfold drop. revert n. induction s as [|a s IH]; intros [|n]; cbn; try reflexivity.
  - f_equal. clear. induction s as [|b s IH]; cbn; [reflexivity|now rewrite IH].
  - apply IH.
Qed.

Lemma cut_point_le name : cut_point name <= String.length name.
Proof.
  unfold cut_point.
  destruct (last_index slash name) as [p|] eqn:E1.
  - apply last_index_bound in E1.
    destruct (last_index dot (drop (S p) name)) as [q|] eqn:E2; [|lia].
    apply last_index_bound in E2. rewrite drop_length in E2. lia.
  - destruct (last_index dot (drop 0 name)) as [q|] eqn:E2; [|lia].
    apply last_index_bound in E2. rewrite drop_length in E2. lia.
Qed.

Lemma pre_post name : pre name ++ post name = name.
Proof. apply take_drop, cut_point_le. Qed.

Lemma append_counter_inj name i j : append_counter name i = append_counter name j -> i = j.
Proof.
  unfold append_counter. intros H.
  apply append_inv_head in H. change ("_" ++ pad4 i ++ post name) with (String "_" (pad4 i ++ post name)) in H.
  change ("_" ++ pad4 j ++ post name) with (String "_" (pad4 j ++ post name)) in H.
  injection H as H.
  apply pad4_inj.
  assert (L : String.length (pad4 i) = String.length (pad4 j)).
  { apply (f_equal String.length) in H. rewrite !append_length in H. lia. }
  exact (proj1 (append_inv_tail_len _ _ _ _ L H)).
Qed.
Lemma append_counter_neq name i : append_counter name i <> name.
Proof.
  intros H. apply (f_equal String.length) in H. unfold append_counter in H.
  rewrite <- (pre_post name) in H at 3. rewrite !append_length in H. cbn in H. lia.
Qed.

(* the k-th candidate name tried by add_file *)
Definition cand (name : string) (k : nat) : string :=
  match k with 0 => name | S _ => append_counter name k end.
Lemma cand_inj name j k : cand name j = cand name k -> j = k.
Proof.
  destruct j, k; cbn; intros H; trivial.
  - symmetry in H. now apply append_counter_neq in H.
  - now apply append_counter_neq in H.
  - now apply append_counter_inj in H.
Qed.

(* ---------- invariant --------------------------------------------------- *)

Fixpoint count (h : content) (l : list (string * (content * ctype))) : nat :=
  match l with
  | [] => 0
  | (_, (h', _)) :: r => (if Nat.eqb h h' then 1 else 0) + count h r
  end.

Definition Inv (s : st) : Prop :=
  NoDup (map fst (names s)) /\
  forall h,
    (count h (names s) = 0 -> nassoc h (refc s) = None /\ nassoc h (store s) = None) /\
    (count h (names s) > 0 -> nassoc h (refc s) = Some (count h (names s)) /\
                               nassoc h (store s) = Some h).

Lemma count_app h l1 l2 : count h (l1 ++ l2)%list = count h l1 + count h l2.
Proof. induction l1 as [|[k [h' t]] r IH]; cbn; [reflexivity|]. rewrite IH. lia. Qed.

Lemma count_pos_of_sassoc n l h t : sassoc n l = Some (h, t) -> count h l > 0.
Proof.
  induction l as [|[k [h' t']] r IH]; cbn; [discriminate|].
  destruct (String.eqb n k).
  - intros E. injection E as -> ->. rewrite Nat.eqb_refl. lia.
  - intros E. apply IH in E. lia.
Qed.

Lemma count_sremove n l h t h' :
  NoDup (map fst l) -> sassoc n l = Some (h, t) ->
  count h' (sremove n l) = count h' l - (if Nat.eqb h' h then 1 else 0).
Proof.
  induction l as [|[k [h2 t2]] r IH]; cbn; [discriminate|].
  intros Hnd. inversion Hnd as [|? ? Hni Hnd']; subst.
  destruct (String.eqb_spec n k) as [->|Hne].
  - intros E. injection E as -> ->.
    assert (Hr : sremove k r = r).
    { clear - Hni. induction r as [|[k2 v2] r IH]; cbn in *; [reflexivity|].
      destruct (String.eqb_spec k k2) as [->|]; [tauto|]. f_equal. apply IH. tauto. }
    rewrite Hr. destruct (Nat.eqb h' h); lia.
  - intros E. cbn. rewrite (IH Hnd' E).
    pose proof (count_pos_of_sassoc _ _ _ _ E) as Hp.
    destruct (Nat.eqb_spec h' h) as [Heq|]; [|lia].
    rewrite Heq in *. destruct (Nat.eqb h h2); lia.
Qed.

Lemma Inv_init : Inv init.
Proof. split; [constructor|]. intros h; split; cbn; [auto|lia]. Qed.

(* out-of-fuel means every candidate tried was an occupied name *)
Lemma add_loop_oof f : forall s name d k s',
  add_loop f s name d (cand name k) (S k) = (s', OOutOfFuel) ->
  forall j, k <= j < k + f -> In (cand name j) (map fst (names s)).
Proof.
  induction f as [|f IH]; intros s name d k s' H j Hj; [lia|].
  cbn [add_loop] in H.
  destruct (sassoc (cand name k) (names s)) as [d'|] eqn:E; [|discriminate].
  destruct (pair_eqb d' d); [discriminate|].
  destruct (Nat.eq_dec j k) as [->|Hne].
  - eapply sassoc_in; eauto.
  - change (append_counter name (S k)) with (cand name (S k)) in H.
    eapply IH; [exact H|lia].
Qed.

Lemma seq_cand_nodup name n : NoDup (map (cand name) (seq 0 n)).
Proof.
  apply FinFun.Injective_map_NoDup; [|apply seq_NoDup].
  intros a b. apply cand_inj.
Qed.

Lemma add_loop_no_oof s name d s' :
  NoDup (map fst (names s)) ->
  add_loop (S (S (List.length (names s)))) s name d name 1 <> (s', OOutOfFuel).
Proof.
  intros Hnd H. change name with (cand name 0) in H at 2.
  pose proof (add_loop_oof _ _ _ _ _ _ H) as Hall.
  set (n := S (S (List.length (names s)))) in *.
  assert (Hincl : incl (map (cand name) (seq 0 n)) (map fst (names s))).
  { intros x Hx. apply in_map_iff in Hx. destruct Hx as [j [<- Hj]].
    apply in_seq in Hj. apply Hall. lia. }
  apply NoDup_incl_length in Hincl; [|apply seq_cand_nodup].
  rewrite !map_length, seq_length in Hincl. subst n. lia.
Qed.

(* the loop's result, whatever the fuel: either out of fuel, or a name n' with a precise effect *)
Lemma add_loop_spec f : forall s name d nn i s' o,
  add_loop f s name d nn i = (s', o) ->
  o = OOutOfFuel \/
  exists n', o = OName n' /\
    ((sassoc n' (names s) = Some d /\ s' = s) \/
     (sassoc n' (names s) = None /\
      s' = mk (store s) (names s ++ [(n', d)])
              (nset (fst d) (S (match nassoc (fst d) (refc s) with Some n => n | None => 0 end))
                    (refc s)))).
Proof.
  induction f as [|f IH]; intros s name d nn i s' o H; cbn [add_loop] in H.
  - injection H as <- <-. now left.
  - destruct (sassoc nn (names s)) as [d'|] eqn:E.
    + destruct (pair_eqb d' d) eqn:Ep.
      * injection H as <- <-. right. exists nn. split; [reflexivity|]. left. split; [|reflexivity].
        unfold pair_eqb in Ep. apply andb_prop in Ep. destruct Ep as [E1 E2].
        apply Nat.eqb_eq in E1, E2. destruct d', d; cbn in *; subst. exact E.
      * eapply IH; eauto.
    + injection H as <- <-. right. exists nn. split; [reflexivity|]. right. auto.
Qed.

(* first iteration facts: the requested name itself is returned when free or identical *)
Lemma add_loop_first f s name d i :
  (sassoc name (names s) = None \/ sassoc name (names s) = Some d) ->
  exists s', add_loop (S f) s name d name i = (s', OName name).
Proof.
  intros [E|E]; cbn [add_loop]; rewrite E.
  - eexists; reflexivity.
  - assert (pair_eqb d d = true) as ->.
    { unfold pair_eqb. now rewrite !Nat.eqb_refl. }
    eexists; reflexivity.
Qed.

Lemma NoDup_snoc {A} (l : list A) x : NoDup l -> ~ In x l -> NoDup (l ++ [x])%list.
Proof.
  induction l as [|a l IH]; cbn; intros Hnd Hni.
  - constructor; [tauto|constructor].
  - inversion Hnd; subst. constructor.
    + rewrite in_app_iff. cbn. intuition.
    + apply IH; tauto.
Qed.

Lemma Inv_add_general s s' n c t :
  Inv s -> sassoc n (names s) = None ->
  names s' = (names s ++ [(n, (c, t))])%list ->
  (forall h, nassoc h (refc s') =
             if Nat.eqb h c then Some (S (count c (names s))) else nassoc h (refc s)) ->
  (forall h, nassoc h (store s') = if Nat.eqb h c then Some c else nassoc h (store s)) ->
  Inv s'.
Proof.
  intros [Hnd Hc] Hfree Hn Hr Hs. split.
  - rewrite Hn, map_app. cbn. apply NoDup_snoc; [exact Hnd|].
    now apply sassoc_none_notin.
  - intros h. rewrite Hn, count_app, Hr, Hs. cbn [count].
    destruct (Hc h) as [H0 Hp].
    destruct (Nat.eqb_spec h c) as [->|Hne]; split; intros Hcnt; try lia.
    + split; [f_equal; lia|reflexivity].
    + apply H0. lia.
    + rewrite Nat.add_0_r in *. apply Hp. lia.
Qed.

Lemma Inv_add s name c t : Inv s -> Inv (fst (add_file s name c t)).
Proof.
  intros HI. pose proof HI as [Hnd Hc].
  unfold add_file, add_file_fuel.
  set (f := S (S (List.length (names s)))).
  destruct (nassoc c (store s)) as [x|] eqn:Es.
  - (* content already stored *)
    destruct (add_loop f s name (c, t) name 1) as [s' o] eqn:El. cbn [fst].
    destruct (add_loop_spec _ _ _ _ _ _ _ _ El) as [->|[n' [-> [[_ ->]|[Hfree ->]]]]].
    + exact (match add_loop_no_oof _ _ _ _ Hnd El with end).
    + exact HI.
    + assert (Hpos : count c (names s) > 0).
      { destruct (Nat.eq_dec (count c (names s)) 0) as [E0|]; [|lia].
        destruct (proj1 (Hc c) E0) as [_ Hsn]. congruence. }
      destruct (proj2 (Hc c) Hpos) as [Hrc Hst].
      eapply Inv_add_general; [exact HI|exact Hfree|reflexivity| |]; cbn [refc store fst].
      * intros h. rewrite Hrc. destruct (Nat.eqb_spec h c) as [->|Hne].
        -- apply nassoc_set_same.
        -- apply nassoc_set_other. congruence.
      * intros h. destruct (Nat.eqb_spec h c) as [->|Hne]; [exact Hst|reflexivity].
  - (* new content: store entry + refcount 0 first *)
    assert (H0 : count c (names s) = 0).
    { destruct (Nat.eq_dec (count c (names s)) 0) as [E0|Hn]; [exact E0|].
      destruct (proj2 (Hc c)) as [_ Hst]; [lia|congruence]. }
    set (s1 := mk (store s ++ [(c, c)]) (names s) (nset c 0 (refc s))).
    destruct (add_loop f s1 name (c, t) name 1) as [s' o] eqn:El. cbn [fst].
    destruct (add_loop_spec _ _ _ _ _ _ _ _ El) as [->|[n' [-> [[Hsame _]|[Hfree ->]]]]].
    + exact (match add_loop_no_oof s1 _ _ _ Hnd El with end).
    + cbn [names s1] in Hsame. apply count_pos_of_sassoc in Hsame. lia.
    + cbn [names s1] in Hfree.
      eapply Inv_add_general; [exact HI|exact Hfree|reflexivity| |]; cbn [refc store fst names s1].
      * intros h. rewrite nassoc_set_same, H0. destruct (Nat.eqb_spec h c) as [->|Hne].
        -- apply nassoc_set_same.
        -- rewrite !nassoc_set_other by congruence. reflexivity.
      * intros h. destruct (Nat.eqb_spec h c) as [->|Hne].
        -- rewrite (nassoc_app_none _ _ _ Es). cbn. now rewrite Nat.eqb_refl.
        -- destruct (nassoc h (store s)) as [y|] eqn:Ey.
           ++ now rewrite (nassoc_app_some _ _ _ _ Ey).
           ++ rewrite (nassoc_app_none _ _ _ Ey). cbn.
              destruct (Nat.eqb_spec h c); [congruence|reflexivity].
Qed.

Lemma Inv_del s name : Inv s -> Inv (fst (delete_file s name)).
Proof.
  intros HI. pose proof HI as [Hnd Hc]. unfold delete_file.
  destruct (sassoc name (names s)) as [[h t]|] eqn:En; [|exact HI].
  pose proof (count_pos_of_sassoc _ _ _ _ En) as Hpos.
  destruct (proj2 (Hc h) Hpos) as [Hrc Hst]. rewrite Hrc.
  destruct (Nat.eqb_spec (count h (names s) - 1) 0) as [E1|E1]; cbn [fst]; split; cbn [names refc store].
  - now apply sremove_nodup.
  - intros h'. rewrite (count_sremove _ _ _ _ h' Hnd En).
    destruct (Nat.eqb_spec h' h) as [->|Hne].
    + split; [intros _|intros Hx; lia]. split; apply nassoc_remove_same.
    + rewrite !nassoc_remove_other by congruence. rewrite Nat.sub_0_r. apply Hc.
  - now apply sremove_nodup.
  - intros h'. rewrite (count_sremove _ _ _ _ h' Hnd En).
    destruct (Nat.eqb_spec h' h) as [->|Hne].
    + split; intros Hx; [lia|]. split; [apply nassoc_set_same|exact Hst].
    + rewrite nassoc_set_other by congruence. rewrite Nat.sub_0_r. apply Hc.
Qed.

Lemma Inv_step s o : Inv s -> Inv (fst (step s o)).
Proof. destruct o; cbn [step]; [apply Inv_add|apply Inv_del]. Qed.

Lemma Inv_run_from ops : forall s, Inv s -> Inv (fold_left (fun s o => fst (step s o)) ops s).
Proof. induction ops as [|o ops IH]; cbn; intros s H; [exact H|]. apply IH, Inv_step, H. Qed.

Lemma Inv_run ops : Inv (run ops).
Proof. apply Inv_run_from, Inv_init. Qed.

(* ---------- refinement to the abstract map name -> (content, ctype) ------- *)

Definition lookup (s : st) (n : string) : option (content * ctype) := sassoc n (names s).

(* what the public getters answer is exactly what the name map says *)
Lemma getters_agree s n : Inv s ->
  match lookup s n with
  | Some (h, t) => write_file s n = OData h /\ get_content_type s n = OCtype t /\
                   get_sha256 s n = OHash h /\ contains s n = OBool true /\ In n (iter_names s)
  | None => write_file s n = OKeyError /\ get_content_type s n = OKeyError /\
            get_sha256 s n = OKeyError /\ contains s n = OBool false /\ ~ In n (iter_names s)
  end.
Proof.
  intros [Hnd Hc]. unfold lookup, write_file, get_content_type, get_sha256, contains, iter_names.
  destruct (sassoc n (names s)) as [[h t]|] eqn:E.
  - pose proof (count_pos_of_sassoc _ _ _ _ E) as Hp.
    destruct (proj2 (Hc h) Hp) as [_ ->]. repeat split. eapply sassoc_in; eauto.
  - repeat split. now apply sassoc_none_notin.
Qed.

Lemma add_spec s name c t : Inv s ->
  exists n', snd (add_file s name c t) = OName n' /\
    lookup (fst (add_file s name c t)) n' = Some (c, t) /\
    (forall m, m <> n' -> lookup (fst (add_file s name c t)) m = lookup s m) /\
    (lookup s n' = None \/ (lookup s n' = Some (c, t) /\ fst (add_file s name c t) = s)) /\
    ((lookup s name = None \/ lookup s name = Some (c, t)) -> n' = name).
Proof.
  intros HI. pose proof HI as [Hnd Hc]. unfold lookup, add_file, add_file_fuel.
  set (f := S (S (List.length (names s)))).
  set (s1 := match nassoc c (store s) with
             | Some _ => s
             | None => mk (store s ++ [(c, c)]) (names s) (nset c 0 (refc s)) end).
  assert (Hn1 : names s1 = names s) by (subst s1; destruct (nassoc c (store s)); reflexivity).
  assert (Hs1 : nassoc c (store s) = None -> count c (names s) = 0).
  { intros Es. destruct (Nat.eq_dec (count c (names s)) 0) as [E0|Hn]; [exact E0|].
    destruct (proj2 (Hc c)) as [_ Hst]; [lia|congruence]. }
  destruct (add_loop f s1 name (c, t) name 1) as [s' o] eqn:El. cbn [fst snd].
  assert (Hfirst : (sassoc name (names s) = None \/ sassoc name (names s) = Some (c, t)) ->
                   o = OName name).
  { intros H. rewrite <- Hn1 in H. destruct (add_loop_first (S (List.length (names s))) s1 name (c,t) 1 H) as [s'' E].
    fold f in E. congruence. }
  destruct (add_loop_spec _ _ _ _ _ _ _ _ El) as [->|[n' [-> [[Hsame ->]|[Hfree ->]]]]].
  - rewrite <- Hn1 in Hnd. subst f. rewrite <- Hn1 in El.
    exact (match add_loop_no_oof s1 _ _ _ Hnd El with end).
  - rewrite Hn1 in *. exists n'. split; [reflexivity|].
    assert (s1 = s) as ->.
    { subst s1. destruct (nassoc c (store s)) eqn:Es; [reflexivity|].
      apply count_pos_of_sassoc in Hsame. specialize (Hs1 eq_refl). lia. }
    repeat split; auto. intros H. specialize (Hfirst H). congruence.
  - rewrite Hn1 in *. exists n'. split; [reflexivity|]. cbn [names].
    split; [|split; [|split]].
    + rewrite (sassoc_app_none _ _ _ Hfree). cbn. now rewrite String.eqb_refl.
    + intros m Hm. destruct (sassoc m (names s)) as [v|] eqn:Em.
      * now apply sassoc_app_some.
      * rewrite (sassoc_app_none _ _ _ Em). cbn.
        destruct (String.eqb_spec m n'); [congruence|reflexivity].
    + now left.
    + intros H. specialize (Hfirst H). congruence.
Qed.

Lemma del_spec s name : Inv s ->
  (lookup s name = None -> delete_file s name = (s, OKeyError)) /\
  (lookup s name <> None ->
     snd (delete_file s name) = OUnit /\
     lookup (fst (delete_file s name)) name = None /\
     forall m, m <> name -> lookup (fst (delete_file s name)) m = lookup s m).
Proof.
  intros [Hnd Hc]. unfold lookup, delete_file.
  destruct (sassoc name (names s)) as [[h t]|] eqn:En; split; try congruence; try reflexivity.
  intros _. pose proof (count_pos_of_sassoc _ _ _ _ En) as Hpos.
  destruct (proj2 (Hc h) Hpos) as [-> _].
  destruct (Nat.eqb (count h (names s) - 1) 0); cbn [fst snd names];
    (split; [reflexivity|split; [apply sassoc_remove_same|intros m Hm; apply sassoc_remove_other; congruence]]).
Qed.

(* ---------- history form: the container equals the ghost map of names handed out ---------- *)

Definition gmap_t := string -> option (content * ctype).
Definition gupd (g : gmap_t) (n : string) (v : content * ctype) : gmap_t :=
  fun m => if String.eqb m n then Some v else g m.
Definition grem (g : gmap_t) (n : string) : gmap_t :=
  fun m => if String.eqb m n then None else g m.

(* ghost bookkeeping done by a *client* that only sees the calls and their results *)
Definition ghost_step (g : gmap_t) (o : op) (r : out) : gmap_t :=
  match o, r with
  | Add _ c t, OName n' => gupd g n' (c, t)
  | Del n, OUnit => grem g n
  | _, _ => g
  end.

Fixpoint exec (s : st) (g : gmap_t) (ops : list op) : st * gmap_t :=
  match ops with
  | [] => (s, g)
  | o :: r => exec (fst (step s o)) (ghost_step g o (snd (step s o))) r
  end.

Lemma exec_refines ops : forall s g,
  Inv s -> (forall n, lookup s n = g n) ->
  Inv (fst (exec s g ops)) /\ forall n, lookup (fst (exec s g ops)) n = snd (exec s g ops) n.
Proof.
  induction ops as [|o ops IH]; intros s g HI Hg; cbn [exec]; [auto|].
  apply IH; [apply Inv_step, HI|].
  destruct o as [name c t|name]; cbn [step ghost_step].
  - destruct (add_spec s name c t HI) as [n' [-> [Hl [Hoth _]]]].
    intros n. unfold gupd. destruct (String.eqb_spec n n') as [->|Hne]; [exact Hl|].
    rewrite Hoth by exact Hne. apply Hg.
  - destruct (del_spec s name HI) as [Hnone Hsome].
    destruct (lookup s name) as [v|] eqn:E.
    + destruct Hsome as [-> [Hl Hoth]]; [congruence|].
      intros n. unfold grem. destruct (String.eqb_spec n name) as [->|Hne]; [exact Hl|].
      rewrite Hoth by exact Hne. apply Hg.
    + rewrite (Hnone eq_refl). cbn [fst snd]. exact Hg.
Qed.

Lemma exec_fst ops : forall s g, fst (exec s g ops) = fold_left (fun s o => fst (step s o)) ops s.
Proof. induction ops as [|o ops IH]; intros s g; cbn; [reflexivity|apply IH]. Qed.

Lemma history_refines ops n :
  lookup (run ops) n = snd (exec init (fun _ => None) ops) n.
Proof.
  unfold run. rewrite <- (exec_fst ops init (fun _ => None)).
  apply exec_refines; [apply Inv_init|reflexivity].
Qed.

Lemma add_never_out_of_fuel s name c t : Inv s -> snd (add_file s name c t) <> OOutOfFuel.
Proof. intros HI. destruct (add_spec s name c t HI) as [n' [-> _]]. discriminate. Qed.
