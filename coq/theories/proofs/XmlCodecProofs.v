(* Proofs for C04: the generic XML codec round trip.
   [roundtrip]: for all rule tables that are [compat]ible with the metamodel table, every well-formed value
   of every class reachable through the compatible (writer function, class, constructor) triples is encoded
   successfully (no Err, no fuel exhaustion) and decoded back to exactly itself, at every nesting depth. *)
From Coq Require Import List Bool String Arith Lia.
From Basyx Require Import model.XmlCodec model.XmlCompat.
Import ListNotations.
Local Open Scope string_scope.
Local Open Scope list_scope.

(* ================= part 1 ================= *)

(* ---------- generic ---------- *)
Lemma seqb_eq : forall a b, String.eqb a b = true -> a = b.
Proof. intros a b H. apply String.eqb_eq. exact H. Qed.
Lemma seqb_refl : forall a, String.eqb a a = true.
Proof. intro a. apply String.eqb_refl. Qed.
Lemma seqb_sym : forall a b, String.eqb a b = String.eqb b a.
Proof. intros a b. destruct (String.eqb a b) eqn:E.
  - apply seqb_eq in E. subst. symmetry. apply seqb_refl.
  - destruct (String.eqb b a) eqn:E2; auto. apply seqb_eq in E2. subst. rewrite seqb_refl in E. discriminate. Qed.

Lemma map_res_ok : forall A B (f : A -> res B) l l',
  map_res f l = Ok l' <-> Forall2 (fun a b => f a = Ok b) l l'.
Proof.
  intros A B f l. induction l as [|a l IH]; intros l'; simpl.
  - split; intro H. inversion H. constructor. inversion H. reflexivity.
  - destruct (f a) eqn:Ea.
    + destruct (map_res f l) eqn:El.
      * split; intro H.
        -- inversion H; subst. constructor; auto. apply IH. reflexivity.
        -- inversion H; subst. rewrite Ea in H2. inversion H2; subst.
           apply IH in H4. inversion H4; subst. reflexivity.
      * split; intro H. discriminate. inversion H; subst. apply IH in H4. discriminate.
      * split; intro H. discriminate. inversion H; subst. apply IH in H4. discriminate.
    + split; intro H. discriminate. inversion H; subst. rewrite Ea in H2. discriminate.
    + split; intro H. discriminate. inversion H; subst. rewrite Ea in H2. discriminate.
Qed.

Lemma map_res_build : forall A B (f : A -> res B) l l',
  Forall2 (fun a b => f a = Ok b) l l' -> map_res f l = Ok l'.
Proof. intros. apply map_res_ok. assumption. Qed.

Lemma smem_true : forall s l, smem s l = true <-> In s l.
Proof.
  intros s l. unfold smem. rewrite existsb_exists. split.
  - intros [x [Hi He]]. apply seqb_eq in He. subst. assumption.
  - intro H. exists s. split; auto. apply seqb_refl.
Qed.

Lemma sfind_In : forall B k (l : list (string * B)) v, sfind k l = Some v -> In (k, v) l.
Proof.
  intros B k l. induction l as [|[k' v'] l IH]; simpl; intros v H. discriminate.
  destruct (String.eqb k k') eqn:E. apply seqb_eq in E. inversion H; subst. left; reflexivity.
  right. apply IH. assumption.
Qed.

(* ---------- find_kid in the concatenation of the per-rule outputs ---------- *)
Definition emits (t : string) (ks : list xml) : Prop := ks = [] \/ exists x, ks = [x] /\ xtag x = t.

Lemma find_kid_absent : forall t ts kss,
  Forall2 emits ts kss -> smem t ts = false -> find_kid t (List.concat kss) = None.
Proof.
  intros t ts kss H. induction H as [|t0 ks0 ts kss He H IH]; intros Hn; simpl. reflexivity.
  unfold smem in Hn. simpl in Hn. apply orb_false_iff in Hn. destruct Hn as [Hn1 Hn2].
  destruct He as [He|[x [He Hx]]]; subst; simpl.
  - apply IH. exact Hn2.
  - rewrite Hn1. apply IH. exact Hn2.
Qed.

Lemma find_kid_concat : forall ts kss,
  Forall2 emits ts kss -> nodup_s ts = true ->
  forall i t ks, nth_error ts i = Some t -> nth_error kss i = Some ks ->
  find_kid t (List.concat kss) = hd_error ks.
Proof.
  intros ts kss H. induction H as [|t0 ks0 ts kss He H IH]; intros Hnd i t ks Ht Hk.
  - destruct i; discriminate.
  - simpl in Hnd. apply andb_true_iff in Hnd. destruct Hnd as [Hn1 Hn2].
    apply negb_true_iff in Hn1.
    destruct i as [|i]; simpl in Ht, Hk.
    + inversion Ht; inversion Hk; subst. simpl.
      destruct He as [He|[x [He Hx]]]; subst; simpl.
      * eapply find_kid_absent; eauto.
      * rewrite seqb_refl. reflexivity.
    + simpl.
      assert (Hne : String.eqb t t0 = false).
      { destruct (String.eqb t t0) eqn:E; auto. apply seqb_eq in E. subst.
        assert (In t0 ts) by (eapply nth_error_In; eauto). apply smem_true in H0. congruence. }
      destruct He as [He|[x [He Hx]]]; subst; simpl.
      * eapply IH; eauto.
      * rewrite Hne. eapply IH; eauto.
Qed.

(* ================= part 2 ================= *)

Section RT.
Variable M : meta.
Variable W : wtables.
Variable R : rtables.
Variable pairs : list triple.
Variable fl : string -> string -> bool.
Hypothesis Hcompat : compat M W R pairs = true.

Lemma pair_ok_of : forall p, tmem p pairs = true -> pair_ok M W R pairs p = true.
Proof.
  intros p H. unfold tmem in H. apply existsb_exists in H. destruct H as [q [Hin He]].
  unfold compat in Hcompat. rewrite forallb_forall in Hcompat. specialize (Hcompat q Hin).
  destruct p as [[f c] k], q as [[f' c'] k']. simpl in He.
  apply andb_true_iff in He. destruct He as [He He3]. apply andb_true_iff in He. destruct He as [He1 He2].
  apply seqb_eq in He1, He2, He3. subst. exact Hcompat.
Qed.

Definition RT_at (n : nat) : Prop :=
  forall fn c ctor v tag, tmem (fn, c, ctor) pairs = true -> cls_of v = c -> wfb M n v = true ->
  exists x, enc_obj fl W n fn tag v = Ok x /\ xtag x = tag /\ dec_obj R M n ctor x = Ok v.

Lemma text_elem_tag : forall t s, xtag (text_elem t s) = t.
Proof. intros. unfold text_elem. reflexivity. Qed.
Lemma text_elem_text : forall t s, s <> "" -> xtext (text_elem t s) = Some s.
Proof. intros t s H. unfold text_elem. simpl. destruct (String.eqb s "") eqn:E; auto.
  apply seqb_eq in E. contradiction. Qed.
Lemma text_elem_kids : forall t s, xkids (text_elem t s) = [].
Proof. reflexivity. Qed.

Lemma negb_eqb_ne : forall s, negb (String.eqb s "") = true -> s <> "".
Proof. intros s H E. subst. simpl in H. discriminate. Qed.

Section Sites.
Variable n : nat.
Hypothesis IH : RT_at n.

Lemma ctor_for_rt : forall fn c ctor v tag,
  ctor_for R pairs fn c ctor = true -> cls_of v = c -> wfb M n v = true ->
  exists x, enc_obj fl W n fn tag v = Ok x /\ xtag x = tag /\ dec_obj R M n ctor x = Ok v.
Proof.
  intros fn c ctor v tag H Hc Hw. unfold ctor_for in H.
  destruct (class_of_ctor R ctor); try discriminate.
  apply andb_true_iff in H. destruct H as [_ H]. eapply IH; eauto.
Qed.

Lemma obj_in_inv : forall cs v, obj_in (wfb M n) cs v = true ->
  exists c fs, v = VObj c fs /\ In c cs /\ wfb M n v = true.
Proof.
  intros cs v H. destruct v; simpl in H; try discriminate.
  apply andb_true_iff in H. destruct H as [H1 H2]. apply smem_true in H1. eauto.
Qed.

Lemma site_rt : forall e d cs, site_ok W R pairs cs e d = true ->
  forall v tag, obj_in (wfb M n) cs v = true ->
  exists x, enc_c W (enc_obj fl W n) e tag v = Ok x /\ (fixed_tag e = true -> xtag x = tag) /\
            dec_c R (dec_obj R M n) d x = Ok v.
Proof.
  intro e; induction e; intros dd cs Hs v tag Hv; simpl in Hs; try discriminate;
    destruct (obj_in_inv _ _ Hv) as [c [fs [Ev [Hin Hw]]]]; subst v.
  - (* WObj *)
    destruct dd; try discriminate.
    + (* RObj *)
      rewrite forallb_forall in Hs. specialize (Hs c Hin).
      destruct (ctor_for_rt fn c ctor (VObj c fs) tag Hs eq_refl Hw) as [x [H1 [H2 H3]]].
      exists x. simpl. auto.
    + (* RDisp text *)
      destruct (sfind d (rt_disp R)) as [[m|child tbls m]|] eqn:Ed; try discriminate.
      rewrite forallb_forall in Hs. specialize (Hs c Hin).
      destruct (wrules_of W fn c) as [[|[t a wc we wi] rest]|] eqn:Ew; try discriminate.
      destruct wc; try discriminate. destruct we; try discriminate. destruct wi; try discriminate.
      apply andb_true_iff in Hs. destruct Hs as [Hs Hs2].
      apply andb_true_iff in Hs. destruct Hs as [Ht Ha]. apply seqb_eq in Ht, Ha. subst t a.
      destruct (chain (wt_enum W) tbls0 c) as [txt|] eqn:Ec; try discriminate.
      apply andb_true_iff in Hs2. destruct Hs2 as [Hne Hs2]. apply negb_eqb_ne in Hne.
      destruct (chain (rt_enum R) tbls txt) as [mem|] eqn:Ec2; try discriminate.
      destruct (sfind mem m) as [ctor|] eqn:Em; try discriminate.
      destruct (ctor_for_rt fn c ctor (VObj c fs) tag Hs2 eq_refl Hw) as [x [H1 [H2 H3]]].
      exists x. simpl. split; [exact H1|]. split; [auto|].
      rewrite Ed.
      (* structure of x *)
      destruct n as [|n']; [simpl in Hw; discriminate|].
      simpl in H1. unfold wrules_of in Ew. destruct (sfind fn (wt_rules W)) as [byc|]; try discriminate.
      rewrite Ew in H1. simpl in H1.
      unfold enc_rule at 1 in H1. simpl in H1. unfold field in H1. simpl in H1.
      rewrite Ec in H1. simpl in H1.
      destruct (map_res (enc_rule fl W (enc_obj fl W n') c fs) rest) as [kss| |]; simpl in H1; try discriminate.
      inversion H1; subst x. simpl.
      rewrite seqb_refl. rewrite text_elem_text by assumption. rewrite Ec2. rewrite Em. exact H3.
  - (* WDisp *)
    destruct dd; try discriminate.
    destruct (sfind d (wt_disp W)) as [wm|] eqn:Ewd; try discriminate.
    destruct (sfind d0 (rt_disp R)) as [[m|child tbls m]|] eqn:Ed; try discriminate.
    rewrite forallb_forall in Hs. specialize (Hs c Hin).
    destruct (sfind c wm) as [[fn t]|] eqn:Ec; try discriminate.
    destruct (sfind t m) as [ctor|] eqn:Et; try discriminate.
    destruct (ctor_for_rt fn c ctor (VObj c fs) t Hs eq_refl Hw) as [x [H1 [H2 H3]]].
    exists x. simpl. rewrite Ewd, Ec. split; [exact H1|]. split; [intro; discriminate|].
    rewrite Ed. rewrite H2. rewrite Et. exact H3.
  - (* WWrap *)
    destruct dd; try discriminate.
    + (* RChild *)
      apply andb_true_iff in Hs. destruct Hs as [Hs Hs3]. apply andb_true_iff in Hs. destruct Hs as [Hs1 Hs2].
      apply seqb_eq in Hs1. subst itag0.
      destruct (IHe _ _ Hs3 (VObj c fs) itag Hv) as [k [H1 [H2 H3]]].
      exists (XE tag None [k]). simpl. rewrite H1. simpl. split; auto. split; auto.
      rewrite (H2 Hs2). rewrite seqb_refl. exact H3.
    + (* RFirst *)
      destruct (IHe _ _ Hs (VObj c fs) itag Hv) as [k [H1 [H2 H3]]].
      exists (XE tag None [k]). simpl. rewrite H1. simpl. auto.
Qed.

Lemma list_site_rt : forall cs wi itag di itag' chk,
  list_site_ok W R pairs cs (WList wi itag) (RList di itag' chk) = true ->
  forall l, forallb (obj_in (wfb M n) cs) l = true ->
  exists ks, map_res (enc_c W (enc_obj fl W n) wi itag) l = Ok ks /\
             map_res (fun k => if chk && negb (String.eqb (xtag k) itag') then Err
                               else dec_c R (dec_obj R M n) di k) ks = Ok l.
Proof.
  intros cs wi itag di itag' chk Hs. simpl in Hs. apply andb_true_iff in Hs. destruct Hs as [Hs Hc].
  induction l as [|v l IHl]; intros Hl; simpl.
  - exists []. auto.
  - simpl in Hl. apply andb_true_iff in Hl. destruct Hl as [Hv Hl].
    destruct (site_rt _ _ _ Hs v itag Hv) as [x [H1 [H2 H3]]].
    destruct (IHl Hl) as [ks [H4 H5]].
    exists (x :: ks). rewrite H1, H4. split; auto. simpl.
    assert (Hchk : chk && negb (String.eqb (xtag x) itag') = false).
    { destruct chk; simpl; auto. simpl in Hc. apply andb_true_iff in Hc. destruct Hc as [Hf He].
      apply seqb_eq in He. subst itag'. rewrite (H2 Hf). rewrite seqb_refl. reflexivity. }
    rewrite Hchk. rewrite H3. rewrite H5. reflexivity.
Qed.

End Sites.
End RT.

(* ================= part 3 ================= *)

Lemma veq_none : forall d, value_eqb_flat d VNone = true -> d = VNone.
Proof. intros d H. destruct d; simpl in H; try discriminate; auto. destruct l; discriminate. Qed.
Lemma veq_nil : forall d, value_eqb_flat d (VList []) = true -> d = VList [].
Proof. intros d H. destruct d; simpl in H; try discriminate. destruct l; try discriminate. reflexivity. Qed.

Section A.
Variable M : meta.
Variable W : wtables.
Variable R : rtables.
Variable pairs : list triple.
Variable fl : string -> string -> bool.
Variable n : nat.

Lemma fits_all_single : forall wf fs a v attrs,
  fits_all wf fs attrs [(a, v)] = true -> exists k, attrs = [(a, k)] /\ fits wf fs k v = true.
Proof.
  intros wf fs a v attrs H. destruct attrs as [|[a' k] attrs']; simpl in H; try discriminate.
  apply andb_true_iff in H. destruct H as [H H3]. apply andb_true_iff in H. destruct H as [H1 H2].
  apply seqb_eq in H1. subst.
  destruct attrs' as [|[a2 k2] attrs']; simpl in H3; try discriminate. eauto.
Qed.

Lemma falsy_obj : forall c fs, wfb M n (VObj c fs) = true -> never_falsy_class M c = true ->
  falsy fl (VObj c fs) = false.
Proof.
  intros c fs Hw Hn. destruct n as [|n']; simpl in Hw; try discriminate.
  destruct (sfind c M) as [attrs|] eqn:Ec; try discriminate.
  simpl. destruct fs as [|[a v] fs']; auto. destruct v; try (destruct fs'; reflexivity). destruct l; try (destruct fs'; reflexivity). destruct fs'; [|reflexivity].
  apply fits_all_single in Hw. destruct Hw as [k [Ea Hf]]. subst attrs.
  unfold never_falsy_class in Hn. rewrite Ec in Hn.
  destruct k; simpl in Hf; try discriminate.
  - simpl in Hf. destruct nonempty; simpl in Hf; try discriminate.
    rewrite orb_false_r in Hn. apply negb_true_iff in Hn. exact Hn.
  - apply negb_true_iff in Hn. exact Hn.
Qed.

Lemma obj_in_falsy : forall cs v, obj_in (wfb M n) cs v = true -> forallb (never_falsy_class M) cs = true ->
  falsy fl v = false.
Proof.
  intros cs v H Hn. destruct v; simpl in H; try discriminate.
  apply andb_true_iff in H. destruct H as [H1 H2]. apply smem_true in H1.
  rewrite forallb_forall in Hn. apply falsy_obj; auto.
Qed.

Lemma drops_spec : forall fs k c dflt va,
  cond_ok M k c dflt = true -> fits (wfb M n) fs k va = true -> drops fl c va = true ->
  may_drop k c = true /\ va = dflt.
Proof.
  intros fs k c dflt va Hc Hf Hd.
  destruct k; simpl in Hc.
  - (* KStr *) destruct va; simpl in Hf; try discriminate.
    + subst. destruct c; simpl in *; try discriminate; split; auto; symmetry; apply veq_none; assumption.
    + destruct c; simpl in Hd; try discriminate; rewrite Hd in Hf; discriminate.
  - (* KBool *) destruct va; simpl in Hf; try discriminate. destruct c; simpl in *; try discriminate.
  - (* KEnum *) destruct va; simpl in Hf; try discriminate.
    + subst. destruct c; simpl in *; try discriminate; split; auto; symmetry; apply veq_none; assumption.
    + destruct c; simpl in Hd; discriminate.
  - (* KXsd *) destruct c; try discriminate. destruct va; simpl in Hd; try discriminate.
    split; auto. symmetry. apply veq_none. assumption.
  - destruct c; try discriminate. destruct va; simpl in Hd; try discriminate.
    split; auto. symmetry. apply veq_none. assumption.
  - destruct c; try discriminate. destruct va; simpl in Hd; try discriminate.
    split; auto. symmetry. apply veq_none. assumption.
  - (* KObj *) destruct va; try (simpl in Hf; discriminate).
    + simpl in Hf. subst. destruct c; simpl in *; try discriminate; split; auto; symmetry; apply veq_none.
      * apply andb_true_iff in Hc. tauto.
      * assumption.
      * apply andb_true_iff in Hc. tauto.
    + assert (Ho : obj_in (wfb M n) classes (VObj cls fs0) = true) by exact Hf.
      destruct c; try (simpl in Hd; discriminate); unfold drops in Hd;
        apply andb_true_iff in Hc; destruct Hc as [Hc _];
        rewrite (obj_in_falsy _ _ Ho Hc) in Hd; discriminate.
  - (* KList *) destruct va; simpl in Hf; try discriminate.
    apply andb_true_iff in Hf. destruct Hf as [_ Hf].
    destruct c; simpl in Hd; try discriminate; destruct l; try discriminate;
      destruct nonempty; simpl in *; try discriminate; split; auto; symmetry; apply veq_nil; assumption.
  - (* KLevel *) destruct va; simpl in Hf; try discriminate.
    destruct c; simpl in Hd; try discriminate; destruct l; try discriminate;
      simpl in *; split; auto; symmetry; apply veq_nil; assumption.
  - discriminate.
Qed.

Lemma none_dropped : forall fs k c dflt,
  cond_ok M k c dflt = true -> fits (wfb M n) fs k VNone = true -> drops fl c VNone = true.
Proof.
  intros fs k c dflt Hc Hf. destruct k; simpl in Hf; try discriminate; subst;
    destruct c; simpl in *; try discriminate; auto.
Qed.

(* level types *)
Lemma level_flat_nil : forall ms : list string,
  flat_map (fun m => if existsb (String.eqb m) [] then [VEnum m] else []) ms = [].
Proof. induction ms; simpl; auto. Qed.

Lemma flat_map_ext_in' : forall A B (f g : A -> list B) l,
  (forall a, In a l -> f a = g a) -> flat_map f l = flat_map g l.
Proof. induction l; simpl; intros H; auto. rewrite H by auto. rewrite IHl; auto. Qed.

Lemma subseq_notin : forall y ms, smem y ms = false -> forall l', subseq l' ms = true -> existsb (String.eqb y) l' = false.
Proof.
  intros y ms. induction ms as [|z ms IHm]; intros Hy l' H; simpl in H.
  - destruct l'; try discriminate. reflexivity.
  - unfold smem in Hy. simpl in Hy. apply orb_false_iff in Hy. destruct Hy as [Hyz Hy].
    destruct l' as [|x l']; auto. simpl.
    destruct (String.eqb x z) eqn:E.
    + apply seqb_eq in E. subst. rewrite Hyz. simpl. apply IHm; auto.
    + apply (IHm Hy (x :: l') H).
Qed.

Lemma level_flat : forall ms l, nodup_s ms = true -> subseq l ms = true ->
  flat_map (fun m => if existsb (String.eqb m) l then [VEnum m] else []) ms = map VEnum l.
Proof.
  induction ms as [|y ms IH]; intros l Hn Hs.
  - simpl in Hs. destruct l; try discriminate. reflexivity.
  - destruct l as [|x l].
    + rewrite level_flat_nil. reflexivity.
    + simpl in Hn, Hs. apply andb_true_iff in Hn. destruct Hn as [Hy Hn]. apply negb_true_iff in Hy.
      destruct (String.eqb x y) eqn:E.
      * apply seqb_eq in E. subst. simpl. rewrite seqb_refl. simpl. f_equal.
        rewrite <- (IH l Hn Hs).
        apply flat_map_ext_in'. intros m Hm.
        assert (String.eqb m y = false).
        { destruct (String.eqb m y) eqn:E2; auto. apply seqb_eq in E2. subst.
          apply smem_true in Hm. congruence. }
        simpl. rewrite H. reflexivity.
      * change (flat_map (fun m => if existsb (String.eqb m) (x :: l) then [VEnum m] else []) (y :: ms))
          with ((if existsb (String.eqb y) (x :: l) then [VEnum y] else []) ++
                flat_map (fun m => if existsb (String.eqb m) (x :: l) then [VEnum m] else []) ms).
        rewrite (subseq_notin y ms Hy (x :: l) Hs). exact (IH (x :: l) Hn Hs).
Qed.

End A.

(* ================= part 4 ================= *)

Section B.
Variable M : meta.
Variable W : wtables.
Variable R : rtables.
Variable pairs : list triple.
Variable fl : string -> string -> bool.
Hypothesis Hcompat : compat M W R pairs = true.
Variable n : nat.
Hypothesis IH : RT_at M W R pairs fl n.
Variable fs : list (string * value).
Variable attrs : list (string * kind).
Variable rrules : list rrule.

Ltac dec_start Hreq Hinl Hfind :=
  unfold dec_rule; rewrite Hreq; unfold requires_ok; simpl forallb; simpl negb; cbv iota;
  rewrite Hinl; simpl xkids; rewrite Hfind.

Lemma text_elem_dec : forall E r ty t s,
  (s <> "" \/ r_tmode r = TOrEmpty) ->
  dec_leaf_elem E r ty (Some (text_elem t s)) = dec_text E (r_dec r) ty s.
Proof.
  intros E r ty t s H. unfold dec_leaf_elem, text_elem. simpl.
  destruct (String.eqb s "") eqn:Es.
  - apply seqb_eq in Es. subst. destruct H as [H|H]. contradiction. rewrite H. reflexivity.
  - reflexivity.
Qed.

Lemma codec_rt : forall k w r va,
  codec_ok W R pairs attrs rrules k w r = true ->
  fixed_tag (w_enc w) = true ->
  fits (wfb M n) fs k va = true -> va <> VNone ->
  match k with KList _ _ => true | _ => negb (r_nonempty r) end = true ->
  r_inline r = false -> r_requires r = [] -> w_tag w = r_tag r ->
  exists x, enc_c W (enc_obj fl W n) (w_enc w) (w_tag w) va = Ok x /\ xtag x = w_tag w /\
    forall tag kids, find_kid (r_tag r) kids = Some x ->
      (forall tattr ty, k = KXsd tattr -> sfind tattr fs = Some (VEnum ty) ->
         sibling_type R rrules (XE tag None kids) (r_dec r) = Ok (Some ty)) ->
      dec_rule R (dec_obj R M n) rrules (XE tag None kids) k r = Ok va.
Proof.
  intros k w r va Hc Hft Hf Hnn Hne Hinl Hreq Htag.
  destruct k; simpl in Hc.
  - (* KStr *)
    destruct (w_enc w) eqn:Ew; try discriminate. destruct (r_dec r) eqn:Er; try discriminate.
    destruct va; simpl in Hf; try discriminate; try congruence.
    apply negb_eqb_ne in Hf.
    exists (text_elem (w_tag w) s). simpl. split; [reflexivity|]. split; [reflexivity|].
    intros tag kids Hfind _. dec_start Hreq Hinl Hfind. rewrite Er. simpl.
    destruct (String.eqb s "") eqn:Es; [apply seqb_eq in Es; contradiction|]. rewrite Er. reflexivity.
  - (* KBool *)
    destruct (w_enc w) eqn:Ew; try discriminate. destruct (r_dec r) eqn:Er; try discriminate.
    destruct va; simpl in Hf; try discriminate.
    exists (text_elem (w_tag w) (bool_text b)). simpl. split; [reflexivity|]. split; [reflexivity|].
    intros tag kids Hfind _. dec_start Hreq Hinl Hfind. rewrite Er. simpl.
    destruct b; simpl; rewrite Er; reflexivity.
  - (* KEnum *)
    destruct (w_enc w) eqn:Ew; try discriminate. destruct (r_dec r) eqn:Er; try discriminate.
    destruct va; simpl in Hf; try discriminate; try congruence.
    apply smem_true in Hf. unfold enum_ok in Hc. rewrite forallb_forall in Hc. specialize (Hc m Hf).
    destruct (chain (wt_enum W) tbls m) as [t|] eqn:Ec; try discriminate.
    apply andb_true_iff in Hc. destruct Hc as [Hne' Hc]. apply negb_eqb_ne in Hne'.
    destruct (chain (rt_enum R) tbls0 t) as [m'|] eqn:Ec2; try discriminate. apply seqb_eq in Hc. subst m'.
    exists (text_elem (w_tag w) t). simpl. rewrite Ec. split; [reflexivity|]. split; [reflexivity|].
    intros tag kids Hfind _. dec_start Hreq Hinl Hfind. rewrite Er. simpl.
    destruct (String.eqb t "") eqn:Es; [apply seqb_eq in Es; contradiction|]. rewrite Er. simpl. rewrite Ec2. reflexivity.
  - (* KXsd *)
    destruct (w_enc w) eqn:Ew; try discriminate. destruct (r_dec r) eqn:Er; try discriminate.
    destruct (r_tmode r) eqn:Et; try discriminate.
    apply andb_true_iff in Hc. destruct Hc as [Hc _]. apply seqb_eq in Hc. subst tattr0.
    destruct va; simpl in Hf; try discriminate; try congruence.
    destruct (sfind tattr fs) as [[| | |t'| | | |]|] eqn:Es; try discriminate. apply seqb_eq in Hf. subst t'.
    exists (text_elem (w_tag w) lit). simpl. split; [reflexivity|]. split; [reflexivity|].
    intros tag kids Hfind Hsib. dec_start Hreq Hinl Hfind. rewrite Er. simpl is_leaf. cbv iota.
    unfold sibling_type. simpl xkids. rewrite (Hsib tattr ty eq_refl Es). simpl.
    destruct (String.eqb lit "") eqn:El; [apply seqb_eq in El; subst; rewrite Et|]; rewrite Er; reflexivity.
  - (* KXsdFixed *)
    destruct (w_enc w) eqn:Ew; try discriminate. destruct (r_dec r) eqn:Er; try discriminate.
    apply seqb_eq in Hc. subst ty0.
    destruct va; simpl in Hf; try discriminate; try congruence.
    apply andb_true_iff in Hf. destruct Hf as [Hf1 Hf2]. apply seqb_eq in Hf1. subst ty0.
    apply negb_eqb_ne in Hf2.
    exists (text_elem (w_tag w) lit). simpl. split; [reflexivity|]. split; [reflexivity|].
    intros tag kids Hfind _. dec_start Hreq Hinl Hfind. rewrite Er. simpl.
    destruct (String.eqb lit "") eqn:El; [apply seqb_eq in El; contradiction|]. rewrite Er. reflexivity.
  - (* KBytes *)
    destruct (w_enc w) eqn:Ew; try discriminate. destruct (r_dec r) eqn:Er; try discriminate.
    destruct (r_tmode r) eqn:Et; try discriminate.
    destruct va; simpl in Hf; try discriminate; try congruence.
    exists (text_elem (w_tag w) b64). simpl. split; [reflexivity|]. split; [reflexivity|].
    intros tag kids Hfind _. dec_start Hreq Hinl Hfind. rewrite Er. simpl.
    destruct (String.eqb b64 "") eqn:El; [apply seqb_eq in El; subst; rewrite Et|]; rewrite Er; reflexivity.
  - (* KObj *)
    destruct va; try (simpl in Hf; discriminate); try congruence.
    assert (Ho : obj_in (wfb M n) classes (VObj cls fs0) = true) by exact Hf.
    destruct (site_rt M W R pairs fl n IH _ _ _ Hc (VObj cls fs0) (w_tag w) Ho) as [x [H1 [H2 H3]]].
    exists x. split; [exact H1|]. split; [auto|].
    intros tag kids Hfind _. dec_start Hreq Hinl Hfind.
    assert (Hl : is_leaf (r_dec r) = false).
    { destruct (w_enc w); destruct (r_dec r); simpl in Hc; try discriminate; reflexivity. }
    rewrite Hl. apply negb_true_iff in Hne. rewrite Hne. simpl. exact H3.
  - (* KList *)
    apply andb_true_iff in Hc. destruct Hc as [Hc Hc2].
    destruct (w_enc w) as [ | |tb0| | | |tb0|fn0|d0|item itag|inner0 itag0] eqn:Ew; try discriminate.
    destruct (r_dec r) eqn:Er; try discriminate.
    destruct va; try (simpl in Hf; discriminate).
    simpl in Hf. apply andb_true_iff in Hf. destruct Hf as [Hf _].
    destruct (list_site_rt M W R pairs fl n IH _ _ _ _ _ _ Hc l Hf) as [ks [H1 H2]].
    exists (XE (w_tag w) None ks). simpl. rewrite H1. simpl. split; [reflexivity|]. split; [reflexivity|].
    intros tag kids Hfind _. dec_start Hreq Hinl Hfind. rewrite Er. simpl is_leaf. cbv iota. simpl xkids.
    destruct (r_nonempty r) eqn:En.
    + simpl in Hc2. apply veq_nil in Hc2. destruct ks as [|k0 ks].
      * simpl. destruct l; [|simpl in H1; destruct (enc_c W (enc_obj fl W n) item itag v); try discriminate;
                             destruct (map_res (enc_c W (enc_obj fl W n) item itag) l); discriminate].
        rewrite Hc2. reflexivity.
      * simpl andb. cbv iota. simpl. simpl in H2. rewrite H2. reflexivity.
    + simpl andb. cbv iota. simpl. rewrite H2. reflexivity.
  - (* KLevel *)
    destruct (w_enc w) eqn:Ew; try discriminate. destruct (r_dec r) eqn:Er; try discriminate.
    destruct va; try (simpl in Hf; discriminate).
    simpl in Hf. destruct (enum_names l) as [ns|] eqn:En; try discriminate.
    unfold level_ok in Hc.
    destruct (sfind tbl (wt_enum W)) as [wtb|] eqn:Ewt; try discriminate.
    destruct (sfind tbl0 (rt_enum R)) as [rtb|] eqn:Ert; try discriminate.
    apply andb_true_iff in Hc. destruct Hc as [Hc Hc3]. apply andb_true_iff in Hc. destruct Hc as [Hc1 Hc2].
    eexists. simpl. rewrite Ewt. split; [reflexivity|]. split; [reflexivity|].
    intros tag kids Hfind _. dec_start Hreq Hinl Hfind. rewrite Er. simpl is_leaf. cbv iota.
    apply negb_true_iff in Hne. rewrite Hne. simpl andb. cbv iota. simpl dec_c. unfold dec_level. rewrite Ert.
    simpl xkids.
    (* names of l *)
    assert (Hl : l = map VEnum ns).
    { clear -En. revert ns En. induction l as [|v l IHl]; intros ns En; simpl in En.
      - inversion En. reflexivity.
      - destruct v; try discriminate. destruct (enum_names l) as [r0|] eqn:E0; try discriminate.
        inversion En; subst. simpl. f_equal. apply IHl. reflexivity. }
    assert (Hms : map fst wtb = members).
    { clear -Hc1. revert members Hc1. induction (map fst wtb) as [|x a IHa]; intros b Hb; destruct b; try discriminate; auto.
      apply andb_true_iff in Hb. destruct Hb as [Hx Hb]. apply seqb_eq in Hx. subst. f_equal. apply IHa. exact Hb. }
    assert (Hmap : forall tb, (forall kv, In kv tb -> In kv wtb) ->
       map_res (fun k0 : xml => match sfind (xtag k0) rtb, xtext k0 with
                 | Some m, Some s => match xs_bool s with
                                     | Some true => Ok (Some m)
                                     | Some false => Ok None
                                     | None => Err end
                 | _, _ => Err end)
          (map (fun kv => text_elem (snd kv) (bool_text (vmem (fst kv) l))) tb)
       = Ok (map (fun kv => if vmem (fst kv) l then Some (fst kv) else None) tb)).
    { induction tb as [|kv tb IHtb]; intros Hsub; simpl; auto.
      rewrite forallb_forall in Hc3. specialize (Hc3 kv (Hsub kv (or_introl eq_refl))).
      destruct (sfind (snd kv) rtb) as [m|] eqn:Es; try discriminate. apply seqb_eq in Hc3. subst m.
      rewrite IHtb by (intros; apply Hsub; right; assumption).
      destruct (vmem (fst kv) l); simpl; reflexivity. }
    rewrite Hmap by auto. simpl. apply (f_equal (fun z => Ok (VList z))).
    transitivity (map VEnum ns); [|symmetry; exact Hl].
    rewrite <- (level_flat members ns Hc2 Hf). rewrite <- Hms.
    rewrite !flat_map_concat_map. rewrite !map_map. f_equal. apply map_ext. intros kv.
    rewrite Hl. unfold vmem.
    assert (He : existsb (fun x => match x with VEnum s => String.eqb s (fst kv) | _ => false end) (map VEnum ns)
                 = existsb (String.eqb (fst kv)) ns).
    { clear. induction ns; simpl; auto. rewrite IHns. rewrite (seqb_sym a (fst kv)). reflexivity. }
    rewrite He. destruct (existsb (String.eqb (fst kv)) ns); reflexivity.
  - discriminate.
Qed.

End B.

(* ================= part 5 ================= *)

Lemma find_wrule_spec : forall a ws w, find_wrule a ws = Some w -> In w ws /\ w_attr w = a.
Proof.
  induction ws as [|w0 ws IH]; simpl; intros w H. discriminate.
  destruct (String.eqb a (w_attr w0)) eqn:E.
  - inversion H; subst. apply seqb_eq in E. auto.
  - destruct (IH _ H). auto.
Qed.
Lemma find_wrule_nodup : forall ws w, nodup_s (map w_attr ws) = true -> In w ws -> find_wrule (w_attr w) ws = Some w.
Proof.
  induction ws as [|w0 ws IH]; simpl; intros w Hn Hi. contradiction.
  apply andb_true_iff in Hn. destruct Hn as [H1 H2]. apply negb_true_iff in H1.
  destruct Hi as [Hi|Hi].
  - subst. rewrite seqb_refl. reflexivity.
  - destruct (String.eqb (w_attr w) (w_attr w0)) eqn:E.
    + apply seqb_eq in E. assert (In (w_attr w) (map w_attr ws)) by (apply in_map; assumption).
      rewrite E in H. apply smem_true in H. congruence.
    + apply IH; auto.
Qed.
Lemma find_rule_spec : forall a rs r, find_rule a rs = Some r -> In r rs /\ r_attr r = a.
Proof.
  induction rs as [|r0 rs IH]; simpl; intros r H. discriminate.
  destruct (String.eqb a (r_attr r0)) eqn:E.
  - inversion H; subst. apply seqb_eq in E. auto.
  - destruct (IH _ H). auto.
Qed.
Lemma F2_nth : forall A B (P : A -> B -> Prop) l l', Forall2 P l l' ->
  forall i a, nth_error l i = Some a -> exists b, nth_error l' i = Some b /\ P a b.
Proof.
  intros A B P l l' H. induction H; intros i a Hn. destruct i; discriminate.
  destruct i; simpl in *. inversion Hn; subst. eauto. eauto.
Qed.
Lemma fits_all_F2 : forall wf fs0 attrs vs, fits_all wf fs0 attrs vs = true ->
  Forall2 (fun ak av => fst ak = fst av /\ fits wf fs0 (snd ak) (snd av) = true) attrs vs.
Proof.
  intros wf fs0. induction attrs as [|[a k] attrs IH]; intros vs H; destruct vs as [|[a' v] vs]; simpl in H; try discriminate.
  constructor.
  apply andb_true_iff in H. destruct H as [H H3]. apply andb_true_iff in H. destruct H as [H1 H2].
  apply seqb_eq in H1. constructor; auto.
Qed.
Lemma sfind_nodup : forall B (l : list (string * B)) a v, nodup_s (map fst l) = true -> In (a, v) l -> sfind a l = Some v.
Proof.
  induction l as [|[a0 v0] l IH]; simpl; intros a v Hn Hi. contradiction.
  apply andb_true_iff in Hn. destruct Hn as [H1 H2]. apply negb_true_iff in H1.
  destruct Hi as [Hi|Hi].
  - inversion Hi; subst. rewrite seqb_refl. reflexivity.
  - destruct (String.eqb a a0) eqn:E.
    + apply seqb_eq in E. subst. assert (In a0 (map fst l)) by (apply (in_map fst) in Hi; exact Hi).
      apply smem_true in H. congruence.
    + apply IH; auto.
Qed.
Lemma F2_fst : forall A B (l : list (string * A)) (l' : list (string * B)) P,
  Forall2 (fun a b => fst a = fst b /\ P a b) l l' -> map fst l = map fst l'.
Proof. intros A B l l' P H. induction H; simpl; auto. destruct H. congruence. Qed.
Lemma F2_in : forall A B (Q P : A -> B -> Prop) l l', Forall2 Q l l' ->
  (forall a b, In a l -> In b l' -> Q a b -> P a b) -> Forall2 P l l'.
Proof.
  intros A B Q P l l' H. induction H; intros Hp. constructor.
  constructor. apply Hp; simpl; auto. apply IHForall2. intros. apply Hp; simpl; auto.
Qed.
Lemma forall_exists_map_res : forall A B (f : A -> res B) l,
  (forall a, In a l -> exists b, f a = Ok b) -> exists l', map_res f l = Ok l'.
Proof.
  induction l as [|a l IH]; intros H. exists []. reflexivity.
  destruct (H a (or_introl eq_refl)) as [b Hb]. destruct IH as [l' Hl]. intros; apply H; right; assumption.
  exists (b :: l'). simpl. rewrite Hb, Hl. reflexivity.
Qed.

Section C.
Variable M : meta.
Variable W : wtables.
Variable R : rtables.
Variable pairs : list triple.
Variable fl : string -> string -> bool.
Hypothesis Hcompat : compat M W R pairs = true.
Variable n : nat.
Hypothesis IH : RT_at M W R pairs fl n.
Variable c : string.
Variable fs : list (string * value).
Variable attrs : list (string * kind).
Variable wrules : list wrule.
Variable rrules : list rrule.
Hypothesis Hfits : fits_all (wfb M n) fs attrs fs = true.
Hypothesis Hnd_attrs : nodup_s (map fst attrs) = true.
Hypothesis Hnoclass : smem class_attr (map fst attrs) = false.
Hypothesis Hnd_wattr : nodup_s (map w_attr wrules) = true.
Hypothesis Hshape : forallb (wrule_shape_ok W c attrs) wrules = true.
Hypothesis Hattrs : forallb (attr_ok M W R pairs attrs wrules rrules) attrs = true.

Lemma fs_lookup : forall a k, In (a, k) attrs -> exists va, sfind a fs = Some va /\ fits (wfb M n) fs k va = true.
Proof.
  intros a k Hin. pose proof (fits_all_F2 _ _ _ _ Hfits) as F.
  destruct (In_nth_error _ _ Hin) as [i Hi].
  destruct (F2_nth _ _ _ _ _ F i _ Hi) as [[a' va] [Hn [H1 H2]]]. simpl in *. subst a'.
  exists va. split; auto. apply sfind_nodup.
  - rewrite <- (F2_fst _ _ _ _ _ F). exact Hnd_attrs.
  - eapply nth_error_In; eauto.
Qed.

Lemma attr_not_class : forall a k, In (a, k) attrs -> String.eqb a class_attr = false.
Proof.
  intros a k Hin. destruct (String.eqb a class_attr) eqn:E; auto. apply seqb_eq in E. subst.
  assert (In class_attr (map fst attrs)) by (apply (in_map fst) in Hin; exact Hin).
  apply smem_true in H. congruence.
Qed.

(* the full per-attribute statement *)
Definition sib_prem (k : kind) (r : rrule) (tag : string) (kids : list xml) : Prop :=
  forall tattr ty, k = KXsd tattr -> sfind tattr fs = Some (VEnum ty) ->
    sibling_type R rrules (XE tag None kids) (r_dec r) = Ok (Some ty).

Lemma attr_rt : forall a k w r va,
  In (a, k) attrs -> find_wrule a wrules = Some w -> find_rule a rrules = Some r ->
  sfind a fs = Some va -> fits (wfb M n) fs k va = true ->
  exists ks, enc_rule fl W (enc_obj fl W n) c fs w = Ok ks /\
    (w_inline w = false ->
       emits (w_tag w) ks /\ r_tag r = w_tag w /\
       forall tag kids, find_kid (r_tag r) kids = hd_error ks -> sib_prem k r tag kids ->
         dec_rule R (dec_obj R M n) rrules (XE tag None kids) k r = Ok va) /\
    (w_inline w = true -> forall tag, dec_rule R (dec_obj R M n) rrules (XE tag None ks) k r = Ok va).
Proof.
  intros a k w r va Hin Hw Hr Hva Hf.
  pose proof Hattrs as Ha'. rewrite forallb_forall in Ha'. pose proof (Ha' _ Hin) as Hok. unfold attr_ok in Hok.
  rewrite Hw, Hr in Hok.
  set (dflt := match r_default r with Some d => d | None => default_of k end) in *.
  apply andb_true_iff in Hok. destruct Hok as [Hok Hrest].
  apply andb_true_iff in Hok. destruct Hok as [Hok Hmand].
  apply andb_true_iff in Hok. destruct Hok as [Hok Hcond].
  apply andb_true_iff in Hok. destruct Hok as [Hreq Hne].
  assert (Hreq' : r_requires r = []) by (destruct (r_requires r); [reflexivity|discriminate]).
  destruct (find_wrule_spec _ _ _ Hw) as [Hwin Hwa].
  assert (Hfield : field c fs (w_attr w) = Some va).
  { unfold field. rewrite Hwa. rewrite (attr_not_class _ _ Hin). exact Hva. }
  unfold enc_rule. rewrite Hfield.
  destruct (drops fl (w_cond w) va) eqn:Hd.
  - (* dropped *)
    destruct (drops_spec M fl n fs k (w_cond w) dflt va Hcond Hf Hd) as [Hmd Hdf].
    rewrite Hmd in Hmand. simpl in Hmand. apply negb_true_iff in Hmand.
    exists []. split; [reflexivity|].
    destruct (w_inline w) eqn:Hinl.
    + (* inline rules are never conditional *)
      apply andb_true_iff in Hrest. destruct Hrest as [Hrest _]. apply andb_true_iff in Hrest. destruct Hrest as [_ Hc].
      destruct (w_cond w); try discriminate.
    + split; [|intro; discriminate]. intros _. split; [left; reflexivity|].
      apply andb_true_iff in Hrest. destruct Hrest as [Hrest _]. apply andb_true_iff in Hrest. destruct Hrest as [Hri Htag].
      apply negb_true_iff in Hri. apply seqb_eq in Htag. split; [symmetry; exact Htag|].
      intros tag kids Hfind _.
      unfold dec_rule. rewrite Hreq'. unfold requires_ok. simpl forallb. simpl negb. cbv iota.
      rewrite Hri. simpl xkids. rewrite Hfind. simpl hd_error. fold dflt. rewrite Hmand.
      destruct (is_leaf (r_dec r)); rewrite Hdf; reflexivity.
  - (* emitted *)
    assert (Hnn : va <> VNone).
    { intro E. subst va. rewrite (none_dropped M fl n fs k (w_cond w) dflt Hcond Hf) in Hd. discriminate. }
    destruct (w_inline w) eqn:Hinl.
    + (* inline list *)
      apply andb_true_iff in Hrest. destruct Hrest as [Hrest Hsite].
      apply andb_true_iff in Hrest. destruct Hrest as [Hrest _]. apply andb_true_iff in Hrest. destruct Hrest as [Hri _].
      destruct k; try discriminate.
      destruct (w_enc w) as [ | |tb0| | | |tb0|fn0|d0|item itag|inner0 itag0] eqn:Ew; try discriminate.
      destruct (r_dec r) eqn:Er; try discriminate.
      destruct va; try (simpl in Hf; discriminate).
      simpl in Hf. apply andb_true_iff in Hf. destruct Hf as [Hf _].
      destruct (list_site_rt M W R pairs fl n IH _ _ _ _ _ _ Hsite l Hf) as [ks [H1 H2]].
      exists ks. split; [exact H1|]. split; [intro; discriminate|]. intros _ tag.
      unfold dec_rule. rewrite Hreq'. unfold requires_ok. simpl forallb. simpl negb. cbv iota.
      rewrite Hri. rewrite Er. simpl. rewrite H2. reflexivity.
    + apply andb_true_iff in Hrest. destruct Hrest as [Hrest Hcodec].
      apply andb_true_iff in Hrest. destruct Hrest as [Hri Htag]. apply negb_true_iff in Hri. apply seqb_eq in Htag.
      assert (Hft : fixed_tag (w_enc w) = true).
      { pose proof Hshape as Hs'. rewrite forallb_forall in Hs'. specialize (Hs' _ Hwin). unfold wrule_shape_ok in Hs'.
        apply andb_true_iff in Hs'. tauto. }
      destruct (codec_rt M W R pairs fl n IH fs attrs rrules k w r va Hcodec Hft Hf Hnn Hne Hri Hreq' Htag)
        as [x [H1 [H2 H3]]].
      exists [x]. rewrite H1. simpl. split; [reflexivity|]. split; [|intro; discriminate]. intros _.
      split; [right; exists x; auto|]. split; [symmetry; exact Htag|].
      intros tag kids Hfind Hsib. apply H3; auto.
Qed.

End C.

(* ================= part 6 ================= *)

Lemma F2_map_l : forall A B C (f : A -> C) (P : C -> B -> Prop) l l',
  Forall2 (fun a b => P (f a) b) l l' -> Forall2 P (map f l) l'.
Proof. intros. induction H; simpl; constructor; auto. Qed.

Lemma map_res_const : forall A (f : A -> res unit) l, (forall a, In a l -> f a = Ok tt) ->
  exists us, map_res f l = Ok us.
Proof.
  induction l as [|a l IH]; intros H. exists []; reflexivity.
  destruct IH as [us Hu]. intros; apply H; right; assumption.
  exists (tt :: us). simpl. rewrite (H a (or_introl eq_refl)). rewrite Hu. reflexivity.
Qed.

Section D.
Variable M : meta.
Variable W : wtables.
Variable R : rtables.
Variable pairs : list triple.
Variable fl : string -> string -> bool.
Hypothesis Hcompat : compat M W R pairs = true.
Variable n : nat.
Hypothesis IH : RT_at M W R pairs fl n.
Variable c : string.
Variable fs : list (string * value).
Variable attrs : list (string * kind).
Variable wrules : list wrule.
Variable rrules : list rrule.
Hypothesis Hfits : fits_all (wfb M n) fs attrs fs = true.
Hypothesis Hnd_attrs : nodup_s (map fst attrs) = true.
Hypothesis Hnoclass : smem class_attr (map fst attrs) = false.
Hypothesis Hnd_wattr : nodup_s (map w_attr wrules) = true.
Hypothesis Hnd_tags : nodup_s (map w_tag wrules) = true.
Hypothesis Hshape : forallb (wrule_shape_ok W c attrs) wrules = true.
Hypothesis Hattrs : forallb (attr_ok M W R pairs attrs wrules rrules) attrs = true.
Hypothesis Hclass : forallb (class_rule_ok W R c wrules) rrules = true.

Let rec_e := enc_obj fl W n.
Let rec_d := dec_obj R M n.

Lemma attr_rules : forall a k, In (a, k) attrs ->
  exists w r, find_wrule a wrules = Some w /\ find_rule a rrules = Some r.
Proof.
  intros a k Hin. pose proof Hattrs as H. rewrite forallb_forall in H. specialize (H _ Hin).
  unfold attr_ok in H. destruct (find_wrule a wrules); try discriminate.
  destruct (find_rule a rrules); try discriminate. eauto.
Qed.

Lemma class_wrule : forall w, In w wrules -> String.eqb (w_attr w) class_attr = true ->
  exists wt t, w = mkW (w_tag w) (w_attr w) WAlways (WEnum wt) false /\ chain (wt_enum W) wt c = Some t /\
    enc_rule fl W rec_e c fs w = Ok [text_elem (w_tag w) t].
Proof.
  intros w Hin E. pose proof Hshape as H. rewrite forallb_forall in H. specialize (H _ Hin).
  unfold wrule_shape_ok in H. rewrite E in H. apply andb_true_iff in H. destruct H as [_ H].
  destruct w as [t a wc we wi]. simpl in *.
  destruct wc; try discriminate. destruct we; try discriminate. destruct wi; try discriminate.
  destruct (chain (wt_enum W) tbls c) as [txt|] eqn:Ec; try discriminate.
  exists tbls, txt. split; [reflexivity|]. split; [exact Ec|].
  unfold enc_rule, field. simpl. rewrite E. simpl. rewrite Ec. reflexivity.
Qed.

Lemma wrule_attr : forall w, In w wrules -> String.eqb (w_attr w) class_attr = false ->
  exists k r va, In (w_attr w, k) attrs /\ find_wrule (w_attr w) wrules = Some w /\
    find_rule (w_attr w) rrules = Some r /\ sfind (w_attr w) fs = Some va /\ fits (wfb M n) fs k va = true.
Proof.
  intros w Hin E. pose proof Hshape as H. rewrite forallb_forall in H. specialize (H _ Hin).
  unfold wrule_shape_ok in H. rewrite E in H. apply andb_true_iff in H. destruct H as [_ H].
  destruct (sfind (w_attr w) attrs) as [k|] eqn:Es; try discriminate.
  apply sfind_In in Es.
  destruct (attr_rules _ _ Es) as [w' [r [Hw Hr]]].
  rewrite (find_wrule_nodup _ _ Hnd_wattr Hin) in Hw. inversion Hw; subst w'.
  destruct (fs_lookup M n fs attrs) with (a:=w_attr w) (k:=k) as [va [Hva Hf]]; auto.
  exists k, r, va. repeat split; auto. apply find_wrule_nodup; auto.
Qed.

Lemma wrule_enc : forall w, In w wrules ->
  exists ks, enc_rule fl W rec_e c fs w = Ok ks /\ (w_inline w = false -> emits (w_tag w) ks).
Proof.
  intros w Hin. destruct (String.eqb (w_attr w) class_attr) eqn:E.
  - destruct (class_wrule w Hin E) as [wt [t [Hw [Hc He]]]]. exists [text_elem (w_tag w) t].
    split; [exact He|]. intros _. right. eexists. split; [reflexivity|]. reflexivity.
  - destruct (wrule_attr w Hin E) as [k [r [va [Hi [Hw [Hr [Hva Hf]]]]]]].
    destruct (attr_rt M W R pairs fl n IH c fs attrs wrules rrules) with (a:=w_attr w) (k:=k) (w:=w) (r:=r) (va:=va)
      as [ks [H1 [H2 H3]]]; auto.
    exists ks. split; [exact H1|]. intros Hinl. destruct (H2 Hinl). assumption.
Qed.

Lemma class_checks_ok : forall x,
  (forall r, In r rrules -> String.eqb (r_attr r) class_attr = true ->
     dec_rule R rec_d rrules x KClass r = Ok (VEnum c)) ->
  class_checks R rec_d c rrules x = Ok tt.
Proof.
  intros x H. unfold class_checks.
  destruct (map_res_const _ (fun r => if String.eqb (r_attr r) class_attr then
                            bind (dec_rule R rec_d rrules x KClass r) (fun v =>
                              match v with VEnum m => if String.eqb m c then Ok tt else Err | _ => Err end)
                          else Ok tt) rrules) as [us Hu].
  - intros r Hin. destruct (String.eqb (r_attr r) class_attr) eqn:E; auto.
    rewrite (H r Hin E). simpl. rewrite seqb_refl. reflexivity.
  - rewrite Hu. reflexivity.
Qed.

Lemma enum_elem : forall a ms opt w r m,
  In (a, KEnum ms opt) attrs -> find_wrule a wrules = Some w -> find_rule a rrules = Some r ->
  sfind a fs = Some (VEnum m) -> smem m ms = true ->
  exists t, enc_rule fl W rec_e c fs w = Ok [text_elem (w_tag w) t] /\ r_tag r = w_tag w /\
     dec_leaf_elem (rt_enum R) r None (Some (text_elem (w_tag w) t)) = Ok (Some (VEnum m)).
Proof.
  intros a ms opt w r m Hin Hw Hr Hva Hm.
  pose proof Hattrs as Ha'. rewrite forallb_forall in Ha'. pose proof (Ha' _ Hin) as Hok. unfold attr_ok in Hok.
  rewrite Hw, Hr in Hok.
  apply andb_true_iff in Hok. destruct Hok as [Hok Hrest].
  destruct (w_inline w) eqn:Hinl.
  { apply andb_true_iff in Hrest. destruct Hrest as [_ Hx]. discriminate. }
  apply andb_true_iff in Hrest. destruct Hrest as [Hrest Hcodec].
  apply andb_true_iff in Hrest. destruct Hrest as [Hri Htag]. apply seqb_eq in Htag.
  simpl in Hcodec.
  destruct (w_enc w) eqn:Ew; try discriminate. destruct (r_dec r) eqn:Er; try discriminate.
  unfold enum_ok in Hcodec. rewrite forallb_forall in Hcodec. apply smem_true in Hm. specialize (Hcodec m Hm).
  destruct (chain (wt_enum W) tbls m) as [t|] eqn:Ec; try discriminate.
  apply andb_true_iff in Hcodec. destruct Hcodec as [Hne Hc2]. apply negb_eqb_ne in Hne.
  destruct (chain (rt_enum R) tbls0 t) as [m'|] eqn:Ec2; try discriminate. apply seqb_eq in Hc2. subst m'.
  destruct (find_wrule_spec _ _ _ Hw) as [Hwin Hwa].
  exists t. split; [|split; [symmetry; exact Htag|]].
  - assert (Hnc : String.eqb a class_attr = false) by (eapply attr_not_class; eauto).
    unfold enc_rule, field. rewrite Hwa. rewrite Hnc. rewrite Hva.
    assert (Hd : drops fl (w_cond w) (VEnum m) = false) by (destruct (w_cond w); reflexivity).
    rewrite Hd. rewrite Hinl. rewrite Ew. simpl. rewrite Ec. reflexivity.
  - unfold dec_leaf_elem. rewrite text_elem_text by assumption. rewrite Er. simpl. rewrite Ec2. reflexivity.
Qed.

(* ---- case A: no inline rule ---- *)
Section NoInline.
Hypothesis Hnoinl : forallb (fun w => negb (w_inline w)) wrules = true.
Variable kss : list (list xml).
Hypothesis Hkss : Forall2 (fun w ks => enc_rule fl W rec_e c fs w = Ok ks) wrules kss.
Variable tag : string.

Lemma w_noinl : forall w, In w wrules -> w_inline w = false.
Proof. intros w Hin. pose proof Hnoinl as H. rewrite forallb_forall in H. specialize (H _ Hin).
  apply negb_true_iff in H. exact H. Qed.

Lemma emits_all : Forall2 emits (map w_tag wrules) kss.
Proof.
  apply F2_map_l. eapply F2_in. exact Hkss. intros w ks Hin _ He. simpl.
  destruct (wrule_enc w Hin) as [ks' [H1 H2]]. rewrite He in H1. inversion H1; subst. apply H2. apply w_noinl; auto.
Qed.

Lemma find_for : forall w ks, In w wrules -> enc_rule fl W rec_e c fs w = Ok ks ->
  find_kid (w_tag w) (List.concat kss) = hd_error ks.
Proof.
  intros w ks Hin He. destruct (In_nth_error _ _ Hin) as [i Hi].
  destruct (F2_nth _ _ _ _ _ Hkss i _ Hi) as [ks' [Hk He']]. rewrite He in He'. inversion He'; subst ks'.
  eapply find_kid_concat. exact emits_all. exact Hnd_tags. apply map_nth_error. exact Hi. exact Hk.
Qed.

Lemma sibling_ok : forall a tattr r, In (a, KXsd tattr) attrs -> find_rule a rrules = Some r ->
  sib_prem R fs rrules (KXsd tattr) r tag (List.concat kss).
Proof.
  intros a tattr r Hin Hr tattr' ty Ek Hs. inversion Ek; subst tattr'. clear Ek.
  destruct (attr_rules _ _ Hin) as [w [r' [Hw Hr']]]. rewrite Hr in Hr'. inversion Hr'; subst r'. clear Hr'.
  pose proof Hattrs as Ha'. rewrite forallb_forall in Ha'. pose proof (Ha' _ Hin) as Hok. unfold attr_ok in Hok.
  rewrite Hw, Hr in Hok.
  apply andb_true_iff in Hok. destruct Hok as [Hok Hrest].
  destruct (w_inline w) eqn:Hinl.
  { apply andb_true_iff in Hrest. destruct Hrest as [_ Hx]. discriminate. }
  apply andb_true_iff in Hrest. destruct Hrest as [_ Hcodec]. simpl in Hcodec.
  destruct (w_enc w); try discriminate. destruct (r_dec r) eqn:Er; try discriminate.
  destruct (r_tmode r); try discriminate.
  apply andb_true_iff in Hcodec. destruct Hcodec as [Hte Hc]. apply seqb_eq in Hte. subst tattr0.
  destruct (sfind tattr attrs) as [[| |ms opt| | | | | | |]|] eqn:Est; try discriminate.
  destruct (find_rule tattr rrules) as [rt|] eqn:Ert; try discriminate.
  apply sfind_In in Est.
  destruct (attr_rules _ _ Est) as [wt [rt' [Hwt Hrt']]]. rewrite Ert in Hrt'. inversion Hrt'; subst rt'. clear Hrt'.
  destruct (fs_lookup M n fs attrs) with (a:=tattr) (k:=KEnum ms opt) as [va [Hva Hf]]; auto.
  rewrite Hs in Hva. inversion Hva; subst va. simpl in Hf.
  destruct (enum_elem _ _ _ _ _ _ Est Hwt Ert Hs Hf) as [t [He [Htag Hd]]].
  destruct (find_wrule_spec _ _ _ Hwt) as [Hwin _].
  pose proof (find_for _ _ Hwin He) as Hfind. simpl in Hfind.
  unfold sibling_type. rewrite Ert. simpl xkids. rewrite Htag. rewrite Hfind. rewrite Hd. reflexivity.
Qed.

Lemma attr_dec : forall a k va, In (a, k) attrs -> sfind a fs = Some va -> fits (wfb M n) fs k va = true ->
  dec_attr R rec_d c rrules (XE tag None (List.concat kss)) (a, k) = Ok (a, va).
Proof.
  intros a k va Hin Hva Hf.
  destruct (attr_rules _ _ Hin) as [w [r [Hw Hr]]].
  destruct (attr_rt M W R pairs fl n IH c fs attrs wrules rrules) with (a:=a) (k:=k) (w:=w) (r:=r) (va:=va)
    as [ks [H1 [H2 H3]]]; auto.
  destruct (find_wrule_spec _ _ _ Hw) as [Hwin _].
  destruct (H2 (w_noinl _ Hwin)) as [_ [Htag Hdec]].
  unfold dec_attr, rec_d. simpl fst. simpl snd. rewrite Hr.
  rewrite (Hdec tag (List.concat kss)).
  - reflexivity.
  - rewrite Htag. apply find_for; auto.
  - destruct k; try (intros ? ? Hk; discriminate). eapply sibling_ok; eauto.
Qed.

Lemma class_dec : forall r, In r rrules -> String.eqb (r_attr r) class_attr = true ->
  dec_rule R rec_d rrules (XE tag None (List.concat kss)) KClass r = Ok (VEnum c).
Proof.
  intros r Hin E. pose proof Hclass as H. rewrite forallb_forall in H. specialize (H _ Hin).
  unfold class_rule_ok in H. rewrite E in H. simpl in H.
  destruct (find_wrule class_attr wrules) as [[t a wc we wi]|] eqn:Ew; try discriminate.
  destruct wc; try discriminate. destruct we; try discriminate. destruct wi; try discriminate.
  apply andb_true_iff in H. destruct H as [H Hd]. apply andb_true_iff in H. destruct H as [H Hreq].
  apply andb_true_iff in H. destruct H as [Ht Hinl]. apply seqb_eq in Ht. apply negb_true_iff in Hinl.
  assert (Hreq' : r_requires r = []) by (destruct (r_requires r); [reflexivity|discriminate]).
  destruct (r_dec r) eqn:Er; try discriminate.
  destruct (chain (wt_enum W) tbls c) as [txt|] eqn:Ec; try discriminate.
  apply andb_true_iff in Hd. destruct Hd as [Hne Hd]. apply negb_eqb_ne in Hne.
  destruct (chain (rt_enum R) tbls0 txt) as [m|] eqn:Ec2; try discriminate. apply seqb_eq in Hd. subst m.
  destruct (find_wrule_spec _ _ _ Ew) as [Hwin Hwa]. simpl in Hwa.
  assert (Eq : String.eqb a class_attr = true) by (subst a; apply seqb_refl).
  destruct (class_wrule _ Hwin Eq) as [wt' [t' [Hw' [Hc' He]]]]. simpl in Hw'. inversion Hw'; subst wt'.
  rewrite Ec in Hc'. inversion Hc'; subst t'. simpl in He.
  pose proof (find_for _ _ Hwin He) as Hfind. simpl in Hfind.
  unfold dec_rule. rewrite Hreq'. unfold requires_ok. simpl forallb. simpl negb. cbv iota.
  rewrite Hinl. simpl xkids. rewrite <- Ht. rewrite Hfind. rewrite Er. simpl is_leaf. cbv iota.
  unfold sibling_type. unfold bind at 1. cbv iota beta. unfold dec_leaf_elem. rewrite text_elem_text by assumption.
  rewrite Er. simpl. rewrite Ec2. reflexivity.
Qed.

Lemma obj_dec_A :
  class_checks R rec_d c rrules (XE tag None (List.concat kss)) = Ok tt /\
  map_res (dec_attr R rec_d c rrules (XE tag None (List.concat kss))) attrs = Ok fs.
Proof.
  split. apply class_checks_ok. intros; apply class_dec; auto.
  apply map_res_build. pose proof (fits_all_F2 _ _ _ _ Hfits) as F.
  eapply F2_in. exact F. intros [a k] [a' va] Hin Hin' [H1 H2]. simpl in *. subst a'.
  apply attr_dec; auto. apply sfind_nodup; auto.
  rewrite <- (F2_fst _ _ _ _ _ F). exact Hnd_attrs.
Qed.

End NoInline.

Lemma inline_single : forall w0, In w0 wrules -> w_inline w0 = true -> wrules = [w0].
Proof.
  intros w0 Hin0 Hinl.
  assert (E0 : String.eqb (w_attr w0) class_attr = false).
  { destruct (String.eqb (w_attr w0) class_attr) eqn:E; auto.
    destruct (class_wrule w0 Hin0 E) as [wt [t [Hw _]]]. rewrite Hw in Hinl. simpl in Hinl. discriminate. }
  destruct (wrule_attr w0 Hin0 E0) as [k0 [r0 [va0 [Hi [Hw [Hr _]]]]]].
  pose proof Hattrs as Ha'. rewrite forallb_forall in Ha'. pose proof (Ha' _ Hi) as Hok. unfold attr_ok in Hok.
  rewrite Hw, Hr in Hok. rewrite Hinl in Hok.
  apply andb_true_iff in Hok. destruct Hok as [_ Hok].
  apply andb_true_iff in Hok. destruct Hok as [Hok _]. apply andb_true_iff in Hok. destruct Hok as [Hok _].
  apply andb_true_iff in Hok. destruct Hok as [_ Hok].
  destruct wrules as [|w1 [|w2 rest]]; try discriminate.
  destruct Hin0 as [H|[]]. subst. reflexivity.
Qed.

(* ---- case B: the class consists of one inline collection (lang string sets) ---- *)
Lemma obj_B : forall w0 tag, wrules = [w0] -> w_inline w0 = true ->
  exists ks, enc_rule fl W rec_e c fs w0 = Ok ks /\
    class_checks R rec_d c rrules (XE tag None (ks ++ [])) = Ok tt /\
    map_res (dec_attr R rec_d c rrules (XE tag None (ks ++ []))) attrs = Ok fs.
Proof.
  intros w0 tag Hw0 Hinl.
  assert (Hin0 : In w0 wrules) by (rewrite Hw0; left; reflexivity).
  assert (E0 : String.eqb (w_attr w0) class_attr = false).
  { destruct (String.eqb (w_attr w0) class_attr) eqn:E; auto.
    destruct (class_wrule w0 Hin0 E) as [wt [t [Hw _]]]. rewrite Hw in Hinl. simpl in Hinl. discriminate. }
  destruct (wrule_attr w0 Hin0 E0) as [k0 [r0 [va0 [Hi [Hw [Hr [Hva Hf]]]]]]].
  destruct (attr_rt M W R pairs fl n IH c fs attrs wrules rrules) with (a:=w_attr w0) (k:=k0) (w:=w0) (r:=r0) (va:=va0)
    as [ks [H1 [_ H3]]]; auto.
  specialize (H3 Hinl tag).
  (* every attribute is this one *)
  assert (Hall : forall a k, In (a, k) attrs -> a = w_attr w0).
  { intros a k Hin. destruct (attr_rules _ _ Hin) as [w [r [Hw' _]]]. rewrite Hw0 in Hw'. simpl in Hw'.
    destruct (String.eqb a (w_attr w0)) eqn:E; try discriminate. apply seqb_eq in E. exact E. }
  assert (Hattrs1 : attrs = [(w_attr w0, k0)]).
  { clear -Hall Hi Hnd_attrs. destruct attrs as [|[a1 k1] rest]; [contradiction|].
    assert (a1 = w_attr w0) by (eapply Hall; left; reflexivity). subst a1.
    destruct rest as [|[a2 k2] rest].
    - destruct Hi as [Hi|[]]. inversion Hi; subst. reflexivity.
    - assert (a2 = w_attr w0) by (eapply Hall; right; left; reflexivity). subst a2.
      simpl in Hnd_attrs. unfold smem in Hnd_attrs. simpl in Hnd_attrs. rewrite seqb_refl in Hnd_attrs. discriminate. }
  pose proof Hfits as Hfits'. rewrite Hattrs1 in Hfits'.
  assert (Hfs : fs = [(w_attr w0, va0)]).
  { destruct fs as [|[a v] rest]; simpl in Hfits'; try discriminate.
    apply andb_true_iff in Hfits'. destruct Hfits' as [Hx Hy]. destruct rest; try discriminate.
    apply andb_true_iff in Hx. destruct Hx as [Hx _]. apply seqb_eq in Hx. subst a.
    simpl in Hva. rewrite seqb_refl in Hva. inversion Hva; subst. reflexivity. }
  exists ks. split; [exact H1|]. rewrite app_nil_r. split.
  - apply class_checks_ok. intros r Hin E. exfalso.
    pose proof Hclass as H. rewrite forallb_forall in H. specialize (H _ Hin).
    unfold class_rule_ok in H. rewrite E in H. rewrite Hw0 in H. unfold find_wrule in H.
    rewrite seqb_sym in E0. rewrite E0 in H. simpl in H. discriminate.
  - rewrite Hattrs1. simpl. unfold dec_attr, rec_d. simpl fst. simpl snd. rewrite Hr. rewrite H3. simpl.
    rewrite Hfs. reflexivity.
Qed.

End D.

(* ================= part 7 ================= *)

Lemma forallb_false_ex : forall A (f : A -> bool) l, forallb f l = false -> exists a, In a l /\ f a = false.
Proof.
  induction l as [|a l IH]; simpl; intros H. discriminate.
  destruct (f a) eqn:E. destruct (IH H) as [b [H1 H2]]. eauto. eauto.
Qed.

Theorem roundtrip : forall M W R pairs fl, compat M W R pairs = true ->
  forall n, RT_at M W R pairs fl n.
Proof.
  intros M W R pairs fl Hc. induction n as [|n IH].
  - intros fn c ctor v tag _ _ Hw. simpl in Hw. discriminate.
  - intros fn c ctor v tag Hp Hcls Hw.
    pose proof (pair_ok_of M W R pairs Hc _ Hp) as Hok. unfold pair_ok in Hok.
    destruct (wrules_of W fn c) as [wrules|] eqn:Ew; try discriminate.
    destruct (sfind ctor (rt_ctor R)) as [[c' rrules]|] eqn:Er; try discriminate.
    destruct (sfind c M) as [attrs|] eqn:Em; try discriminate.
    repeat (apply andb_true_iff in Hok; let H := fresh "Hk" in destruct Hok as [Hok H]).
    apply seqb_eq in Hok. subst c'.
    destruct v as [| | | | | | |cls fs]; simpl in Hw; try discriminate. simpl in Hcls. subst cls.
    rewrite Em in Hw.
    apply negb_true_iff in Hk0.
    unfold wrules_of in Ew. destruct (sfind fn (wt_rules W)) as [byc|] eqn:Efn; try discriminate.
    simpl enc_obj. rewrite Efn, Ew. simpl dec_obj. 
    destruct (forallb (fun w => negb (w_inline w)) wrules) eqn:Einl.
    + (* no inline rule *)
      destruct (forall_exists_map_res _ _ (enc_rule fl W (enc_obj fl W n) c fs) wrules) as [kss Hkss].
      { intros w Hin. destruct (wrule_enc M W R pairs fl n IH c fs attrs wrules rrules) with (w:=w) as [ks [H1 _]]; auto.
        eauto. }
      rewrite Hkss. simpl bind. eexists. split; [reflexivity|]. split; [reflexivity|].
      rewrite Er, Em.
      destruct (obj_dec_A M W R pairs fl n IH c fs attrs wrules rrules) with (kss:=kss) (tag:=tag) as [H1 H2]; auto.
      { apply map_res_ok. exact Hkss. }
      rewrite H1. simpl bind. rewrite H2. reflexivity.
    + (* a single inline rule *)
      destruct (forallb_false_ex _ _ _ Einl) as [w0 [Hin0 Hi0]]. apply negb_false_iff in Hi0.
      assert (Hw0 : wrules = [w0]).
      { eapply inline_single with (attrs:=attrs) (rrules:=rrules) (c:=c) (fs:=fs); eauto. }
      destruct (obj_B M W R pairs fl n IH c fs attrs wrules rrules) with (w0:=w0) (tag:=tag) as [ks [H1 [H2 H3]]]; auto.
      rewrite Hw0. simpl map_res. rewrite H1. simpl bind. eexists. split; [reflexivity|]. split; [reflexivity|].
      rewrite Er, Em. simpl List.concat. rewrite H2. simpl bind. rewrite H3. reflexivity.
Qed.

(* ================= part 8: store level ================= *)

Lemma map_res_app : forall A B (f : A -> res B) l1 l2 r1 r2,
  map_res f l1 = Ok r1 -> map_res f l2 = Ok r2 -> map_res f (l1 ++ l2) = Ok (r1 ++ r2).
Proof.
  induction l1 as [|a l1 IH]; simpl; intros l2 r1 r2 H1 H2.
  - inversion H1; subst. exact H2.
  - destruct (f a); try discriminate. destruct (map_res f l1) as [l| |] eqn:E; try discriminate.
    inversion H1; subst. rewrite (IH l2 l r2 eq_refl H2). reflexivity.
Qed.

Lemma find_top_nodup : forall tops t, nodup_s (map tl_list tops) = true -> In t tops ->
  find_top (tl_list t) tops = Some t.
Proof.
  induction tops as [|t0 tops IH]; simpl; intros t Hn Hi. contradiction.
  apply andb_true_iff in Hn. destruct Hn as [H1 H2]. apply negb_true_iff in H1.
  destruct Hi as [Hi|Hi].
  - subst. rewrite seqb_refl. reflexivity.
  - destruct (String.eqb (tl_list t) (tl_list t0)) eqn:E.
    + apply seqb_eq in E. assert (In (tl_list t) (map tl_list tops)) by (apply in_map; assumption).
      rewrite E in H. apply smem_true in H. congruence.
    + apply IH; auto.
Qed.

Section Store.
Variable M : meta.
Variable W : wtables.
Variable R : rtables.
Variable pairs : list triple.
Variable fl : string -> string -> bool.
Hypothesis Hcompat : compat M W R pairs = true.
Variable tops : list toplist.
Hypothesis Htops : forall t, In t tops -> tmem (tl_fn t, tl_cls t, tl_ctor t) pairs = true.
Hypothesis Hnd : nodup_s (map tl_list tops) = true.
Variable n : nat.
Variable objs : list value.
Hypothesis Hwf : forall v, In v objs -> wfb M n v = true.

Definition mine (t : toplist) := filter (fun v => String.eqb (cls_of v) (tl_cls t)) objs.
Definition read_back := flat_map mine tops.

Lemma items_rt : forall t, In t tops -> forall l, (forall v, In v l -> In v (mine t)) ->
  exists ks, map_res (enc_obj fl W n (tl_fn t) (tl_item t)) l = Ok ks /\
    map_res (fun e => if String.eqb (xtag e) (tl_item t) then dec_obj R M n (tl_ctor t) e else Err) ks = Ok l.
Proof.
  intros t Ht. induction l as [|v l IH]; intros Hl.
  - exists []. auto.
  - destruct IH as [ks [H1 H2]]. intros; apply Hl; right; assumption.
    assert (Hv : In v (mine t)) by (apply Hl; left; reflexivity).
    unfold mine in Hv. apply filter_In in Hv. destruct Hv as [Hv Hc]. apply seqb_eq in Hc.
    destruct (roundtrip M W R pairs fl Hcompat n (tl_fn t) (tl_cls t) (tl_ctor t) v (tl_item t) (Htops t Ht) Hc (Hwf v Hv))
      as [x [Hx [Hxt Hd]]].
    exists (x :: ks). simpl. rewrite Hx, H1. split; auto. rewrite Hxt. rewrite seqb_refl. rewrite Hd, H2. reflexivity.
Qed.

Definition wtop (t : toplist) : res (list xml) :=
  match mine t with
  | [] => Ok []
  | _ => bind (map_res (enc_obj fl W n (tl_fn t) (tl_item t)) (mine t)) (fun ks => Ok [XE (tl_list t) None ks]) end.
Definition rlist (l : xml) : res (list value) :=
  match find_top (xtag l) tops with
  | None => Err
  | Some t => map_res (fun e => if String.eqb (xtag e) (tl_item t) then dec_obj R M n (tl_ctor t) e else Err) (xkids l)
  end.
Definition groups (t : toplist) : list (list value) := match mine t with [] => [] | _ => [mine t] end.

Lemma wtop_rt : forall t, In t tops -> exists ks, wtop t = Ok ks /\ map_res rlist ks = Ok (groups t).
Proof.
  intros t Ht. destruct (items_rt t Ht (mine t) (fun v H => H)) as [ks [H3 H4]].
  unfold wtop, groups. destruct (mine t) as [|v0 l0] eqn:Em.
  - exists []. auto.
  - rewrite H3. simpl bind. exists [XE (tl_list t) None ks]. split; [reflexivity|].
    simpl. unfold rlist. simpl xtag. rewrite (find_top_nodup tops t Hnd Ht). simpl xkids. rewrite H4. reflexivity.
Qed.

Lemma tops_rt : forall ts, (forall t, In t ts -> In t tops) ->
  exists kss, map_res wtop ts = Ok kss /\ map_res rlist (List.concat kss) = Ok (flat_map groups ts).
Proof.
  induction ts as [|t ts IH]; intros Hts.
  - exists []. auto.
  - destruct IH as [kss [H1 H2]]. intros; apply Hts; right; assumption.
    destruct (wtop_rt t (Hts t (or_introl eq_refl))) as [ks [H3 H4]].
    exists (ks :: kss). simpl. rewrite H3, H1. split; [reflexivity|].
    apply map_res_app; assumption.
Qed.

Lemma groups_concat : forall ts, List.concat (flat_map groups ts) = flat_map mine ts.
Proof.
  induction ts as [|t ts IH]; simpl; auto. rewrite concat_app. rewrite IH. f_equal.
  unfold groups. destruct (mine t); simpl; auto. rewrite app_nil_r. reflexivity.
Qed.

Theorem store_roundtrip : forall seen, add_all [] read_back = Ok seen ->
  exists x, write_store fl W tops n objs = Ok x /\ read_store R M tops n x = Ok read_back.
Proof.
  intros seen Hids.
  destruct (tops_rt tops (fun t H => H)) as [kss [H1 H2]].
  exists (XE "environment" None (List.concat kss)). split.
  - change (write_store fl W tops n objs) with
      (bind (map_res wtop tops) (fun kss => Ok (XE "environment" None (List.concat kss)))).
    rewrite H1. reflexivity.
  - change (read_store R M tops n (XE "environment" None (List.concat kss))) with
      (bind (map_res rlist (List.concat kss)) (fun vss => let vs := List.concat vss in bind (add_all [] vs) (fun _ => Ok vs))).
    rewrite H2. simpl bind. rewrite groups_concat. fold read_back. rewrite Hids. reflexivity.
Qed.
End Store.
