(* C02 - the generated reference-constructor checks (gen/Gen_RefChecks.v) accept exactly the
   key chains that satisfy AASd-121..128 as written in model/ConstraintsSpec.v. *)
From Coq Require Import List ZArith Bool Lia.
From Basyx Require Import model.ConstraintsBase gen.Gen_RefChecks model.ConstraintsSpec.
Import ListNotations.
Local Open Scope Z_scope.

(* ---- membership in the spec's enumerations -------------------------------------------- *)
Definition memb (t : keytype) (S : list keytype) : bool := existsb (keytype_beq t) S.

Lemma keytype_beq_eq : forall a b, keytype_beq a b = true <-> a = b.
Proof.
  intros a b. split; [apply internal_keytype_dec_bl | apply internal_keytype_dec_lb].
Qed.

Lemma memb_In : forall t S, memb t S = true <-> In t S.
Proof.
  intros t S. unfold memb. rewrite existsb_exists. split.
  - intros (x & Hx & E). apply keytype_beq_eq in E. subst. exact Hx.
  - intro H. exists t. split; [exact H | apply keytype_beq_eq; reflexivity].
Qed.

Lemma memb_false : forall t S, memb t S = false <-> ~ In t S.
Proof.
  intros. rewrite <- memb_In. destruct (memb t S); split; intro H; congruence.
Qed.

(* the SDK's key-type predicates coincide with the metamodel's enumerations (finite check) *)
Lemma pred_aas_identifiable : forall t, is_aas_identifiable t = memb t AasIdentifiables.
Proof. destruct t; reflexivity. Qed.
Lemma pred_generic_globally : forall t, is_generic_globally_identifiable t = memb t GenericGloballyIdentifiables.
Proof. destruct t; reflexivity. Qed.
Lemma pred_generic_fragment : forall t, is_generic_fragment_key t = memb t GenericFragmentKeys.
Proof. destruct t; reflexivity. Qed.
Lemma pred_fragment_key : forall t, is_fragment_key_element t = memb t FragmentKeys.
Proof. destruct t; reflexivity. Qed.
Lemma pred_globally : forall t, is_globally_identifiable t = memb t GloballyIdentifiables.
Proof. destruct t; reflexivity. Qed.
Lemma pred_submodel_element : forall t, is_aas_submodel_element t = memb t AasSubmodelElements.
Proof. destruct t; reflexivity. Qed.

(* ---- list positions ------------------------------------------------------------------------ *)
Lemma In_removelast_nonlast : forall (ks : list K) k, In k (removelast ks) <-> nonlast ks k.
Proof.
  induction ks as [|x r IH]; intro k.
  - simpl. split; [tauto|]. intros (pre & post & E & _). destruct pre; discriminate.
  - destruct r as [|y r'].
    + simpl. split; [tauto|]. intros (pre & post & E & Hp).
      destruct pre as [|a pre]; simpl in E; inversion E; subst.
      * congruence.
      * destruct pre; discriminate.
    + change (removelast (x :: y :: r')) with (x :: removelast (y :: r')).
      simpl In. rewrite IH. split.
      * intros [->|(pre & post & E & Hp)].
        -- exists [], (y :: r'). split; [reflexivity | discriminate].
        -- exists (x :: pre), post. rewrite E. split; [reflexivity | exact Hp].
      * intros (pre & post & E & Hp). destruct pre as [|a pre]; simpl in E; inversion E; subst.
        -- left. reflexivity.
        -- right. exists pre, post. split; [assumption | exact Hp].
Qed.

Lemma In_combine_tl_adjacent : forall (ks : list K) p k, In (p, k) (combine ks (tl ks)) <-> adjacent ks p k.
Proof.
  induction ks as [|x r IH]; intros p k.
  - simpl. split; [tauto|]. intros (pre & post & E). destruct pre; discriminate.
  - destruct r as [|y r'].
    + simpl. split; [tauto|]. intros (pre & post & E).
      destruct pre as [|a pre]; simpl in E; inversion E. destruct pre; discriminate.
    + change (combine (x :: y :: r') (tl (x :: y :: r'))) with ((x, y) :: combine (y :: r') (tl (y :: r'))).
      simpl In. rewrite IH. split.
      * intros [E|(pre & post & E)].
        -- inversion E; subst. exists [], r'. reflexivity.
        -- exists (x :: pre), post. rewrite E. reflexivity.
      * intros (pre & post & E). destruct pre as [|a pre]; simpl in E; inversion E; subst.
        -- left. reflexivity.
        -- right. exists pre, post. assumption.
Qed.

Lemma last_cons : forall (l : list K) (x d : K), last (x :: l) d = last l x.
Proof.
  induction l as [|y l IH]; intros x d; [reflexivity|].
  change (last (x :: y :: l) d) with (last (y :: l) d). rewrite (IH y d), (IH y x). reflexivity.
Qed.

Lemma is_last_last : forall (r : list K) (k0 k : K), is_last (k0 :: r) k <-> k = last r k0.
Proof.
  intros r k0 k. split.
  - intros (pre & E). revert k0 pre E. induction r as [|y r IH]; intros k0 pre E.
    + destruct pre as [|a pre]; simpl in E; inversion E; subst; [reflexivity|].
      exfalso. eapply app_cons_not_nil. eassumption.
    + destruct pre as [|a pre]; simpl in E.
      * inversion E.
      * inversion E; subst.
        match goal with H : y :: r = pre ++ [k] |- _ => specialize (IH y pre H) end.
        rewrite IH. symmetry. apply last_cons.
  - intros ->. revert k0. induction r as [|y r IH]; intro k0.
    + exists []. reflexivity.
    + destruct (IH y) as (pre & E). exists (k0 :: pre). rewrite last_cons.
      change ((k0 :: pre) ++ [last r y]) with (k0 :: (pre ++ [last r y])).
      rewrite <- E. reflexivity.
Qed.

Lemma rev_cons_last : forall (r : list K) (k0 : K), exists t, rev (k0 :: r) = last r k0 :: t.
Proof.
  intros r. induction r as [|y r IH]; intro k0.
  - exists []. reflexivity.
  - destruct (IH y) as (t & E). exists (t ++ [k0]).
    change (rev (k0 :: y :: r)) with (rev (y :: r) ++ [k0]). rewrite E.
    rewrite last_cons. reflexivity.
Qed.

(* ---- statement-level facts about the generated code ------------------------------------ *)
Lemma len_cons_lt1 : forall (x : K) l, (len (x :: l) <? 1) = false.
Proof. intros. apply Z.ltb_ge. unfold len. simpl length. lia. Qed.

Lemma first_some_exists : forall (A : Type) (c : A -> bool) (e : err) (l : list A),
  first_some (fun x => seqs [when (c x) (seqs [Some e])]) l = if existsb c l then Some e else None.
Proof.
  induction l as [|x r IH]; [reflexivity|].
  cbn [first_some existsb]. rewrite IH. destruct (c x); reflexivity.
Qed.

Lemma with_last_cons : forall (B : Type) (k0 : K) r (e : B) f,
  with_last (k0 :: r) e f = f (last r k0).
Proof.
  intros. unfold with_last. destruct (rev_cons_last r k0) as (t & E). rewrite E. reflexivity.
Qed.

(* boolean forms of the constraints *)
Definition b125 (ks : list K) := forallb (fun k => memb (ktype k) FragmentKeys) (tl ks).
Definition b126 (ks : list K) := forallb (fun k => negb (memb (ktype k) GenericFragmentKeys)) (removelast ks).
Definition pair127 (p : K * K) :=
  negb (keytype_beq (ktype (snd p)) KT_FRAGMENT_REFERENCE) || memb (ktype (fst p)) [KT_BLOB; KT_FILE].
Definition pair128 (p : K * K) :=
  negb (keytype_beq (ktype (fst p)) KT_SUBMODEL_ELEMENT_LIST) || knum (snd p).

Lemma b125_S : forall ks, b125 ks = true <-> S125 ks.
Proof.
  intro ks. unfold b125, S125. rewrite forallb_forall. split; intros H k Hk.
  - apply memb_In. apply H. exact Hk.
  - apply memb_In. apply H. exact Hk.
Qed.

Lemma b126_S : forall ks, b126 ks = true <-> S126 ks.
Proof.
  intro ks. unfold b126, S126. rewrite forallb_forall. split; intros H k Hk.
  - apply memb_false. apply negb_true_iff. apply H. apply In_removelast_nonlast. exact Hk.
  - apply negb_true_iff. apply memb_false. apply H. apply In_removelast_nonlast. exact Hk.
Qed.

Lemma pairs127_S : forall ks,
  forallb pair127 (combine ks (tl ks)) = true <->
  (forall p k, adjacent ks p k -> ktype k = KT_FRAGMENT_REFERENCE -> In (ktype p) [KT_FILE; KT_BLOB]).
Proof.
  intro ks. rewrite forallb_forall. split.
  - intros H p k Ha Hk. specialize (H (p, k)). rewrite In_combine_tl_adjacent in H. specialize (H Ha).
    unfold pair127 in H. cbn [fst snd] in H. rewrite Hk in H.
    change (keytype_beq KT_FRAGMENT_REFERENCE KT_FRAGMENT_REFERENCE) with true in H. cbn [negb orb] in H.
    apply memb_In in H. simpl in H. simpl. tauto.
  - intros H [p k] Hin. apply In_combine_tl_adjacent in Hin. unfold pair127. simpl fst. simpl snd.
    destruct (keytype_beq (ktype k) KT_FRAGMENT_REFERENCE) eqn:E; [|reflexivity].
    apply keytype_beq_eq in E. specialize (H p k Hin E). cbn [negb orb].
    apply memb_In. simpl in H. simpl. tauto.
Qed.

Lemma pairs128_S : forall ks, forallb pair128 (combine ks (tl ks)) = true <-> S128 ks.
Proof.
  intro ks. unfold S128. rewrite forallb_forall. split.
  - intros H p k Ha Hp. specialize (H (p, k)). rewrite In_combine_tl_adjacent in H. specialize (H Ha).
    unfold pair128 in H. cbn [fst snd] in H. rewrite Hp in H.
    change (keytype_beq KT_SUBMODEL_ELEMENT_LIST KT_SUBMODEL_ELEMENT_LIST) with true in H. exact H.
  - intros H [p k] Hin. apply In_combine_tl_adjacent in Hin. unfold pair128. simpl fst. simpl snd.
    destruct (keytype_beq (ktype p) KT_SUBMODEL_ELEMENT_LIST) eqn:E; [|reflexivity].
    apply keytype_beq_eq in E. simpl. apply H with p; assumption.
Qed.

(* the 127/128 loop: first offending adjacent pair decides, 127 before 128 within a pair *)
Definition loop78 (l : list (K * K)) : option err :=
  first_some (fun p_ => let '(pk, k) := p_ in
     seqs [when ((keytype_beq (ktype k) KT_FRAGMENT_REFERENCE) && (negb (existsb (keytype_beq (ktype pk)) [KT_BLOB; KT_FILE]))) (seqs [Some (EAASd 127)]);
           when ((keytype_beq (ktype pk) KT_SUBMODEL_ELEMENT_LIST) && (negb (knum k))) (seqs [Some (EAASd 128)])]) l.

Lemma loop78_spec : forall l,
  match loop78 l with
  | None => forallb pair127 l = true /\ forallb pair128 l = true
  | Some e => (e = EAASd 127 /\ forallb pair127 l = false) \/ (e = EAASd 128 /\ forallb pair128 l = false)
  end.
Proof.
  induction l as [|[pk k] r IH]; [simpl; auto|].
  unfold loop78 in *. cbn [first_some forallb].
  unfold pair127 at 1 3. unfold pair128 at 1 3. cbn [fst snd]. unfold memb.
  destruct (keytype_beq (ktype k) KT_FRAGMENT_REFERENCE);
  destruct (existsb (keytype_beq (ktype pk)) [KT_BLOB; KT_FILE]);
  destruct (keytype_beq (ktype pk) KT_SUBMODEL_ELEMENT_LIST);
  destruct (knum k); cbn [negb andb orb when seqs orelse]; auto;
  match goal with
  | |- context [first_some ?f ?l] => destruct (first_some f l); cbn [orelse] in *; tauto
  end.
Qed.

(* ---- ExternalReference ---------------------------------------------------------------------- *)
Lemma memb_app : forall t A B, memb t (A ++ B) = memb t A || memb t B.
Proof. intros. unfold memb. apply existsb_app. Qed.

Lemma ext_ref_check_cons : forall k0 r,
  ext_ref_check (k0 :: r) =
  if negb (memb (ktype k0) GenericGloballyIdentifiables) then Some (EAASd 122)
  else if negb (memb (ktype (last r k0)) (GenericGloballyIdentifiables ++ GenericFragmentKeys))
       then Some (EAASd 124) else None.
Proof.
  intros k0 r. unfold ext_ref_check. cbv beta iota delta [seqs].
  rewrite len_cons_lt1. rewrite with_last_cons. cbv beta iota delta [when orelse with_first].
  rewrite !pred_generic_globally, pred_generic_fragment, memb_app.
  destruct (memb (ktype k0) GenericGloballyIdentifiables);
    destruct (memb (ktype (last r k0)) GenericGloballyIdentifiables);
    destruct (memb (ktype (last r k0)) GenericFragmentKeys); reflexivity.
Qed.

Lemma S122_cons : forall k0 r, S122 (k0 :: r) <-> memb (ktype k0) GenericGloballyIdentifiables = true.
Proof.
  intros. unfold S122, is_first. rewrite memb_In. split.
  - intros (k & (r' & E) & H). inversion E; subst. exact H.
  - intro H. exists k0. split; [exists r; reflexivity | exact H].
Qed.
Lemma S123_cons : forall k0 r, S123 (k0 :: r) <-> memb (ktype k0) AasIdentifiables = true.
Proof.
  intros. unfold S123, is_first. rewrite memb_In. split.
  - intros (k & (r' & E) & H). inversion E; subst. exact H.
  - intro H. exists k0. split; [exists r; reflexivity | exact H].
Qed.
Lemma S124_cons : forall k0 r,
  S124 (k0 :: r) <-> memb (ktype (last r k0)) (GenericGloballyIdentifiables ++ GenericFragmentKeys) = true.
Proof.
  intros. unfold S124. rewrite memb_In. split.
  - intros (k & Hl & H). apply is_last_last in Hl. subst. exact H.
  - intro H. exists (last r k0). split; [apply is_last_last; reflexivity | exact H].
Qed.
Lemma S121_of_S122 : forall ks, S122 ks -> S121 ks.
Proof.
  intros ks (k & Hf & H). exists k. split; [exact Hf|]. unfold GloballyIdentifiables.
  apply in_or_app. left. exact H.
Qed.
Lemma S121_of_S123 : forall ks, S123 ks -> S121 ks.
Proof.
  intros ks (k & Hf & H). exists k. split; [exact Hf|]. unfold GloballyIdentifiables.
  apply in_or_app. right. exact H.
Qed.
Lemma S12x_nil : ~ S121 [] /\ ~ S122 [] /\ ~ S123 [].
Proof. repeat split; intros (k & (r & E) & _); discriminate. Qed.

Theorem ext_ref_accept_iff : forall ks, ext_ref_check ks = None <-> wf_ext_ref ks.
Proof.
  intros [|k0 r].
  - split; [discriminate|]. intros (H & _). exfalso. apply (proj1 S12x_nil). exact H.
  - rewrite ext_ref_check_cons. unfold wf_ext_ref. rewrite S122_cons, S124_cons.
    destruct (memb (ktype k0) GenericGloballyIdentifiables) eqn:E1; cbn [negb].
    + destruct (memb (ktype (last r k0)) (GenericGloballyIdentifiables ++ GenericFragmentKeys)) eqn:E2;
        cbn [negb].
      * split; [|reflexivity]. intros _. split; [|split; reflexivity].
        apply S121_of_S122. apply S122_cons. exact E1.
      * split; [discriminate|]. intros (_ & _ & H). discriminate.
    + split; [discriminate|]. intros (_ & H & _). discriminate.
Qed.

Theorem ext_ref_reject : forall ks e, ext_ref_check ks = Some e ->
  (ks = [] /\ e = EValue) \/
  (ks <> [] /\ ~ S122 ks /\ e = EAASd 122) \/
  (S122 ks /\ ~ S124 ks /\ e = EAASd 124).
Proof.
  intros [|k0 r] e H.
  - left. inversion H. auto.
  - right. rewrite ext_ref_check_cons in H. rewrite S122_cons, S124_cons.
    destruct (memb (ktype k0) GenericGloballyIdentifiables); cbn [negb] in H.
    + destruct (memb (ktype (last r k0)) (GenericGloballyIdentifiables ++ GenericFragmentKeys));
        cbn [negb] in H; [discriminate|].
      right. inversion H. repeat split; auto; discriminate.
    + left. inversion H. repeat split; auto; discriminate.
Qed.

(* ---- ModelReference ------------------------------------------------------------------------- *)
Lemma loop126 : forall (k0 : K) r (l : list K),
  first_some (fun k => seqs [when (is_generic_fragment_key (ktype k))
     (seqs [with_last (k0 :: r) EIndex (fun key_last => when (is_generic_fragment_key (ktype key_last)) (seqs [Some (EAASd 126)]));
            Some (EAASd 126)])]) l
  = if forallb (fun k => negb (memb (ktype k) GenericFragmentKeys)) l then None else Some (EAASd 126).
Proof.
  intros k0 r. induction l as [|x t IH]; [reflexivity|].
  cbn [first_some forallb]. rewrite IH. rewrite with_last_cons. rewrite !pred_generic_fragment.
  destruct (memb (ktype x) GenericFragmentKeys);
    destruct (memb (ktype (last r k0)) GenericFragmentKeys); reflexivity.
Qed.

Lemma exists_neg_forall : forall r : list K,
  existsb (fun k : K => negb (is_fragment_key_element (ktype k))) r
  = negb (forallb (fun k => memb (ktype k) FragmentKeys) r).
Proof.
  induction r as [|x t IH]; [reflexivity|]. cbn [existsb forallb]. rewrite IH, pred_fragment_key.
  destruct (memb (ktype x) FragmentKeys); reflexivity.
Qed.

Lemma model_ref_check_cons : forall k0 r,
  model_ref_check (k0 :: r) =
  if negb (memb (ktype k0) AasIdentifiables) then Some (EAASd 123)
  else if negb (b125 (k0 :: r)) then Some (EAASd 125)
  else if negb (b126 (k0 :: r)) then Some (EAASd 126)
  else loop78 (combine (k0 :: r) r).
Proof.
  intros k0 r. unfold model_ref_check.
  rewrite len_cons_lt1, loop126.
  change (tl (k0 :: r)) with r.
  rewrite (first_some_exists (key keytype) (fun k => negb (is_fragment_key_element (ktype k))) (EAASd 125) r).
  rewrite exists_neg_forall.
  match goal with
  | |- context [first_some ?f (combine (k0 :: r) r)] =>
      change (first_some f (combine (k0 :: r) r)) with (loop78 (combine (k0 :: r) r))
  end.
  unfold b125, b126. change (tl (k0 :: r)) with r.
  generalize (loop78 (combine (k0 :: r) r)) as L. intro L.
  cbv beta iota delta [seqs when orelse with_first].
  rewrite pred_aas_identifiable.
  destruct (memb (ktype k0) AasIdentifiables);
    destruct (forallb (fun k => memb (ktype k) FragmentKeys) r);
    destruct (forallb (fun k => negb (memb (ktype k) GenericFragmentKeys)) (removelast (k0 :: r)));
    destruct L; reflexivity.
Qed.

Lemma S127_split : forall k0 r,
  S127 (k0 :: r) <->
  ktype k0 <> KT_FRAGMENT_REFERENCE /\ forallb pair127 (combine (k0 :: r) (tl (k0 :: r))) = true.
Proof.
  intros. unfold S127. rewrite pairs127_S. split.
  - intros (H1 & H2). split; [|exact H2]. apply H1. exists r. reflexivity.
  - intros (H1 & H2). split; [|exact H2]. intros k (r' & E). inversion E; subst. exact H1.
Qed.

Lemma identifiable_not_fragment : forall t, memb t AasIdentifiables = true -> t <> KT_FRAGMENT_REFERENCE.
Proof. intros t H E. subst. discriminate. Qed.

Theorem model_ref_accept_iff : forall ks, model_ref_check ks = None <-> wf_model_ref ks.
Proof.
  intros [|k0 r].
  - split; [discriminate|]. intros (H & _). exfalso. apply (proj1 S12x_nil). exact H.
  - rewrite model_ref_check_cons. unfold wf_model_ref.
    rewrite S123_cons, <- b125_S, <- b126_S, S127_split, <- pairs128_S.
    change (tl (k0 :: r)) with r.
    pose proof (loop78_spec (combine (k0 :: r) r)) as L.
    destruct (memb (ktype k0) AasIdentifiables) eqn:E1; cbn [negb].
    2:{ split; [discriminate|]. intros (_ & H & _). discriminate. }
    destruct (b125 (k0 :: r)); cbn [negb].
    2:{ split; [discriminate|]. intros (_ & _ & H & _). discriminate. }
    destruct (b126 (k0 :: r)); cbn [negb].
    2:{ split; [discriminate|]. intros (_ & _ & _ & H & _). discriminate. }
    destruct (loop78 (combine (k0 :: r) r)) as [e|].
    + split; [discriminate|]. intros (_ & _ & _ & _ & (_ & H7) & H8).
      destruct L as [(_ & L)|(_ & L)]; congruence.
    + destruct L as (L7 & L8). split; [|reflexivity]. intros _.
      repeat split; auto.
      * apply S121_of_S123. apply S123_cons. exact E1.
      * apply identifiable_not_fragment. exact E1.
Qed.

Theorem model_ref_reject : forall ks e, model_ref_check ks = Some e ->
  (ks = [] /\ e = EValue) \/
  (ks <> [] /\ ~ S123 ks /\ e = EAASd 123) \/
  (S123 ks /\ ~ S125 ks /\ e = EAASd 125) \/
  (S123 ks /\ S125 ks /\ ~ S126 ks /\ e = EAASd 126) \/
  (S123 ks /\ S125 ks /\ S126 ks /\ ((~ S127 ks /\ e = EAASd 127) \/ (~ S128 ks /\ e = EAASd 128))).
Proof.
  intros [|k0 r] e H.
  - left. inversion H. auto.
  - right. rewrite model_ref_check_cons in H.
    rewrite S123_cons, <- b125_S, <- b126_S, S127_split, <- pairs128_S.
    change (tl (k0 :: r)) with r.
    pose proof (loop78_spec (combine (k0 :: r) r)) as L.
    destruct (memb (ktype k0) AasIdentifiables) eqn:E1; cbn [negb] in H.
    2:{ left. inversion H. repeat split; auto; discriminate. }
    right. destruct (b125 (k0 :: r)); cbn [negb] in H.
    2:{ left. inversion H. repeat split; auto; discriminate. }
    right. destruct (b126 (k0 :: r)); cbn [negb] in H.
    2:{ left. inversion H. repeat split; auto; discriminate. }
    right. rewrite H in L. repeat split; auto.
    destruct L as [(-> & L)|(-> & L)]; [left | right]; split; auto.
    + intros (_ & H7). congruence.
    + intro H8. congruence.
Qed.

(* every accepted chain also satisfies AASd-121 (the code does not check it separately) *)
Corollary accepted_refs_satisfy_121 : forall ks,
  (ext_ref_check ks = None -> S121 ks) /\ (model_ref_check ks = None -> S121 ks).
Proof.
  intro ks. split; intro H.
  - apply ext_ref_accept_iff in H. exact (proj1 H).
  - apply model_ref_accept_iff in H. exact (proj1 H).
Qed.

(* the constructors never raise IndexError: the length check comes first *)
Corollary ref_checks_no_index_error : forall ks,
  ext_ref_check ks <> Some EIndex /\ model_ref_check ks <> Some EIndex.
Proof.
  intro ks. split; intro H.
  - apply ext_ref_reject in H. destruct H as [(_ & H)|[(_ & _ & H)|(_ & _ & H)]]; discriminate.
  - apply model_ref_reject in H.
    destruct H as [(_ & H)|[(_ & _ & H)|[(_ & _ & H)|[(_ & _ & _ & H)|(_ & _ & _ & [(_ & H)|(_ & H)])]]]];
      discriminate.
Qed.
