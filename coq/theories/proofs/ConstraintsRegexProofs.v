(* C02 - the derivative matcher [matchb] of model/ConstraintsBase.v decides the regular
   language [M] (standard denotation); character-class stars are [Forall]. *)
From Coq Require Import List ZArith Bool Lia.
From Basyx Require Import model.ConstraintsBase.
Import ListNotations.
Local Open Scope Z_scope.

Inductive M : re -> list Z -> Prop :=
| MEps : M REps []
| MCls k c : in_cls c k = true -> M (RCls k) [c]
| MAltL a b s : M a s -> M (RAlt a b) s
| MAltR a b s : M b s -> M (RAlt a b) s
| MCat a b s t : M a s -> M b t -> M (RCat a b) (s ++ t)
| MStar0 a : M (RStar a) []
| MStarS a s t : M a s -> M (RStar a) t -> M (RStar a) (s ++ t).

Lemma nullable_M : forall r, nullable r = true <-> M r [].
Proof.
  induction r; simpl.
  - split; intro H; [discriminate | inversion H].
  - split; intro H; [constructor | reflexivity].
  - split; intro H; [discriminate | inversion H].
  - split; intro H.
    + apply orb_true_iff in H. destruct H as [H|H]; [apply MAltL; apply IHr1 | apply MAltR; apply IHr2]; exact H.
    + apply orb_true_iff. inversion H; subst; [left; apply IHr1 | right; apply IHr2]; assumption.
  - split; intro H.
    + apply andb_true_iff in H. destruct H as [H1 H2].
      change (@nil Z) with (@nil Z ++ @nil Z). constructor; [apply IHr1 | apply IHr2]; assumption.
    + inversion H; subst.
      match goal with E : _ ++ _ = [] |- _ => apply app_eq_nil in E; destruct E; subst end.
      apply andb_true_iff. split; [apply IHr1 | apply IHr2]; assumption.
  - split; intro H; [constructor | reflexivity].
Qed.

Lemma M_none : forall s, ~ M RNone s.
Proof. intros s H. inversion H. Qed.

Lemma salt_M : forall a b s, M (salt a b) s <-> M a s \/ M b s.
Proof.
  intros a b s. split.
  - destruct a, b; simpl; intro H; auto;
      try (inversion H; subst; auto; fail).
  - intros [H|H]; destruct a, b; simpl; auto;
      try (exfalso; eapply M_none; eassumption);
      try (apply MAltL; assumption); try (apply MAltR; assumption).
Qed.

Lemma cat_inv : forall a b s, M (RCat a b) s -> exists s1 s2, s = s1 ++ s2 /\ M a s1 /\ M b s2.
Proof. intros a b s H. inversion H; subst. eauto. Qed.

Lemma scat_M : forall a b s,
  M (scat a b) s <-> exists s1 s2, s = s1 ++ s2 /\ M a s1 /\ M b s2.
Proof.
  intros a b s. split.
  - intro H. destruct a; destruct b; simpl in H;
      first [ exfalso; exact (M_none _ H)
            | apply cat_inv; exact H
            | exists [], s; split; [reflexivity | split; [constructor | exact H]] ].
  - intros (s1 & s2 & -> & H1 & H2).
    destruct a; destruct b; simpl;
      first [ exfalso; exact (M_none _ H1)
            | exfalso; exact (M_none _ H2)
            | constructor; assumption
            | inversion H1; subst; simpl; exact H2 ].
Qed.

Lemma star_cons_inv : forall a c s,
  M (RStar a) (c :: s) -> exists s1 s2, s = s1 ++ s2 /\ M a (c :: s1) /\ M (RStar a) s2.
Proof.
  intros a c s H. remember (RStar a) as r eqn:Er. remember (c :: s) as w eqn:Ew.
  revert a c s Er Ew. induction H; intros a0 c0 s0 Er Ew; try discriminate.
  inversion Er; subst a0. destruct s as [|x s'].
  - simpl in Ew. eapply IHM2; eauto.
  - simpl in Ew. inversion Ew; subst. exists s', t. auto.
Qed.

Lemma sderiv_M : forall r c s, M (sderiv c r) s <-> M r (c :: s).
Proof.
  induction r; intros c s; simpl.
  - split; intro H; inversion H.
  - split; intro H; inversion H.
  - destruct (in_cls c k) eqn:E; split; intro H.
    + inversion H; subst. constructor. exact E.
    + inversion H; subst. constructor.
    + inversion H.
    + inversion H; subst. congruence.
  - rewrite salt_M, IHr1, IHr2. split.
    + intros [H|H]; [apply MAltL | apply MAltR]; exact H.
    + intro H; inversion H; subst; auto.
  - destruct (nullable r1) eqn:En.
    + rewrite salt_M, scat_M, IHr2. split.
      * intros [(s1 & s2 & -> & H1 & H2) | H].
        -- apply IHr1 in H1. change (c :: s1 ++ s2) with ((c :: s1) ++ s2). constructor; assumption.
        -- apply nullable_M in En. change (c :: s) with ([] ++ c :: s). constructor; assumption.
      * intro H. apply cat_inv in H. destruct H as (s1 & s2 & E & H1 & H2).
        destruct s1 as [|x s1'].
        -- simpl in E. subst s2. right. exact H2.
        -- simpl in E. inversion E; subst. left. exists s1', s2. split; [reflexivity|].
           split; [apply IHr1; exact H1 | exact H2].
    + rewrite scat_M. split.
      * intros (s1 & s2 & -> & H1 & H2).
        apply IHr1 in H1. change (c :: s1 ++ s2) with ((c :: s1) ++ s2). constructor; assumption.
      * intro H. apply cat_inv in H. destruct H as (s1 & s2 & E & H1 & H2).
        destruct s1 as [|x s1'].
        -- apply nullable_M in H1. congruence.
        -- simpl in E. inversion E; subst. exists s1', s2. split; [reflexivity|].
           split; [apply IHr1; exact H1 | exact H2].
  - rewrite scat_M. split.
    + intros (s1 & s2 & -> & H1 & H2). apply IHr in H1.
      change (c :: s1 ++ s2) with ((c :: s1) ++ s2). constructor; assumption.
    + intro H. apply star_cons_inv in H. destruct H as (s1 & s2 & -> & H1 & H2).
      exists s1, s2. split; [reflexivity|]. split; [apply IHr; exact H1 | exact H2].
Qed.

Theorem matchb_M : forall s r, matchb r s = true <-> M r s.
Proof.
  induction s as [|c s IH]; intro r; simpl.
  - apply nullable_M.
  - rewrite IH. apply sderiv_M.
Qed.

(* a star over a character class is "every code point is in the class" *)
Lemma star_cls_M : forall k s, M (RStar (RCls k)) s <-> Forall (fun c => in_cls c k = true) s.
Proof.
  intros k s. split.
  - intro H. remember (RStar (RCls k)) as r eqn:Er. induction H; try discriminate.
    + constructor.
    + inversion Er; subst a. inversion H; subst. simpl. constructor; [assumption|]. apply IHM2. reflexivity.
  - induction 1 as [|c l Hc Hl IH].
    + constructor.
    + change (c :: l) with ([c] ++ l). constructor; [constructor; exact Hc | exact IH].
Qed.

Lemma in_cls_cons : forall c lo hi k,
  in_cls c ((lo, hi) :: k) = true <-> (lo <= c <= hi) \/ in_cls c k = true.
Proof.
  intros. unfold in_cls. simpl. rewrite orb_true_iff, andb_true_iff, !Z.leb_le. tauto.
Qed.
Lemma in_cls_nil : forall c, in_cls c [] = true <-> False.
Proof. intros. unfold in_cls. simpl. split; [discriminate | tauto]. Qed.
