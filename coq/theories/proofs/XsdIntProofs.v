(* C06 - proofs about the integer family and boolean of model/Xsd.v. *)
From Coq Require Import List ZArith Bool Ascii String Lia.
From Basyx Require Import model.XsdBase model.XsdRe model.XsdLex model.Xsd gen.Gen_XsdTables proofs.XsdBaseProofs.
Import ListNotations.
Local Open Scope Z_scope.

(* the SDK's range check (translated) that belongs to each XSD integer type *)
Definition sdk_range (T : int_type) : Z -> bool :=
  match T with
  | TInteger => rng_Integer
  | TLong => in_range_Long | TInt => in_range_Int | TShort => in_range_Short | TByte => in_range_Byte
  | TNonPositiveInteger => in_range_NonPositiveInteger | TNegativeInteger => in_range_NegativeInteger
  | TNonNegativeInteger => in_range_NonNegativeInteger | TPositiveInteger => in_range_PositiveInteger
  | TUnsignedLong => in_range_UnsignedLong | TUnsignedInt => in_range_UnsignedInt
  | TUnsignedShort => in_range_UnsignedShort | TUnsignedByte => in_range_UnsignedByte
  end.

Ltac norm_pows :=
  repeat match goal with
         | |- context [Z.pow ?a ?b] => let v := eval vm_compute in (Z.pow a b) in change (Z.pow a b) with v
         end.
Ltac zbool :=
  repeat match goal with
         | |- context [Z.gtb ?a ?b] => rewrite (Z.gtb_ltb a b)
         | |- context [Z.geb ?a ?b] => rewrite (Z.geb_leb a b)
         end;
  repeat match goal with
         | |- context [Z.ltb ?a ?b] => destruct (Z.ltb_spec a b)
         | |- context [Z.leb ?a ?b] => destruct (Z.leb_spec a b)
         | |- context [Z.eqb ?a ?b] => destruct (Z.eqb_spec a b)
         end; cbn; try reflexivity; try lia.

(* the translated range checks agree with the XSD value spaces (bounds written as literals in XsdLex.int_space) *)
Lemma sdk_range_space T z : sdk_range T z = int_space T z.
Proof.
  destruct T; cbv [sdk_range int_space rng_Integer in_range_Long in_range_Int in_range_Short in_range_Byte
    in_range_NonPositiveInteger in_range_NegativeInteger in_range_NonNegativeInteger in_range_PositiveInteger
    in_range_UnsignedLong in_range_UnsignedInt in_range_UnsignedShort in_range_UnsignedByte];
    norm_pows; zbool.
Qed.
Lemma int_space_bounds T z : int_space T z = true <->
  match T with
  | TInteger => True
  | TLong => -9223372036854775808 <= z <= 9223372036854775807
  | TInt => -2147483648 <= z <= 2147483647
  | TShort => -32768 <= z <= 32767
  | TByte => -128 <= z <= 127
  | TNonPositiveInteger => z <= 0
  | TNegativeInteger => z <= -1
  | TNonNegativeInteger => 0 <= z
  | TPositiveInteger => 1 <= z
  | TUnsignedLong => 0 <= z <= 18446744073709551615
  | TUnsignedInt => 0 <= z <= 4294967295
  | TUnsignedShort => 0 <= z <= 65535
  | TUnsignedByte => 0 <= z <= 255
  end.
Proof.
  destruct T; cbn [int_space]; rewrite ?andb_true_iff, ?Z.leb_le; tauto.
Qed.

(* ---------------------------------------------------------------- character facts *)
Lemma digit_not c : is_digit c = true ->
  is_xsd_ws c = false /\ is_py_ws c = false /\ is_sign c = false /\ ceq c "-" = false /\ ceq c "+" = false /\ ceq c "_" = false.
Proof.
  intros H. destruct (is_digit_inv c H) as [E R]. rewrite E.
  assert (K : dval c = 0 \/ dval c = 1 \/ dval c = 2 \/ dval c = 3 \/ dval c = 4 \/ dval c = 5 \/ dval c = 6
              \/ dval c = 7 \/ dval c = 8 \/ dval c = 9) by lia.
  repeat destruct K as [K|K]; rewrite K; repeat split; reflexivity.
Qed.
Lemma xsd_ws_py_ws c : is_xsd_ws c = true -> is_py_ws c = true.
Proof.
  unfold is_xsd_ws, is_py_ws. intros H.
  repeat (apply orb_true_iff in H as [H|H]); apply Z.eqb_eq in H; rewrite H; reflexivity.
Qed.
Lemma forallb_impl {A} (p q : A -> bool) l : (forall x, p x = true -> q x = true) -> forallb p l = true -> forallb q l = true.
Proof.
  intros I. induction l as [|x l IH]; [trivial|]. cbn. intros H. apply andb_true_iff in H as [H1 H2].
  rewrite (I _ H1), (IH H2). reflexivity.
Qed.
Lemma forallb_rev {A} (p : A -> bool) l : forallb p (rev l) = forallb p l.
Proof.
  induction l as [|x l IH]; [reflexivity|]. cbn. rewrite forallb_app, IH. cbn. rewrite andb_true_r. apply andb_comm.
Qed.

(* ---------------------------------------------------------------- int(): digits *)
Lemma py_digits_go_digits s : forallb is_digit s = true ->
  forall acc, py_digits_go acc false s = Some (int_acc acc s).
Proof.
  induction s as [|c s IH]; intros H acc; [reflexivity|].
  cbn in H. apply andb_true_iff in H as [Hc H]. cbn. rewrite Hc. apply IH, H.
Qed.
Lemma py_digits_digits s : s <> [] -> forallb is_digit s = true -> py_digits s = Some (int_dec s).
Proof.
  destruct s as [|c s]; [congruence|]. intros _ H. unfold py_digits.
  pose proof H as H'. cbn in H'. apply andb_true_iff in H' as [Hc _]. rewrite Hc.
  apply py_digits_go_digits, H.
Qed.

(* the shape admitted by INTEGER_RE *)
Inductive sign_pfx : str -> Z -> Prop :=
| SgNone : sign_pfx [] 1
| SgPlus : sign_pfx ["+"%char] 1
| SgMinus : sign_pfx ["-"%char] (-1).

Lemma strip_core p w1 core w2 c0 cl mid :
  core = c0 :: mid -> (exists pre, core = pre ++ [cl]) -> p c0 = false -> p cl = false ->
  forallb p w1 = true -> forallb p w2 = true -> strip p (w1 ++ core ++ w2) = core.
Proof.
  intros E [pre El] H0 Hl H1 H2. unfold strip, rstrip.
  rewrite lstrip_app; [|exact H1|rewrite E; exact H0].
  rewrite rev_app_distr. rewrite lstrip_app.
  - apply rev_involutive.
  - rewrite forallb_rev. exact H2.
  - rewrite El, rev_app_distr. cbn. exact Hl.
Qed.

Lemma last_digit ds : ds <> [] -> forallb is_digit ds = true -> exists pre cl, ds = pre ++ [cl] /\ is_digit cl = true.
Proof.
  intros Hne Hd. destruct (exists_last Hne) as (pre & cl & E). exists pre, cl. split; [exact E|].
  rewrite E, forallb_app in Hd. apply andb_true_iff in Hd as [_ Hd]. cbn in Hd. rewrite andb_true_r in Hd. exact Hd.
Qed.

Lemma span_digits_ws ds w2 : forallb is_digit ds = true -> forallb is_xsd_ws w2 = true ->
  span is_digit (ds ++ w2) = (ds, w2).
Proof.
  intros Hd H2. apply span_app; [exact Hd|].
  destruct w2 as [|x w2]; [trivial|]. cbn in H2. apply andb_true_iff in H2 as [Hx _].
  destruct (is_digit x) eqn:Dx; [|reflexivity]. destruct (digit_not x Dx) as [K _]. congruence.
Qed.

Lemma int_core w1 sg k ds w2 :
  forallb is_xsd_ws w1 = true -> sign_pfx sg k -> ds <> [] -> forallb is_digit ds = true ->
  forallb is_xsd_ws w2 = true ->
  let s := w1 ++ (sg ++ ds) ++ w2 in
  integer_guard s = true /\ py_int s = Ok (k * int_dec ds) /\ ws_collapse s = sg ++ ds /\
  matches integer_re (sg ++ ds) = true /\ integer_value (sg ++ ds) = k * int_dec ds.
Proof.
  intros H1 Hsg Hne Hd H2 s.
  assert (Hm : matches (plus dig) ds = true) by (apply m_plus_cls; assumption).
  assert (Hnw : no_ws ds = true) by (apply digits_no_ws, Hd).
  assert (Hpd : py_digits ds = Some (int_dec ds)) by (apply py_digits_digits; assumption).
  destruct (last_digit ds Hne Hd) as (pre & cl & El & Hcl).
  destruct (digit_not cl Hcl) as (_ & Lpy & _).
  destruct ds as [|d0 ds0]; [congruence|]. clear Hne.
  assert (Hd0 : is_digit d0 = true) by (cbn in Hd; apply andb_true_iff in Hd; tauto).
  destruct (digit_not d0 Hd0) as (Nws & Npy & Nsg & Nmi & Npl & _).
  assert (P1 : forallb is_py_ws w1 = true) by (eapply forallb_impl; [apply xsd_ws_py_ws|exact H1]).
  assert (P2 : forallb is_py_ws w2 = true) by (eapply forallb_impl; [apply xsd_ws_py_ws|exact H2]).
  repeat split.
  - (* guard *)
    unfold integer_guard, s.
    destruct Hsg; cbn [app].
    + rewrite lstrip_app; [|exact H1|exact Nws].
      rewrite Nsg. change (d0 :: ds0 ++ w2) with ((d0 :: ds0) ++ w2).
      rewrite (span_digits_ws _ _ Hd H2). exact H2.
    + rewrite lstrip_app; [|exact H1|reflexivity].
      change (is_sign "+") with true. cbv iota.
      change (d0 :: ds0 ++ w2) with ((d0 :: ds0) ++ w2).
      rewrite (span_digits_ws _ _ Hd H2). exact H2.
    + rewrite lstrip_app; [|exact H1|reflexivity].
      change (is_sign "-") with true. cbv iota.
      change (d0 :: ds0 ++ w2) with ((d0 :: ds0) ++ w2).
      rewrite (span_digits_ws _ _ Hd H2). exact H2.
  - (* int() *)
    unfold py_int, s.
    destruct Hsg; cbn [app].
    + change (d0 :: ds0 ++ w2) with ((d0 :: ds0) ++ w2).
      rewrite (strip_core is_py_ws w1 (d0 :: ds0) w2 d0 cl ds0 eq_refl (ex_intro _ pre El) Npy Lpy P1 P2).
      rewrite Nmi, Npl, Hpd. f_equal; lia.
    + change ("+"%char :: d0 :: ds0 ++ w2) with (("+"%char :: d0 :: ds0) ++ w2).
      rewrite (strip_core is_py_ws w1 ("+"%char :: d0 :: ds0) w2 "+"%char cl (d0 :: ds0) eq_refl).
      * change (ceq "+" "-") with false. change (ceq "+" "+") with true. cbv iota.
        rewrite Hpd. f_equal; lia.
      * exists ("+"%char :: pre). rewrite El. reflexivity.
      * reflexivity.
      * exact Lpy.
      * exact P1.
      * exact P2.
    + change ("-"%char :: d0 :: ds0 ++ w2) with (("-"%char :: d0 :: ds0) ++ w2).
      rewrite (strip_core is_py_ws w1 ("-"%char :: d0 :: ds0) w2 "-"%char cl (d0 :: ds0) eq_refl).
      * change (ceq "-" "-") with true. cbv iota.
        rewrite Hpd. f_equal; lia.
      * exists ("-"%char :: pre). rewrite El. reflexivity.
      * reflexivity.
      * exact Lpy.
      * exact P1.
      * exact P2.
  - unfold s. apply ws_collapse_core; auto. rewrite no_ws_app, Hnw. destruct Hsg; reflexivity.
  - unfold integer_re. apply m_cat; [|exact Hm]. destruct Hsg; reflexivity.
  - destruct Hsg; cbn [app].
    + unfold integer_value. rewrite Nmi, Npl. lia.
    + unfold integer_value. change (ceq "+" "-") with false. change (ceq "+" "+") with true. cbv iota. lia.
    + unfold integer_value. change (ceq "-" "-") with true. cbv iota. lia.
Qed.

(* every string admitted by INTEGER_RE has that shape *)
Lemma guard_shape s : integer_guard s = true ->
  exists w1 sg k ds w2, s = w1 ++ (sg ++ ds) ++ w2 /\ forallb is_xsd_ws w1 = true /\ sign_pfx sg k /\
                        ds <> [] /\ forallb is_digit ds = true /\ forallb is_xsd_ws w2 = true.
Proof.
  unfold integer_guard. intros H.
  destruct (lstrip_spec is_xsd_ws s) as (w1 & E & H1 & _).
  set (s1 := lstrip is_xsd_ws s) in *.
  assert (K : exists sg k s2, s1 = sg ++ s2 /\ sign_pfx sg k /\
              (match s1 with c :: r => if is_sign c then r else s1 | [] => s1 end) = s2).
  { destruct s1 as [|c r]; [exists [], 1, []; repeat split; constructor|].
    destruct (is_sign c) eqn:Sc.
    - unfold is_sign in Sc. apply orb_true_iff in Sc as [Sc|Sc]; apply ceq_eq in Sc; subst c.
      + exists ["+"%char], 1, r. repeat split; constructor.
      + exists ["-"%char], (-1), r. repeat split; constructor.
    - exists [], 1, (c :: r). repeat split; constructor. }
  destruct K as (sg & k & s2 & E1 & Hsg & E2). rewrite E2 in H.
  destruct (span is_digit s2) as [ds r] eqn:Sp.
  destruct (span_spec _ _ _ _ Sp) as (E3 & Hd & _).
  apply andb_true_iff in H as [Hn H2].
  exists w1, sg, k, ds, r. repeat split; auto.
  - rewrite E, E1, E3, <- !app_assoc. reflexivity.
  - destruct ds; [discriminate|congruence].
Qed.

(* ---------------------------------------------------------------- theorems of the integer family *)
Lemma str_int_shape z : exists sg k ds, str_int z = sg ++ ds /\ sign_pfx sg k /\ ds <> [] /\
  forallb is_digit ds = true /\ k * int_dec ds = z.
Proof.
  unfold str_int. destruct (Z.ltb_spec z 0).
  - destruct (str_nat_spec (- z) ltac:(lia)) as (Hne & Hd & Hv).
    exists ["-"%char], (-1), (str_nat (- z)). repeat split; auto; [constructor|lia].
  - destruct (str_nat_spec z ltac:(lia)) as (Hne & Hd & Hv).
    exists [], 1, (str_nat z). repeat split; auto; [constructor|lia].
Qed.

Lemma int_roundtrip rng z : rng z = true -> parse_int rng (print_int z) = Ok z.
Proof.
  intros Hr. unfold print_int. destruct (str_int_shape z) as (sg & k & ds & E & Hsg & Hne & Hd & Hv).
  destruct (int_core [] sg k ds [] eq_refl Hsg Hne Hd eq_refl) as (G & P & _).
  cbn [app] in G, P. rewrite app_nil_r in G, P. rewrite <- E in G, P.
  unfold parse_int. rewrite G, P. cbn. unfold ctor_int. rewrite Hv, Hr. reflexivity.
Qed.
Lemma int_roundtrip_T T z : int_space T z = true -> parse_int (sdk_range T) (print_int z) = Ok z.
Proof. intros H. apply int_roundtrip. rewrite sdk_range_space. exact H. Qed.
Lemma int_print_valid T z : int_space T z = true -> valid_xsd_int T (print_int z) = true.
Proof.
  intros Hr. unfold print_int. destruct (str_int_shape z) as (sg & k & ds & E & Hsg & Hne & Hd & Hv).
  destruct (int_core [] sg k ds [] eq_refl Hsg Hne Hd eq_refl) as (_ & _ & C & M & V).
  cbn [app] in C. rewrite app_nil_r in C. rewrite <- E in *.
  unfold valid_xsd_int. rewrite C, M, V, Hv, Hr. reflexivity.
Qed.
Lemma int_accept_valid T s z : parse_int (sdk_range T) s = Ok z ->
  valid_xsd_int T s = true /\ integer_value (ws_collapse s) = z /\ int_space T z = true.
Proof.
  unfold parse_int. destruct (integer_guard s) eqn:G; [|discriminate].
  destruct (guard_shape s G) as (w1 & sg & k & ds & w2 & E & H1 & Hsg & Hne & Hd & H2).
  destruct (int_core w1 sg k ds w2 H1 Hsg Hne Hd H2) as (_ & P & C & M & V). cbn zeta in *.
  rewrite <- E in P, C. rewrite P. cbn. unfold ctor_int.
  destruct (sdk_range T (k * int_dec ds)) eqn:R; [|discriminate]. intros [= <-].
  rewrite sdk_range_space in R. unfold valid_xsd_int. rewrite C, M, V, R. auto.
Qed.
Lemma int_error_class rng s e : parse_int rng s = Err e -> e = ValueError.
Proof.
  unfold parse_int, py_int, ctor_int. destruct (integer_guard s); [|congruence].
  destruct (strip is_py_ws s) as [|c r]; cbn.
  - congruence.
  - destruct (ceq c "-"); [|destruct (ceq c "+")];
      match goal with |- context [py_digits ?u] => destruct (py_digits u) end; cbn; try congruence;
      match goal with |- context [rng ?u] => destruct (rng u) end; congruence.
Qed.
Lemma int_reject_literal T s : valid_xsd_int T s = false -> parse_int (sdk_range T) s = Err ValueError.
Proof.
  intros H. destruct (parse_int (sdk_range T) s) as [z|e] eqn:E.
  - apply int_accept_valid in E as [E _]. congruence.
  - f_equal. eapply int_error_class, E.
Qed.
Lemma int_reject_value T z : int_space T z = false -> ctor_int (sdk_range T) z = Err ValueError.
Proof. intros H. unfold ctor_int. rewrite sdk_range_space, H. reflexivity. Qed.

(* ---------------------------------------------------------------- boolean *)
Lemma str_eqb_eq a : forall b, str_eqb a b = true -> a = b.
Proof.
  induction a as [|x a IH]; destruct b as [|y b]; cbn; try discriminate; trivial.
  intros H. apply andb_true_iff in H as [H1 H2]. apply ceq_eq in H1. f_equal; auto.
Qed.
Lemma bool_roundtrip b : parse_bool (print_bool b) = Ok b.
Proof. destruct b; reflexivity. Qed.
Lemma bool_print_valid b : valid_xsd_boolean (print_bool b) = true.
Proof. destruct b; reflexivity. Qed.
Lemma bool_accept_valid s b : parse_bool s = Ok b -> valid_xsd_boolean s = true.
Proof.
  unfold parse_bool.
  destruct (str_eqb s (L "1")) eqn:E1; [apply str_eqb_eq in E1; subst; reflexivity|].
  destruct (str_eqb s (L "true")) eqn:E2; [apply str_eqb_eq in E2; subst; reflexivity|].
  destruct (str_eqb s (L "0")) eqn:E3; [apply str_eqb_eq in E3; subst; reflexivity|].
  destruct (str_eqb s (L "false")) eqn:E4; [apply str_eqb_eq in E4; subst; reflexivity|].
  discriminate.
Qed.
Lemma bool_reject_literal s : valid_xsd_boolean s = false -> parse_bool s = Err ValueError.
Proof.
  intros H. destruct (parse_bool s) as [b|e] eqn:E.
  - apply bool_accept_valid in E. congruence.
  - revert E. unfold parse_bool.
    destruct (str_eqb s (L "1") || str_eqb s (L "true")); [discriminate|].
    destruct (str_eqb s (L "0") || str_eqb s (L "false")); [discriminate|]. congruence.
Qed.

Lemma int_bounds_all z :
  (in_range_Long z = true <-> -9223372036854775808 <= z <= 9223372036854775807) /\
  (in_range_Int z = true <-> -2147483648 <= z <= 2147483647) /\
  (in_range_Short z = true <-> -32768 <= z <= 32767) /\
  (in_range_Byte z = true <-> -128 <= z <= 127) /\
  (in_range_NonPositiveInteger z = true <-> z <= 0) /\
  (in_range_NegativeInteger z = true <-> z <= -1) /\
  (in_range_NonNegativeInteger z = true <-> 0 <= z) /\
  (in_range_PositiveInteger z = true <-> 1 <= z) /\
  (in_range_UnsignedLong z = true <-> 0 <= z <= 18446744073709551615) /\
  (in_range_UnsignedInt z = true <-> 0 <= z <= 4294967295) /\
  (in_range_UnsignedShort z = true <-> 0 <= z <= 65535) /\
  (in_range_UnsignedByte z = true <-> 0 <= z <= 255).
Proof.
  assert (B : forall T, sdk_range T z = true <->
     match T with
     | TInteger => True
     | TLong => -9223372036854775808 <= z <= 9223372036854775807
     | TInt => -2147483648 <= z <= 2147483647
     | TShort => -32768 <= z <= 32767
     | TByte => -128 <= z <= 127
     | TNonPositiveInteger => z <= 0
     | TNegativeInteger => z <= -1
     | TNonNegativeInteger => 0 <= z
     | TPositiveInteger => 1 <= z
     | TUnsignedLong => 0 <= z <= 18446744073709551615
     | TUnsignedInt => 0 <= z <= 4294967295
     | TUnsignedShort => 0 <= z <= 65535
     | TUnsignedByte => 0 <= z <= 255
     end) by (intros T; rewrite sdk_range_space; apply int_space_bounds).
  repeat match goal with |- _ /\ _ => split end.
  - exact (B TLong).
  - exact (B TInt).
  - exact (B TShort).
  - exact (B TByte).
  - exact (B TNonPositiveInteger).
  - exact (B TNegativeInteger).
  - exact (B TNonNegativeInteger).
  - exact (B TPositiveInteger).
  - exact (B TUnsignedLong).
  - exact (B TUnsignedInt).
  - exact (B TUnsignedShort).
  - exact (B TUnsignedByte).
Qed.
