(* The identifying-attribute setters of model/Namespace.v (re-keying by discard + add). *)
From Coq Require Import List ZArith Bool String Ascii Arith Lia.
From Basyx Require Import model.Namespace proofs.NamespaceProofs proofs.NamespacePrim proofs.NamespaceOps
  proofs.NamespaceOps2.
Import ListNotations.
Local Open Scope nat_scope.

Section WithCfg.
Variable c : cfg.

(* SubmodelElementList hooks exist only on idShort collections *)
Definition hooks_wf (s : state) : Prop :=
  c_attr c <> AId -> forall j st, nth_error (sets s) j = Some st -> s_hooks st = None.

Lemma BInv_elems : forall s s', BInv c s -> sets s' = sets s -> gen s <= gen s' ->
  (forall x, e_key (elems s' x) = e_key (elems s x) /\ e_parent (elems s' x) = e_parent (elems s x)) ->
  BInv c s'.
Proof.
  intros s s' B S G E. constructor.
  - intros i st N. rewrite S in N. apply (b_nodup c s B i st N).
  - intros i st k e N H. rewrite S in N. destruct (b_entry c s B i st k e N H) as [r [K [X P]]].
    exists r. destruct (E e) as [E1 E2]. rewrite E1, E2. auto.
  - intros i j sti stj k Ni Nj. rewrite S in Ni, Nj. apply (b_uniq c s B i j sti stj k Ni Nj).
  - intros e o P. destruct (E e) as [_ E2]. rewrite E2 in P. rewrite S. apply (b_parent c s B e o P).
  - intros e n K. destruct (E e) as [E1 _]. rewrite E1 in K. apply (b_gen c s B) in K. lia.
Qed.

Lemma Inv_set_sem : forall s e m, Inv c s -> Inv c (set_sem s e m).
Proof.
  intros s e m [B O]. split; [|exact O].
  apply (BInv_elems s); auto. intro x. unfold set_sem, upd_elem. simpl.
  destruct (Nat.eqb x e); auto.
Qed.
Lemma Inv_set_key_same : forall s e k, Inv c s -> e_key (elems s e) = k -> Inv c (set_key s e k).
Proof.
  intros s e k [B O] K. split; [|exact O].
  apply (BInv_elems s); auto. intro x. unfold set_key, upd_elem. simpl.
  destruct (Nat.eqb x e) eqn:D; auto. apply Nat.eqb_eq in D. subst x. simpl. auto.
Qed.
Lemma Inv_set_key_free : forall s e k, Inv c s -> e_parent (elems s e) = None ->
  (forall n, k = Some (KGen n) -> n < gen s) -> Inv c (set_key s e k).
Proof.
  intros s e k [B O] PF KG. split; [|exact O].
  assert (NM : forall j st, nth_error (sets s) j = Some st -> ~ In e (values st)).
  { intros j st N H. apply (free_not_mem c s e B PF j). exists st. auto. }
  assert (E1 : forall x, x <> e -> elems (set_key s e k) x = elems s x).
  { intros x D. unfold set_key. apply elems_upd_other. exact D. }
  assert (E2 : elems (set_key s e k) e = with_key k (elems s e)).
  { unfold set_key. apply elems_upd_same. }
  constructor.
  - apply (b_nodup c s B).
  - intros i st k0 x N H. destruct (b_entry c s B i st k0 x N H) as [r R]. exists r.
    assert (x <> e). { intro; subst. apply (NM i st N). apply in_values. eauto. }
    rewrite (E1 x H0). exact R.
  - apply (b_uniq c s B).
  - intros x o P. destruct (Nat.eq_dec x e) as [->|D].
    + rewrite E2 in P. simpl in P. congruence.
    + rewrite (E1 x D) in P. apply (b_parent c s B x o P).
  - intros x n K. destruct (Nat.eq_dec x e) as [->|D].
    + rewrite E2 in K. simpl in K. apply KG. exact K.
    + rewrite (E1 x D) in K. apply (b_gen c s B x n K).
Qed.

Lemma owner_sets_from_in : forall ss o i j,
  In j (owner_sets_from ss o i) <-> (i <= j /\ exists st, nth_error ss (j - i) = Some st /\ s_owner st = o).
Proof.
  induction ss as [|st r IH]; intros o i j; simpl.
  - split; [tauto|]. intros [_ [st [N _]]]. destruct (j - i); discriminate.
  - destruct (Nat.eqb (s_owner st) o) eqn:E.
    + simpl. rewrite IH. apply Nat.eqb_eq in E. split.
      * intros [X|[X [st' [N O']]]].
        -- subst j. split; auto. exists st. rewrite Nat.sub_diag. auto.
        -- split; [lia|]. exists st'. replace (j - i) with (S (j - S i)) by lia. auto.
      * intros [X [st' [N O']]]. destruct (Nat.eq_dec i j) as [->|D]; auto. right. split; [lia|].
        exists st'. replace (j - i) with (S (j - S i)) in N by lia. auto.
    + rewrite IH. apply Nat.eqb_neq in E. split.
      * intros [X [st' [N O']]]. split; [lia|]. exists st'. replace (j - i) with (S (j - S i)) by lia. auto.
      * intros [X [st' [N O']]]. destruct (Nat.eq_dec i j) as [->|D].
        -- rewrite Nat.sub_diag in N. simpl in N. inversion N; subst. contradiction.
        -- split; [lia|]. exists st'. replace (j - i) with (S (j - S i)) in N by lia. auto.
Qed.
Lemma owner_sets_in : forall s o j,
  In j (owner_sets s o) <-> exists st, nth_error (sets s) j = Some st /\ s_owner st = o.
Proof.
  intros. unfold owner_sets. rewrite owner_sets_from_in. rewrite Nat.sub_0_r. split; [tauto|].
  intro H. split; [lia|exact H].
Qed.

Lemma take_out_free : forall idxs s e acc, BInv c s -> e_parent (elems s e) = None ->
  take_out c s e idxs acc = (s, rev acc, Ok).
Proof.
  induction idxs as [|i r IH]; intros s e acc B PF; simpl; auto.
  destruct (contains c s i e) eqn:CT.
  - apply (contains_mem c s i e B) in CT. exfalso. apply (free_not_mem c s e B PF i CT).
  - apply IH; auto.
Qed.

Lemma take_out_spec : forall idxs s e acc s1 lst out, Inv c s ->
  take_out c s e idxs acc = (s1, lst, out) ->
  (s1 = s /\ lst = rev acc /\ out = Ok /\ forall j, In j idxs -> ~ mem s j e) \/
  (exists j0 o0, In j0 idxs /\ mem s j0 e /\ set_discard c s j0 e = (s1, o0) /\
                 lst = rev acc ++ [j0] /\ out = Ok).
Proof.
  induction idxs as [|i r IH]; intros s e acc s1 lst out I H; simpl in H.
  - inversion H; subst. left. repeat split; auto.
  - destruct (contains c s i e) eqn:CT.
    + destruct I as [B O]. apply (contains_mem c s i e B) in CT.
      destruct (set_discard c s i e) as [s' o'] eqn:D.
      destruct (set_discard_spec c s i e s' o' (conj B O) D) as [D1 [D2 [D3 [D4 [D5 [D6 [D7 [D8 D9]]]]]]]].
      destruct (D8 CT) as [PF _].
      destruct o' as [|v|x]; try discriminate.
      * destruct D2 as [B' O']. rewrite (take_out_free r s' e (i :: acc) B' PF) in H. inversion H; subst.
        right. exists i, Ok. simpl. auto.
      * destruct D2 as [B' O']. rewrite (take_out_free r s' e (i :: acc) B' PF) in H. inversion H; subst.
        right. exists i, (OkV v). simpl. auto.
    + destruct (IH s e acc s1 lst out I H) as [[E1 [E2 [E3 E4]]]|[j0 [o0 [X1 [X2 [X3 [X4 X5]]]]]]].
      * left. repeat split; auto. intros j [X|X]; [|apply E4; exact X]. subst j.
        intro Y. destruct I as [B O]. apply (contains_mem c s i e B) in Y. congruence.
      * right. exists j0, o0. simpl. auto.
Qed.

(* NamespaceSet.add succeeds on a hook-free set for a free element with a fresh key *)
Lemma set_add_succeeds : forall s i st e k, nth_error (sets s) i = Some st -> s_hooks st = None ->
  e_parent (elems s e) = None -> e_key (elems s e) = Some k ->
  (forall j stj, nth_error (sets s) j = Some stj -> s_owner stj = s_owner st ->
                 ~ In (norm c k) (map fst (s_backend stj))) ->
  exists s', set_add c s i e = (s', Ok).
Proof.
  intros s i st e k N HK PF K FR. unfold set_add, ns_add. rewrite N. cbv zeta. rewrite PF.
  unfold id_set_hook. rewrite HK. unfold bind at 2. rewrite K.
  rewrite (validate_complete c (sets s) (s_owner st) k FR).
  unfold add_hook. rewrite HK. unfold bind at 2. unfold add_entry. cbv zeta.
  assert (K4 : e_key (elems (set_parent s e (Some (s_owner st))) e) = Some k).
  { unfold set_parent. rewrite elems_upd_same. simpl. exact K. }
  rewrite K4. unfold bind. destruct (order_of _ i); eauto.
Qed.

(* the set that holds e, when e has a parent *)
Lemma holder : forall s e o, BInv c s -> e_parent (elems s e) = Some o ->
  exists j st, In j (owner_sets s o) /\ nth_error (sets s) j = Some st /\ s_owner st = o /\ mem s j e.
Proof.
  intros s e o B P. destruct (b_parent c s B e o P) as [j [st [N [OW H]]]].
  exists j, st. split; [apply owner_sets_in; eauto|]. split; auto. split; auto. exists st. auto.
Qed.

(* rekey with mid = "set the key to nk" *)
Lemma good_rekey_key : forall s e o k, Inv c s -> e_parent (elems s e) = Some o ->
  good c s (rekey c s e o (fun s' => set_key s' e (Some (KName k)))) false.
Proof.
  intros s e o k I P. unfold rekey.
  destruct (take_out c s e (owner_sets s o) []) as [[s1 lst] o1] eqn:T.
  destruct (holder s e o (proj1 I) P) as [j [st [HJ [N [OW ME]]]]].
  destruct (take_out_spec _ s e [] s1 lst o1 I T) as [[_ [_ [_ X]]]|[j0 [o0 [X1 [X2 [X3 [X4 X5]]]]]]].
  { exfalso. apply (X j HJ ME). }
  subst o1 lst. simpl.
  destruct (set_discard_spec c s j0 e s1 o0 I X3) as [D1 [D2 [D3 [D4 [D5 [D6 [D7 [D8 D9]]]]]]]].
  destruct (D8 X2) as [PF _].
  assert (I2 : Inv c (set_key s1 e (Some (KName k)))).
  { apply Inv_set_key_free; auto. intros n E. discriminate. }
  destruct (set_add c (set_key s1 e (Some (KName k))) j0 e) as [s2 o2] eqn:A.
  assert (R := set_add_spec c _ j0 e s2 o2 I2 A). unfold bind at 2. unfold bind.
  destruct o2 as [|v|x].
  - destruct R as [R1 [R2 [R3 [R4 [R5 [R6 [st2 [N2 [K1 K2]]]]]]]]].
    split; [|split; [discriminate|intro; discriminate]]. simpl. apply Inv_set_key_same; auto.
    destruct (s_hooks st2) eqn:HK.
    + exfalso. assert (HN : e_key (elems (set_key s1 e (Some (KName k))) e) = None)
        by (apply K2; try rewrite HK; discriminate).
      unfold set_key in HN. rewrite elems_upd_same in HN. discriminate.
    + rewrite (K1 eq_refl). unfold set_key. rewrite elems_upd_same. reflexivity.
  - destruct R as [R1 [R2 [R3 [R4 [R5 [R6 [st2 [N2 [K1 K2]]]]]]]]].
    split; [|split; [discriminate|intro; discriminate]]. simpl. apply Inv_set_key_same; auto.
    destruct (s_hooks st2) eqn:HK.
    + exfalso. assert (HN : e_key (elems (set_key s1 e (Some (KName k))) e) = None)
        by (apply K2; try rewrite HK; discriminate).
      unfold set_key in HN. rewrite elems_upd_same in HN. discriminate.
    + rewrite (K1 eq_refl). unfold set_key. rewrite elems_upd_same. reflexivity.
  - destruct R as [Q X]. split; [|split; [intro E; inversion E; contradiction|intro; discriminate]].
    simpl. eapply Inv_pub_eq; eauto.
Qed.

Lemma good_readd : forall s i p e, Inv c s -> good c s (readd c s i p e) false.
Proof.
  intros s i p e I. unfold readd. destruct p; apply good_weaken; [apply good_insert|apply good_add]; exact I.
Qed.
Lemma good_put_back_at : forall l s e, Inv c s -> good c s (put_back_at c s e l) false.
Proof.
  induction l as [|[i p] r IH]; intros s e I; simpl.
  - split; auto. split; [discriminate|intro; discriminate].
  - apply good_bind; [apply good_readd; exact I|]. intros s1 I1. apply IH. exact I1.
Qed.
Lemma good_restore_at : forall l s e, Inv c s -> good c s (restore_at c s e l) false.
Proof.
  induction l as [|[i p] r IH]; intros s e I; simpl.
  - split; auto. split; [discriminate|intro; discriminate].
  - destruct (contains c s i e); [apply IH; exact I|].
    apply good_bind; [apply good_readd; exact I|]. intros s1 I1. apply IH. exact I1.
Qed.

Lemma good_set_semantic_id : forall s e m, Inv c s -> good c s (set_semantic_id c s e m) false.
Proof.
  intros s e m I. unfold set_semantic_id. destruct (e_parent (elems s e)) as [o|] eqn:P.
  2:{ split; [apply Inv_set_sem; exact I|]. split; [discriminate|intro; discriminate]. }
  destruct (take_out c s e (owner_sets s o) []) as [[s1 lst] o1] eqn:T.
  assert (I1 : Inv c s1 /\ o1 = Ok).
  { destruct (take_out_spec _ s e [] s1 lst o1 I T) as [[E1 [_ [E3 _]]]|[j0 [o0 [_ [_ [X3 [_ X5]]]]]]].
    - subst. auto.
    - destruct (set_discard_spec c s j0 e s1 o0 I X3) as [_ [D2 _]]. auto. }
  destruct I1 as [I1 E1]. subst o1.
  set (lp := map (fun i => (i, pos_in s i e)) lst).
  destruct (good_put_back_at lp (set_sem s1 e m) e (Inv_set_sem s1 e m I1)) as [I2 [X2 _]].
  destruct (put_back_at c (set_sem s1 e m) e lp) as [s2 o2]. simpl in I2, X2.
  destruct o2 as [|v|x].
  - split; [apply Inv_set_sem; exact I2|]. split; [discriminate|intro; discriminate].
  - split; [apply Inv_set_sem; exact I2|]. split; [discriminate|intro; discriminate].
  - destruct (good_restore_at lp (set_sem s2 e (e_sem (elems s e))) e (Inv_set_sem s2 e _ I2)) as [I3 [X3 _]].
    destruct (restore_at c (set_sem s2 e (e_sem (elems s e))) e lp) as [s3 o3]. simpl in I3, X3.
    destruct o3; (split; [exact I3|]; split; [assumption|intro; discriminate]).
Qed.

Lemma owner_has_key_false : forall s o k, owner_has_key c s o k = false ->
  forall j st, nth_error (sets s) j = Some st -> s_owner st = o -> ~ In (norm c k) (map fst (s_backend st)).
Proof.
  intros s o k H j st N OW X. unfold owner_has_key in H.
  assert (Y : existsb (fun st => Nat.eqb (s_owner st) o && dmem (norm c k) (s_backend st)) (sets s) = true).
  { apply existsb_exists. exists st. split; [eapply nth_error_In; eauto|].
    rewrite OW, Nat.eqb_refl. simpl. apply dmem_true. exact X. }
  congruence.
Qed.
Lemma owner_is_list_false : forall s o, owner_is_list s o = false ->
  forall j st, nth_error (sets s) j = Some st -> s_owner st = o -> s_hooks st = None.
Proof.
  intros s o H j st N OW. unfold owner_is_list in H.
  destruct (s_hooks st) eqn:HK; auto. exfalso.
  assert (Y : existsb (fun st => Nat.eqb (s_owner st) o && is_some (s_hooks st)) (sets s) = true).
  { apply existsb_exists. exists st. split; [eapply nth_error_In; eauto|].
    rewrite OW, Nat.eqb_refl, HK. reflexivity. }
  congruence.
Qed.

Lemma rekey_succeeds : forall s e o k, Inv c s -> e_parent (elems s e) = Some o ->
  (forall j st, nth_error (sets s) j = Some st -> s_owner st = o -> s_hooks st = None) ->
  owner_has_key c s o k = false ->
  exists s', rekey c s e o (fun s' => set_key s' e (Some k)) = (s', Ok).
Proof.
  intros s e o k I P NH HK. unfold rekey.
  destruct (take_out c s e (owner_sets s o) []) as [[s1 lst] o1] eqn:T.
  destruct (holder s e o (proj1 I) P) as [j [st [HJ [N [OW ME]]]]].
  destruct (take_out_spec _ s e [] s1 lst o1 I T) as [[_ [_ [_ X]]]|[j0 [o0 [X1 [X2 [X3 [X4 X5]]]]]]].
  { exfalso. apply (X j HJ ME). }
  subst o1 lst. simpl.
  destruct (set_discard_spec c s j0 e s1 o0 I X3) as [D1 [[B1 O1] [D3 [D4 [D5 [D6 [D7 [D8 D9]]]]]]]].
  destruct (D8 X2) as [PF _].
  destruct X2 as [st0 [N0 H0]].
  destruct I as [B O].
  destruct (mem_entry c s j0 st0 e B N0 H0) as [r0 [_ [_ P0]]].
  assert (OW0 : s_owner st0 = o) by congruence.
  assert (SO := D3 j0). rewrite N0 in SO. simpl in SO.
  destruct (nth_error (sets s1) j0) as [st1|] eqn:N1; [|discriminate]. simpl in SO.
  assert (OW1 : s_owner st1 = o) by congruence.
  assert (HK1 : s_hooks st1 = None). { assert (s_hooks st1 = s_hooks st0) by congruence. rewrite H. apply (NH j0 st0 N0 OW0). }
  set (s1' := set_key s1 e (Some k)).
  destruct (set_add_succeeds s1' j0 st1 e k) as [s2 A]; auto.
  - unfold s1', set_key. rewrite elems_upd_same. simpl. exact PF.
  - unfold s1', set_key. rewrite elems_upd_same. reflexivity.
  - intros j1 stj N1j OWj X. simpl in N1j.
    apply in_map_iff in X. destruct X as [[kk x] [E X]]. simpl in E. subst kk.
    destruct (b_entry c s1 B1 j1 stj _ x N1j X) as [r [Kr [Er Pr]]].
    assert (MX : mem s1 j1 x). { exists stj. split; auto. apply in_values. eauto. }
    assert (XE : x <> e). { intro; subst x. apply (free_not_mem c s1 e B1 PF j1 MX). }
    apply D4 in MX. destruct MX as [[stj0 [Nj0 Hj0]] _].
    destruct (mem_entry c s j1 stj0 x B Nj0 Hj0) as [r' [Kr' [Er' Pr']]].
    rewrite (D5 x XE) in Kr, Pr. assert (r' = r) by congruence. subst r'.
    assert (OWj0 : s_owner stj0 = o) by congruence.
    apply (owner_has_key_false s o k HK j1 stj0 Nj0 OWj0). rewrite Er. apply (in_map fst) in Er'. exact Er'.
  - fold s1'. rewrite A. unfold bind. eauto.
Qed.

Lemma key_check_not_internal : forall nk x, key_check c nk = Some x -> x <> EInternal.
Proof.
  intros nk x H. unfold key_check in H. destruct nk as [[k|n]|]; try discriminate.
  assert (CN : forall y, check_name k = Some y -> y <> EInternal).
  { intros y Y. unfold check_name in Y. destruct (_ || _); [inversion Y; discriminate|].
    destruct (all_chars ok_char k); inversion Y; discriminate. }
  destruct (c_attr c); try (apply CN; exact H).
  unfold validate_id_short in H. destruct (check_name k) eqn:E; [inversion H; subst; apply CN; reflexivity|].
  destruct (negb (all_chars is_idchar k)); [inversion H; discriminate|].
  destruct k; [discriminate|]. destruct (is_alpha a); inversion H; discriminate.
Qed.

Lemma good_rename : forall s e k, Inv c s -> good c s (rename c s e (option_map KName k)) false.
Proof.
  intros s e k I. unfold rename. destruct (key_check c (option_map KName k)) as [kx|] eqn:KC.
  { destruct (match c_attr c with AId => okey_eqb (option_map KName k) (e_key (elems s e)) | _ => false end).
    - split; auto. split; [discriminate|intro; discriminate].
    - apply good_same; auto. eapply key_check_not_internal; eauto. }
  destruct (c_attr c).
  - destruct (okey_eqb (option_map KName k) (e_key (elems s e))).
    { split; auto. split; [discriminate|intro; discriminate]. }
    destruct (e_parent (elems s e)) as [o|] eqn:P.
    + destruct k as [k|]; simpl; [|apply good_same; auto; discriminate].
      destruct (owner_is_list s o); [apply good_same; auto; discriminate|].
      destruct (owner_has_key c s o (KName k)); [apply good_same; auto; discriminate|].
      apply good_rekey_key; auto.
    + split; [|split; [discriminate|intro; discriminate]]. simpl.
      apply Inv_set_key_free; auto. intros n E. destruct k; discriminate.
  - destruct k as [k|]; simpl; [|apply good_same; auto; discriminate].
    destruct (e_parent (elems s e)) as [o|] eqn:P.
    + destruct (owner_has_key c s o (KName k)); [apply good_same; auto; discriminate|].
      apply good_rekey_key; auto.
    + split; [|split; [discriminate|intro; discriminate]]. simpl.
      apply Inv_set_key_free; auto. intros n E. discriminate.
  - destruct k as [k|]; simpl; [|apply good_same; auto; discriminate].
    destruct (e_parent (elems s e)) as [o|] eqn:P.
    + destruct (owner_has_key c s o (KName k)); [apply good_same; auto; discriminate|].
      apply good_rekey_key; auto.
    + split; [|split; [discriminate|intro; discriminate]]. simpl.
      apply Inv_set_key_free; auto. intros n E. discriminate.
Qed.

Lemma rename_atomic : forall s e k s' x, Inv c s -> hooks_wf s ->
  rename c s e (option_map KName k) = (s', Err x) -> pub_eq s s'.
Proof.
  intros s e k s' x I HW H. unfold rename in H.
  assert (SAME : forall y, (s, Err y) = (s', Err x) -> pub_eq s s').
  { intros y E. inversion E; subst. apply pub_eq_refl. }
  destruct (key_check c (option_map KName k)) as [kx|].
  { destruct (match c_attr c with AId => okey_eqb (option_map KName k) (e_key (elems s e)) | _ => false end);
      [discriminate|eapply SAME; eauto]. }
  destruct (c_attr c) eqn:AT.
  - destruct (okey_eqb (option_map KName k) (e_key (elems s e))); [discriminate|].
    destruct (e_parent (elems s e)) as [o|] eqn:P; [|discriminate].
    destruct k as [k|]; simpl in H; [|eapply SAME; eauto].
    destruct (owner_is_list s o) eqn:OL; [eapply SAME; eauto|].
    destruct (owner_has_key c s o (KName k)) eqn:HK; [eapply SAME; eauto|].
    destruct (rekey_succeeds s e o (KName k) I P (owner_is_list_false s o OL) HK) as [s2 R].
    rewrite R in H. discriminate.
  - destruct k as [k|]; simpl in H; [|eapply SAME; eauto].
    destruct (e_parent (elems s e)) as [o|] eqn:P; [|discriminate].
    destruct (owner_has_key c s o (KName k)) eqn:HK; [eapply SAME; eauto|].
    assert (NH : forall j st, nth_error (sets s) j = Some st -> s_owner st = o -> s_hooks st = None).
    { intros j st N _. apply (HW ltac:(rewrite AT; discriminate) j st N). }
    destruct (rekey_succeeds s e o (KName k) I P NH HK) as [s2 R]. rewrite R in H. discriminate.
  - destruct k as [k|]; simpl in H; [|eapply SAME; eauto].
    destruct (e_parent (elems s e)) as [o|] eqn:P; [|discriminate].
    destruct (owner_has_key c s o (KName k)) eqn:HK; [eapply SAME; eauto|].
    assert (NH : forall j st, nth_error (sets s) j = Some st -> s_owner st = o -> s_hooks st = None).
    { intros j st N _. apply (HW ltac:(rewrite AT; discriminate) j st N). }
    destruct (rekey_succeeds s e o (KName k) I P NH HK) as [s2 R]. rewrite R in H. discriminate.
Qed.

End WithCfg.
