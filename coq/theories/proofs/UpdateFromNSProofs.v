(* Lemmas about model/UpdateFromNS.v: update_from on objects whose NamespaceSets share one namespace. *)
From Coq Require Import List ZArith Bool Arith Lia.
From Basyx Require Import model.UpdateFrom model.UpdateFromNS proofs.UpdateFromProofs.
Import ListNotations.
Local Open Scope nat_scope.

Definition mkeys (l : list mnode) : list nat := map m_key l.

(* ---- induction over the tree ------------------------------------------------------ *)
Section Ind.
  Variable P : mnode -> Prop.
  Hypothesis H : forall o c k p s q sets,
      (forall S, In S sets -> forall x, In x S -> P x) -> P (MNode o c k p s q sets).
  Lemma mnode_ind' : forall n, P n.
  Proof.
    fix IH 1. intros [o c k p s q sets]. apply H.
    induction sets as [|S r IHr]; intros S' HS; [destruct HS|].
    destruct HS as [E|HS]; [|apply IHr; exact HS].
    rewrite <- E. clear E.
    induction S as [|x r' IHx]; intros y Hy; [destruct Hy|].
    destruct Hy as [E|Hy]; [rewrite <- E; apply IH|apply IHx; exact Hy].
  Qed.
End Ind.

(* ---- lookups ------------------------------------------------------------------------ *)
Lemma find_mkid_key : forall k l x, find_mkid k l = Some x -> m_key x = k /\ In x l.
Proof.
  induction l as [|y r IH]; simpl; intros x H; [discriminate|].
  destruct (Nat.eqb (m_key y) k) eqn:E.
  - inversion H; subst. apply Nat.eqb_eq in E. auto.
  - destruct (IH x H). auto.
Qed.
Lemma find_mkid_none : forall k l, find_mkid k l = None <-> ~ In k (mkeys l).
Proof.
  induction l as [|y r IH]; simpl; [tauto|].
  destruct (Nat.eqb (m_key y) k) eqn:E.
  - apply Nat.eqb_eq in E. split; [discriminate|]. intro H. exfalso. apply H. auto.
  - apply Nat.eqb_neq in E. rewrite IH. tauto.
Qed.
Lemma find_mkid_in : forall l x, NoDup (mkeys l) -> In x l -> find_mkid (m_key x) l = Some x.
Proof.
  induction l as [|y r IH]; simpl; intros x N H; [contradiction|]. inversion N; subst.
  destruct H as [H|H].
  - subst. rewrite Nat.eqb_refl. reflexivity.
  - destruct (Nat.eqb (m_key y) (m_key x)) eqn:E; auto.
    apply Nat.eqb_eq in E. exfalso. apply H2. rewrite E. apply in_map. exact H.
Qed.
Lemma find_mkid_app : forall k a b,
  find_mkid k (a ++ b) = match find_mkid k a with Some x => Some x | None => find_mkid k b end.
Proof.
  induction a as [|y r IH]; simpl; intro b; auto. destruct (Nat.eqb (m_key y) k); auto.
Qed.

Lemma nodup_app_l : forall {A} (a b : list A), NoDup (a ++ b) -> NoDup a.
Proof. induction a; simpl; intros b N; [constructor|]. inversion N; subst. constructor; eauto. intro X. apply H1. apply in_or_app. auto. Qed.
Lemma nodup_app_r : forall {A} (a b : list A), NoDup (a ++ b) -> NoDup b.
Proof. induction a; simpl; intros b N; auto. inversion N; subst. eauto. Qed.
Lemma nodup_app_disj : forall {A} (a b : list A) x, NoDup (a ++ b) -> In x a -> ~ In x b.
Proof.
  induction a; simpl; intros b x N I; [contradiction|]. inversion N; subst. destruct I as [I|I].
  - subst. intro X. apply H1. apply in_or_app. auto.
  - eauto.
Qed.

(* ---- the specification of one level ------------------------------------------------- *)
Section Level.
  Variable rec : mnode -> mnode -> res mnode.
  Variable f : mnode -> mnode -> mnode.

  (* the live objects with a same-class counterpart, updated, in live order *)
  Definition kept (s o : list mnode) : list mnode :=
    flat_map (fun l => match find_mkid (m_key l) o with
                       | Some n' => if Nat.eqb (m_cls n') (m_cls l) then [f l n'] else []
                       | None => []
                       end) s.
  (* the other's objects without a same-class live counterpart in THIS set *)
  Definition added (s o : list mnode) : list mnode := to_add (remove_not_in s o) o.
  Definition spec_set (s o : list mnode) : list mnode := kept s o ++ added s o.
  Fixpoint spec_sets (ls ns : list (list mnode)) : list (list mnode) :=
    match ls, ns with
    | s :: rl, o :: rn => spec_set s o :: spec_sets rl rn
    | _, _ => []
    end.

  Definition rec_ok (s o : list mnode) : Prop :=
    forall l n', In l s -> In n' o -> m_key l = m_key n' -> m_cls l = m_cls n' ->
                 rec l n' = Ok (f l n') /\ m_key (f l n') = m_key n'.

  Lemma rni_in : forall s o l, In l (remove_not_in s o) ->
    In l s /\ exists n', find_mkid (m_key l) o = Some n' /\ m_cls n' = m_cls l.
  Proof.
    intros s o l I. apply filter_In in I. destruct I as [I C]. split; auto.
    unfold counterpart in C. destruct (find_mkid (m_key l) o) as [c|]; [|discriminate].
    exists c. split; auto. apply Nat.eqb_eq. exact C.
  Qed.
  Lemma rni_idem : forall s o, remove_not_in (remove_not_in s o) o = remove_not_in s o.
  Proof.
    intros s o. unfold remove_not_in. induction s as [|l r IH]; simpl; auto.
    destruct (counterpart o l) eqn:C; simpl; [rewrite C|]; rewrite ?IH; auto.
  Qed.
  Lemma rni_nodup : forall s o, NoDup (mkeys s) -> NoDup (mkeys (remove_not_in s o)).
  Proof. intros. apply nodup_map_filter. assumption. Qed.
  Lemma rni_keys : forall s o k, In k (mkeys (remove_not_in s o)) -> In k (mkeys s) /\ In k (mkeys o).
  Proof.
    intros s o k I. apply in_map_iff in I. destruct I as [l [E I]]. destruct (rni_in _ _ _ I) as [I1 [n' [F _]]].
    subst k. split; [apply in_map; auto|]. destruct (find_mkid_key _ _ _ F) as [K I2]. rewrite <- K. apply in_map. auto.
  Qed.

  (* the loop over other *)
  Definition tab_of (s1 o : list mnode) : list (nat * mnode) :=
    flat_map (fun o' => match find_mkid (m_key o') s1 with Some l => [(m_key o', f l o')] | None => [] end) o.

  Lemma nss_loop_spec : forall s o o2, NoDup (mkeys o) -> incl o2 o -> rec_ok s o ->
    nss_loop rec (remove_not_in s o) o2 = Ok (tab_of (remove_not_in s o) o2).
  Proof.
    intros s o o2 NO. induction o2 as [|o' r IH]; intros INC RO; simpl; auto.
    assert (INC' : incl r o) by (intros x X; apply INC; right; exact X).
    destruct (find_mkid (m_key o') (remove_not_in s o)) as [l|] eqn:F.
    - destruct (find_mkid_key _ _ _ F) as [K I]. destruct (rni_in _ _ _ I) as [I1 [n' [F' C]]].
      assert (IO : In o' o) by (apply INC; left; reflexivity).
      rewrite K in F'. rewrite (find_mkid_in o o' NO IO) in F'. inversion F'; subst n'.
      destruct (RO l o' I1 IO K (eq_sym C)) as [R _]. rewrite R. rewrite (IH INC' RO). reflexivity.
    - apply IH; auto.
  Qed.

  Lemma tab_lookup : forall s1 o k, NoDup (mkeys o) ->
    find_q k (tab_of s1 o) =
    match find_mkid k o with
    | Some o' => match find_mkid k s1 with Some l => Some (f l o') | None => None end
    | None => None
    end.
  Proof.
    induction o as [|o' r IH]; simpl; intros k ND; auto. inversion ND; subst. unfold tab_of in *. simpl.
    destruct (Nat.eqb (m_key o') k) eqn:E.
    - apply Nat.eqb_eq in E. subst k. destruct (find_mkid (m_key o') s1) as [l|] eqn:S; simpl.
      + rewrite Nat.eqb_refl. reflexivity.
      + rewrite IH by assumption.
        assert (X : find_mkid (m_key o') r = None) by (apply find_mkid_none; exact H1). rewrite X. reflexivity.
    - destruct (find_mkid (m_key o') s1) as [l|] eqn:S; simpl; [rewrite E|]; apply IH; assumption.
  Qed.

  Lemma in_place_spec : forall s o, NoDup (mkeys s) -> NoDup (mkeys o) ->
    in_place (tab_of (remove_not_in s o) o) (remove_not_in s o) = kept s o.
  Proof.
    intros s o NS NO. unfold in_place, kept.
    assert (G : forall l, In l s -> counterpart o l = true ->
                find_q (m_key l) (tab_of (remove_not_in s o) o) =
                match find_mkid (m_key l) o with Some n' => Some (f l n') | None => None end).
    { intros l I C. rewrite tab_lookup by assumption.
      destruct (find_mkid (m_key l) o) as [n'|]; auto.
      assert (X : find_mkid (m_key l) (remove_not_in s o) = Some l).
      { apply find_mkid_in; [apply rni_nodup; auto|]. apply filter_In. auto. }
      rewrite X. reflexivity. }
    assert (GEN : forall s0, incl s0 s ->
              map (fun l => match find_q (m_key l) (tab_of (remove_not_in s o) o) with Some u => u | None => l end)
                  (filter (counterpart o) s0) =
              flat_map (fun l => match find_mkid (m_key l) o with
                                 | Some n' => if Nat.eqb (m_cls n') (m_cls l) then [f l n'] else []
                                 | None => [] end) s0).
    { induction s0 as [|l r IH]; intro INC; simpl; auto.
      assert (IL : In l s) by (apply INC; left; reflexivity).
      assert (INC' : incl r s) by (intros x X; apply INC; right; exact X).
      destruct (counterpart o l) eqn:C; simpl.
      - rewrite (G l IL C). unfold counterpart in C. destruct (find_mkid (m_key l) o) as [n'|]; [|discriminate].
        rewrite C. simpl. rewrite (IH INC'). reflexivity.
      - unfold counterpart in C. destruct (find_mkid (m_key l) o) as [n'|]; [rewrite C|]; simpl; apply IH; auto. }
    apply (GEN s). intros x X; exact X.
  Qed.

  Lemma kept_keys_in : forall s o k, NoDup (mkeys s) -> rec_ok s o -> In k (mkeys (kept s o)) ->
    In k (mkeys (remove_not_in s o)).
  Proof.
    intros s o k NS RO I. apply in_map_iff in I. destruct I as [u [E I]]. unfold kept in I.
    apply in_flat_map in I. destruct I as [l [IL I]].
    destruct (find_mkid (m_key l) o) as [n'|] eqn:F; [|contradiction].
    destruct (Nat.eqb (m_cls n') (m_cls l)) eqn:C; [|contradiction]. destruct I as [I|[]]. subst u.
    destruct (find_mkid_key _ _ _ F) as [K IO]. apply Nat.eqb_eq in C.
    destruct (RO l n' IL IO (eq_sym K) (eq_sym C)) as [_ KF]. subst k. rewrite KF, K.
    apply in_map_iff. exists l. split; auto. apply filter_In. split; auto. unfold counterpart. rewrite F.
    apply Nat.eqb_eq. exact C.
  Qed.

  Lemma added_in : forall s o x, In x (added s o) -> In x o /\ ~ In (m_key x) (mkeys (remove_not_in s o)).
  Proof.
    intros s o x I. apply filter_In in I. destruct I as [I C]. split; auto.
    destruct (find_mkid (m_key x) (remove_not_in s o)) eqn:F; [discriminate|]. apply find_mkid_none. exact F.
  Qed.

  (* add(): no collision when the keys are new to every set of the namespace *)
  Lemma key_in_false : forall k s, ~ In k (mkeys s) -> key_in k s = false.
  Proof. intros k s N. unfold key_in. apply find_mkid_none in N. rewrite N. reflexivity. Qed.
  Lemma add_all_ok : forall before after adds self,
    NoDup (mkeys adds) ->
    (forall x, In x adds -> forall S, In S (before ++ self :: after) -> ~ In (m_key x) (mkeys S)) ->
    add_all before after self adds = Ok (self ++ adds).
  Proof.
    intros before after. induction adds as [|x r IH]; intros self ND D; simpl.
    - rewrite app_nil_r. reflexivity.
    - inversion ND; subst.
      assert (E : existsb (key_in (m_key x)) (before ++ self :: after) = false).
      { destruct (existsb (key_in (m_key x)) (before ++ self :: after)) eqn:E; auto.
        apply existsb_exists in E. destruct E as [S [IS KS]].
        rewrite (key_in_false _ _ (D x (or_introl eq_refl) S IS)) in KS. discriminate. }
      rewrite E. rewrite IH; auto.
      + rewrite <- app_assoc. reflexivity.
      + intros y Y S IS. apply in_app_or in IS. destruct IS as [IS|[IS|IS]].
        * apply (D y (or_intror Y) S). apply in_or_app. auto.
        * subst S. unfold mkeys. rewrite map_app. intro X. apply in_app_or in X. destruct X as [X|X].
          -- apply (D y (or_intror Y) self); auto. apply in_or_app. right. left. reflexivity.
          -- simpl in X. destruct X as [X|[]]. apply H1. rewrite X. apply in_map. exact Y.
        * apply (D y (or_intror Y) S). apply in_or_app. right. right. exact IS.
  Qed.

  (* update_nss_from on one set, the other sets of the namespace hold none of other's keys *)
  Lemma update_nss_spec : forall before after self s o,
    remove_not_in self o = remove_not_in s o ->
    NoDup (mkeys s) -> NoDup (mkeys o) -> rec_ok s o ->
    (forall S, In S (before ++ after) -> forall k, In k (mkeys o) -> ~ In k (mkeys S)) ->
    update_nss rec before after self o = Ok (spec_set s o).
  Proof.
    intros before after self s o E NS NO RO D. unfold update_nss. rewrite E.
    rewrite (nss_loop_spec s o o NO (fun x X => X) RO). rewrite (in_place_spec s o NS NO).
    unfold spec_set. apply add_all_ok.
    - apply nodup_map_filter. exact NO.
    - intros x X S IS. destruct (added_in _ _ _ X) as [XO XN].
      apply in_app_or in IS. destruct IS as [IS|[IS|IS]].
      + apply (D S); [apply in_or_app; auto|apply in_map; auto].
      + subst S. intro K. apply XN. apply (kept_keys_in s o _ NS RO K).
      + apply (D S); [apply in_or_app; auto|apply in_map; auto].
  Qed.

  Lemma spec_set_keys : forall s o k, NoDup (mkeys s) -> rec_ok s o -> In k (mkeys (spec_set s o)) -> In k (mkeys o).
  Proof.
    intros s o k NS RO I. unfold spec_set, mkeys in I. rewrite map_app in I. apply in_app_or in I. destruct I as [I|I].
    - apply (rni_keys s o k). apply (kept_keys_in s o k NS RO I).
    - apply in_map_iff in I. destruct I as [x [E I]]. subst k. apply in_map. apply (added_in _ _ _ I).
  Qed.

  Definition rec_ok_all (ls ns : list (list mnode)) : Prop :=
    forall l n', In l (concat ls) -> In n' (concat ns) -> m_key l = m_key n' -> m_cls l = m_cls n' ->
                 rec l n' = Ok (f l n') /\ m_key (f l n') = m_key n'.

  Lemma phase1_keys : forall ls ns S k, length ls = length ns -> In S (phase1 ls ns) -> In k (mkeys S) ->
    In k (mkeys (concat ns)).
  Proof.
    induction ls as [|s rl IH]; intros [|o rn] S k L IS IK; simpl in *; try discriminate; try contradiction.
    unfold mkeys. rewrite map_app. apply in_or_app. destruct IS as [IS|IS].
    - subst S. left. apply (rni_keys s o k IK).
    - right. apply (IH rn S k); auto.
  Qed.

  (* phase 2 after phase 1 *)
  Lemma phase2_spec : forall ns ls done, length ls = length ns ->
    NoDup (mkeys (concat ls)) -> NoDup (mkeys (concat ns)) -> rec_ok_all ls ns ->
    (forall S, In S done -> forall k, In k (mkeys (concat ns)) -> ~ In k (mkeys S)) ->
    phase2 rec done (phase1 ls ns) ns = Ok (done ++ spec_sets ls ns).
  Proof.
    induction ns as [|o rn IH]; intros [|s rl] done L NL NN RO D; simpl in *; try discriminate.
    - rewrite app_nil_r. reflexivity.
    - unfold mkeys in NL, NN. rewrite map_app in NL, NN.
      assert (ROs : rec_ok s o).
      { intros l n' I1 I2. apply RO; apply in_or_app; auto. }
      assert (NS := nodup_app_l _ _ NL). assert (NO := nodup_app_l _ _ NN).
      rewrite (update_nss_spec done (phase1 rl rn) (remove_not_in s o) s o (rni_idem s o) NS NO ROs).
      + rewrite (IH rl (done ++ [spec_set s o])); auto.
        * rewrite <- app_assoc. reflexivity.
        * apply (nodup_app_r _ _ NL).
        * apply (nodup_app_r _ _ NN).
        * intros l n' I1 I2. apply RO; apply in_or_app; auto.
        * intros S IS k K. apply in_app_or in IS. destruct IS as [IS|[IS|[]]].
          -- apply (D S IS). unfold mkeys. rewrite map_app. apply in_or_app. auto.
          -- subst S. intro X. apply (spec_set_keys s o k NS ROs) in X.
             apply (nodup_app_disj _ _ k NN X K).
      + intros S IS k K. apply in_app_or in IS. destruct IS as [IS|IS].
        * apply (D S IS). unfold mkeys. rewrite map_app. apply in_or_app. auto.
        * intro X. assert (L' : length rl = length rn) by lia.
          apply (nodup_app_disj _ _ k NN K). apply (phase1_keys rl rn S k L' IS X).
  Qed.

  Lemma upd_sets_spec : forall ls ns, length ls = length ns ->
    NoDup (mkeys (concat ls)) -> NoDup (mkeys (concat ns)) -> rec_ok_all ls ns ->
    upd_sets rec true ls ns = Ok (spec_sets ls ns).
  Proof.
    intros ls ns L NL NN RO. unfold upd_sets. rewrite L, Nat.eqb_refl.
    rewrite (phase2_spec ns ls [] L NL NN RO); [reflexivity|]. intros S [].
  Qed.
End Level.

(* ---- lookups in the updated set ------------------------------------------------------ *)
(* the live object of THIS set that the other's object n' is matched with *)
Definition msurvivor (s : list mnode) (n' : mnode) : option mnode :=
  match find_mkid (m_key n') s with
  | Some l => if Nat.eqb (m_cls l) (m_cls n') then Some l else None
  | None => None
  end.

Section Lookup.
  Variable f : mnode -> mnode -> mnode.
  Hypothesis f_key : forall l n', m_key (f l n') = m_key n'.

  Lemma rni_find : forall s o n', NoDup (mkeys s) -> NoDup (mkeys o) -> In n' o ->
    find_mkid (m_key n') (remove_not_in s o) = msurvivor s n'.
  Proof.
    intros s o n' NS NO IO. unfold msurvivor.
    destruct (find_mkid (m_key n') s) as [l|] eqn:F.
    - destruct (find_mkid_key _ _ _ F) as [K IL].
      destruct (Nat.eqb (m_cls l) (m_cls n')) eqn:C.
      + rewrite <- K. apply find_mkid_in; [apply rni_nodup; auto|]. apply filter_In. split; auto.
        unfold counterpart. rewrite K, (find_mkid_in o n' NO IO). rewrite Nat.eqb_sym. exact C.
      + apply find_mkid_none. intro X. apply in_map_iff in X. destruct X as [l2 [K2 I2]].
        destruct (rni_in _ _ _ I2) as [IL2 [c [F2 C2]]].
        assert (l2 = l).
        { rewrite <- K2 in F. rewrite (find_mkid_in s l2 NS IL2) in F. inversion F. reflexivity. }
        subst l2. rewrite K2, (find_mkid_in o n' NO IO) in F2. inversion F2; subst c.
        rewrite C2, Nat.eqb_refl in C. discriminate.
    - apply find_mkid_none. intro X. apply rni_keys in X. destruct X as [X _].
      apply find_mkid_none in F. contradiction.
  Qed.

  Lemma kept_find : forall s o k, NoDup (mkeys s) ->
    find_mkid k (kept f s o) =
    match find_mkid k s with
    | Some l => match find_mkid k o with
                | Some n' => if Nat.eqb (m_cls n') (m_cls l) then Some (f l n') else None
                | None => None end
    | None => None
    end.
  Proof.
    intros s o k. unfold kept. induction s as [|l r IH]; simpl; intro NS; auto. inversion NS; subst.
    rewrite find_mkid_app, (IH H2).
    destruct (Nat.eqb (m_key l) k) eqn:E.
    - apply Nat.eqb_eq in E. subst k.
      assert (X : find_mkid (m_key l) r = None) by (apply find_mkid_none; exact H1). rewrite X.
      destruct (find_mkid (m_key l) o) as [n'|] eqn:F; simpl; auto.
      destruct (Nat.eqb (m_cls n') (m_cls l)); simpl; auto.
      destruct (find_mkid_key _ _ _ F) as [K _]. rewrite f_key, K, Nat.eqb_refl. reflexivity.
    - destruct (find_mkid (m_key l) o) as [n'|] eqn:F; simpl; auto.
      destruct (Nat.eqb (m_cls n') (m_cls l)); simpl; auto.
      destruct (find_mkid_key _ _ _ F) as [K _]. rewrite f_key, K, E. reflexivity.
  Qed.

  Lemma to_add_find : forall s1 o k, NoDup (mkeys o) ->
    find_mkid k (to_add s1 o) =
    match find_mkid k o with
    | Some n' => match find_mkid (m_key n') s1 with Some _ => None | None => Some n' end
    | None => None
    end.
  Proof.
    intros s1 o k. unfold to_add. induction o as [|n' r IH]; simpl; intro NO; auto. inversion NO; subst.
    destruct (find_mkid (m_key n') s1) as [l|] eqn:S; simpl.
    - destruct (Nat.eqb (m_key n') k) eqn:E.
      + rewrite (IH H2). apply Nat.eqb_eq in E. subst k.
        assert (X : find_mkid (m_key n') r = None) by (apply find_mkid_none; exact H1). rewrite X, S. reflexivity.
      + apply IH. exact H2.
    - destruct (Nat.eqb (m_key n') k) eqn:E; [rewrite S; reflexivity|apply IH; exact H2].
  Qed.

  (* one set after the update, looked up by idShort *)
  Lemma spec_set_find : forall s o k, NoDup (mkeys s) -> NoDup (mkeys o) ->
    find_mkid k (spec_set f s o) =
    match find_mkid k o with
    | None => None
    | Some n' => match msurvivor s n' with
                 | Some l => Some (f l n')
                 | None => Some n'
                 end
    end.
  Proof.
    intros s o k NS NO. unfold spec_set, added. rewrite find_mkid_app, (kept_find s o k NS), (to_add_find _ o k NO).
    destruct (find_mkid k o) as [n'|] eqn:FO.
    - destruct (find_mkid_key _ _ _ FO) as [K IO]. rewrite (rni_find s o n' NS NO IO).
      unfold msurvivor. rewrite K. destruct (find_mkid k s) as [l|]; auto.
      rewrite (Nat.eqb_sym (m_cls n') (m_cls l)). destruct (Nat.eqb (m_cls l) (m_cls n')); reflexivity.
    - destruct (find_mkid k s); reflexivity.
  Qed.
End Lookup.

(* ---- the whole tree -------------------------------------------------------------------- *)
Definition updt (live new : mnode) (us : bool) : mnode :=
  match updm true live new us with Ok r => r | Raised _ => new end.

(* the result, field by field *)
Definition unode (live new : mnode) (us : bool) : mnode :=
  MNode (m_oid live) (m_cls live) (m_key new) (m_pay new) (if us then m_src new else m_src live)
        (upd_quals (m_quals live) (m_quals new))
        (spec_sets (fun l n' => updt l n' true) (m_sets live) (m_sets new)).

Section Tree.
  (* the number of NamespaceSets of an object is a matter of its class *)
  Variable arity : nat -> nat.

  Definition wfm1 (n : mnode) : Prop :=
    NoDup (mkeys (concat (m_sets n))) /\ NoDup (map fst (m_quals n)) /\ length (m_sets n) = arity (m_cls n).
  (* idShorts unique across ALL sets of every object (AASd-022), at every depth *)
  Inductive wfm : mnode -> Prop :=
    wfm_node : forall n, wfm1 n -> (forall S x, In S (m_sets n) -> In x S -> wfm x) -> wfm n.

  Lemma updm_ok : forall new live us, wfm live -> wfm new -> m_cls live = m_cls new ->
    updm true live new us = Ok (unode live new us).
  Proof.
    induction new as [o' c' k' p' s' q' sets' IH] using mnode_ind'. intros live us WL WN C.
    inversion WL as [? [NL [_ AL]] KL]; subst. inversion WN as [? [NN [_ AN]] KN]; subst. simpl in *.
    assert (RO : rec_ok_all (fun l n' => updm true l n' true) (fun l n' => updt l n' true) (m_sets live) sets').
    { intros l n' I1 I2 K CC. apply in_concat in I1. destruct I1 as [S1 [IS1 I1]].
      apply in_concat in I2. destruct I2 as [S2 [IS2 I2]].
      assert (E := IH S2 IS2 n' I2 l true (KL S1 l IS1 I1) (KN S2 n' IS2 I2) CC).
      unfold updt. rewrite E. split; auto. }
    rewrite (upd_sets_spec _ (fun l n' => updt l n' true) (m_sets live) sets'); auto.
    rewrite AL, AN, C. reflexivity.
  Qed.

  Lemma updt_eq : forall new live us, wfm live -> wfm new -> m_cls live = m_cls new ->
    updt live new us = unode live new us.
  Proof. intros. unfold updt. rewrite updm_ok; auto. Qed.
End Tree.

(* ---- uniqueness across the sets of the namespace after the update ------------------------ *)
Section Unique.
  Variable f : mnode -> mnode -> mnode.
  Hypothesis f_key : forall l n', m_key (f l n') = m_key n'.

  Lemma kept_mkeys : forall s o, mkeys (kept f s o) = mkeys (remove_not_in s o).
  Proof.
    intros s o. unfold kept, remove_not_in, counterpart. induction s as [|l r IH]; simpl; auto.
    destruct (find_mkid (m_key l) o) as [n'|] eqn:F; simpl; auto.
    destruct (Nat.eqb (m_cls n') (m_cls l)); simpl; auto.
    destruct (find_mkid_key _ _ _ F) as [K _]. rewrite f_key, K, IH. reflexivity.
  Qed.

  Lemma spec_set_nodup : forall s o, NoDup (mkeys s) -> NoDup (mkeys o) ->
    NoDup (mkeys (spec_set f s o)) /\ (forall k, In k (mkeys (spec_set f s o)) -> In k (mkeys o)).
  Proof.
    intros s o NS NO. unfold spec_set, mkeys. rewrite map_app. fold (mkeys (kept f s o)). rewrite kept_mkeys. split.
    - apply nodup_app'.
      + apply rni_nodup. exact NS.
      + apply nodup_map_filter. exact NO.
      + intros k K X. apply in_map_iff in X. destruct X as [x [E X]]. subst k.
        destruct (added_in _ _ _ X) as [_ N]. contradiction.
    - intros k K. apply in_app_or in K. destruct K as [K|K].
      + apply (rni_keys s o k K).
      + apply in_map_iff in K. destruct K as [x [E X]]. subst k. apply in_map. apply (added_in _ _ _ X).
  Qed.

  Lemma spec_sets_nodup : forall ls ns, NoDup (mkeys (concat ls)) -> NoDup (mkeys (concat ns)) ->
    NoDup (mkeys (concat (spec_sets f ls ns))) /\
    (forall k, In k (mkeys (concat (spec_sets f ls ns))) -> In k (mkeys (concat ns))).
  Proof.
    induction ls as [|s rl IH]; intros [|o rn] NL NN; simpl; try (split; [constructor|intros k []]).
    simpl in NL, NN. unfold mkeys in *. rewrite map_app in *.
    destruct (spec_set_nodup s o (nodup_app_l _ _ NL) (nodup_app_l _ _ NN)) as [A1 A2].
    destruct (IH rn (nodup_app_r _ _ NL) (nodup_app_r _ _ NN)) as [B1 B2]. split.
    - apply nodup_app'; auto. intros k K X. apply A2 in K. apply B2 in X. apply (nodup_app_disj _ _ k NN K X).
    - intros k K. rewrite map_app. apply in_or_app. apply in_app_or in K. destruct K as [K|K]; [left; apply A2|right; apply B2]; exact K.
  Qed.

  Lemma spec_sets_nth : forall ls ns i,
    nth_error (spec_sets f ls ns) i =
    match nth_error ls i, nth_error ns i with
    | Some s, Some o => Some (spec_set f s o)
    | _, _ => None
    end.
  Proof.
    induction ls as [|s rl IH]; intros [|o rn] [|i]; simpl; auto;
      try (destruct (nth_error rl i); reflexivity).
  Qed.
  Lemma spec_sets_length : forall ls ns, length ls = length ns -> length (spec_sets f ls ns) = length ns.
  Proof. induction ls as [|s rl IH]; intros [|o rn] L; simpl in *; try discriminate; auto. Qed.
End Unique.

Lemma nodup_concat_in : forall ss (S : list mnode), NoDup (mkeys (concat ss)) -> In S ss -> NoDup (mkeys S).
Proof.
  induction ss as [|S0 r IH]; intros S1 N I; [destruct I|]. simpl in N. unfold mkeys in N. rewrite map_app in N.
  destruct I as [I|I]; [subst; apply (nodup_app_l _ _ N)|apply IH; auto; apply (nodup_app_r _ _ N)].
Qed.

(* set i of a node, looked up by idShort *)
Definition find_in (i k : nat) (n : mnode) : option mnode :=
  match nth_error (m_sets n) i with Some s0 => find_mkid k s0 | None => None end.
Definition set_of (i : nat) (n : mnode) : list mnode :=
  match nth_error (m_sets n) i with Some s0 => s0 | None => [] end.

Section Tree2.
  Variable arity : nat -> nat.

  Lemma updt_key : forall l n', m_key (updt l n' true) = m_key n'.
  Proof. intros l [o c k p s q ss]. unfold updt. simpl. destruct (upd_sets _ _ _ _); reflexivity. Qed.

  (* the children of set i after the update *)
  Lemma ns_children : forall live new us i k, wfm arity live -> wfm arity new -> m_cls live = m_cls new ->
    exists r, updm true live new us = Ok r /\
      m_oid r = m_oid live /\ m_cls r = m_cls new /\ m_key r = m_key new /\ m_pay r = m_pay new /\
      m_src r = (if us then m_src new else m_src live) /\
      find_in i k r =
      match find_in i k new with
      | None => None
      | Some n' => match msurvivor (set_of i live) n' with
                   | Some l => match updm true l n' true with Ok u => Some u | Raised _ => None end
                   | None => Some n'
                   end
      end.
  Proof.
    intros live new us i k WL WN C. exists (unode live new us). split; [apply (updm_ok arity); auto|].
    unfold unode. simpl. repeat split; auto. unfold find_in, set_of. simpl.
    inversion WL as [? [NL [_ AL]] KL]; subst. inversion WN as [? [NN [_ AN]] KN]; subst.
    rewrite spec_sets_nth.
    assert (LEN : length (m_sets live) = length (m_sets new)) by (rewrite AL, AN, C; reflexivity).
    destruct (nth_error (m_sets new) i) as [o|] eqn:EO.
    - destruct (nth_error (m_sets live) i) as [s|] eqn:ES.
      + assert (IS : In s (m_sets live)) by (eapply nth_error_In; eauto).
        assert (IO : In o (m_sets new)) by (eapply nth_error_In; eauto).
        assert (NS := nodup_concat_in _ _ NL IS). assert (NO := nodup_concat_in _ _ NN IO).
        destruct (find_mkid k o) as [n'|] eqn:F.
        * destruct (find_mkid_key _ _ _ F) as [K IN'].
          destruct (msurvivor s n') as [l|] eqn:M.
          -- unfold msurvivor in M. destruct (find_mkid (m_key n') s) as [l0|] eqn:FS; [|discriminate].
             destruct (Nat.eqb (m_cls l0) (m_cls n')) eqn:CC; [|discriminate]. inversion M; subst l0.
             destruct (find_mkid_key _ _ _ FS) as [_ IL]. apply Nat.eqb_eq in CC.
             rewrite (updm_ok arity n' l true (KL s l IS IL) (KN o n' IO IN') CC).
             rewrite (spec_set_find _ updt_key s o k NS NO), F.
             unfold msurvivor. rewrite FS. rewrite CC, Nat.eqb_refl.
             rewrite (updt_eq arity n' l true (KL s l IS IL) (KN o n' IO IN') CC). reflexivity.
          -- rewrite (spec_set_find _ updt_key s o k NS NO), F, M. reflexivity.
        * rewrite (spec_set_find _ updt_key s o k NS NO), F. reflexivity.
      + exfalso. apply nth_error_None in ES. assert (i < length (m_sets new)) by (apply nth_error_Some; congruence). lia.
    - destruct (nth_error (m_sets live) i); reflexivity.
  Qed.

  (* the result is well-formed at the updated node: idShorts unique across ALL its sets, and set i has
     exactly the idShorts of the other's set i *)
  Lemma ns_unique : forall live new us, wfm arity live -> wfm arity new -> m_cls live = m_cls new ->
    exists r, updm true live new us = Ok r /\ wfm1 arity r /\
      (forall i k, find_in i k r <> None <-> find_in i k new <> None).
  Proof.
    intros live new us WL WN C. exists (unode live new us). split; [apply (updm_ok arity); auto|].
    inversion WL as [? [NL [QL AL]] KL]; subst. inversion WN as [? [NN [QN AN]] KN]; subst.
    assert (LEN : length (m_sets live) = length (m_sets new)) by (rewrite AL, AN, C; reflexivity).
    split.
    - unfold wfm1, unode. simpl. split; [|split].
      + apply (spec_sets_nodup _ updt_key); auto.
      + apply upd_quals_nodup; auto.
      + rewrite spec_sets_length; auto. rewrite AN, C. reflexivity.
    - intros i k. destruct (ns_children live new us i k WL WN C) as [r [E [_ [_ [_ [_ [_ F]]]]]]].
      rewrite (updm_ok arity) in E; auto. inversion E; subst r. rewrite F.
      destruct (find_in i k new) as [n'|] eqn:FN; [|tauto].
      destruct (msurvivor (set_of i live) n') as [l|] eqn:M; [|split; congruence].
      unfold msurvivor in M. destruct (find_mkid (m_key n') (set_of i live)) as [l0|] eqn:FS; [|discriminate].
      destruct (Nat.eqb (m_cls l0) (m_cls n')) eqn:CC; [|discriminate]. inversion M; subst l0.
      unfold find_in in FN. unfold set_of in FS.
      destruct (nth_error (m_sets new) i) as [o|] eqn:EO; [|discriminate].
      destruct (nth_error (m_sets live) i) as [s|] eqn:ES; [|discriminate].
      destruct (find_mkid_key _ _ _ FS) as [_ IL]. destruct (find_mkid_key _ _ _ FN) as [_ IN'].
      apply Nat.eqb_eq in CC.
      rewrite (updm_ok arity n' l true (KL s l (nth_error_In _ _ ES) IL) (KN o n' (nth_error_In _ _ EO) IN') CC).
      split; congruence.
  Qed.
End Tree2.

(* ---- the order before the fix ----------------------------------------------------------- *)
Definition ex_op_live : mnode := MNode 1 4 0 0 0 [] [[]; [MNode 2 0 0 5 0 [] []]; []].
Definition ex_op_new : mnode := MNode 11 4 0 1 0 [] [[MNode 12 0 0 6 0 [] []]; []; []].
Definition ex_arity (c : nat) : nat := match c with 4 => 3 | _ => 0 end.

Lemma leaf_wfm : forall o k p, wfm ex_arity (MNode o 0 k p 0 [] []).
Proof. intros. constructor; [repeat split; constructor|]. intros S x []. Qed.
Lemma ns_old_order_refuted :
  wfm ex_arity ex_op_live /\ wfm ex_arity ex_op_new /\
  updm false ex_op_live ex_op_new false = Raised AASd_022 /\
  updm true ex_op_live ex_op_new false = Ok (MNode 1 4 0 1 0 [] [[MNode 12 0 0 6 0 [] []]; []; []]).
Proof.
  split; [|split; [|split; vm_compute; reflexivity]].
  - constructor.
    + repeat split; simpl; repeat constructor; simpl; tauto.
    + intros S x IS IX. simpl in IS. destruct IS as [E|[E|[E|[]]]]; subst S; simpl in IX; try contradiction.
      destruct IX as [E|[]]. subst x. apply leaf_wfm.
  - constructor.
    + repeat split; simpl; repeat constructor; simpl; tauto.
    + intros S x IS IX. simpl in IS. destruct IS as [E|[E|[E|[]]]]; subst S; simpl in IX; try contradiction.
      destruct IX as [E|[]]. subst x. apply leaf_wfm.
Qed.
