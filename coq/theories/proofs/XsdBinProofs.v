(* C06 - proofs about string, anyURI, normalizedString (model/Xsd.v) and hexBinary, base64Binary
   (model/XsdBin.v). *)
From Coq Require Import List ZArith Bool Ascii String Lia.
From Basyx Require Import model.XsdBase model.XsdRe model.XsdLex model.Xsd model.XsdBin gen.Gen_XsdTables
  proofs.XsdBaseProofs.
Import ListNotations.
Local Open Scope Z_scope.

(* ================================================================ strings *)
Lemma string_roundtrip v : parse_string (print_string v) = Ok v /\ valid_xsd_string (print_string v) = true.
Proof. split; reflexivity. Qed.
(* the constructor (and therefore from_xsd) accepts exactly the strings without CR, LF, TAB *)
Lemma normalizedstring_ctor s :
  new_normalizedstring s = if valid_xsd_normalizedstring s then Ok s else Err ValueError.
Proof.
  unfold new_normalizedstring, valid_xsd_normalizedstring.
  assert (K : existsb (fun c => existsb (Z.eqb (code c)) normalized_string_forbidden) s
              = negb (forallb (fun c => negb ((code c =? 13) || (code c =? 10) || (code c =? 9))) s)).
  { induction s as [|c s IH]; [reflexivity|]. cbn [existsb forallb]. rewrite IH.
    unfold normalized_string_forbidden. cbn [existsb].
    destruct (code c =? 13), (code c =? 10), (code c =? 9); reflexivity. }
  rewrite K. destruct (forallb _ s); reflexivity.
Qed.
Lemma normalizedstring_roundtrip v : valid_xsd_normalizedstring v = true ->
  new_normalizedstring v = Ok v /\ parse_normalizedstring (print_string v) = Ok v.
Proof. intros H. unfold parse_normalizedstring, print_string. rewrite normalizedstring_ctor, H. auto. Qed.
Lemma normalizedstring_reject s : valid_xsd_normalizedstring s = false ->
  new_normalizedstring s = Err ValueError /\ parse_normalizedstring s = Err ValueError.
Proof. intros H. unfold parse_normalizedstring. rewrite normalizedstring_ctor, H. auto. Qed.

(* ================================================================ hexBinary *)
Lemma nib_roundtrip x : char_nib (nib_char x) = Some x /\ matches hexdig [nib_char x] = true /\
  is_xsd_ws (nib_char x) = false.
Proof. destruct x as [[[[] []] []] []]; vm_compute; auto. Qed.
Lemma char_nib_valid c x : char_nib c = Some x -> matches hexdig [c] = true /\ is_xsd_ws c = false.
Proof. destruct c as [[] [] [] [] [] [] [] []]; vm_compute; intros H; try discriminate; auto. Qed.
Lemma list_ind2 {A} (P : list A -> Prop) :
  P [] -> (forall a, P [a]) -> (forall a b r, P r -> P (a :: b :: r)) -> forall l, P l.
Proof.
  intros H0 H1 H2 l. assert (K : P l /\ forall a, P (a :: l)).
  { induction l as [|x l (K0 & K1)]; [auto|]. split; auto. }
  apply K.
Qed.

Lemma hex_pairs_print b : hex_pairs (print_hex b) = Some b.
Proof.
  induction b as [|c b IH]; [reflexivity|]. destruct c as [b0 b1 b2 b3 b4 b5 b6 b7].
  change (print_hex (Ascii b0 b1 b2 b3 b4 b5 b6 b7 :: b))
    with (nib_char (b7, b6, b5, b4) :: nib_char (b3, b2, b1, b0) :: print_hex b).
  cbn [hex_pairs]. rewrite (proj1 (nib_roundtrip (b7, b6, b5, b4))), (proj1 (nib_roundtrip (b3, b2, b1, b0))), IH.
  reflexivity.
Qed.
Lemma print_hex_valid b : matches hexbinary_re (print_hex b) = true /\
  forallb (fun c => negb (is_xsd_ws c)) (print_hex b) = true.
Proof.
  induction b as [|c b [IH1 IH2]]; [split; reflexivity|]. destruct c as [b0 b1 b2 b3 b4 b5 b6 b7].
  change (print_hex (Ascii b0 b1 b2 b3 b4 b5 b6 b7 :: b))
    with ([nib_char (b7, b6, b5, b4); nib_char (b3, b2, b1, b0)] ++ print_hex b).
  destruct (nib_roundtrip (b7, b6, b5, b4)) as (_ & M1 & W1). destruct (nib_roundtrip (b3, b2, b1, b0)) as (_ & M2 & W2).
  split.
  - unfold hexbinary_re. apply m_star_app; [|exact IH1].
    change [nib_char (b7, b6, b5, b4); nib_char (b3, b2, b1, b0)] with ([nib_char (b7, b6, b5, b4)] ++ [nib_char (b3, b2, b1, b0)]).
    apply m_cat; assumption.
  - cbn [app forallb]. rewrite W1, W2, IH2. reflexivity.
Qed.
Lemma hex_roundtrip b : parse_hex (print_hex b) = Ok b /\ valid_xsd_hexbinary (print_hex b) = true.
Proof.
  destruct (print_hex_valid b) as [M N]. split.
  - unfold parse_hex. rewrite (strip_none _ _ N), hex_pairs_print. reflexivity.
  - unfold valid_xsd_hexbinary. rewrite ws_collapse_id by exact N. exact M.
Qed.
Lemma hex_pairs_valid : forall t b, hex_pairs t = Some b -> matches hexbinary_re t = true /\ no_ws t = true.
Proof.
  induction t as [| |x y r IH] using list_ind2; intros b H.
  - split; reflexivity.
  - discriminate.
  - cbn [hex_pairs] in H. destruct (char_nib x) as [h|] eqn:Hx; [|discriminate].
    destruct (char_nib y) as [l|] eqn:Hy; [|discriminate]. destruct (hex_pairs r) as [t|] eqn:Hr; [|discriminate].
    destruct (IH t eq_refl) as [M N]. destruct (char_nib_valid _ _ Hx) as [Mx Wx]. destruct (char_nib_valid _ _ Hy) as [My Wy].
    split.
    + unfold hexbinary_re. change (x :: y :: r) with ([x; y] ++ r). apply m_star_app; [|exact M].
      change [x; y] with ([x] ++ [y]). apply m_cat; assumption.
    + unfold no_ws. cbn [forallb]. rewrite Wx, Wy. exact N.
Qed.
Lemma hex_accept_valid s b : parse_hex s = Ok b -> valid_xsd_hexbinary s = true.
Proof.
  unfold parse_hex. destruct (hex_pairs (strip is_xsd_ws s)) as [t|] eqn:H; [|discriminate]. intros _.
  destruct (hex_pairs_valid _ _ H) as [M N]. destruct (strip_spec is_xsd_ws s) as (w1 & w2 & E & H1 & H2).
  unfold valid_xsd_hexbinary. rewrite E at 1. rewrite (ws_collapse_core w1 _ w2 H1 N H2). exact M.
Qed.
Lemma hex_reject_literal s : valid_xsd_hexbinary s = false -> parse_hex s = Err ValueError.
Proof.
  intros H. destruct (parse_hex s) as [b|e] eqn:E.
  - apply hex_accept_valid in E. congruence.
  - unfold parse_hex in E. destruct (hex_pairs _); congruence.
Qed.

(* ================================================================ base64Binary *)
Lemma sext_roundtrip x : char_sext (sext_char x) = Some x /\ is_eq (sext_char x) = false /\
  matches b64 [sext_char x] = true /\ is_xsd_ws (sext_char x) = false.
Proof. destruct x as [[[[[[] []] []] []] []] []]; vm_compute; auto. Qed.
Lemma pad2_char b3 b2 b1 b0 : matches (oneof "AEIMQUYcgkosw048") [sext_char (b3, b2, b1, b0, false, false)] = true.
Proof. destruct b3, b2, b1, b0; vm_compute; reflexivity. Qed.
Lemma pad1_char a1 a0 : matches (oneof "AQgw") [sext_char (a1, a0, false, false, false, false)] = true.
Proof. destruct a1, a0; vm_compute; reflexivity. Qed.

Lemma b64_decode_encode : forall b, b64_decode (b64_encode b) = Some b.
Proof.
  induction b as [|a|a b|a b c r IH] using list_ind3.
  - reflexivity.
  - destruct a as [a0 a1 a2 a3 a4 a5 a6 a7]. cbn [b64_encode b64_decode].
    change (is_eq "="%char) with true. cbn [is_nil negb]. cbv iota.
    rewrite (proj1 (sext_roundtrip (a7, a6, a5, a4, a3, a2))), (proj1 (sext_roundtrip (a1, a0, false, false, false, false))).
    reflexivity.
  - destruct a as [a0 a1 a2 a3 a4 a5 a6 a7]. destruct b as [b0 b1 b2 b3 b4 b5 b6 b7]. cbn [b64_encode b64_decode].
    change (is_eq "="%char) with true. cbn [is_nil negb]. cbv iota.
    rewrite (proj1 (proj2 (sext_roundtrip (b3, b2, b1, b0, false, false)))).
    rewrite (proj1 (sext_roundtrip (a7, a6, a5, a4, a3, a2))), (proj1 (sext_roundtrip (a1, a0, b7, b6, b5, b4))),
      (proj1 (sext_roundtrip (b3, b2, b1, b0, false, false))).
    reflexivity.
  - destruct a as [a0 a1 a2 a3 a4 a5 a6 a7]. destruct b as [b0 b1 b2 b3 b4 b5 b6 b7]. destruct c as [c0 c1 c2 c3 c4 c5 c6 c7].
    cbn [b64_encode b64_decode].
    rewrite (proj1 (proj2 (sext_roundtrip (c5, c4, c3, c2, c1, c0)))).
    rewrite (proj1 (sext_roundtrip (a7, a6, a5, a4, a3, a2))), (proj1 (sext_roundtrip (a1, a0, b7, b6, b5, b4))),
      (proj1 (sext_roundtrip (b3, b2, b1, b0, c7, c6))), (proj1 (sext_roundtrip (c5, c4, c3, c2, c1, c0))), IH.
    reflexivity.
Qed.

Definition b64_tail : re :=
  alts [Cat (rep 3 b64s) b64; cats [rep 2 b64s; oneof "AEIMQUYcgkosw048"; sp; ch "="]; cats [b64s; oneof "AQgw"; sp; ch "="; sp; ch "="]].
Lemma m_b64s c : matches b64 [c] = true -> matches b64s [c] = true.
Proof. intros H. unfold b64s. change [c] with ([c] ++ []). apply m_cat; [exact H|reflexivity]. Qed.
Lemma m_sp_nil : matches sp [] = true.
Proof. reflexivity. Qed.
Lemma b64_encode_valid : forall b, b <> [] ->
  matches (Cat (Star (rep 4 b64s)) b64_tail) (b64_encode b) = true /\
  forallb (fun c => negb (is_xsd_ws c)) (b64_encode b) = true.
Proof.
  induction b as [|a|a b|a b c r IH] using list_ind3; intros Hne.
  - congruence.
  - destruct a as [a0 a1 a2 a3 a4 a5 a6 a7]. cbn [b64_encode].
    destruct (sext_roundtrip (a7, a6, a5, a4, a3, a2)) as (_ & _ & M1 & W1).
    destruct (sext_roundtrip (a1, a0, false, false, false, false)) as (_ & _ & M2 & W2).
    split; [|cbn [forallb]; rewrite W1, W2; reflexivity].
    match goal with |- matches _ ?s = true => change s with ([] ++ s) end.
    apply m_cat; [reflexivity|]. unfold b64_tail. cbn [alts]. apply m_altr, m_altr. cbn [cats].
    match goal with |- matches _ [?x; ?y; ?e1; ?e2] = true => change [x; y; e1; e2] with ([x] ++ [y] ++ [] ++ [e1] ++ [] ++ [e2]) end.
    apply m_cat; [apply m_b64s, M1|]. apply m_cat; [apply pad1_char|]. apply m_cat; [apply m_sp_nil|].
    apply m_cat; [apply m_ch|]. apply m_cat; [apply m_sp_nil|apply m_ch].
  - destruct a as [a0 a1 a2 a3 a4 a5 a6 a7]. destruct b as [b0 b1 b2 b3 b4 b5 b6 b7]. cbn [b64_encode].
    destruct (sext_roundtrip (a7, a6, a5, a4, a3, a2)) as (_ & _ & M1 & W1).
    destruct (sext_roundtrip (a1, a0, b7, b6, b5, b4)) as (_ & _ & M2 & W2).
    destruct (sext_roundtrip (b3, b2, b1, b0, false, false)) as (_ & _ & M3 & W3).
    split; [|cbn [forallb]; rewrite W1, W2, W3; reflexivity].
    match goal with |- matches _ ?s = true => change s with ([] ++ s) end.
    apply m_cat; [reflexivity|]. unfold b64_tail. cbn [alts]. apply m_altr, m_altl. cbn [cats rep].
    match goal with |- matches _ [?x; ?y; ?z; ?e] = true => change [x; y; z; e] with (([x] ++ [y] ++ []) ++ [z] ++ [] ++ [e]) end.
    apply m_cat; [apply m_cat; [apply m_b64s, M1|apply m_cat; [apply m_b64s, M2|reflexivity]]|].
    apply m_cat; [apply pad2_char|]. apply m_cat; [apply m_sp_nil|apply m_ch].
  - destruct a as [a0 a1 a2 a3 a4 a5 a6 a7]. destruct b as [b0 b1 b2 b3 b4 b5 b6 b7]. destruct c as [c0 c1 c2 c3 c4 c5 c6 c7].
    cbn [b64_encode].
    destruct (sext_roundtrip (a7, a6, a5, a4, a3, a2)) as (_ & _ & M1 & W1).
    destruct (sext_roundtrip (a1, a0, b7, b6, b5, b4)) as (_ & _ & M2 & W2).
    destruct (sext_roundtrip (b3, b2, b1, b0, c7, c6)) as (_ & _ & M3 & W3).
    destruct (sext_roundtrip (c5, c4, c3, c2, c1, c0)) as (_ & _ & M4 & W4).
    destruct r as [|r0 r'].
    + split; [|cbn [b64_encode forallb]; rewrite W1, W2, W3, W4; reflexivity]. cbn [b64_encode].
      match goal with |- matches _ ?s = true => change s with ([] ++ s) end.
      apply m_cat; [reflexivity|]. unfold b64_tail. cbn [alts]. apply m_altl. cbn [rep].
      match goal with |- matches _ [?x; ?y; ?z; ?w] = true => change [x; y; z; w] with (([x] ++ [y] ++ [z] ++ []) ++ [w]) end.
      apply m_cat; [|exact M4].
      apply m_cat; [apply m_b64s, M1|apply m_cat; [apply m_b64s, M2|apply m_cat; [apply m_b64s, M3|reflexivity]]].
    + destruct (IH ltac:(discriminate)) as [IM IW]. split; [|cbn [forallb]; rewrite W1, W2, W3, W4; exact IW].
      match goal with |- matches _ (?x :: ?y :: ?z :: ?w :: ?s) = true => change (x :: y :: z :: w :: s) with ([x; y; z; w] ++ s) end.
      apply m_starcat_prepend; [|exact IM]. cbn [rep].
      match goal with |- matches _ [?x; ?y; ?z; ?w] = true => change [x; y; z; w] with ([x] ++ [y] ++ [z] ++ [w] ++ []) end.
      apply m_cat; [apply m_b64s, M1|apply m_cat; [apply m_b64s, M2|apply m_cat; [apply m_b64s, M3|apply m_cat; [apply m_b64s, M4|reflexivity]]]].
Qed.
Lemma base64_roundtrip b : parse_base64 (print_base64 b) = Ok b /\ valid_xsd_base64 (print_base64 b) = true.
Proof.
  unfold print_base64. destruct b as [|b0 b'] eqn:Eb; [split; reflexivity|]. rewrite <- Eb.
  destruct (b64_encode_valid b ltac:(subst; discriminate)) as [M N]. split.
  - unfold parse_base64. rewrite (filter_all _ _ N), b64_decode_encode. reflexivity.
  - unfold valid_xsd_base64. rewrite ws_collapse_id by exact N. unfold base64_re. apply m_opt_some. exact M.
Qed.

(* ================================================================ every accepted base64 literal is valid *)
(* from_xsd removes ALL XSD blanks before decoding; the XSD grammar allows one blank after each character
   of the collapsed text.  [pg t u]: u is t with at most one blank after every character but the last. *)
Inductive pg : str -> str -> Prop :=
| pg_last c : pg [c] [c]
| pg_cons c t u : pg t u -> pg (c :: t) (c :: u)
| pg_gap c t u : pg t u -> pg (c :: t) (c :: " "%char :: u).
Inductive gapped : str -> str -> Prop :=
| g_nil : gapped [] []
| g_cons c t u : gapped t u -> gapped (c :: t) (c :: u)
| g_gap c t u : gapped t u -> gapped (c :: t) (" "%char :: c :: u).
Definition nows (c : ascii) : bool := negb (is_xsd_ws c).
Lemma coll_gapped r : forall p, gapped (filter nows r) (coll true p r).
Proof.
  induction r as [|x r IH]; intros p; [constructor|]. cbn [filter coll].
  replace (nows x) with (negb (is_xsd_ws x)) by reflexivity.
  destruct (is_xsd_ws x); cbn [negb]; [apply IH|]. destruct p; cbn [app]; constructor; apply IH.
Qed.
Lemma gapped_pg t u : gapped t u -> forall c, pg (c :: t) (c :: u).
Proof. induction 1; intros c0; [constructor|apply pg_cons, IHgapped|apply pg_gap, IHgapped]. Qed.
Lemma collapse_pg s : filter nows s = [] \/ pg (filter nows s) (ws_collapse s).
Proof.
  unfold ws_collapse. induction s as [|x s IH]; [left; reflexivity|]. cbn [filter coll].
  replace (nows x) with (negb (is_xsd_ws x)) by reflexivity.
  destruct (is_xsd_ws x); cbn [negb]; [exact IH|]. right. cbn [app]. apply gapped_pg, coll_gapped.
Qed.
Lemma pg_inv2 c c' t u : pg (c :: c' :: t) u ->
  exists g u', u = c :: g ++ u' /\ (g = [] \/ g = [" "%char]) /\ pg (c' :: t) u'.
Proof. intros H. inversion H; subst; [exists [], u0|exists [" "%char], u0]; auto. Qed.
Lemma pg_inv1 c u : pg [c] u -> u = [c].
Proof. intros H. inversion H; subst; [reflexivity| |]; match goal with X : pg [] _ |- _ => inversion X end. Qed.

Lemma char_sext_b64 c : match char_sext c with
                        | Some (_, _, _, _, x1, x0) =>
                          matches b64 [c] = true /\
                          (x1 = false -> x0 = false -> matches (oneof "AEIMQUYcgkosw048") [c] = true)
                        | None => True
                        end.
Proof. destruct c as [[] [] [] [] [] [] [] []]; vm_compute; auto; split; auto; intros; discriminate. Qed.
Lemma char_sext_pad1 c : match char_sext c with
                         | Some (_, _, false, false, false, false) => matches (oneof "AQgw") [c] = true
                         | _ => True
                         end.
Proof. destruct c as [[] [] [] [] [] [] [] []]; vm_compute; auto. Qed.
Lemma m_gap g : g = [] \/ g = [" "%char] -> matches sp g = true.
Proof. intros [->| ->]; reflexivity. Qed.
Lemma m_b64s_gap c g : matches b64 [c] = true -> g = [] \/ g = [" "%char] -> matches b64s (c :: g) = true.
Proof. intros H Hg. unfold b64s. change (c :: g) with ([c] ++ g). apply m_cat; [exact H|apply m_gap, Hg]. Qed.
Lemma list_ind4 {A} (P : list A -> Prop) :
  P [] -> (forall a, P [a]) -> (forall a b, P [a; b]) -> (forall a b c, P [a; b; c]) ->
  (forall a b c d r, P r -> P (a :: b :: c :: d :: r)) -> forall l, P l.
Proof.
  intros H0 H1 H2 H3 H4 l.
  assert (K : P l /\ (forall a, P (a :: l)) /\ (forall a b, P (a :: b :: l)) /\ (forall a b c, P (a :: b :: c :: l))).
  { induction l as [|x l (K0 & K1 & K2 & K3)]; [auto|]. repeat split; auto. }
  apply K.
Qed.

Ltac reassoc new :=
  match goal with |- matches _ ?old = true =>
    replace old with new by (repeat (rewrite <- app_assoc; cbn [app]); rewrite ?app_nil_r; reflexivity) end.
Lemma b64_gapped_valid : forall t b u, b64_decode t = Some b -> pg t u ->
  matches (Cat (Star (rep 4 b64s)) b64_tail) u = true.
Proof.
  induction t as [| | | |c1 c2 c3 c4 r IH] using list_ind4; intros bb u D G; try discriminate.
  - inversion G.
  - cbn [b64_decode] in D.
    destruct (pg_inv2 _ _ _ _ G) as (g1 & u1 & E1 & Hg1 & G1). destruct (pg_inv2 _ _ _ _ G1) as (g2 & u2 & E2 & Hg2 & G2).
    destruct (pg_inv2 _ _ _ _ G2) as (g3 & u3 & E3 & Hg3 & G3). subst u u1 u2.
    pose proof (char_sext_b64 c1) as B1. pose proof (char_sext_b64 c2) as B2. pose proof (char_sext_b64 c3) as B3.
    pose proof (char_sext_b64 c4) as B4. pose proof (char_sext_pad1 c2) as P2.
    destruct (is_eq c4) eqn:Q4.
    + (* padded final group *)
      apply ceq_eq in Q4. subst c4. destruct r as [|r0 r']; [|discriminate]. cbn [is_nil negb] in D.
      apply pg_inv1 in G3. subst u3.
      change (c1 :: g1 ++ c2 :: g2 ++ c3 :: g3 ++ ["="%char]) with ([] ++ c1 :: g1 ++ c2 :: g2 ++ c3 :: g3 ++ ["="%char]).
      apply m_cat; [reflexivity|]. unfold b64_tail. cbn [alts]. apply m_altr.
      destruct (is_eq c3) eqn:Q3.
      * apply ceq_eq in Q3. subst c3. apply m_altr. cbn [cats].
        destruct (char_sext c1) as [[[[[[a7 a6] a5] a4] a3] a2]|]; [|discriminate].
        destruct (char_sext c2) as [[[[[[a1 a0] z3] z2] z1] z0]|]; [|discriminate].
        destruct z3; [discriminate|]. destruct z2; [discriminate|]. destruct z1; [discriminate|]. destruct z0; [discriminate|].
        change (c1 :: g1 ++ c2 :: g2 ++ "="%char :: g3 ++ ["="%char])
          with ((c1 :: g1) ++ [c2] ++ g2 ++ ["="%char] ++ g3 ++ ["="%char]).
        apply m_cat; [apply m_b64s_gap; [apply B1|exact Hg1]|]. apply m_cat; [exact P2|]. apply m_cat; [apply m_gap, Hg2|].
        apply m_cat; [apply m_ch|]. apply m_cat; [apply m_gap, Hg3|apply m_ch].
      * apply m_altl. cbn [cats rep].
        destruct (char_sext c1) as [[[[[[a7 a6] a5] a4] a3] a2]|]; [|discriminate].
        destruct (char_sext c2) as [[[[[[a1 a0] b7] b6] b5] b4]|]; [|discriminate].
        destruct (char_sext c3) as [[[[[[b3 b2] b1] b0] z1] z0]|]; [|discriminate].
        destruct z1; [discriminate|]. destruct z0; [discriminate|].
        reassoc (((c1 :: g1) ++ (c2 :: g2) ++ []) ++ [c3] ++ g3 ++ ["="%char]).
        apply m_cat; [apply m_cat; [apply m_b64s_gap; [apply B1|exact Hg1]|apply m_cat; [apply m_b64s_gap; [apply B2|exact Hg2]|reflexivity]]|].
        apply m_cat; [apply (proj2 B3); reflexivity|]. apply m_cat; [apply m_gap, Hg3|apply m_ch].
    + destruct (char_sext c1) as [[[[[[a7 a6] a5] a4] a3] a2]|]; [|discriminate].
      destruct (char_sext c2) as [[[[[[a1 a0] b7] b6] b5] b4]|]; [|discriminate].
      destruct (char_sext c3) as [[[[[[b3 b2] b1] b0] c7 ] c6]|]; [|discriminate].
      destruct (char_sext c4) as [[[[[[c5 c4'] c3'] c2'] c1'] c0]|]; [|discriminate].
      destruct (b64_decode r) as [tl|] eqn:Dr; [|discriminate].
      destruct r as [|r0 r'].
      * (* a full final group *)
        apply pg_inv1 in G3. subst u3.
        reassoc ([] ++ ((c1 :: g1) ++ (c2 :: g2) ++ (c3 :: g3) ++ []) ++ [c4]).
        apply m_cat; [reflexivity|]. unfold b64_tail. cbn [alts]. apply m_altl. cbn [rep].
        apply m_cat; [|apply B4].
        apply m_cat; [apply m_b64s_gap; [apply B1|exact Hg1]|]. apply m_cat; [apply m_b64s_gap; [apply B2|exact Hg2]|].
        apply m_cat; [apply m_b64s_gap; [apply B3|exact Hg3]|reflexivity].
      * destruct (pg_inv2 _ _ _ _ G3) as (g4 & u4 & E4 & Hg4 & G4). subst u3.
        reassoc (((c1 :: g1) ++ (c2 :: g2) ++ (c3 :: g3) ++ (c4 :: g4) ++ []) ++ u4).
        apply m_starcat_prepend; [|apply (IH tl u4 eq_refl G4)]. cbn [rep].
        apply m_cat; [apply m_b64s_gap; [apply B1|exact Hg1]|]. apply m_cat; [apply m_b64s_gap; [apply B2|exact Hg2]|].
        apply m_cat; [apply m_b64s_gap; [apply B3|exact Hg3]|]. apply m_cat; [apply m_b64s_gap; [apply B4|exact Hg4]|reflexivity].
Qed.
Lemma base64_accept_valid s b : parse_base64 s = Ok b -> valid_xsd_base64 s = true.
Proof.
  unfold parse_base64. fold nows. destruct (b64_decode (filter nows s)) as [t|] eqn:D; [|discriminate]. intros _.
  unfold valid_xsd_base64, base64_re. destruct (collapse_pg s) as [E|G].
  - (* nothing but blanks: the empty literal *)
    assert (K : ws_collapse s = []).
    { unfold ws_collapse. clear D. induction s as [|x s IH]; [reflexivity|]. cbn [filter] in E.
      replace (nows x) with (negb (is_xsd_ws x)) in E by reflexivity.
      cbn [coll]. destruct (is_xsd_ws x); cbn [negb] in E; [apply IH, E|discriminate]. }
    rewrite K. reflexivity.
  - apply m_opt_some. eapply b64_gapped_valid; eassumption.
Qed.
Lemma base64_reject_literal s : valid_xsd_base64 s = false -> parse_base64 s = Err ValueError.
Proof.
  intros H. destruct (parse_base64 s) as [b|e] eqn:E.
  - apply base64_accept_valid in E. congruence.
  - unfold parse_base64 in E. destruct (b64_decode _); congruence.
Qed.
