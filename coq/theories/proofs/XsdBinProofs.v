(* C06 - proofs about string, anyURI, normalizedString (model/Xsd.v) and hexBinary, base64Binary
   (model/XsdBin.v). *)
From Coq Require Import List ZArith Bool Ascii String Lia.
From Basyx Require Import model.XsdBase model.XsdRe model.XsdLex model.Xsd model.XsdBin gen.Gen_XsdTables
  proofs.XsdBaseProofs.
Import ListNotations.
Local Open Scope Z_scope.

(* ================================================================ strings *)
Lemma string_roundtrip v : parse_string (print_string v) = Ok v /\ valid_xsd_string (print_string v) = true.
Proof. split; reflexivity. Qed.
(* the constructor (and therefore from_xsd) accepts exactly the strings without CR, LF, TAB *)
Lemma normalizedstring_ctor s :
  new_normalizedstring s = if valid_xsd_normalizedstring s then Ok s else Err ValueError.
Proof.
  unfold new_normalizedstring, valid_xsd_normalizedstring.
  assert (K : existsb (fun c => existsb (Z.eqb (code c)) normalized_string_forbidden) s
              = negb (forallb (fun c => negb ((code c =? 13) || (code c =? 10) || (code c =? 9))) s)).
  { induction s as [|c s IH]; [reflexivity|]. cbn [existsb forallb]. rewrite IH.
    unfold normalized_string_forbidden. cbn [existsb].
    destruct (code c =? 13), (code c =? 10), (code c =? 9); reflexivity. }
  rewrite K. destruct (forallb _ s); reflexivity.
Qed.
Lemma normalizedstring_roundtrip v : valid_xsd_normalizedstring v = true ->
  new_normalizedstring v = Ok v /\ parse_normalizedstring (print_string v) = Ok v.
Proof. intros H. unfold parse_normalizedstring, print_string. rewrite normalizedstring_ctor, H. auto. Qed.
Lemma normalizedstring_reject s : valid_xsd_normalizedstring s = false ->
  new_normalizedstring s = Err ValueError /\ parse_normalizedstring s = Err ValueError.
Proof. intros H. unfold parse_normalizedstring. rewrite normalizedstring_ctor, H. auto. Qed.

(* ================================================================ hexBinary *)
Lemma nib_roundtrip x : char_nib (nib_char x) = Some x /\ matches hexdig [nib_char x] = true /\
  is_xsd_ws (nib_char x) = false.
Proof. destruct x as [[[[] []] []] []]; vm_compute; auto. Qed.
Lemma char_nib_valid c x : char_nib c = Some x -> matches hexdig [c] = true /\ is_xsd_ws c = false.
Proof. destruct c as [[] [] [] [] [] [] [] []]; vm_compute; intros H; try discriminate; auto. Qed.
Lemma list_ind2 {A} (P : list A -> Prop) :
  P [] -> (forall a, P [a]) -> (forall a b r, P r -> P (a :: b :: r)) -> forall l, P l.
Proof.
  intros H0 H1 H2 l. assert (K : P l /\ forall a, P (a :: l)).
  { induction l as [|x l (K0 & K1)]; [auto|]. split; auto. }
  apply K.
Qed.

Lemma hex_pairs_print b : hex_pairs (print_hex b) = Some b.
Proof.
  induction b as [|c b IH]; [reflexivity|]. destruct c as [b0 b1 b2 b3 b4 b5 b6 b7].
  change (print_hex (Ascii b0 b1 b2 b3 b4 b5 b6 b7 :: b))
    with (nib_char (b7, b6, b5, b4) :: nib_char (b3, b2, b1, b0) :: print_hex b).
  cbn [hex_pairs]. rewrite (proj1 (nib_roundtrip (b7, b6, b5, b4))), (proj1 (nib_roundtrip (b3, b2, b1, b0))), IH.
  reflexivity.
Qed.
Lemma print_hex_valid b : matches hexbinary_re (print_hex b) = true /\
  forallb (fun c => negb (is_xsd_ws c)) (print_hex b) = true.
Proof.
  induction b as [|c b [IH1 IH2]]; [split; reflexivity|]. destruct c as [b0 b1 b2 b3 b4 b5 b6 b7].
  change (print_hex (Ascii b0 b1 b2 b3 b4 b5 b6 b7 :: b))
    with ([nib_char (b7, b6, b5, b4); nib_char (b3, b2, b1, b0)] ++ print_hex b).
  destruct (nib_roundtrip (b7, b6, b5, b4)) as (_ & M1 & W1). destruct (nib_roundtrip (b3, b2, b1, b0)) as (_ & M2 & W2).
  split.
  - unfold hexbinary_re. apply m_star_app; [|exact IH1].
    change [nib_char (b7, b6, b5, b4); nib_char (b3, b2, b1, b0)] with ([nib_char (b7, b6, b5, b4)] ++ [nib_char (b3, b2, b1, b0)]).
    apply m_cat; assumption.
  - cbn [app forallb]. rewrite W1, W2, IH2. reflexivity.
Qed.
Lemma hex_roundtrip b : parse_hex (print_hex b) = Ok b /\ valid_xsd_hexbinary (print_hex b) = true.
Proof.
  destruct (print_hex_valid b) as [M N]. split.
  - unfold parse_hex. rewrite (strip_none _ _ N), hex_pairs_print. reflexivity.
  - unfold valid_xsd_hexbinary. rewrite ws_collapse_id by exact N. exact M.
Qed.
Lemma hex_pairs_valid : forall t b, hex_pairs t = Some b -> matches hexbinary_re t = true /\ no_ws t = true.
Proof.
  induction t as [| |x y r IH] using list_ind2; intros b H.
  - split; reflexivity.
  - discriminate.
  - cbn [hex_pairs] in H. destruct (char_nib x) as [h|] eqn:Hx; [|discriminate].
    destruct (char_nib y) as [l|] eqn:Hy; [|discriminate]. destruct (hex_pairs r) as [t|] eqn:Hr; [|discriminate].
    destruct (IH t eq_refl) as [M N]. destruct (char_nib_valid _ _ Hx) as [Mx Wx]. destruct (char_nib_valid _ _ Hy) as [My Wy].
    split.
    + unfold hexbinary_re. change (x :: y :: r) with ([x; y] ++ r). apply m_star_app; [|exact M].
      change [x; y] with ([x] ++ [y]). apply m_cat; assumption.
    + unfold no_ws. cbn [forallb]. rewrite Wx, Wy. exact N.
Qed.
Lemma hex_accept_valid s b : parse_hex s = Ok b -> valid_xsd_hexbinary s = true.
Proof.
  unfold parse_hex. destruct (hex_pairs (strip is_xsd_ws s)) as [t|] eqn:H; [|discriminate]. intros _.
  destruct (hex_pairs_valid _ _ H) as [M N]. destruct (strip_spec is_xsd_ws s) as (w1 & w2 & E & H1 & H2).
  unfold valid_xsd_hexbinary. rewrite E at 1. rewrite (ws_collapse_core w1 _ w2 H1 N H2). exact M.
Qed.
Lemma hex_reject_literal s : valid_xsd_hexbinary s = false -> parse_hex s = Err ValueError.
Proof.
  intros H. destruct (parse_hex s) as [b|e] eqn:E.
  - apply hex_accept_valid in E. congruence.
  - unfold parse_hex in E. destruct (hex_pairs _); congruence.
Qed.

(* ================================================================ base64Binary *)
Lemma sext_roundtrip x : char_sext (sext_char x) = Some x /\ is_eq (sext_char x) = false /\
  matches b64 [sext_char x] = true /\ is_xsd_ws (sext_char x) = false.
Proof. destruct x as [[[[[[] []] []] []] []] []]; vm_compute; auto. Qed.
Lemma pad2_char b3 b2 b1 b0 : matches (oneof "AEIMQUYcgkosw048") [sext_char (b3, b2, b1, b0, false, false)] = true.
Proof. destruct b3, b2, b1, b0; vm_compute; reflexivity. Qed.
Lemma pad1_char a1 a0 : matches (oneof "AQgw") [sext_char (a1, a0, false, false, false, false)] = true.
Proof. destruct a1, a0; vm_compute; reflexivity. Qed.

Lemma b64_decode_encode : forall b, b64_decode (b64_encode b) = Some b.
Proof.
  induction b as [|a|a b|a b c r IH] using list_ind3.
  - reflexivity.
  - destruct a as [a0 a1 a2 a3 a4 a5 a6 a7]. cbn [b64_encode b64_decode].
    change (is_eq "="%char) with true. cbn [is_nil negb]. cbv iota.
    rewrite (proj1 (sext_roundtrip (a7, a6, a5, a4, a3, a2))), (proj1 (sext_roundtrip (a1, a0, false, false, false, false))).
    reflexivity.
  - destruct a as [a0 a1 a2 a3 a4 a5 a6 a7]. destruct b as [b0 b1 b2 b3 b4 b5 b6 b7]. cbn [b64_encode b64_decode].
    change (is_eq "="%char) with true. cbn [is_nil negb]. cbv iota.
    rewrite (proj1 (proj2 (sext_roundtrip (b3, b2, b1, b0, false, false)))).
    rewrite (proj1 (sext_roundtrip (a7, a6, a5, a4, a3, a2))), (proj1 (sext_roundtrip (a1, a0, b7, b6, b5, b4))),
      (proj1 (sext_roundtrip (b3, b2, b1, b0, false, false))).
    reflexivity.
  - destruct a as [a0 a1 a2 a3 a4 a5 a6 a7]. destruct b as [b0 b1 b2 b3 b4 b5 b6 b7]. destruct c as [c0 c1 c2 c3 c4 c5 c6 c7].
    cbn [b64_encode b64_decode].
    rewrite (proj1 (proj2 (sext_roundtrip (c5, c4, c3, c2, c1, c0)))).
    rewrite (proj1 (sext_roundtrip (a7, a6, a5, a4, a3, a2))), (proj1 (sext_roundtrip (a1, a0, b7, b6, b5, b4))),
      (proj1 (sext_roundtrip (b3, b2, b1, b0, c7, c6))), (proj1 (sext_roundtrip (c5, c4, c3, c2, c1, c0))), IH.
    reflexivity.
Qed.

Definition b64_tail : re :=
  alts [Cat (rep 3 b64s) b64; cats [rep 2 b64s; oneof "AEIMQUYcgkosw048"; sp; ch "="]; cats [b64s; oneof "AQgw"; sp; ch "="; sp; ch "="]].
Lemma m_b64s c : matches b64 [c] = true -> matches b64s [c] = true.
Proof. intros H. unfold b64s. change [c] with ([c] ++ []). apply m_cat; [exact H|reflexivity]. Qed.
Lemma m_sp_nil : matches sp [] = true.
Proof. reflexivity. Qed.
Lemma b64_encode_valid : forall b, b <> [] ->
  matches (Cat (Star (rep 4 b64s)) b64_tail) (b64_encode b) = true /\
  forallb (fun c => negb (is_xsd_ws c)) (b64_encode b) = true.
Proof.
  induction b as [|a|a b|a b c r IH] using list_ind3; intros Hne.
  - congruence.
  - destruct a as [a0 a1 a2 a3 a4 a5 a6 a7]. cbn [b64_encode].
    destruct (sext_roundtrip (a7, a6, a5, a4, a3, a2)) as (_ & _ & M1 & W1).
    destruct (sext_roundtrip (a1, a0, false, false, false, false)) as (_ & _ & M2 & W2).
    split; [|cbn [forallb]; rewrite W1, W2; reflexivity].
    match goal with |- matches _ ?s = true => change s with ([] ++ s) end.
    apply m_cat; [reflexivity|]. unfold b64_tail. cbn [alts]. apply m_altr, m_altr. cbn [cats].
    match goal with |- matches _ [?x; ?y; ?e1; ?e2] = true => change [x; y; e1; e2] with ([x] ++ [y] ++ [] ++ [e1] ++ [] ++ [e2]) end.
    apply m_cat; [apply m_b64s, M1|]. apply m_cat; [apply pad1_char|]. apply m_cat; [apply m_sp_nil|].
    apply m_cat; [apply m_ch|]. apply m_cat; [apply m_sp_nil|apply m_ch].
  - destruct a as [a0 a1 a2 a3 a4 a5 a6 a7]. destruct b as [b0 b1 b2 b3 b4 b5 b6 b7]. cbn [b64_encode].
    destruct (sext_roundtrip (a7, a6, a5, a4, a3, a2)) as (_ & _ & M1 & W1).
    destruct (sext_roundtrip (a1, a0, b7, b6, b5, b4)) as (_ & _ & M2 & W2).
    destruct (sext_roundtrip (b3, b2, b1, b0, false, false)) as (_ & _ & M3 & W3).
    split; [|cbn [forallb]; rewrite W1, W2, W3; reflexivity].
    match goal with |- matches _ ?s = true => change s with ([] ++ s) end.
    apply m_cat; [reflexivity|]. unfold b64_tail. cbn [alts]. apply m_altr, m_altl. cbn [cats rep].
    match goal with |- matches _ [?x; ?y; ?z; ?e] = true => change [x; y; z; e] with (([x] ++ [y] ++ []) ++ [z] ++ [] ++ [e]) end.
    apply m_cat; [apply m_cat; [apply m_b64s, M1|apply m_cat; [apply m_b64s, M2|reflexivity]]|].
    apply m_cat; [apply pad2_char|]. apply m_cat; [apply m_sp_nil|apply m_ch].
  - destruct a as [a0 a1 a2 a3 a4 a5 a6 a7]. destruct b as [b0 b1 b2 b3 b4 b5 b6 b7]. destruct c as [c0 c1 c2 c3 c4 c5 c6 c7].
    cbn [b64_encode].
    destruct (sext_roundtrip (a7, a6, a5, a4, a3, a2)) as (_ & _ & M1 & W1).
    destruct (sext_roundtrip (a1, a0, b7, b6, b5, b4)) as (_ & _ & M2 & W2).
    destruct (sext_roundtrip (b3, b2, b1, b0, c7, c6)) as (_ & _ & M3 & W3).
    destruct (sext_roundtrip (c5, c4, c3, c2, c1, c0)) as (_ & _ & M4 & W4).
    destruct r as [|r0 r'].
    + split; [|cbn [b64_encode forallb]; rewrite W1, W2, W3, W4; reflexivity]. cbn [b64_encode].
      match goal with |- matches _ ?s = true => change s with ([] ++ s) end.
      apply m_cat; [reflexivity|]. unfold b64_tail. cbn [alts]. apply m_altl. cbn [rep].
      match goal with |- matches _ [?x; ?y; ?z; ?w] = true => change [x; y; z; w] with (([x] ++ [y] ++ [z] ++ []) ++ [w]) end.
      apply m_cat; [|exact M4].
      apply m_cat; [apply m_b64s, M1|apply m_cat; [apply m_b64s, M2|apply m_cat; [apply m_b64s, M3|reflexivity]]].
    + destruct (IH ltac:(discriminate)) as [IM IW]. split; [|cbn [forallb]; rewrite W1, W2, W3, W4; exact IW].
      match goal with |- matches _ (?x :: ?y :: ?z :: ?w :: ?s) = true => change (x :: y :: z :: w :: s) with ([x; y; z; w] ++ s) end.
      apply m_starcat_prepend; [|exact IM]. cbn [rep].
      match goal with |- matches _ [?x; ?y; ?z; ?w] = true => change [x; y; z; w] with ([x] ++ [y] ++ [z] ++ [w] ++ []) end.
      apply m_cat; [apply m_b64s, M1|apply m_cat; [apply m_b64s, M2|apply m_cat; [apply m_b64s, M3|apply m_cat; [apply m_b64s, M4|reflexivity]]]].
Qed.
Lemma base64_roundtrip b : parse_base64 (print_base64 b) = Ok b /\ valid_xsd_base64 (print_base64 b) = true.
Proof.
  unfold print_base64. destruct b as [|b0 b'] eqn:Eb; [split; reflexivity|]. rewrite <- Eb.
  destruct (b64_encode_valid b ltac:(subst; discriminate)) as [M N]. split.
  - unfold parse_base64. rewrite (filter_all _ _ N), b64_decode_encode. reflexivity.
  - unfold valid_xsd_base64. rewrite ws_collapse_id by exact N. unfold base64_re. apply m_opt_some. exact M.
Qed.
