(* Lemmas about model/Refs.v (property C07). *)
From Coq Require Import List ZArith Bool String Ascii Decimal DecimalString DecimalN Lia.
From Basyx Require Import gen.Gen_RefKeys gen.Gen_RefEqHash model.Refs.
Import ListNotations.
Local Open Scope string_scope.

(* ------------------------------------------------------------------ decimal strings *)

Lemma digit_not_space : forall a, is_digit a = true -> is_space a = false.
Proof.
  intros a. unfold is_digit, is_space. set (n := nat_of_ascii a).
  rewrite andb_true_iff, !Nat.leb_le. intros [H1 H2].
  apply orb_false_iff. split.
  - apply andb_false_iff. right. apply Nat.leb_gt. lia.
  - apply Nat.eqb_neq. lia.
Qed.

Lemma digit_not_char : forall a b, is_digit a = true -> is_digit b = false -> Ascii.eqb a b = false.
Proof.
  intros a b Ha Hb. destruct (Ascii.eqb a b) eqn:E; auto.
  apply Ascii.eqb_eq in E. subst. congruence.
Qed.

Lemma string_of_uint_digits : forall d, all_digits (NilEmpty.string_of_uint d) = true.
Proof. induction d; simpl; auto. Qed.

Lemma lstrip_digits : forall s, all_digits s = true -> lstrip s = s.
Proof.
  destruct s; simpl; auto. intros H. apply andb_true_iff in H. destruct H as [H _].
  rewrite (digit_not_space _ H). reflexivity.
Qed.

Lemma rstrip_digits : forall s, all_digits s = true -> rstrip s = s.
Proof.
  induction s; simpl; auto. intros H. apply andb_true_iff in H. destruct H as [Ha Hs].
  rewrite (IHs Hs). destruct s; auto. rewrite (digit_not_space _ Ha). reflexivity.
Qed.

Lemma digits_us_digits : forall s b, all_digits s = true -> (s <> "" \/ b = true) -> digits_us s b = Some s.
Proof.
  induction s; simpl; intros b H Hb.
  - destruct Hb as [Hb | Hb]; [congruence | subst; reflexivity].
  - apply andb_true_iff in H. destruct H as [Ha Hs]. rewrite Ha.
    rewrite (IHs true Hs); auto.
Qed.

Lemma string_of_uint_empty : forall d, NilEmpty.string_of_uint d = "" -> d = Nil.
Proof. destruct d; simpl; auto; discriminate. Qed.

Lemma index_str_nonempty : forall i, index_str i <> "".
Proof.
  intros i H. unfold index_str in H. apply string_of_uint_empty in H.
  assert (E : N.of_uint (N.to_uint (N.of_nat i)) = N.of_nat i) by apply DecimalN.Unsigned.of_to.
  rewrite H in E. destruct (N.of_nat i) eqn:En.
  - cbv in H. discriminate.
  - cbv in E. discriminate.
Qed.

Lemma index_str_digits : forall i, all_digits (index_str i) = true.
Proof. intros. apply string_of_uint_digits. Qed.

Lemma isnumeric_index_str : forall i, isnumeric (index_str i) = true.
Proof.
  intros i. unfold isnumeric. pose proof (index_str_nonempty i). pose proof (index_str_digits i).
  destruct (index_str i); congruence.
Qed.

Lemma py_int_index_str : forall i, py_int (index_str i) = Some (Z.of_nat i).
Proof.
  intros i. unfold py_int.
  pose proof (index_str_digits i) as Hd. pose proof (index_str_nonempty i) as Hne.
  rewrite (lstrip_digits _ Hd), (rstrip_digits _ Hd).
  destruct (index_str i) as [|a r] eqn:E; [congruence|].
  assert (Ha : is_digit a = true) by (simpl in Hd; apply andb_true_iff in Hd; tauto).
  rewrite (digit_not_char a "-"%char Ha eq_refl), (digit_not_char a "+"%char Ha eq_refl).
  rewrite (digits_us_digits (String a r) false Hd) by (left; discriminate).
  rewrite <- E. unfold index_str. rewrite NilEmpty.usu.
  f_equal. unfold Z.of_uint. change (Pos.of_uint (N.to_uint (N.of_nat i))) with (N.of_uint (N.to_uint (N.of_nat i))).
  rewrite DecimalN.Unsigned.of_to. apply nat_N_Z.
Qed.

(* ------------------------------------------------------------------ finite facts about the generated tables *)

Lemma identifiable_keytype : forall c, is_identifiable c = true ->
  is_aas_identifiable (key_type_of c) = true /\ is_generic_fragment_key (key_type_of c) = false.
Proof. destruct c; simpl; intros H; try discriminate H; split; reflexivity. Qed.

Lemma fragment_keytype : forall c, is_identifiable c = false ->
  is_fragment_key_element (key_type_of c) = true /\ is_generic_fragment_key (key_type_of c) = false /\
  keytype_eqb (key_type_of c) KT_FRAGMENT_REFERENCE = false.
Proof. destruct c; simpl; intros H; try discriminate H; repeat split; reflexivity. Qed.

Lemma list_keytype : forall c, keytype_eqb (key_type_of c) KT_SUBMODEL_ELEMENT_LIST = true -> is_list c = true.
Proof. destruct c; simpl; intros H; try reflexivity; vm_compute in H; discriminate H. Qed.

Lemma own_ref_type : forall c, instance_of c (ref_type_of c) = true.
Proof. destruct c; reflexivity. Qed.

Lemma list_is_namespace : forall c, is_list c = true -> is_namespace c = true.
Proof. destruct c; simpl; intros H; try discriminate H; reflexivity. Qed.

(* ------------------------------------------------------------------ trees *)

Lemma wf_node_ok : forall t, wf_tree t -> node_ok t.
Proof. destruct t; simpl; tauto. Qed.

Lemma wf_all_nth : forall ch,
  (fix all (l : list tree) : Prop := match l with [] => True | x :: r => wf_tree x /\ all r end) ch ->
  forall i c, nth_error ch i = Some c -> wf_tree c.
Proof.
  induction ch; intros H i c Hn.
  - destruct i; discriminate.
  - destruct H as [Ha Hr]. destruct i; simpl in Hn.
    + injection Hn as <-. exact Ha.
    + eapply IHch; eauto.
Qed.

Lemma wf_child : forall t i c, wf_tree t -> nth_error (t_ch t) i = Some c -> wf_tree c.
Proof. destruct t; simpl; intros i c0 [_ H] Hn. eapply wf_all_nth; eauto. Qed.

Lemma child_in_keys : forall l i c, nth_error l i = Some c -> In (t_key c) (keys_of l).
Proof. intros. unfold keys_of. apply in_map. eapply nth_error_In; eauto. Qed.

Lemma key_is_true : forall id c, key_is id c = true <-> t_key c = Some id.
Proof.
  intros id c. unfold key_is. destruct (t_key c).
  - rewrite String.eqb_eq. split; congruence.
  - split; discriminate.
Qed.

Lemma find_key_unique : forall l id i c k,
  NoDup (keys_of l) -> nth_error l i = Some c -> t_key c = Some id ->
  find_key id l k = Some (k + i, c)%nat.
Proof.
  induction l; intros id i c k Hnd Hn Hk.
  - destruct i; discriminate.
  - simpl in Hnd. inversion Hnd as [|x xs Hnotin Hnd']; subst. destruct i; simpl in Hn.
    + injection Hn as <-. simpl. apply key_is_true in Hk. rewrite Hk. rewrite Nat.add_0_r. reflexivity.
    + simpl. destruct (key_is id a) eqn:E.
      * apply key_is_true in E. exfalso. apply Hnotin. rewrite E, <- Hk. eapply child_in_keys; eauto.
      * rewrite (IHl id i c (S k) Hnd' Hn Hk). f_equal. f_equal. lia.
Qed.

Lemma find_key_sound : forall l id k j c,
  find_key id l k = Some (j, c) -> exists i, j = (k + i)%nat /\ nth_error l i = Some c /\ t_key c = Some id.
Proof.
  induction l; simpl; intros id k j c H; [discriminate|].
  destruct (key_is id a) eqn:E.
  - injection H as <- <-. exists 0%nat. rewrite Nat.add_0_r. apply key_is_true in E. auto.
  - apply IHl in H. destruct H as [i [-> [Hn Hk]]]. exists (S i). split; [lia|]. auto.
Qed.

Lemma find_key_none : forall l id k, (forall c, In c l -> t_key c <> Some id) -> find_key id l k = None.
Proof.
  induction l; simpl; intros id k H; auto.
  destruct (key_is id a) eqn:E.
  - apply key_is_true in E. exfalso. eapply H; eauto.
  - apply IHl. intros; apply H; auto.
Qed.

Lemma list_index_nat : forall l i c, nth_error l i = Some c -> list_index l (Z.of_nat i) = Some (i, c).
Proof.
  intros l i c H. unfold list_index.
  assert (Hlt : (i < List.length l)%nat) by (apply nth_error_Some; congruence).
  replace ((Z.of_nat i <? 0)%Z) with false by (symmetry; apply Z.ltb_ge; lia).
  replace ((Z.of_nat (List.length l) <=? Z.of_nat i)%Z) with false by (symmetry; apply Z.leb_gt; lia).
  simpl. rewrite Nat2Z.id, H. reflexivity.
Qed.

Lemma list_index_sound : forall l z j c,
  list_index l z = Some (j, c) -> z = Z.of_nat j /\ nth_error l j = Some c.
Proof.
  intros l z j c. unfold list_index.
  destruct ((z <? 0)%Z) eqn:E1; simpl; [discriminate|].
  destruct ((Z.of_nat (List.length l) <=? z)%Z) eqn:E2; [discriminate|].
  destruct (nth_error l (Z.to_nat z)) eqn:E3; [|discriminate].
  intros H. injection H as <- <-. apply Z.ltb_ge in E1. split; auto. lia.
Qed.

Lemma list_index_none : forall l z, (z < 0 \/ Z.of_nat (List.length l) <= z)%Z -> list_index l z = None.
Proof.
  intros l z H. unfold list_index.
  destruct ((z <? 0)%Z) eqn:E1; simpl; auto.
  destruct ((Z.of_nat (List.length l) <=? z)%Z) eqn:E2; auto.
  apply Z.ltb_ge in E1. apply Z.leb_gt in E2. lia.
Qed.

(* ------------------------------------------------------------------ get_referable *)

Lemma get_ref_sound : forall ids t p n, get_ref t ids = Ok (p, n) -> follows t ids p n /\ addr t p = Some n.
Proof.
  induction ids as [|id r IH]; intros t p n H; simpl in H.
  - injection H as <- <-. split; [constructor | reflexivity].
  - destruct (is_namespace (t_cls t)) eqn:Ens; simpl in H; [|discriminate].
    destruct (is_list (t_cls t)) eqn:El.
    + destruct (py_int id) as [z|] eqn:Ei; [|discriminate].
      destruct (list_index (t_ch t) z) as [[i c]|] eqn:Ex; [|discriminate].
      destruct (get_ref c r) as [[q m]|] eqn:Er; [|discriminate].
      injection H as <- <-. apply list_index_sound in Ex. destruct Ex as [-> Hn].
      apply IH in Er. destruct Er as [Hf Ha]. split.
      * eapply F_idx; eauto.
      * simpl. rewrite Hn. exact Ha.
    + destruct (find_key id (t_ch t) 0) as [[i c]|] eqn:Ex; [|discriminate].
      destruct (get_ref c r) as [[q m]|] eqn:Er; [|discriminate].
      injection H as <- <-. apply find_key_sound in Ex. destruct Ex as [i' [-> [Hn Hk]]]. simpl in *.
      apply IH in Er. destruct Er as [Hf Ha]. split.
      * eapply F_key; eauto.
      * simpl. rewrite Hn. exact Ha.
Qed.

Lemma get_ref_complete : forall t ids p n, follows t ids p n -> wf_tree t -> get_ref t ids = Ok (p, n).
Proof.
  induction 1; intros Hwf; simpl.
  - reflexivity.
  - rewrite H, H0. simpl.
    destruct (wf_node_ok _ Hwf) as [_ [Hk _]]. destruct (Hk H0) as [Hnd _].
    rewrite (find_key_unique _ _ _ _ 0%nat Hnd H1 H2). simpl.
    rewrite IHfollows; eauto using wf_child.
  - rewrite H, H0. simpl. rewrite H1. rewrite (list_index_nat _ _ _ H2).
    rewrite IHfollows; eauto using wf_child.
Qed.

Lemma follows_functional : forall t ids p n p' n',
  wf_tree t -> follows t ids p n -> follows t ids p' n' -> p = p' /\ n = n'.
Proof.
  intros t ids p n p' n' Hwf H1 H2.
  apply get_ref_complete in H1; auto. apply get_ref_complete in H2; auto.
  rewrite H1 in H2. injection H2 as -> ->. auto.
Qed.

Lemma get_ref_app : forall t pre p m, follows t pre p m -> wf_tree t -> forall rest,
  get_ref t (pre ++ rest)%list = match get_ref m rest with Ok (q, n) => Ok ((p ++ q)%list, n) | Err e => Err e end.
Proof.
  induction 1; intros Hwf rest; simpl.
  - destruct (get_ref t rest) as [[q n]|]; reflexivity.
  - rewrite H, H0. simpl.
    destruct (wf_node_ok _ Hwf) as [_ [Hk _]]. destruct (Hk H0) as [Hnd _].
    rewrite (find_key_unique _ _ _ _ 0%nat Hnd H1 H2). simpl.
    rewrite IHfollows; eauto using wf_child.
    destruct (get_ref n rest) as [[q n']|]; reflexivity.
  - rewrite H, H0. simpl. rewrite H1. rewrite (list_index_nat _ _ _ H2).
    rewrite IHfollows; eauto using wf_child.
    destruct (get_ref n rest) as [[q n']|]; reflexivity.
Qed.

Lemma follows_wf : forall t ids p m, follows t ids p m -> wf_tree t -> wf_tree m.
Proof. induction 1; intros; eauto using wf_child. Qed.

(* error classes *)
Lemma err_childless : forall t pre p m id rest, wf_tree t -> follows t pre p m ->
  is_namespace (t_cls m) = false -> get_ref t (pre ++ id :: rest)%list = Err TypeError.
Proof.
  intros. rewrite (get_ref_app _ _ _ _ H0 H). simpl. rewrite H1. reflexivity.
Qed.

Lemma err_nonnumeric : forall t pre p m id rest, wf_tree t -> follows t pre p m ->
  is_list (t_cls m) = true -> py_int id = None -> get_ref t (pre ++ id :: rest)%list = Err ValueError.
Proof.
  intros. rewrite (get_ref_app _ _ _ _ H0 H). simpl.
  rewrite (list_is_namespace _ H1), H1. simpl. rewrite H2. reflexivity.
Qed.

Lemma err_dangling : forall t pre p m id rest, wf_tree t -> follows t pre p m ->
  is_namespace (t_cls m) = true ->
  (if is_list (t_cls m)
   then exists z, py_int id = Some z /\ (z < 0 \/ Z.of_nat (List.length (t_ch m)) <= z)%Z
   else forall c, In c (t_ch m) -> t_key c <> Some id) ->
  get_ref t (pre ++ id :: rest)%list = Err KeyError.
Proof.
  intros t pre p m id rest Hwf Hf Hns Hd. rewrite (get_ref_app _ _ _ _ Hf Hwf). simpl. rewrite Hns. simpl.
  destruct (is_list (t_cls m)).
  - destruct Hd as [z [-> Hz]]. rewrite (list_index_none _ _ Hz). reflexivity.
  - rewrite (find_key_none _ _ _ Hd). reflexivity.
Qed.

Lemma get_ref_errors : forall ids t e, get_ref t ids = Err e -> e = KeyError \/ e = TypeError \/ e = ValueError.
Proof.
  induction ids as [|id r IH]; intros t e H; simpl in H; [discriminate|].
  destruct (is_namespace (t_cls t)); simpl in H; [|injection H as <-; auto].
  destruct (is_list (t_cls t)).
  - destruct (py_int id); [|injection H as <-; auto].
    destruct (list_index (t_ch t) z) as [[i c]|]; [|injection H as <-; auto].
    destruct (get_ref c r) as [[q m]|] eqn:Er; [discriminate|]. injection H as <-. eauto.
  - destruct (find_key id (t_ch t) 0) as [[i c]|]; [|injection H as <-; auto].
    destruct (get_ref c r) as [[q m]|] eqn:Er; [discriminate|]. injection H as <-. eauto.
Qed.

(* ------------------------------------------------------------------ from_referable *)

Lemma key_chain_exists : forall p t n, wf_tree t -> addr t p = Some n ->
  exists kc, key_chain t p = Some kc /\ get_ref t (map snd kc) = Ok (p, n).
Proof.
  induction p as [|i r IH]; intros t n Hwf Ha; simpl in Ha.
  - injection Ha as <-. exists []. split; reflexivity.
  - destruct (nth_error (t_ch t) i) as [c|] eqn:Hn; [|discriminate].
    destruct (IH c n (wf_child _ _ _ Hwf Hn) Ha) as [kc [Hkc Hg]].
    destruct (wf_node_ok _ Hwf) as [Hns [Hk _]].
    assert (Hne : t_ch t <> []) by (intros E; rewrite E in Hn; destruct i; discriminate).
    specialize (Hns Hne). simpl. rewrite Hn, Hkc.
    destruct (is_list (t_cls t)) eqn:El.
    + eexists. split; [reflexivity|]. simpl. rewrite Hns, El. simpl.
      rewrite py_int_index_str, (list_index_nat _ _ _ Hn), Hg. reflexivity.
    + destruct (Hk eq_refl) as [Hnd Hnone].
      destruct (t_key c) as [s|] eqn:Ek.
      * eexists. split; [reflexivity|]. simpl. rewrite Hns, El. simpl.
        rewrite (find_key_unique _ _ _ _ 0%nat Hnd Hn Ek). simpl. rewrite Hg. reflexivity.
      * exfalso. apply Hnone. rewrite <- Ek. eapply child_in_keys; eauto.
Qed.

Lemma spine_from : forall p t par acc ks kc, wf_tree t -> key_chain t p = Some kc ->
  exists fs, spine t par p acc = Some fs /\
             from_ref_up fs ks = from_ref_up ((t, par) :: acc) (kc ++ ks)%list.
Proof.
  induction p as [|i r IH]; intros t par acc ks kc Hwf Hkc; simpl in Hkc.
  - injection Hkc as <-. eexists. split; reflexivity.
  - destruct (nth_error (t_ch t) i) as [c|] eqn:Hn; [|discriminate].
    destruct (if is_list (t_cls t) then Some (index_str i) else t_key c) as [v|] eqn:Ev; [|discriminate].
    destruct (key_chain c r) as [kc'|] eqn:Hkc'; [|discriminate]. injection Hkc as <-.
    destruct (IH c (Some (t, i)) ((t, par) :: acc) ks kc' (wf_child _ _ _ Hwf Hn) Hkc') as [fs [Hs Hf]].
    exists fs. simpl. rewrite Hn. split; [exact Hs|]. rewrite Hf.
    destruct (wf_node_ok _ Hwf) as [_ [_ Hid]].
    assert (Hc : is_identifiable (t_cls c) = false) by (apply Hid; eapply nth_error_In; eauto).
    simpl. rewrite Hc.
    destruct (is_list (t_cls t)).
    + injection Ev as <-. reflexivity.
    + rewrite Ev. reflexivity.
Qed.

Lemma key_chain_types : forall p t kc, wf_tree t -> key_chain t p = Some kc ->
  Forall (fun k : key => is_fragment_key_element (fst k) = true /\ is_generic_fragment_key (fst k) = false) kc.
Proof.
  induction p as [|i r IH]; intros t kc Hwf Hkc; simpl in Hkc.
  - injection Hkc as <-. constructor.
  - destruct (nth_error (t_ch t) i) as [c|] eqn:Hn; [|discriminate].
    destruct (if is_list (t_cls t) then Some (index_str i) else t_key c) as [v|]; [|discriminate].
    destruct (key_chain c r) as [kc'|] eqn:Hkc'; [|discriminate]. injection Hkc as <-.
    destruct (wf_node_ok _ Hwf) as [_ [_ Hid]].
    assert (Hc : is_identifiable (t_cls c) = false) by (apply Hid; eapply nth_error_In; eauto).
    constructor.
    + cbn [fst]. destruct (fragment_keytype _ Hc) as [H1 [H2 _]]. split; assumption.
    + apply (IH c kc' (wf_child _ _ _ Hwf Hn) Hkc').
Qed.

Lemma check_pairs_chain : forall p t kc v0, wf_tree t -> key_chain t p = Some kc ->
  check_pairs ((key_type_of (t_cls t), v0) :: kc) = None.
Proof.
  induction p as [|i r IH]; intros t kc v0 Hwf Hkc; simpl in Hkc.
  - injection Hkc as <-. reflexivity.
  - destruct (nth_error (t_ch t) i) as [c|] eqn:Hn; [|discriminate].
    destruct (if is_list (t_cls t) then Some (index_str i) else t_key c) as [v|] eqn:Ev; [|discriminate].
    destruct (key_chain c r) as [kc'|] eqn:Hkc'; [|discriminate]. injection Hkc as <-.
    destruct (wf_node_ok _ Hwf) as [_ [_ Hid]].
    assert (Hc : is_identifiable (t_cls c) = false) by (apply Hid; eapply nth_error_In; eauto).
    destruct (fragment_keytype _ Hc) as [_ [_ Hfr]].
    cbn [check_pairs fst snd]. rewrite Hfr. cbn [andb].
    destruct (keytype_eqb (key_type_of (t_cls t)) KT_SUBMODEL_ELEMENT_LIST) eqn:El.
    + apply list_keytype in El. rewrite El in Ev. injection Ev as <-.
      rewrite isnumeric_index_str. cbn [negb andb]. exact (IH c kc' (index_str i) (wf_child _ _ _ Hwf Hn) Hkc').
    + cbn [andb]. exact (IH c kc' v (wf_child _ _ _ Hwf Hn) Hkc').
Qed.

Lemma existsb_false_forall : forall (A : Type) (f : A -> bool) l, Forall (fun x => f x = false) l -> existsb f l = false.
Proof. induction 1; simpl; auto. rewrite H. auto. Qed.

Lemma in_removelast : forall (A : Type) (l : list A) x, In x (removelast l) -> In x l.
Proof.
  induction l; simpl; auto. intros x H. destruct l; [contradiction|].
  destruct H as [H | H]; auto.
Qed.

Lemma model_ref_check_chain : forall p t kc, wf_tree t -> is_identifiable (t_cls t) = true ->
  key_chain t p = Some kc -> model_ref_check ((key_type_of (t_cls t), t_id t) :: kc) = None.
Proof.
  intros p t kc Hwf Hid Hkc. unfold model_ref_check.
  destruct (identifiable_keytype _ Hid) as [H1 H2]. cbn [fst]. rewrite H1. cbn [negb].
  pose proof (key_chain_types _ _ _ Hwf Hkc) as Hty.
  rewrite existsb_false_forall.
  2:{ eapply Forall_impl; [|exact Hty]. intros a [Ha _]. simpl. rewrite Ha. reflexivity. }
  match goal with |- context [negb ?a && ?b] => assert (E : b = false) end.
  { apply existsb_false_forall. apply Forall_forall. intros x Hx.
    apply in_removelast in Hx. destruct Hx as [<- | Hx]; [exact H2|].
    rewrite Forall_forall in Hty. apply (Hty x Hx). }
  rewrite E, andb_false_r. eapply check_pairs_chain; eauto.
Qed.

Lemma from_ref_up_root : forall t ks, is_identifiable (t_cls t) = true ->
  from_ref_up [(t, None)] ks = Ok ((key_type_of (t_cls t), t_id t) :: ks).
Proof. intros t ks H. simpl. rewrite H. reflexivity. Qed.

Lemma from_referable_ok : forall t p n, wf_tree t -> is_identifiable (t_cls t) = true -> addr t p = Some n ->
  exists kc, key_chain t p = Some kc /\
    from_referable t p = Some (Ok ((key_type_of (t_cls t), t_id t) :: kc, ref_type_of (t_cls n))) /\
    get_ref t (map snd kc) = Ok (p, n).
Proof.
  intros t p n Hwf Hid Ha.
  destruct (key_chain_exists _ _ _ Hwf Ha) as [kc [Hkc Hg]].
  exists kc. split; [exact Hkc|]. split; [|exact Hg].
  destruct (spine_from p t None [] [] kc Hwf Hkc) as [fs [Hs Hf]].
  unfold from_referable. rewrite Hs, Ha, Hf. rewrite app_nil_r.
  rewrite (from_ref_up_root _ _ Hid). rewrite (model_ref_check_chain _ _ _ Hwf Hid Hkc). reflexivity.
Qed.

(* ------------------------------------------------------------------ providers *)

Lemma store_lookup_sound : forall s id k j t, store_lookup s id k = Some (j, t) ->
  exists i, j = (k + i)%nat /\ nth_error s i = Some t /\ t_id t = id /\
            forall i' t', (i' < i)%nat -> nth_error s i' = Some t' -> t_id t' <> id.
Proof.
  induction s; simpl; intros id k j t H; [discriminate|].
  destruct (String.eqb (t_id a) id) eqn:E.
  - injection H as <- <-. exists 0%nat. rewrite Nat.add_0_r. apply String.eqb_eq in E.
    split; [reflexivity|]. split; [reflexivity|]. split; [exact E|]. intros; lia.
  - apply IHs in H. destruct H as [i [-> [Hn [Hid Hbefore]]]]. exists (S i).
    split; [lia|]. split; [exact Hn|]. split; [exact Hid|].
    intros i' t' Hlt Hn'. destruct i'; simpl in Hn'.
    + injection Hn' as <-. apply String.eqb_neq in E. exact E.
    + eapply Hbefore; eauto. lia.
Qed.

Lemma store_lookup_none : forall s id k, store_lookup s id k = None <-> ~ In id (ids_of s).
Proof.
  induction s; simpl; intros id k.
  - split; auto.
  - destruct (String.eqb (t_id a) id) eqn:E.
    + apply String.eqb_eq in E. split; [discriminate|]. intros H. exfalso. apply H. auto.
    + apply String.eqb_neq in E. rewrite IHs. split; intros H; [intros [H1 | H1]; auto | auto].
Qed.

Lemma store_lookup_found : forall s id k i t, NoDup (ids_of s) -> nth_error s i = Some t -> t_id t = id ->
  store_lookup s id k = Some ((k + i)%nat, t).
Proof.
  induction s; intros id k i t Hnd Hn Hid.
  - destruct i; discriminate.
  - simpl in Hnd. inversion Hnd as [|x xs Hnotin Hnd']; subst. destruct i; simpl in Hn.
    + injection Hn as <-. simpl. rewrite String.eqb_refl. rewrite Nat.add_0_r. reflexivity.
    + simpl. destruct (String.eqb (t_id a) (t_id t)) eqn:E.
      * apply String.eqb_eq in E. exfalso. apply Hnotin. rewrite E. unfold ids_of. apply in_map.
        eapply nth_error_In; eauto.
      * rewrite (IHs (t_id t) (S k) i t Hnd' Hn eq_refl). f_equal. f_equal. lia.
Qed.

Definition not_shadowed (prov : list store) (si : nat) (id : string) : Prop :=
  forall sj s', (sj < si)%nat -> nth_error prov sj = Some s' -> ~ In id (ids_of s').

Lemma mux_lookup_found : forall prov id k si s ri t,
  nth_error prov si = Some s -> nth_error s ri = Some t -> t_id t = id -> NoDup (ids_of s) ->
  not_shadowed prov si id -> mux_lookup prov id k = Some ((k + si)%nat, ri, t).
Proof.
  induction prov; intros id k si s ri t Hs Hr Hid Hnd Hsh.
  - destruct si; discriminate.
  - destruct si; simpl in Hs.
    + injection Hs as ->. simpl. rewrite (store_lookup_found _ _ 0%nat _ _ Hnd Hr Hid).
      rewrite Nat.add_0_r. reflexivity.
    + simpl. assert (Hn : store_lookup a id 0 = None).
      { apply store_lookup_none. apply (Hsh 0%nat a); [lia | reflexivity]. }
      rewrite Hn. rewrite (IHprov id (S k) si s ri t Hs Hr Hid Hnd).
      * f_equal. f_equal. f_equal. lia.
      * intros sj s' Hlt Hn'. apply (Hsh (S sj) s'); [lia | exact Hn'].
Qed.

Lemma mux_lookup_sound : forall prov id k si ri t, mux_lookup prov id k = Some (si, ri, t) ->
  exists j s, si = (k + j)%nat /\ nth_error prov j = Some s /\ nth_error s ri = Some t /\ t_id t = id /\
              not_shadowed prov j id /\
              (forall i' t', (i' < ri)%nat -> nth_error s i' = Some t' -> t_id t' <> id).
Proof.
  induction prov; simpl; intros id k si ri t H; [discriminate|].
  destruct (store_lookup a id 0) as [[ri' t']|] eqn:E.
  - injection H as <- <- <-. apply store_lookup_sound in E. destruct E as [i [-> [Hn [Hid Hb]]]].
    exists 0%nat, a. rewrite Nat.add_0_r. simpl.
    split; [reflexivity|]. split; [reflexivity|]. split; [exact Hn|]. split; [exact Hid|].
    split; [intros sj s' Hlt; lia | exact Hb].
  - apply IHprov in H. destruct H as [j [s [-> [Hn [Hr [Hid [Hsh Hb]]]]]]].
    exists (S j), s. simpl.
    split; [lia|]. split; [exact Hn|]. split; [exact Hr|]. split; [exact Hid|]. split; [|exact Hb].
    intros sj s' Hlt Hn'. destruct sj; simpl in Hn'.
    + injection Hn' as <-. apply store_lookup_none in E. exact E.
    + eapply Hsh; eauto. lia.
Qed.

Lemma mux_lookup_none : forall prov id k, (forall s, In s prov -> ~ In id (ids_of s)) -> mux_lookup prov id k = None.
Proof.
  induction prov; simpl; intros id k H; auto.
  assert (E : store_lookup a id 0 = None) by (apply store_lookup_none; apply H; auto).
  rewrite E. apply IHprov. intros; apply H; auto.
Qed.

(* ------------------------------------------------------------------ the property theorems *)

Lemma resolve_from : forall prov si s ri t p n,
  nth_error prov si = Some s -> nth_error s ri = Some t -> NoDup (ids_of s) -> not_shadowed prov si (t_id t) ->
  is_identifiable (t_cls t) = true -> wf_tree t -> addr t p = Some n ->
  exists ks, from_referable t p = Some (Ok (ks, ref_type_of (t_cls n))) /\
             resolve prov ks (ref_type_of (t_cls n)) = Ok (si, ri, p).
Proof.
  intros prov si s ri t p n Hs Hr Hnd Hsh Hid Hwf Ha.
  destruct (from_referable_ok _ _ _ Hwf Hid Ha) as [kc [Hkc [Hfr Hg]]].
  eexists. split; [exact Hfr|].
  unfold resolve. destruct (identifiable_keytype _ Hid) as [H1 _]. rewrite H1. cbn [negb].
  rewrite (mux_lookup_found prov (t_id t) 0%nat si s ri t Hs Hr eq_refl Hnd Hsh). cbn [Nat.add].
  rewrite Hg. rewrite own_ref_type. reflexivity.
Qed.

Lemma path_from : forall t p n, wf_tree t -> addr t p = Some n ->
  exists ids, id_short_path t p = Some ids /\ get_ref t ids = Ok (p, n).
Proof.
  intros t p n Hwf Ha. destruct (key_chain_exists _ _ _ Hwf Ha) as [kc [Hkc Hg]].
  exists (map snd kc). unfold id_short_path. rewrite Hkc. auto.
Qed.

Lemma constraints_from : forall t p n, wf_tree t -> is_identifiable (t_cls t) = true -> addr t p = Some n ->
  exists ks ty, from_referable t p = Some (Ok (ks, ty)) /\ model_ref_check ks = None /\
                List.length ks = S (List.length p) /\ hd_error ks = Some (key_type_of (t_cls t), t_id t) /\
                id_short_path t p = Some (map snd (tl ks)).
Proof.
  intros t p n Hwf Hid Ha.
  destruct (from_referable_ok _ _ _ Hwf Hid Ha) as [kc [Hkc [Hfr Hg]]].
  do 2 eexists. split; [exact Hfr|]. split; [eapply model_ref_check_chain; eauto|].
  split; [|split; [reflexivity|]].
  - simpl. f_equal. apply get_ref_sound in Hg. clear - Hkc.
    revert t kc Hkc. induction p as [|i r IH]; intros t kc Hkc; simpl in Hkc.
    + injection Hkc as <-. reflexivity.
    + destruct (nth_error (t_ch t) i) as [c|]; [|discriminate].
      destruct (if is_list (t_cls t) then Some (index_str i) else t_key c); [|discriminate].
      destruct (key_chain c r) as [kc'|] eqn:E; [|discriminate]. injection Hkc as <-. simpl. f_equal. eauto.
  - simpl. unfold id_short_path. rewrite Hkc. reflexivity.
Qed.

Lemma resolve_sound : forall prov ks ty si ri p, resolve prov ks ty = Ok (si, ri, p) ->
  exists kt id rest s t n,
    ks = (kt, id) :: rest /\ nth_error prov si = Some s /\ nth_error s ri = Some t /\ t_id t = id /\
    not_shadowed prov si id /\ (forall i' t', (i' < ri)%nat -> nth_error s i' = Some t' -> t_id t' <> id) /\
    follows t (map snd rest) p n /\ addr t p = Some n /\ instance_of (t_cls n) ty = true.
Proof.
  intros prov ks ty si ri p H. unfold resolve in H.
  destruct ks as [|[kt id] rest]; [discriminate|].
  destruct (is_aas_identifiable kt); cbn [negb] in H; [|discriminate].
  destruct (mux_lookup prov id 0) as [[[si' ri'] t]|] eqn:Em; [|discriminate].
  destruct (get_ref t (map snd rest)) as [[q n]|] eqn:Eg; [|discriminate].
  destruct (instance_of (t_cls n) ty) eqn:Ei; [|discriminate].
  injection H as <- <- <-.
  apply mux_lookup_sound in Em. destruct Em as [j [s [-> [Hs [Hr [Hid [Hsh Hb]]]]]]]. cbn [Nat.add] in *.
  apply get_ref_sound in Eg. destruct Eg as [Hf Ha].
  exists kt, id, rest, s, t, n.
  split; [reflexivity|]. split; [exact Hs|]. split; [exact Hr|]. split; [exact Hid|]. split; [exact Hsh|].
  split; [exact Hb|]. split; [exact Hf|]. split; [exact Ha|exact Ei].
Qed.

Lemma resolve_errors : forall prov ks ty e, model_ref_check ks = None -> resolve prov ks ty = Err e ->
  e = KeyError \/ e = TypeError \/ e = ValueError \/ e = UnexpectedTypeError.
Proof.
  intros prov ks ty e Hc H. unfold resolve in H. unfold model_ref_check in Hc.
  destruct ks as [|[kt id] rest]; [discriminate|]. cbn [fst] in Hc.
  destruct (is_aas_identifiable kt); cbn [negb] in *; [|discriminate].
  destruct (mux_lookup prov id 0) as [[[si' ri'] t]|]; [|injection H as <-; auto].
  destruct (get_ref t (map snd rest)) as [[q n]|] eqn:Eg.
  - destruct (instance_of (t_cls n) ty); [discriminate|]. injection H as <-. auto.
  - injection H as <-. apply get_ref_errors in Eg. tauto.
Qed.

Lemma resolve_unknown_id : forall prov kt id rest ty,
  is_aas_identifiable kt = true -> (forall s, In s prov -> ~ In id (ids_of s)) ->
  resolve prov ((kt, id) :: rest) ty = Err KeyError.
Proof.
  intros. unfold resolve. rewrite H. cbn [negb]. rewrite mux_lookup_none; auto.
Qed.

(* errors of resolve for a chain that starts at a held identifiable *)
Lemma resolve_get_ref_err : forall prov kt id rest ty si ri t e,
  is_aas_identifiable kt = true -> mux_lookup prov id 0 = Some (si, ri, t) ->
  get_ref t (map snd rest) = Err e -> resolve prov ((kt, id) :: rest) ty = Err e.
Proof. intros. unfold resolve. rewrite H. cbn [negb]. rewrite H0, H1. reflexivity. Qed.

(* ------------------------------------------------------------------ value objects *)

Section ValueObjects.
  (* An object is read through its attributes; V is the type of attribute values up to Python's ==
     (component values are assumed to satisfy eq => hash themselves), H the hash codes; `hash` is
     Python's hash of a tuple, any function of the component values. *)
  Variables V H : Type.
  Variable veqb : V -> V -> bool.
  Hypothesis veqb_eq : forall a b, veqb a b = true -> a = b.
  Variable hash : list V -> H.

  Definition obj := string -> V.
  Definition obj_eq (c : vclass) (a b : obj) : bool :=
    (if eq_same_class c then veqb (a "__class__") (b "__class__") else true)
    && forallb (fun f => veqb (a f) (b f)) (eq_fields c).
  Definition obj_hash (c : vclass) (a : obj) : H := hash (map a (hash_fields c)).

  Lemma hash_fields_compared : forall c f, In f (hash_fields c) ->
    In f (eq_fields c) \/ (eq_same_class c = true /\ f = "__class__").
  Proof.
    intros c f Hf. destruct c; simpl in *; repeat (destruct Hf as [<- | Hf]; [tauto|]); contradiction.
  Qed.

  Lemma eq_implies_hash : forall c a b, obj_eq c a b = true -> obj_hash c a = obj_hash c b.
  Proof.
    intros c a b He. unfold obj_hash. f_equal. apply map_ext_in. intros f Hf.
    unfold obj_eq in He. apply andb_true_iff in He. destruct He as [Hc Hfs].
    destruct (hash_fields_compared c f Hf) as [Hin | [Hs ->]].
    - rewrite forallb_forall in Hfs. apply veqb_eq. apply Hfs. exact Hin.
    - rewrite Hs in Hc. apply veqb_eq. exact Hc.
  Qed.
End ValueObjects.

Lemma setattr_closed :
  setattr_allowed V_Key = [] /\ setattr_allowed V_Reference = [] /\
  forall name only_none, In (name, only_none) (setattr_allowed V_SpecificAssetId) ->
    (exists r, name = String "_"%char r) \/ (name = "parent" /\ only_none = true).
Proof.
  split; [reflexivity|]. split; [reflexivity|].
  intros name only_none Hin. simpl in Hin.
  repeat (destruct Hin as [Hin | Hin]; [injection Hin as <- <-; eauto|]). contradiction.
Qed.

(* ------------------------------------------------------------------ decidable well-formedness *)

Lemma okey_eqb_eq : forall a b, okey_eqb a b = true <-> a = b.
Proof.
  destruct a, b; simpl; try (split; congruence).
  rewrite String.eqb_eq. split; congruence.
Qed.

Lemma existsb_okey : forall x l, existsb (okey_eqb x) l = false -> ~ In x l.
Proof.
  induction l; simpl; intros H; auto. apply orb_false_iff in H. destruct H as [H1 H2].
  intros [-> | Hin]; [|apply IHl; auto].
  assert (okey_eqb x x = true) by (apply okey_eqb_eq; reflexivity). congruence.
Qed.

Lemma nodupb_sound : forall l, nodupb l = true -> NoDup l.
Proof.
  induction l; simpl; intros H; constructor; apply andb_true_iff in H; destruct H as [H1 H2].
  - apply existsb_okey. apply negb_true_iff. exact H1.
  - auto.
Qed.

Lemma nodup_strb_sound : forall l, nodup_strb l = true -> NoDup l.
Proof.
  induction l; simpl; intros H; constructor; apply andb_true_iff in H; destruct H as [H1 H2]; auto.
  apply negb_true_iff in H1. intros Hin.
  assert (existsb (String.eqb a) l = true) by (apply existsb_exists; exists a; split; auto; apply String.eqb_refl).
  congruence.
Qed.

Lemma node_okb_sound : forall t, node_okb t = true -> node_ok t.
Proof.
  intros t H. unfold node_okb in H. apply andb_true_iff in H. destruct H as [H H3].
  apply andb_true_iff in H. destruct H as [H1 H2]. split; [|split].
  - intros Hne. destruct (t_ch t); [congruence | exact H1].
  - intros Hl. rewrite Hl in H2. simpl in H2. apply andb_true_iff in H2. destruct H2 as [Ha Hb].
    split; [apply nodupb_sound; exact Ha|]. apply existsb_okey. apply negb_true_iff. exact Hb.
  - intros c Hin. rewrite forallb_forall in H3. apply negb_true_iff. apply H3. exact Hin.
Qed.

Fixpoint wf_treeb_sound (t : tree) : wf_treeb t = true -> wf_tree t.
Proof.
  destruct t as [c i k s ch]. simpl. intros H. apply andb_true_iff in H. destruct H as [Hn Hall]. split.
  - apply node_okb_sound. exact Hn.
  - clear Hn. revert Hall. induction ch as [|x r IHr]; simpl; intros Hall; [exact I|].
    apply andb_true_iff in Hall. destruct Hall as [Hx Hr].
    split; [apply wf_treeb_sound; exact Hx | apply IHr; exact Hr].
Qed.

(* ------------------------------------------------------------------ well-formedness survives mutations *)

Lemma wf_all_forall : forall ch,
  (fix all (l : list tree) : Prop := match l with [] => True | x :: r => wf_tree x /\ all r end) ch <-> Forall wf_tree ch.
Proof.
  induction ch; simpl; split; intros H; auto.
  - destruct H as [H1 H2]. constructor; [exact H1 | apply IHch; exact H2].
  - inversion H; subst. split; [assumption | apply IHch; assumption].
Qed.

Lemma wf_tree_iff : forall t, wf_tree t <-> node_ok t /\ Forall wf_tree (t_ch t).
Proof. destruct t as [c i k s ch]. simpl. rewrite wf_all_forall. tauto. Qed.

Lemma set_ch_fields : forall t ch, t_cls (set_ch t ch) = t_cls t /\ t_key (set_ch t ch) = t_key t /\ t_ch (set_ch t ch) = ch.
Proof. destruct t; simpl; auto. Qed.

Lemma upd_nth_map : forall (A B : Type) (h : A -> B) (g : A -> A) l i,
  (forall x, nth_error l i = Some x -> h (g x) = h x) -> map h (upd_nth i g l) = map h l.
Proof.
  induction l as [|x r IH]; intros i H; [destruct i; reflexivity|].
  destruct i; simpl.
  - rewrite (H x eq_refl). reflexivity.
  - rewrite IH; auto.
Qed.

Lemma upd_nth_forall : forall (A : Type) (P : A -> Prop) (g : A -> A) l i,
  Forall P l -> (forall x, nth_error l i = Some x -> P (g x)) -> Forall P (upd_nth i g l).
Proof.
  induction l as [|x r IH]; intros i HF H; [destruct i; constructor|].
  inversion HF; subst. destruct i; simpl; constructor; auto.
Qed.

Lemma upd_nth_nth : forall (A : Type) (g : A -> A) l i x, nth_error l i = Some x ->
  nth_error (upd_nth i g l) i = Some (g x).
Proof.
  induction l as [|y r IH]; intros i x H; destruct i; simpl in *; try discriminate.
  - injection H as <-. reflexivity.
  - auto.
Qed.

Lemma replace_at_top : forall p t n n', addr t p = Some n -> t_cls n' = t_cls n -> t_key n' = t_key n ->
  t_cls (replace_at t p n') = t_cls t /\ t_key (replace_at t p n') = t_key t.
Proof.
  destruct p as [|i r]; intros t n n' Ha Hc Hk; simpl in *.
  - injection Ha as <-. auto.
  - destruct (set_ch_fields t (upd_nth i (fun x => replace_at x r n') (t_ch t))) as [H1 [H2 _]]. auto.
Qed.

Lemma wf_replace : forall p t n n', wf_tree t -> addr t p = Some n -> wf_tree n' ->
  t_cls n' = t_cls n -> t_key n' = t_key n ->
  wf_tree (replace_at t p n') /\ addr (replace_at t p n') p = Some n'.
Proof.
  induction p as [|i r IH]; intros t n n' Hwf Ha Hn' Hc Hk; simpl in Ha.
  - simpl. auto.
  - destruct (nth_error (t_ch t) i) as [c|] eqn:Hn; [|discriminate].
    destruct (IH c n n' (wf_child _ _ _ Hwf Hn) Ha Hn' Hc Hk) as [IHwf IHaddr].
    destruct (replace_at_top r c n n' Ha Hc Hk) as [Tc Tk].
    set (g := fun x => replace_at x r n'). simpl. fold g.
    destruct (set_ch_fields t (upd_nth i g (t_ch t))) as [F1 [F2 F3]].
    split.
    + apply wf_tree_iff. rewrite F3. apply wf_tree_iff in Hwf. destruct Hwf as [[N1 [N2 N3]] HF]. split.
      * unfold node_ok. rewrite F1, F3.
        assert (Hkeys : keys_of (upd_nth i g (t_ch t)) = keys_of (t_ch t)).
        { unfold keys_of. apply upd_nth_map. intros x Hx. rewrite Hn in Hx. injection Hx as <-. exact Tk. }
        rewrite Hkeys. split; [|split].
        -- intros _. apply N1. intros E. rewrite E in Hn. destruct i; discriminate.
        -- exact N2.
        -- intros c' Hin.
           assert (HFid : Forall (fun x => is_identifiable (t_cls x) = false) (upd_nth i g (t_ch t))).
           { apply upd_nth_forall; [apply Forall_forall; exact N3|].
             intros x Hx. rewrite Hn in Hx. injection Hx as <-. unfold g. rewrite Tc. apply N3. eapply nth_error_In; eauto. }
           rewrite Forall_forall in HFid. apply HFid. exact Hin.
      * apply upd_nth_forall; [exact HF|]. intros x Hx. rewrite Hn in Hx. injection Hx as <-. exact IHwf.
    + rewrite F3, (upd_nth_nth _ g _ _ _ Hn). exact IHaddr.
Qed.
