(* C01 main lemmas: the invariant holds initially, after every call of every history, implies
   the four public-API statements of the property; atomicity of single-element calls. *)
From Coq Require Import List ZArith Bool String Ascii Arith Lia.
From Basyx Require Import model.Namespace model.NamespaceObs proofs.NamespaceProofs proofs.NamespacePrim
  proofs.NamespaceOps proofs.NamespaceOps2 proofs.NamespaceOps3 proofs.NamespaceOps4.
Import ListNotations.
Local Open Scope nat_scope.

Section WithCfg.
Variable c : cfg.

Lemma good_at_set : forall s r f b, (forall i, good c s (f i) b) -> Inv c s -> good c s (at_set s r f) b.
Proof.
  intros s r f b H I. unfold at_set. destruct (nth_error (owner_sets s (fst r)) (snd r)); auto.
  apply good_same; auto. discriminate.
Qed.

(* every call: invariant afterwards, no internal error *)
Lemma step_good : forall s p, Inv c s -> good c s (step c s p) false.
Proof.
  intros s p I. destruct p; simpl.
  - apply good_at_set; auto. intro. apply good_weaken. apply good_add; auto.
  - apply good_at_set; auto. intro. apply good_weaken. apply good_remove; auto.
  - apply good_at_set; auto. intro. apply good_weaken. apply good_discard; auto.
  - apply good_at_set; auto. intro. apply good_weaken. apply good_pop; auto.
  - apply good_at_set; auto. intro. apply good_weaken. apply good_pop_at; auto.
  - apply good_at_set; auto. intro. apply good_clear; auto.
  - apply good_at_set; auto. intro. apply good_weaken. apply good_insert; auto.
  - apply good_at_set; auto. intro. apply good_weaken. apply good_setitem; auto.
  - apply good_at_set; auto. intro. apply good_setslice; auto.
  - apply good_at_set; auto. intro. apply good_weaken. apply good_delitem; auto.
  - apply good_at_set; auto. intro. apply good_weaken. apply good_delslice; auto.
  - apply good_construct; auto.
  - apply good_at_set; auto. intro. apply good_set_value; auto.
  - apply good_at_set; auto. intro. apply good_set_extend; auto.
  - apply good_rename; auto.
  - apply good_set_semantic_id; auto.
  - apply good_weaken. apply good_owner_add; auto.
  - apply good_weaken. apply good_owner_remove_in; auto.
Qed.

Lemma step_inv : forall s p, Inv c s -> Inv c (fst (step c s p)).
Proof. intros s p I. apply (step_good s p I). Qed.

Lemma step_no_internal : forall s p, Inv c s -> snd (step c s p) <> Err EInternal.
Proof. intros s p I. apply (step_good s p I). Qed.

(* single-element calls that raise change nothing *)
Lemma step_atomic : forall s p, Inv c s -> hooks_wf c s -> single_element_op p = true ->
  is_ok (snd (step c s p)) = false -> pub_eq s (fst (step c s p)).
Proof.
  intros s p I HW S E. destruct p; simpl in S; try discriminate; simpl in *.
  - refine (proj2 (proj2 (good_at_set s r _ true _ I)) eq_refl E). intro. apply good_add; auto.
  - refine (proj2 (proj2 (good_at_set s r _ true _ I)) eq_refl E). intro. apply good_remove; auto.
  - refine (proj2 (proj2 (good_at_set s r _ true _ I)) eq_refl E). intro. apply good_discard; auto.
  - refine (proj2 (proj2 (good_at_set s r _ true _ I)) eq_refl E). intro. apply good_pop; auto.
  - refine (proj2 (proj2 (good_at_set s r _ true _ I)) eq_refl E). intro. apply good_pop_at; auto.
  - refine (proj2 (proj2 (good_at_set s r _ true _ I)) eq_refl E). intro. apply good_insert; auto.
  - refine (proj2 (proj2 (good_at_set s r _ true _ I)) eq_refl E). intro. apply good_setitem; auto.
  - refine (proj2 (proj2 (good_at_set s r _ true _ I)) eq_refl E). intro. apply good_delitem; auto.
  - destruct (rename c s e (option_map KName k)) as [s' o] eqn:R. simpl in *.
    destruct o as [|v|x]; try discriminate. eapply rename_atomic; eauto.
  - apply (proj2 (proj2 (good_owner_add c s o e I)) eq_refl E).
  - apply (proj2 (proj2 (good_owner_remove_in c _ s (KName k) I)) eq_refl E).
Qed.

(* ---- histories ----------------------------------------------------------------- *)

Definition pool_ok (pool : nat -> elem) : Prop :=
  forall e, e_parent (pool e) = None /\ forall n, e_key (pool e) <> Some (KGen n).

Lemma Inv_init : forall pool, pool_ok pool -> Inv c (init pool).
Proof.
  intros pool P. split.
  - constructor; simpl.
    + intros i st N. destruct i; discriminate.
    + intros i st k e N. destruct i; discriminate.
    + intros i j sti stj k N. destruct i; discriminate.
    + intros e o H. destruct (P e) as [X _]. congruence.
    + intros e n H. destruct (P e) as [_ X]. exfalso. apply (X n H).
  - intros i st N. simpl in N. destruct i; discriminate.
Qed.

Lemma Inv_fold : forall ops s, Inv c s -> Inv c (fold_left (fun s p => fst (step c s p)) ops s).
Proof.
  induction ops as [|p r IH]; intros s I; simpl; auto. apply IH. apply step_inv. exact I.
Qed.
Lemma Inv_run : forall pool ops, pool_ok pool -> Inv c (run c pool ops).
Proof. intros. unfold run. apply Inv_fold. apply Inv_init. assumption. Qed.

(* ---- the statements of the property, in terms of the public views ---------------- *)

Lemma iter_values : forall s i st e, Inv c s -> nth_error (sets s) i = Some st ->
  (In e (iter_set st) <-> In e (values st)).
Proof.
  intros s i st e [B O] N. unfold iter_set. assert (OK := O i st N). unfold ord_ok in OK.
  destruct (s_order st) as [o|]; [|tauto]. apply OK.
Qed.

Lemma owner_lookup_hit : forall s idxs i st k e,
  nth_error (sets s) i = Some st -> In i idxs -> dget k (s_backend st) = Some e ->
  (forall j stj, In j idxs -> j <> i -> nth_error (sets s) j = Some stj -> dget k (s_backend stj) = None) ->
  (forall kk, norm c kk = k -> owner_lookup c s idxs kk = Some e).
Proof.
  induction idxs as [|j r IH]; intros i st k e N HI G OTH kk NK; [contradiction|]. simpl.
  destruct (Nat.eq_dec j i) as [->|D].
  - rewrite N, NK, G. reflexivity.
  - destruct HI as [X|X]; [contradiction|].
    destruct (nth_error (sets s) j) as [stj|] eqn:Nj.
    + rewrite NK. rewrite (OTH j stj (or_introl eq_refl) D Nj).
      apply (IH i st k e); auto. intros j' stj' Y. apply OTH. right. exact Y.
    + apply (IH i st k e); auto. intros j' stj' Y. apply OTH. right. exact Y.
Qed.

Record Public (s : state) : Prop := mkPublic {
  (* identifying attributes are unique across the namespace (and never None for a child) *)
  p_unique : forall i j sti stj e e' k k',
      nth_error (sets s) i = Some sti -> nth_error (sets s) j = Some stj -> s_owner sti = s_owner stj ->
      In e (iter_set sti) -> In e' (iter_set stj) ->
      e_key (elems s e) = Some k -> e_key (elems s e') = Some k' -> norm c k = norm c k' ->
      e = e' /\ i = j;
  (* the parent link names the namespace exactly when the namespace contains the child *)
  p_parent : forall e o, e_parent (elems s e) = Some o <->
      exists i st, nth_error (sets s) i = Some st /\ s_owner st = o /\ In e (iter_set st);
  (* lookup by identifying attribute, on the collection and on the namespace, returns the child *)
  p_lookup : forall i st e, nth_error (sets s) i = Some st -> In e (iter_set st) ->
      exists k, e_key (elems s e) = Some k /\ dget (norm c k) (s_backend st) = Some e /\
                owner_lookup c s (owner_sets s (s_owner st)) k = Some e;
  (* ... and whatever a lookup returns is a contained child carrying the requested attribute *)
  p_lookup_only : forall i st kq e, nth_error (sets s) i = Some st -> dget kq (s_backend st) = Some e ->
      In e (iter_set st) /\ exists k, e_key (elems s e) = Some k /\ norm c k = kq;
  (* len(), iteration, membership and (for ordered collections) the positional view agree *)
  p_views : forall i st, nth_error (sets s) i = Some st ->
      List.length (iter_set st) = List.length (s_backend st) /\ NoDup (iter_set st) /\
      (forall e, contains c s i e = true <-> In e (iter_set st)) /\
      (forall o p e, s_order st = Some o -> nth_error o p = Some e -> contains c s i e = true)
}.

Lemma Inv_public : forall s, Inv c s -> Public s.
Proof.
  intros s I. assert (I' := I). destruct I' as [B O]. constructor.
  - intros i j sti stj e e' k k' Ni Nj OW Hi Hj K K' NK.
    apply (iter_values s i sti e I Ni) in Hi. apply (iter_values s j stj e' I Nj) in Hj.
    destruct (mem_entry c s i sti e B Ni Hi) as [r [Kr [Er _]]].
    destruct (mem_entry c s j stj e' B Nj Hj) as [r' [Kr' [Er' _]]].
    assert (r = k) by congruence. assert (r' = k') by congruence. subst r r'.
    assert (i = j).
    { apply (b_uniq c s B i j sti stj (norm c k)); auto.
      - apply (in_map fst) in Er. exact Er.
      - rewrite NK. apply (in_map fst) in Er'. exact Er'. }
    subst j. split; auto. rewrite Ni in Nj. inversion Nj; subst stj.
    assert (G1 := in_dget _ _ _ (b_nodup c s B i sti Ni) Er).
    assert (G2 := in_dget _ _ _ (b_nodup c s B i sti Ni) Er'). rewrite NK in G1. congruence.
  - intros e o. split.
    + intro P. destruct (b_parent c s B e o P) as [i [st [N [OW H]]]]. exists i, st.
      split; auto. split; auto. apply (iter_values s i st e I N). exact H.
    + intros [i [st [N [OW H]]]]. apply (iter_values s i st e I N) in H.
      destruct (mem_entry c s i st e B N H) as [r [_ [_ P]]]. congruence.
  - intros i st e N H. apply (iter_values s i st e I N) in H.
    destruct (mem_entry c s i st e B N H) as [r [Kr [Er _]]]. exists r. split; auto.
    assert (G := in_dget _ _ _ (b_nodup c s B i st N) Er). split; auto.
    apply (owner_lookup_hit s _ i st (norm c r) e N); auto.
    + apply owner_sets_in. eauto.
    + intros j stj HJ D Nj. apply owner_sets_in in HJ. destruct HJ as [stj' [Nj' OWj]].
      assert (stj' = stj) by congruence. subst stj'.
      apply dget_none. intro X. apply D. apply (b_uniq c s B j i stj st (norm c r)); auto.
      apply (in_map fst) in Er. exact Er.
  - intros i st kq e N G. apply dget_in in G.
    destruct (b_entry c s B i st kq e N G) as [r [Kr [Er _]]]. split.
    + apply (iter_values s i st e I N). apply in_values. eauto.
    + exists r. auto.
  - intros i st N.
    assert (NV := values_nodup c s i st B N).
    assert (ND : NoDup (iter_set st)).
    { unfold iter_set. assert (OK := O i st N). unfold ord_ok in OK. destruct (s_order st); [apply OK|exact NV]. }
    split; [|split; [exact ND|split]].
    + assert (L : List.length (values st) = List.length (s_backend st)) by (unfold values; apply map_length).
      rewrite <- L. apply Nat.le_antisymm; apply NoDup_incl_length; auto;
        intros x X; apply (iter_values s i st x I N); exact X.
    + intro e. rewrite (contains_iff c s i st e B N). symmetry. apply (iter_values s i st e I N).
    + intros o p e SO NE. apply (contains_iff c s i st e B N).
      apply (iter_values s i st e I N). unfold iter_set. rewrite SO. eapply nth_error_In; eauto.
Qed.

End WithCfg.
