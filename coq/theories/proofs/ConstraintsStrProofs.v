(* C02 - the generated string checks (gen/Gen_StrConstraints.v) and integer range tests
   (gen/Gen_IntRanges.v) against model/ConstraintsSpec.v. *)
From Coq Require Import List ZArith Bool Lia.
From Basyx Require Import model.ConstraintsBase gen.Gen_StrConstraints gen.Gen_IntRanges
  model.ConstraintsSpec proofs.ConstraintsRegexProofs.
Import ListNotations.
Local Open Scope Z_scope.

(* ---- AASd-130 ------------------------------------------------------------------------------ *)
Lemma aasd130_class : forall c,
  in_cls c [(9, 9); (10, 10); (13, 13); (32, 55295); (57344, 65533); (65536, 1114111)] = true <-> xml_char c.
Proof.
  intro c. rewrite !in_cls_cons, in_cls_nil. unfold xml_char. lia.
Qed.

Theorem aasd130_matches : forall s, matchb AASD130_RE s = true <-> Forall xml_char s.
Proof.
  intro s. rewrite matchb_M. unfold AASD130_RE. rewrite star_cls_M.
  split; intro H; eapply Forall_impl; try exact H; intros c Hc; apply aasd130_class; exact Hc.
Qed.

(* ---- check() ---------------------------------------------------------------------------------- *)
Lemma check_spec : forall s mn mx pat,
  check s mn (Some mx) pat = None <->
  (mn <= len s <= mx /\ Forall xml_char s /\ match pat with Some p => M p s | None => True end).
Proof.
  intros s mn mx pat. unfold check. cbv beta iota delta [seqs when orelse].
  destruct (Z.ltb_spec (len s) mn) as [H1|H1].
  { split; [discriminate|]. intros ((H & _) & _). lia. }
  destruct (Z.gtb_spec (len s) mx) as [H2|H2].
  { split; [discriminate|]. intros ((_ & H) & _). lia. }
  assert (Hp : (match pat with Some p => negb (matchb p s) | None => false end) = false
               <-> match pat with Some p => M p s | None => True end).
  { destruct pat as [p|]; [|tauto]. rewrite negb_false_iff. apply matchb_M. }
  destruct (match pat with Some p => negb (matchb p s) | None => false end).
  { split; [discriminate|]. intros (_ & _ & H). apply Hp in H. discriminate. }
  destruct (matchb AASD130_RE s) eqn:E; cbn [negb].
  - apply aasd130_matches in E. split; [|reflexivity]. intros _. repeat split; try lia; auto. apply Hp. reflexivity.
  - split; [discriminate|]. intros (_ & H & _). apply aasd130_matches in H. congruence.
Qed.

Lemma check_error : forall s mn mx pat e, check s mn mx pat = Some e -> e = EValue.
Proof.
  intros s mn mx pat e. unfold check. cbv beta iota delta [seqs when orelse].
  destruct (len s <? mn); [intro H; inversion H; reflexivity|].
  destruct (match mx with Some m => len s >? m | None => false end); [intro H; inversion H; reflexivity|].
  destruct (match pat with Some p => negb (matchb p s) | None => false end); [intro H; inversion H; reflexivity|].
  destruct (negb (matchb AASD130_RE s)); [intro H; inversion H; reflexivity | discriminate].
Qed.

Lemma check_plain : forall s mn mx, check s mn (Some mx) None = None <-> str_ok mn mx s.
Proof. intros. rewrite check_spec. unfold str_ok. tauto. Qed.

(* ---- version / revision pattern ------------------------------------------------------------ *)
Lemma digit_cls : forall c, in_cls c [(48, 57)] = true <-> digit c.
Proof. intro c. rewrite in_cls_cons, in_cls_nil. unfold digit. lia. Qed.
Lemma digit19_cls : forall c, in_cls c [(49, 57)] = true <-> 49 <= c <= 57.
Proof. intro c. rewrite in_cls_cons, in_cls_nil. lia. Qed.

Lemma version_pattern_M : forall s,
  M (RAlt (RCls [(48, 57)]) (RCat (RCls [(49, 57)]) (RStar (RCls [(48, 57)])))) s <-> version_syntax s.
Proof.
  intro s. unfold version_syntax. split.
  - intro H. inversion H; subst.
    + left. match goal with H' : M (RCls _) _ |- _ => inversion H'; subst end.
      eexists. split; [reflexivity|]. apply digit_cls. assumption.
    + right. match goal with H' : M (RCat _ _) _ |- _ => inversion H'; subst end.
      match goal with H' : M (RCls _) _ |- _ => inversion H'; subst end.
      match goal with H' : M (RStar _) _ |- _ => apply star_cls_M in H' end.
      eexists. eexists. split; [reflexivity|]. split.
      * apply digit19_cls. assumption.
      * eapply Forall_impl; [|eassumption]. intros x0 Hx0. apply digit_cls. exact Hx0.
  - intros [(d & -> & Hd)|(d & r & -> & Hd & Hr)].
    + apply MAltL. constructor. apply digit_cls. exact Hd.
    + apply MAltR. change (d :: r) with ([d] ++ r). constructor.
      * constructor. apply digit19_cls. exact Hd.
      * apply star_cls_M. eapply Forall_impl; [|exact Hr]. intros x0 Hx0. apply digit_cls. exact Hx0.
Qed.

Theorem check_version_type_spec : forall s,
  check_version_type s = None <-> str_ok 1 4 s /\ version_syntax s.
Proof.
  intro s. unfold check_version_type, pattern_check_version_type. rewrite check_spec, version_pattern_M.
  unfold str_ok. tauto.
Qed.
Theorem check_revision_type_spec : forall s,
  check_revision_type s = None <-> str_ok 1 4 s /\ version_syntax s.
Proof.
  intro s. unfold check_revision_type, pattern_check_revision_type. rewrite check_spec, version_pattern_M.
  unfold str_ok. tauto.
Qed.

(* ---- the nine length-only types and the five constrained language string sets ---------- *)
Theorem plain_string_types : forall s,
  (check_content_type s = None <-> str_ok 1 100 s) /\
  (check_identifier s = None <-> str_ok 1 2000 s) /\
  (check_label_type s = None <-> str_ok 1 64 s) /\
  (check_message_topic_type s = None <-> str_ok 1 255 s) /\
  (check_name_type s = None <-> str_ok 1 128 s) /\
  (check_path_type s = None <-> str_ok 1 2000 s) /\
  (check_qualifier_type s = None <-> str_ok 1 128 s) /\
  (check_short_name_type s = None <-> str_ok 1 64 s) /\
  (check_value_type_iec61360 s = None <-> str_ok 1 2000 s).
Proof. intro s. repeat (split; [apply check_plain|]). apply check_plain. Qed.

Theorem lang_string_text_types : forall s,
  (lss_check_MultiLanguageNameType s = None <-> str_ok 1 64 s) /\
  (lss_check_MultiLanguageTextType s = None <-> str_ok 1 1023 s) /\
  (lss_check_DefinitionTypeIEC61360 s = None <-> str_ok 1 1023 s) /\
  (lss_check_PreferredNameTypeIEC61360 s = None <-> str_ok 1 255 s) /\
  (lss_check_ShortNameTypeIEC61360 s = None <-> str_ok 1 18 s).
Proof. intro s. repeat (split; [apply check_plain|]). apply check_plain. Qed.

Theorem string_checks_raise_ValueError : forall s e,
  (check_content_type s = Some e \/ check_identifier s = Some e \/ check_label_type s = Some e \/
   check_message_topic_type s = Some e \/ check_name_type s = Some e \/ check_path_type s = Some e \/
   check_qualifier_type s = Some e \/ check_revision_type s = Some e \/ check_short_name_type s = Some e \/
   check_value_type_iec61360 s = Some e \/ check_version_type s = Some e \/
   lss_check_MultiLanguageNameType s = Some e \/ lss_check_MultiLanguageTextType s = Some e \/
   lss_check_DefinitionTypeIEC61360 s = Some e \/ lss_check_PreferredNameTypeIEC61360 s = Some e \/
   lss_check_ShortNameTypeIEC61360 s = Some e) -> e = EValue.
Proof.
  intros s e H.
  unfold check_content_type, check_identifier, check_label_type, check_message_topic_type, check_qualifier_type,
    check_name_type, check_path_type, check_revision_type, check_short_name_type, check_value_type_iec61360,
    check_version_type, lss_check_MultiLanguageNameType, lss_check_MultiLanguageTextType,
    lss_check_DefinitionTypeIEC61360, lss_check_PreferredNameTypeIEC61360, lss_check_ShortNameTypeIEC61360,
    check_short_name_type in H.
  repeat (destruct H as [H|H]; [eapply check_error; exact H|]). eapply check_error; exact H.
Qed.

(* ---- idShort (AASd-002) -------------------------------------------------------------------- *)
Lemma idshort_cls : forall c, in_cls c [(97, 122); (65, 90); (48, 57); (95, 95)] = true <-> idshort_char c.
Proof. intro c. rewrite !in_cls_cons, in_cls_nil. unfold idshort_char, ascii_letter, digit. lia. Qed.

Lemma ascii_letter_b_spec : forall c, ascii_letter_b c = true <-> ascii_letter c.
Proof. intro c. unfold ascii_letter_b. rewrite !in_cls_cons, in_cls_nil. unfold ascii_letter. lia. Qed.

Lemma idshort_char_xml : forall c, idshort_char c -> xml_char c.
Proof. unfold idshort_char, ascii_letter, digit, xml_char. intros. lia. Qed.

(* [isalpha] stands for Python's str.isalpha on one code point; only its ASCII part is used *)
Theorem validate_id_short_spec : forall (isalpha : Z -> bool),
  (forall c, 0 <= c < 128 -> isalpha c = ascii_letter_b c) ->
  forall s, validate_id_short isalpha s = None <-> (1 <= len s <= 128 /\ idshort_syntax s).
Proof.
  intros isalpha Halpha s. unfold validate_id_short. cbv beta iota delta [seqs when orelse].
  destruct (check_name_type s) as [e|] eqn:Ec.
  { split; [discriminate|]. intros (Hl & c & r & -> & Hc & Hr).
    assert (check_name_type (c :: r) = None); [|congruence].
    apply check_plain. split; [exact Hl|]. constructor.
    - apply idshort_char_xml. left. exact Hc.
    - eapply Forall_impl; [|exact Hr]. apply idshort_char_xml. }
  apply check_plain in Ec. destruct Ec as (Hl & _).
  destruct (matchb IDSHORT_RE s) eqn:Em; cbn [negb].
  2:{ split; [discriminate|]. intros (_ & c & r & -> & Hc & Hr).
      assert (matchb IDSHORT_RE (c :: r) = true); [|congruence].
      apply matchb_M. unfold IDSHORT_RE. apply star_cls_M. constructor.
      - apply idshort_cls. left. exact Hc.
      - eapply Forall_impl; [|exact Hr]. intros x Hx. apply idshort_cls. exact Hx. }
  apply matchb_M in Em. unfold IDSHORT_RE in Em. apply star_cls_M in Em.
  destruct s as [|c r]; unfold with_first.
  { unfold len in Hl. simpl in Hl. lia. }
  inversion Em as [|c' r' Hc Hr]; subst. apply idshort_cls in Hc.
  assert (Hrange : 0 <= c < 128) by (unfold idshort_char, ascii_letter, digit in Hc; lia).
  rewrite (Halpha c Hrange).
  destruct (ascii_letter_b c) eqn:Ea; cbn [negb].
  - apply ascii_letter_b_spec in Ea. split; [|reflexivity]. intros _. split; [exact Hl|].
    exists c, r. split; [reflexivity|]. split; [exact Ea|].
    eapply Forall_impl; [|exact Hr]. intros x Hx. apply idshort_cls. exact Hx.
  - split; [discriminate|]. intros (_ & c' & r' & E & Hc' & _). inversion E; subst.
    apply ascii_letter_b_spec in Hc'. congruence.
Qed.

Theorem validate_id_short_errors : forall isalpha s e, validate_id_short isalpha s = Some e ->
  e = EValue \/ e = EAASd 2 \/ (e = EIndex /\ s = []).
Proof.
  intros isalpha s e. unfold validate_id_short. cbv beta iota delta [seqs when orelse].
  destruct (check_name_type s) eqn:Ec.
  { intro H. inversion H; subst. left. unfold check_name_type in Ec. eapply check_error. exact Ec. }
  destruct (negb (matchb IDSHORT_RE s)); [intro H; inversion H; auto|].
  destruct s; unfold with_first; [intro H; inversion H; auto|].
  destruct (negb (isalpha z)); [intro H; inversion H; auto | discriminate].
Qed.

(* ---- the 13 XSD integer types: bounds as literals (XML Schema Part 2, 3.3.13 - 3.3.25) ----- *)
Ltac zbool :=
  repeat match goal with
  | |- context [?a >? ?b] => destruct (Z.gtb_spec a b)
  | |- context [?a <? ?b] => destruct (Z.ltb_spec a b)
  | |- context [?a >=? ?b] => destruct (Z.geb_spec a b)
  | |- context [?a <=? ?b] => destruct (Z.leb_spec a b)
  end; cbn [negb andb orb];
  (split; [let Hx := fresh in intro Hx; try discriminate Hx; lia
         | let Hx := fresh in intro Hx; try reflexivity; exfalso; lia]).

Theorem int_ranges : forall z,
  (in_range_Integer z = true) /\
  (in_range_Long z = true <-> -9223372036854775808 <= z <= 9223372036854775807) /\
  (in_range_Int z = true <-> -2147483648 <= z <= 2147483647) /\
  (in_range_Short z = true <-> -32768 <= z <= 32767) /\
  (in_range_Byte z = true <-> -128 <= z <= 127) /\
  (in_range_NonPositiveInteger z = true <-> z <= 0) /\
  (in_range_NegativeInteger z = true <-> z <= -1) /\
  (in_range_NonNegativeInteger z = true <-> 0 <= z) /\
  (in_range_PositiveInteger z = true <-> 1 <= z) /\
  (in_range_UnsignedLong z = true <-> 0 <= z <= 18446744073709551615) /\
  (in_range_UnsignedInt z = true <-> 0 <= z <= 4294967295) /\
  (in_range_UnsignedShort z = true <-> 0 <= z <= 65535) /\
  (in_range_UnsignedByte z = true <-> 0 <= z <= 255).
Proof.
  intro z. split; [reflexivity|].
  unfold in_range_Long, in_range_Int, in_range_Short, in_range_Byte, in_range_NonPositiveInteger,
    in_range_NegativeInteger, in_range_NonNegativeInteger, in_range_PositiveInteger, in_range_UnsignedLong,
    in_range_UnsignedInt, in_range_UnsignedShort, in_range_UnsignedByte.
  do 11 (split; [zbool|]). zbool.
Qed.
