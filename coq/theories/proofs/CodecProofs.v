(* compat T M = true  ->  the interpreted reader inverts the interpreted writer on every well-formed value. *)
From Coq Require Import List Bool String Lia.
From Basyx Require Import model.Codec model.CodecSpec.
Import ListNotations.
Local Open Scope string_scope.

(* ---------- induction principle for nested values ---------- *)
Section ValueInd.
  Variable P : value -> Prop.
  Hypothesis HNone : P VNone.
  Hypothesis HStr : forall s, P (VStr s).
  Hypothesis HBool : forall b, P (VBool b).
  Hypothesis HLeaf : forall s, P (VLeaf s).
  Hypothesis HList : forall l, Forall P l -> P (VList l).
  Hypothesis HObj : forall cls fs, Forall (fun p => P (snd p)) fs -> P (VObj cls fs).
  Fixpoint value_ind2 (v : value) : P v :=
    match v with
    | VNone => HNone
    | VStr s => HStr s
    | VBool b => HBool b
    | VLeaf s => HLeaf s
    | VList l => HList l ((fix go (l : list value) : Forall P l :=
                             match l with [] => Forall_nil _ | x :: r => Forall_cons _ (value_ind2 x) (go r) end) l)
    | VObj cls fs => HObj cls fs ((fix go (l : list (string * value)) : Forall (fun p => P (snd p)) l :=
                             match l with [] => Forall_nil _
                                        | x :: r => Forall_cons _ (value_ind2 (snd x)) (go r) end) fs)
    end.
End ValueInd.

(* ---------- string / assoc helpers ---------- *)
Lemma smem_In s l : smem s l = true <-> In s l.
Proof.
  unfold smem. rewrite existsb_exists. split.
  - intros [x [Hi He]]. apply String.eqb_eq in He. now subst.
  - intros Hi. exists s. split; [exact Hi|apply String.eqb_refl].
Qed.
Lemma nodup_str_NoDup l : nodup_str l = true -> NoDup l.
Proof.
  induction l as [|x r IH]; cbn; intros H; [constructor|].
  apply andb_prop in H. destruct H as [H1 H2]. constructor; [|auto].
  intros Hi. apply smem_In in Hi. rewrite Hi in H1. discriminate.
Qed.
Lemma incl_str_incl a b : incl_str a b = true -> forall x, In x a -> In x b.
Proof.
  unfold incl_str. rewrite forallb_forall. intros H x Hx. apply smem_In, H, Hx.
Qed.
Lemma table_eqb_eq a : forall b, table_eqb a b = true -> a = b.
Proof.
  induction a as [|[k v] a IH]; intros [|[k' v'] b]; cbn; try discriminate; [reflexivity|].
  intros H. apply andb_prop in H. destruct H as [H H3]. apply andb_prop in H. destruct H as [H1 H2].
  apply String.eqb_eq in H1, H2. subst. f_equal. auto.
Qed.
Lemma sfind_In {B} k (l : list (string * B)) v : sfind k l = Some v -> In (k, v) l.
Proof.
  induction l as [|[k' v'] r IH]; cbn; [discriminate|].
  destruct (String.eqb_spec k k') as [->|]; [intros E; injection E as ->; now left|right; auto].
Qed.
Lemma sfind_None_notin {B} k (l : list (string * B)) : sfind k l = None -> ~ In k (map fst l).
Proof.
  induction l as [|[k' v'] r IH]; cbn; [tauto|].
  destruct (String.eqb_spec k k') as [->|Hn]; [discriminate|]. intros H [E|I]; [congruence|exact (IH H I)].
Qed.
Lemma sfind_app_notin {B} k (l1 l2 : list (string * B)) :
  ~ In k (map fst l1) -> sfind k (l1 ++ l2) = sfind k l2.
Proof.
  induction l1 as [|[k' v'] r IH]; cbn; [reflexivity|]. intros H.
  destruct (String.eqb_spec k k') as [->|]; [tauto|]. apply IH. tauto.
Qed.
Lemma sfind_app_in {B} k (l1 l2 : list (string * B)) v :
  sfind k l1 = Some v -> sfind k (l1 ++ l2) = Some v.
Proof.
  induction l1 as [|[k' v'] r IH]; cbn; [discriminate|].
  destruct (String.eqb k k'); [trivial|exact IH].
Qed.
Lemma sfind_some_in_keys {B} k (l : list (string * B)) v : sfind k l = Some v -> In k (map fst l).
Proof. intros H. apply sfind_In in H. apply (in_map fst) in H. exact H. Qed.

(* inverse lookup in an injective table *)
Lemma rfind_sfind s j (t : table) :
  NoDup (map fst t) -> NoDup (map snd t) -> sfind s t = Some j -> rfind j t = Some s.
Proof.
  induction t as [|[k v] t IH]; cbn; [discriminate|]. intros Hk Hv.
  inversion Hk as [|? ? Hk1 Hk2]; inversion Hv as [|? ? Hv1 Hv2]; subst.
  destruct (String.eqb_spec s k) as [->|Hne].
  - intros E. injection E as ->. now rewrite String.eqb_refl.
  - intros E. destruct (String.eqb_spec j v) as [->|]; [|auto].
    exfalso. apply Hv1. apply sfind_In in E. apply (in_map snd) in E. exact E.
Qed.
Lemma sfind_of_mem s (t : table) : In s (map fst t) -> exists j, sfind s t = Some j.
Proof.
  induction t as [|[k v] t IH]; cbn; [tauto|]. intros [->|Hi].
  - rewrite String.eqb_refl. eauto.
  - destruct (String.eqb s k); eauto.
Qed.

Lemma all_some_map_some {A} (l : list A) : all_some (map Some l) = Some l.
Proof. induction l as [|x r IH]; cbn; [reflexivity|now rewrite IH]. Qed.
Lemma all_some_map {A B} (f : A -> option B) (g : A -> B) l :
  Forall (fun x => f x = Some (g x)) l -> all_some (map f l) = Some (map g l).
Proof. induction 1 as [|x r Hx Hr IH]; cbn; [reflexivity|]. now rewrite Hx, IH. Qed.

(* find in a list of rules: the found element is in the list and satisfies the predicate *)
Lemma find_w_spec a ws w : find_w a ws = Some w -> In w ws /\ w_attr w = a.
Proof. unfold find_w. intros H. apply find_some in H. destruct H as [H1 H2]. apply String.eqb_eq in H2. auto. Qed.
Lemma find_r_spec a rs r : find_r a rs = Some r -> In r rs /\ r_attr r = a.
Proof. unfold find_r. intros H. apply find_some in H. destruct H as [H1 H2]. apply String.eqb_eq in H2. auto. Qed.

Lemma NoDup_map_inj {A B} (f : A -> B) l x y : NoDup (map f l) -> In x l -> In y l -> f x = f y -> x = y.
Proof.
  induction l as [|a l IH]; cbn; [tauto|]. intros Hn. inversion Hn as [|? ? Hni Hnd]; subst.
  intros [->|Hx] [->|Hy] E; auto.
  - exfalso. apply Hni. rewrite E. now apply in_map.
  - exfalso. apply Hni. rewrite <- E. now apply in_map.
Qed.
Lemma NoDup_app_r {A} (l1 l2 : list A) : NoDup (l1 ++ l2) -> NoDup l2.
Proof. induction l1 as [|x l1 IH]; cbn; [trivial|]. intros H. inversion H; auto. Qed.
Lemma NoDup_app_disj {A} (l1 l2 : list A) x : NoDup (l1 ++ l2) -> In x l1 -> In x l2 -> False.
Proof.
  induction l1 as [|y l1 IH]; cbn; [tauto|]. intros H. inversion H as [|? ? Hni Hnd]; subst.
  intros [->|H1] H2; [apply Hni, in_or_app; now right|eauto].
Qed.
Lemma find_r_member_unique rs r :
  NoDup (map r_member rs) -> In r rs -> find_r_member (r_member r) rs = Some r.
Proof.
  intros Hn Hi. unfold find_r_member.
  destruct (find (fun r0 => String.eqb (r_member r0) (r_member r)) rs) as [r'|] eqn:E.
  - apply find_some in E. destruct E as [Hi' He]. apply String.eqb_eq in He.
    f_equal. eapply NoDup_map_inj; eauto.
  - exfalso. eapply find_none in E; [|exact Hi]. now rewrite String.eqb_refl in E.
Qed.

Section RoundTrip.
Variable T : tables.
Variable M : meta.
Variable lt : string -> bool.
Hypothesis Hcompat : compat T M = true.

Notation EA := (enc_auto T lt false).
Notation DEC := (dec T M false).

Lemma class_compat_of cls attrs : sfind cls M = Some attrs -> class_compat T M cls = true.
Proof.
  intros H. unfold compat in Hcompat. rewrite forallb_forall in Hcompat.
  apply sfind_In in H. exact (Hcompat _ H).
Qed.

Lemma dec_null d : DEC d DNull = None.
Proof. destruct d; reflexivity. Qed.

(* ---------- emission lookup (L1) ---------- *)
Definition fields_of (c : crules) (fs : list (string * value)) :=
  (fix fields (l : list (string * value)) : list (string * doc) :=
     match l with
     | [] => []
     | (a, x) :: l' =>
       match find_w a (c_w c) with
       | Some r =>
         if (w_unstripped_only r && false) || negb (cond_holds lt (w_cond r) fs x)
         then fields l'
         else (w_member r, enc_with EA (w_enc r) x) :: fields l'
       | None => fields l'
       end
     end).

Lemma enc_obj_unfold cls fs c :
  sfind cls T = Some c ->
  EA (VObj cls fs) = DObj (map (fun kv => (fst kv, DStr (snd kv))) (c_consts c) ++ fields_of c fs fs).
Proof. intros H. cbn [enc_auto]. rewrite H. reflexivity. Qed.

Lemma fields_lookup c fs a w m :
  NoDup (map w_member (c_w c)) ->
  find_w a (c_w c) = Some w -> w_member w = m ->
  forall l, NoDup (map fst l) ->
    sfind m (fields_of c fs l) =
    match sfind a l with
    | Some x => if cond_holds lt (w_cond w) fs x then Some (enc_with EA (w_enc w) x) else None
    | None => None
    end.
Proof.
  intros Hnd Hw Hm. subst m. destruct (find_w_spec _ _ _ Hw) as [Hwin Hwa].
  induction l as [|[a' x'] l IH]; intros Hl; [reflexivity|].
  cbn [map fst] in Hl. apply NoDup_cons_iff in Hl. destruct Hl as [Hni Hl']. cbn [fields_of sfind].
  destruct (String.eqb_spec a a') as [<-|Hne].
  - rewrite Hw. rewrite andb_false_r. cbn [orb].
    destruct (cond_holds lt (w_cond w) fs x'); cbn [negb].
    + cbn [sfind]. now rewrite String.eqb_refl.
    + fold (fields_of c fs l). rewrite (IH Hl').
      destruct (sfind a l) eqn:E; [|reflexivity].
      exfalso. apply Hni. eapply sfind_some_in_keys; eauto.
  - destruct (find_w a' (c_w c)) as [w'|] eqn:Ew'; [|exact (IH Hl')].
    destruct (find_w_spec _ _ _ Ew') as [Hw'in Hw'a].
    rewrite andb_false_r. cbn [orb].
    destruct (negb (cond_holds lt (w_cond w') fs x')); [exact (IH Hl')|].
    cbn [sfind]. destruct (String.eqb_spec (w_member w) (w_member w')) as [E|_]; [|exact (IH Hl')].
    exfalso. apply Hne. rewrite <- Hwa, <- Hw'a. f_equal. eapply NoDup_map_inj; eauto.
Qed.

(* ---------- decoded-member lookup (L2) ---------- *)
Definition go_of (c : crules) :=
  (fix go (l : list (string * doc)) : list (string * option value) :=
     match l with
     | [] => []
     | (m, dj) :: l' =>
       match find_r_member m (c_r c) with
       | Some r => (m, DEC (r_dec r) dj) :: go l'
       | None => go l'
       end
     end).

Lemma go_lookup c m r ms :
  find_r_member m (c_r c) = Some r ->
  sfind m (go_of c ms) = match sfind m ms with Some dj => Some (DEC (r_dec r) dj) | None => None end.
Proof.
  intros Hr. induction ms as [|[m' dj] ms IH]; [reflexivity|]. cbn [go_of sfind].
  destruct (String.eqb_spec m m') as [<-|Hne].
  - rewrite Hr. cbn [sfind]. now rewrite String.eqb_refl.
  - destruct (find_r_member m' (c_r c)); [|exact IH]. cbn [sfind].
    destruct (String.eqb_spec m m'); [congruence|exact IH].
Qed.


Lemma dec_obj_unfold cls ms c attrs :
  sfind cls T = Some c -> sfind cls M = Some attrs ->
  DEC (DcObj cls) (DObj ms) =
  match all_some (map (dec_field false c ms (go_of c ms)) attrs) with
  | Some fs => Some (VObj cls fs)
  | None => None
  end.
Proof. intros Hc Hm. cbn [dec]. rewrite Hc, Hm. reflexivity. Qed.

(* ---------- small facts ---------- *)
Lemma truthy_of_wf b x : wfb M b x = true -> base_truthy b = true -> truthy lt x = true.
Proof.
  destruct b as [ne| |ems| |ocl|b' ne|ems]; destruct x as [|s|bb|lx|lv|ocls ofs]; cbn;
    try discriminate; intros Hw Hb; try reflexivity.
  - rewrite Hb in Hw. exact Hw.
  - destruct (String.eqb_spec s ""); [|reflexivity]. subst.
    apply negb_true_iff in Hb. congruence.
  - subst. destruct lv; [discriminate|reflexivity].
Qed.

Lemma wfb_not_none b x : wfb M b x = true -> x <> VNone.
Proof. destruct b, x; cbn; congruence. Qed.

(* ---------- one attribute ---------- *)
Section Field.
Variables (cls : string) (c : crules) (attrs : list (string * kind)) (fs : list (string * value)).
Hypothesis Hc : sfind cls T = Some c.
Hypothesis HndW : NoDup (map fst (c_consts c) ++ map w_member (c_w c)).
Hypothesis HndR : NoDup (map r_member (c_r c)).
Hypothesis Hfs : NoDup (map fst fs).
Hypothesis Hdeps :
  forallb (fun r => match w_cond r with
                    | WTruthyUnder o =>
                      match sfind (w_attr r) fs, sfind o fs with
                      | Some VNone, _ => true
                      | Some _, Some (VStr s) => negb (String.eqb s "")
                      | Some _, _ => false
                      | None, _ => true
                      end
                    | _ => true end) (c_w c) = true.

Let consts' := map (fun kv : string * string => (fst kv, DStr (snd kv))) (c_consts c).
Let ms := (consts' ++ fields_of c fs fs)%list.

Lemma HndW' : NoDup (map w_member (c_w c)).
Proof. exact (NoDup_app_r _ _ HndW). Qed.

Lemma member_not_const w : In w (c_w c) -> ~ In (w_member w) (map fst consts').
Proof.
  intros Hw Hin. unfold consts' in Hin. rewrite map_map in Hin. cbn in Hin.
  eapply NoDup_app_disj; [exact HndW|exact Hin|]. now apply in_map.
Qed.

Lemma ms_lookup a w :
  find_w a (c_w c) = Some w ->
  sfind (w_member w) ms =
  match sfind a fs with
  | Some x => if cond_holds lt (w_cond w) fs x then Some (enc_with EA (w_enc w) x) else None
  | None => None
  end.
Proof.
  intros Hw. unfold ms. rewrite sfind_app_notin.
  - apply (fields_lookup c fs a w (w_member w) HndW' Hw eq_refl fs Hfs).
  - apply member_not_const. now destruct (find_w_spec _ _ _ Hw).
Qed.

End Field.

End RoundTrip.

(* ---------- the reader's treatment of one member ---------- *)
Definition rr (rc : rcond) (a : string) (k : kind) (mdoc : option doc) (present : option (option value))
           (look : string -> option doc) : option (string * value) :=
  let isnull := match mdoc with Some DNull => true | _ => false end in
  match rc, present with
  | RMandatory, None => None
  | RMandatory, Some None => None
  | RMandatory, Some (Some v) => Some (a, v)
  | RIfPresent, None => Some (a, absent_value k)
  | RIfPresent, Some None => None
  | RIfPresent, Some (Some v) => Some (a, v)
  | RIfPresentNotNull, None => Some (a, absent_value k)
  | RIfPresentNotNull, Some ov =>
    if isnull then Some (a, absent_value k)
    else match ov with Some v => Some (a, v) | None => None end
  | RIfPresentUnder o, _ =>
    match look o with
    | None => Some (a, absent_value k)
    | Some _ => match present with
                | None => Some (a, absent_value k)
                | Some (Some v) => Some (a, v)
                | Some None => None
                end
    end
  | RDefault dv, None => Some (a, dv)
  | RDefault dv, Some (Some v) => Some (a, v)
  | RDefault dv, Some None => None
  end.

Lemma dec_field_rr c ms decoded a k :
  dec_field false c ms decoded (a, k) =
  match find_r a (c_r c) with
  | None => Some (a, absent_value k)
  | Some r => rr (r_cond r) a k (sfind (r_member r) ms) (sfind (r_member r) decoded) (fun o => sfind o ms)
  end.
Proof.
  unfold dec_field. cbn [fst snd]. destruct (find_r a (c_r c)) as [r|]; [|reflexivity].
  rewrite andb_false_r. reflexivity.
Qed.

Lemma rr_present rc a k enc x look :
  match rc with RIfPresentUnder o => look o <> None | _ => True end ->
  enc <> DNull -> rr rc a k (Some enc) (Some (Some x)) look = Some (a, x).
Proof.
  intros Hu Hn. destruct rc; cbn; try reflexivity.
  - destruct enc; congruence.
  - destruct (look other_member); [reflexivity|congruence].
Qed.

Lemma rr_absent rc a k look :
  match rc with RIfPresent | RIfPresentNotNull | RIfPresentUnder _ => True | _ => False end ->
  rr rc a k None None look = Some (a, absent_value k).
Proof. destruct rc; cbn; try tauto. intros _. destruct (look other_member); reflexivity. Qed.

Lemma field_ok T M lt c attrs fs a k x :
  NoDup (map fst (c_consts c) ++ map w_member (c_w c)) ->
  NoDup (map r_member (c_r c)) ->
  NoDup (map fst fs) ->
  forallb (fun r => match w_cond r with
                    | WTruthyUnder o =>
                      match sfind (w_attr r) fs, sfind o fs with
                      | Some VNone, _ => true
                      | Some _, Some (VStr s) => negb (String.eqb s "")
                      | Some _, _ => false
                      | None, _ => true
                      end
                    | _ => true end) (c_w c) = true ->
  sfind a fs = Some x ->
  wfk M k x = true ->
  field_compat T c attrs (a, k) = true ->
  (forall e d, wfb M (k_base k) x = true -> codec_compat T (k_base k) e d = true ->
               dec T M false d (enc_with (enc_auto T lt false) e x) = Some x) ->
  let ms := (map (fun kv : string * string => (fst kv, DStr (snd kv))) (c_consts c) ++ fields_of T lt c fs fs)%list in
  dec_field false c ms (go_of T M c ms) (a, k) = Some (a, x).
Proof.
  intros HndW HndR Hfs Hdeps Hx Hwf Hfc IHx ms.
  unfold field_compat in Hfc. cbn [fst snd] in Hfc.
  destruct (find_w a (c_w c)) as [w|] eqn:Ew; [|discriminate].
  destruct (find_r a (c_r c)) as [r|] eqn:Er; [|discriminate].
  apply andb_prop in Hfc. destruct Hfc as [Hfc1 Hcodec]. apply andb_prop in Hfc1. destruct Hfc1 as [Hmem Hcc].
  apply String.eqb_eq in Hmem.
  destruct (find_r_spec _ _ _ Er) as [Hrin Hra].
  destruct (find_w_spec _ _ _ Ew) as [Hwin Hwa].
  pose proof (find_r_member_unique _ _ HndR Hrin) as Hrm.
  pose proof (ms_lookup T lt c fs HndW Hfs a w Ew) as Hms. fold ms in Hms. rewrite Hx, Hmem in Hms.
  pose proof (go_lookup T M c (r_member r) r ms Hrm) as Hgo.
  rewrite dec_field_rr, Er, Hgo, Hms. clear Hgo.
  assert (Hdecx : x <> VNone -> dec T M false (r_dec r) (enc_with (enc_auto T lt false) (w_enc w) x) = Some x).
  { intros Hn. apply IHx; [|exact Hcodec]. unfold wfk in Hwf. destruct x; try exact Hwf. congruence. }
  assert (Hnn : x <> VNone -> enc_with (enc_auto T lt false) (w_enc w) x <> DNull).
  { intros Hn E. specialize (Hdecx Hn). rewrite E, dec_null in Hdecx. discriminate. }
  (* the two outcomes *)
  assert (Hpresent : cond_holds lt (w_cond w) fs x = true -> x <> VNone ->
                     match r_cond r with RIfPresentUnder o => sfind o ms <> None | _ => True end ->
                     rr (r_cond r) a k
                        (if cond_holds lt (w_cond w) fs x then Some (enc_with (enc_auto T lt false) (w_enc w) x) else None)
                        match (if cond_holds lt (w_cond w) fs x then Some (enc_with (enc_auto T lt false) (w_enc w) x) else None) with
                        | Some dj => Some (dec T M false (r_dec r) dj) | None => None end
                        (fun o => sfind o ms) = Some (a, x)).
  { intros Hem Hn Hu. rewrite Hem, (Hdecx Hn). apply rr_present; [exact Hu|exact (Hnn Hn)]. }
  assert (Habsent : cond_holds lt (w_cond w) fs x = false -> x = absent_value k ->
                    match r_cond r with RIfPresent | RIfPresentNotNull | RIfPresentUnder _ => True | _ => False end ->
                     rr (r_cond r) a k
                        (if cond_holds lt (w_cond w) fs x then Some (enc_with (enc_auto T lt false) (w_enc w) x) else None)
                        match (if cond_holds lt (w_cond w) fs x then Some (enc_with (enc_auto T lt false) (w_enc w) x) else None) with
                        | Some dj => Some (dec T M false (r_dec r) dj) | None => None end
                        (fun o => sfind o ms) = Some (a, x)).
  { intros Hem Ha Hr. rewrite Hem. transitivity (Some (a, absent_value k)); [apply rr_absent; exact Hr|now rewrite <- Ha]. }
  unfold cond_compat in Hcc. unfold wfk in Hwf.
  assert (Hwfb : x <> VNone -> wfb M (k_base k) x = true).
  { intros Hn. destruct x; try exact Hwf. congruence. }
  assert (Hnd : x = VNone \/ x <> VNone) by (destruct x; [now left|right; discriminate..]).
  destruct (k_opt k) eqn:Eopt.
  - (* optional attribute: None or a value of the base kind *)
    assert (Habs : absent_value k = VNone) by (unfold absent_value; now rewrite Eopt).
    destruct (w_cond w) as [| | | |o|mm] eqn:Ewc; try discriminate.
    + (* WTruthy *)
      apply andb_prop in Hcc. destruct Hcc as [Hbt Hrc]. destruct Hnd as [->|Hn].
      * apply Habsent; [reflexivity|now rewrite Habs|destruct (r_cond r); try discriminate; exact I].
      * apply Hpresent; [cbn; eapply truthy_of_wf; eauto|exact Hn|destruct (r_cond r); try discriminate; exact I].
    + (* WNotNone *)
      destruct Hnd as [->|Hn].
      * apply Habsent; [reflexivity|now rewrite Habs|destruct (r_cond r); try discriminate; exact I].
      * apply Hpresent; [destruct x; try reflexivity; congruence|exact Hn|destruct (r_cond r); try discriminate; exact I].
    + (* WTruthyUnder o *)
      apply andb_prop in Hcc. destruct Hcc as [Hbt Hrc].
      destruct (r_cond r) as [| | |om|dv] eqn:Erc; try discriminate.
      destruct Hnd as [->|Hn].
      * apply Habsent; [|now rewrite Habs|exact I].
        cbn. destruct (sfind o fs); [now rewrite andb_false_r|reflexivity].
      * destruct (find_w o (c_w c)) as [wo|] eqn:Ewo; [|discriminate].
        destruct (sfind o attrs) as [ko|]; [|discriminate].
        repeat (apply andb_prop in Hrc; destruct Hrc as [Hrc ?]).
        apply String.eqb_eq in Hrc. subst om.
        destruct (w_cond wo) eqn:Ewoc; try discriminate.
        rewrite forallb_forall in Hdeps. specialize (Hdeps w Hwin). rewrite Ewc, Hwa, Hx in Hdeps.
        assert (Ho : exists s, sfind o fs = Some (VStr s) /\ (s =? "") = false).
        { destruct x; try congruence; destruct (sfind o fs) as [[]|]; try discriminate;
            eexists; (split; [reflexivity|now apply negb_true_iff]). }
        destruct Ho as [s [Hos Hs]].
        assert (Htx : truthy lt x = true) by (eapply truthy_of_wf; eauto).
        apply Hpresent; [|exact Hn|].
        -- cbn. rewrite Hos. cbn. rewrite Hs. exact Htx.
        -- pose proof (ms_lookup T lt c fs HndW Hfs o wo Ewo) as Hl. fold ms in Hl.
           rewrite Hos, Ewoc in Hl. cbn in Hl. rewrite Hs in Hl. cbn in Hl. congruence.
  - (* not optional *)
    assert (Hn : x <> VNone) by (intros ->; discriminate).
    destruct (is_coll (k_base k)) eqn:Ecoll.
    + (* collection: absent = empty *)
      assert (Hl : exists l, x = VList l).
      { specialize (Hwfb Hn). destruct (k_base k); try discriminate; destruct x; try discriminate; eauto. }
      destruct Hl as [l ->].
      assert (Habs : absent_value k = VList []).
      { unfold absent_value. rewrite Eopt. destruct (k_base k); try discriminate; reflexivity. }
      destruct (w_cond w) as [| | | |o|mm] eqn:Ewc; try discriminate.
      * apply Hpresent; [reflexivity|exact Hn|destruct (r_cond r); try discriminate; exact I].
      * destruct l.
        -- apply Habsent; [reflexivity|now rewrite Habs|destruct (r_cond r); try discriminate; exact I].
        -- apply Hpresent; [reflexivity|exact Hn|destruct (r_cond r); try discriminate; exact I].
      * apply Hpresent; [reflexivity|exact Hn|destruct (r_cond r); try discriminate; exact I].
      * destruct l.
        -- apply Habsent; [reflexivity|now rewrite Habs|destruct (r_cond r); try discriminate; exact I].
        -- apply Hpresent; [reflexivity|exact Hn|destruct (r_cond r); try discriminate; exact I].
    + (* mandatory scalar / object *)
      destruct (w_cond w) as [| | | |o|mm] eqn:Ewc; try discriminate.
      * apply Hpresent; [reflexivity|exact Hn|destruct (r_cond r); try discriminate; exact I].
      * apply andb_prop in Hcc. destruct Hcc as [Hbt Hrc].
        apply Hpresent; [cbn; eapply truthy_of_wf; eauto|exact Hn|destruct (r_cond r); try discriminate; exact I].
      * apply Hpresent; [destruct x; try reflexivity; congruence|exact Hn|destruct (r_cond r); try discriminate; exact I].
      * (* WEquals mm with a default *)
        destruct (k_base k) as [| |ems| | | |] eqn:Eb; try discriminate.
        destruct (r_cond r) as [| | |om|dv] eqn:Erc; try discriminate.
        destruct dv as [|dflt| | | |]; try discriminate.
        specialize (Hwfb Hn). destruct x as [|s| | | |]; try discriminate. cbn in Hwfb.
        cbn [cond_holds] in *. destruct (String.eqb_spec s mm) as [->|Hne].
        -- apply Hpresent; [reflexivity|exact Hn|exact I].
        -- rewrite forallb_forall in Hcc. apply smem_In in Hwfb. specialize (Hcc _ Hwfb).
           apply orb_prop in Hcc. destruct Hcc as [Hcc|Hcc]; apply String.eqb_eq in Hcc; [congruence|].
           subst. cbn. reflexivity.
Qed.

(* ---------- sets of enum members (IEC 61360 level types) ---------- *)
Definition memv (k : string) (l : list value) : bool :=
  existsb (fun x => match x with VStr s => String.eqb s k | _ => false end) l.

Lemma flat_map_ext_in' {A B} (f g : A -> list B) l : (forall x, In x l -> f x = g x) -> flat_map f l = flat_map g l.
Proof. induction l as [|x l IH]; cbn; intros H; [reflexivity|]. rewrite H, IH; auto. Qed.

Lemma canon_elems ks : forall l, enum_set_canon ks l = true -> forall x, In x l -> exists s, x = VStr s /\ In s ks.
Proof.
  induction ks as [|m ks IH]; intros [|y l] H x Hx; cbn in *; try tauto; try discriminate.
  destruct y as [|s| | | |]; try discriminate.
  destruct (String.eqb_spec s m) as [->|Hne].
  - destruct Hx as [<-|Hx]; [eauto|]. destruct (IH _ H _ Hx) as [s' [-> Hs]]. eauto.
  - destruct (IH _ H _ Hx) as [s' [-> Hs]]. eauto.
Qed.

Lemma memv_notin k l ks : (forall x, In x l -> exists s, x = VStr s /\ In s ks) -> ~ In k ks -> memv k l = false.
Proof.
  intros H Hn. unfold memv. apply not_true_is_false. intros E. apply existsb_exists in E.
  destruct E as [x [Hx Hk]]. destruct (H _ Hx) as [s [-> Hs]]. apply String.eqb_eq in Hk. congruence.
Qed.

Lemma canon_filter ks : forall l, NoDup ks -> enum_set_canon ks l = true ->
  flat_map (fun k => if memv k l then [VStr k] else []) ks = l.
Proof.
  induction ks as [|m ks IH]; intros l Hnd H.
  - destruct l; [reflexivity|discriminate].
  - inversion Hnd as [|? ? Hni Hnd']; subst. destruct l as [|y l'].
    + cbn. clear. induction ks; cbn; auto.
    + cbn in H. destruct y as [|s| | | |]; try discriminate.
      destruct (String.eqb_spec s m) as [->|Hne].
      * cbn [flat_map]. unfold memv at 1. cbn [existsb]. rewrite String.eqb_refl. cbn [orb app].
        f_equal. transitivity (flat_map (fun k => if memv k l' then [VStr k] else []) ks);
          [|exact (IH l' Hnd' H)].
        apply flat_map_ext_in'. intros k Hk.
        unfold memv. cbn [existsb]. destruct (String.eqb_spec m k) as [->|]; [tauto|reflexivity].
      * cbn [flat_map].
        rewrite (memv_notin m (VStr s :: l') ks (canon_elems _ _ H) Hni). cbn [app].
        exact (IH _ Hnd' H).
Qed.


Lemma rfind_in (t : table) kv : In kv t -> exists k, rfind (snd kv) t = Some k.
Proof.
  induction t as [|[k v] t IH]; cbn; [tauto|]. intros [<-|Hi].
  - cbn. rewrite String.eqb_refl. eauto.
  - destruct (String.eqb (snd kv) v); eauto.
Qed.

Lemma sfind_level_map (t : table) (g : string -> doc) kv :
  NoDup (map snd t) -> In kv t ->
  sfind (snd kv) (map (fun kv' => (snd kv', g (fst kv'))) t) = Some (g (fst kv)).
Proof.
  induction t as [|[k v] t IH]; cbn; [tauto|]. intros Hnd. inversion Hnd as [|? ? Hni Hnd']; subst.
  intros [<-|Hi].
  - cbn. now rewrite String.eqb_refl.
  - destruct (String.eqb_spec (snd kv) v) as [E|]; [|auto].
    exfalso. apply Hni. rewrite <- E. now apply in_map.
Qed.

Lemma level_roundtrip (t : table) l :
  NoDup (map fst t) -> NoDup (map snd t) -> enum_set_canon (map fst t) l = true ->
  dec_level t (enc_level t (VList l)) = Some (VList l).
Proof.
  intros Hk Hv Hc. unfold enc_level, dec_level.
  set (g := fun k => DBool (existsb (fun x => match x with VStr s => String.eqb s k | _ => false end) l)).
  change (map (fun kv => (snd kv, DBool (existsb (fun x => match x with VStr s => String.eqb s (fst kv) | _ => false end) l))) t)
    with (map (fun kv' => (snd kv', g (fst kv'))) t).
  assert (Hall : forallb (fun kv => match rfind (fst kv) t with Some _ => true | None => false end)
                         (map (fun kv' => (snd kv', g (fst kv'))) t) = true).
  { apply forallb_forall. intros x Hx. apply in_map_iff in Hx. destruct Hx as [kv [<- Hkv]]. cbn.
    destruct (rfind_in t kv Hkv) as [k ->]. reflexivity. }
  rewrite Hall. f_equal. f_equal.
  transitivity (flat_map (fun kv => if memv (fst kv) l then [VStr (fst kv)] else []) t).
  - apply flat_map_ext_in'. intros kv Hkv. rewrite (sfind_level_map t g kv Hv Hkv). unfold g, memv.
    destruct (existsb _ l); reflexivity.
  - transitivity (flat_map (fun k => if memv k l then [VStr k] else []) (map fst t));
      [|exact (canon_filter (map fst t) l Hk Hc)].
    clear. induction t as [|kv t IH]; cbn; [reflexivity|]. now rewrite IH.
Qed.

(* ---------- dispatch on a constant member ---------- *)
Lemma sfind_consts (cs : list (string * string)) m :
  sfind m (map (fun kv : string * string => (fst kv, DStr (snd kv))) cs) =
  match sfind m cs with Some s => Some (DStr s) | None => None end.
Proof. induction cs as [|[k v] cs IH]; cbn; [reflexivity|]. destruct (String.eqb m k); [reflexivity|exact IH]. Qed.

Lemma find_unique (f : string -> option string) l x s :
  NoDup (flat_map (fun c => match f c with Some s' => [s'] | None => [] end) l) ->
  In x l -> f x = Some s ->
  find (fun c => match f c with Some s' => String.eqb s s' | None => false end) l = Some x.
Proof.
  induction l as [|y l IH]; cbn; [tauto|]. intros Hnd [->|Hi] Hf.
  - rewrite Hf, String.eqb_refl. reflexivity.
  - destruct (f y) as [sy|] eqn:Ey.
    + cbn in Hnd. inversion Hnd as [|? ? Hni Hnd']; subst.
      destruct (String.eqb_spec s sy) as [->|]; [|auto].
      exfalso. apply Hni. apply in_flat_map. exists x. split; [exact Hi|]. rewrite Hf. now left.
    + auto.
Qed.

Lemma find_ext' {A} (f g : A -> bool) l : (forall x, f x = g x) -> find f l = find g l.
Proof. intros H. induction l as [|x l IH]; cbn; [reflexivity|]. now rewrite H, IH. Qed.

Lemma class_of_const_ok T member classes cls c s rest :
  sfind cls T = Some c -> sfind member (c_consts c) = Some s ->
  In cls classes -> dispatch_ok T member classes = true ->
  class_of_const T member classes
    (map (fun kv : string * string => (fst kv, DStr (snd kv))) (c_consts c) ++ rest) = Some cls.
Proof.
  intros Hc Hs Hin Hd. unfold class_of_const.
  rewrite (sfind_app_in member _ rest (DStr s)); [|rewrite sfind_consts, Hs; reflexivity].
  unfold dispatch_ok in Hd. apply andb_prop in Hd. destruct Hd as [_ Hnd]. apply nodup_str_NoDup in Hnd.
  unfold const_of in Hnd.
  erewrite find_ext';
    [apply (find_unique (fun c' => match sfind c' T with Some cc => sfind member (c_consts cc) | None => None end)
                        classes cls s)|].
  4: { intros x. cbn. destruct (sfind x T) as [cc|]; [|reflexivity]. destruct (sfind member (c_consts cc)); reflexivity. }
  - exact Hnd.
  - exact Hin.
  - now rewrite Hc.
Qed.

(* ---------- objects ---------- *)
Lemma wfb_obj M classes cls fs :
  wfb M (BObj classes) (VObj cls fs) =
  smem cls classes && match sfind cls M with None => false | Some attrs => aligned M attrs fs end.
Proof. reflexivity. Qed.

Lemma aligned_forall2 M attrs : forall fs, aligned M attrs fs = true ->
  Forall2 (fun ak ax => fst ak = fst ax /\ wfk M (snd ak) (snd ax) = true) attrs fs.
Proof.
  induction attrs as [|[a k] attrs IH]; intros [|[a' x] fs] H; cbn in H; try discriminate; [constructor|].
  apply andb_prop in H. destruct H as [H H3]. apply andb_prop in H. destruct H as [H1 H2].
  apply String.eqb_eq in H1. constructor; [split; [exact H1|exact H2]|]. apply IH. exact H3.
Qed.

Lemma strs_eqb_eq a : forall b, strs_eqb a b = true -> a = b.
Proof.
  induction a as [|x a IH]; intros [|y b]; cbn; try discriminate; [reflexivity|].
  intros H. apply andb_prop in H. destruct H as [H1 H2]. apply String.eqb_eq in H1. subst. f_equal. auto.
Qed.

Lemma In_sfind {B} (l : list (string * B)) a x : NoDup (map fst l) -> In (a, x) l -> sfind a l = Some x.
Proof.
  induction l as [|[k v] l IH]; cbn; [tauto|]. intros Hnd. inversion Hnd as [|? ? Hni Hnd']; subst.
  intros [E|Hi].
  - injection E as -> ->. now rewrite String.eqb_refl.
  - destruct (String.eqb_spec a k) as [->|]; [|auto].
    exfalso. apply Hni. apply (in_map fst) in Hi. exact Hi.
Qed.

Lemma Forall2_In_impl {A B} (R Q : A -> B -> Prop) l1 l2 :
  Forall2 R l1 l2 -> (forall a b, In a l1 -> In b l2 -> R a b -> Q a b) -> Forall2 Q l1 l2.
Proof.
  induction 1 as [|a b l1 l2 Hab H IH]; intros HQ; constructor.
  - apply HQ; [now left|now left|exact Hab].
  - apply IH. intros a' b' Ha Hb. apply HQ; now right.
Qed.

Lemma all_some_forall2 {A B} (f : A -> option B) l1 l2 :
  Forall2 (fun a b => f a = Some b) l1 l2 -> all_some (map f l1) = Some l2.
Proof. induction 1 as [|a b l1 l2 Hab H IH]; cbn; [reflexivity|]. now rewrite Hab, IH. Qed.

Lemma dec_ref_unfold T M classes ms cls :
  class_of_const T "type" classes ms = Some cls ->
  dec T M false (DcRef classes) (DObj ms) = dec T M false (DcObj cls) (DObj ms).
Proof. intros H. cbn [dec]. rewrite H. reflexivity. Qed.
Lemma dec_auto_unfold T M classes ms cls :
  class_of_const T "modelType" classes ms = Some cls ->
  dec T M false (DcAuto classes) (DObj ms) = dec T M false (DcObj cls) (DObj ms).
Proof. intros H. cbn [dec]. rewrite H. reflexivity. Qed.

Lemma dispatch_has_const T member classes cls :
  dispatch_ok T member classes = true -> In cls classes ->
  exists c s, sfind cls T = Some c /\ sfind member (c_consts c) = Some s.
Proof.
  unfold dispatch_ok. intros H Hin. apply andb_prop in H. destruct H as [H _].
  rewrite forallb_forall in H. specialize (H _ Hin). unfold const_of in H.
  destruct (sfind cls T) as [c|]; [|discriminate]. destruct (sfind member (c_consts c)) as [s|] eqn:Es; [|discriminate].
  exists c, s. split; [reflexivity|exact Es].
Qed.

Section Main.
Variable T : tables.
Variable M : meta.
Variable lt : string -> bool.
Hypothesis Hcompat : compat T M = true.
Notation EA := (enc_auto T lt false).
Notation DEC := (dec T M false).

Definition RT (v : value) : Prop :=
  forall b e d, wfb M b v = true -> deps_ok T v = true -> codec_compat T b e d = true ->
                DEC d (enc_with EA e v) = Some v.

Lemma obj_roundtrip cls fs classes :
  Forall (fun p => RT (snd p)) fs ->
  wfb M (BObj classes) (VObj cls fs) = true -> deps_ok T (VObj cls fs) = true ->
  DEC (DcObj cls) (EA (VObj cls fs)) = Some (VObj cls fs).
Proof.
  intros IH Hwf Hdeps. rewrite wfb_obj in Hwf. apply andb_prop in Hwf. destruct Hwf as [Hcls Hal].
  destruct (sfind cls M) as [attrs|] eqn:Em; [|discriminate].
  pose proof (class_compat_of T M Hcompat cls attrs Em) as Hcc. unfold class_compat in Hcc. rewrite Em in Hcc.
  destruct (sfind cls T) as [c|] eqn:Ec; [|discriminate].
  repeat (apply andb_prop in Hcc; destruct Hcc as [Hcc ?]).
  rename Hcc into HndA. rename H into Hfields. rename H0 into HndR. rename H1 into HndW.
  apply nodup_str_NoDup in HndA, HndR, HndW. rewrite map_app in HndW || idtac.
  pose proof (aligned_forall2 M attrs fs Hal) as Hf2.
  assert (Hkeys : map fst fs = map fst attrs).
  { clear - Hf2. induction Hf2 as [|ak ax l1 l2 [E _] H IH]; cbn; [reflexivity|]. now rewrite E, IH. }
  assert (Hfs : NoDup (map fst fs)) by now rewrite Hkeys.
  cbn [deps_ok] in Hdeps. rewrite Ec in Hdeps. apply andb_prop in Hdeps. destruct Hdeps as [Hdc Hdf].
  rewrite (enc_obj_unfold T lt cls fs c Ec). rewrite (dec_obj_unfold T M cls _ c attrs Ec Em).
  erewrite all_some_forall2; [reflexivity|].
  eapply Forall2_In_impl; [exact Hf2|]. intros [a k] [a' x] Ha Hx [E Hw]. cbn [fst snd] in *. subst a'.
  apply (field_ok T M lt c attrs fs a k x HndW HndR Hfs Hdc).
  - now apply In_sfind.
  - exact Hw.
  - rewrite forallb_forall in Hfields. exact (Hfields _ Ha).
  - intros e d Hwb Hcd. rewrite Forall_forall in IH. specialize (IH _ Hx). cbn in IH. apply (IH (k_base k) e d); [exact Hwb| |exact Hcd].
    rewrite forallb_forall in Hdf. exact (Hdf _ Hx).
Qed.

Theorem roundtrip : forall v, RT v.
Proof.
  induction v as [|s|bb|lx|l IH|cls fs IH] using value_ind2; intros b e d Hwf Hdeps Hcc.
  - destruct b; discriminate.
  - (* strings and enum members *)
    destruct b as [ne| |ems| |ocl|b' ne|ems]; try discriminate; destruct e, d; try discriminate; try reflexivity.
    cbn in Hcc. apply andb_prop in Hcc. destruct Hcc as [Ht Hok]. apply table_eqb_eq in Ht. subst t0.
    unfold table_ok in Hok. apply andb_prop in Hok. destruct Hok as [Hok Hincl].
    apply andb_prop in Hok. destruct Hok as [Hk Hv].
    apply nodup_str_NoDup in Hk, Hv. cbn in Hwf. apply smem_In in Hwf.
    pose proof (incl_str_incl _ _ Hincl _ Hwf) as Hin. destruct (sfind_of_mem s t Hin) as [j Hj].
    cbn. rewrite Hj. cbn. now rewrite (rfind_sfind s j t Hk Hv Hj).
  - destruct b; try discriminate; destruct e, d; try discriminate; reflexivity.
  - destruct b; try discriminate; destruct e, d; try discriminate; reflexivity.
  - (* lists *)
    destruct b as [ne| |ems| |ocl|b' ne|ems]; try discriminate.
    + (* BList *)
      cbn in Hwf. apply andb_prop in Hwf. destruct Hwf as [_ Hall]. cbn in Hdeps.
      assert (Helem : forall d', codec_compat T b' EAuto d' = true ->
                                 Forall (fun x => DEC d' (EA x) = Some (id x)) l).
      { intros d' Hd. rewrite Forall_forall in *. intros x Hx. rewrite forallb_forall in Hall, Hdeps.
        exact (IH x Hx b' EAuto d' (Hall _ Hx) (Hdeps _ Hx) Hd). }
      destruct e, d; try discriminate; cbn in Hcc.
      * cbn. rewrite map_map. rewrite (all_some_map _ id l (Helem _ Hcc)). now rewrite map_id.
      * apply andb_prop in Hcc. destruct Hcc as [Hm Hcc]. apply String.eqb_eq in Hm. subst member0.
        cbn. rewrite map_map. cbn. rewrite String.eqb_refl.
        rewrite (all_some_map _ id l (Helem _ Hcc)). now rewrite map_id.
      * apply andb_prop in Hcc. destruct Hcc as [Hm Hcc]. apply String.eqb_eq in Hm. subst member0.
        destruct d; try discriminate.
        cbn. rewrite String.eqb_refl. rewrite map_map.
        rewrite (all_some_map _ id l (Helem _ Hcc)). now rewrite map_id.
    + (* BEnumSet *)
      destruct e, d; try discriminate. cbn in Hcc.
      apply andb_prop in Hcc. destruct Hcc as [Hcc Heq]. apply andb_prop in Hcc. destruct Hcc as [Hcc Hv].
      apply andb_prop in Hcc. destruct Hcc as [Ht Hk].
      apply table_eqb_eq in Ht. subst t0. apply nodup_str_NoDup in Hk, Hv. apply strs_eqb_eq in Heq. subst ems.
      cbn in Hwf. cbn [enc_with dec]. apply level_roundtrip; assumption.
  - (* objects *)
    destruct b as [ne| |ems| |ocl|b' ne|ems]; try discriminate.
    destruct e; try discriminate. cbn [enc_with].
    pose proof Hwf as Hwf'. rewrite wfb_obj in Hwf'. apply andb_prop in Hwf'. destruct Hwf' as [Hcls _].
    apply smem_In in Hcls.
    destruct d; try discriminate; cbn in Hcc.
    + (* DcObj *)
      destruct ocl as [|c0 [|]]; try discriminate. apply String.eqb_eq in Hcc. subst cls0.
      destruct Hcls as [<-|[]]. eapply obj_roundtrip; eauto.
    + (* DcRef *)
      apply andb_prop in Hcc. destruct Hcc as [Hincl Hd].
      pose proof (incl_str_incl _ _ Hincl _ Hcls) as Hin.
      destruct (dispatch_has_const T "type" classes cls Hd Hin) as [c [s [Ec Es]]].
      pose proof (obj_roundtrip cls fs ocl IH Hwf Hdeps) as Hrt.
      rewrite (enc_obj_unfold T lt cls fs c Ec) in *.
      rewrite (dec_ref_unfold T M classes _ cls); [exact Hrt|].
      eapply class_of_const_ok; eauto.
    + (* DcAuto *)
      apply andb_prop in Hcc. destruct Hcc as [Hincl Hd].
      pose proof (incl_str_incl _ _ Hincl _ Hcls) as Hin.
      destruct (dispatch_has_const T "modelType" classes cls Hd Hin) as [c [s [Ec Es]]].
      pose proof (obj_roundtrip cls fs ocl IH Hwf Hdeps) as Hrt.
      rewrite (enc_obj_unfold T lt cls fs c Ec) in *.
      rewrite (dec_auto_unfold T M classes _ cls); [exact Hrt|].
      eapply class_of_const_ok; eauto.
Qed.

End Main.
