(* Lemmas about model/Aasx.v (property C08). *)
From Coq Require Import List Arith Bool String Ascii Lia.
From Basyx Require Import model.Files proofs.FilesProofs model.Aasx.
Import ListNotations.
Local Open Scope string_scope.
Local Open Scope list_scope.

Ltac splits := repeat match goal with |- _ /\ _ => split end.

(* ---------- object stores ---------------------------------------------------------------- *)

Lemma ofind_app i a b : ofind i (a ++ b) = match ofind i a with Some o => Some o | None => ofind i b end.
Proof. induction a as [|o r IH]; cbn; [reflexivity|]. destruct (Nat.eqb (oid o) i); auto. Qed.

Lemma ofind_oremove_same i s : ofind i (oremove i s) = None.
Proof.
  induction s as [|o r IH]; cbn; [reflexivity|].
  destruct (Nat.eqb (oid o) i) eqn:E; [exact IH|]. cbn. rewrite E. exact IH.
Qed.

Lemma ofind_oremove_other i j s : i <> j -> ofind i (oremove j s) = ofind i s.
Proof.
  intros Hne. induction s as [|o r IH]; cbn; [reflexivity|].
  destruct (Nat.eqb_spec (oid o) j) as [Ej|Nj].
  - destruct (Nat.eqb_spec (oid o) i) as [Ei|Ni]; [congruence|exact IH].
  - cbn. destruct (Nat.eqb (oid o) i); [reflexivity|exact IH].
Qed.

Lemma ofind_oid i s o : ofind i s = Some o -> oid o = i.
Proof.
  induction s as [|x r IH]; cbn; [discriminate|].
  destruct (Nat.eqb_spec (oid x) i); [intros E; injection E as <-; assumption|exact IH].
Qed.

Lemma ofind_in i s o : ofind i s = Some o -> In o s.
Proof.
  induction s as [|x r IH]; cbn; [discriminate|].
  destruct (Nat.eqb (oid x) i); [intros E; injection E as <-; now left|intros E; right; auto].
Qed.

Lemma ofind_none_notin i s : ofind i s = None -> ~ In i (map oid s).
Proof.
  induction s as [|x r IH]; cbn; [tauto|].
  destruct (Nat.eqb_spec (oid x) i); [discriminate|]. intros E [H|H]; [congruence|]. now apply IH.
Qed.

Lemma ofind_nodup_in s o : NoDup (map oid s) -> In o s -> ofind (oid o) s = Some o.
Proof.
  induction s as [|x r IH]; cbn; [tauto|].
  intros Hnd. inversion Hnd as [|? ? Hni Hnd']; subst. intros [->|Hin].
  - now rewrite Nat.eqb_refl.
  - destruct (Nat.eqb_spec (oid x) (oid o)) as [E|]; [|auto].
    exfalso. apply Hni. rewrite E. now apply in_map.
Qed.

Lemma omem_true i s : omem i s = true <-> In i (map oid s).
Proof.
  unfold omem. split.
  - destruct (ofind i s) eqn:E; [|discriminate]. intros _.
    rewrite <- (ofind_oid _ _ _ E). apply in_map. eapply ofind_in; eauto.
  - intros Hin. destruct (ofind i s) eqn:E; [reflexivity|]. exfalso. eapply ofind_none_notin; eauto.
Qed.

Lemma oadd_ids o s : NoDup (map oid s) -> NoDup (map oid (oadd o s)).
Proof.
  intros Hnd. unfold oadd. destruct (omem (oid o) s) eqn:E; [assumption|].
  rewrite map_app. cbn. apply NoDup_snoc; [assumption|].
  intros Hin. apply omem_true in Hin. congruence.
Qed.

Lemma oadd_in o s x : In x (oadd o s) <-> In x s \/ (x = o /\ omem (oid o) s = false).
Proof.
  unfold oadd. destruct (omem (oid o) s) eqn:E.
  - split; [tauto|]. intros [H|[_ H]]; [assumption|discriminate].
  - rewrite in_app_iff. cbn. split; [intros [H|[H|[]]]; auto|intros [H|[H _]]; auto].
Qed.

Lemma oadd_incl o s x : In x s -> In x (oadd o s).
Proof. intros H. apply oadd_in. now left. Qed.

(* ---------- the set written by write_aas -------------------------------------------------- *)

(* every collected object is the provider's object for its id *)
Definition from_store (S acc : ostore) : Prop := forall x, In x acc -> ofind (oid x) S = Some x.

Lemma oadd_from_store S acc o i :
  from_store S acc -> ofind i S = Some o -> In o (oadd o acc) /\ from_store S (oadd o acc).
Proof.
  intros Hf E. pose proof (ofind_oid _ _ _ E) as Ei. split.
  - apply oadd_in. destruct (omem (oid o) acc) eqn:Em; [|now right].
    left. apply omem_true in Em. apply in_map_iff in Em. destruct Em as [y [Ey Hy]].
    pose proof (Hf _ Hy) as Hy'. rewrite Ey, Ei, E in Hy'. injection Hy' as ->. assumption.
  - intros x Hx. apply oadd_in in Hx. destruct Hx as [Hx|[-> _]]; [auto|]. now rewrite Ei.
Qed.

Lemma add_submodels_spec S subs : forall acc res,
  NoDup (map oid acc) -> from_store S acc -> add_submodels S subs acc = Ok res ->
  NoDup (map oid res) /\ from_store S res /\ (forall x, In x acc -> In x res) /\
  (forall x, In x res -> In x acc \/ (exists i, In i subs /\ ofind i S = Some x /\ is_subm x = true)) /\
  (forall i x, In i subs -> ofind i S = Some x -> is_subm x = true /\ In x res).
Proof.
  induction subs as [|i r IH]; cbn; intros acc res Hnd Hfs E.
  - injection E as <-. splits; auto. intros i x [].
  - destruct (ofind i S) as [o|] eqn:Ef.
    + destruct o as [j t sb|j t sm nd|j t]; try discriminate.
      destruct (oadd_from_store _ _ _ _ Hfs Ef) as [Hin0 Hfs0].
      destruct (IH _ _ (oadd_ids _ _ Hnd) Hfs0 E) as [H1 [H2 [H3 [H4 H5]]]].
      splits; auto.
      * intros x Hx. apply H3. now apply oadd_incl.
      * intros x Hx. apply H4 in Hx. destruct Hx as [Hx|[k [Hk H]]].
        -- apply oadd_in in Hx. destruct Hx as [Hx|[-> _]]; [now left|]. right. exists i. auto.
        -- right. exists k. split; [now right|exact H].
      * intros k x [<-|Hk] Hf; [|eapply H5; eauto]. rewrite Ef in Hf. injection Hf as <-. split; [reflexivity|now apply H3].
    + destruct (IH _ _ Hnd Hfs E) as [H1 [H2 [H3 [H4 H5]]]]. splits; auto.
      * intros x Hx. apply H4 in Hx. destruct Hx as [Hx|[k [Hk H]]]; [now left|].
        right. exists k. split; [now right|exact H].
      * intros k x [<-|Hk] Hf; [congruence|eapply H5; eauto].
Qed.

Definition shell_subs (o : obj) : list ident := match o with Shell _ _ subs => subs | _ => [] end.

Lemma add_shells_spec S ids : forall acc res,
  NoDup (map oid acc) -> from_store S acc -> add_shells S ids acc = Ok res ->
  NoDup (map oid res) /\ from_store S res /\ (forall x, In x acc -> In x res) /\
  (forall x, In x res -> In x acc \/
     (exists i, In i ids /\ ofind i S = Some x /\ is_shell x = true) \/
     (exists i a k, In i ids /\ ofind i S = Some a /\ In k (shell_subs a) /\
                    ofind k S = Some x /\ is_subm x = true)) /\
  (forall i a, In i ids -> ofind i S = Some a -> is_shell a = true /\ In a res) /\
  (forall i a k x, In i ids -> ofind i S = Some a -> In k (shell_subs a) -> ofind k S = Some x ->
                   is_subm x = true /\ In x res).
Proof.
  induction ids as [|i r IH]; cbn; intros acc res Hnd Hfs E.
  - injection E as <-. splits; auto; try tauto.
  - destruct (ofind i S) as [o|] eqn:Ef; [|discriminate].
    destruct o as [j t sb|j t sm nd|j t]; try discriminate.
    destruct (add_submodels S sb (oadd (Shell j t sb) acc)) as [acc'|e] eqn:Es; [|discriminate].
    destruct (oadd_from_store _ _ _ _ Hfs Ef) as [Hin0 Hfs0].
    destruct (add_submodels_spec _ _ _ _ (oadd_ids _ _ Hnd) Hfs0 Es) as [G1 [G2 [G3 [G4 G5]]]].
    destruct (IH _ _ G1 G2 E) as [H1 [H2 [H3 [H4 [H5 H6]]]]].
    split; [assumption|]. split; [assumption|]. split; [|split; [|split]].
    + intros x Hx. apply H3, G3. now apply oadd_incl.
    + intros x Hx. apply H4 in Hx. destruct Hx as [Hx|[[k [Hk H]]|[k [a [m [Hk H]]]]]].
      * apply G4 in Hx. destruct Hx as [Hx|[m [Hm [Hf Hs]]]].
        -- apply oadd_in in Hx. destruct Hx as [Hx|[-> _]]; [now left|].
           right. left. exists i. repeat split; auto.
        -- right. right. exists i, (Shell j t sb), m. repeat split; auto.
      * right. left. exists k. split; [now right|exact H].
      * right. right. exists k, a, m. split; [now right|exact H].
    + intros k a [<-|Hk] Hf; [|eapply H5; eauto].
      rewrite Ef in Hf. injection Hf as <-. split; [reflexivity|]. now apply H3, G3.
    + intros k a m x [<-|Hk] Hf Hm Hx; [|eapply H6; eauto].
      rewrite Ef in Hf. injection Hf as <-. cbn in Hm.
      destruct (G5 _ _ Hm Hx) as [Q1 Q2]. split; [assumption|]. now apply H3.
Qed.

Lemma fold_oadd_spec S cds : forall objs,
  NoDup (map oid objs) -> from_store S objs -> (forall c, In c cds -> ofind (oid c) S = Some c) ->
  let res := fold_left (fun acc o => oadd o acc) cds objs in
  NoDup (map oid res) /\ from_store S res /\
  (forall x, In x objs -> In x res) /\
  (forall x, In x res -> In x objs \/ In x cds) /\
  (forall x, In x cds -> In x res).
Proof.
  induction cds as [|c r IH]; cbn; intros objs Hnd Hfs Hc.
  - splits; auto. intros x [].
  - destruct (oadd_from_store _ _ _ _ Hfs (Hc c (or_introl eq_refl))) as [Hin0 Hfs0].
    destruct (IH _ (oadd_ids c _ Hnd) Hfs0 (fun c' H => Hc c' (or_intror H))) as [H1 [H2 [H3 [H4 H5]]]].
    splits; auto.
    + intros x Hx. apply H3. now apply oadd_incl.
    + intros x Hx. apply H4 in Hx. destruct Hx as [Hx|Hx]; [|now right; right].
      apply oadd_in in Hx. destruct Hx as [Hx|[-> _]]; [now left|now right; left].
    + intros x [<-|Hx]; [now apply H3|now apply H5].
Qed.

Lemma cd_of_spec S r x : In x (cd_of S r) <-> r_cd r = true /\ ofind (r_id r) S = Some x /\ is_cd x = true.
Proof.
  unfold cd_of. destruct (r_cd r); [|split; [intros []|intros [H _]; discriminate]].
  destruct (ofind (r_id r) S) as [[j t sb|j t sm nd|j t]|]; cbn; split; try tauto;
    try (intros [_ [H _]]; discriminate); try (intros [_ [H H']]; injection H as <-; discriminate).
  - intros [<-|[]]. auto.
  - intros [_ [H _]]. left. now injection H.
Qed.

(* the set of objects write_aas puts into the payload: exactly the named shells, the submodels their
   references resolve to, and the concept descriptions the semantic ids of those resolve to *)
Lemma closure_spec S ids objs : closure S ids = Ok objs ->
  NoDup (map oid objs) /\ from_store S objs /\
  (forall x, In x objs ->
     (exists i, In i ids /\ ofind i S = Some x /\ is_shell x = true) \/
     (exists i a k, In i ids /\ ofind i S = Some a /\ In k (shell_subs a) /\ ofind k S = Some x /\ is_subm x = true) \/
     (exists o r, In o objs /\ is_cd o = false /\ In r (obj_sems o) /\ r_cd r = true /\
                  ofind (r_id r) S = Some x /\ is_cd x = true)) /\
  (forall i a, In i ids -> ofind i S = Some a -> is_shell a = true /\ In a objs) /\
  (forall i a k x, In i ids -> ofind i S = Some a -> In k (shell_subs a) -> ofind k S = Some x ->
                   is_subm x = true /\ In x objs) /\
  (forall o r x, In o objs -> is_cd o = false -> In r (obj_sems o) -> r_cd r = true ->
                 ofind (r_id r) S = Some x -> is_cd x = true -> In x objs).
Proof.
  unfold closure. destruct (add_shells S ids []) as [o1|] eqn:E; [|discriminate].
  intros H. injection H as <-.
  destruct (add_shells_spec S ids [] o1 (NoDup_nil _) (fun x H => match H with end) E) as [A1 [A2 [_ [A4 [A5 A6]]]]].
  assert (Hcd : forall c, In c (concept_descriptions S o1) -> ofind (oid c) S = Some c).
  { intros c Hc. unfold concept_descriptions in Hc. apply in_flat_map in Hc. destruct Hc as [o [_ Hc]].
    apply in_flat_map in Hc. destruct Hc as [r [_ Hc]]. apply cd_of_spec in Hc. destruct Hc as [_ [Hc _]].
    now rewrite (ofind_oid _ _ _ Hc). }
  destruct (fold_oadd_spec S _ _ A1 A2 Hcd) as [B1 [B2 [B3 [B4 B5]]]].
  assert (Hnocd : forall x, In x o1 -> is_cd x = false).
  { intros x Hx. apply A4 in Hx. destruct Hx as [[]|[[i [_ [_ H]]]|[i [a [k [_ [_ [_ [_ H]]]]]]]]]; destruct x; try discriminate; reflexivity. }
  split; [assumption|]. split; [assumption|]. split; [|split; [|split]].
  - intros x Hx. apply B4 in Hx. destruct Hx as [Hx|Hx].
    + apply A4 in Hx. destruct Hx as [[]|[H|H]]; auto.
    + right. right. unfold concept_descriptions in Hx. apply in_flat_map in Hx. destruct Hx as [o [Ho Hx]].
      apply in_flat_map in Hx. destruct Hx as [r [Hr Hx]]. apply cd_of_spec in Hx. destruct Hx as [X1 [X2 X3]].
      exists o, r. repeat split; auto.
  - intros i a Hi Hf. destruct (A5 _ _ Hi Hf). auto.
  - intros i a k x Hi Hf Hk Hx. destruct (A6 _ _ _ _ Hi Hf Hk Hx). auto.
  - intros o r x Ho Hnc Hr Hcdr Hf Hx. apply B5.
    assert (Ho1 : In o o1).
    { apply B4 in Ho. destruct Ho as [Ho|Ho]; [assumption|]. exfalso.
      unfold concept_descriptions in Ho. apply in_flat_map in Ho. destruct Ho as [o' [_ Ho]].
      apply in_flat_map in Ho. destruct Ho as [r' [_ Ho]]. apply cd_of_spec in Ho. destruct Ho as [_ [_ Ho]]. congruence. }
    unfold concept_descriptions. apply in_flat_map. exists o. split; [assumption|].
    apply in_flat_map. exists r. split; [assumption|]. apply cd_of_spec. auto.
Qed.

Lemma closure_nodup S ids objs : closure S ids = Ok objs -> NoDup (map oid objs).
Proof. intros H. now destruct (closure_spec _ _ _ H). Qed.

(* ---------- file container facts (C19) --------------------------------------------------------- *)

Lemma inv_store_data F v h ct : Inv F -> sassoc v (names F) = Some (h, ct) -> nassoc h (store F) = Some h.
Proof.
  intros [_ Hc] E. pose proof (count_pos_of_sassoc _ _ _ _ E) as Hp. now destruct (proj2 (Hc h) Hp).
Qed.

Lemma add_file_props F name c t : Inv F ->
  exists n', snd (add_file F name c t) = OName n' /\
    Inv (fst (add_file F name c t)) /\
    lookup (fst (add_file F name c t)) n' = Some (c, t) /\
    (forall m x, lookup F m = Some x -> lookup (fst (add_file F name c t)) m = Some x).
Proof.
  intros HI. destruct (add_spec F name c t HI) as [n' [H1 [H2 [H3 [H4 _]]]]].
  exists n'. split; [assumption|]. split; [now apply Inv_add|]. split; [assumption|].
  intros m x Hm. destruct (String.eqb_spec m n') as [->|Hne]; [|now rewrite H3].
  destruct H4 as [H4|[H4 _]]; congruence.
Qed.

(* ---------- reader ------------------------------------------------------------------------------ *)

Section Reader.
Variable payload : Type.
Variable decode : payload -> list obj.
Notation rpkg := (rpkg payload).
Notation body := (body payload).

Definition body_data (b : body) : content := match b with BBytes _ c => c | _ => 0 end.
Definition set_file (n : node) (v : string) : node := mk_node (n_path n) (Some (Some v)) (n_sems n) (n_tok n).

(* what _collect_supplementary_files does to one element, given the final container F' *)
Definition node_read (p : rpkg) (part : string) (F' : st) (n n' : node) : Prop :=
  match node_file_names n with
  | [v] =>
    match realpath v part with
    | None => False
    | Some abs =>
      match rp_part _ p abs with
      | None => n' = n
      | Some (ct, b) => exists fin, n' = set_file n fin /\ lookup F' fin = Some (body_data b, ct)
      end
    end
  | _ => n' = n
  end.

Lemma node_read_mono p part F1 F2 n n' :
  (forall m x, lookup F1 m = Some x -> lookup F2 m = Some x) ->
  node_read p part F1 n n' -> node_read p part F2 n n'.
Proof.
  intros Hm. unfold node_read. destruct (node_file_names n) as [|v [|]]; auto.
  destruct (realpath v part); auto. destruct (rp_part _ p s) as [[ct b]|]; auto.
  intros [fin [H1 H2]]. exists fin. auto.
Qed.

(* collect_files, restated over node_file_names *)
Lemma collect_files_unfold p part n r F :
  collect_files _ p part (n :: r) F =
  match node_file_names n with
  | [v] =>
    match realpath v part with
    | None => Err EIndexError
    | Some abs =>
      match rp_part _ p abs with
      | None => match collect_files _ p part r F with Err e => Err e | Ok (r', F') => Ok (n :: r', F') end
      | Some (ct, b) =>
        match add_file F abs (body_data b) ct with
        | (F1, OName final) =>
          match collect_files _ p part r F1 with
          | Err e => Err e
          | Ok (r', F') => Ok (set_file n final :: r', F')
          end
        | _ => Err ERuntimeError
        end
      end
    end
  | _ => match collect_files _ p part r F with Err e => Err e | Ok (r', F') => Ok (n :: r', F') end
  end.
Proof.
  cbn [collect_files]. unfold node_file_names. destruct (walkable n); [|reflexivity].
  destruct (n_file n) as [[v|]|]; try reflexivity. destruct (nonlocal v); reflexivity.
Qed.

Lemma collect_files_spec p part nodes : forall F res,
  Inv F -> collect_files _ p part nodes F = Ok res ->
  Inv (snd res) /\ (forall m x, lookup F m = Some x -> lookup (snd res) m = Some x) /\
  Forall2 (node_read p part (snd res)) nodes (fst res).
Proof.
  induction nodes as [|n r IH]; intros F res HI E.
  - cbn in E. injection E as <-. cbn. auto.
  - rewrite collect_files_unfold in E.
    assert (Hskip : node_read p part F n n ->
              match collect_files _ p part r F with Err e => Err e | Ok (r', F') => Ok (n :: r', F') end = Ok res ->
              Inv (snd res) /\ (forall m x, lookup F m = Some x -> lookup (snd res) m = Some x) /\
              Forall2 (node_read p part (snd res)) (n :: r) (fst res)).
    { intros Hn E'. destruct (collect_files _ p part r F) as [[r' F']|] eqn:Er; [|discriminate].
      injection E' as <-. destruct (IH _ _ HI Er) as [H1 [H2 H3]]. cbn [fst snd] in *. splits; auto.
      constructor; [|assumption]. eapply node_read_mono; eauto. }
    destruct (node_file_names n) as [|v [|]] eqn:En;
      [apply Hskip; [unfold node_read; now rewrite En|assumption]| |apply Hskip; [unfold node_read; now rewrite En|assumption]].
    destruct (realpath v part) as [abs|] eqn:Erp; [|discriminate].
    destruct (rp_part _ p abs) as [[ct b]|] eqn:Epart;
      [|apply Hskip; [unfold node_read; now rewrite En, Erp, Epart|assumption]].
    destruct (add_file_props F abs (body_data b) ct HI) as [fin [Hout [HI1 [Hl1 Hm1]]]].
    destruct (add_file F abs (body_data b) ct) as [F1 o] eqn:Eadd. cbn [fst snd] in Hout, HI1, Hl1, Hm1. subst o.
    destruct (collect_files _ p part r F1) as [[r' F']|] eqn:Er; [|discriminate].
    injection E as <-. destruct (IH _ _ HI1 Er) as [H1 [H2 H3]]. cbn [fst snd] in *. splits; auto.
    constructor; [|assumption]. unfold node_read. rewrite En, Erp, Epart. exists fin. auto.
Qed.

(* collect_files fails only with IndexError, and only on a path that climbs above the package root *)
Lemma collect_files_ok (p : rpkg) part nodes : forall F,
  Inv F -> (forall v, In v (flat_map node_file_names nodes) -> realpath v part <> None) ->
  exists res, collect_files _ p part nodes F = Ok res.
Proof.
  induction nodes as [|n r IH]; intros F HI Hrp.
  - cbn. eauto.
  - rewrite collect_files_unfold. cbn [flat_map] in Hrp.
    assert (Hr : forall v, In v (flat_map node_file_names r) -> realpath v part <> None)
      by (intros v Hv; apply Hrp, in_or_app; now right).
    assert (Hskip : exists res, match collect_files _ p part r F with Err e => Err e | Ok (r', F') => Ok (n :: r', F') end = Ok res).
    { destruct (IH F HI Hr) as [[r' F'] ->]. eauto. }
    destruct (node_file_names n) as [|v [|]] eqn:En; [assumption| |assumption].
    destruct (realpath v part) as [abs|] eqn:Erp; [|exfalso; apply (Hrp v); [now left|assumption]].
    destruct (rp_part _ p abs) as [[ct b]|]; [|assumption].
    destruct (add_file_props F abs (body_data b) ct HI) as [fin [Hout [HI1 _]]].
    destruct (add_file F abs (body_data b) ct) as [F1 o]. cbn in Hout, HI1. subst o.
    destruct (IH F1 HI1 Hr) as [[r' F'] ->]. eauto.
Qed.

(* what reading does to one object *)
Definition obj_read (p : rpkg) (part : string) (F' : st) (o o' : obj) : Prop :=
  match o with
  | Subm i tok sems nodes => exists nodes', o' = Subm i tok sems nodes' /\ Forall2 (node_read p part F') nodes nodes'
  | _ => o' = o
  end.

Lemma obj_read_mono p part F1 F2 o o' :
  (forall m x, lookup F1 m = Some x -> lookup F2 m = Some x) ->
  obj_read p part F1 o o' -> obj_read p part F2 o o'.
Proof.
  intros Hm. destruct o; cbn; auto. intros [nodes' [-> H]]. exists nodes'. split; [reflexivity|].
  induction H; constructor; auto. eapply node_read_mono; eauto.
Qed.

Definition obj_files (o : obj) : list string := obj_file_names o.

Lemma existsb_eqb_in i l : existsb (Nat.eqb i) l = true <-> In i l.
Proof.
  rewrite existsb_exists. split.
  - intros [x [Hx E]]. apply Nat.eqb_eq in E. now subst.
  - intros H. exists i. split; [assumption|apply Nat.eqb_refl].
Qed.

Lemma read_objs_spec p part ov objs : forall s s',
  Inv (r_files s) -> NoDup (map oid objs) -> (forall o, In o objs -> ~ In (oid o) (r_ids s)) ->
  read_objs _ p part ov objs s = Ok s' ->
  Inv (r_files s') /\
  (forall m x, lookup (r_files s) m = Some x -> lookup (r_files s') m = Some x) /\
  (forall i, ~ In i (map oid objs) -> ofind i (r_store s') = ofind i (r_store s)) /\
  (forall i, In i (r_ids s') <-> In i (r_ids s) \/
        (exists o, In o objs /\ oid o = i /\ (omem i (r_store s) && negb ov = false))) /\
  (forall o, In o objs ->
     if omem (oid o) (r_store s) && negb ov
     then ofind (oid o) (r_store s') = ofind (oid o) (r_store s)
     else exists o', ofind (oid o) (r_store s') = Some o' /\ obj_read p part (r_files s') o o').
Proof.
  induction objs as [|o r IH]; intros s s' HI Hnd Hfresh E.
  - cbn in E. injection E as <-. splits; auto.
    + intros i. split; [auto|]. intros [H|[o [[] _]]]. assumption.
    + intros o [].
  - cbn [read_objs] in E. inversion Hnd as [|? ? Hni Hnd']; subst.
    destruct (existsb (Nat.eqb (oid o)) (r_ids s)) eqn:Eread.
    { exfalso. apply existsb_eqb_in in Eread. eapply Hfresh; [now left|eassumption]. }
    assert (Htail : forall s1, r_ids s1 = r_ids s \/ r_ids s1 = r_ids s ++ [oid o] ->
                    forall o2, In o2 r -> ~ In (oid o2) (r_ids s1)).
    { intros s1 [->| ->] o2 Ho2; [apply Hfresh; now right|].
      rewrite in_app_iff. intros [H|[H|[]]]; [eapply Hfresh; [right; eassumption|assumption]|].
      apply Hni. rewrite H. now apply in_map. }
    destruct (omem (oid o) (r_store s) && negb ov) eqn:Eskip.
    + (* kept: the receiving store already has this id and overriding is off *)
      destruct (IH _ _ HI Hnd' (Htail s (or_introl eq_refl)) E) as [H1 [H2 [H3 [H4 H5]]]].
      splits; auto.
      * intros i Hi. apply H3. cbn in Hi. tauto.
      * intros i. rewrite H4. split.
        -- intros [H|[o2 [Ho2 H]]]; [now left|]. right. exists o2. split; [now right|exact H].
        -- intros [H|[o2 [[<-|Ho2] [Ei H]]]]; [now left| |].
           ++ subst i. congruence.
           ++ right. exists o2. auto.
      * intros o2 [<-|Ho2]; [|now apply H5]. rewrite Eskip. now apply H3.
    + (* added (after discarding the stored object when overriding) *)
      set (S1 := if omem (oid o) (r_store s) then oremove (oid o) (r_store s) else r_store s) in E.
      assert (HS1 : forall i, i <> oid o -> ofind i S1 = ofind i (r_store s)).
      { intros i Hi. subst S1. destruct (omem (oid o) (r_store s)); [now apply ofind_oremove_other|reflexivity]. }
      assert (HS1o : ofind (oid o) S1 = None).
      { subst S1. destruct (omem (oid o) (r_store s)) eqn:Em; [apply ofind_oremove_same|].
        unfold omem in Em. destruct (ofind (oid o) (r_store s)); [discriminate|reflexivity]. }
      assert (Hgen : forall o' F',
                Inv F' -> (forall m x, lookup (r_files s) m = Some x -> lookup F' m = Some x) ->
                oid o' = oid o -> obj_read p part F' o o' ->
                read_objs _ p part ov r (mk_r (S1 ++ [o']) F' (r_ids s ++ [oid o])) = Ok s' ->
                Inv (r_files s') /\
                (forall m x, lookup (r_files s) m = Some x -> lookup (r_files s') m = Some x) /\
                (forall i, ~ In i (map oid (o :: r)) -> ofind i (r_store s') = ofind i (r_store s)) /\
                (forall i, In i (r_ids s') <-> In i (r_ids s) \/
                   (exists o0, In o0 (o :: r) /\ oid o0 = i /\ (omem i (r_store s) && negb ov = false))) /\
                (forall o0, In o0 (o :: r) ->
                   if omem (oid o0) (r_store s) && negb ov
                   then ofind (oid o0) (r_store s') = ofind (oid o0) (r_store s)
                   else exists o1, ofind (oid o0) (r_store s') = Some o1 /\ obj_read p part (r_files s') o0 o1)).
      { intros o' F' HI' Hm' Eid Hor E'.
        destruct (IH (mk_r (S1 ++ [o']) F' (r_ids s ++ [oid o])) s' HI' Hnd' (Htail (mk_r (S1 ++ [o']) F' (r_ids s ++ [oid o])) (or_intror eq_refl)) E')
          as [H1 [H2 [H3 [H4 H5]]]]. cbn [r_files r_store r_ids] in *.
        assert (Hst : forall i, i <> oid o -> ofind i (S1 ++ [o']) = ofind i (r_store s)).
        { intros i Hi. rewrite ofind_app, (HS1 i Hi). destruct (ofind i (r_store s)); [reflexivity|].
          cbn. rewrite Eid. destruct (Nat.eqb_spec (oid o) i); [congruence|reflexivity]. }
        splits; auto.
        - intros i Hi. cbn in Hi. rewrite H3 by tauto. apply Hst. intros ->. tauto.
        - intros i. rewrite H4, in_app_iff. cbn [In]. split.
          + intros [[H|[H|[]]]|[o2 [Ho2 [Ei H]]]].
            * now left.
            * right. exists o. subst i. auto.
            * right. exists o2. split; [now right|]. split; [assumption|].
              unfold omem in *. rewrite Hst in H; [assumption|]. subst i. intros Ec. apply Hni. rewrite <- Ec. now apply in_map.
          + intros [H|[o2 [[<-|Ho2] [Ei H]]]].
            * left. now left.
            * left. right. now left.
            * right. exists o2. split; [assumption|]. split; [assumption|].
              unfold omem in *. rewrite Hst; [assumption|]. subst i. intros Ec. apply Hni. rewrite <- Ec. now apply in_map.
        - intros o0 [<-|Ho0].
          + rewrite Eskip. exists o'. split.
            * rewrite H3 by assumption. rewrite ofind_app, HS1o. cbn. now rewrite Eid, Nat.eqb_refl.
            * eapply obj_read_mono; eauto.
          + assert (Hne : oid o0 <> oid o) by (intros Ec; apply Hni; rewrite <- Ec; now apply in_map).
            specialize (H5 _ Ho0). unfold omem in *. rewrite (Hst _ Hne) in H5. exact H5. }
      destruct o as [i t sb|i t sm nd|i t].
      * apply (Hgen (Shell i t sb) (r_files s)); auto. reflexivity.
      * destruct (collect_files _ p part nd (r_files s)) as [[nd' F']|] eqn:Ec; [|discriminate].
        destruct (collect_files_spec _ _ _ _ _ HI Ec) as [C1 [C2 C3]]. cbn in C1, C2, C3.
        apply (Hgen (Subm i t sm nd') F'); auto. exists nd'. auto.
      * apply (Hgen (CD i t) (r_files s)); auto. reflexivity.
Qed.

Lemma read_objs_ok (p : rpkg) part ov objs : forall s,
  Inv (r_files s) ->
  (forall v, In v (flat_map obj_file_names objs) -> realpath v part <> None) ->
  exists s', read_objs _ p part ov objs s = Ok s'.
Proof.
  induction objs as [|o r IH]; intros s HI Hrp.
  - cbn. eauto.
  - cbn [read_objs]. cbn [flat_map] in Hrp.
    assert (Hr : forall v, In v (flat_map obj_file_names r) -> realpath v part <> None)
      by (intros v Hv; apply Hrp, in_or_app; now right).
    destruct (existsb (Nat.eqb (oid o)) (r_ids s)); [now apply IH|].
    destruct (omem (oid o) (r_store s) && negb ov); [now apply IH|].
    destruct o as [i t sb|i t sm nd|i t]; try (apply IH; auto).
    destruct (collect_files_ok p part nd (r_files s) HI) as [[nd' F'] Ec].
    { intros v Hv. apply Hrp, in_or_app. now left. }
    rewrite Ec. destruct (collect_files_spec _ _ _ _ _ HI Ec) as [C1 _]. apply IH; auto.
Qed.

End Reader.

(* ---------- payload order ------------------------------------------------------------------------ *)
From Coq Require Import Permutation.

Lemma by_kind_perm l : Permutation (by_kind l) l.
Proof.
  unfold by_kind. induction l as [|a l IH]; [constructor|].
  destruct a as [i t sb|i t sm nd|i t]; cbn.
  - now constructor.
  - etransitivity; [symmetry; apply Permutation_middle|]. now constructor.
  - rewrite app_assoc. etransitivity; [symmetry; apply Permutation_middle|]. rewrite <- app_assoc. now constructor.
Qed.

Lemma by_kind_in l x : In x (by_kind l) <-> In x l.
Proof. split; apply Permutation_in; [|symmetry]; apply by_kind_perm. Qed.

Lemma by_kind_nodup l : NoDup (map oid l) -> NoDup (map oid (by_kind l)).
Proof. apply Permutation_NoDup, Permutation_map. symmetry. apply by_kind_perm. Qed.

(* ---------- writer -------------------------------------------------------------------------------- *)

Section RoundTrip.
Variable payload : Type.
Variable encode : bool -> list obj -> payload.
Variable decode : payload -> list obj.
Notation lentry := (lentry payload).
Notation rpkg := (rpkg payload).
Variable opc : list lentry -> rpkg.

Definition part_names (l : list lentry) : list string :=
  flat_map (fun e => match e with LPart _ n _ _ => [norm n] | _ => [] end) l.
Definition rel_srcs (l : list lentry) : list string :=
  flat_map (fun e => match e with LRels _ s _ => [norm s] | _ => [] end) l.

(* trusted: the payload codec (properties C03 / C04) *)
Definition codec_ok : Prop := forall j l, decode (encode j l) = by_kind l.

(* trusted: the OPC container returns what was written, as long as no two parts (and no two
   relationship sources) have the same normalised name *)
Definition opc_ok : Prop := forall log,
  NoDup (part_names log) -> NoDup (rel_srcs log) ->
  (forall n ct b, In (LPart _ n ct b) log -> rp_part _ (opc log) n = Some (ct, b)) /\
  (forall n, ~ In (norm n) (part_names log) -> rp_part _ (opc log) n = None) /\
  (forall src rels t, In (LRels _ src rels) log ->
     rp_rel _ (opc log) src t = map snd (filter (fun p => reltype_eqb (fst p) t) rels)) /\
  (forall src t, ~ In (norm src) (rel_srcs log) -> rp_rel _ (opc log) src t = []).

Definition fpart (e : string * string * content * ctype) : lentry :=
  let '(v, sp, h, ct) := e in LPart _ sp ct (BBytes _ h).
Definition fsp (e : string * string * content * ctype) : string := let '(v, sp, h, ct) := e in sp.

Definition upd_suppl (sp : string) (h : content) (l : list (string * content)) :=
  match sassoc sp l with
  | Some _ => map (fun p => if String.eqb (fst p) sp then (sp, h) else p) l
  | None => l ++ [(sp, h)]
  end.

Lemma sassoc_upd_suppl k sp h l :
  sassoc k (upd_suppl sp h l) = if String.eqb k sp then Some h else sassoc k l.
Proof.
  unfold upd_suppl. destruct (sassoc sp l) eqn:E.
  - assert (G : sassoc k (map (fun p => if String.eqb (fst p) sp then (sp, h) else p) l) =
                if String.eqb k sp then match sassoc sp l with Some _ => Some h | None => None end else sassoc k l).
    { clear E. induction l as [|[k' v'] r IH]; cbn.
      + destruct (String.eqb k sp); reflexivity.
      + destruct (String.eqb_spec k' sp) as [->|Hne]; cbn.
        * rewrite String.eqb_refl. destruct (String.eqb_spec k sp) as [->|]; [reflexivity|exact IH].
        * destruct (String.eqb_spec sp k') as [->|]; [contradiction|].
          destruct (String.eqb_spec k k') as [->|].
          -- destruct (String.eqb_spec k' sp); [contradiction|reflexivity].
          -- exact IH. }
    rewrite G, E. reflexivity.
  - destruct (String.eqb_spec k sp) as [->|Hne].
    + rewrite (sassoc_app_none _ _ _ E). cbn. now rewrite String.eqb_refl.
    + destruct (sassoc k l) eqn:Ek.
      * now rewrite (sassoc_app_some _ _ _ _ Ek).
      * rewrite (sassoc_app_none _ _ _ Ek). cbn. destruct (String.eqb_spec k sp); [contradiction|reflexivity].
Qed.

Lemma part_names_app a b : part_names (a ++ b) = part_names a ++ part_names b.
Proof. unfold part_names. now rewrite flat_map_app. Qed.
Lemma rel_srcs_app a b : rel_srcs (a ++ b) = rel_srcs a ++ rel_srcs b.
Proof. unfold rel_srcs. now rewrite flat_map_app. Qed.
Lemma part_names_fparts l : part_names (map fpart l) = map norm (map fsp l).
Proof. induction l as [|[[[v sp] h] ct] r IH]; cbn; [reflexivity|]. now rewrite <- IH. Qed.
Lemma rel_srcs_fparts l : rel_srcs (map fpart l) = [].
Proof. induction l as [|[[[v sp] h] ct] r IH]; cbn; auto. Qed.

Section Files.
Variable part : string.
Variable F : st.
Hypothesis HI : Inv F.
Variable allv : list string.   (* every File value scanned by the writer call *)
Hypothesis Hreal : forall v, In v allv -> realpath v part <> None.
Hypothesis Hvalid : forall v x sp, In v allv -> lookup F v = Some x -> realpath v part = Some sp ->
                                   valid_part_name sp = true.
Hypothesis Hinj : forall v1 v2 x1 x2 s1 s2, In v1 allv -> In v2 allv ->
  lookup F v1 = Some x1 -> lookup F v2 = Some x2 ->
  realpath v1 part = Some s1 -> realpath v2 part = Some s2 -> norm s1 = norm s2 -> v1 = v2.

Definition written_ok (written : list (string * string * content * ctype)) : Prop :=
  forall v sp h ct, In (v, sp, h, ct) written ->
    In v allv /\ lookup F v = Some (h, ct) /\ realpath v part = Some sp.
Definition suppl_ok (w : wstate payload) (written : list (string * string * content * ctype)) : Prop :=
  forall sp h, sassoc sp (w_suppl _ w) = Some h <-> exists v ct, In (v, sp, h, ct) written.

Lemma write_files_spec files : forall w targets written,
  incl files allv -> written_ok written -> suppl_ok w written -> NoDup (map norm (map fsp written)) ->
  exists w' targets' written',
    write_files _ part F files w targets = Ok (w', targets') /\
    w_log _ w' = w_log _ w ++ map fpart written' /\
    w_aas_parts _ w' = w_aas_parts _ w /\ w_core _ w' = w_core _ w /\ w_thumb _ w' = w_thumb _ w /\
    written_ok (written ++ written') /\ suppl_ok w' (written ++ written') /\
    NoDup (map norm (map fsp (written ++ written'))) /\
    (forall v h ct sp, In v files -> lookup F v = Some (h, ct) -> realpath v part = Some sp ->
                       In (v, sp, h, ct) (written ++ written')).
Proof.
  induction files as [|v r IH]; intros w targets written Hincl Hw Hs Hnd.
  - exists w, targets, []. cbn. rewrite !app_nil_r. splits; auto. intros v h ct sp [].
  - assert (Hv : In v allv) by (apply Hincl; now left).
    assert (Hr : incl r allv) by (intros x Hx; apply Hincl; now right).
    cbn [write_files]. fold (lookup F v).
    destruct (lookup F v) as [[h ct]|] eqn:El.
    2:{ destruct (IH w targets written Hr Hw Hs Hnd) as [w' [t' [wr' [E [H1 [H2 [H3 [H4 [H5 [H6 [H7 H8]]]]]]]]]]].
        exists w', t', wr'. splits; auto. intros v0 h0 ct0 sp0 [<-|Hin] Hl Hrp; [congruence|eauto]. }
    destruct (realpath v part) as [sp|] eqn:Erp; [|exfalso; now apply (Hreal v)].
    pose proof (inv_store_data _ _ _ _ HI El) as Hdata. rewrite Hdata.
    destruct (sassoc sp (w_suppl _ w)) as [h'|] eqn:Esup.
    + destruct (Nat.eqb_spec h' h) as [->|Hne].
      * (* already written *)
        destruct (IH w targets written Hr Hw Hs Hnd) as [w' [t' [wr' [E [H1 [H2 [H3 [H4 [H5 [H6 [H7 H8]]]]]]]]]]].
        exists w', t', wr'. splits; auto. intros v0 h0 ct0 sp0 [<-|Hin] Hl Hrp; [|eauto].
        rewrite El in Hl. injection Hl as <- <-. rewrite Erp in Hrp. injection Hrp as <-.
        apply Hs in Esup. destruct Esup as [v' [ct' Hin']]. destruct (Hw _ _ _ _ Hin') as [A1 [A2 A3]].
        assert (v' = v) by (eapply Hinj; eauto). subst v'. rewrite El in A2. injection A2 as <-.
        apply in_or_app. now left.
      * (* another file was written under this name: excluded by Hinj *)
        exfalso. apply Hs in Esup. destruct Esup as [v' [ct' Hin']]. destruct (Hw _ _ _ _ Hin') as [A1 [A2 A3]].
        assert (v' = v) by (eapply Hinj; eauto). subst v'. congruence.
    + unfold w_open. rewrite (Hvalid _ _ _ Hv El Erp). cbn [w_log w_aas_parts w_suppl w_core w_thumb].
      rewrite Esup.
      set (w1 := mk_w _ _ _ _ _ _).
      assert (Hfresh : ~ In (norm sp) (map norm (map fsp written))).
      { intros Hin. apply in_map_iff in Hin. destruct Hin as [sp' [En Hin]].
        apply in_map_iff in Hin. destruct Hin as [[[[v' sp''] h'] ct'] [Ef Hin]]. cbn in Ef. subst sp''.
        destruct (Hw _ _ _ _ Hin) as [A1 [A2 A3]].
        assert (v' = v) by (eapply Hinj; eauto). subst v'. rewrite Erp in A3. injection A3 as <-.
        rewrite El in A2. injection A2 as <- <-.
        assert (Hc : sassoc sp (w_suppl _ w) = Some h) by (apply Hs; eauto). congruence. }
      destruct (IH w1 (targets ++ [norm sp]) (written ++ [(v, sp, h, ct)]) Hr)
        as [w' [t' [wr' [E [H1 [H2 [H3 [H4 [H5 [H6 [H7 H8]]]]]]]]]]].
      * intros v0 sp0 h0 ct0 Hin. apply in_app_or in Hin. destruct Hin as [Hin|[Hin|[]]]; [eauto|].
        injection Hin as <- <- <- <-. auto.
      * intros sp0 h0. subst w1. cbn [w_suppl]. change (w_suppl payload w ++ [(sp, h)]) with (w_suppl payload w ++ [(sp, h)]).
        assert (Eu : w_suppl payload w ++ [(sp, h)] = upd_suppl sp h (w_suppl payload w)) by (unfold upd_suppl; now rewrite Esup).
        rewrite Eu, sassoc_upd_suppl. destruct (String.eqb_spec sp0 sp) as [->|Hne].
        -- split.
           ++ intros Eh. injection Eh as <-. exists v, ct. apply in_or_app. right. now left.
           ++ intros [v' [ct' Hin]]. apply in_app_or in Hin. destruct Hin as [Hin|[Hin|[]]].
              ** exfalso. apply Hfresh. apply in_map. apply in_map_iff. exists (v', sp, h0, ct'). auto.
              ** now injection Hin as _ <- _.
        -- rewrite (Hs sp0 h0). split; intros [v' [ct' Hin]]; exists v', ct'.
           ++ apply in_or_app. now left.
           ++ apply in_app_or in Hin. destruct Hin as [Hin|[Hin|[]]]; [assumption|]. injection Hin as _ <- _ _. contradiction.
      * rewrite !map_app. cbn. apply NoDup_snoc; assumption.
      * exists w', t', ((v, sp, h, ct) :: wr'). rewrite <- app_assoc in *. cbn [app] in *.
        splits; auto.
        -- subst w1. cbn [w_log] in H1. rewrite H1. rewrite <- app_assoc. reflexivity.
        -- intros v0 h0 ct0 sp0 [<-|Hin] Hl Hrp; [|eauto].
           rewrite El in Hl. injection Hl as <- <-. rewrite Erp in Hrp. injection Hrp as <-.
           apply in_or_app. right. now left.
Qed.
End Files.

(* ---------- a write_aas session and reading it back ---------------------------------------------- *)

Definition part_of (json : bool) : string := if json then "/aasx/data.json" else "/aasx/data.xml".
Definition thumb_t := (string * content * ctype)%type.
Definition core_calls (core : option nat) : list wcall := match core with Some t => [WCore t] | None => [] end.
Definition thumb_calls (thumb : option thumb_t) : list wcall :=
  match thumb with Some (n, d, ct) => [WThumb n d ct] | None => [] end.
(* the documented way of writing a package: write_aas once, then core properties and thumbnail *)
Definition session (ids : list ident) (json : bool) (core : option nat) (thumb : option thumb_t) : list wcall :=
  [WAas ids json] ++ core_calls core ++ thumb_calls thumb.

Definition core_names (core : option nat) : list string := match core with Some _ => [CORE_PART] | None => [] end.
Definition thumb_names (thumb : option thumb_t) : list string := match thumb with Some (n, _, _) => [n] | None => [] end.
Definition fixed_names (json : bool) core thumb : list string :=
  [ORIGIN_PART; part_of json] ++ core_names core ++ thumb_names thumb.

Definition refs (objs : ostore) : list string := flat_map obj_file_names objs.

(* the input class the theorems speak about *)
Record names_ok (F : st) (json : bool) (objs : ostore) (core : option nat) (thumb : option thumb_t) : Prop := {
  (* no local File value climbs above the package root (part_realpath would raise IndexError) *)
  nk_real : forall v, In v (refs objs) -> realpath v (part_of json) <> None;
  (* stored files are referenced under legal OPC part names *)
  nk_valid : forall v x sp, In v (refs objs) -> lookup F v = Some x -> realpath v (part_of json) = Some sp ->
                            valid_part_name sp = true;
  (* two different stored files are not referenced under part names that are equal after normalisation *)
  nk_inj : forall v1 v2 x1 x2 s1 s2, In v1 (refs objs) -> In v2 (refs objs) ->
             lookup F v1 = Some x1 -> lookup F v2 = Some x2 ->
             realpath v1 (part_of json) = Some s1 -> realpath v2 (part_of json) = Some s2 -> norm s1 = norm s2 -> v1 = v2;
  (* ... nor under the name of one of the package's own parts *)
  nk_res : forall v x sp, In v (refs objs) -> lookup F v = Some x -> realpath v (part_of json) = Some sp ->
                          ~ In (norm sp) (map norm (fixed_names json core thumb));
  nk_fixed : NoDup (map norm (fixed_names json core thumb));
  nk_thumb : forall n, In n (thumb_names thumb) -> valid_part_name n = true
}.

Lemma valid_part_of json : valid_part_name (part_of json) = true.
Proof. destruct json; vm_compute; reflexivity. Qed.
Lemma valid_origin : valid_part_name ORIGIN_PART = true.
Proof. vm_compute; reflexivity. Qed.
Lemma valid_core : valid_part_name CORE_PART = true.
Proof. vm_compute; reflexivity. Qed.

Definition core_parts (core : option nat) : list lentry :=
  match core with Some t => [LPart _ CORE_PART CT_XML (BCore _ t)] | None => [] end.
Definition thumb_parts (thumb : option thumb_t) : list lentry :=
  match thumb with Some (n, d, ct) => [LPart _ n ct (BBytes _ d)] | None => [] end.
Definition pkg_rels (core : option nat) (thumb : option thumb_t) : list (reltype * string) :=
  [(ROrigin, ORIGIN_PART)] ++ (match core with Some _ => [(RCore, CORE_PART)] | None => [] end)
  ++ (match thumb with Some (n, _, _) => [(RThumb, n)] | None => [] end).

Lemma w_close_eq (w : wstate payload) :
  w_close _ w = Ok (w_log _ w ++ [LRels _ ORIGIN_PART (map (fun p => (RSpec, p)) (w_aas_parts _ w));
                                  LRels _ "/" ([(ROrigin, ORIGIN_PART)]
                                     ++ (if w_core _ w then [(RCore, CORE_PART)] else [])
                                     ++ (match w_thumb _ w with Some t => [(RThumb, t)] | None => [] end))]).
Proof.
  unfold w_close, w_rels. rewrite valid_origin, orb_true_r. cbn [w_log w_aas_parts w_suppl w_core w_thumb].
  rewrite String.eqb_refl. cbn [orb w_log]. rewrite <- app_assoc. reflexivity.
Qed.

Lemma tail_calls S F w core thumb :
  w_core _ w = false -> w_thumb _ w = None -> (forall n, In n (thumb_names thumb) -> valid_part_name n = true) ->
  wsession _ encode S F w (core_calls core ++ thumb_calls thumb) =
  Ok (w_log _ w ++ core_parts core ++ thumb_parts thumb ++
      [LRels _ ORIGIN_PART (map (fun p => (RSpec, p)) (w_aas_parts _ w)); LRels _ "/" (pkg_rels core thumb)]).
Proof.
  intros Hc Ht Hv. destruct w as [lg ap su co th]. cbn in Hc, Ht. subst co th.
  destruct core as [t|]; destruct thumb as [[[n d] ct]|]; cbn [core_calls thumb_calls app wsession wstep].
  - unfold write_core_properties, w_open. cbn [w_core w_thumb w_log w_aas_parts w_suppl]. rewrite valid_core.
    cbn [w_core w_thumb w_log w_aas_parts w_suppl]. unfold write_thumbnail, w_open.
    cbn [w_core w_thumb w_log w_aas_parts w_suppl]. rewrite (Hv n (or_introl eq_refl)).
    cbn [w_core w_thumb w_log w_aas_parts w_suppl]. rewrite w_close_eq.
    cbn [w_core w_thumb w_log w_aas_parts w_suppl core_parts thumb_parts pkg_rels]. rewrite <- !app_assoc. reflexivity.
  - unfold write_core_properties, w_open. cbn [w_core w_thumb w_log w_aas_parts w_suppl]. rewrite valid_core.
    cbn [w_core w_thumb w_log w_aas_parts w_suppl]. rewrite w_close_eq.
    cbn [w_core w_thumb w_log w_aas_parts w_suppl core_parts thumb_parts pkg_rels]. rewrite <- !app_assoc. reflexivity.
  - unfold write_thumbnail, w_open.
    cbn [w_core w_thumb w_log w_aas_parts w_suppl]. rewrite (Hv n (or_introl eq_refl)).
    cbn [w_core w_thumb w_log w_aas_parts w_suppl]. rewrite w_close_eq.
    cbn [w_core w_thumb w_log w_aas_parts w_suppl core_parts thumb_parts pkg_rels]. rewrite <- !app_assoc. reflexivity.
  - rewrite w_close_eq. cbn [w_core w_thumb w_log w_aas_parts w_suppl core_parts thumb_parts pkg_rels]. reflexivity.
Qed.

Lemma NoDup_app_intro {A} (a b : list A) :
  NoDup a -> NoDup b -> (forall x, In x a -> ~ In x b) -> NoDup (a ++ b).
Proof.
  induction a as [|x r IH]; cbn; intros Ha Hb Hd; [assumption|].
  inversion Ha; subst. constructor.
  - rewrite in_app_iff. intros [H|H]; [contradiction|]. eapply Hd; [now left|eassumption].
  - apply IH; [assumption|assumption|]. intros y Hy. apply Hd. now right.
Qed.

Lemma Forall2_impl_in {A B} (R R' : A -> B -> Prop) l l' :
  (forall a b, In a l -> R a b -> R' a b) -> Forall2 R l l' -> Forall2 R' l l'.
Proof.
  intros H F2. induction F2; constructor.
  - apply H; [now left|assumption].
  - apply IHF2. intros a b Ha. apply H. now right.
Qed.

(* what the property promises for one submodel element: everything but a File value is unchanged; a
   File value that named a stored file names, afterwards, a file of the receiving container with the
   same content and content type *)
Definition node_ok (F F' : st) (n n' : node) : Prop :=
  n_path n' = n_path n /\ n_sems n' = n_sems n /\ n_tok n' = n_tok n /\
  match node_file_names n with
  | [v] =>
    match lookup F v with
    | Some x => exists fin, n_file n' = Some (Some fin) /\ lookup F' fin = Some x
    | None => n_file n' = n_file n \/ exists fin, n_file n' = Some (Some fin) /\ lookup F' fin <> None
    end
  | _ => n_file n' = n_file n
  end.
Definition obj_ok (F F' : st) (o o' : obj) : Prop :=
  match o with
  | Subm i tok sems nodes => exists nodes', o' = Subm i tok sems nodes' /\ Forall2 (node_ok F F') nodes nodes'
  | _ => o' = o
  end.

Lemma filter_suppl_split (targets : list string) :
  map snd (filter (fun p : reltype * string => reltype_eqb (fst p) RSplit) (map (fun t => (RSuppl, t)) targets)) = [].
Proof. induction targets; cbn; auto. Qed.

Theorem roundtrip_spec S F ids json core thumb S0 F0 ov objs :
  codec_ok -> opc_ok -> Inv F -> Inv F0 -> closure S ids = Ok objs -> names_ok F json objs core thumb ->
  exists log s,
    write_package _ encode S F (session ids json core thumb) = Ok log /\
    read_into _ decode (opc log) S0 F0 ov = Ok s /\
    get_core_properties _ (opc log) = core /\
    get_thumbnail _ (opc log) = option_map (fun t : thumb_t => snd (fst t)) thumb /\
    Inv (r_files s) /\
    (forall m x, lookup F0 m = Some x -> lookup (r_files s) m = Some x) /\
    (forall i, ~ In i (map oid objs) -> ofind i (r_store s) = ofind i S0) /\
    (forall i, In i (r_ids s) <-> exists o, In o objs /\ oid o = i /\ (omem i S0 && negb ov = false)) /\
    (forall o, In o objs ->
       if omem (oid o) S0 && negb ov then ofind (oid o) (r_store s) = ofind (oid o) S0
       else exists o', ofind (oid o) (r_store s) = Some o' /\ obj_ok F (r_files s) o o').
Proof.
  intros Hcodec Hopc HI HI0 Hcl Hn. destruct Hn as [Nreal Nvalid Ninj Nres Nfixed Nthumb].
  set (part := part_of json) in *.
  (* --- the writer --- *)
  unfold write_package, session. cbn [app wsession wstep]. unfold write_aas. rewrite Hcl.
  unfold write_all_aas_objects, w_open at 1. cbn [w_init w_log w_aas_parts w_suppl w_core w_thumb].
  change (if json then "/aasx/data.json" else "/aasx/data.xml") with part.
  replace (valid_part_name part) with true by (symmetry; apply valid_part_of).
  set (w1 := mk_w _ _ _ _ _ _).
  destruct (write_files_spec part F HI (refs objs) Nreal Nvalid Ninj (refs objs) w1 [] [])
    as [w2 [targets [written [Ew [L1 [L2 [L3 [L4 [Wok [Sok [Wnd Wall]]]]]]]]]]].
  { apply incl_refl. } { intros v sp h ct []. } { intros sp h. subst w1. cbn. split; [discriminate|intros [v [ct []]]]. }
  { constructor. }
  fold (refs objs). rewrite Ew. rewrite app_nil_r. unfold w_rels.
  replace (valid_part_name part) with true by (symmetry; apply valid_part_of). rewrite orb_true_r.
  set (w3 := mk_w _ _ _ _ _ _).
  rewrite (tail_calls S F w3 core thumb); [|subst w3 w1; cbn; now rewrite L3|subst w3 w1; cbn; now rewrite L4|exact Nthumb].
  subst w3. cbn [w_log w_aas_parts]. rewrite L1, L2. subst w1. cbn [w_log w_aas_parts app].
  set (suppl := map (fun t => (RSuppl, t)) targets).
  rewrite <- !app_assoc. cbn [app map].
  match goal with |- exists l s, Ok ?L = Ok l /\ _ => set (log := L) end.
  (* --- what the reader sees --- *)
  assert (Hparts : Permutation (part_names log) (map norm (fixed_names json core thumb) ++ map norm (map fsp written))).
  { subst log. change (part_names (?a :: ?b :: ?r)) with (norm ORIGIN_PART :: norm part :: part_names r).
    change (LRels payload part suppl :: ?r) with ([LRels payload part suppl] ++ r).
    rewrite !part_names_app. cbn [part_names flat_map app].
    rewrite part_names_fparts.
    unfold fixed_names. cbn [app map]. fold part. do 2 apply perm_skip.
    replace (part_names (core_parts core)) with (map norm (core_names core)) by (destruct core; reflexivity).
    replace (part_names (thumb_parts thumb)) with (map norm (thumb_names thumb)) by (destruct thumb as [[[? ?] ?]|]; reflexivity).
    rewrite app_nil_r, map_app. apply Permutation_app_comm. }
  assert (Hnd : NoDup (part_names log)).
  { eapply Permutation_NoDup; [symmetry; exact Hparts|]. apply NoDup_app_intro; auto.
    intros x Hx Hy. apply in_map_iff in Hy. destruct Hy as [sp [<- Hsp]].
    apply in_map_iff in Hsp. destruct Hsp as [[[[v sp'] h] ct] [Ef Hin]]. cbn in Ef. subst sp'.
    destruct (Wok _ _ _ _ Hin) as [A1 [A2 A3]]. eapply Nres; eauto. }
  assert (Hrs : rel_srcs log = [norm part; norm ORIGIN_PART; norm "/"]).
  { subst log. change (rel_srcs (?a :: ?b :: ?r)) with (rel_srcs r).
    change (LRels payload part suppl :: ?r) with ([LRels payload part suppl] ++ r).
    rewrite !rel_srcs_app. cbn [rel_srcs flat_map app]. rewrite rel_srcs_fparts.
    replace (rel_srcs (core_parts core)) with (@nil string) by (destruct core; reflexivity).
    replace (rel_srcs (thumb_parts thumb)) with (@nil string) by (destruct thumb as [[[? ?] ?]|]; reflexivity).
    reflexivity. }
  assert (Hnd2 : NoDup (rel_srcs log)).
  { rewrite Hrs. subst part. destruct json; vm_compute; repeat constructor; cbn; intuition discriminate. }
  destruct (Hopc log Hnd Hnd2) as [Ppart [Pnone [Prel Pnorel]]].
  assert (InOrigin : In (LRels _ ORIGIN_PART [(RSpec, part)]) log).
  { subst log. cbn [app]. right. right. apply in_or_app. right. right. apply in_or_app. right. apply in_or_app. right. now left. }
  assert (InRoot : In (LRels _ "/" (pkg_rels core thumb)) log).
  { subst log. cbn [app]. right. right. apply in_or_app. right. right. apply in_or_app. right. apply in_or_app. right. right. now left. }
  assert (InSuppl : In (LRels _ part suppl) log).
  { subst log. cbn [app]. right. right. apply in_or_app. right. now left. }
  assert (InPayload : In (LPart _ part (if json then CT_JSON else CT_XML) (BPayload _ (encode json objs))) log).
  { subst log. cbn [app]. right. now left. }
  (* --- the reader --- *)
  assert (Hreal' : forall v, In v (flat_map obj_file_names (by_kind objs)) -> realpath v part <> None).
  { intros v Hv. apply Nreal. unfold refs. apply in_flat_map in Hv. destruct Hv as [o [Ho Hv]].
    apply in_flat_map. exists o. split; [now apply by_kind_in|assumption]. }
  destruct (read_objs_ok _ (opc log) part ov (by_kind objs) (mk_r S0 F0 []) HI0 Hreal') as [s1 Er].
  exists log, s1. split; [reflexivity|]. split.
  { unfold read_into. rewrite (Prel _ _ ROrigin InRoot).
    assert (Eo : map snd (filter (fun p : reltype * string => reltype_eqb (fst p) ROrigin) (pkg_rels core thumb)) = [ORIGIN_PART])
      by (destruct core; destruct thumb as [[[? ?] ?]|]; reflexivity).
    rewrite Eo. rewrite (Prel _ _ RSpec InOrigin). cbn [filter map fst snd reltype_eqb read_spec_parts].
    unfold read_part at 1, parse_part. rewrite (Ppart _ _ _ InPayload).
    match goal with |- context [if ?c then Ok (decode _) else _] =>
      replace c with true by (unfold part; case json; reflexivity) end.
    rewrite Hcodec, Er. rewrite (Prel _ _ RSplit InSuppl). subst suppl. rewrite filter_suppl_split. reflexivity. }
  pose proof (closure_nodup _ _ _ Hcl) as Hndo.
  destruct (read_objs_spec _ (opc log) part ov (by_kind objs) (mk_r S0 F0 []) s1 HI0 (by_kind_nodup _ Hndo) (fun o _ H => H) Er)
    as [R1 [R2 [R3 [R4 R5]]]]. cbn [r_files r_store r_ids] in *.
  splits.
  - (* core properties *)
    unfold get_core_properties. rewrite (Prel _ _ RCore InRoot).
    destruct core as [t|].
    + assert (Hin : In (LPart _ CORE_PART CT_XML (BCore _ t)) log).
      { subst log. cbn [app]. right. right. apply in_or_app. right. right. apply in_or_app. left. now left. }
      destruct thumb as [[[? ?] ?]|]; cbn; now rewrite (Ppart _ _ _ Hin).
    + destruct thumb as [[[? ?] ?]|]; reflexivity.
  - (* thumbnail *)
    unfold get_thumbnail. rewrite (Prel _ _ RThumb InRoot).
    destruct thumb as [[[n d] ct]|].
    + assert (Hin : In (LPart _ n ct (BBytes _ d)) log).
      { subst log. cbn [app]. right. right. apply in_or_app. right. right. apply in_or_app. right. apply in_or_app. left. now left. }
      destruct core; cbn; now rewrite (Ppart _ _ _ Hin).
    + destruct core; reflexivity.
  - assumption.
  - assumption.
  - intros i Hi. apply R3. intros Hc. apply Hi. apply in_map_iff in Hc. destruct Hc as [o [Eo' Ho]].
    apply in_map_iff. exists o. split; [assumption|now apply by_kind_in].
  - intros i. rewrite R4. split.
    + intros [[]|[o [Ho H]]]. exists o. split; [now apply by_kind_in|exact H].
    + intros [o [Ho H]]. right. exists o. split; [now apply by_kind_in|exact H].
  - intros o Ho. specialize (R5 o (proj2 (by_kind_in _ _) Ho)).
    destruct (omem (oid o) S0 && negb ov); [assumption|].
    destruct R5 as [o' [Ef Hr]]. exists o'. split; [assumption|].
    destruct o as [i t sb|i t sm nd|i t]; cbn in Hr |- *; auto.
    destruct Hr as [nd' [-> HF2]]. exists nd'. split; [reflexivity|].
    eapply Forall2_impl_in; [|exact HF2]. intros n n' Hin Hnr.
    assert (Hsub : forall v, In v (node_file_names n) -> In v (refs objs)).
    { intros v Hv. unfold refs. apply in_flat_map. exists (Subm i t sm nd). split; [assumption|].
      cbn. apply in_flat_map. exists n. auto. }
    unfold node_read in Hnr. unfold node_ok.
    destruct (node_file_names n) as [|v [|]] eqn:En; try (subst n'; auto).
    assert (Hv : In v (refs objs)) by (apply Hsub; now left).
    destruct (realpath v part) as [abs|] eqn:Erp; [|contradiction].
    destruct (lookup F v) as [[h ct]|] eqn:El.
    + pose proof (Wall _ _ _ _ Hv El Erp) as Hw. cbn [app] in Hw.
      assert (HinL : In (LPart _ abs ct (BBytes _ h)) log).
      { subst log. cbn [app]. right. right. apply in_or_app. left.
        apply in_map_iff. exists (v, abs, h, ct). auto. }
      rewrite (Ppart _ _ _ HinL) in Hnr. destruct Hnr as [fin [-> Hl]]. cbn. splits; auto. exists fin. auto.
    + destruct (rp_part _ (opc log) abs) as [[ct b]|].
      * destruct Hnr as [fin [-> Hl]]. cbn. splits; auto. right. exists fin. split; [reflexivity|congruence].
      * subst n'. splits; auto.
Qed.

End RoundTrip.

(* ---------- corollaries in the form used by props/C08.v ------------------------------------------ *)

Section Corollaries.
Variable payload : Type.
Variable encode : bool -> list obj -> payload.
Variable decode : payload -> list obj.
Variable opc : list (lentry payload) -> rpkg payload.
Hypothesis Hcodec : codec_ok payload encode decode.
Hypothesis Hopc : opc_ok payload opc.

Variables (S : ostore) (fops : list op) (ids : list ident) (json : bool) (core : option nat)
          (thumb : option thumb_t) (S0 : ostore) (f0ops : list op) (ov : bool) (objs : ostore).
Hypothesis Hcl : closure S ids = Ok objs.
Hypothesis Hn : names_ok (run fops) json objs core thumb.

Let F := run fops.
Let F0 := run f0ops.

Lemma rt_ok : exists log s,
  write_package _ encode S F (session ids json core thumb) = Ok log /\
  read_into _ decode (opc log) S0 F0 ov = Ok s.
Proof.
  destruct (roundtrip_spec _ encode decode opc S F ids json core thumb S0 F0 ov objs Hcodec Hopc
              (Inv_run fops) (Inv_run f0ops) Hcl Hn) as [log [s [H1 [H2 _]]]]. eauto.
Qed.

Section Given.
Variables (log : list (lentry payload)) (s : rstate).
Hypothesis Hw : write_package _ encode S F (session ids json core thumb) = Ok log.
Hypothesis Hr : read_into _ decode (opc log) S0 F0 ov = Ok s.

Lemma rt_all :
    get_core_properties _ (opc log) = core /\
    get_thumbnail _ (opc log) = option_map (fun t : thumb_t => snd (fst t)) thumb /\
    Inv (r_files s) /\
    (forall m x, lookup F0 m = Some x -> lookup (r_files s) m = Some x) /\
    (forall i, ~ In i (map oid objs) -> ofind i (r_store s) = ofind i S0) /\
    (forall i, In i (r_ids s) <-> exists o, In o objs /\ oid o = i /\ (omem i S0 && negb ov = false)) /\
    (forall o, In o objs ->
       if omem (oid o) S0 && negb ov then ofind (oid o) (r_store s) = ofind (oid o) S0
       else exists o', ofind (oid o) (r_store s) = Some o' /\ obj_ok F (r_files s) o o').
Proof.
  destruct (roundtrip_spec _ encode decode opc S F ids json core thumb S0 F0 ov objs Hcodec Hopc
              (Inv_run fops) (Inv_run f0ops) Hcl Hn) as [log' [s' [H1 [H2 H3]]]].
  rewrite Hw in H1. injection H1 as <-. rewrite Hr in H2. injection H2 as <-. exact H3.
Qed.

Lemma rt_objects o : In o objs -> omem (oid o) S0 && negb ov = false ->
  exists o', ofind (oid o) (r_store s) = Some o' /\ obj_ok F (r_files s) o o'.
Proof.
  intros Ho E. destruct rt_all as [_ [_ [_ [_ [_ [_ H]]]]]]. specialize (H o Ho). now rewrite E in H.
Qed.

Lemma Forall2_nth {A B} (R : A -> B -> Prop) l l' k a :
  Forall2 R l l' -> nth_error l k = Some a -> exists b, nth_error l' k = Some b /\ R a b.
Proof.
  intros H. revert k. induction H; intros [|k] E; cbn in *; try discriminate.
  - injection E as <-. eauto.
  - eauto.
Qed.

Lemma rt_files i tok sems nodes k n v x :
  In (Subm i tok sems nodes) objs -> omem i S0 && negb ov = false ->
  nth_error nodes k = Some n -> node_file_names n = [v] -> lookup F v = Some x ->
  exists nodes' n' fin,
    ofind i (r_store s) = Some (Subm i tok sems nodes') /\ nth_error nodes' k = Some n' /\
    n_file n' = Some (Some fin) /\ lookup (r_files s) fin = Some x /\
    n_path n' = n_path n /\ n_sems n' = n_sems n /\ n_tok n' = n_tok n.
Proof.
  intros Ho E Hk Hf Hl. destruct (rt_objects _ Ho E) as [o' [Ef [nodes' [-> HF2]]]].
  destruct (Forall2_nth _ _ _ _ _ HF2 Hk) as [n' [Hk' [P1 [P2 [P3 P4]]]]].
  rewrite Hf, Hl in P4. destruct P4 as [fin [Q1 Q2]].
  exists nodes', n', fin. cbn in Ef. splits; auto.
Qed.

Lemma rt_existing o : In o objs -> omem (oid o) S0 = true -> ov = false ->
  ofind (oid o) (r_store s) = ofind (oid o) S0.
Proof.
  intros Ho E Eov. destruct rt_all as [_ [_ [_ [_ [_ [_ H]]]]]]. specialize (H o Ho). now rewrite E, Eov in H.
Qed.

Lemma rt_frame :
  (forall i, ~ In i (map oid objs) -> ofind i (r_store s) = ofind i S0) /\
  (forall i, In i (r_ids s) <-> exists o, In o objs /\ oid o = i /\ (omem i S0 && negb ov = false)) /\
  (forall m x, lookup F0 m = Some x -> lookup (r_files s) m = Some x).
Proof. destruct rt_all as [_ [_ [_ [H1 [H2 [H3 _]]]]]]. auto. Qed.

Lemma rt_core_thumb :
  get_core_properties _ (opc log) = core /\
  get_thumbnail _ (opc log) = option_map (fun t : thumb_t => snd (fst t)) thumb.
Proof. destruct rt_all as [H1 [H2 _]]. auto. Qed.
End Given.
End Corollaries.

(* ---------- the two premises are satisfiable: identity codec, reference OPC semantics ------------- *)

Lemma id_codec_ok : codec_ok id_payload id_encode id_decode.
Proof. intros j l. reflexivity. Qed.

Lemma norm_char_idem a : norm (norm (String a "")) = norm (String a "").
Proof. destruct a as [[] [] [] [] [] [] [] []]; vm_compute; reflexivity. Qed.

Lemma norm_app s t : norm (s ++ t)%string = (norm s ++ norm t)%string.
Proof.
  induction s as [|a r IH]; cbn; [reflexivity|].
  destruct (quote_safe a); cbn; now rewrite IH.
Qed.

Lemma norm_idem s : norm (norm s) = norm s.
Proof.
  induction s as [|a r IH]; [reflexivity|].
  change (String a r) with (String a "" ++ r)%string. rewrite !norm_app, norm_char_idem, IH. reflexivity.
Qed.

Section RefOpc.
Notation lentry := (lentry id_payload).

Lemma ref_body_none (l : list lentry) n : forall acc, ~ In n (part_names _ l) -> ref_body _ l n acc = acc.
Proof.
  induction l as [|[name ct b|src rels] r IH]; intros acc Hn; cbn in *; auto.
  destruct (String.eqb_spec (norm name) n) as [E|_]; [tauto|]. apply IH. tauto.
Qed.

Lemma ref_body_in (l : list lentry) name ct b : forall acc,
  NoDup (part_names _ l) -> In (LPart _ name ct b) l -> ref_body _ l (norm name) acc = Some b.
Proof.
  induction l as [|[name' ct' b'|src rels] r IH]; intros acc Hnd Hin; cbn in *; [tauto| |].
  - inversion Hnd as [|? ? Hni Hnd']; subst. destruct Hin as [E|Hin].
    + injection E as -> -> ->. rewrite String.eqb_refl. now apply ref_body_none.
    + now apply IH.
  - destruct Hin as [E|Hin]; [discriminate|]. now apply IH.
Qed.

Lemma ref_rels_none (l : list lentry) n : forall acc, ~ In n (rel_srcs _ l) -> ref_rels _ l n acc = acc.
Proof.
  induction l as [|[name ct b|src rels] r IH]; intros acc Hn; cbn in *; auto.
  destruct (String.eqb_spec (norm src) n) as [E|_]; [tauto|]. apply IH. tauto.
Qed.

Lemma ref_rels_in (l : list lentry) src rels : forall acc,
  NoDup (rel_srcs _ l) -> In (LRels _ src rels) l -> ref_rels _ l (norm src) acc = rels.
Proof.
  induction l as [|[name' ct' b'|src' rels'] r IH]; intros acc Hnd Hin; cbn in *; [tauto| |].
  - destruct Hin as [E|Hin]; [discriminate|]. now apply IH.
  - inversion Hnd as [|? ? Hni Hnd']; subst. destruct Hin as [E|Hin].
    + injection E as -> ->. rewrite String.eqb_refl. now apply ref_rels_none.
    + now apply IH.
Qed.

Definition parts_ct (l : list lentry) : list (string * ctype) :=
  flat_map (fun e => match e with LPart _ n ct _ => [(n, ct)] | _ => [] end) l.

Lemma dict_set_fresh k v d : ~ In k (map fst d) -> dict_set k v d = d ++ [(k, v)].
Proof.
  induction d as [|[k' v'] r IH]; cbn; intros Hn; [reflexivity|].
  destruct (String.eqb_spec k k') as [->|]; [tauto|]. f_equal. apply IH. tauto.
Qed.

Lemma overrides_nodup (l : list lentry) : forall d,
  NoDup (map norm (map fst d) ++ part_names _ l) -> overrides _ l d = d ++ parts_ct l.
Proof.
  induction l as [|[name ct b|src rels] r IH]; intros d Hnd; cbn in *.
  - now rewrite app_nil_r.
  - assert (Hfresh : ~ In (norm name) (map norm (map fst d))).
    { apply NoDup_remove_2 in Hnd. intros Hc. apply Hnd. apply in_or_app. now left. }
    assert (Hnone : sassoc (norm name) d = None).
    { destruct (sassoc (norm name) d) eqn:E; [|reflexivity]. exfalso. apply Hfresh.
      apply sassoc_in in E. rewrite <- (norm_idem name). now apply in_map. }
    rewrite Hnone, dict_set_fresh.
    + rewrite IH; [now rewrite <- app_assoc|]. rewrite !map_app. cbn. rewrite <- app_assoc. exact Hnd.
    + intros Hc. apply Hfresh. now apply in_map.
  - now apply IH.
Qed.

Lemma ref_ctype_none d n : forall acc, ~ In n (map norm (map fst d)) -> ref_ctype d n acc = acc.
Proof.
  induction d as [|[k v] r IH]; intros acc Hn; cbn in *; auto.
  destruct (String.eqb_spec (norm k) n); [tauto|]. apply IH. tauto.
Qed.

Lemma ref_ctype_in d name ct : forall acc,
  NoDup (map norm (map fst d)) -> In (name, ct) d -> ref_ctype d (norm name) acc = ct.
Proof.
  induction d as [|[k v] r IH]; intros acc Hnd Hin; cbn in *; [tauto|].
  inversion Hnd as [|? ? Hni Hnd']; subst. destruct Hin as [E|Hin].
  - injection E as -> ->. rewrite String.eqb_refl. now apply ref_ctype_none.
  - now apply IH.
Qed.

Lemma parts_ct_keys (l : list lentry) : map norm (map fst (parts_ct l)) = part_names _ l.
Proof. induction l as [|[name ct b|src rels] r IH]; cbn; auto. f_equal. exact IH. Qed.

Lemma parts_ct_in (l : list lentry) name ct b : In (LPart _ name ct b) l -> In (name, ct) (parts_ct l).
Proof.
  induction l as [|[name' ct' b'|src rels] r IH]; cbn; [tauto| |].
  - intros [E|H]; [injection E as -> -> _; now left|right; auto].
  - intros [E|H]; [discriminate|auto].
Qed.

Lemma ref_opc_ok : opc_ok id_payload (ref_opc id_payload).
Proof.
  intros log Hnd Hnd2. splits.
  - intros n ct b Hin. cbn. rewrite (ref_body_in _ _ _ _ _ Hnd Hin).
    rewrite overrides_nodup by (cbn; exact Hnd). cbn [app].
    rewrite (ref_ctype_in _ n ct); [reflexivity| |now apply (parts_ct_in _ _ _ b)].
    now rewrite parts_ct_keys.
  - intros n Hn. cbn. now rewrite ref_body_none.
  - intros src rels t Hin. cbn. now rewrite (ref_rels_in _ _ _ _ Hnd2 Hin).
  - intros src t Hn. cbn. now rewrite ref_rels_none.
Qed.
End RefOpc.

(* ---------- a decision procedure for the input class, used by the Examples ------------------------ *)

Fixpoint nodup_b (l : list string) : bool :=
  match l with
  | [] => true
  | x :: r => negb (existsb (String.eqb x) r) && nodup_b r
  end.

Lemma existsb_streqb x l : existsb (String.eqb x) l = true <-> In x l.
Proof.
  rewrite existsb_exists. split.
  - intros [y [Hy E]]. apply String.eqb_eq in E. now subst.
  - intros H. exists x. split; [assumption|apply String.eqb_refl].
Qed.

Lemma nodup_b_spec l : nodup_b l = true -> NoDup l.
Proof.
  induction l as [|x r IH]; cbn; [constructor|].
  intros H. apply andb_prop in H. destruct H as [H1 H2]. constructor; [|auto].
  intros Hin. apply existsb_streqb in Hin. rewrite Hin in H1. discriminate.
Qed.

Definition stored_refs (F : st) (json : bool) (objs : ostore) : list (string * string) :=
  flat_map (fun v => match lookup F v, realpath v (part_of json) with
                     | Some _, Some sp => [(v, sp)]
                     | _, _ => []
                     end) (refs objs).

Definition names_ok_b (F : st) (json : bool) (objs : ostore) (core : option nat) (thumb : option thumb_t) : bool :=
  let stored := stored_refs F json objs in
  let fixed := map norm (fixed_names json core thumb) in
  forallb (fun v => match realpath v (part_of json) with Some _ => true | None => false end) (refs objs) &&
  forallb (fun p => valid_part_name (snd p)) stored &&
  forallb (fun p1 => forallb (fun p2 => negb (String.eqb (norm (snd p1)) (norm (snd p2)))
                                        || String.eqb (fst p1) (fst p2)) stored) stored &&
  forallb (fun p => negb (existsb (String.eqb (norm (snd p))) fixed)) stored &&
  nodup_b fixed && forallb valid_part_name (thumb_names thumb).

Lemma stored_refs_in F json objs v x sp :
  In v (refs objs) -> lookup F v = Some x -> realpath v (part_of json) = Some sp ->
  In (v, sp) (stored_refs F json objs).
Proof.
  intros Hv Hl Hr. unfold stored_refs. apply in_flat_map. exists v. split; [assumption|].
  rewrite Hl, Hr. now left.
Qed.

Lemma names_ok_b_spec F json objs core thumb :
  names_ok_b F json objs core thumb = true -> names_ok F json objs core thumb.
Proof.
  unfold names_ok_b. intros H.
  apply andb_prop in H; destruct H as [H H0]. apply andb_prop in H; destruct H as [H H1].
  apply andb_prop in H; destruct H as [H H2]. apply andb_prop in H; destruct H as [H H3].
  apply andb_prop in H; destruct H as [H H4].
  rewrite forallb_forall in H, H0, H2, H3, H4.
  constructor.
  - intros v Hv. specialize (H v Hv). destruct (realpath v (part_of json)); [discriminate|discriminate H].
  - intros v x sp Hv Hl Hr. exact (H4 _ (stored_refs_in _ _ _ _ _ _ Hv Hl Hr)).
  - intros v1 v2 x1 x2 s1 s2 Hv1 Hv2 Hl1 Hl2 Hr1 Hr2 En.
    pose proof (H3 _ (stored_refs_in _ _ _ _ _ _ Hv1 Hl1 Hr1)) as G. rewrite forallb_forall in G.
    specialize (G _ (stored_refs_in _ _ _ _ _ _ Hv2 Hl2 Hr2)). cbn [fst snd] in G. rewrite En, String.eqb_refl in G.
    cbn [negb orb] in G. now apply String.eqb_eq in G.
  - intros v x sp Hv Hl Hr Hin. pose proof (H2 _ (stored_refs_in _ _ _ _ _ _ Hv Hl Hr)) as G. cbn [snd] in G.
    apply existsb_streqb in Hin. rewrite Hin in G. discriminate.
  - now apply nodup_b_spec.
  - intros n Hn. exact (H0 n Hn).
Qed.

(* ---------- concrete witnesses ---------------------------------------------------------------------- *)

Definition ex_node (v : string) : node := mk_node [] (Some (Some v)) [] 0.
Definition ex_S : ostore := [Shell 1 0 [2]; Subm 2 0 [] [ex_node "/A.pdf"; ex_node "/a.pdf"]].
Definition ex_fops : list op := [Add "/A.pdf" 1 4; Add "/a.pdf" 2 4].

Lemma collision_witness :
  exists s nodes',
    roundtrip id_payload id_encode id_decode (ref_opc id_payload) ex_S (run ex_fops)
              (session [1] false None None) [] init false = Ok s /\
    ofind 2 (r_store s) = Some (Subm 2 0 [] nodes') /\
    map (fun n => match n_file n with Some (Some v) => lookup (r_files s) v | _ => None end) nodes'
      = [Some (2, 4); Some (2, 4)] /\
    map (lookup (run ex_fops)) ["/A.pdf"; "/a.pdf"]%string = [Some (1, 4); Some (2, 4)].
Proof.
  eexists. eexists. split; [vm_compute; reflexivity|]. split; [vm_compute; reflexivity|].
  split; vm_compute; reflexivity.
Qed.

Definition example_S : ostore :=
  [Shell 1 0 [3; 9]; Shell 2 0 [3];
   Subm 3 0 [mk_sref true 4]
     [mk_node [] None [mk_sref false 4; mk_sref true 5] 0;
      mk_node [] None [] 1;
      mk_node [CEntity] (Some (Some "/docs/a.pdf")) [] 2;
      mk_node [] None [] 3;
      mk_node [COpIn] (Some (Some "b.txt")) [mk_sref true 8] 4;
      mk_node [COpOut] (Some (Some "http://x/y")) [] 5;
      mk_node [CColl; CList] (Some (Some "/missing.bin")) [] 6;
      mk_node [] (Some None) [] 7];
   CD 4 0; CD 5 0; CD 6 0].
Definition example_fops : list op := [Add "/docs/a.pdf" 1 4; Add "b.txt" 2 3; Add "/unused" 3 3].
Definition example_S0 : ostore := [Subm 3 9 [] []; CD 6 9].
Definition example_f0ops : list op := [Add "/docs/a.pdf" 5 4].
Definition example_objs : ostore :=
  [Shell 1 0 [3; 9];
   Subm 3 0 [mk_sref true 4]
     [mk_node [] None [mk_sref false 4; mk_sref true 5] 0;
      mk_node [] None [] 1;
      mk_node [CEntity] (Some (Some "/docs/a.pdf")) [] 2;
      mk_node [] None [] 3;
      mk_node [COpIn] (Some (Some "b.txt")) [mk_sref true 8] 4;
      mk_node [COpOut] (Some (Some "http://x/y")) [] 5;
      mk_node [CColl; CList] (Some (Some "/missing.bin")) [] 6;
      mk_node [] (Some None) [] 7];
   Shell 2 0 [3]; CD 4 0; CD 5 0].
(* returned ids, ids in the receiving store, token and File values (with what they name in the receiving
   container) of submodel 3, the unrelated object 6, the receiving container *)
Definition example_result :=
  match roundtrip id_payload id_encode id_decode (ref_opc id_payload) example_S (run example_fops)
                  (session [1; 2] true (Some 7) (Some ("/thumb.png", 3, 5))) example_S0 (run example_f0ops) true with
  | Ok s => Some (r_ids s, map oid (r_store s),
                  match ofind 3 (r_store s) with
                  | Some (Subm _ tok _ nodes) =>
                    (tok, map (fun n => match n_file n with
                                        | Some (Some v) => Some (v, lookup (r_files s) v)
                                        | _ => None end) nodes)
                  | _ => (99, [])
                  end, ofind 6 (r_store s), names (r_files s))
  | Err _ => None
  end.
Definition example_expected :=
  Some ([1; 2; 3; 4; 5], [6; 1; 2; 3; 4; 5],
        (0, [None; None; Some ("/docs/a_0001.pdf", Some (1, 4)); None;
             Some ("/aasx/b.txt", Some (2, 3)); Some ("http://x/y", None);
             Some ("/missing.bin", None); None]),
        Some (CD 6 9),
        [("/docs/a.pdf", (5, 4)); ("/docs/a_0001.pdf", (1, 4)); ("/aasx/b.txt", (2, 3))]).

Lemma example_ok :
  names_ok_b (run example_fops) true example_objs (Some 7) (Some ("/thumb.png"%string, 3, 5)) = true /\
  closure example_S [1; 2] = Ok example_objs /\
  example_result = example_expected.
Proof. split; [vm_compute; reflexivity|]. split; vm_compute; reflexivity. Qed.
